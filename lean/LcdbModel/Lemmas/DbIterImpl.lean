/-
  The db_iter.c state machine (Model/DbIterImpl.lean) over an internal iterator that simulates a
  cursor over a sorted run `r`:

  1. the loops of the machine refine the pure scans of Lemmas/DbIterScan.lean (`findNext_refines`,
     `findPrevLoop_refines`, `prevScan_refines`) — this is also where fuel sufficiency is shown;
  2. live indices of `r` in order = `visibleMap c r s` (`visibleMap_eq_live`);
  3. `DbIter.ops` simulates the reference cursor over the live keys (`dbiter_sim`).
-/
import LcdbModel.Lemmas.DbIterScan
import LcdbModel.Lemmas.DbIterLive
import LcdbModel.Lemmas.MapCursor
namespace Lcdb.DbIt
open Lcdb Lcdb.Lsm Lcdb.CmpBasic

/-! ### the internal iterator as a cursor -/

section Sim
variable {σ : Type} {I : InternalIter σ} {c : Cmp} {r : Run} {R : σ → Option Nat → Prop}

theorem runEntry_some (r : Run) (p : Nat) : runEntry r (some p) = r[p]? := rfl
theorem runEntry_none (r : Run) : runEntry r none = none := rfl

theorem sim_entry (hsim : InternalIter.Sim I (runIter c r) R) {a : σ} {p : Option Nat} (h : R a p) :
    I.entry a = runEntry r p := hsim.entry a p h

theorem sim_valid (hsim : InternalIter.Sim I (runIter c r) R) {a : σ} {p : Option Nat} (h : R a p) :
    I.valid a = (runEntry r p).isSome := hsim.valid a p h

theorem sim_valid_some (hsim : InternalIter.Sim I (runIter c r) R) {a : σ} {p : Nat} (h : R a (some p))
    (hp : p < r.length) : I.valid a = true := by
  rw [sim_valid hsim h, runEntry_some]
  obtain ⟨e, he, _⟩ := get_of_lt hp
  simp [he]

theorem sim_valid_none (hsim : InternalIter.Sim I (runIter c r) R) {a : σ} (h : R a none) :
    I.valid a = false := by
  rw [sim_valid hsim h]; rfl

theorem sim_next (hsim : InternalIter.Sim I (runIter c r) R) {a : σ} {p : Nat} (h : R a (some p))
    (hp : p < r.length) :
    ∃ a', I.next a = some a' ∧ R a' (if p + 1 < r.length then some (p + 1) else none) := by
  obtain ⟨a', b', h1, h2, h3⟩ := hsim.next a (some p) h (sim_valid_some hsim h hp)
  refine ⟨a', h1, ?_⟩
  simp only [runIter, runNext, hp, if_true, Option.some.injEq] at h2
  rw [h2]; exact h3

theorem sim_prev_succ (hsim : InternalIter.Sim I (runIter c r) R) {a : σ} {p : Nat} (h : R a (some (p + 1)))
    (hp : p + 1 < r.length) : ∃ a', I.prev a = some a' ∧ R a' (some p) := by
  obtain ⟨a', b', h1, h2, h3⟩ := hsim.prev a (some (p + 1)) h (sim_valid_some hsim h hp)
  refine ⟨a', h1, ?_⟩
  simp only [runIter, runPrev, hp, if_true, Option.some.injEq] at h2
  rw [h2]; exact h3

theorem sim_prev_zero (hsim : InternalIter.Sim I (runIter c r) R) {a : σ} (h : R a (some 0))
    (hp : 0 < r.length) : ∃ a', I.prev a = some a' ∧ R a' none := by
  obtain ⟨a', b', h1, h2, h3⟩ := hsim.prev a (some 0) h (sim_valid_some hsim h hp)
  refine ⟨a', h1, ?_⟩
  simp only [runIter, runPrev, hp, if_true, Option.some.injEq] at h2
  rw [h2]; exact h3

theorem sim_first (hsim : InternalIter.Sim I (runIter c r) R) {a : σ} {p : Option Nat} (h : R a p) :
    ∃ a', I.first a = some a' ∧ R a' (runFirst r) := by
  obtain ⟨a', b', h1, h2, h3⟩ := hsim.first a p h
  refine ⟨a', h1, ?_⟩
  simp only [runIter, Option.some.injEq] at h2
  rw [h2]; exact h3

theorem sim_last (hsim : InternalIter.Sim I (runIter c r) R) {a : σ} {p : Option Nat} (h : R a p) :
    ∃ a', I.last a = some a' ∧ R a' (runLast r) := by
  obtain ⟨a', b', h1, h2, h3⟩ := hsim.last a p h
  refine ⟨a', h1, ?_⟩
  simp only [runIter, Option.some.injEq] at h2
  rw [h2]; exact h3

theorem sim_seek (hsim : InternalIter.Sim I (runIter c r) R) {a : σ} {p : Option Nat} (h : R a p)
    (k : Bytes) (pk : Nat) : ∃ a', I.seek k pk a = some a' ∧ R a' (runSeekIdx c r k pk) := by
  obtain ⟨a', b', h1, h2, h3⟩ := hsim.seek k pk a p h
  refine ⟨a', h1, ?_⟩
  simp only [runIter, Option.some.injEq] at h2
  rw [h2]; exact h3

/-! ### the loops refine the pure scans (and never run out of fuel) -/

theorem fscan_none_of_ge {s : Nat} {fuel : Nat} {skipping : Bool} {skip : Bytes} {p : Nat}
    (h : r.length ≤ p) : fscan c s r fuel skipping skip p = none := by
  cases fuel with
  | zero => rfl
  | succ fuel =>
    have : r[p]? = none := List.getElem?_eq_none_iff.mpr h
    simp [fscan, this]

/-- postcondition of find_next_user_entry relative to the pure scan's answer -/
def FNPost (R : σ → Option Nat → Prop) (st st' : DbIter σ) (res : Option Nat) : Prop :=
  st'.dir = st.dir ∧ st'.savedValue = st.savedValue ∧ st'.status = .ok ∧ st'.savedKey = [] ∧
  match res with
  | some q => st'.valid = true ∧ R st'.it (some q)
  | none => st'.valid = false ∧ R st'.it none

theorem fnStep_spec (hsim : InternalIter.Sim I (runIter c r) R) {s fuel : Nat} {skipping : Bool}
    {st : DbIter σ} {p : Nat} (hR : R st.it (some p)) (hp : p < r.length) (hst : st.status = .ok)
    (ih : ∀ (skipping : Bool) (st2 : DbIter σ) (p2 : Nat), R st2.it (some p2) → p2 < r.length →
      r.length < fuel + p2 → st2.status = .ok →
      ∃ st', DbIter.findNextUserEntry I c s fuel skipping st2 = some st' ∧
        FNPost R st2 st' (fscan c s r fuel skipping st2.savedKey p2))
    (hf : r.length < fuel + 1 + p) :
    ∃ st', DbIter.fnStep I (DbIter.findNextUserEntry I c s fuel) skipping st = some st' ∧
      FNPost R st st' (fscan c s r fuel skipping st.savedKey (p + 1)) := by
  obtain ⟨a', hn, hR'⟩ := sim_next hsim hR hp
  unfold DbIter.fnStep
  rw [hn]
  by_cases hp1 : p + 1 < r.length
  · rw [if_pos hp1] at hR'
    have hv := sim_valid_some hsim hR' hp1
    simp only [hv, if_true]
    obtain ⟨st', h1, h2⟩ := ih skipping { st with it := a' } (p + 1) hR' hp1 (by omega) hst
    exact ⟨st', h1, h2⟩
  · rw [if_neg hp1] at hR'
    have hv := sim_valid_none hsim hR'
    simp only [hv, Bool.false_eq_true, if_false]
    refine ⟨_, rfl, ?_⟩
    rw [fscan_none_of_ge (by omega)]
    exact ⟨rfl, rfl, hst, rfl, rfl, hR'⟩

theorem findNext_refines (hsim : InternalIter.Sim I (runIter c r) R) (hk : ∀ e ∈ r, e.kind ≤ 1) (s : Nat) :
    ∀ (fuel : Nat) (skipping : Bool) (st : DbIter σ) (p : Nat), R st.it (some p) → p < r.length →
      r.length < fuel + p → st.status = .ok →
      ∃ st', DbIter.findNextUserEntry I c s fuel skipping st = some st' ∧
        FNPost R st st' (fscan c s r fuel skipping st.savedKey p) := by
  intro fuel
  induction fuel with
  | zero => intro _ _ p _ hp hf _; omega
  | succ fuel ih =>
    intro skipping st p hR hp hf hst
    obtain ⟨e, he, hmem⟩ := get_of_lt hp
    have hek := hk e hmem
    have hent : I.entry st.it = some e := by rw [sim_entry hsim hR, runEntry_some, he]
    unfold DbIter.findNextUserEntry fscan
    simp only [hent, he, DbIter.parseKey, hek, if_true, Bool.true_and]
    by_cases hv : e.seq ≤ s
    · simp only [hv, decide_true, if_true]
      by_cases hk0 : e.kind = 0
      · simp only [hk0, beq_self_eq_true, if_true]
        obtain ⟨st', h1, h2⟩ := fnStep_spec (s := s) (skipping := true) (st := { st with savedKey := e.ukey }) hsim hR hp hst ih (by omega)
        exact ⟨st', h1, h2⟩
      · have hne : (e.kind == 0) = false := by simp [hk0]
        simp only [hne, Bool.false_eq_true, if_false]
        by_cases hh : (skipping && c.compare e.ukey st.savedKey != .gt) = true
        · simp only [hh, if_true]
          exact fnStep_spec hsim hR hp hst ih (by omega)
        · have hh' : (skipping && c.compare e.ukey st.savedKey != .gt) = false := by
            cases h : (skipping && c.compare e.ukey st.savedKey != .gt) with
            | true => exact absurd h hh
            | false => rfl
          simp only [hh', Bool.false_eq_true, if_false]
          exact ⟨_, rfl, rfl, rfl, hst, rfl, rfl, hR⟩
    · simp only [hv, decide_false, Bool.false_eq_true, if_false]
      exact fnStep_spec hsim hR hp hst ih (by omega)

theorem bscan_zero {s fuel vt : Nat} {sk : Bytes} {sv : String} :
    bscan c s r fuel 0 vt sk sv = ⟨none, vt, sk, sv⟩ := by
  cases fuel <;> rfl

theorem pscan_zero {K : Bytes} {fuel : Nat} : pscan c r K fuel 0 = none := by
  cases fuel <;> rfl

/-- postcondition of the loop of find_prev_user_entry relative to the pure scan's answer -/
def FPPost (R : σ → Option Nat → Prop) (st st' : DbIter σ) (vt' : Nat) (res : BRes) : Prop :=
  vt' = res.vt ∧ st'.savedKey = res.sk ∧ st'.savedValue = res.sv ∧ R st'.it res.pos ∧
  st'.dir = st.dir ∧ st'.status = .ok ∧ st'.valid = st.valid

/-- the tail of the loop body: `ldb_iter_prev`, then the loop test -/
theorem fpStep_spec (hsim : InternalIter.Sim I (runIter c r) R) {s fuel : Nat} {vt2 : Nat}
    {st st2 : DbIter σ} {p : Nat} (hR : R st2.it (some p)) (hp : p < r.length) (hst : st2.status = .ok)
    (hd : st2.dir = st.dir) (hvl : st2.valid = st.valid)
    (ih : ∀ (vt : Nat) (st3 : DbIter σ) (p3 : Nat), R st3.it (some p3) → p3 < r.length → p3 < fuel →
      st3.status = .ok →
      ∃ st' vt', DbIter.findPrevLoop I c s fuel vt st3 = some (st', vt') ∧
        FPPost R st3 st' vt' (bscan c s r fuel (p3 + 1) vt st3.savedKey st3.savedValue))
    (hf : p < fuel + 1) :
    ∃ st' vt', (match I.prev st2.it with
        | none => none
        | some it' =>
          if I.valid it' then DbIter.findPrevLoop I c s fuel vt2 { st2 with it := it' }
          else some ({ st2 with it := it' }, vt2)) = some (st', vt') ∧
      FPPost R st st' vt' (bscan c s r fuel p vt2 st2.savedKey st2.savedValue) := by
  cases p with
  | zero =>
    obtain ⟨a', hn, hR'⟩ := sim_prev_zero hsim hR hp
    rw [hn]
    simp only [sim_valid_none hsim hR', Bool.false_eq_true, if_false]
    refine ⟨_, _, rfl, ?_⟩
    rw [bscan_zero]
    exact ⟨rfl, rfl, rfl, hR', hd, hst, hvl⟩
  | succ j =>
    obtain ⟨a', hn, hR'⟩ := sim_prev_succ hsim hR hp
    rw [hn]
    simp only [sim_valid_some hsim hR' (show j < r.length by omega), if_true]
    obtain ⟨st', vt', h1, h2⟩ := ih vt2 { st2 with it := a' } j hR' (by omega) (by omega) hst
    refine ⟨st', vt', h1, ?_⟩
    obtain ⟨g1, g2, g3, g4, g5, g6, g7⟩ := h2
    exact ⟨g1, g2, g3, g4, g5.trans hd, g6, g7.trans hvl⟩

theorem findPrevLoop_refines (hsim : InternalIter.Sim I (runIter c r) R) (hk : ∀ e ∈ r, e.kind ≤ 1) (s : Nat) :
    ∀ (fuel : Nat) (vt : Nat) (st : DbIter σ) (p : Nat), R st.it (some p) → p < r.length → p < fuel →
      st.status = .ok →
      ∃ st' vt', DbIter.findPrevLoop I c s fuel vt st = some (st', vt') ∧
        FPPost R st st' vt' (bscan c s r fuel (p + 1) vt st.savedKey st.savedValue) := by
  intro fuel
  induction fuel with
  | zero => intro _ _ p _ _ hf _; omega
  | succ fuel ih =>
    intro vt st p hR hp hf hst
    obtain ⟨e, he, hmem⟩ := get_of_lt hp
    have hek := hk e hmem
    have hent : I.entry st.it = some e := by rw [sim_entry hsim hR, runEntry_some, he]
    unfold DbIter.findPrevLoop
    simp only [bscan, hent, he, DbIter.parseKey, hek, if_true, Bool.true_and]
    by_cases hv : e.seq ≤ s
    · simp only [hv, decide_true, if_true, Bool.true_and]
      by_cases hb : (vt != 0 && c.compare e.ukey st.savedKey == .lt) = true
      · simp only [hb, if_true]
        exact ⟨_, _, rfl, rfl, rfl, rfl, hR, rfl, hst, rfl⟩
      · have hb' : (vt != 0 && c.compare e.ukey st.savedKey == .lt) = false := by
          cases h : (vt != 0 && c.compare e.ukey st.savedKey == .lt) with
          | true => exact absurd h hb
          | false => rfl
        simp only [hb', Bool.false_eq_true, if_false]
        by_cases hk0 : e.kind = 0
        · simp only [hk0, beq_self_eq_true, if_true]
          exact fpStep_spec (st := st) (st2 := { st with savedKey := [], savedValue := "" }) hsim hR hp hst rfl rfl ih (by omega)
        · have hne : (e.kind == 0) = false := by simp [hk0]
          simp only [hne, Bool.false_eq_true, if_false]
          exact fpStep_spec (st := st) (st2 := { st with savedKey := e.ukey, savedValue := e.val }) hsim hR hp hst rfl rfl ih (by omega)
    · simp only [hv, decide_false, Bool.false_eq_true, if_false, Bool.false_and]
      exact fpStep_spec (st := st) (st2 := st) hsim hR hp hst rfl rfl ih (by omega)

/-- postcondition of the re-scan loop of ldb_dbiter_prev -/
def PSPost (R : σ → Option Nat → Prop) (st st' : DbIter σ) (b : Bool) (res : Option Nat) : Prop :=
  st'.dir = st.dir ∧ st'.status = st.status ∧
  match res with
  | some h => b = false ∧ R st'.it (some h) ∧ st'.savedKey = st.savedKey ∧ st'.savedValue = st.savedValue ∧
      st'.valid = st.valid
  | none => b = true ∧ st'.valid = false ∧ R st'.it none

theorem prevScan_refines (hsim : InternalIter.Sim I (runIter c r) R) :
    ∀ (fuel : Nat) (st : DbIter σ) (p : Nat), R st.it (some p) → p < r.length → p < fuel →
      ∃ st' b, DbIter.prevScan I c fuel st = some (st', b) ∧
        PSPost R st st' b (pscan c r st.savedKey fuel p) := by
  intro fuel
  induction fuel with
  | zero => intro _ p _ _ hf; omega
  | succ fuel ih =>
    intro st p hR hp hf
    unfold DbIter.prevScan
    cases p with
    | zero =>
      obtain ⟨a', hn, hR'⟩ := sim_prev_zero hsim hR hp
      rw [hn]
      simp only [sim_valid_none hsim hR', Bool.not_false, if_true]
      refine ⟨_, _, rfl, ?_⟩
      rw [pscan_zero]
      exact ⟨rfl, rfl, rfl, rfl, hR'⟩
    | succ j =>
      obtain ⟨a', hn, hR'⟩ := sim_prev_succ hsim hR hp
      have hj : j < r.length := by omega
      obtain ⟨e, he, _⟩ := get_of_lt hj
      rw [hn]
      have hent : I.entry a' = some e := by rw [sim_entry hsim hR', runEntry_some, he]
      simp only [sim_valid_some hsim hR' hj, Bool.not_true, Bool.false_eq_true, if_false, hent, pscan, he]
      by_cases hlt : (c.compare e.ukey st.savedKey == .lt) = true
      · simp only [hlt, if_true]
        exact ⟨_, _, rfl, rfl, rfl, rfl, hR', rfl, rfl, rfl⟩
      · have hlt' : (c.compare e.ukey st.savedKey == .lt) = false := by
          cases h : (c.compare e.ukey st.savedKey == .lt) with
          | true => exact absurd h hlt
          | false => rfl
        simp only [hlt', Bool.false_eq_true, if_false]
        obtain ⟨st', b, h1, h2⟩ := ih { st with it := a' } j hR' hj (by omega)
        exact ⟨st', b, h1, h2⟩

/-- number of entries at or before an internal position -/
def kOf : Option Nat → Nat
  | some p => p + 1
  | none => 0

/-- find_prev_user_entry as a whole, from an internal position `p'` (possibly invalid) -/
theorem findPrev_spec (hsim : InternalIter.Sim I (runIter c r) R) (hk : ∀ e ∈ r, e.kind ≤ 1) (s : Nat)
    {fuel : Nat} (hfuel : r.length < fuel) {st : DbIter σ} {p' : Option Nat} (hR : R st.it p')
    (hp' : ∀ p, p' = some p → p < r.length) (hst : st.status = .ok) :
    ∃ st', DbIter.findPrevUserEntry I c s fuel st = some st' ∧ st'.status = .ok ∧
      ((bscan c s r fuel (kOf p') 0 st.savedKey st.savedValue).vt = 0 →
          st'.valid = false ∧ ∃ p, R st'.it p) ∧
      ((bscan c s r fuel (kOf p') 0 st.savedKey st.savedValue).vt ≠ 0 →
          st'.valid = true ∧ st'.dir = st.dir ∧
          st'.savedKey = (bscan c s r fuel (kOf p') 0 st.savedKey st.savedValue).sk ∧
          st'.savedValue = (bscan c s r fuel (kOf p') 0 st.savedKey st.savedValue).sv ∧
          R st'.it (bscan c s r fuel (kOf p') 0 st.savedKey st.savedValue).pos) := by
  unfold DbIter.findPrevUserEntry
  cases p' with
  | none =>
    simp only [kOf, sim_valid_none hsim hR, Bool.false_eq_true, if_false, bscan_zero, beq_self_eq_true, if_true]
    exact ⟨_, rfl, hst, fun _ => ⟨rfl, none, hR⟩, fun h => absurd rfl h⟩
  | some p =>
    have hp := hp' p rfl
    simp only [kOf, sim_valid_some hsim hR hp, if_true]
    obtain ⟨st1, vt', h1, g1, g2, g3, g4, g5, g6, g7⟩ := findPrevLoop_refines hsim hk s fuel 0 st p hR hp (by omega) hst
    rw [h1]
    simp only
    by_cases hvt : vt' = 0
    · simp only [hvt, beq_self_eq_true, if_true]
      refine ⟨_, rfl, g6, fun _ => ⟨rfl, _, g4⟩, fun h => ?_⟩
      rw [← g1] at h; exact absurd hvt h
    · have hne : (vt' == 0) = false := by simpa using hvt
      simp only [hne, Bool.false_eq_true, if_false]
      refine ⟨_, rfl, g6, fun h => ?_, fun _ => ⟨rfl, g5, g2, g3, g4⟩⟩
      rw [← g1] at h; exact absurd h hvt

end Sim

/-! ### where the scans land, in terms of the rank among live indices -/

section Core
variable {c : Cmp} {s : Nat} {r : Run}

theorem fwdInv_after {q₀ : Nat} (hs : RunSorted c r) (hl : Live s r q₀) :
    FwdInv c s r (q₀ + 1) true (uk r q₀) := by
  refine ⟨?_, ?_, ?_⟩
  · intro i j hi hj hjl hu _
    refine ⟨rfl, ?_⟩
    have := uk_contig hs (show i ≤ q₀ by omega) (show q₀ ≤ j by omega) hjl hu
    rw [this, hu]
  · intro _ j hj hjl
    exact uk_le hs (by omega) hjl
  · intro _ j hj _ hu
    exact not_head_of_vis (show q₀ < j by omega) hu.symm hl.1.1

/-- `next`: the scan started right after the current live index finds the next one -/
theorem next_core (hs : RunSorted c r) (hk : ∀ e ∈ r, e.kind ≤ 1) {q₀ i : Nat} (hl : Live s r q₀)
    (hr : rank s r q₀ = i) {fuel' : Nat} (hf : r.length < fuel' + (q₀ + 1)) :
    match fscan c s r fuel' true (uk r q₀) (q₀ + 1) with
    | some q => (liveIdxs s r)[i + 1]? = some q
    | none => (liveIdxs s r).length = i + 1 := by
  have h := fscan_spec hs hk fuel' true (uk r q₀) (q₀ + 1) hf (fwdInv_after hs hl)
  cases hr' : fscan c s r fuel' true (uk r q₀) (q₀ + 1) with
  | some q =>
    rw [hr'] at h
    simp only at h ⊢
    obtain ⟨h1, h2, h3⟩ := h
    rw [liveIdxs_get]
    refine ⟨h2, ?_⟩
    rw [← rank_eq_of_none h1 (fun j hj hjq => h3 j hj hjq), rank_succ_live hl, hr]
  | none =>
    rw [hr'] at h
    simp only at h ⊢
    rw [liveIdxs_length, ← rank_eq_of_none (show q₀ + 1 ≤ r.length from hl.lt) (fun j hj _ => h j hj),
      rank_succ_live hl, hr]

/-- coming from the reverse direction: the invisible entries before the current key's head and the
    head itself are stepped over, then the scan continues as in the forward case -/
theorem fscan_from_rev {q₀ a fuel : Nat} (hl : Live s r q₀) (ha : a ≤ q₀)
    (hinv : ∀ j, a ≤ j → j < q₀ → vis s r j = false) (hf : q₀ - a < fuel) :
    fscan c s r fuel true (uk r q₀) a = fscan c s r (fuel - (q₀ - a) - 1) true (uk r q₀) (q₀ + 1) := by
  obtain ⟨e, he, _⟩ := get_of_lt hl.lt
  have h1 : fuel = (fuel - (q₀ - a) - 1 + 1) + (q₀ - a) := by omega
  have h2 := fscan_skip_invisible (c := c) (s := s) (r := r) true (uk r q₀) (q₀ - a) (fuel - (q₀ - a) - 1 + 1) a
    (fun j hj hjl => hinv j hj (by omega)) (by have := hl.lt; omega)
  rw [show a + (q₀ - a) = q₀ by omega] at h2
  rw [← h1] at h2
  rw [h2]
  have hv := hl.1.1
  rw [vis_of he] at hv
  have hkk := hl.2
  rw [knd_of he] at hkk
  exact fscan_hidden he (by simpa using hv) hkk (uk_of he).symm

/-- `prev`: what the backward scan's answer means for the rank -/
theorem prev_core {q₀ i hi : Nat} (hr : rank s r q₀ = i) (hhi : hi ≤ q₀)
    (hgap : ∀ j, hi ≤ j → j < q₀ → ¬ Live s r j) {res : BRes} (hpost : BPost s r hi res) :
    (res.vt = 0 ∧ i = 0) ∨
    (res.vt = 1 ∧ ∃ q, (liveIdxs s r)[i - 1]? = some q ∧ 0 < i ∧ res.sk = uk r q ∧ res.sv = vl r q ∧
      match res.pos with
      | some p => p < q ∧ ∀ j, p < j → j < q → vis s r j = false
      | none => ∀ j, j < q → vis s r j = false) := by
  rcases hpost with ⟨h0, hn⟩ | ⟨h1, q, hq, hlq, hn, hsk, hsv, hpos⟩
  · left
    refine ⟨h0, ?_⟩
    rw [← hr, ← rank_eq_of_none (Nat.zero_le q₀) (fun j _ hjq => ?_)]
    · rfl
    · rcases Nat.lt_or_ge j hi with h | h
      · exact hn j h
      · exact hgap j h hjq
  · right
    have hrank : rank s r q₀ = rank s r q + 1 := by
      rw [← rank_succ_live hlq]
      exact (rank_eq_of_none (show q + 1 ≤ q₀ by omega) (fun j hj hjq => by
        rcases Nat.lt_or_ge j hi with h | h
        · exact hn j (by omega) h
        · exact hgap j h hjq)).symm
    refine ⟨h1, q, ?_, by omega, hsk, hsv, hpos⟩
    rw [liveIdxs_get]
    exact ⟨hlq, by omega⟩

/-- a live entry that is before the seek key (target, s, SEEK) has a smaller user key -/
theorem live_lt_of_ikLt (hk : ∀ e ∈ r, e.kind ≤ 1) {j : Nat} {k : Bytes} {e : Entry} (he : r[j]? = some e)
    (hv : vis s r j = true) (hlt : ikLt c e.ukey e.packed k (seekPacked s) = true) :
    c.compare (uk r j) k = .lt := by
  rw [uk_of he]
  rcases (ikLt_iff c _ _ _ _).mp hlt with h | ⟨_, h⟩
  · exact h
  · exfalso
    rw [vis_of he] at hv
    have := hk e (List.mem_of_getElem? he)
    simp only [Entry.packed, seekPacked, valtypeSeek, decide_eq_true_eq] at h hv
    omega

end Core

/-! ### the user iterator simulates the reference cursor over the live keys -/

section Main
variable {σ : Type} {I : InternalIter σ} {c : Cmp} {r : Run} {R : σ → Option Nat → Prop}

/-- the user keys of the live entries, in order (= the keys of `visibleMap c r s`) -/
def keysOf (s : Nat) (r : Run) : List Bytes := (liveIdxs s r).map (uk r)

theorem keysOf_length (s : Nat) (r : Run) : (keysOf s r).length = (liveIdxs s r).length := by
  simp [keysOf]

theorem keysOf_getD {s : Nat} {r : Run} {i q : Nat} (h : (liveIdxs s r)[i]? = some q) :
    (keysOf s r).getD i [] = uk r q := by
  simp [keysOf, List.getD_eq_getElem?_getD, h]

/-- reverse direction: the internal iterator is parked before the entries of the current key with
    only invisible entries in between (or ran off the front over invisible entries only) -/
def RevPos (R : σ → Option Nat → Prop) (s : Nat) (r : Run) (a : σ) (q : Nat) : Prop :=
  ∃ p', R a p' ∧
    match p' with
    | some p => p < q ∧ ∀ j, p < j → j < q → vis s r j = false
    | none => ∀ j, j < q → vis s r j = false

/-- the abstraction relation between the state of the user iterator and a cursor position -/
def DRel (R : σ → Option Nat → Prop) (s : Nat) (r : Run) (st : DbIter σ) (cp : Option Nat) : Prop :=
  st.status = .ok ∧ (∃ p, R st.it p) ∧
  match cp with
  | none => st.valid = false
  | some i => st.valid = true ∧ ∃ q, (liveIdxs s r)[i]? = some q ∧
      ((st.dir = .forward ∧ R st.it (some q)) ∨
       (st.dir = .reverse ∧ st.savedKey = uk r q ∧ st.savedValue = vl r q ∧ RevPos R s r st.it q))

/-- common end of `first` / `seek` / `next`: from the answer of the forward scan to the relation -/
theorem drel_of_fnpost {s : Nat} {st st' : DbIter σ} {res : Option Nat} {cp : Option Nat}
    (hpost : FNPost R st st' res) (hdir : st.dir = .forward)
    (hres : match (generalizing := false) res with
      | some q => ∃ i, cp = some i ∧ (liveIdxs s r)[i]? = some q
      | none => cp = none) :
    DRel R s r st' cp := by
  obtain ⟨h1, _, h3, _, h5⟩ := hpost
  cases res with
  | none =>
    simp only at h5 hres
    subst hres
    exact ⟨h3, ⟨none, h5.2⟩, h5.1⟩
  | some q =>
    simp only at h5 hres
    obtain ⟨i, rfl, hi⟩ := hres
    exact ⟨h3, ⟨some q, h5.2⟩, h5.1, q, hi, Or.inl ⟨h1.trans hdir, h5.2⟩⟩

theorem liveIdxs_nil_of_none {s : Nat} (h : ∀ j, ¬ Live s r j) : liveIdxs s r = [] := by
  apply List.eq_nil_of_length_eq_zero
  rw [liveIdxs_length, ← rank_eq_of_none (Nat.zero_le _) (fun j _ _ => h j)]
  rfl

theorem sim_first_field (hsim : InternalIter.Sim I (runIter c r) R) (hs : RunSorted c r)
    (hk : ∀ e ∈ r, e.kind ≤ 1) (s : Nat) {fuel : Nat} (hfuel : r.length + 2 ≤ fuel)
    (st : DbIter σ) (cp : Option Nat) (h : DRel R s r st cp) :
    ∃ st' cp', DbIter.first I c s fuel st = some st' ∧
      (cursorOps c.compare (keysOf s r)).first cp = some cp' ∧ DRel R s r st' cp' := by
  obtain ⟨hst, ⟨p0, hR0⟩, _⟩ := h
  obtain ⟨a', hf, hR'⟩ := sim_first hsim (a := st.it) hR0
  unfold DbIter.first
  simp only [hf, cursorOps]
  by_cases hn : r = []
  · subst hn
    have hR'' : R a' none := hR'
    simp only [sim_valid_none hsim hR'', Bool.false_eq_true, if_false]
    refine ⟨_, _, rfl, rfl, ?_⟩
    have : keysOf s ([] : Run) = [] := rfl
    simp only [this, List.isEmpty_nil, if_true]
    exact ⟨hst, ⟨none, hR''⟩, rfl⟩
  · have hpos : 0 < r.length := List.length_pos_iff.mpr hn
    have hR'' : R a' (some 0) := by
      have : runFirst r = some 0 := by simp [runFirst, hn]
      rw [this] at hR'; exact hR'
    simp only [sim_valid_some hsim hR'' hpos, if_true]
    obtain ⟨st', h1, h2⟩ := findNext_refines hsim hk s fuel false
      { st with dir := .forward, savedValue := "", it := a' } 0 hR'' hpos (by omega) hst
    refine ⟨st', _, h1, rfl, ?_⟩
    have hspec := fscan_spec (s := s) hs hk fuel false st.savedKey 0 (by omega)
      ⟨fun i j hi => (by omega), fun h => (by cases h), fun h => (by cases h)⟩
    have h2' : FNPost R { st with dir := .forward, savedValue := "", it := a' } st'
        (fscan c s r fuel false st.savedKey 0) := h2
    clear h2
    generalize fscan c s r fuel false st.savedKey 0 = res at hspec h2'
    cases res with
    | none =>
      simp only at hspec
      refine drel_of_fnpost h2' rfl ?_
      have : keysOf s r = [] := by
        unfold keysOf; rw [liveIdxs_nil_of_none (fun j => hspec j (Nat.zero_le j))]; rfl
      simp [this]
    | some q =>
      simp only at hspec
      refine drel_of_fnpost h2' rfl ?_
      obtain ⟨_, hl, hnone⟩ := hspec
      have hget : (liveIdxs s r)[0]? = some q := by
        rw [liveIdxs_get]
        exact ⟨hl, (rank_eq_of_none (Nat.zero_le q) (fun j hj hjq => hnone j hj hjq)).symm⟩
      have hne : (keysOf s r).isEmpty = false := by
        cases hk' : keysOf s r with
        | nil =>
          have : (liveIdxs s r).length = 0 := by rw [← keysOf_length, hk']; rfl
          rw [List.getElem?_eq_none (by omega)] at hget; cases hget
        | cons _ _ => rfl
      exact ⟨0, by simp [hne], hget⟩

/-- the internal seek point splits the run: everything before is below the seek key, nothing after is -/
theorem seek_point (hs : RunSorted c r) {k : Bytes} {pk lo : Nat} (h : runSeekIdx c r k pk = some lo) :
    lo < r.length ∧ (∀ j e, j < lo → r[j]? = some e → ikLt c e.ukey e.packed k pk = true) ∧
      (∀ j e, lo ≤ j → r[j]? = some e → ikLt c e.ukey e.packed k pk = false) := by
  unfold runSeekIdx at h
  obtain ⟨hlo, hp, hbefore⟩ := List.findIdx?_eq_some_iff_getElem.mp h
  have hlo' : r[lo]? = some r[lo] := List.getElem?_eq_getElem hlo
  refine ⟨hlo, fun j e hj he => ?_, fun j e hj he => ?_⟩
  · obtain ⟨hjl, rfl⟩ := List.getElem?_eq_some_iff.mp he
    have := hbefore j hj
    simpa using this
  · have h0 : ikLt c r[lo].ukey r[lo].packed k pk = false := by simpa using hp
    rcases Nat.lt_or_eq_of_le hj with hlt | rfl
    · cases hc : ikLt c e.ukey e.packed k pk with
      | false => rfl
      | true =>
        have h1 := sorted_idx hs hlt hlo' he
        unfold entryLt at h1
        rw [ikLt_trans c h1 hc] at h0
        cases h0
    · rw [hlo'] at he
      cases he
      exact h0

theorem seek_none {k : Bytes} {pk : Nat} (h : runSeekIdx c r k pk = none) :
    ∀ (j : Nat) (e : Entry), r[j]? = some e → ikLt c e.ukey e.packed k pk = true := by
  unfold runSeekIdx at h
  intro j e he
  have := List.findIdx?_eq_none_iff.mp h e (List.mem_of_getElem? he)
  simpa using this

/-- where `seek` must land among the live keys -/
theorem seek_cursor (hk : ∀ e ∈ r, e.kind ≤ 1) {s : Nat} {k : Bytes} {lo : Nat}
    (hbefore : ∀ j e, j < lo → r[j]? = some e → ikLt c e.ukey e.packed k (seekPacked s) = true)
    (hafter : ∀ j e, lo ≤ j → r[j]? = some e → ikLt c e.ukey e.packed k (seekPacked s) = false) :
    (∀ q, lo ≤ q → Live s r q → (∀ j, lo ≤ j → j < q → ¬ Live s r j) →
        (keysOf s r).findIdx? (fun k' => c.compare k' k != .lt) = some (rank s r q)) ∧
    ((∀ j, lo ≤ j → ¬ Live s r j) → (keysOf s r).findIdx? (fun k' => c.compare k' k != .lt) = none) := by
  -- a live index below `lo` has a key below `k`
  have hlow : ∀ i q', (liveIdxs s r)[i]? = some q' → q' < lo →
      (c.compare ((keysOf s r).getD i []) k != .lt) = false := by
    intro i q' hi hq'
    rw [keysOf_getD hi]
    have hl := (liveIdxs_get.mp hi).1
    obtain ⟨e, he, _⟩ := get_of_lt hl.lt
    rw [live_lt_of_ikLt hk he hl.1.1 (hbefore q' e hq' he)]
    rfl
  constructor
  · intro q hq hl hnone
    have hget : (liveIdxs s r)[rank s r q]? = some q := liveIdxs_get.mpr ⟨hl, rfl⟩
    have hlt : rank s r q < (keysOf s r).length := by
      rw [keysOf_length]
      exact (List.getElem?_eq_some_iff.mp hget).1
    rw [findIdx?_eq_some_iff_getD]
    refine ⟨hlt, ?_, fun j hj => ?_⟩
    · rw [keysOf_getD hget]
      obtain ⟨e, he, _⟩ := get_of_lt hl.lt
      have h1 := hafter q e hq he
      rw [uk_of he]
      cases hc : c.compare e.ukey k with
      | lt =>
        have : ikLt c e.ukey e.packed k (seekPacked s) = true := (ikLt_iff c _ _ _ _).mpr (Or.inl hc)
        rw [this] at h1; cases h1
      | eq => rfl
      | gt => rfl
    · have hjl : j < (liveIdxs s r).length := by rw [← keysOf_length]; omega
      have hj' : (liveIdxs s r)[j]? = some (liveIdxs s r)[j] := List.getElem?_eq_getElem hjl
      obtain ⟨hlq, hrq⟩ := liveIdxs_get.mp hj'
      apply hlow j _ hj'
      rcases Nat.lt_or_ge (liveIdxs s r)[j] lo with h | h
      · exact h
      · exfalso
        rcases Nat.lt_or_ge (liveIdxs s r)[j] q with h' | h'
        · exact hnone _ h h' hlq
        · have := rank_mono s r h'
          omega
  · intro hnone
    rw [findIdx?_eq_none_iff_getD]
    intro j hj
    have hjl : j < (liveIdxs s r).length := by rw [← keysOf_length]; exact hj
    have hj' : (liveIdxs s r)[j]? = some (liveIdxs s r)[j] := List.getElem?_eq_getElem hjl
    obtain ⟨hlq, _⟩ := liveIdxs_get.mp hj'
    apply hlow j _ hj'
    rcases Nat.lt_or_ge (liveIdxs s r)[j] lo with h | h
    · exact h
    · exact absurd hlq (hnone _ h)

theorem sim_seek_field (hsim : InternalIter.Sim I (runIter c r) R) (hs : RunSorted c r)
    (hk : ∀ e ∈ r, e.kind ≤ 1) (s : Nat) {fuel : Nat} (hfuel : r.length + 2 ≤ fuel)
    (st : DbIter σ) (cp : Option Nat) (k : Bytes) (h : DRel R s r st cp) :
    ∃ st' cp', DbIter.seek I c s fuel k st = some st' ∧
      (cursorOps c.compare (keysOf s r)).seek k cp = some cp' ∧ DRel R s r st' cp' := by
  obtain ⟨hst, ⟨p0, hR0⟩, _⟩ := h
  obtain ⟨a', hf, hR'⟩ := sim_seek hsim (a := st.it) hR0 k (seekPacked s)
  unfold DbIter.seek
  simp only [hf, cursorOps]
  cases hlo : runSeekIdx c r k (seekPacked s) with
  | none =>
    rw [hlo] at hR'
    simp only [sim_valid_none hsim hR', Bool.false_eq_true, if_false]
    refine ⟨_, _, rfl, rfl, ?_⟩
    have hall := seek_none hlo
    have := (seek_cursor (s := s) (k := k) (lo := r.length) hk
      (fun j e _ he => hall j e he)
      (fun j e hj he => by have := (List.getElem?_eq_some_iff.mp he).1; omega)).2
      (fun j hj hl => by have := hl.lt; omega)
    rw [this]
    exact ⟨hst, ⟨none, hR'⟩, rfl⟩
  | some lo =>
    rw [hlo] at hR'
    obtain ⟨hlol, hbefore, hafter⟩ := seek_point hs hlo
    simp only [sim_valid_some hsim hR' hlol, if_true]
    obtain ⟨st', h1, h2⟩ := findNext_refines hsim hk s fuel false
      { st with dir := .forward, savedValue := "", savedKey := ikeyEnc k s valtypeSeek, it := a' } lo hR' hlol
      (by omega) hst
    refine ⟨st', _, h1, rfl, ?_⟩
    have hinv : FwdInv c s r lo false (ikeyEnc k s valtypeSeek) := by
      refine ⟨fun i j hi hj hjl hu hvi => ?_, fun h => (by cases h), fun h => (by cases h)⟩
      exfalso
      obtain ⟨ei, hei, _⟩ := get_of_lt (show i < r.length by omega)
      obtain ⟨ej, hej, _⟩ := get_of_lt hjl
      have h1 := live_lt_of_ikLt hk hei hvi (hbefore i ei hi hei)
      have h2 := hafter j ej hj hej
      rw [hu, uk_of hej] at h1
      rw [(ikLt_iff c _ _ _ _).mpr (Or.inl h1)] at h2
      cases h2
    have hspec := fscan_spec (s := s) hs hk fuel false (ikeyEnc k s valtypeSeek) lo (by omega) hinv
    have h2' : FNPost R { st with dir := .forward, savedValue := "", savedKey := ikeyEnc k s valtypeSeek, it := a' } st'
        (fscan c s r fuel false (ikeyEnc k s valtypeSeek) lo) := h2
    clear h2
    generalize fscan c s r fuel false (ikeyEnc k s valtypeSeek) lo = res at hspec h2'
    have hcur := seek_cursor (s := s) (k := k) (lo := lo) hk hbefore hafter
    cases res with
    | none =>
      simp only at hspec
      refine drel_of_fnpost h2' rfl ?_
      simp only
      exact hcur.2 hspec
    | some q =>
      simp only at hspec
      refine drel_of_fnpost h2' rfl ?_
      obtain ⟨hq, hl, hnone⟩ := hspec
      exact ⟨rank s r q, hcur.1 q hq hl hnone, liveIdxs_get.mpr ⟨hl, rfl⟩⟩

/-- common end of `next`: from the scan's answer to the cursor's `next` -/
theorem next_finish {s : Nat} {st2 st' : DbIter σ} {res : Option Nat} {i : Nat}
    (hpost : FNPost R st2 st' res) (hdir : st2.dir = .forward)
    (hres : match (generalizing := false) res with
      | some q => (liveIdxs s r)[i + 1]? = some q
      | none => (liveIdxs s r).length = i + 1) :
    DRel R s r st' (if i + 1 < (keysOf s r).length then some (i + 1) else none) := by
  apply drel_of_fnpost hpost hdir
  cases res with
  | none =>
    simp only at hres ⊢
    rw [keysOf_length, hres]
    simp
  | some q =>
    simp only at hres ⊢
    have : i + 1 < (keysOf s r).length := by
      rw [keysOf_length]; exact (List.getElem?_eq_some_iff.mp hres).1
    exact ⟨i + 1, by simp [this], hres⟩

theorem sim_next_field (hsim : InternalIter.Sim I (runIter c r) R) (hs : RunSorted c r)
    (hk : ∀ e ∈ r, e.kind ≤ 1) (s : Nat) {fuel : Nat} (hfuel : r.length + 2 ≤ fuel)
    (st : DbIter σ) (cp : Option Nat) (h : DRel R s r st cp) (hv : st.valid = true) :
    ∃ st' cp', DbIter.next I c s fuel st = some st' ∧
      (cursorOps c.compare (keysOf s r)).next cp = some cp' ∧ DRel R s r st' cp' := by
  obtain ⟨hst, _, hcp⟩ := h
  cases cp with
  | none => simp only at hcp; rw [hcp] at hv; cases hv
  | some i =>
    simp only at hcp
    obtain ⟨_, q₀, hq₀, hcase⟩ := hcp
    obtain ⟨hl, hrk⟩ := liveIdxs_get.mp hq₀
    have hq₀l := hl.lt
    obtain ⟨e, he, _⟩ := get_of_lt hq₀l
    simp only [cursorOps]
    unfold DbIter.next
    rcases hcase with ⟨hdir, hR⟩ | ⟨hdir, hsk, hsv, p', hR, hpos⟩
    · -- forward
      have hent : I.entry st.it = some e := by rw [sim_entry hsim hR, runEntry_some, he]
      obtain ⟨a', hn, hR'⟩ := sim_next hsim hR hq₀l
      have hne : (st.dir == Dir.reverse) = false := by rw [hdir]; rfl
      simp only [hne, Bool.false_eq_true, if_false, hent, hn]
      by_cases hp1 : q₀ + 1 < r.length
      · rw [if_pos hp1] at hR'
        simp only [sim_valid_some hsim hR' hp1, Bool.not_true, Bool.false_eq_true, if_false]
        obtain ⟨st', h1, h2⟩ := findNext_refines hsim hk s fuel true
          { st with savedKey := e.ukey, it := a' } (q₀ + 1) hR' hp1 (by omega) hst
        refine ⟨st', _, h1, rfl, ?_⟩
        have h2' : FNPost R { st with savedKey := e.ukey, it := a' } st'
            (fscan c s r fuel true (uk r q₀) (q₀ + 1)) := by rw [uk_of he]; exact h2
        exact next_finish h2' hdir (next_core (fuel' := fuel) hs hk hl hrk (by omega))
      · rw [if_neg hp1] at hR'
        simp only [sim_valid_none hsim hR', Bool.not_false, if_true]
        refine ⟨_, _, rfl, rfl, ?_⟩
        have hlen : (liveIdxs s r).length = i + 1 := by
          rw [liveIdxs_length, ← rank_ge_length (show r.length ≤ q₀ + 1 by omega), rank_succ_live hl, hrk]
        rw [keysOf_length, hlen]
        simp only [Nat.lt_irrefl, if_false]
        exact ⟨hst, ⟨none, hR'⟩, rfl⟩
    · -- reverse: switch directions
      simp only [hdir, beq_self_eq_true, if_true]
      cases p' with
      | none =>
        simp only at hpos
        simp only [sim_valid_none hsim hR, Bool.not_false, if_true]
        obtain ⟨a', hf, hR'⟩ := sim_first hsim hR
        have hne : r ≠ [] := by intro h; rw [h] at hq₀l; cases hq₀l
        have hR'' : R a' (some 0) := by
          have : runFirst r = some 0 := by simp [runFirst, hne]
          rw [this] at hR'; exact hR'
        simp only [hf, sim_valid_some hsim hR'' (show 0 < r.length by omega), Bool.not_true, Bool.false_eq_true,
          if_false]
        obtain ⟨st', h1, h2⟩ := findNext_refines hsim hk s fuel true
          { st with dir := .forward, it := a' } 0 hR'' (by omega) (by omega) hst
        refine ⟨st', _, h1, rfl, ?_⟩
        have h2' : FNPost R { st with dir := .forward, it := a' } st'
            (fscan c s r (fuel - (q₀ - 0) - 1) true (uk r q₀) (q₀ + 1)) := by
          rw [← fscan_from_rev hl (Nat.zero_le q₀) (fun j _ hj => hpos j hj) (by omega), ← hsk]; exact h2
        exact next_finish h2' rfl (next_core (fuel' := fuel - (q₀ - 0) - 1) hs hk hl hrk (by omega))
      | some p₀ =>
        simp only at hpos
        obtain ⟨hp₀, hinv⟩ := hpos
        have hp₀l : p₀ < r.length := by omega
        simp only [sim_valid_some hsim hR hp₀l, Bool.not_true, Bool.false_eq_true, if_false]
        obtain ⟨a', hn, hR'⟩ := sim_next hsim hR hp₀l
        have hp1 : p₀ + 1 < r.length := by omega
        rw [if_pos hp1] at hR'
        simp only [hn, sim_valid_some hsim hR' hp1, Bool.not_true, Bool.false_eq_true, if_false]
        obtain ⟨st', h1, h2⟩ := findNext_refines hsim hk s fuel true
          { st with dir := .forward, it := a' } (p₀ + 1) hR' hp1 (by omega) hst
        refine ⟨st', _, h1, rfl, ?_⟩
        have h2' : FNPost R { st with dir := .forward, it := a' } st'
            (fscan c s r (fuel - (q₀ - (p₀ + 1)) - 1) true (uk r q₀) (q₀ + 1)) := by
          rw [← fscan_from_rev hl (show p₀ + 1 ≤ q₀ by omega) (fun j hj1 hj2 => hinv j (by omega) hj2) (by omega),
            ← hsk]
          exact h2
        exact next_finish h2' rfl (next_core (fuel' := fuel - (q₀ - (p₀ + 1)) - 1) hs hk hl hrk (by omega))

/-- the cursor position before index `i` -/
def prevPos : Nat → Option Nat
  | 0 => none
  | i + 1 => some i

/-- common end of `prev` / `last`: find_prev_user_entry started at internal position `p'`, where
    nothing between `p'` and `q₀` is live, lands on the live index of rank `i - 1` -/
theorem prev_finish (hsim : InternalIter.Sim I (runIter c r) R) (hs : RunSorted c r)
    (hk : ∀ e ∈ r, e.kind ≤ 1) (s : Nat) {fuel : Nat} (hfuel : r.length + 2 ≤ fuel)
    {st0 : DbIter σ} {p' : Option Nat} (hR : R st0.it p') (hp' : ∀ p, p' = some p → p < r.length)
    (hst : st0.status = .ok) (hdir : st0.dir = .reverse) {q₀ i : Nat} (hr : rank s r q₀ = i)
    (hle : kOf p' ≤ q₀) (hgap : ∀ j, kOf p' ≤ j → j < q₀ → ¬ Live s r j) :
    ∃ st', DbIter.findPrevUserEntry I c s fuel st0 = some st' ∧ DRel R s r st' (prevPos i) := by
  have hkn : kOf p' ≤ r.length := by
    cases p' with
    | none => exact Nat.zero_le _
    | some p => have := hp' p rfl; simp only [kOf]; omega
  obtain ⟨st', h1, hst', h0, hne⟩ := findPrev_spec hsim hk s (show r.length < fuel by omega) hR hp' hst
  refine ⟨st', h1, ?_⟩
  have hpost := bscan_spec (s := s) hs hk (kOf p') hkn fuel (kOf p') 0 st0.savedKey st0.savedValue (by omega)
    (Nat.le_refl _) (Or.inl ⟨rfl, fun j h1 h2 => by omega⟩)
  rcases prev_core hr hle hgap hpost with ⟨hvt, hi⟩ | ⟨hvt, q, hq, hipos, hsk, hsv, hpos⟩
  · obtain ⟨g1, g2⟩ := h0 hvt
    subst hi
    exact ⟨hst', g2, g1⟩
  · obtain ⟨g1, g2, g3, g4, g5⟩ := hne (by rw [hvt]; decide)
    obtain ⟨i', rfl⟩ : ∃ i', i = i' + 1 := ⟨i - 1, by omega⟩
    simp only [Nat.add_sub_cancel] at hq
    refine ⟨hst', ⟨_, g5⟩, g1, q, hq, Or.inr ⟨g2.trans hdir, g3.trans hsk, g4.trans hsv, _, g5, hpos⟩⟩

theorem sim_prev_field (hsim : InternalIter.Sim I (runIter c r) R) (hs : RunSorted c r)
    (hk : ∀ e ∈ r, e.kind ≤ 1) (s : Nat) {fuel : Nat} (hfuel : r.length + 2 ≤ fuel)
    (st : DbIter σ) (cp : Option Nat) (h : DRel R s r st cp) (hv : st.valid = true) :
    ∃ st' cp', DbIter.prev I c s fuel st = some st' ∧
      (cursorOps c.compare (keysOf s r)).prev cp = some cp' ∧ DRel R s r st' cp' := by
  obtain ⟨hst, _, hcp⟩ := h
  cases cp with
  | none => simp only at hcp; rw [hcp] at hv; cases hv
  | some i =>
    simp only at hcp
    obtain ⟨_, q₀, hq₀, hcase⟩ := hcp
    obtain ⟨hl, hrk⟩ := liveIdxs_get.mp hq₀
    have hq₀l := hl.lt
    obtain ⟨e, he, _⟩ := get_of_lt hq₀l
    have hcur : (cursorOps c.compare (keysOf s r)).prev (some i) = some (prevPos i) := by
      cases i <;> rfl
    rw [hcur]
    unfold DbIter.prev
    -- entries of the current key before its head are not live
    have hsame : ∀ j, j < q₀ → uk r j = uk r q₀ → ¬ Live s r j := by
      intro j hj hu hlj
      have := hl.1.2 j hj hu
      rw [hlj.1.1] at this; cases this
    rcases hcase with ⟨hdir, hR⟩ | ⟨hdir, hsk, hsv, p', hR, hpos⟩
    · -- forward: re-scan to before the current key, then the reverse scan
      have hent : I.entry st.it = some e := by rw [sim_entry hsim hR, runEntry_some, he]
      have hne : (st.dir == Dir.forward) = true := by rw [hdir]; rfl
      simp only [hne, if_true, hent]
      obtain ⟨st1, b, h1, g1, g2, g3⟩ := prevScan_refines hsim fuel { st with savedKey := e.ukey } q₀ hR hq₀l (by omega)
      rw [h1]
      have hspec := pscan_spec hs e.ukey q₀ hq₀l (uk_of he) fuel q₀ (by omega) (Nat.le_refl _)
        (fun j h1 h2 => by have : j = q₀ := by omega
                           rw [this]; exact uk_of he)
      have g3' : match (generalizing := false) pscan c r e.ukey fuel q₀ with
          | some h => b = false ∧ R st1.it (some h) ∧ st1.savedKey = e.ukey ∧ st1.savedValue = st.savedValue ∧
              st1.valid = st.valid
          | none => b = true ∧ st1.valid = false ∧ R st1.it none := g3
      clear g3
      generalize pscan c r e.ukey fuel q₀ = res at hspec g3'
      cases res with
      | none =>
        simp only at hspec g3'
        obtain ⟨rfl, hv1, hR1⟩ := g3'
        refine ⟨st1, _, rfl, rfl, ?_⟩
        have hi0 : i = 0 := by
          rw [← hrk, ← rank_eq_of_none (Nat.zero_le q₀) (fun j _ hj => hsame j hj (by rw [hspec j (by omega), uk_of he]))]
          rfl
        subst hi0
        exact ⟨g2.trans hst, ⟨none, hR1⟩, hv1⟩
      | some h =>
        simp only at hspec g3'
        obtain ⟨rfl, hR1, hsk1, hsv1, hv1⟩ := g3'
        obtain ⟨hh, _, hblock⟩ := hspec
        obtain ⟨st', h2, hrel⟩ := prev_finish (st0 := { st1 with dir := .reverse }) (p' := some h) hsim hs hk s hfuel hR1
          (fun p hp => by cases hp; omega) (g2.trans hst) rfl hrk (show h + 1 ≤ q₀ by omega)
          (fun j hj1 hj2 => hsame j hj2 (by rw [hblock j (by simp only [kOf] at hj1; omega) (by omega), uk_of he]))
        exact ⟨st', _, h2, rfl, hrel⟩
    · -- reverse
      have hne : (st.dir == Dir.forward) = false := by rw [hdir]; rfl
      simp only [hne, Bool.false_eq_true, if_false]
      have hvisgap : ∀ j, kOf p' ≤ j → j < q₀ → ¬ Live s r j := by
        intro j hj1 hj2 hlj
        cases p' with
        | none => simp only at hpos; have := hpos j hj2; rw [hlj.1.1] at this; cases this
        | some p₀ =>
          simp only at hpos
          have := hpos.2 j (by simp only [kOf] at hj1; omega) hj2
          rw [hlj.1.1] at this; cases this
      have hle : kOf p' ≤ q₀ := by
        cases p' with
        | none => exact Nat.zero_le _
        | some p₀ => simp only at hpos; simp only [kOf]; omega
      obtain ⟨st', h2, hrel⟩ := prev_finish (st0 := st) (p' := p') hsim hs hk s hfuel hR
        (fun p hp => by subst hp; simp only at hpos; omega) hst hdir hrk hle hvisgap
      exact ⟨st', _, h2, rfl, hrel⟩

theorem sim_last_field (hsim : InternalIter.Sim I (runIter c r) R) (hs : RunSorted c r)
    (hk : ∀ e ∈ r, e.kind ≤ 1) (s : Nat) {fuel : Nat} (hfuel : r.length + 2 ≤ fuel)
    (st : DbIter σ) (cp : Option Nat) (h : DRel R s r st cp) :
    ∃ st' cp', DbIter.last I c s fuel st = some st' ∧
      (cursorOps c.compare (keysOf s r)).last cp = some cp' ∧ DRel R s r st' cp' := by
  obtain ⟨hst, ⟨p0, hR0⟩, _⟩ := h
  obtain ⟨a', hf, hR'⟩ := sim_last hsim (a := st.it) hR0
  unfold DbIter.last
  simp only [hf, cursorOps]
  have hk' : kOf (runLast r) = r.length := by
    unfold runLast
    cases hr : r with
    | nil => rfl
    | cons x xs => simp [kOf]
  obtain ⟨st', h2, hrel⟩ := prev_finish (st0 := { st with dir := .reverse, savedValue := "", it := a' }) (p' := runLast r)
    (q₀ := r.length) (i := (liveIdxs s r).length) hsim hs hk s hfuel hR'
    (fun p hp => by
      unfold runLast at hp
      cases hr : r with
      | nil => rw [hr] at hp; cases hp
      | cons x xs => rw [hr] at hp; simp at hp; rw [← hp]; simp)
    hst rfl (liveIdxs_length s r).symm (by rw [hk']; exact Nat.le_refl _) (fun j h1 h2 => by rw [hk'] at h1; omega)
  refine ⟨st', _, h2, rfl, ?_⟩
  rw [← keysOf_length] at hrel
  cases hke : keysOf s r with
  | nil => rw [hke] at hrel; exact hrel
  | cons x xs =>
    rw [hke] at hrel
    simpa [prevPos] using hrel

/-- what a related state shows: the key / value of the live entry under the cursor, status OK -/
theorem drel_observe (hsim : InternalIter.Sim I (runIter c r) R) {s : Nat} {st : DbIter σ} {cp : Option Nat}
    (h : DRel R s r st cp) :
    st.isValid = cp.isSome ∧ st.getStatus I = .ok ∧
      ∀ i, cp = some i → ∃ q, (liveIdxs s r)[i]? = some q ∧ st.key? I = some (uk r q) ∧
        st.value? I = some (vl r q) := by
  obtain ⟨hst, ⟨p0, hR0⟩, hcp⟩ := h
  have hstatus : st.getStatus I = .ok := by
    unfold DbIter.getStatus
    have : I.status st.it = .ok := hsim.status st.it p0 hR0
    simp [hst, this]
  cases cp with
  | none =>
    simp only at hcp
    exact ⟨hcp, hstatus, fun i hi => by cases hi⟩
  | some i =>
    simp only at hcp
    obtain ⟨hv, q, hq, hcase⟩ := hcp
    refine ⟨hv, hstatus, fun i' hi' => ?_⟩
    cases hi'
    refine ⟨q, hq, ?_⟩
    obtain ⟨e, he, _⟩ := get_of_lt (liveIdxs_get.mp hq).1.lt
    rcases hcase with ⟨hdir, hR⟩ | ⟨hdir, hsk, hsv, _⟩
    · have hent : I.entry st.it = some e := by rw [sim_entry hsim hR, runEntry_some, he]
      simp [DbIter.key?, DbIter.value?, hdir, hent, uk_of he, vl_of he]
    · have hne : (st.dir == Dir.forward) = false := by rw [hdir]; rfl
      simp [DbIter.key?, DbIter.value?, hne, hsk, hsv]

/-- MAIN: the db_iter.c machine over any internal iterator that simulates a cursor over the sorted
    run `r` simulates the reference cursor over the live keys of `r` at sequence `s`, for all nine
    operations (through `IterOps.Sim.apply`), with fuel `r.length + 2` -/
theorem dbiter_sim (hsim : InternalIter.Sim I (runIter c r) R) (hs : RunSorted c r)
    (hk : ∀ e ∈ r, e.kind ≤ 1) (s : Nat) {fuel : Nat} (hfuel : r.length + 2 ≤ fuel) :
    IterOps.Sim (DbIter.ops I c s fuel) (cursorOps c.compare (keysOf s r)) (DRel R s r) (fun _ => True) where
  valid st cp h := (drel_observe hsim h).1
  key st cp h hv := by
    obtain ⟨h1, _, h3⟩ := drel_observe hsim h
    cases cp with
    | none => rw [show (DbIter.ops I c s fuel).valid st = st.isValid from rfl, h1] at hv; cases hv
    | some i =>
      obtain ⟨q, hq, hkey, _⟩ := h3 i rfl
      show (st.key? I).getD [] = (keysOf s r).getD i []
      rw [hkey, keysOf_getD hq]; rfl
  compare st cp x h hv _ := by
    obtain ⟨h1, _, h3⟩ := drel_observe hsim h
    cases cp with
    | none => rw [show (DbIter.ops I c s fuel).valid st = st.isValid from rfl, h1] at hv; cases hv
    | some i =>
      obtain ⟨q, hq, hkey, _⟩ := h3 i rfl
      show some (c.compare ((st.key? I).getD []) x) = some (c.compare ((keysOf s r).getD i []) x) ∧ _
      rw [hkey, keysOf_getD hq]
      exact ⟨rfl, rfl⟩
  first st cp h := sim_first_field hsim hs hk s hfuel st cp h
  last st cp h := sim_last_field hsim hs hk s hfuel st cp h
  next st cp h hv := sim_next_field hsim hs hk s hfuel st cp h hv
  prev st cp h hv := sim_prev_field hsim hs hk s hfuel st cp h hv
  seek st cp x h _ := sim_seek_field hsim hs hk s hfuel st cp x h

end Main
end Lcdb.DbIt
