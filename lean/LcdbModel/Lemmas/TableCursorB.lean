/-
  Table cursor proofs, part B: the two-level iterator over a list of canonical, sorted,
  non-empty data blocks with valid separators (`TwoCtx`) simulates the cursor over the
  concatenation of the blocks' entries (`TwoCtx.sim`).
-/
import LcdbModel.Lemmas.TableCursorA
namespace Lcdb

/-! ### block-level wrappers around `BlockCtx.sim` -/

section
variable {c : BlockCmp} {data : Bytes} {es : List (Bytes × Bytes)}

theorem BlockCtx.first_at (h : BlockCtx c data es) {ti : TIter} {p : Option Nat}
    (hr : BlockAt data es ti p) :
    ∃ ti', TIter.first c ti = some ti' ∧
      BlockAt data es ti' (if es.isEmpty then none else some 0) := by
  obtain ⟨s', t', h1, h2, h3⟩ := h.sim.first ti p hr
  have h2' : (if es.isEmpty then none else some 0) = t' := by
    simpa [cursorOps] using h2
  subst h2'
  exact ⟨s', h1, h3⟩

theorem BlockCtx.last_at (h : BlockCtx c data es) {ti : TIter} {p : Option Nat}
    (hr : BlockAt data es ti p) :
    ∃ ti', TIter.last c ti = some ti' ∧
      BlockAt data es ti' (if es.isEmpty then none else some (es.length - 1)) := by
  obtain ⟨s', t', h1, h2, h3⟩ := h.sim.last ti p hr
  have h2' : (if es.isEmpty then none else some (es.length - 1)) = t' := by
    simpa [cursorOps] using h2
  subst h2'
  exact ⟨s', h1, h3⟩

theorem BlockCtx.next_at (h : BlockCtx c data es) {ti : TIter} {j : Nat}
    (hr : BlockAt data es ti (some j)) :
    ∃ ti', TIter.next c ti = some ti' ∧
      BlockAt data es ti' (if j + 1 < es.length then some (j + 1) else none) := by
  have hv : ti.valid = true := by rw [(BlockAt.obs h hr).2.1]; rfl
  obtain ⟨s', t', h1, h2, h3⟩ := h.sim.next ti (some j) hr hv
  have h2' : (if j + 1 < es.length then some (j + 1) else none) = t' := by
    simpa [cursorOps] using h2
  subst h2'
  exact ⟨s', h1, h3⟩

theorem BlockCtx.prev_at (h : BlockCtx c data es) {ti : TIter} {j : Nat}
    (hr : BlockAt data es ti (some j)) :
    ∃ ti', TIter.prev c ti = some ti' ∧
      BlockAt data es ti' (predPos j) := by
  have hv : ti.valid = true := by rw [(BlockAt.obs h hr).2.1]; rfl
  obtain ⟨s', t', h1, h2, h3⟩ := h.sim.prev ti (some j) hr hv
  have h2' : predPos j = t' := by
    cases j <;> simpa [cursorOps, predPos] using h2
  subst h2'
  exact ⟨s', h1, h3⟩

theorem BlockCtx.seek_at (h : BlockCtx c data es) {ti : TIter} {p : Option Nat}
    (hr : BlockAt data es ti p) (x : Bytes) (hx : 8 ≤ x.length) :
    ∃ ti', TIter.seek c x ti = some ti' ∧
      BlockAt data es ti' ((es.map (·.1)).findIdx? (fun k => c.cmp k x != .lt)) := by
  obtain ⟨s', t', h1, h2, h3⟩ := h.sim.seek ti p x hr (fun _ => hx)
  have h2' : ((es.map (·.1)).findIdx? (fun k => c.cmp k x != .lt)) = t' := by
    simpa [cursorOps] using h2
  subst h2'
  exact ⟨s', h1, h3⟩

end

/-! ### the context -/

/-- the index entries named by a block list -/
def ixsOf (bs : List BlkInfo) : List (Bytes × Bytes) := bs.map fun b => (b.sep, b.hv)

/-- the partition of the entries -/
def partsOf (bs : List BlkInfo) : List (List (Bytes × Bytes)) := bs.map (·.entries)

theorem ixsOf_getElem? (bs : List BlkInfo) (i : Nat) :
    (ixsOf bs)[i]? = (bs[i]?).map fun b => (b.sep, b.hv) := by
  simp [ixsOf]

theorem partsOf_getElem? (bs : List BlkInfo) (i : Nat) :
    (partsOf bs)[i]? = (bs[i]?).map (·.entries) := by
  simp [partsOf]

theorem partsOf_length (bs : List BlkInfo) : (partsOf bs).length = bs.length := by
  simp [partsOf]

theorem ixsOf_length (bs : List BlkInfo) : (ixsOf bs).length = bs.length := by
  simp [ixsOf]

/-- hypotheses of the two-level simulation: `idx` is the canonical sorted index block over
    `bs`; every data block is canonical, sorted, non-empty, readable through `rd` under its
    index value, bounded by its separator, and the separator lies below the next block -/
structure TwoCtx (c : BlockCmp) (rd : Bytes → Option DataIter) (idx : Bytes)
    (bs : List BlkInfo) : Prop where
  ictx : BlockCtx c idx (ixsOf bs)
  bctx : ∀ b ∈ bs, BlockCtx c b.contents b.entries
  nonempty : ∀ b ∈ bs, b.entries ≠ []
  read : ∀ b ∈ bs, rd b.hv = some (.opened (blockIterCreate b.contents))
  hvinj : ∀ b ∈ bs, ∀ b' ∈ bs, b.hv = b'.hv → b.contents = b'.contents ∧ b.entries = b'.entries
  le_sep : ∀ b ∈ bs, ∀ e ∈ b.entries, c.cmp e.1 b.sep ≠ .gt
  sep_lt : ∀ i b b', bs[i]? = some b → bs[i + 1]? = some b' →
    ∀ e, b'.entries.head? = some e → c.cmp b.sep e.1 = .lt
  keys8 : ∀ b ∈ bs, ∀ e ∈ b.entries, 8 ≤ e.1.length

/-- the data iterator, if any, is an ok iterator over the block named by `it.handle` -/
def DataInv (bs : List BlkInfo) (it : TwoIter) : Prop :=
  it.data = none ∨ ∃ b d p, b ∈ bs ∧ it.handle = b.hv ∧ it.data = some (.opened d) ∧
    BlockAt b.contents b.entries d p

/-- index iterator on block `i`, data iterator over block `i` at position `p` -/
def TwoMid (idx : Bytes) (bs : List BlkInfo) (it : TwoIter) (i : Nat) (p : Option Nat) : Prop :=
  it.status = .ok ∧ ∃ b d, bs[i]? = some b ∧ BlockAt idx (ixsOf bs) it.index (some i) ∧
    it.handle = b.hv ∧ it.data = some (.opened d) ∧ BlockAt b.contents b.entries d p

/-- the simulation relation -/
def TwoR (idx : Bytes) (bs : List BlkInfo) (it : TwoIter) : Option Nat → Prop
  | none => it.status = .ok ∧ BlockAt idx (ixsOf bs) it.index none ∧ it.data = none
  | some g => ∃ i j, g = partOff (partsOf bs) i + j ∧ TwoMid idx bs it i (some j)

section
variable {c : BlockCmp} {rd : Bytes → Option DataIter} {idx : Bytes} {bs : List BlkInfo}

theorem TwoMid.weak {it : TwoIter} {i : Nat} {p : Option Nat} (hm : TwoMid idx bs it i p) :
    it.status = .ok ∧ DataInv bs it := by
  obtain ⟨hs, b, d, hb, _, hh, hd, hat⟩ := hm
  exact ⟨hs, Or.inr ⟨b, d, p, List.mem_of_getElem? hb, hh, hd, hat⟩⟩

theorem TwoR.weak {it : TwoIter} {p : Option Nat} (hr : TwoR idx bs it p) :
    it.status = .ok ∧ DataInv bs it ∧ ∃ q, BlockAt idx (ixsOf bs) it.index q := by
  cases p with
  | none =>
    obtain ⟨hs, hi, hd⟩ := hr
    exact ⟨hs, Or.inl hd, none, hi⟩
  | some g =>
    obtain ⟨i, j, _, hm⟩ := hr
    obtain ⟨hs, hd⟩ := hm.weak
    obtain ⟨_, b, d, _, hi, _⟩ := hm
    exact ⟨hs, hd, some i, hi⟩

theorem TwoCtx.dataStatus (h : TwoCtx c rd idx bs) {it : TwoIter} (hd : DataInv bs it)
    (old : DataIter) (ho : it.data = some old) : old.status = .ok := by
  rcases hd with hn | ⟨b, d, p, hb, _, hdd, hat⟩
  · rw [hn] at ho; cases ho
  · rw [hdd] at ho
    cases ho
    have := (BlockAt.obs (h.bctx b hb) hat).1
    simp [DataIter.status, this, TStatus.ofB]

theorem TwoIter.setDataIter_of_ok {it : TwoIter}
    (hold : ∀ old, it.data = some old → old.status = .ok) (d : Option DataIter) :
    it.setDataIter d = { it with data := d } := by
  unfold TwoIter.setDataIter
  cases ho : it.data with
  | none => rfl
  | some old =>
    have := hold old ho
    simp [TwoIter.saveErr, this]

theorem TwoCtx.init_invalid (h : TwoCtx c rd idx bs) {it : TwoIter} (hs : it.status = .ok)
    (hd : DataInv bs it) {ix : TIter} (hix : BlockAt idx (ixsOf bs) ix none) :
    ∃ it1, TwoIter.initDataBlock rd { it with index := ix } = some it1 ∧ TwoR idx bs it1 none := by
  have hv : ix.valid = false := by rw [(BlockAt.obs h.ictx hix).2.1]; rfl
  refine ⟨{ it with index := ix, data := none }, ?_, hs, hix, rfl⟩
  unfold TwoIter.initDataBlock
  simp only [hv, Bool.not_false, if_true]
  rw [TwoIter.setDataIter_of_ok (it := { it with index := ix })
    (fun old ho => h.dataStatus hd old ho)]

theorem TwoCtx.init_valid (h : TwoCtx c rd idx bs) {it : TwoIter} (hs : it.status = .ok)
    (hd : DataInv bs it) {ix : TIter} {i : Nat} (hix : BlockAt idx (ixsOf bs) ix (some i)) :
    ∃ it1 p, TwoIter.initDataBlock rd { it with index := ix } = some it1 ∧
      TwoMid idx bs it1 i p := by
  obtain ⟨_, hv, hobs⟩ := BlockAt.obs h.ictx hix
  obtain ⟨hi, _, hval⟩ := hobs i rfl
  have hv : ix.valid = true := by rw [hv]; rfl
  have hib : i < bs.length := by rw [← ixsOf_length bs]; exact hi
  have hb : bs[i]? = some bs[i] := List.getElem?_eq_getElem hib
  have hmem : bs[i] ∈ bs := List.getElem_mem hib
  have hval' : ix.value = bs[i].hv := by
    rw [hval]; simp [ixsOf]
  unfold TwoIter.initDataBlock
  simp only [hv, Bool.not_true, Bool.false_eq_true, if_false]
  by_cases hcond : (it.data.isSome && ix.value == it.handle) = true
  · simp only [hcond, if_true]
    simp only [Bool.and_eq_true, beq_iff_eq] at hcond
    obtain ⟨hsome, hh⟩ := hcond
    rcases hd with hn | ⟨b', d, p, hb', hh', hdd, hat⟩
    · rw [hn] at hsome; cases hsome
    · have heq : bs[i].hv = b'.hv := by rw [← hval', hh, hh']
      obtain ⟨e1, e2⟩ := h.hvinj _ hmem _ hb' heq
      refine ⟨_, p, rfl, hs, bs[i], d, hb, hix, ?_, hdd, ?_⟩
      · show it.handle = _
        rw [← hh, hval']
      · rw [e1, e2]; exact hat
  · simp only [hcond, Bool.false_eq_true, if_false]
    rw [hval', h.read _ hmem]
    simp only
    rw [TwoIter.setDataIter_of_ok (it := { it with index := ix, handle := bs[i].hv })
      (fun old ho => h.dataStatus hd old ho)]
    exact ⟨_, none, rfl, hs, bs[i], _, hb, hix, rfl, rfl, (h.bctx _ hmem).create⟩

theorem TwoIter.onData_none {it : TwoIter} (f : TIter → Option TIter) (hd : it.data = none) :
    it.onData f = some it := by
  simp [TwoIter.onData, hd]

/-- a block operation on the data iterator -/
theorem TwoMid.onData {it : TwoIter} {i : Nat} {p : Option Nat} (hm : TwoMid idx bs it i p)
    (f : TIter → Option TIter) (g : BlkInfo → Option Nat)
    (hf : ∀ b d, bs[i]? = some b → BlockAt b.contents b.entries d p →
      ∃ d', f d = some d' ∧ BlockAt b.contents b.entries d' (g b)) :
    ∃ it' b, bs[i]? = some b ∧ it.onData f = some it' ∧ TwoMid idx bs it' i (g b) := by
  obtain ⟨hs, b, d, hb, hix, hh, hd, hat⟩ := hm
  obtain ⟨d', hfd, hat'⟩ := hf b d hb hat
  refine ⟨{ it with data := some (.opened d') }, b, hb, ?_, hs, b, d', hb, hix, hh, rfl, hat'⟩
  simp [TwoIter.onData, hd, DataIter.lift, hfd]

theorem TwoCtx.mid_valid (h : TwoCtx c rd idx bs) {it : TwoIter} {i j : Nat}
    (hm : TwoMid idx bs it i (some j)) :
    it.data.isNone = false ∧ it.dataValid = true ∧
      ∃ b, bs[i]? = some b ∧ ∃ hj : j < b.entries.length,
        it.key = b.entries[j].1 ∧ it.value = b.entries[j].2 := by
  obtain ⟨hs, b, d, hb, hix, hh, hd, hat⟩ := hm
  obtain ⟨_, hv, hobs⟩ := BlockAt.obs (h.bctx b (List.mem_of_getElem? hb)) hat
  obtain ⟨hj, hk, hvl⟩ := hobs j rfl
  refine ⟨by simp [hd], ?_, b, hb, hj, ?_, ?_⟩
  · simp [TwoIter.dataValid, hd, DataIter.valid, hv]
  · simp [TwoIter.key, hd, DataIter.key, hk]
  · simp [TwoIter.value, hd, DataIter.value, hvl]

theorem TwoCtx.mid_invalid (h : TwoCtx c rd idx bs) {it : TwoIter} {i : Nat}
    (hm : TwoMid idx bs it i none) : it.dataValid = false ∧ it.index.valid = true := by
  obtain ⟨hs, b, d, hb, hix, hh, hd, hat⟩ := hm
  obtain ⟨_, hv, _⟩ := BlockAt.obs (h.bctx b (List.mem_of_getElem? hb)) hat
  obtain ⟨_, hvi, _⟩ := BlockAt.obs h.ictx hix
  exact ⟨by simp [TwoIter.dataValid, hd, DataIter.valid, hv], by rw [hvi]; rfl⟩

theorem TwoCtx.skipForward_valid (h : TwoCtx c rd idx bs) {it : TwoIter} {i j : Nat}
    (hm : TwoMid idx bs it i (some j)) (fuel : Nat) :
    TwoIter.skipForward c rd (fuel + 1) it = some it := by
  obtain ⟨h1, h2, _⟩ := h.mid_valid hm
  simp [TwoIter.skipForward, h1, h2]

theorem TwoCtx.skipBackward_valid (h : TwoCtx c rd idx bs) {it : TwoIter} {i j : Nat}
    (hm : TwoMid idx bs it i (some j)) (fuel : Nat) :
    TwoIter.skipBackward c rd (fuel + 1) it = some it := by
  obtain ⟨h1, h2, _⟩ := h.mid_valid hm
  simp [TwoIter.skipBackward, h1, h2]

theorem TwoCtx.skipForward_none (h : TwoCtx c rd idx bs) {it : TwoIter}
    (hr : TwoR idx bs it none) (fuel : Nat) :
    ∃ it', TwoIter.skipForward c rd (fuel + 1) it = some it' ∧ TwoR idx bs it' none := by
  obtain ⟨hs, hix, hd⟩ := hr
  have hv : it.index.valid = false := by rw [(BlockAt.obs h.ictx hix).2.1]; rfl
  refine ⟨it.setDataIter none, by simp [TwoIter.skipForward, hd, hv], ?_⟩
  rw [TwoIter.setDataIter_of_ok (by intro old ho; rw [hd] at ho; cases ho)]
  exact ⟨hs, hix, rfl⟩

theorem TwoCtx.skipBackward_none (h : TwoCtx c rd idx bs) {it : TwoIter}
    (hr : TwoR idx bs it none) (fuel : Nat) :
    ∃ it', TwoIter.skipBackward c rd (fuel + 1) it = some it' ∧ TwoR idx bs it' none := by
  obtain ⟨hs, hix, hd⟩ := hr
  have hv : it.index.valid = false := by rw [(BlockAt.obs h.ictx hix).2.1]; rfl
  refine ⟨it.setDataIter none, by simp [TwoIter.skipBackward, hd, hv], ?_⟩
  rw [TwoIter.setDataIter_of_ok (by intro old ho; rw [hd] at ho; cases ho)]
  exact ⟨hs, hix, rfl⟩

theorem TwoCtx.entries_isEmpty (h : TwoCtx c rd idx bs) {i : Nat} {b : BlkInfo}
    (hb : bs[i]? = some b) : b.entries.isEmpty = false := by
  have := h.nonempty b (List.mem_of_getElem? hb)
  cases hb' : b.entries with
  | nil => exact absurd hb' this
  | cons _ _ => rfl

/-- `skip_forward` after the data iterator of block `i` has been positioned -/
theorem TwoCtx.skipForward_mid (h : TwoCtx c rd idx bs) {it : TwoIter} {i : Nat}
    {p : Option Nat} (hm : TwoMid idx bs it i p) (fuel : Nat) :
    ∃ it', TwoIter.skipForward c rd (fuel + 2) it = some it' ∧
      TwoR idx bs it' (fwdPos (partsOf bs) i p) := by
  cases p with
  | some j => exact ⟨it, h.skipForward_valid hm _, i, j, rfl, hm⟩
  | none =>
    obtain ⟨hdv, hiv⟩ := h.mid_invalid hm
    obtain ⟨hs, hdi⟩ := hm.weak
    obtain ⟨_, b, d, hb, hix, _⟩ := hm
    obtain ⟨ix, hnx, hix'⟩ := h.ictx.next_at hix
    rw [TwoIter.skipForward]
    simp only [hdv, hiv, Bool.not_false, Bool.or_true, if_true, Bool.not_true, Bool.false_eq_true,
      if_false, hnx]
    rw [ixsOf_length] at hix'
    simp only [fwdPos, partsOf_length]
    by_cases hi1 : i + 1 < bs.length
    · simp only [hi1, if_true] at hix' ⊢
      obtain ⟨it1, p1, e1, hm1⟩ := h.init_valid hs hdi hix'
      obtain ⟨it2, b', hb', e2, hm2⟩ := hm1.onData (TIter.first c)
        (fun b => if b.entries.isEmpty then none else some 0)
        (fun b d hb hat => (h.bctx b (List.mem_of_getElem? hb)).first_at hat)
      rw [h.entries_isEmpty hb'] at hm2
      simp only [Bool.false_eq_true, if_false] at hm2
      simp only [e1, e2]
      exact ⟨it2, h.skipForward_valid hm2 _, i + 1, 0, rfl, hm2⟩
    · simp only [hi1, if_false] at hix' ⊢
      obtain ⟨it1, e1, hr1⟩ := h.init_invalid hs hdi hix'
      simp only [e1, TwoIter.onData_none _ hr1.2.2]
      exact h.skipForward_none hr1 _

/-- `skip_backward` after the data iterator of block `i` has been positioned -/
theorem TwoCtx.skipBackward_mid (h : TwoCtx c rd idx bs) {it : TwoIter} {i : Nat}
    {p : Option Nat} (hm : TwoMid idx bs it i p) (fuel : Nat) :
    ∃ it', TwoIter.skipBackward c rd (fuel + 2) it = some it' ∧
      TwoR idx bs it' (bwdPos (partsOf bs) i p) := by
  cases p with
  | some j => exact ⟨it, h.skipBackward_valid hm _, i, j, rfl, hm⟩
  | none =>
    obtain ⟨hdv, hiv⟩ := h.mid_invalid hm
    obtain ⟨hs, hdi⟩ := hm.weak
    obtain ⟨_, b, d, hb, hix, _⟩ := hm
    obtain ⟨ix, hnx, hix'⟩ := h.ictx.prev_at hix
    rw [TwoIter.skipBackward]
    simp only [hdv, hiv, Bool.not_false, Bool.or_true, if_true, Bool.not_true, Bool.false_eq_true,
      if_false, hnx]
    cases i with
    | succ i' =>
      simp only [predPos] at hix'
      simp only [bwdPos]
      obtain ⟨it1, p1, e1, hm1⟩ := h.init_valid hs hdi hix'
      obtain ⟨it2, b', hb', e2, hm2⟩ := hm1.onData (TIter.last c)
        (fun b => if b.entries.isEmpty then none else some (b.entries.length - 1))
        (fun b d hb hat => (h.bctx b (List.mem_of_getElem? hb)).last_at hat)
      rw [h.entries_isEmpty hb'] at hm2
      simp only [Bool.false_eq_true, if_false] at hm2
      simp only [e1, e2]
      refine ⟨it2, h.skipBackward_valid hm2 _, i', b'.entries.length - 1, ?_, hm2⟩
      have hpl : (partsOf bs)[i']? = some b'.entries := by rw [partsOf_getElem?, hb']; rfl
      rw [partOff_succ hpl]
      have : 0 < b'.entries.length :=
        List.length_pos_iff.mpr (h.nonempty b' (List.mem_of_getElem? hb'))
      omega
    | zero =>
      simp only [predPos] at hix'
      simp only [bwdPos]
      obtain ⟨it1, e1, hr1⟩ := h.init_invalid hs hdi hix'
      simp only [e1, TwoIter.onData_none _ hr1.2.2]
      exact h.skipBackward_none hr1 _

/-! ### where `seek` lands -/

/-- the flat key list -/
def keysOf (bs : List BlkInfo) : List Bytes := ((partsOf bs).flatten).map (·.1)

theorem TwoCtx.below_of_sep (h : TwoCtx c rd idx bs) (x : Bytes) {b : BlkInfo} (hb : b ∈ bs)
    (hsep : (c.cmp b.sep x != .lt) = false) : ∀ e ∈ b.entries, (c.cmp e.1 x != .lt) = false := by
  intro e he
  have h1 : c.cmp b.sep x = .lt := by simpa using hsep
  have := h.ictx.laws.lt_of_le_of_lt (h.le_sep b hb e he) h1
  simp [this]

theorem TwoCtx.seek_none (h : TwoCtx c rd idx bs) (x : Bytes)
    (hn : ((ixsOf bs).map (·.1)).findIdx? (fun k => c.cmp k x != .lt) = none) :
    (keysOf bs).findIdx? (fun k => c.cmp k x != .lt) = none := by
  unfold keysOf
  rw [List.findIdx?_map]
  apply findIdx?_flatten_none
  intro l hl e he
  obtain ⟨b, hb, rfl⟩ := List.mem_map.mp hl
  have hsep := List.findIdx?_eq_none_iff.mp hn b.sep
    (List.mem_map.mpr ⟨(b.sep, b.hv), List.mem_map.mpr ⟨b, hb, rfl⟩, rfl⟩)
  exact h.below_of_sep x hb hsep e he

theorem TwoCtx.seek_some (h : TwoCtx c rd idx bs) (x : Bytes) {i : Nat} {b : BlkInfo}
    (hb : bs[i]? = some b)
    (hi : ((ixsOf bs).map (·.1)).findIdx? (fun k => c.cmp k x != .lt) = some i) :
    fwdPos (partsOf bs) i ((b.entries.map (·.1)).findIdx? (fun k => c.cmp k x != .lt))
      = (keysOf bs).findIdx? (fun k => c.cmp k x != .lt) := by
  obtain ⟨hil, hpi, hbefore⟩ := List.findIdx?_eq_some_iff_getElem.mp hi
  have hsepi : ((ixsOf bs).map (·.1))[i] = b.sep := by
    have : ((ixsOf bs).map (·.1))[i]? = some b.sep := by
      simp [ixsOf, hb]
    exact (List.getElem?_eq_some_iff.mp this).2
  rw [hsepi] at hpi
  have hlt : ∀ i' b', i' < i → bs[i']? = some b' → (c.cmp b'.sep x != .lt) = false := by
    intro i' b' hi' hb'
    have h1 : i' < ((ixsOf bs).map (·.1)).length := by omega
    have h2 : ((ixsOf bs).map (·.1))[i'] = b'.sep := by
      have : ((ixsOf bs).map (·.1))[i']? = some b'.sep := by
        simp [ixsOf, hb']
      exact (List.getElem?_eq_some_iff.mp this).2
    have := hbefore i' hi'
    rw [h2] at this
    simpa using this
  have hpb : (partsOf bs)[i]? = some b.entries := by rw [partsOf_getElem?, hb]; rfl
  have hbef : ∀ i' l', i' < i → (partsOf bs)[i']? = some l' →
      ∀ e ∈ l', ((fun k => c.cmp k x != .lt) ∘ (fun e : Bytes × Bytes => e.1)) e = false := by
    intro i' l' hi' hl' e he
    rw [partsOf_getElem?] at hl'
    cases hb' : bs[i']? with
    | none => rw [hb'] at hl'; cases hl'
    | some b' =>
      rw [hb'] at hl'
      simp only [Option.map_some, Option.some.injEq] at hl'
      subst hl'
      exact h.below_of_sep x (List.mem_of_getElem? hb') (hlt i' b' hi' hb') e he
  unfold keysOf
  rw [List.findIdx?_map, List.findIdx?_map]
  cases hj : b.entries.findIdx? ((fun k => c.cmp k x != .lt) ∘ (fun e : Bytes × Bytes => e.1)) with
  | some j =>
    simp only [fwdPos]
    exact (findIdx?_flatten_some _ hpb hbef hj).symm
  | none =>
    have hcur : ∀ e ∈ b.entries,
        ((fun k => c.cmp k x != .lt) ∘ (fun e : Bytes × Bytes => e.1)) e = false :=
      List.findIdx?_eq_none_iff.mp hj
    have hbef' : ∀ i' l', i' ≤ i → (partsOf bs)[i']? = some l' →
        ∀ e ∈ l', ((fun k => c.cmp k x != .lt) ∘ (fun e : Bytes × Bytes => e.1)) e = false := by
      intro i' l' hi' hl' e he
      rcases Nat.lt_or_eq_of_le hi' with hlt' | rfl
      · exact hbef i' l' hlt' hl' e he
      · rw [hpb] at hl'; cases hl'; exact hcur e he
    simp only [fwdPos, partsOf_length]
    by_cases hi1 : i + 1 < bs.length
    · simp only [hi1, if_true]
      have hb1 : bs[i + 1]? = some bs[i + 1] := List.getElem?_eq_getElem hi1
      have hpb1 : (partsOf bs)[i + 1]? = some bs[i + 1].entries := by
        rw [partsOf_getElem?, hb1]; rfl
      refine (findIdx?_flatten_next _ hpb1 hbef' ?_
        (h.nonempty _ (List.mem_of_getElem? hb1))).symm
      intro e he
      have h1 := h.sep_lt i b _ hb hb1 e he
      have h2 : c.cmp b.sep x ≠ .lt := by simpa using hpi
      have h3 : c.cmp e.1 x ≠ .lt := by
        intro hc
        exact h2 (h.ictx.laws.lt_trans _ _ _ h1 hc)
      simpa using h3
    · simp only [hi1, if_false]
      refine (findIdx?_flatten_none _ ?_).symm
      intro l hl e he
      obtain ⟨i', hi', hli'⟩ := List.getElem_of_mem hl
      rw [partsOf_length] at hi'
      have hi'' : i < bs.length := (List.getElem?_eq_some_iff.mp hb).1
      exact hbef' i' l (by omega) (by rw [← hli']; exact List.getElem?_eq_getElem _) e he

/-! ### the simulation -/

theorem TwoCtx.keys_getD (_h : TwoCtx c rd idx bs) {i j : Nat} {b : BlkInfo} (hb : bs[i]? = some b)
    (hj : j < b.entries.length) :
    (partOff (partsOf bs) i + j) < (partsOf bs).flatten.length ∧
    ((partsOf bs).flatten)[partOff (partsOf bs) i + j]? = some b.entries[j] := by
  have hpb : (partsOf bs)[i]? = some b.entries := by rw [partsOf_getElem?, hb]; rfl
  refine ⟨partOff_add_lt hpb hj, ?_⟩
  rw [flatten_getElem?_part hpb hj, List.getElem?_eq_getElem hj]

theorem TwoCtx.bs_ne_nil_iff (h : TwoCtx c rd idx bs) :
    (keysOf bs).isEmpty = bs.isEmpty := by
  unfold keysOf
  rw [List.isEmpty_map]
  cases bs with
  | nil => rfl
  | cons b rest =>
    have := h.nonempty b List.mem_cons_self
    cases hb : b.entries with
    | nil => exact absurd hb this
    | cons e es => simp [partsOf, hb]

theorem ixsOf_isEmpty (bs : List BlkInfo) : (ixsOf bs).isEmpty = bs.isEmpty := by
  simp [ixsOf]

theorem TwoCtx.parts_ne (h : TwoCtx c rd idx bs) : ∀ l ∈ partsOf bs, l ≠ [] := by
  intro l hl
  obtain ⟨b, hb, rfl⟩ := List.mem_map.mp hl
  exact h.nonempty b hb

theorem TwoCtx.first_sim (h : TwoCtx c rd idx bs) (fuel : Nat) {s : TwoIter} {t : Option Nat}
    (hr : TwoR idx bs s t) :
    ∃ s', TwoIter.first c rd (fuel + 2) s = some s' ∧
      TwoR idx bs s' (if (keysOf bs).isEmpty then none else some 0) := by
  obtain ⟨hs, hd, q, hq⟩ := hr.weak
  obtain ⟨ix, hix1, hix2⟩ := h.ictx.first_at hq
  unfold TwoIter.first
  simp only [hix1]
  rw [ixsOf_isEmpty] at hix2
  cases hbs : bs.isEmpty with
  | true =>
    rw [h.bs_ne_nil_iff, hbs]
    simp only [hbs, if_true] at hix2 ⊢
    obtain ⟨it1, e1, hr1⟩ := h.init_invalid hs hd hix2
    simp only [e1, TwoIter.onData_none _ hr1.2.2]
    exact h.skipForward_none hr1 _
  | false =>
    simp only [hbs, Bool.false_eq_true, if_false] at hix2
    obtain ⟨it1, p1, e1, hm1⟩ := h.init_valid hs hd hix2
    obtain ⟨it2, b', hb', e2, hm2⟩ := hm1.onData (TIter.first c)
      (fun b => if b.entries.isEmpty then none else some 0)
      (fun b d hb hat => (h.bctx b (List.mem_of_getElem? hb)).first_at hat)
    obtain ⟨it3, e3, hr3⟩ := h.skipForward_mid hm2 fuel
    simp only [e1, e2]
    refine ⟨it3, e3, ?_⟩
    have hpb : (partsOf bs)[0]? = some b'.entries := by rw [partsOf_getElem?, hb']; rfl
    rw [fwdPos_first hpb (h.nonempty _ (List.mem_of_getElem? hb'))] at hr3
    unfold keysOf
    rw [List.isEmpty_map]
    exact hr3

theorem TwoCtx.last_sim (h : TwoCtx c rd idx bs) (fuel : Nat) {s : TwoIter} {t : Option Nat}
    (hr : TwoR idx bs s t) :
    ∃ s', TwoIter.last c rd (fuel + 2) s = some s' ∧
      TwoR idx bs s' (if (keysOf bs).isEmpty then none else some ((keysOf bs).length - 1)) := by
  obtain ⟨hs, hd, q, hq⟩ := hr.weak
  obtain ⟨ix, hix1, hix2⟩ := h.ictx.last_at hq
  unfold TwoIter.last
  simp only [hix1]
  rw [ixsOf_isEmpty, ixsOf_length] at hix2
  cases hbs : bs.isEmpty with
  | true =>
    rw [h.bs_ne_nil_iff, hbs]
    simp only [hbs, if_true] at hix2 ⊢
    obtain ⟨it1, e1, hr1⟩ := h.init_invalid hs hd hix2
    simp only [e1, TwoIter.onData_none _ hr1.2.2]
    exact h.skipBackward_none hr1 _
  | false =>
    simp only [hbs, Bool.false_eq_true, if_false] at hix2
    obtain ⟨it1, p1, e1, hm1⟩ := h.init_valid hs hd hix2
    obtain ⟨it2, b', hb', e2, hm2⟩ := hm1.onData (TIter.last c)
      (fun b => if b.entries.isEmpty then none else some (b.entries.length - 1))
      (fun b d hb hat => (h.bctx b (List.mem_of_getElem? hb)).last_at hat)
    obtain ⟨it3, e3, hr3⟩ := h.skipBackward_mid hm2 fuel
    simp only [e1, e2]
    refine ⟨it3, e3, ?_⟩
    have hpb : (partsOf bs)[bs.length - 1]? = some b'.entries := by
      rw [partsOf_getElem?, hb']; rfl
    have hlen : 0 < bs.length := by
      cases bs with
      | nil => simp at hbs
      | cons _ _ => simp
    rw [bwdPos_last hpb (by rw [partsOf_length]; omega)
      (h.nonempty _ (List.mem_of_getElem? hb'))] at hr3
    unfold keysOf
    rw [List.isEmpty_map, List.length_map]
    exact hr3

theorem TwoCtx.next_sim (h : TwoCtx c rd idx bs) (fuel : Nat) {s : TwoIter} {g : Nat}
    (hr : TwoR idx bs s (some g)) :
    ∃ s', TwoIter.next c rd (fuel + 2) s = some s' ∧
      TwoR idx bs s' (if g + 1 < (keysOf bs).length then some (g + 1) else none) := by
  obtain ⟨i, j, hg, hm⟩ := hr
  obtain ⟨_, _, b, hb, hj, _⟩ := h.mid_valid hm
  obtain ⟨it2, b', hb', e2, hm2⟩ := hm.onData (TIter.next c)
    (fun b => if j + 1 < b.entries.length then some (j + 1) else none)
    (fun b d hb hat => (h.bctx b (List.mem_of_getElem? hb)).next_at hat)
  obtain ⟨it3, e3, hr3⟩ := h.skipForward_mid hm2 fuel
  unfold TwoIter.next
  simp only [e2]
  refine ⟨it3, e3, ?_⟩
  have hpb : (partsOf bs)[i]? = some b'.entries := by rw [partsOf_getElem?, hb']; rfl
  rw [hb] at hb'; cases hb'
  rw [fwdPos_next h.parts_ne hpb hj] at hr3
  unfold keysOf
  rw [List.length_map, hg]
  exact hr3

theorem TwoCtx.prev_sim (h : TwoCtx c rd idx bs) (fuel : Nat) {s : TwoIter} {g : Nat}
    (hr : TwoR idx bs s (some g)) :
    ∃ s', TwoIter.prev c rd (fuel + 2) s = some s' ∧ TwoR idx bs s' (predPos g) := by
  obtain ⟨i, j, hg, hm⟩ := hr
  obtain ⟨_, _, b, hb, hj, _⟩ := h.mid_valid hm
  obtain ⟨it2, b', hb', e2, hm2⟩ := hm.onData (TIter.prev c)
    (fun _ => predPos j)
    (fun b d hb hat => (h.bctx b (List.mem_of_getElem? hb)).prev_at hat)
  obtain ⟨it3, e3, hr3⟩ := h.skipBackward_mid hm2 fuel
  unfold TwoIter.prev
  simp only [e2]
  refine ⟨it3, e3, ?_⟩
  have hpb : (partsOf bs)[i]? = some b'.entries := by rw [partsOf_getElem?, hb']; rfl
  rw [hb] at hb'; cases hb'
  rw [bwdPos_prev h.parts_ne hpb hj] at hr3
  rw [hg]
  exact hr3

theorem TwoCtx.seek_sim (h : TwoCtx c rd idx bs) (fuel : Nat) {s : TwoIter} {t : Option Nat}
    (hr : TwoR idx bs s t) (x : Bytes) (hx : 8 ≤ x.length) :
    ∃ s', TwoIter.seek c rd (fuel + 2) x s = some s' ∧
      TwoR idx bs s' ((keysOf bs).findIdx? (fun k => c.cmp k x != .lt)) := by
  obtain ⟨hs, hd, q, hq⟩ := hr.weak
  obtain ⟨ix, hix1, hix2⟩ := h.ictx.seek_at hq x hx
  unfold TwoIter.seek
  simp only [hix1]
  cases hfi : ((ixsOf bs).map (·.1)).findIdx? (fun k => c.cmp k x != .lt) with
  | none =>
    rw [hfi] at hix2
    rw [h.seek_none x hfi]
    obtain ⟨it1, e1, hr1⟩ := h.init_invalid hs hd hix2
    simp only [e1, TwoIter.onData_none _ hr1.2.2]
    exact h.skipForward_none hr1 _
  | some i =>
    rw [hfi] at hix2
    obtain ⟨it1, p1, e1, hm1⟩ := h.init_valid hs hd hix2
    obtain ⟨it2, b', hb', e2, hm2⟩ := hm1.onData (TIter.seek c x)
      (fun b => (b.entries.map (·.1)).findIdx? (fun k => c.cmp k x != .lt))
      (fun b d hb hat => (h.bctx b (List.mem_of_getElem? hb)).seek_at hat x hx)
    obtain ⟨it3, e3, hr3⟩ := h.skipForward_mid hm2 fuel
    simp only [e1, e2]
    refine ⟨it3, e3, ?_⟩
    rw [h.seek_some x hb' hfi] at hr3
    exact hr3

theorem TwoCtx.sim (h : TwoCtx c rd idx bs) (fuel : Nat) :
    IterOps.Sim (twoIterOps c rd (fuel + 2)) (cursorOps c.cmp (keysOf bs)) (TwoR idx bs)
      (fun x => 8 ≤ x.length) := by
  have hvalid : ∀ s t, TwoR idx bs s t → TwoIter.valid s = t.isSome := by
    intro s t hr
    cases t with
    | none =>
      obtain ⟨_, _, hd⟩ := hr
      simp [TwoIter.valid, TwoIter.dataValid, hd]
    | some g =>
      obtain ⟨i, j, _, hm⟩ := hr
      simpa [TwoIter.valid] using (h.mid_valid hm).2.1
  have hkey : ∀ s t, TwoR idx bs s t → TwoIter.valid s = true →
      TwoIter.key s = (cursorOps c.cmp (keysOf bs)).key t ∧ 8 ≤ (TwoIter.key s).length := by
    intro s t hr hv
    cases t with
    | none => rw [hvalid s none hr] at hv; cases hv
    | some g =>
      obtain ⟨i, j, hg, hm⟩ := hr
      obtain ⟨_, _, b, hb, hj, hk, _⟩ := h.mid_valid hm
      obtain ⟨h1, h2⟩ := h.keys_getD hb hj
      refine ⟨?_, ?_⟩
      · simp only [cursorOps, keysOf, List.getD_eq_getElem?_getD, List.getElem?_map, hg, h2, hk,
          Option.map_some, Option.getD_some]
      · rw [hk]; exact h.keys8 b (List.mem_of_getElem? hb) _ (List.getElem_mem hj)
  refine ⟨hvalid, fun s t hr hv => (hkey s t hr hv).1, ?_, ?_, ?_, ?_, ?_, ?_⟩
  · -- compare
    intro s t x hr hv hx
    obtain ⟨hk, hk8⟩ := hkey s t hr hv
    have : (twoIterOps c rd (fuel + 2)).key s = TwoIter.key s := rfl
    rw [this, ← hk]
    have hcmp : c.compare (TwoIter.key s) x = some (c.cmp (TwoIter.key s) x) := by
      unfold BlockCmp.compare
      have h1 : ¬ (TwoIter.key s).length < 8 := by omega
      have h2 : ¬ x.length < 8 := by omega
      simp [h1, h2]
    exact ⟨hcmp, by rw [show (cursorOps c.cmp (keysOf bs)).compare (TwoIter.key s) x
      = some (c.cmp (TwoIter.key s) x) from rfl]; rfl⟩
  · intro s t hr
    obtain ⟨s', e, hr'⟩ := h.first_sim fuel hr
    exact ⟨s', _, e, rfl, hr'⟩
  · intro s t hr
    obtain ⟨s', e, hr'⟩ := h.last_sim fuel hr
    exact ⟨s', _, e, rfl, hr'⟩
  · intro s t hr hv
    cases t with
    | none => rw [show (twoIterOps c rd (fuel + 2)).valid s = TwoIter.valid s from rfl,
        hvalid s none hr] at hv; cases hv
    | some g =>
      obtain ⟨s', e, hr'⟩ := h.next_sim fuel hr
      exact ⟨s', _, e, rfl, hr'⟩
  · intro s t hr hv
    cases t with
    | none => rw [show (twoIterOps c rd (fuel + 2)).valid s = TwoIter.valid s from rfl,
        hvalid s none hr] at hv; cases hv
    | some g =>
      obtain ⟨s', e, hr'⟩ := h.prev_sim fuel hr
      refine ⟨s', predPos g, e, ?_, hr'⟩
      cases g <;> rfl
  · intro s t x hr hx
    obtain ⟨s', e, hr'⟩ := h.seek_sim fuel hr x hx
    exact ⟨s', _, e, rfl, hr'⟩

/-- what can be observed at a related state -/
theorem TwoR.obs (h : TwoCtx c rd idx bs) {it : TwoIter} {p : Option Nat} (hr : TwoR idx bs it p) :
    it.getStatus = .ok ∧ OnPosT ((partsOf bs).flatten) it p := by
  cases p with
  | none =>
    obtain ⟨hs, hix, hd⟩ := hr
    have hst := (BlockAt.obs h.ictx hix).1
    refine ⟨?_, ?_⟩
    · simp [TwoIter.getStatus, hst, TStatus.ofB, hd, hs]
    · simp [OnPosT, TwoIter.valid, TwoIter.dataValid, hd]
  | some g =>
    obtain ⟨i, j, hg, hm⟩ := hr
    obtain ⟨_, hv, b, hb, hj, hk, hvl⟩ := h.mid_valid hm
    obtain ⟨h1, h2⟩ := h.keys_getD hb hj
    obtain ⟨hs, b', d, hb', hix, hh, hd, hat⟩ := hm
    have hst := (BlockAt.obs h.ictx hix).1
    have hdst := (BlockAt.obs (h.bctx b' (List.mem_of_getElem? hb')) hat).1
    refine ⟨?_, ?_⟩
    · simp [TwoIter.getStatus, hst, TStatus.ofB, hd, hs, DataIter.status, hdst]
    · subst hg
      have h3 := (List.getElem?_eq_some_iff.mp h2).2
      exact ⟨h1, hv, by rw [hk, h3], by rw [hvl, h3]⟩

end
end Lcdb
