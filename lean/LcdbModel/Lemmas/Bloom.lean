/-
  Helper lemmas for LcdbModel.Model.Bloom (core Lean only): bits set by `bloom_add` stay set,
  every probe position of an added key is set, `bloom_match` probes the same positions.
-/
import LcdbModel.Model.Bloom
namespace Lcdb

/-- bit `pos` of the bit array is set -/
def bitOn (data : Array UInt8) (pos : Nat) : Prop :=
  (data.getD (pos / 8) 0).toNat.testBit (pos % 8) = true

theorem setBit_size (data : Array UInt8) (pos : Nat) : (setBit data pos).size = data.size := by
  simp [setBit]

theorem orByte_toNat (b : UInt8) (j : Nat) (hj : j < 8) :
    (UInt8.ofNat (b.toNat ||| 2 ^ j)).toNat = b.toNat ||| 2 ^ j := by
  rw [UInt8.toNat_ofNat']
  apply Nat.mod_eq_of_lt
  apply Nat.or_lt_two_pow (UInt8.toNat_lt b)
  exact Nat.pow_lt_pow_right (by decide) hj

theorem getD_setBit (data : Array UInt8) (pos i : Nat) :
    (setBit data pos).getD i 0 =
      if pos / 8 = i ∧ i < data.size then UInt8.ofNat ((data.getD i 0).toNat ||| 2 ^ (pos % 8))
      else data.getD i 0 := by
  simp only [Array.getD_eq_getD_getElem?, setBit]
  by_cases hi : i < data.size
  · have hi' : i < (data.modify (pos / 8) fun b => UInt8.ofNat (b.toNat ||| 2 ^ (pos % 8))).size := by
      simpa using hi
    rw [Array.getElem?_eq_getElem hi', Array.getElem_modify, Array.getElem?_eq_getElem hi]
    by_cases hp : pos / 8 = i
    · simp [hp, hi]
    · simp [hp]
  · have hi' : ¬ i < (data.modify (pos / 8) fun b => UInt8.ofNat (b.toNat ||| 2 ^ (pos % 8))).size := by
      simpa using hi
    rw [Array.getElem?_eq_none (by omega), Array.getElem?_eq_none (by omega)]
    simp [hi]

theorem setBit_self (data : Array UInt8) (pos : Nat) (h : pos / 8 < data.size) :
    bitOn (setBit data pos) pos := by
  unfold bitOn
  rw [getD_setBit]
  simp only [h, and_self, if_true]
  rw [orByte_toNat _ _ (Nat.mod_lt _ (by decide)), Nat.testBit_or, Nat.testBit_two_pow_self]
  simp

theorem setBit_mono (data : Array UInt8) (pos q : Nat) (h : bitOn data q) :
    bitOn (setBit data pos) q := by
  unfold bitOn at *
  rw [getD_setBit]
  by_cases hc : pos / 8 = q / 8 ∧ q / 8 < data.size
  · rw [if_pos hc, orByte_toNat _ _ (Nat.mod_lt _ (by decide)), Nat.testBit_or, h]
    simp
  · rw [if_neg hc]; exact h

theorem bloomAddGo_size (bits delta : Nat) :
    ∀ (i h : Nat) (data : Array UInt8), (bloomAddGo bits delta i h data).size = data.size := by
  intro i
  induction i with
  | zero => intro h data; rfl
  | succ i ih => intro h data; simp only [bloomAddGo]; rw [ih, setBit_size]

theorem bloomAddGo_mono (bits delta : Nat) (q : Nat) :
    ∀ (i h : Nat) (data : Array UInt8), bitOn data q → bitOn (bloomAddGo bits delta i h data) q := by
  intro i
  induction i with
  | zero => intro h data hq; exact hq
  | succ i ih => intro h data hq; simp only [bloomAddGo]; exact ih _ _ (setBit_mono _ _ _ hq)

/-- all `i` probe positions starting from hash `h` are set in `data` -/
def ProbeAll (data : Array UInt8) (bits delta : Nat) : Nat → Nat → Prop
  | 0, _ => True
  | i + 1, h => bitOn data (h % bits) ∧ ProbeAll data bits delta i ((h + delta) % 2 ^ 32)

theorem ProbeAll_mono (d d' : Array UInt8) (bits delta : Nat) (hm : ∀ q, bitOn d q → bitOn d' q) :
    ∀ (i h : Nat), ProbeAll d bits delta i h → ProbeAll d' bits delta i h := by
  intro i
  induction i with
  | zero => intro h _; trivial
  | succ i ih => intro h hp; exact ⟨hm _ hp.1, ih _ hp.2⟩

/-- `bloom_add` sets every position it probes -/
theorem bloomAddGo_probeAll (bits delta : Nat) :
    ∀ (i h : Nat) (data : Array UInt8), 0 < bits → bits = data.size * 8 →
      ProbeAll (bloomAddGo bits delta i h data) bits delta i h := by
  intro i
  induction i with
  | zero => intro h data _ _; trivial
  | succ i ih =>
    intro h data hpos hb
    simp only [bloomAddGo, ProbeAll]
    have hlt : h % bits / 8 < data.size := by
      have := Nat.mod_lt h hpos
      omega
    refine ⟨bloomAddGo_mono _ _ _ _ _ _ (setBit_self _ _ hlt), ?_⟩
    exact ih _ _ hpos (by rw [setBit_size]; exact hb)

theorem bloomAdd_size (k bits : Nat) (data : Array UInt8) (key : Bytes) :
    (bloomAdd k bits data key).size = data.size := bloomAddGo_size _ _ _ _ _

theorem bloomAdd_mono (k bits : Nat) (data : Array UInt8) (key : Bytes) (q : Nat)
    (h : bitOn data q) : bitOn (bloomAdd k bits data key) q := bloomAddGo_mono _ _ _ _ _ _ h

theorem foldl_bloomAdd_size (k bits : Nat) (keys : List Bytes) :
    ∀ data : Array UInt8, (keys.foldl (bloomAdd k bits) data).size = data.size := by
  induction keys with
  | nil => intro data; rfl
  | cons a keys ih => intro data; simp only [List.foldl_cons]; rw [ih, bloomAdd_size]

theorem foldl_bloomAdd_mono (k bits : Nat) (keys : List Bytes) (q : Nat) :
    ∀ data : Array UInt8, bitOn data q → bitOn (keys.foldl (bloomAdd k bits) data) q := by
  induction keys with
  | nil => intro data h; exact h
  | cons a keys ih => intro data h; simp only [List.foldl_cons]; exact ih _ (bloomAdd_mono _ _ _ _ _ h)

/-- after all keys have been added, every probe position of every added key is set -/
theorem foldl_bloomAdd_probeAll (k bits : Nat) (keys : List Bytes) (key : Bytes) (hk : key ∈ keys) :
    ∀ data : Array UInt8, 0 < bits → bits = data.size * 8 →
      ProbeAll (keys.foldl (bloomAdd k bits) data) bits (bloomDelta (bloomHash key)) k (bloomHash key) := by
  induction keys with
  | nil => simp at hk
  | cons a keys ih =>
    intro data hpos hb
    simp only [List.foldl_cons]
    rcases List.mem_cons.mp hk with rfl | hmem
    · apply ProbeAll_mono (bloomAdd k bits data key) _ _ _
        (fun q hq => foldl_bloomAdd_mono k bits keys q _ hq)
      exact bloomAddGo_probeAll _ _ _ _ _ hpos hb
    · exact ih hmem _ hpos (by rw [bloomAdd_size]; exact hb)

/-- the match loop over `bits ‖ [kb]` succeeds when all probe positions are set -/
theorem bloomProbeGo_of_probeAll (arr : Array UInt8) (kb : UInt8) (bits delta : Nat)
    (hpos : 0 < bits) (hb : bits = arr.size * 8) :
    ∀ (i h : Nat), ProbeAll arr bits delta i h →
      bloomProbeGo (arr.toList ++ [kb]) bits delta i h = true := by
  intro i
  induction i with
  | zero => intro h _; rfl
  | succ i ih =>
    intro h hp
    simp only [bloomProbeGo]
    have hlt : h % bits / 8 < arr.size := by
      have := Nat.mod_lt h hpos
      omega
    have hget : (arr.toList ++ [kb]).getD (h % bits / 8) 0 = arr.getD (h % bits / 8) 0 := by
      rw [List.getD_eq_getElem?_getD, List.getElem?_append_left (by simpa using hlt),
        Array.getD_eq_getD_getElem?]
      simp
    have h1 := hp.1
    unfold bitOn at h1
    rw [hget, h1]
    simp only [if_true]
    exact ih _ hp.2

/-! ### the hash is a 32-bit value -/

theorem xor_shift_lt (x s : Nat) (h : x < 2 ^ 32) : x ^^^ (x / 2 ^ s) < 2 ^ 32 :=
  Nat.xor_lt_two_pow h (Nat.lt_of_le_of_lt (Nat.div_le_self _ _) h)

theorem hashMix_lt (h w : Nat) : hashMix h w < 2 ^ 32 :=
  xor_shift_lt _ 16 (Nat.mod_lt _ (by decide))

theorem hashTail_lt (h t : Nat) : hashTail h t < 2 ^ 32 :=
  xor_shift_lt _ 24 (Nat.mod_lt _ (by decide))

theorem hashGo_lt : ∀ (n : Nat) (data : Bytes) (h : Nat), data.length ≤ n → h < 2 ^ 32 → hashGo h data < 2 ^ 32 := by
  intro n
  induction n using Nat.strongRecOn with
  | _ n ih =>
    intro data h hn hh
    match data with
    | [] => simpa [hashGo] using hh
    | [a] => simp only [hashGo]; exact hashTail_lt _ _
    | [a, b] => simp only [hashGo]; exact hashTail_lt _ _
    | [a, b, c] => simp only [hashGo]; exact hashTail_lt _ _
    | a :: b :: c :: d :: rest =>
      simp only [hashGo]
      simp only [List.length_cons] at hn
      exact ih (n - 4) (by omega) rest _ (by omega) (hashMix_lt _ _)

theorem ldbHash_lt (data : Bytes) (seed : Nat) : ldbHash data seed < 2 ^ 32 :=
  hashGo_lt data.length data _ (Nat.le_refl _) (Nat.mod_lt _ (by decide))

/-! ### size facts -/

theorem bloomBytes_ge (bitsPerKey n : Nat) : 8 ≤ bloomBytes bitsPerKey n := by
  unfold bloomBytes
  by_cases h : n * bitsPerKey < 64
  · simp [h]
  · simp only [h, if_false]; omega

theorem bloomK_le (bitsPerKey : Nat) : 1 ≤ bloomK bitsPerKey ∧ bloomK bitsPerKey ≤ 30 := by
  unfold bloomK
  by_cases h1 : bitsPerKey * 69 / 100 < 1
  · simp [h1]
  · by_cases h2 : bitsPerKey * 69 / 100 > 30
    · simp [h1, h2]
    · simp only [h1, h2, if_false]; omega

theorem bloomBitsArray_size (bitsPerKey : Nat) (keys : List Bytes) :
    (bloomBitsArray bitsPerKey keys).size = bloomBytes bitsPerKey keys.length := by
  unfold bloomBitsArray
  rw [foldl_bloomAdd_size]; simp

/-! ### bounds-checked variants agree -/

theorem bloomProbeGoC_eq (filter : Bytes) (bits delta : Nat) (hpos : 0 < bits)
    (hb : bits = (filter.length - 1) * 8) (hl : 2 ≤ filter.length) :
    ∀ (i h : Nat), bloomProbeGoC filter bits delta i h = some (bloomProbeGo filter bits delta i h) := by
  intro i
  induction i with
  | zero => intro h; rfl
  | succ i ih =>
    intro h
    simp only [bloomProbeGoC, bloomProbeGo]
    have hlt : h % bits / 8 < filter.length := by
      have := Nat.mod_lt h hpos
      omega
    rw [List.getElem?_eq_getElem hlt, List.getD_eq_getElem?_getD, List.getElem?_eq_getElem hlt]
    simp only [Option.getD_some]
    by_cases hbit : (filter[h % bits / 8]).toNat.testBit (h % bits % 8) = true
    · simp only [hbit, if_true]; exact ih _
    · simp [hbit]

theorem bloomMatchC_eq (filter key : Bytes) : bloomMatchC filter key = some (bloomMatch filter key) := by
  unfold bloomMatchC bloomMatch
  by_cases hl : filter.length < 2
  · simp [hl]
  · simp only [hl, if_false]
    have hlt : filter.length - 1 < filter.length := by omega
    rw [List.getElem?_eq_getElem hlt, List.getD_eq_getElem?_getD, List.getElem?_eq_getElem hlt]
    simp only [Option.getD_some]
    by_cases hk : (filter[filter.length - 1]).toNat > 30
    · simp [hk]
    · simp only [hk, if_false]
      exact bloomProbeGoC_eq filter _ _ (by omega) rfl (by omega) _ _

end Lcdb
