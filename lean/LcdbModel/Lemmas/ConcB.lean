/-
  The background-work invariant of the concurrency model (C09 item 3).
-/
import LcdbModel.Lemmas.ConcQ

namespace Lcdb.Conc

def WB (st : St) (w : Writer) : Prop :=
  (w.pc = .asleepBg → st.bgScheduled = true ∧ st.bgError = false) ∧
  (st.shuttingDown = true → w.pc = .idle ∨ ∃ ok, w.pc = .returned ok)

structure InvB (st : St) : Prop where
  sched : st.bgScheduled = true ↔ st.bg ≠ .parked
  need : (st.imm = true ∨ st.needsCompaction = true) → st.bgError = false → st.shuttingDown = false →
    st.bgScheduled = true
  closerB : st.closer = .asleepBg → st.bgScheduled = true
  closerS : st.closer ≠ .idle ↔ st.shuttingDown = true
  wb : ∀ w ∈ st.writers, WB st w
  rb : ∀ r ∈ st.readers, st.shuttingDown = true → r.pc = .idle ∨ ∃ s, r.pc = .returned s

/-- a writer that is in flight proves that the database is not shutting down -/
theorem InvB.not_shutting {st : St} (H : InvB st) {w : Writer} (hw : w ∈ st.writers)
    (hpc : w.pc ≠ .idle) (hpc' : ∀ ok, w.pc ≠ .returned ok) : st.shuttingDown = false := by
  cases hs : st.shuttingDown with
  | false => rfl
  | true =>
    rcases (H.wb w hw).2 hs with h | ⟨ok, h⟩
    · exact absurd h hpc
    · exact absurd h (hpc' ok)

theorem InvB.not_shutting_r {st : St} (H : InvB st) {r : Reader} (hr : r ∈ st.readers)
    (hpc : r.pc ≠ .idle) (hpc' : ∀ s, r.pc ≠ .returned s) : st.shuttingDown = false := by
  cases hs : st.shuttingDown with
  | false => rfl
  | true =>
    rcases H.rb r hr hs with h | ⟨s, h⟩
    · exact absurd h hpc
    · exact absurd h (hpc' s)

theorem InvB.closer_idle {st : St} (H : InvB st) (hs : st.shuttingDown = false) : st.closer = .idle := by
  by_cases h : st.closer = .idle
  · exact h
  · have := H.closerS.1 h; rw [hs] at this; cases this

/-- writer steps: the database is not shutting down, the closer is idle -/
theorem InvB.of_mapW {st G : St} {g : Writer → Writer} (_H : InvB st) (hw : G.writers = st.writers)
    (_hr : G.readers = st.readers) (hs : G.shuttingDown = false) (hcl : G.closer = .idle)
    (sched : G.bgScheduled = true ↔ G.bg ≠ .parked)
    (need : (G.imm = true ∨ G.needsCompaction = true) → G.bgError = false → G.bgScheduled = true)
    (hpc : ∀ x ∈ st.writers, (g x).pc = .asleepBg → G.bgScheduled = true ∧ G.bgError = false) :
    InvB (mapW G g) := by
  refine ⟨sched, fun h1 h2 _ => need h1 h2, ?_, ?_, ?_, ?_⟩
  · intro h; simp [hcl] at h
  · simp [hcl, hs]
  · intro x' hx'
    simp only [mapW_writers, hw, List.mem_map] at hx'
    obtain ⟨x, hx, rfl⟩ := hx'
    exact ⟨hpc x hx, by simp [hs]⟩
  · intro r _ h; simp [hs] at h

/-- writer steps that leave the background-related globals alone -/
theorem InvB.of_mapW_same {st G : St} {g : Writer → Writer} (H : InvB st) (hw : G.writers = st.writers)
    (hr : G.readers = st.readers) (hs : st.shuttingDown = false)
    (e1 : G.shuttingDown = st.shuttingDown) (e2 : G.closer = st.closer) (e3 : G.bgScheduled = st.bgScheduled)
    (e4 : G.bg = st.bg) (e5 : G.imm = st.imm) (e6 : G.needsCompaction = st.needsCompaction)
    (e7 : G.bgError = st.bgError)
    (hpc : ∀ x ∈ st.writers, (g x).pc = .asleepBg → x.pc = .asleepBg ∨ (st.bgScheduled = true ∧ st.bgError = false)) :
    InvB (mapW G g) := by
  refine H.of_mapW hw hr (by rw [e1, hs]) (by rw [e2]; exact H.closer_idle hs) (by rw [e3, e4]; exact H.sched)
    (by rw [e5, e6, e7, e3]; exact fun h1 h2 => H.need h1 h2 hs) ?_
  intro x hx h
  rw [e3, e7]
  rcases hpc x hx h with h' | h'
  · exact (H.wb x hx).1 h'
  · exact h'

/-- a broadcast on the background cv -/
theorem InvB.broadcast {st : St} (H : InvB st) : InvB (broadcastBg st) := by
  rw [broadcastBg_eq]
  refine ⟨H.sched, H.need, ?_, ?_, ?_, H.rb⟩
  · intro h; simp only at h; split at h
    · cases h
    · exact H.closerB h
  · simp only [mapW_shuttingDown]; rw [← H.closerS]
    by_cases hc : st.closer = .asleepBg <;> simp [hc]
  · intro x' hx'
    simp only [mapW_writers, List.mem_map] at hx'
    obtain ⟨x, hx, rfl⟩ := hx'
    refine ⟨?_, ?_⟩
    · intro h; rw [bwake_pc] at h; split at h <;> simp_all
    · intro h
      rcases (H.wb x hx).2 h with h' | ⟨ok, h'⟩
      · left; rw [bwake_pc]; simp [h']
      · right; exact ⟨ok, by rw [bwake_pc]; simp [h']⟩

/-- a broadcast after which nobody needs to sleep on the background cv any more (error recorded or work finished) -/
theorem InvB.broadcast_all {st : St} (sched : st.bgScheduled = true ↔ st.bg ≠ .parked)
    (need : (st.imm = true ∨ st.needsCompaction = true) → st.bgError = false → st.shuttingDown = false →
      st.bgScheduled = true)
    (closerS : st.closer ≠ .idle ↔ st.shuttingDown = true)
    (wb : ∀ w ∈ st.writers, st.shuttingDown = true → w.pc = .idle ∨ ∃ ok, w.pc = .returned ok)
    (rb : ∀ r ∈ st.readers, st.shuttingDown = true → r.pc = .idle ∨ ∃ s, r.pc = .returned s) :
    InvB (broadcastBg st) := by
  rw [broadcastBg_eq]
  refine ⟨sched, need, ?_, ?_, ?_, rb⟩
  · intro h; simp only at h; split at h
    · cases h
    · rename_i h'; exact absurd h h'
  · simp only [mapW_shuttingDown]; rw [← closerS]
    by_cases hc : st.closer = .asleepBg <;> simp [hc]
  · intro x' hx'
    simp only [mapW_writers, List.mem_map] at hx'
    obtain ⟨x, hx, rfl⟩ := hx'
    refine ⟨?_, ?_⟩
    · intro h; rw [bwake_pc] at h; split at h <;> simp_all
    · intro h
      rcases wb x hx h with h' | ⟨ok, h'⟩
      · left; rw [bwake_pc]; simp [h']
      · right; exact ⟨ok, by rw [bwake_pc]; simp [h']⟩

theorem wakeHead_pc_ne (q : List Tid) (y : Writer) (h : y.pc ≠ .asleepBg) : (wakeHead q y).pc ≠ .asleepBg := by
  unfold wakeHead; split
  · rw [wake_pc]; split <;> simp [*]
  · exact h

theorem InvB.fail {st : St} {w : Writer} (H : InvB st) (hN : (st.writers.map (·.tid)).Nodup)
    (hs : st.shuttingDown = false) : InvB (failAct st w) := by
  rw [failAct_eq hN]
  refine H.of_mapW_same rfl rfl hs rfl rfl rfl rfl rfl rfl rfl ?_
  intro x _ h
  by_cases hx : x.pc = .asleepBg
  · exact Or.inl hx
  · exfalso
    refine wakeHead_pc_ne _ _ ?_ h
    simp only [putW]; split <;> simp [hx]

theorem InvB.setPc {st : St} {w' : Writer} (H : InvB st) (hs : st.shuttingDown = false)
    (hpc : w'.pc = .asleepBg → st.bgScheduled = true ∧ st.bgError = false) : InvB (setW st w') := by
  rw [setW_eq]
  refine H.of_mapW_same rfl rfl hs rfl rfl rfl rfl rfl rfl rfl ?_
  intro x _ h
  simp only [putW] at h
  split at h
  · exact Or.inr (hpc h)
  · exact Or.inl h

theorem InvB.setPc_log {st : St} {w' : Writer} (H : InvB st) (hs : st.shuttingDown = false) (q : List Tid)
    (lg : List (Tid × Bool × Nat))
    (hpc : w'.pc ≠ .asleepBg) : InvB (setW { st with queue := q, log := lg } w') := by
  rw [setW_eq]
  refine H.of_mapW_same rfl rfl hs rfl rfl rfl rfl rfl rfl rfl ?_
  intro x _ h
  simp only [putW] at h
  split at h
  · exact absurd h hpc
  · exact Or.inl h

theorem InvB.begin {st : St} {w : Writer} (H : InvB st) (hs : st.shuttingDown = false) (hE : st.bgError = false)
    (sw : Bool) (g : Nat) : InvB (beginSt st w sw g) := by
  rw [beginSt_eq]
  have hcl := H.closer_idle hs
  cases sw with
  | false =>
    refine H.of_mapW_same (by simp) (by simp) hs (by simp) (by simp) (by simp [beginG]) (by simp [beginG])
      (by simp [beginG]) (by simp) (by simp) ?_
    intro x _ h
    simp only [putW] at h
    split at h
    · cases h
    · exact Or.inl h
  | true =>
    have hsch : (beginG st true g).bgScheduled = true ∧ (beginG st true g).bg ≠ .parked := by
      simp only [beginG, if_true]; rw [maybeSchedule_eq]
      by_cases hb : st.bgScheduled = true
      · simp [hb, H.sched.1 hb]
      · have : st.bgScheduled = false := by simpa using hb
        simp [this, hs, hE]
    refine H.of_mapW (by simp) (by simp) (by simp [hs]) (by simp [hcl]) ?_ ?_ ?_
    · simp [hsch.1, hsch.2]
    · intro _ _; exact hsch.1
    · intro x _ _
      exact ⟨hsch.1, by simp [hE]⟩

theorem InvB.headOutcome {st st' : St} {w : Writer} {c : RoomChoice} (H : InvB st)
    (hN : (st.writers.map (·.tid)).Nodup) (hs : st.shuttingDown = false)
    (h : HeadOutcome st w c st') : InvB st' := by
  cases h with
  | fail _ => exact H.fail hN hs
  | switchFail _ _ =>
    have H1 : InvB (switchFailSt st) := by
      unfold switchFailSt
      apply InvB.broadcast_all
      · exact H.sched
      · intro _ h; simp at h
      · exact H.closerS
      · intro w hw; exact (H.wb w hw).2
      · exact H.rb
    exact H1.fail (by rw [switchFailSt_writers]; exact nodup_tids_map bwake_tid hN) (by simpa using hs)
  | delay _ _ => exact H.setPc hs (by simp)
  | wait c hE hc =>
    refine H.setPc hs (fun _ => ⟨?_, hE⟩)
    rcases hc with ⟨_, hc⟩ | ⟨_, hc⟩
    · exact H.need (Or.inl hc) hE hs
    · exact H.need (Or.inr hc) hE hs
  | begin sw g hE _ _ _ _ => exact H.begin hs hE sw g

theorem InvB.of_enq {st : St} (H : InvB st) (t : Tid) : InvB (enq st t) :=
  ⟨H.sched, H.need, H.closerB, H.closerS, H.wb, H.rb⟩

theorem commitW_pc_ne (st : St) (w : Writer) (x : Writer) (sf : Bool) (h : sf = true ∨ x.pc ≠ .asleepBg) :
    (commitW st w sf x).pc ≠ .asleepBg := by
  unfold commitW
  apply wakeHead_pc_ne
  have hb : (if sf = true then bwake x else x).pc ≠ .asleepBg := by
    rcases h with rfl | h
    · simp only [if_true, bwake_pc]; split <;> simp [*]
    · split
      · rw [bwake_pc]; simp [h]
      · exact h
  have hy : ∀ y : Writer, y.pc ≠ .asleepBg → (putW w.tid { w with pc := .returned (!sf) } y).pc ≠ .asleepBg := by
    intro y hy; unfold putW; split <;> simp [hy]
  apply hy
  generalize (if sf = true then bwake x else x) = z at hb ⊢
  split
  · simp only [markF]; split <;> simp [*]
  · exact hb

theorem InvB.commit {st : St} {w : Writer} (H : InvB st) (hN : (st.writers.map (·.tid)).Nodup)
    (hs : st.shuttingDown = false) (sf : Bool) : InvB (commitAct st w sf) := by
  rw [commitAct_eq hN]
  have hcl := H.closer_idle hs
  cases sf with
  | false =>
    refine H.of_mapW_same (by simp [commitG]) (by simp [commitG]) hs (by simp [commitG]) (by simp [commitG])
      (by simp [commitG]) (by simp [commitG]) (by simp [commitG]) (by simp [commitG]) (by simp [commitG]) ?_
    intro x _ h
    by_cases hx : x.pc = .asleepBg
    · exact Or.inl hx
    · exact absurd h (commitW_pc_ne st w x false (Or.inr hx))
  | true =>
    refine H.of_mapW (by simp [commitG]) (by simp [commitG]) (by simp [commitG, hs]) (by simp [commitG, hcl])
      (by simpa [commitG] using H.sched) (by simp [commitG]) ?_
    intro x _ h
    exact absurd h (commitW_pc_ne st w x true (Or.inl rfl))

/-- `InvB` only looks at the writers' pcs, the background-related globals and (when shutting down) the readers -/
theorem InvB.congr {st st' : St} (H : InvB st) (hw : st'.writers = st.writers)
    (e1 : st'.shuttingDown = st.shuttingDown) (e2 : st'.closer = st.closer) (e3 : st'.bgScheduled = st.bgScheduled)
    (e4 : st'.bg = st.bg) (e5 : st'.imm = st.imm) (e6 : st'.needsCompaction = st.needsCompaction)
    (e7 : st'.bgError = st.bgError)
    (rb : ∀ r ∈ st'.readers, st'.shuttingDown = true → r.pc = .idle ∨ ∃ s, r.pc = .returned s) : InvB st' := by
  refine ⟨by rw [e3, e4]; exact H.sched, by rw [e5, e6, e7, e1, e3]; exact H.need, by rw [e2, e3]; exact H.closerB,
    by rw [e2, e1]; exact H.closerS, ?_, rb⟩
  intro w hw'; rw [hw] at hw'
  have := H.wb w hw'
  unfold WB at this ⊢
  rw [e3, e7, e1]; exact this

theorem maybeSchedule_sched_need {st : St} (sched : st.bgScheduled = true ↔ st.bg ≠ .parked) :
    ((maybeSchedule st).bgScheduled = true ↔ (maybeSchedule st).bg ≠ .parked) ∧
    ((st.imm = true ∨ st.needsCompaction = true) → st.bgError = false → st.shuttingDown = false →
      (maybeSchedule st).bgScheduled = true) := by
  rw [maybeSchedule_eq]
  split
  · exact ⟨by simp, fun _ _ _ => rfl⟩
  · rename_i hc
    refine ⟨sched, ?_⟩
    intro h1 h2 h3
    cases hb : st.bgScheduled with
    | true => rfl
    | false => exact absurd ⟨hb, h3, h2, h1⟩ hc

/-- after `ldb_maybe_schedule_compaction` needed work is scheduled -/
theorem InvB.maybeSchedule' {st : St} (sched : st.bgScheduled = true ↔ st.bg ≠ .parked)
    (closerB : st.closer = .asleepBg → st.bgScheduled = true)
    (closerS : st.closer ≠ .idle ↔ st.shuttingDown = true)
    (wb : ∀ w ∈ st.writers, WB st w)
    (rb : ∀ r ∈ st.readers, st.shuttingDown = true → r.pc = .idle ∨ ∃ s, r.pc = .returned s) :
    InvB (maybeSchedule st) := by
  rw [maybeSchedule_eq]
  split
  · rename_i hc
    refine ⟨by simp, fun _ _ _ => rfl, fun _ => rfl, closerS, ?_, rb⟩
    intro w hw
    exact ⟨fun _ => ⟨rfl, hc.2.2.1⟩, (wb w hw).2⟩
  · rename_i hc
    refine ⟨sched, ?_, closerB, closerS, wb, rb⟩
    intro h1 h2 h3
    cases hb : st.bgScheduled with
    | true => rfl
    | false => exact absurd ⟨hb, h3, h2, h1⟩ hc

theorem step_InvB {st st' : St} {l : Label} (HQ : InvQ st) (H : InvB st) (h : step st l = some st') : InvB st' := by
  have hN := HQ.wnodup
  cases l with
  | wEnter t c =>
    obtain ⟨w, hg, hpc, hs, h⟩ := step_wEnter h
    obtain ⟨hw, rfl⟩ := getW_some hg
    rcases h with ⟨hh, ho⟩ | ⟨hh, _, rfl⟩
    · exact (H.of_enq _).headOutcome hN hs ho
    · exact (H.of_enq _).setPc hs (by simp)
  | wWake t c =>
    obtain ⟨w, hg, hpc, h⟩ := step_wWake h
    obtain ⟨hw, rfl⟩ := getW_some hg
    have hs : st.shuttingDown = false := by
      apply H.not_shutting hw <;> rcases hpc with hpc | hpc | hpc <;> simp [hpc]
    rcases h with ⟨hd, _, rfl⟩ | ⟨hd, hh, ho⟩ | ⟨hd, hh, _, rfl⟩
    · exact H.setPc_log hs st.queue _ (by simp)
    · exact H.headOutcome hN hs ho
    · exact H.setPc hs (by simp)
  | wCommit t sf =>
    obtain ⟨w, hg, hpc, _, rfl⟩ := step_wCommit h
    have hs : st.shuttingDown = false := H.not_shutting (getW_some hg).1 (by simp [hpc]) (by simp [hpc])
    exact H.commit hN hs sf
  | rCapture t =>
    obtain ⟨r, _, _, hs, rfl⟩ := step_rCapture h
    refine H.congr rfl rfl rfl rfl rfl rfl rfl rfl ?_
    intro r _ h; simp [setR, hs] at h
  | rRead t =>
    obtain ⟨r, s, hg, hpc, rfl⟩ := step_rRead h
    have hs : st.shuttingDown = false := H.not_shutting_r (getR_some hg).1 (by simp [hpc]) (by simp [hpc])
    refine H.congr rfl rfl rfl rfl rfl rfl rfl rfl ?_
    intro r _ h; simp [setR, hs] at h
  | rRelease t seek =>
    obtain ⟨r, s, hg, hpc, rfl⟩ := step_rRelease h
    have hs : st.shuttingDown = false := H.not_shutting_r (getR_some hg).1 (by simp [hpc]) (by simp [hpc])
    cases seek with
    | false =>
      refine H.congr rfl rfl rfl rfl rfl rfl rfl rfl ?_
      intro r _ h; simp [setR, hs] at h
    | true =>
      have H1 : InvB (maybeSchedule { st with needsCompaction := true }) :=
        InvB.maybeSchedule' H.sched H.closerB H.closerS H.wb H.rb
      refine H1.congr (by simp [setR]) (by simp [setR]) (by simp [setR]) (by simp [setR]) (by simp [setR])
        (by simp [setR]) (by simp [setR]) (by simp [setR]) ?_
      intro r _ h; simp [setR, hs] at h
  | bgStart =>
    obtain ⟨hb, rfl⟩ := step_bgStart h
    refine ⟨?_, H.need, H.closerB, H.closerS, H.wb, H.rb⟩
    have := H.sched; simp [hb] at this; simp [this]
  | bgMid fd bc er =>
    obtain ⟨hb, hs, hE, hfd, rfl⟩ := step_bgMid h
    have hsch : st.bgScheduled = true := H.sched.2 (by simp [hb])
    cases er with
    | true =>
      simp only [Bool.or_true, if_true]
      apply InvB.broadcast_all
      · exact H.sched
      · intro _ h; simp at h
      · exact H.closerS
      · intro w hw; exact (H.wb w hw).2
      · exact H.rb
    | false =>
      have H1 : InvB { st with imm := if fd then false else st.imm, bgError := if false then true else st.bgError } := by
        refine ⟨H.sched, fun _ _ _ => hsch, H.closerB, H.closerS, H.wb, H.rb⟩
      by_cases hb : (bc || false) = true
      · simp only [hb, if_true]; exact H1.broadcast
      · simp only [hb]; exact H1
  | bgFinish sn =>
    obtain ⟨hb, rfl⟩ := step_bgFinish h
    have hsn := maybeSchedule_sched_need (st := { st with bgScheduled := false, bg := .parked, needsCompaction := sn })
      (by simp)
    apply InvB.broadcast_all
    · exact hsn.1
    · simpa using hsn.2
    · simpa using H.closerS
    · intro w hw; simpa using (H.wb w (by simpa using hw)).2
    · intro r hr; simpa using H.rb r (by simpa using hr)
  | close =>
    obtain ⟨hc, hws, hrs, rfl⟩ := step_close h
    refine ⟨H.sched, ?_, ?_, ?_, ?_, ?_⟩
    · intro _ _ h; simp at h
    · intro h; simp only at h; split at h
      · assumption
      · cases h
    · simp only; split <;> simp
    · intro w hw
      exact ⟨(H.wb w hw).1, fun _ => hws w hw⟩
    · intro r hr _; exact hrs r hr
  | closeWake =>
    obtain ⟨hc, rfl⟩ := step_closeWake h
    have hs : st.shuttingDown = true := H.closerS.1 (by simp [hc])
    refine ⟨H.sched, H.need, ?_, ?_, H.wb, H.rb⟩
    · intro h; simp only at h; split at h
      · assumption
      · cases h
    · simp only [hs, iff_true]; split <;> simp

end Lcdb.Conc
