/-
  Partial alteration of a table file (C11), part C: what `AlteredOK file file'` means for the
  readers of `file'`: every block that was valid in `file` is read identically or rejected;
  `tableOpen` fails or finds the same index block and the same or no filter; the two block
  readers agree wherever neither reports an error.
-/
import LcdbModel.Lemmas.TableAlteredA
import LcdbModel.Lemmas.TableAlteredB
import LcdbModel.Lemmas.TableCursorGet
namespace Lcdb

section
variable {file file' : Bytes}

/-- a block that was checksum-valid is read identically from the altered file, or rejected -/
theorem altered_readBlock (halt : AlteredOK file file') (h : BlockHandle) (c : Bytes)
    (hc : readBlock file h.offset h.size true = .ok c) :
    readBlock file' h.offset h.size true = .ok c ∨
    readBlock file' h.offset h.size true = .error .corruption ∨
    readBlock file' h.offset h.size true = .error .io := by
  rcases halt.blocks h ⟨c, hc⟩ with e | e
  · left
    rw [readBlock_congr file file' _ _ true e]
    exact hc
  · right
    exact readBlock_crc_bad file' _ _ e

/-- the block readers of two tables over `file'` and `file` agree wherever neither fails -/
theorem altered_rdAgree (halt : AlteredOK file file') (t' t : Table) (hf' : t'.file = file')
    (hf : t.file = file) : RdAgree (blockReader t' true) (blockReader t true) := by
  intro hv
  unfold blockReader
  rw [hf', hf]
  cases hh : handleRead hv with
  | none => exact Or.inl rfl
  | some hr =>
    obtain ⟨h, rest⟩ := hr
    dsimp only
    cases hrb : readBlock file h.offset h.size true with
    | ok c =>
      rcases altered_readBlock halt h c hrb with e | e | e
      · rw [e]; exact Or.inl rfl
      · rw [e]; exact Or.inr (Or.inl ⟨.corrupt, by decide, rfl⟩)
      · rw [e]; exact Or.inr (Or.inl ⟨.io, by decide, rfl⟩)
    | error e =>
      cases e with
      | fault => exact absurd hrb (readBlock_total _ _ _ _)
      | corruption => exact Or.inr (Or.inr ⟨.corrupt, by decide, rfl⟩)
      | io => exact Or.inr (Or.inr ⟨.io, by decide, rfl⟩)

/-! ### read_meta -/

theorem altered_readFilter (halt : AlteredOK file file') (v : Bytes)
    (hv : match handleRead v with
      | some (h, _) => ∃ c, readBlock file h.offset h.size true = .ok c
      | none => True) :
    readFilter file' true v = readFilter file true v ∨ readFilter file' true v = .ok none := by
  unfold readFilter
  cases hh : handleRead v with
  | none => exact Or.inl rfl
  | some hr =>
    obtain ⟨h, rest⟩ := hr
    rw [hh] at hv
    obtain ⟨c, hc⟩ := hv
    dsimp only
    rcases altered_readBlock halt h c hc with e | e | e
    · rw [e, hc]; exact Or.inl rfl
    · rw [e]; exact Or.inr rfl
    · rw [e]; exact Or.inr rfl

theorem altered_readMeta (halt : AlteredOK file file') (o : TableOpts) (L : Layout)
    (hmr : metaReadable o file L) :
    readMeta o file' true L.footer = readMeta o file true L.footer ∨
    readMeta o file' true L.footer = .ok none := by
  obtain ⟨⟨c, hc⟩, h2⟩ := hmr
  cases hp : o.policy with
  | none =>
    left
    unfold readMeta findFilterHandle
    simp only [hp]
  | some p =>
    rcases altered_readBlock halt L.footer.metaindex c hc with e | e | e
    · have hff : findFilterHandle o file' true L.footer = findFilterHandle o file true L.footer := by
        unfold findFilterHandle
        simp only [hp, e, hc]
      unfold readMeta
      rw [hff]
      cases hfh : findFilterHandle o file true L.footer with
      | error er => exact Or.inl rfl
      | ok r =>
        cases r with
        | none => exact Or.inl rfl
        | some v =>
          rw [hfh] at h2
          exact altered_readFilter halt v h2
    · right
      have hff : findFilterHandle o file' true L.footer = .ok none := by
        unfold findFilterHandle
        simp only [hp, e]
      unfold readMeta
      rw [hff]
    · right
      have hff : findFilterHandle o file' true L.footer = .ok none := by
        unfold findFilterHandle
        simp only [hp, e]
      unfold readMeta
      rw [hff]

end

/-! ### ldb_table_open -/

/-- `tableOpen` on the altered file, with the layout of the original -/
theorem altered_open_layout (o : TableOpts) (file file' : Bytes) (es : List (Bytes × Bytes))
    (hwf : TableWF o file es) (halt : AlteredOK file file') :
    ∃ t L, tableLayout file = some L ∧ L.Good o file es ∧ tableOpen o file true = .ok t ∧
      t.opts = o ∧ t.file = file ∧ t.index = L.index ∧
      readMeta o file true L.footer = .ok t.filter ∧
      ((∃ e, tableOpen o file' true = .error e) ∨
       ∃ t', tableOpen o file' true = .ok t' ∧ t'.index = t.index ∧ t'.opts = o ∧
         t'.file = file' ∧ t'.metaindex = t.metaindex ∧
         (t'.filter = t.filter ∨ t'.filter = none)) := by
  obtain ⟨t, L, hL, hg, ht, ho, hf, hi, hm⟩ := table_open_wf o file es hwf true
  refine ⟨t, L, hL, hg, ht, ho, hf, hi, hm, ?_⟩
  obtain ⟨h0, h1, h2, _⟩ := tableLayout_some hL
  have hmi : t.metaindex = L.footer.metaindex := by
    unfold tableOpen at ht
    simp only [h0, if_false, h1, h2, hm, Except.ok.injEq] at ht
    rw [← ht]
  have h0' : ¬ file'.length < footerSize := by rw [halt.len]; exact h0
  have h1' : footerDecode (pread file' (file'.length - footerSize) footerSize) = some L.footer := by
    rw [halt.footer]; exact h1
  rcases altered_readBlock halt L.footer.index L.index h2 with e | e | e
  · have hmeta := altered_readMeta halt o L hg.2.2.2.2.2.2.2.1
    rw [hm] at hmeta
    right
    rcases hmeta with hm' | hm'
    · refine ⟨{ opts := o, file := file', index := L.index, filter := t.filter,
                metaindex := L.footer.metaindex }, ?_, hi.symm, rfl, rfl, hmi.symm, Or.inl rfl⟩
      unfold tableOpen
      simp only [h0', if_false, h1', e, hm']
    · refine ⟨{ opts := o, file := file', index := L.index, filter := none,
                metaindex := L.footer.metaindex }, ?_, hi.symm, rfl, rfl, hmi.symm, Or.inr rfl⟩
      unfold tableOpen
      simp only [h0', if_false, h1', e, hm']
  · left
    refine ⟨.corruption, ?_⟩
    unfold tableOpen
    simp only [h0', if_false, h1', e]
  · left
    refine ⟨.io, ?_⟩
    unfold tableOpen
    simp only [h0', if_false, h1', e]

/-- **C11, open**: opening the altered file (paranoid checks on) fails, or yields a table with the
    original index block and the original filter block or none -/
theorem altered_open (o : TableOpts) (file file' : Bytes) (es : List (Bytes × Bytes))
    (hwf : TableWF o file es) (halt : AlteredOK file file') :
    ∃ t, tableOpen o file true = .ok t ∧
      ((∃ e, tableOpen o file' true = .error e) ∨
       ∃ t', tableOpen o file' true = .ok t' ∧ t'.index = t.index ∧ t'.opts = o ∧
         t'.file = file' ∧ t'.metaindex = t.metaindex ∧
         (t'.filter = t.filter ∨ t'.filter = none)) := by
  obtain ⟨t, L, _, _, ht, _, _, _, _, h⟩ := altered_open_layout o file file' es hwf halt
  exact ⟨t, ht, h⟩

end Lcdb
