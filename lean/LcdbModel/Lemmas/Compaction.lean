/-
  Lemmas about the compaction work loop (`Model/Compaction.lean`):

  * `merge2` / `mergeInputs`: sortedness, permutation of the inputs;
  * `dropLoopFrom`: sublist of the input; exact characterisation of the surviving entries
    (`mem_dropLoop_iff`) for a strictly sorted run without (user key, sequence) ties;
  * `walkLevel` / `isBasePtr`: the monotone pointers compute the stateless test as long as the keys asked
    for are non-decreasing (`PtrsOk` invariant), hence `dropLoopPtrFrom = dropLoopFrom`;
  * input runs of a compaction of a state satisfying `Inv` are sorted and pairwise distinct.
-/
import LcdbModel.Model.Compaction
import LcdbModel.Lemmas.MergeIter
import LcdbModel.Lemmas.LsmStepsView
namespace Lcdb
namespace Compaction

/-! ### `merge2`, `mergeInputs` -/

theorem merge2_perm (c : Cmp) (xs ys : Run) : (merge2 c xs ys).Perm (xs ++ ys) := by
  fun_induction merge2 c xs ys with
  | case1 ys => simp
  | case2 xs _ => simp
  | case3 x xs y ys hlt ih =>
    refine (List.Perm.cons y ih).trans ?_
    exact (List.perm_middle (a := y) (l₁ := x :: xs) (l₂ := ys)).symm
  | case4 x xs y ys hlt ih =>
    exact List.Perm.cons x ih

theorem mem_merge2 {c : Cmp} {xs ys : Run} {e : Entry} : e ∈ merge2 c xs ys ↔ e ∈ xs ∨ e ∈ ys := by
  rw [(merge2_perm c xs ys).mem_iff, List.mem_append]

/-- two entries with different internal keys are ordered one way or the other -/
theorem entryLt_of_ne_of_not_lt {c : Cmp} {x y : Entry} (hne : entryCmp c x y ≠ .eq)
    (h : entryLt c y x = false) : entryLt c x y = true := by
  cases hxy : entryLt c x y with
  | true => rfl
  | false => exact absurd ((Merge.entryCmp_eq_iff c x y).mpr ⟨hxy, h⟩) hne

theorem merge2_sorted (c : Cmp) (xs ys : Run) (hx : RunSorted c xs) (hy : RunSorted c ys)
    (hd : ∀ x ∈ xs, ∀ y ∈ ys, entryCmp c x y ≠ .eq) : RunSorted c (merge2 c xs ys) := by
  fun_induction merge2 c xs ys with
  | case1 ys => exact hy
  | case2 xs _ => exact hx
  | case3 x xs y ys hlt ih =>
    have hy' := List.pairwise_cons.mp hy
    have hx' := List.pairwise_cons.mp hx
    refine List.pairwise_cons.mpr ⟨?_, ih hx hy'.2 (fun a ha b hb => hd a ha b (List.mem_cons_of_mem _ hb))⟩
    intro e he
    rcases mem_merge2.mp he with he | he
    · rcases List.mem_cons.mp he with rfl | he
      · exact hlt
      · exact entryLt_trans hlt (hx'.1 e he)
    · exact hy'.1 e he
  | case4 x xs y ys hlt ih =>
    have hy' := List.pairwise_cons.mp hy
    have hx' := List.pairwise_cons.mp hx
    have hxy : entryLt c x y = true :=
      entryLt_of_ne_of_not_lt (hd x List.mem_cons_self y List.mem_cons_self) (by simpa using hlt)
    refine List.pairwise_cons.mpr ⟨?_, ih hx'.2 hy (fun a ha b hb => hd a (List.mem_cons_of_mem _ ha) b hb)⟩
    intro e he
    rcases mem_merge2.mp he with he | he
    · exact hx'.1 e he
    · rcases List.mem_cons.mp he with rfl | he
      · exact hxy
      · exact entryLt_trans hxy (hy'.1 e he)

theorem foldl_merge2_sorted_perm (c : Cmp) (runs : List Run) (acc : Run) (hacc : RunSorted c acc)
    (hs : ∀ r ∈ runs, RunSorted c r)
    (hd : (acc ++ runs.flatten).Pairwise (fun a b => entryCmp c a b ≠ .eq)) :
    RunSorted c (runs.foldl (merge2 c) acc) ∧ (runs.foldl (merge2 c) acc).Perm (acc ++ runs.flatten) := by
  induction runs generalizing acc with
  | nil => simpa using hacc
  | cons r rs ih =>
    simp only [List.foldl_cons, List.flatten_cons]
    have hd' : ((acc ++ r) ++ rs.flatten).Pairwise (fun a b => entryCmp c a b ≠ .eq) := by
      simpa [List.append_assoc] using hd
    have hcross : ∀ x ∈ acc, ∀ y ∈ r, entryCmp c x y ≠ .eq := by
      have := (List.pairwise_append.mp (List.pairwise_append.mp hd').1).2.2
      exact this
    have hp := merge2_perm c acc r
    have hsorted := merge2_sorted c acc r hacc (hs r List.mem_cons_self) hcross
    have hd'' : (merge2 c acc r ++ rs.flatten).Pairwise (fun a b => entryCmp c a b ≠ .eq) :=
      List.Pairwise.perm hd' (List.Perm.append_right _ hp.symm) (fun h => Merge.entryCmp_ne_symm c h)
    obtain ⟨h1, h2⟩ := ih (merge2 c acc r) hsorted (fun r' hr' => hs r' (List.mem_cons_of_mem _ hr')) hd''
    refine ⟨h1, h2.trans ?_⟩
    rw [← List.append_assoc]
    exact List.Perm.append_right _ hp

instance (c : Cmp) (runs : List Run) : Decidable (DistinctKeys c runs) := by
  unfold DistinctKeys; infer_instance

/-- 1. the merged input is strictly sorted and a permutation of all input entries -/
theorem mergeInputs_sorted_perm' (c : Cmp) (runs : List Run) (hs : ∀ r ∈ runs, RunSorted c r)
    (hd : DistinctKeys c runs) :
    RunSorted c (mergeInputs c runs) ∧ (mergeInputs c runs).Perm runs.flatten := by
  have := foldl_merge2_sorted_perm c runs [] List.Pairwise.nil hs (by simpa [DistinctKeys] using hd)
  simpa [mergeInputs] using this

/-- a strictly sorted run is determined by its entries -/
theorem sorted_perm_eq {c : Cmp} {r r' : Run} (hr : RunSorted c r) (hr' : RunSorted c r')
    (hp : r.Perm r') : r = r' := by
  apply List.Perm.eq_of_pairwise (le := fun a b => entryLt c a b = true) _ hr hr' hp
  intro a b _ _ h1 h2
  exact absurd h2 (by rw [Lsm.entryLt_asymm c h1]; simp)

theorem mem_mergeInputs {c : Cmp} {runs : List Run} {e : Entry} :
    e ∈ mergeInputs c runs ↔ ∃ r ∈ runs, e ∈ r := by
  unfold mergeInputs
  suffices h : ∀ acc : Run, e ∈ runs.foldl (merge2 c) acc ↔ e ∈ acc ∨ ∃ r ∈ runs, e ∈ r by
    simpa using h []
  induction runs with
  | nil => intro acc; simp
  | cons r rs ih =>
    intro acc
    simp only [List.foldl_cons, ih, mem_merge2, List.mem_cons, exists_eq_or_imp, or_assoc]

/-! ### the drop loop: sublist -/

theorem dropLoopFrom_cons (c : Cmp) (sm : Nat) (isBase : Bytes → Bool) (s : LoopSt) (e : Entry) (es : Run) :
    dropLoopFrom c sm isBase s (e :: es) =
      if (stepEntry c sm isBase s e).1 then dropLoopFrom c sm isBase (stepEntry c sm isBase s e).2 es
      else e :: dropLoopFrom c sm isBase (stepEntry c sm isBase s e).2 es := by
  simp only [dropLoopFrom]

theorem dropLoopFrom_sublist (c : Cmp) (sm : Nat) (isBase : Bytes → Bool) (s : LoopSt) (r : Run) :
    (dropLoopFrom c sm isBase s r).Sublist r := by
  induction r generalizing s with
  | nil => simp [dropLoopFrom]
  | cons e es ih =>
    rw [dropLoopFrom_cons]
    split
    · exact (ih _).trans (List.sublist_cons_self e es)
    · exact (ih _).cons_cons e

/-! ### the drop loop: which entries survive -/

/-- the loop state after having processed entry `p` (of kind ≤ 1) -/
def stOf : Option Entry → LoopSt
  | none => {}
  | some p => { curKey := some p.ukey, lastSeq := some p.seq }

/-- rule (A): the entry before `e` has the same user key and a sequence at or below the smallest snapshot -/
def hiddenBy (c : Cmp) (sm : Nat) (prev : Option Entry) (e : Entry) : Bool :=
  match prev with
  | none => false
  | some p => c.compare e.ukey p.ukey == .eq && decide (p.seq ≤ sm)

/-- rule (B): an obsolete deletion marker at the base level -/
def ruleB (sm : Nat) (isBase : Bytes → Bool) (e : Entry) : Bool :=
  e.kind == 0 && decide (e.seq ≤ sm) && isBase e.ukey

theorem stepEntry_of_kind (c : Cmp) (sm : Nat) (isBase : Bytes → Bool) (prev : Option Entry) (e : Entry)
    (hk : e.kind ≤ 1) :
    stepEntry c sm isBase (stOf prev) e = (hiddenBy c sm prev e || ruleB sm isBase e, stOf (some e)) := by
  have hk' : ¬ e.kind > 1 := by omega
  unfold stepEntry
  rw [if_neg hk']
  cases prev with
  | none => simp [stOf, hiddenBy, ruleB]
  | some p =>
    by_cases hc : c.compare e.ukey p.ukey = .eq
    · by_cases hl : p.seq ≤ sm <;> simp [stOf, hiddenBy, ruleB, hc, hl]
    · simp [stOf, hiddenBy, ruleB, hc]

/-- within one user key a strictly sorted run is in non-increasing sequence order -/
theorem seq_le_of_entryLt {c : Cmp} {a b : Entry} (h : entryLt c a b = true) (hk : a.ukey = b.ukey)
    (hka : a.kind ≤ 1) (hkb : b.kind ≤ 1) : b.seq ≤ a.seq := by
  unfold entryLt at h
  rw [ikLt_eq_true_iff] at h
  rcases h with h | ⟨_, h⟩
  · rw [hk] at h; exact absurd h (cmp_lt_irrefl c _)
  · unfold Entry.packed at h; omega

/-- an entry between two entries of the same user key has that user key -/
theorem ukey_eq_of_between {c : Cmp} {a b d : Entry} (h1 : entryLt c a b = true) (h2 : entryLt c b d = true)
    (hk : a.ukey = d.ukey) : b.ukey = d.ukey := by
  have h1' := ikLt_ule h1
  have h2' := ikLt_ule h2
  rw [hk] at h1'
  rw [cmp_swap c b.ukey d.ukey] at h1'
  apply (cmp_eq_iff c _ _).mp
  cases hc : c.compare b.ukey d.ukey <;> simp_all

theorem ne_of_entryLt {c : Cmp} {a b : Entry} (h : entryLt c a b = true) : a ≠ b := by
  rintro rfl
  rw [Lsm.entryLt_irrefl] at h
  cases h

/-- rule (A) in relational form: some newer entry of the same user key is at or below the smallest snapshot -/
def NotShadowed (sm : Nat) (l : List Entry) (e : Entry) : Prop :=
  ∀ q ∈ l, q.ukey = e.ukey → e.seq < q.seq → sm < q.seq

theorem mem_dropLoopFrom_iff (c : Cmp) (sm : Nat) (isBase : Bytes → Bool) (prev : Option Entry) (r : Run)
    (hs : RunSorted c (prev.toList ++ r)) (hk : ∀ e ∈ prev.toList ++ r, e.kind ≤ 1)
    (hnt : KeyNoTies (prev.toList ++ r)) (e : Entry) :
    e ∈ dropLoopFrom c sm isBase (stOf prev) r ↔
      e ∈ r ∧ NotShadowed sm (prev.toList ++ r) e ∧ ruleB sm isBase e = false := by
  induction r generalizing prev with
  | nil => simp [dropLoopFrom]
  | cons x xs ih =>
    have hkx : x.kind ≤ 1 := hk x (by simp)
    have hsub : ∀ q, q ∈ (some x).toList ++ xs → q ∈ prev.toList ++ x :: xs := by
      intro q hq; simp at hq ⊢; exact .inr hq
    have hs' : RunSorted c ((some x).toList ++ xs) := by
      have : ((some x).toList ++ xs).Sublist (prev.toList ++ x :: xs) := by
        simp
      exact List.Pairwise.sublist this hs
    have hk' : ∀ e ∈ (some x).toList ++ xs, e.kind ≤ 1 := fun q hq => hk q (hsub q hq)
    have hnt' : KeyNoTies ((some x).toList ++ xs) :=
      fun a ha b hb => hnt a (hsub a ha) b (hsub b hb)
    have ih' := ih (some x) hs' hk' hnt'
    have hxs : ∀ q ∈ xs, entryLt c x q = true := by
      have hs2 : RunSorted c (x :: xs) := by simpa using hs'
      exact (List.pairwise_cons.mp hs2).1
    -- the entry before `x`, if any, precedes `x` and everything after it
    have hprev : ∀ p, prev = some p → entryLt c p x = true ∧ p.kind ≤ 1 := by
      intro p hp; subst hp
      have hs2 : RunSorted c (p :: x :: xs) := by simpa using hs
      exact ⟨(List.pairwise_cons.mp hs2).1 x (by simp), hk p (by simp)⟩
    -- (b) rule (A) on `x`
    have hA : hiddenBy c sm prev x = false ↔ NotShadowed sm (prev.toList ++ x :: xs) x := by
      constructor
      · intro hh q hq hqk hlt
        rcases List.mem_append.mp hq with hq | hq
        · cases prev with
          | none => simp at hq
          | some p =>
            simp at hq; subst hq
            simp only [hiddenBy, hqk, cmp_refl] at hh
            simpa using hh
        · rcases List.mem_cons.mp hq with rfl | hq
          · omega
          · have := seq_le_of_entryLt (hxs q hq) hqk.symm hkx (hk q (by simp [hq]))
            omega
      · intro hh
        cases prev with
        | none => rfl
        | some p =>
          obtain ⟨hpx, hkp⟩ := hprev p rfl
          by_cases hc : c.compare x.ukey p.ukey = .eq
          · have hkeq := (cmp_eq_iff c _ _).mp hc
            have hle := seq_le_of_entryLt hpx hkeq.symm hkp hkx
            have hne : x.seq ≠ p.seq := by
              intro heq
              exact ne_of_entryLt hpx (hnt x (by simp) p (by simp) hkeq heq).symm
            have := hh p (by simp) hkeq.symm (by omega)
            have : ¬ p.seq ≤ sm := by omega
            simp [hiddenBy, this]
          · simp [hiddenBy, hc]
    -- (a) for later entries the entry before `x` adds nothing
    have hB : ∀ e ∈ xs, NotShadowed sm ((some x).toList ++ xs) e ↔ NotShadowed sm (prev.toList ++ x :: xs) e := by
      intro e he
      constructor
      · intro hh q hq hqk hlt
        rcases List.mem_append.mp hq with hq | hq
        · cases prev with
          | none => simp at hq
          | some p =>
            simp at hq; subst hq
            obtain ⟨hpx, hkp⟩ := hprev q rfl
            have hxe := hxs e he
            have hke : e.kind ≤ 1 := hk e (by simp [he])
            have hxk := ukey_eq_of_between hpx hxe hqk
            have h1 := seq_le_of_entryLt hpx (hqk.trans hxk.symm) hkp hkx
            have h2 := seq_le_of_entryLt hxe hxk hkx hke
            have hne : e.seq ≠ x.seq := by
              intro heq
              exact ne_of_entryLt hxe (hnt e (by simp [he]) x (by simp) hxk.symm heq).symm
            have := hh x (by simp) hxk (by omega)
            omega
        · exact hh q (by simpa using hq) hqk hlt
      · intro hh q hq hqk hlt
        exact hh q (hsub q hq) hqk hlt
    rw [dropLoopFrom_cons, stepEntry_of_kind c sm isBase prev x hkx]
    simp only
    by_cases hdrop : (hiddenBy c sm prev x || ruleB sm isBase x) = true
    · rw [if_pos hdrop, ih']
      constructor
      · rintro ⟨h1, h2, h3⟩
        exact ⟨List.mem_cons_of_mem _ h1, (hB e h1).mp h2, h3⟩
      · rintro ⟨h1, h2, h3⟩
        rcases List.mem_cons.mp h1 with rfl | h1
        · exfalso
          have := hA.mpr h2
          simp [this, h3] at hdrop
        · exact ⟨h1, (hB e h1).mpr h2, h3⟩
    · rw [if_neg hdrop, List.mem_cons, ih']
      simp only [Bool.or_eq_true, not_or, Bool.not_eq_true] at hdrop
      constructor
      · rintro (rfl | ⟨h1, h2, h3⟩)
        · exact ⟨List.mem_cons_self, hA.mp hdrop.1, hdrop.2⟩
        · exact ⟨List.mem_cons_of_mem _ h1, (hB e h1).mp h2, h3⟩
      · rintro ⟨h1, h2, h3⟩
        rcases List.mem_cons.mp h1 with rfl | h1
        · exact .inl rfl
        · exact .inr ⟨h1, (hB e h1).mpr h2, h3⟩

/-- the entries that survive the drop loop over a strictly sorted run without (user key, sequence) ties:
    exactly those not shadowed by a newer entry at or below the smallest snapshot (A) and not an
    obsolete deletion marker (B) -/
theorem mem_dropLoop_iff (c : Cmp) (sm : Nat) (isBase : Bytes → Bool) (r : Run)
    (hs : RunSorted c r) (hk : ∀ e ∈ r, e.kind ≤ 1) (hnt : KeyNoTies r) (e : Entry) :
    e ∈ dropLoop c sm isBase r ↔ e ∈ r ∧ NotShadowed sm r e ∧ ruleB sm isBase e = false := by
  have := mem_dropLoopFrom_iff c sm isBase none r (by simpa using hs) (by simpa using hk) (by simpa using hnt) e
  simpa [dropLoop, stOf] using this

/-! ### `ldb_compaction_is_base_level_for_key`: the monotone pointers -/

/-- the stateless base-level test over the deeper levels -/
def isBaseOf (c : Cmp) (deeper : List (List FileMeta)) (k : Bytes) : Bool :=
  !deeper.any (fun files => files.any (fun f => fileContainsUser c f k))

theorem isBaseSpec_eq (c : Cmp) (levels : List (List FileMeta)) (level : Nat) :
    isBaseSpec c levels level = isBaseOf c (levels.drop (level + 2)) := rfl

theorem not_contains_of_gt {c : Cmp} {f : FileMeta} {k : Bytes} (h : c.compare k f.lk = .gt) :
    fileContainsUser c f k = false := by
  simp [fileContainsUser, h]

theorem walkLevel_spec (c : Cmp) (k : Bytes) (fs : List FileMeta) (p : Nat) (hs : LevelSorted c fs)
    (hw : ∀ f ∈ fs, c.compare f.sk f.lk ≠ .gt) :
    ∃ n, walkLevel c k fs p = (fs.any (fun f => fileContainsUser c f k), p + n) ∧
      ∀ f ∈ fs.take n, c.compare k f.lk = .gt := by
  induction fs generalizing p with
  | nil => exact ⟨0, by simp [walkLevel]⟩
  | cons f fs ih =>
    have hs' := List.pairwise_cons.mp hs
    by_cases hle : c.compare k f.lk = .gt
    · obtain ⟨n, h1, h2⟩ := ih (p + 1) hs'.2 (fun g hg => hw g (List.mem_cons_of_mem _ hg))
      refine ⟨n + 1, ?_, ?_⟩
      · simp only [walkLevel, hle, bne_self_eq_false, Bool.false_eq_true, if_false, h1, List.any_cons,
          not_contains_of_gt hle, Bool.false_or]
        congr 1; omega
      · intro g hg
        simp only [List.take_succ_cons, List.mem_cons] at hg
        rcases hg with rfl | hg
        · exact hle
        · exact h2 g hg
    · refine ⟨0, ?_, by simp⟩
      have hcond : (c.compare k f.lk != .gt) = true := by simpa using hle
      simp only [walkLevel, hcond, if_true, Nat.add_zero, List.any_cons]
      congr 1
      by_cases hsk : c.compare k f.sk = .lt
      · -- `k` is before `f`, hence before every later file
        have hrest : fs.any (fun g => fileContainsUser c g k) = false := by
          rw [List.any_eq_false]
          intro g hg
          have h1 : c.compare k f.lk = .lt := cmp_lt_le_trans c hsk (hw f List.mem_cons_self)
          have h2 : c.compare k g.sk = .lt := cmp_lt_le_trans c h1 (ikLt_ule (hs'.1 g hg))
          simp [fileContainsUser, h2]
        rw [hrest]
        simp [fileContainsUser, hsk]
      · have : (c.compare k f.sk != .lt) = true := by simpa using hsk
        simp [fileContainsUser, this, hcond]

/-- every pointer has only skipped files whose largest user key is below `k` -/
def PtrsOk (c : Cmp) (k : Bytes) : List (List FileMeta) → List Nat → Prop
  | [], [] => True
  | files :: ds, p :: ps => (∀ f ∈ files.take p, c.compare k f.lk = .gt) ∧ PtrsOk c k ds ps
  | _, _ => False

theorem PtrsOk.mono {c : Cmp} {k k' : Bytes} (hkk : c.compare k k' ≠ .gt) :
    ∀ {deeper : List (List FileMeta)} {ptrs : List Nat}, PtrsOk c k deeper ptrs → PtrsOk c k' deeper ptrs
  | [], [], _ => trivial
  | [], _ :: _, h => h.elim
  | _ :: _, [], h => h.elim
  | files :: ds, p :: ps, h => by
    refine ⟨?_, PtrsOk.mono hkk h.2⟩
    intro f hf
    have := h.1 f hf
    rw [cmp_gt_iff] at this ⊢
    exact cmp_lt_le_trans c this hkk

theorem ptrsOk_zero (c : Cmp) (k : Bytes) : ∀ deeper : List (List FileMeta),
    PtrsOk c k deeper (deeper.map fun _ => 0)
  | [] => trivial
  | _ :: ds => ⟨by simp, ptrsOk_zero c k ds⟩

theorem isBasePtr_spec (c : Cmp) (k : Bytes) (deeper : List (List FileMeta)) (ptrs : List Nat)
    (hs : ∀ files ∈ deeper, LevelSorted c files)
    (hw : ∀ files ∈ deeper, ∀ f ∈ files, c.compare f.sk f.lk ≠ .gt)
    (hp : PtrsOk c k deeper ptrs) :
    (isBasePtr c k deeper ptrs).1 = isBaseOf c deeper k ∧ PtrsOk c k deeper (isBasePtr c k deeper ptrs).2 := by
  induction deeper generalizing ptrs with
  | nil =>
    cases ptrs with
    | nil => simp [isBasePtr, isBaseOf, PtrsOk]
    | cons _ _ => exact hp.elim
  | cons files rest ih =>
    cases ptrs with
    | nil => exact hp.elim
    | cons p ps =>
      have hsf := hs files List.mem_cons_self
      have hwf := hw files List.mem_cons_self
      obtain ⟨n, h1, h2⟩ := walkLevel_spec c k (files.drop p) p
        (List.Pairwise.sublist (List.drop_sublist p files) hsf)
        (fun f hf => hwf f (List.mem_of_mem_drop hf))
      have hany : files.any (fun f => fileContainsUser c f k) =
          (files.drop p).any (fun f => fileContainsUser c f k) := by
        conv => lhs; rw [← List.take_append_drop p files]
        rw [List.any_append]
        have : (files.take p).any (fun f => fileContainsUser c f k) = false := by
          rw [List.any_eq_false]
          intro f hf
          simp [not_contains_of_gt (hp.1 f hf)]
        rw [this, Bool.false_or]
      have hp' : ∀ f ∈ files.take (p + n), c.compare k f.lk = .gt := by
        intro f hf
        rw [List.take_add, List.mem_append] at hf
        rcases hf with hf | hf
        · exact hp.1 f hf
        · exact h2 f hf
      obtain ⟨ih1, ih2⟩ := ih ps (fun fs hfs => hs fs (List.mem_cons_of_mem _ hfs))
        (fun fs hfs => hw fs (List.mem_cons_of_mem _ hfs)) hp.2
      simp only [isBasePtr, h1]
      by_cases hhit : (files.drop p).any (fun f => fileContainsUser c f k) = true
      · simp only [hhit, if_true]
        refine ⟨?_, hp', hp.2⟩
        simp [isBaseOf, hany, hhit]
      · simp only [hhit, Bool.false_eq_true, if_false]
        refine ⟨?_, hp', ih2⟩
        rw [ih1]
        have : (files.drop p).any (fun f => fileContainsUser c f k) = false := by simpa using hhit
        simp [isBaseOf, hany, this]

/-! ### the loop as C runs it equals the loop with the stateless test -/

/-- `last_sequence_for_key` as the loop body sees it after the "first occurrence" reset -/
def firstOf (c : Cmp) (s : LoopSt) (e : Entry) : Bool :=
  match s.curKey with
  | none => true
  | some k => c.compare e.ukey k != .eq

def lastOf (c : Cmp) (s : LoopSt) (e : Entry) : Option Nat :=
  if firstOf c s e then none else s.lastSeq

def hidS (c : Cmp) (sm : Nat) (s : LoopSt) (e : Entry) : Bool :=
  match lastOf c s e with
  | some l => decide (l ≤ sm)
  | none => false

theorem stepEntry_eq (c : Cmp) (sm : Nat) (isBase : Bytes → Bool) (s : LoopSt) (e : Entry) (hk : ¬ e.kind > 1) :
    stepEntry c sm isBase s e =
      (hidS c sm s e || ruleB sm isBase e, { curKey := some e.ukey, lastSeq := some e.seq }) := by
  have h1 : stepEntry c sm isBase s e =
      ((match lastOf c s e with
        | some l => if l ≤ sm then true else ruleB sm isBase e
        | none => ruleB sm isBase e), { curKey := some e.ukey, lastSeq := some e.seq }) := by
    unfold stepEntry; rw [if_neg hk]; rfl
  rw [h1]; unfold hidS
  cases lastOf c s e with
  | none => simp
  | some l => by_cases h : l ≤ sm <;> simp [h]

theorem dropLoopPtrFrom_cons (c : Cmp) (sm : Nat) (deeper : List (List FileMeta)) (s : LoopSt)
    (ptrs : List Nat) (e : Entry) (es : Run) (hk : ¬ e.kind > 1) :
    dropLoopPtrFrom c sm deeper s ptrs (e :: es) =
      if hidS c sm s e then
        dropLoopPtrFrom c sm deeper { curKey := some e.ukey, lastSeq := some e.seq } ptrs es
      else if e.kind == 0 && decide (e.seq ≤ sm) then
        if (isBasePtr c e.ukey deeper ptrs).1 then
          dropLoopPtrFrom c sm deeper { curKey := some e.ukey, lastSeq := some e.seq }
            (isBasePtr c e.ukey deeper ptrs).2 es
        else e :: dropLoopPtrFrom c sm deeper { curKey := some e.ukey, lastSeq := some e.seq }
            (isBasePtr c e.ukey deeper ptrs).2 es
      else e :: dropLoopPtrFrom c sm deeper { curKey := some e.ukey, lastSeq := some e.seq } ptrs es := by
  simp only [dropLoopPtrFrom, if_neg hk]
  rfl

theorem dropLoopPtrFrom_eq (c : Cmp) (sm : Nat) (deeper : List (List FileMeta))
    (hs : ∀ files ∈ deeper, LevelSorted c files)
    (hw : ∀ files ∈ deeper, ∀ f ∈ files, c.compare f.sk f.lk ≠ .gt)
    (s : LoopSt) (ptrs : List Nat) (r : Run) (hr : RunSorted c r)
    (hp : ∀ e ∈ r, PtrsOk c e.ukey deeper ptrs) :
    dropLoopPtrFrom c sm deeper s ptrs r = dropLoopFrom c sm (isBaseOf c deeper) s r := by
  induction r generalizing s ptrs with
  | nil => simp [dropLoopPtrFrom, dropLoopFrom]
  | cons e es ih =>
    have hr' := List.pairwise_cons.mp hr
    have hp' : ∀ x ∈ es, PtrsOk c x.ukey deeper ptrs := fun x hx => hp x (List.mem_cons_of_mem _ hx)
    rw [dropLoopFrom_cons]
    by_cases hk : e.kind > 1
    · have h1 : stepEntry c sm (isBaseOf c deeper) s e = (false, { curKey := none, lastSeq := none }) := by
        simp [stepEntry, hk]
      rw [h1]
      simp only [dropLoopPtrFrom, if_pos hk, Bool.false_eq_true, if_false]
      rw [ih _ _ hr'.2 hp']
    · rw [stepEntry_eq c sm _ s e hk, dropLoopPtrFrom_cons c sm deeper s ptrs e es hk]
      simp only
      by_cases hh : hidS c sm s e = true
      · simp only [hh, Bool.true_or, if_true]
        exact ih _ _ hr'.2 hp'
      · have hh' : hidS c sm s e = false := by simpa using hh
        simp only [hh', Bool.false_or, Bool.false_eq_true, if_false]
        by_cases hb : (e.kind == 0 && decide (e.seq ≤ sm)) = true
        · obtain ⟨b1, b2⟩ := isBasePtr_spec c e.ukey deeper ptrs hs hw (hp e List.mem_cons_self)
          have hp'' : ∀ x ∈ es, PtrsOk c x.ukey deeper (isBasePtr c e.ukey deeper ptrs).2 :=
            fun x hx => PtrsOk.mono (ikLt_ule (hr'.1 x hx)) b2
          have hB : ruleB sm (isBaseOf c deeper) e = isBaseOf c deeper e.ukey := by
            unfold ruleB; rw [hb, Bool.true_and]
          rw [if_pos hb, b1, hB, ih _ _ hr'.2 hp'']
        · have hB : ruleB sm (isBaseOf c deeper) e = false := by
            unfold ruleB
            have : (e.kind == 0 && decide (e.seq ≤ sm)) = false := by simpa using hb
            rw [this, Bool.false_and]
          rw [if_neg hb, hB, ih _ _ hr'.2 hp']
          simp

/-! ### compactions of a state satisfying `Inv` -/

theorem mem_levels_drop {st : DbState} {n : Nat} {files : List FileMeta} (h : files ∈ st.levels.drop n) :
    ∃ l, n ≤ l ∧ files = st.level l := by
  obtain ⟨i, hi, rfl⟩ := List.mem_iff_getElem.mp h
  have hl : n + i < st.levels.length := by simp at hi; omega
  exact ⟨n + i, by omega, by rw [level_eq_getElem hl, List.getElem_drop]⟩

theorem deeper_sorted {c : Cmp} {st : DbState} (h : Inv c st) (level : Nat) :
    ∀ files ∈ st.levels.drop (level + 2), LevelSorted c files := by
  intro files hf
  obtain ⟨l, hl, rfl⟩ := mem_levels_drop hf
  exact h.levelsSorted l (by omega)

theorem deeper_filesOk {c : Cmp} {st : DbState} (h : Inv c st) (n : Nat) :
    ∀ files ∈ st.levels.drop n, ∀ f ∈ files, FileOk c f := by
  intro files hf f hff
  obtain ⟨l, _, rfl⟩ := mem_levels_drop hf
  exact h.filesOk f (mem_allFiles.mpr ⟨l, hff⟩)

theorem contains_of_mem_run {c : Cmp} {f : FileMeta} (hf : FileOk c f) {e : Entry} (he : e ∈ f.run) :
    fileContainsUser c f e.ukey = true := by
  obtain ⟨h1, h2⟩ := hf.key_range e he
  have h1' : c.compare e.ukey f.sk ≠ .lt := fun h => h1 ((cmp_gt_iff c _ _).mpr h)
  simp [fileContainsUser, h1', h2]

/-- the base-level test is sound: if no deeper file's range contains `k`, no deeper level holds `k` -/
theorem isBaseSpec_sound {c : Cmp} {st : DbState} (h : Inv c st) (level : Nat) (k : Bytes)
    (hb : isBaseSpec c st.levels level k = true) : keyInDeeperLevels c st (level + 1) k = false := by
  cases hk : keyInDeeperLevels c st (level + 1) k with
  | false => rfl
  | true =>
    exfalso
    unfold keyInDeeperLevels at hk
    rw [List.any_eq_true] at hk
    obtain ⟨files, hfiles, hk⟩ := hk
    rw [List.any_eq_true] at hk
    obtain ⟨f, hf, hk⟩ := hk
    rw [List.any_eq_true] at hk
    obtain ⟨e, he, hk⟩ := hk
    have hek : e.ukey = k := (cmp_eq_iff c _ _).mp (by simpa using hk)
    have hc := contains_of_mem_run (deeper_filesOk h _ files hfiles f hf) he
    rw [hek] at hc
    have : (st.levels.drop (level + 2)).any (fun files => files.any (fun f => fileContainsUser c f k)) = true :=
      List.any_eq_true.mpr ⟨files, hfiles, List.any_eq_true.mpr ⟨f, hf, hc⟩⟩
    simp [isBaseSpec, this] at hb

theorem entryCmp_eq_imp {c : Cmp} {x y : Entry} (h : entryCmp c x y = .eq) :
    x.ukey = y.ukey ∧ x.packed = y.packed := by
  obtain ⟨h1, h2⟩ := (Merge.entryCmp_eq_iff c x y).mp h
  exact ikLt_total h1 h2

theorem distinct_of_sorted {c : Cmp} {r : Run} (h : RunSorted c r) :
    r.Pairwise (fun a b => entryCmp c a b ≠ .eq) := by
  apply List.Pairwise.imp _ h
  intro a b hab heq
  rw [Merge.entryLt_eq_cmp, heq] at hab
  cases hab

theorem distinct_of_newerThan {c : Cmp} {a b : Run} (h : NewerThan c a b) (ha : ∀ x ∈ a, x.kind ≤ 1)
    (hb : ∀ y ∈ b, y.kind ≤ 1) : ∀ x ∈ a, ∀ y ∈ b, entryCmp c x y ≠ .eq := by
  intro x hx y hy heq
  obtain ⟨h1, h2⟩ := entryCmp_eq_imp heq
  have := h x hx y hy ((cmp_eq_iff c _ _).mpr h1)
  have := ha x hx
  have := hb y hy
  unfold Entry.packed at h2
  omega

theorem inputRuns_flatten (level : Nat) (in0 in1 : List FileMeta) :
    (inputRuns level in0 in1).flatten = (in0 ++ in1).flatMap (·.run) := by
  unfold inputRuns
  split <;> simp [List.flatMap_def]

section
variable {c : Cmp} {st : DbState} {level : Nat} {in0 in1 : List FileMeta}

theorem fileOk_of_sub (h : Inv c st) {l : Nat} {fs : List FileMeta} (hsub : fs.Sublist (st.level l)) :
    ∀ f ∈ fs, FileOk c f :=
  fun f hf => h.filesOk f (mem_allFiles.mpr ⟨l, hsub.mem hf⟩)

theorem kinds_of_sub (h : Inv c st) {l : Nat} {fs : List FileMeta} (hsub : fs.Sublist (st.level l)) :
    ∀ f ∈ fs, ∀ e ∈ f.run, e.kind ≤ 1 :=
  fun f hf e he => h.kinds e (mem_allEntries.mpr (.inr (.inr ⟨f, mem_allFiles.mpr ⟨l, hsub.mem hf⟩, he⟩)))

theorem levelRun_sorted_of_sub (h : Inv c st) {l : Nat} (hl : 1 ≤ l) {fs : List FileMeta}
    (hsub : fs.Sublist (st.level l)) : RunSorted c (fs.flatMap (·.run)) :=
  Lsm.levelRun_sorted c fs (List.Pairwise.sublist hsub (h.levelsSorted l hl)) (fileOk_of_sub h hsub)

theorem inputRuns_sorted (h : Inv c st) (h0 : in0.Sublist (st.level level))
    (h1 : in1.Sublist (st.level (level + 1))) : ∀ r ∈ inputRuns level in0 in1, RunSorted c r := by
  intro r hr
  unfold inputRuns at hr
  rcases List.mem_append.mp hr with hr | hr
  · split at hr
    · obtain ⟨f, hf, rfl⟩ := List.mem_map.mp hr
      exact (fileOk_of_sub h h0 f hf).1
    · rename_i hne
      have : 1 ≤ level := by
        have : level ≠ 0 := by simpa using hne
        omega
      simp at hr; subst hr
      exact levelRun_sorted_of_sub h this h0
  · simp at hr; subst hr
    exact levelRun_sorted_of_sub h (by omega) h1

/-- the entries of the picked files of one level have pairwise different internal keys -/
theorem level_distinct (h : Inv c st) {l : Nat} {fs : List FileMeta} (hsub : fs.Sublist (st.level l)) :
    (fs.flatMap (·.run)).Pairwise (fun a b => entryCmp c a b ≠ .eq) := by
  by_cases hl : 1 ≤ l
  · exact distinct_of_sorted (levelRun_sorted_of_sub h hl hsub)
  · have hl0 : l = 0 := by omega
    subst hl0
    rw [List.pairwise_flatMap]
    refine ⟨fun f hf => distinct_of_sorted (fileOk_of_sub h hsub f hf).1, ?_⟩
    have hnums : fs.Pairwise (fun f g => f.num ≠ g.num) := List.Pairwise.sublist hsub (h.numsRel.within 0)
    apply List.Pairwise.imp_of_mem _ hnums
    intro f g hf hg hne
    have hkf := kinds_of_sub h hsub f hf
    have hkg := kinds_of_sub h hsub g hg
    by_cases hgt : f.num > g.num
    · exact distinct_of_newerThan (h.toRec.l0 f (hsub.mem hf) g (hsub.mem hg) hgt) hkf hkg
    · have hgt' : g.num > f.num := by omega
      intro x hx y hy
      exact Merge.entryCmp_ne_symm c
        (distinct_of_newerThan (h.toRec.l0 g (hsub.mem hg) f (hsub.mem hf) hgt') hkg hkf y hy x hx)

theorem inputRuns_distinct (h : Inv c st) (h0 : in0.Sublist (st.level level))
    (h1 : in1.Sublist (st.level (level + 1))) : DistinctKeys c (inputRuns level in0 in1) := by
  unfold DistinctKeys
  rw [inputRuns_flatten, List.flatMap_append, List.pairwise_append]
  refine ⟨level_distinct h h0, level_distinct h h1, ?_⟩
  intro x hx y hy
  obtain ⟨f, hf, hxf⟩ := List.mem_flatMap.mp hx
  obtain ⟨g, hg, hyg⟩ := List.mem_flatMap.mp hy
  exact distinct_of_newerThan (h.toRec.levels level (level + 1) (by omega) f (h0.mem hf) g (h1.mem hg))
    (kinds_of_sub h h0 f hf) (kinds_of_sub h h1 g hg) x hxf y hyg

/-- under `Inv`, what the input iterator of a compaction yields is strictly sorted and a permutation of
    the entries of the picked files -/
theorem merged_sorted_perm (h : Inv c st) (h0 : in0.Sublist (st.level level))
    (h1 : in1.Sublist (st.level (level + 1))) :
    RunSorted c (mergeInputs c (inputRuns level in0 in1)) ∧
      (mergeInputs c (inputRuns level in0 in1)).Perm ((in0 ++ in1).flatMap (·.run)) := by
  have := mergeInputs_sorted_perm' c _ (inputRuns_sorted h h0 h1) (inputRuns_distinct h h0 h1)
  rw [inputRuns_flatten] at this
  exact this

end

/-! ### the smallest protected sequence -/

theorem foldl_min_le (l : List Nat) (a : Nat) : l.foldl min a ≤ a ∧ ∀ x ∈ l, l.foldl min a ≤ x := by
  induction l generalizing a with
  | nil => simp
  | cons y ys ih =>
    simp only [List.foldl_cons]
    obtain ⟨h1, h2⟩ := ih (min a y)
    refine ⟨by omega, ?_⟩
    intro x hx
    rcases List.mem_cons.mp hx with rfl | hx
    · omega
    · exact h2 x hx

theorem smallestProtected_le (st : DbState) : ∀ s ∈ protectedSeqs st, smallestProtected st ≤ s :=
  (foldl_min_le (protectedSeqs st) st.lastSeq).2

end Compaction
end Lcdb
