/-
  Readers of a well-formed table file (`TableWF o file es`) behave like a cursor / lookup over
  the entry list `es` — for any block partition, compression choice and valid separators.

    table_open_wf        `tableOpen` succeeds and finds the layout's index block
    table_is_cursor      the table iterator simulates the reference cursor over `es`
    table_scan           a full forward scan returns exactly `es`
    table_seek_first_ge  `seek` lands on the first entry not below the target

  (generic parts: TableCursorA/B/C.lean; lookups: TableCursorGet.lean)
-/
import LcdbModel.Lemmas.TableCursorC
import LcdbModel.Props.BlockProps
namespace Lcdb

/-! ### A. opening -/

theorem findFilterHandle_of_readable {o : TableOpts} {file : Bytes} {ft : Footer} {c : Bytes}
    (hm : readBlock file ft.metaindex.offset ft.metaindex.size true = .ok c) (paranoid : Bool) :
    findFilterHandle o file paranoid ft = findFilterHandle o file true ft ∧
      ∃ r, findFilterHandle o file true ft = .ok r := by
  unfold findFilterHandle
  cases o.policy with
  | none => exact ⟨rfl, none, rfl⟩
  | some p =>
    simp only [readBlock_any_verify hm paranoid, hm]
    obtain ⟨t', ht', _⟩ := TIter.seek_ok bytewiseBlockCmp filterKeyName (blockIterCreate c)
      (blockIterCreate_inv _ c)
    simp only [ht', true_and]
    split
    · exact ⟨_, rfl⟩
    · exact ⟨_, rfl⟩

theorem readMeta_ok_of_readable {o : TableOpts} {file : Bytes} {L : Layout}
    (hmr : metaReadable o file L) (paranoid : Bool) :
    ∃ flt, readMeta o file paranoid L.footer = .ok flt := by
  obtain ⟨⟨c, hc⟩, h2⟩ := hmr
  obtain ⟨e1, r, e2⟩ := findFilterHandle_of_readable (o := o) hc paranoid
  unfold readMeta
  rw [e1, e2]
  rw [e2] at h2
  cases r with
  | none => exact ⟨none, rfl⟩
  | some v =>
    simp only at h2 ⊢
    unfold readFilter
    cases hh : handleRead v with
    | none => exact ⟨none, rfl⟩
    | some hr =>
      obtain ⟨hd, rest⟩ := hr
      rw [hh] at h2
      obtain ⟨c', hc'⟩ := h2
      simp only [readBlock_any_verify hc' paranoid]
      exact ⟨some c', rfl⟩

theorem table_open_wf (o : TableOpts) (file : Bytes) (es : List (Bytes × Bytes))
    (hwf : TableWF o file es) (paranoid : Bool) :
    ∃ t L, tableLayout file = some L ∧ L.Good o file es ∧ tableOpen o file paranoid = .ok t ∧
      t.opts = o ∧ t.file = file ∧ t.index = L.index ∧
      readMeta o file paranoid L.footer = .ok t.filter := by
  unfold TableWF at hwf
  cases hL : tableLayout file with
  | none => simp [hL] at hwf
  | some L =>
    simp only [hL] at hwf
    obtain ⟨h0, h1, h2, _⟩ := tableLayout_some hL
    obtain ⟨flt, hflt⟩ := readMeta_ok_of_readable hwf.2.2.2.2.2.2.2.1 paranoid
    refine ⟨{ opts := o, file := file, index := L.index, filter := flt,
              metaindex := L.footer.metaindex }, L, rfl, hwf, ?_, rfl, rfl, rfl, hflt⟩
    unfold tableOpen
    simp only [h0, if_false, h1, readBlock_any_verify h2 paranoid, hflt]

/-! ### B. the table iterator is a cursor -/

/-- everything the iterator proofs need about an opened well-formed table -/
theorem table_ctx (o : TableOpts) (file : Bytes) (es : List (Bytes × Bytes))
    (hwf : TableWF o file es) (t : Table) (paranoid verify : Bool)
    (ht : tableOpen o file paranoid = .ok t) :
    ∃ L, tableLayout file = some L ∧ L.Good o file es ∧ t.opts = o ∧ t.file = file ∧
      t.index = L.index ∧ readMeta o file paranoid L.footer = .ok t.filter ∧
      TwoCtx (mkBlockCmp o.cmp true) (blockReader t verify) L.index L.blocks ∧
      tableIterOps t verify
        = twoIterOps (mkBlockCmp o.cmp true) (blockReader t verify) (L.index.length + 2) ∧
      TwoR L.index L.blocks (tableIterCreate t) none ∧
      keysOf L.blocks = es.map (·.1) := by
  obtain ⟨t', L, hL, hg, ht', ho, hf, hi, hm⟩ := table_open_wf o file es hwf paranoid
  rw [ht] at ht'
  cases ht'
  have hctx := hg.twoCtx hL t hf verify
  refine ⟨L, hL, hg, ho, hf, hi, hm, hctx, ?_, ?_, ?_⟩
  · unfold tableIterOps Table.cmpB skipFuel
    rw [ho, hi]
  · refine ⟨rfl, ?_, rfl⟩
    show BlockAt L.index (ixsOf L.blocks) (blockIterCreate t.index) none
    rw [hi]
    exact hctx.ictx.create
  · unfold keysOf
    rw [← hg.es_eq]

theorem table_is_cursor (o : TableOpts) (file : Bytes) (es : List (Bytes × Bytes))
    (hwf : TableWF o file es) (t : Table) (paranoid verify : Bool)
    (ht : tableOpen o file paranoid = .ok t) (ops : List BlockOp) (hops : TOpsOk ops) :
    ∃ it p, (tableIterOps t verify).run ops (tableIterCreate t) = some it ∧
      (cursorOps (ikeyCmp o.cmp) (es.map (·.1))).run ops none = some p ∧
      it.getStatus = .ok ∧ OnPosT es it p := by
  obtain ⟨L, hL, hg, ho, hf, hi, _, hctx, hops', hinit, hkeys⟩ :=
    table_ctx o file es hwf t paranoid verify ht
  obtain ⟨it, p, h1, h2, hr⟩ := (hctx.sim L.index.length).run ops hops _ _ hinit
  obtain ⟨hst, hpos⟩ := hr.obs hctx
  rw [← hg.es_eq] at hpos
  rw [hkeys] at h2
  exact ⟨it, p, by rw [hops']; exact h1, h2, hst, hpos⟩

/-! ### C. corollaries -/

theorem table_seek_first_ge (o : TableOpts) (file : Bytes) (es : List (Bytes × Bytes))
    (hwf : TableWF o file es) (t : Table) (paranoid verify : Bool)
    (ht : tableOpen o file paranoid = .ok t) (ops : List BlockOp) (hops : TOpsOk ops)
    (target : Bytes) (ht8 : 8 ≤ target.length) :
    ∃ it, (tableIterOps t verify).run (ops ++ [.seek target]) (tableIterCreate t) = some it ∧
      it.getStatus = .ok ∧
      OnPosT es it ((es.map (·.1)).findIdx? (fun k => ikeyCmp o.cmp k target != .lt)) := by
  have hops' : TOpsOk (ops ++ [.seek target]) := by
    intro op hop x hx
    simp only [List.mem_append, List.mem_singleton] at hop
    rcases hop with hop | rfl
    · exact hops op hop x hx
    · simp only [BlockOp.target?, Option.some.injEq] at hx; subst hx; exact ht8
  obtain ⟨it, p, h1, h2, hst, hp⟩ :=
    table_is_cursor o file es hwf t paranoid verify ht _ hops'
  rw [IterOps.run_append] at h2
  cases hr : (cursorOps (ikeyCmp o.cmp) (es.map (·.1))).run ops none with
  | none => rw [hr] at h2; simp at h2
  | some q =>
    rw [hr] at h2
    simp only [Option.bind, IterOps.run, IterOps.apply, cursorOps, Option.some.injEq] at h2
    subst h2
    exact ⟨it, h1, hst, hp⟩

/-- the scan loop from a state related to cursor position `k` -/
theorem scanGo_spec {o : TableOpts} {es : List (Bytes × Bytes)} {t : Table} {verify : Bool}
    {L : Layout}
    (hctx : TwoCtx (mkBlockCmp o.cmp true) (blockReader t verify) L.index L.blocks)
    (hops : tableIterOps t verify
        = twoIterOps (mkBlockCmp o.cmp true) (blockReader t verify) (L.index.length + 2))
    (hes : es = (partsOf L.blocks).flatten) :
    ∀ (fuel k : Nat) (it : TwoIter) (acc : List (Bytes × Bytes)), k ≤ es.length →
      es.length < k + fuel →
      TwoR L.index L.blocks it (if k < es.length then some k else none) →
      scanGo t verify fuel it acc
        = some { entries := acc.reverse ++ es.drop k, status := .ok, complete := true } := by
  intro fuel
  induction fuel with
  | zero => intro k it acc hk hf _; omega
  | succ fuel ih =>
    intro k it acc hk hf hr
    obtain ⟨hst, hpos⟩ := hr.obs hctx
    rw [← hes] at hpos
    unfold scanGo
    by_cases hkl : k < es.length
    · simp only [hkl, if_true] at hr hpos
      obtain ⟨_, hv, hkey, hval⟩ := hpos
      obtain ⟨it', e1, hr'⟩ := hctx.next_sim L.index.length hr
      have hlen : (keysOf L.blocks).length = es.length := by
        unfold keysOf; rw [List.length_map, hes]
      rw [hlen] at hr'
      have e1' : (tableIterOps t verify).next it = some it' := by rw [hops]; exact e1
      simp only [hv, if_true, e1']
      rw [ih (k + 1) it' _ (by omega) (by omega) hr']
      rw [hkey, hval]
      simp only [List.reverse_cons, List.append_assoc, List.singleton_append]
      rw [List.drop_eq_getElem_cons hkl]
    · simp only [hkl, if_false] at hr hpos
      have hv : it.valid = false := hpos
      have : k = es.length := by omega
      simp [hv, hst, this]

theorem table_scan (o : TableOpts) (file : Bytes) (es : List (Bytes × Bytes))
    (hwf : TableWF o file es) (t : Table) (paranoid verify : Bool)
    (ht : tableOpen o file paranoid = .ok t) (n : Nat) (hn : es.length < n) :
    tableIterAll t verify n = some { entries := es, status := .ok, complete := true } := by
  obtain ⟨L, hL, hg, ho, hf, hi, _, hctx, hops', hinit, hkeys⟩ :=
    table_ctx o file es hwf t paranoid verify ht
  obtain ⟨it, e1, hr⟩ := hctx.first_sim L.index.length hinit
  have e1' : (tableIterOps t verify).first (tableIterCreate t) = some it := by
    rw [hops']; exact e1
  unfold tableIterAll
  simp only [e1']
  have hr' : TwoR L.index L.blocks it (if 0 < es.length then some 0 else none) := by
    rw [hkeys] at hr
    cases es with
    | nil => simpa using hr
    | cons e es => simpa using hr
  rw [scanGo_spec hctx hops' hg.es_eq n 0 it [] (by omega) (by omega) hr']
  simp

end Lcdb
