/-
  Lemmas about the specification-side sorted map of live keys (`userKeys`, `visibleMap` of
  `LcdbModel.Model.DbIter`), core Lean only: the map is strictly sorted, its members are exactly
  the user keys whose newest visible entry is a value, it is determined by its members, and it does
  not depend on the order of the entries.
-/
import LcdbModel.Model.DbIter
import LcdbModel.Lemmas.Lsm
namespace Lcdb.VisMap
open Lcdb Lcdb.Lsm Lcdb.CmpBasic

/-! ### `userKeys` -/

/-- the de-duplication step of `userKeys` -/
def dedupStep (c : Cmp) (k : Bytes) (acc : List Bytes) : List Bytes :=
  match acc with
  | [] => [k]
  | k' :: _ => if c.compare k k' == .eq then acc else k :: acc

theorem userKeys_eq (c : Cmp) (es : List Entry) :
    userKeys c es =
      ((es.map (·.ukey)).mergeSort (fun a b => c.compare a b != .gt)).foldr (dedupStep c) [] := rfl

theorem mem_dedupStep (c : Cmp) (k : Bytes) (acc : List Bytes) (x : Bytes) :
    x ∈ dedupStep c k acc ↔ x = k ∨ x ∈ acc := by
  unfold dedupStep
  cases acc with
  | nil => simp
  | cons k' t =>
    simp only
    split
    · rename_i h
      have hk : k = k' := (compare_eq_iff c k k').mp (by simpa using h)
      subst hk
      simp
    · simp

theorem mem_foldr_dedupStep (c : Cmp) (l : List Bytes) (x : Bytes) :
    x ∈ l.foldr (dedupStep c) [] ↔ x ∈ l := by
  induction l with
  | nil => simp
  | cons k l ih => rw [List.foldr_cons, mem_dedupStep, ih, List.mem_cons]

theorem foldr_dedupStep_sorted (c : Cmp) (l : List Bytes)
    (hl : l.Pairwise (fun a b => c.compare a b ≠ .gt)) :
    (l.foldr (dedupStep c) []).Pairwise (fun a b => c.compare a b = .lt) := by
  induction l with
  | nil => simp
  | cons k l ih =>
    have hp := List.pairwise_cons.mp hl
    have ih := ih hp.2
    rw [List.foldr_cons]
    generalize hacc : l.foldr (dedupStep c) [] = acc at ih
    have hmem : ∀ x ∈ acc, x ∈ l := fun x hx => by
      rw [← hacc] at hx; exact (mem_foldr_dedupStep c l x).mp hx
    unfold dedupStep
    cases acc with
    | nil => simp
    | cons k' t =>
      simp only
      split
      · exact ih
      · rename_i hne
        have hne : c.compare k k' ≠ .eq := by simpa using hne
        have hp' := List.pairwise_cons.mp ih
        have hkk' : c.compare k k' = .lt := by
          have := hp.1 k' (hmem k' List.mem_cons_self)
          cases h : c.compare k k' with
          | lt => rfl
          | eq => exact absurd h hne
          | gt => exact absurd h this
        refine List.pairwise_cons.mpr ⟨?_, ih⟩
        intro x hx
        rcases List.mem_cons.mp hx with rfl | hx
        · exact hkk'
        · exact compare_lt_trans c hkk' (hp'.1 x hx)

theorem le_trans' (c : Cmp) (a b d : Bytes) :
    (c.compare a b != .gt) = true → (c.compare b d != .gt) = true → (c.compare a d != .gt) = true := by
  simp only [bne_iff_ne, ne_eq]
  intro h1 h2 h3
  rw [compare_gt_iff] at h3
  -- d < a, a ≤ b, b ≤ d
  have h4 : c.compare d b = .lt := compare_lt_of_lt_of_ne_gt c h3 h1
  rw [compare_lt_iff] at h4
  exact h2 h4

theorem le_total' (c : Cmp) (a b : Bytes) :
    ((c.compare a b != .gt) || (c.compare b a != .gt)) = true := by
  rw [compare_swap c a b]
  cases c.compare a b <;> rfl

/-- the user keys are strictly increasing -/
theorem userKeys_sorted (c : Cmp) (es : List Entry) :
    (userKeys c es).Pairwise (fun a b => c.compare a b = .lt) := by
  rw [userKeys_eq]
  apply foldr_dedupStep_sorted
  have := List.pairwise_mergeSort (le := fun a b => c.compare a b != .gt)
    (le_trans' c) (le_total' c) (es.map (·.ukey))
  exact this.imp (fun h => by simpa using h)

theorem mem_userKeys (c : Cmp) (es : List Entry) (k : Bytes) :
    k ∈ userKeys c es ↔ ∃ e ∈ es, e.ukey = k := by
  rw [userKeys_eq, mem_foldr_dedupStep, List.mem_mergeSort, List.mem_map]

/-! ### `visibleMap` -/

/-- the function `visibleMap` maps over the user keys -/
def vmEntry (c : Cmp) (es : List Entry) (s : Nat) (k : Bytes) : Option (Bytes × String) :=
  match newestVisible c es k s with
  | some e => if e.kind == 1 then some (e.ukey, e.val) else none
  | none => none

theorem visibleMap_eq (c : Cmp) (es : List Entry) (s : Nat) :
    visibleMap c es s = (userKeys c es).filterMap (vmEntry c es s) := rfl

theorem vmEntry_eq_some (c : Cmp) (es : List Entry) (s : Nat) (k : Bytes) (kv : Bytes × String) :
    vmEntry c es s k = some kv ↔
      ∃ e, newestVisible c es k s = some e ∧ e.kind = 1 ∧ kv = (k, e.val) := by
  unfold vmEntry
  cases h : newestVisible c es k s with
  | none => simp
  | some e =>
    have hk : e.ukey = k := (newestVisible_mem h).2.1
    simp only [Option.some.injEq]
    constructor
    · intro h'
      split at h'
      · rename_i h1
        refine ⟨e, rfl, by simpa using h1, ?_⟩
        rw [← hk]; simpa using h'.symm
      · cases h'
    · rintro ⟨e', rfl, h1, rfl⟩
      simp [h1, hk]

/-- keys of the visible map are strictly increasing -/
theorem visibleMap_sorted (c : Cmp) (es : List Entry) (s : Nat) :
    (visibleMap c es s).Pairwise (fun a b => c.compare a.1 b.1 = .lt) := by
  rw [visibleMap_eq]
  refine List.Pairwise.filterMap _ ?_ (userKeys_sorted c es)
  intro a a' haa' b hb b' hb'
  obtain ⟨_, _, _, rfl⟩ := (vmEntry_eq_some c es s a b).mp hb
  obtain ⟨_, _, _, rfl⟩ := (vmEntry_eq_some c es s a' b').mp hb'
  exact haa'

/-- membership: exactly the user keys whose newest visible entry is a value -/
theorem mem_visibleMap (c : Cmp) (es : List Entry) (s : Nat) (k : Bytes) (v : String) :
    (k, v) ∈ visibleMap c es s ↔ ∃ e, newestVisible c es k s = some e ∧ e.kind = 1 ∧ e.val = v := by
  rw [visibleMap_eq, List.mem_filterMap]
  constructor
  · rintro ⟨k0, _, h⟩
    obtain ⟨e, h1, h2, h3⟩ := (vmEntry_eq_some c es s k0 (k, v)).mp h
    simp only [Prod.mk.injEq] at h3
    obtain ⟨rfl, rfl⟩ := h3
    exact ⟨e, h1, h2, rfl⟩
  · rintro ⟨e, h1, h2, rfl⟩
    obtain ⟨hm, hk, _⟩ := newestVisible_mem h1
    exact ⟨k, (mem_userKeys c es k).mpr ⟨e, hm, hk⟩,
      (vmEntry_eq_some c es s k (k, e.val)).mpr ⟨e, h1, h2, rfl⟩⟩

/-- every key of the visible map is the user key of some entry -/
theorem visibleMap_key_mem (c : Cmp) (es : List Entry) (s : Nat) (k : Bytes) (v : String)
    (h : (k, v) ∈ visibleMap c es s) : ∃ e ∈ es, e.ukey = k ∧ e.seq ≤ s ∧ e.kind = 1 ∧ e.val = v := by
  obtain ⟨e, h1, h2, h3⟩ := (mem_visibleMap c es s k v).mp h
  obtain ⟨hm, hk, hs⟩ := newestVisible_mem h1
  exact ⟨e, hm, hk, hs, h2, h3⟩

/-- two strictly sorted association lists with the same members are equal -/
theorem sorted_ext (c : Cmp) {m₁ m₂ : List (Bytes × String)}
    (h₁ : m₁.Pairwise (fun a b => c.compare a.1 b.1 = .lt))
    (h₂ : m₂.Pairwise (fun a b => c.compare a.1 b.1 = .lt))
    (h : ∀ kv, kv ∈ m₁ ↔ kv ∈ m₂) : m₁ = m₂ := by
  induction m₁ generalizing m₂ with
  | nil =>
    cases m₂ with
    | nil => rfl
    | cons b t => exact absurd ((h b).mpr List.mem_cons_self) (by simp)
  | cons a t₁ ih =>
    cases m₂ with
    | nil => exact absurd ((h a).mp List.mem_cons_self) (by simp)
    | cons b t₂ =>
      have hp₁ := List.pairwise_cons.mp h₁
      have hp₂ := List.pairwise_cons.mp h₂
      have hab : a = b := by
        rcases List.mem_cons.mp ((h a).mp List.mem_cons_self) with hab | ha
        · exact hab
        · rcases List.mem_cons.mp ((h b).mpr List.mem_cons_self) with hba | hb
          · exact hba.symm
          · exact absurd (hp₁.1 b hb) (compare_lt_asymm c (hp₂.1 a ha))
      subst hab
      congr 1
      apply ih hp₁.2 hp₂.2
      intro kv
      constructor
      · intro hkv
        rcases List.mem_cons.mp ((h kv).mp (List.mem_cons_of_mem _ hkv)) with rfl | h'
        · exact absurd (hp₁.1 _ hkv) (compare_lt_irrefl c _)
        · exact h'
      · intro hkv
        rcases List.mem_cons.mp ((h kv).mpr (List.mem_cons_of_mem _ hkv)) with rfl | h'
        · exact absurd (hp₂.1 _ hkv) (compare_lt_irrefl c _)
        · exact h'

/-! ### `newestVisible` in a sorted run -/

/-- in a sorted run the newest visible entry of `k` is the FIRST entry of `k` with sequence ≤ s -/
theorem newestVisible_sorted (c : Cmp) (r : Run) (hs : RunSorted c r) (hk : ∀ e ∈ r, e.kind < 256)
    (k : Bytes) (s : Nat) :
    newestVisible c r k s = r.find? (fun e => c.compare e.ukey k == .eq && decide (e.seq ≤ s)) := by
  induction r with
  | nil => rfl
  | cons e r ih =>
    have hs' := List.pairwise_cons.mp hs
    have ih := ih hs'.2 (fun x hx => hk x (List.mem_cons_of_mem _ hx))
    have hke := hk e List.mem_cons_self
    simp only [newestVisible] at ih ⊢
    rw [visibleEntries_cons, List.find?_cons]
    by_cases h : c.compare e.ukey k = .eq ∧ e.seq ≤ s
    · rw [if_pos h]
      have : (c.compare e.ukey k == .eq && decide (e.seq ≤ s)) = true := by simp [h.1, h.2]
      rw [this]
      apply newestOf_cons_of_ge
      intro x hx
      obtain ⟨hxr, hxk, _⟩ := mem_visibleEntries.mp hx
      have hek := (compare_eq_iff c _ _).mp h.1
      have hlt := hs'.1 x hxr
      simp only [entryLt, ikLt_iff] at hlt
      rcases hlt with h' | ⟨_, h'⟩
      · rw [hek, hxk, compare_refl] at h'; cases h'
      · simp only [Entry.packed] at h'; omega
    · rw [if_neg h]
      have : (c.compare e.ukey k == .eq && decide (e.seq ≤ s)) = false := by
        cases hb : (c.compare e.ukey k == .eq && decide (e.seq ≤ s)) with
        | false => rfl
        | true =>
          exfalso; apply h
          simpa using hb
      rw [this]
      exact ih

/-! ### order independence -/

theorem newestOf_max {l : List Entry} {m : Entry} (h : newestOf l = some m) :
    ∀ x ∈ l, x.seq ≤ m.seq := by
  induction l generalizing m with
  | nil => simp [newestOf] at h
  | cons e es ih =>
    simp only [newestOf] at h
    cases h' : newestOf es with
    | none =>
      have := newestOf_eq_none.mp h'
      subst this
      rw [h'] at h; simp only [Option.some.injEq] at h; subst h
      intro x hx; simp at hx; subst hx; exact Nat.le_refl _
    | some m' =>
      rw [h'] at h; simp only at h
      have ih := ih h'
      split at h
      · rename_i hge
        simp only [Option.some.injEq] at h; subst h
        intro x hx
        rcases List.mem_cons.mp hx with rfl | hx
        · exact Nat.le_refl _
        · exact Nat.le_trans (ih x hx) hge
      · rename_i hge
        simp only [Option.some.injEq] at h; subst h
        intro x hx
        rcases List.mem_cons.mp hx with rfl | hx
        · omega
        · exact ih x hx

/-- characterisation of `newestOf` when sequence numbers are distinct -/
theorem newestOf_eq_some_iff {l : List Entry}
    (hd : ∀ x ∈ l, ∀ y ∈ l, x.seq = y.seq → x = y) (m : Entry) :
    newestOf l = some m ↔ m ∈ l ∧ ∀ x ∈ l, x.seq ≤ m.seq := by
  constructor
  · intro h; exact ⟨newestOf_mem h, newestOf_max h⟩
  · rintro ⟨hm, hmax⟩
    cases h : newestOf l with
    | none => rw [newestOf_eq_none.mp h] at hm; cases hm
    | some m' =>
      have h1 := newestOf_mem h
      have h2 := newestOf_max h
      have : m'.seq = m.seq := Nat.le_antisymm (hmax m' h1) (h2 m hm)
      rw [hd m' h1 m hm this]

theorem newestOf_perm {l l' : List Entry} (hp : l.Perm l')
    (hd : ∀ x ∈ l, ∀ y ∈ l, x.seq = y.seq → x = y) : newestOf l = newestOf l' := by
  have hd' : ∀ x ∈ l', ∀ y ∈ l', x.seq = y.seq → x = y :=
    fun x hx y hy => hd x (hp.mem_iff.mpr hx) y (hp.mem_iff.mpr hy)
  cases h : newestOf l' with
  | none =>
    have := newestOf_eq_none.mp h
    subst this
    rw [hp.eq_nil]
    rfl
  | some m =>
    obtain ⟨h1, h2⟩ := (newestOf_eq_some_iff hd' m).mp h
    exact (newestOf_eq_some_iff hd m).mpr
      ⟨hp.mem_iff.mpr h1, fun x hx => h2 x (hp.mem_iff.mp hx)⟩

/-- `newestVisible` does not depend on the order of the entries when no (user key, sequence) pair occurs twice -/
theorem newestVisible_perm (c : Cmp) {es es' : List Entry} (hp : es.Perm es')
    (hd : ∀ x ∈ es, ∀ y ∈ es, x.ukey = y.ukey → x.seq = y.seq → x = y) (k : Bytes) (s : Nat) :
    newestVisible c es k s = newestVisible c es' k s := by
  unfold newestVisible
  apply newestOf_perm
  · exact hp.filter _
  · intro x hx y hy hxy
    obtain ⟨hx1, hx2, _⟩ := mem_visibleEntries.mp hx
    obtain ⟨hy1, hy2, _⟩ := mem_visibleEntries.mp hy
    exact hd x hx1 y hy1 (hx2.trans hy2.symm) hxy

theorem view_perm (c : Cmp) {es es' : List Entry} (hp : es.Perm es')
    (hd : ∀ x ∈ es, ∀ y ∈ es, x.ukey = y.ukey → x.seq = y.seq → x = y) (k : Bytes) (s : Nat) :
    view c es k s = view c es' k s := by
  unfold view; rw [newestVisible_perm c hp hd k s]

theorem visibleMap_perm (c : Cmp) {es es' : List Entry} (hp : es.Perm es')
    (hd : ∀ x ∈ es, ∀ y ∈ es, x.ukey = y.ukey → x.seq = y.seq → x = y) (s : Nat) :
    visibleMap c es s = visibleMap c es' s := by
  apply sorted_ext c (visibleMap_sorted c es s) (visibleMap_sorted c es' s)
  rintro ⟨k, v⟩
  rw [mem_visibleMap, mem_visibleMap, newestVisible_perm c hp hd k s]

/-- the visible map answers like `view` -/
theorem mem_visibleMap_iff_view (c : Cmp) (es : List Entry) (s : Nat) (k : Bytes) (v : String) :
    (k, v) ∈ visibleMap c es s ↔ view c es k s = some v := by
  rw [mem_visibleMap]
  unfold view
  cases h : newestVisible c es k s with
  | none => simp
  | some e =>
    simp only [Option.some.injEq]
    constructor
    · rintro ⟨e', rfl, h1, rfl⟩; simp [h1]
    · intro h'
      split at h'
      · rename_i h1
        exact ⟨e, rfl, by simpa using h1, by simpa using h'⟩
      · cases h'

end Lcdb.VisMap
