/-
  Lemmas about the specification side of the LSM model: `newestOf`, `newestVisible`, `view`;
  invariance of `view` under rearrangement of the entries (given `NoSeqTies`), the effect of
  adding one entry with a fresh largest sequence number, and `applyOpsView`.
-/
import LcdbModel.Lemmas.LsmStepsRel
namespace Lcdb

/-! ### `newestOf` -/

theorem newestOf_eq_none_iff {l : List Entry} : newestOf l = none ↔ l = [] := by
  cases l with
  | nil => simp [newestOf]
  | cons e es =>
    simp only [newestOf]
    cases newestOf es with
    | none => simp
    | some m => by_cases h : e.seq ≥ m.seq <;> simp [h]

theorem newestOf_spec {l : List Entry} {m : Entry} (h : newestOf l = some m) :
    m ∈ l ∧ ∀ e ∈ l, e.seq ≤ m.seq := by
  induction l generalizing m with
  | nil => simp [newestOf] at h
  | cons x xs ih =>
    simp only [newestOf] at h
    cases hn : newestOf xs with
    | none =>
      rw [hn] at h
      simp at h; subst h
      have := newestOf_eq_none_iff.mp hn
      subst this
      simp
    | some m' =>
      rw [hn] at h
      have := ih hn
      by_cases hge : x.seq ≥ m'.seq
      · simp [hge] at h; subst h
        refine ⟨by simp, ?_⟩
        intro e he
        rcases List.mem_cons.mp he with rfl | he'
        · exact Nat.le_refl _
        · exact Nat.le_trans (this.2 e he') hge
      · simp [hge] at h; subst h
        refine ⟨List.mem_cons_of_mem _ this.1, ?_⟩
        intro e he
        rcases List.mem_cons.mp he with rfl | he'
        · omega
        · exact this.2 e he'

/-- an element strictly newer than every other one is the newest -/
theorem newestOf_eq_some_of_strict {l : List Entry} {m : Entry} (hm : m ∈ l)
    (h : ∀ e ∈ l, e = m ∨ e.seq < m.seq) : newestOf l = some m := by
  cases hn : newestOf l with
  | none =>
    have := newestOf_eq_none_iff.mp hn
    subst this; cases hm
  | some m' =>
    have hs := newestOf_spec hn
    rcases h m' hs.1 with rfl | hlt
    · rfl
    · have := hs.2 m hm
      omega

/-! ### `visibleEntries`, `newestVisible`, `view` -/

theorem mem_visibleEntries {c : Cmp} {es : List Entry} {k : Bytes} {s : Nat} {e : Entry} :
    e ∈ visibleEntries c es k s ↔ e ∈ es ∧ e.ukey = k ∧ e.seq ≤ s := by
  simp [visibleEntries, cmp_eq_iff]

theorem newestVisible_eq_none_iff {c : Cmp} {es : List Entry} {k : Bytes} {s : Nat} :
    newestVisible c es k s = none ↔ ∀ e ∈ es, e.ukey = k → ¬ e.seq ≤ s := by
  unfold newestVisible
  rw [newestOf_eq_none_iff, List.eq_nil_iff_forall_not_mem]
  simp only [mem_visibleEntries]
  constructor
  · intro h e he hk hs; exact h e ⟨he, hk, hs⟩
  · intro h e ⟨he, hk, hs⟩; exact h e he hk hs

theorem newestVisible_spec {c : Cmp} {es : List Entry} {k : Bytes} {s : Nat} {m : Entry}
    (h : newestVisible c es k s = some m) :
    m ∈ es ∧ m.ukey = k ∧ m.seq ≤ s ∧ ∀ e ∈ es, e.ukey = k → e.seq ≤ s → e.seq ≤ m.seq := by
  have := newestOf_spec h
  obtain ⟨h1, h2, h3⟩ := mem_visibleEntries.mp this.1
  exact ⟨h1, h2, h3, fun e he hk hs => this.2 e (mem_visibleEntries.mpr ⟨he, hk, hs⟩)⟩

theorem newestVisible_eq_some_of_strict {c : Cmp} {es : List Entry} {k : Bytes} {s : Nat} {m : Entry}
    (hm : m ∈ es) (hk : m.ukey = k) (hs : m.seq ≤ s)
    (h : ∀ e ∈ es, e.ukey = k → e.seq ≤ s → e = m ∨ e.seq < m.seq) :
    newestVisible c es k s = some m := by
  apply newestOf_eq_some_of_strict (mem_visibleEntries.mpr ⟨hm, hk, hs⟩)
  intro e he
  obtain ⟨h1, h2, h3⟩ := mem_visibleEntries.mp he
  exact h e h1 h2 h3

/-- no two different entries of the same user key share a sequence number -/
def KeyNoTies (es : List Entry) : Prop :=
  ∀ x ∈ es, ∀ y ∈ es, x.ukey = y.ukey → x.seq = y.seq → x = y

/-- the same, for the entries of a state, phrased with the comparator -/
def NoSeqTies (c : Cmp) (st : DbState) : Prop :=
  ∀ x ∈ allEntries st, ∀ y ∈ allEntries st, c.compare x.ukey y.ukey = .eq → x.seq = y.seq → x = y

instance (es : List Entry) : Decidable (KeyNoTies es) := by unfold KeyNoTies; infer_instance
instance (c : Cmp) (st : DbState) : Decidable (NoSeqTies c st) := by unfold NoSeqTies; infer_instance

theorem NoSeqTies.keyNoTies {c : Cmp} {st : DbState} (h : NoSeqTies c st) :
    KeyNoTies (allEntries st) :=
  fun x hx y hy hk hs => h x hx y hy ((cmp_eq_iff c _ _).mpr hk) hs

theorem NoSeqTies.of_subset {c : Cmp} {st st' : DbState} (h : NoSeqTies c st)
    (hsub : ∀ e ∈ allEntries st', e ∈ allEntries st) : NoSeqTies c st' :=
  fun x hx y hy hk hs => h x (hsub x hx) y (hsub y hy) hk hs

theorem newestVisible_eq_some_of {c : Cmp} {es : List Entry} {k : Bytes} {s : Nat} {m : Entry}
    (hes : KeyNoTies es) (hm : m ∈ es) (hk : m.ukey = k) (hs : m.seq ≤ s)
    (h : ∀ e ∈ es, e.ukey = k → e.seq ≤ s → e.seq ≤ m.seq) :
    newestVisible c es k s = some m := by
  apply newestVisible_eq_some_of_strict hm hk hs
  intro e he hke hse
  have := h e he hke hse
  by_cases heq : e.seq = m.seq
  · exact .inl (hes e he m hm (hke.trans hk.symm) heq)
  · exact .inr (by omega)

/-- `newestVisible` depends only on the *set* of visible entries, when there are no ties -/
theorem newestVisible_congr {c : Cmp} {es es' : List Entry} {k : Bytes} {s : Nat}
    (hes : KeyNoTies es) (h : ∀ e, e.ukey = k → e.seq ≤ s → (e ∈ es' ↔ e ∈ es)) :
    newestVisible c es' k s = newestVisible c es k s := by
  cases hn : newestVisible c es k s with
  | none =>
    rw [newestVisible_eq_none_iff] at hn ⊢
    intro e he hk hs
    exact hn e ((h e hk hs).mp he) hk hs
  | some m =>
    obtain ⟨h1, h2, h3, h4⟩ := newestVisible_spec hn
    apply newestVisible_eq_some_of_strict ((h m h2 h3).mpr h1) h2 h3
    intro e he hk hs
    have he' := (h e hk hs).mp he
    have := h4 e he' hk hs
    by_cases heq : e.seq = m.seq
    · exact .inl (hes e he' m h1 (hk.trans h2.symm) heq)
    · exact .inr (by omega)

theorem view_congr {c : Cmp} {es es' : List Entry} {k : Bytes} {s : Nat}
    (hes : KeyNoTies es) (h : ∀ e, e.ukey = k → e.seq ≤ s → (e ∈ es' ↔ e ∈ es)) :
    view c es' k s = view c es k s := by
  unfold view
  rw [newestVisible_congr hes h]

/-- entries above the read sequence do not matter -/
theorem visibleEntries_seq_mono {c : Cmp} {es : List Entry} {k : Bytes} {n q : Nat}
    (hb : ∀ x ∈ es, x.seq ≤ n) (hq : n ≤ q) : visibleEntries c es k q = visibleEntries c es k n := by
  unfold visibleEntries
  apply List.filter_congr
  intro x hx
  have := hb x hx
  have h1 : decide (x.seq ≤ q) = true := by simp; omega
  have h2 : decide (x.seq ≤ n) = true := by simp; omega
  rw [h1, h2]

theorem view_seq_mono {c : Cmp} {es : List Entry} {k : Bytes} {n q : Nat}
    (hb : ∀ x ∈ es, x.seq ≤ n) (hq : n ≤ q) : view c es k q = view c es k n := by
  unfold view newestVisible
  rw [visibleEntries_seq_mono hb hq]

/-! ### adding one entry with a fresh largest sequence number -/

/-- `es'` is `es` with the single entry `e` added at some position -/
structure Inserted (e : Entry) (es es' : List Entry) : Prop where
  mem : e ∈ es'
  sub : ∀ x ∈ es', x = e ∨ x ∈ es
  filt : ∀ p : Entry → Bool, p e = false → es'.filter p = es.filter p

theorem inserted_runInsert (c : Cmp) (e : Entry) (mem rest : List Entry) :
    Inserted e (mem ++ rest) (runInsert c e mem ++ rest) where
  mem := List.mem_append.mpr (.inl (mem_runInsert.mpr (.inl rfl)))
  sub := by
    intro x hx
    rcases List.mem_append.mp hx with hx | hx
    · rcases mem_runInsert.mp hx with hx | hx
      · exact .inl hx
      · exact .inr (List.mem_append.mpr (.inl hx))
    · exact .inr (List.mem_append.mpr (.inr hx))
  filt := by
    intro p hp
    rw [List.filter_append, List.filter_append, filter_runInsert_of_false p mem hp]

theorem inserted_append (e : Entry) (H : List Entry) : Inserted e H (H ++ [e]) where
  mem := by simp
  sub := by
    intro x hx
    rcases List.mem_append.mp hx with hx | hx
    · exact .inr hx
    · simp at hx; exact .inl hx
  filt := by
    intro p hp
    simp [List.filter_append, hp]

/-- the answer an entry gives -/
def entryAnswer (e : Entry) : Option String := if e.kind == 1 then some e.val else none

theorem view_inserted {c : Cmp} {e : Entry} {es es' : List Entry} {n : Nat}
    (hI : Inserted e es es') (hb : ∀ x ∈ es, x.seq ≤ n) (he : e.seq = n + 1) (k : Bytes) :
    view c es' k (n + 1) =
      if c.compare e.ukey k = .eq then entryAnswer e else view c es k n := by
  split
  · rename_i hk
    have hk' := (cmp_eq_iff c _ _).mp hk
    have : newestVisible c es' k (n + 1) = some e := by
      apply newestVisible_eq_some_of_strict hI.mem hk' (by omega)
      intro x hx _ _
      rcases hI.sub x hx with h | h
      · exact .inl h
      · have := hb x h; exact .inr (by omega)
    simp [view, this, entryAnswer]
  · rename_i hk
    have hp : (fun x : Entry => c.compare x.ukey k == .eq && decide (x.seq ≤ n + 1)) e = false := by
      simp [hk]
    have : visibleEntries c es' k (n + 1) = visibleEntries c es k (n + 1) := hI.filt _ hp
    unfold view newestVisible
    rw [this, visibleEntries_seq_mono hb (Nat.le_succ n)]

/-- the map a batch applies to the answer for key `k`: the last operation on `k` decides -/
def applyOpsView (c : Cmp) (k : Bytes) : List WOp → Option String → Option String
  | [], v => v
  | o :: os, v =>
    applyOpsView c k os
      (if c.compare o.ukey k = .eq then (if o.kind == 1 then some o.val else none) else v)

theorem view_applyOps (c : Cmp) (mem rest : List Entry) (n : Nat) (ops : List WOp) (k : Bytes)
    (hb : ∀ x ∈ mem ++ rest, x.seq ≤ n) :
    view c (applyOps c mem (n + 1) ops ++ rest) k (n + ops.length) =
      applyOpsView c k ops (view c (mem ++ rest) k n) := by
  induction ops generalizing mem n with
  | nil => simp [applyOps, applyOpsView]
  | cons o os ih =>
    simp only [applyOps, applyOpsView]
    have hI := inserted_runInsert c { ukey := o.ukey, seq := n + 1, kind := o.kind, val := o.val } mem rest
    have hb' : ∀ x ∈ runInsert c { ukey := o.ukey, seq := n + 1, kind := o.kind, val := o.val } mem ++ rest,
        x.seq ≤ n + 1 := by
      intro x hx
      rcases hI.sub x hx with rfl | hx'
      · exact Nat.le_refl _
      · have := hb x hx'; omega
    have := ih _ (n + 1) hb'
    have e1 : n + (o :: os).length = n + 1 + os.length := by simp; omega
    rw [e1, this, view_inserted hI hb rfl k]
    rfl

theorem view_append_opsEntries (c : Cmp) (H : List Entry) (n : Nat) (ops : List WOp) (k : Bytes)
    (hb : ∀ x ∈ H, x.seq ≤ n) :
    view c (H ++ opsEntries (n + 1) ops) k (n + ops.length) =
      applyOpsView c k ops (view c H k n) := by
  induction ops generalizing H n with
  | nil => simp [opsEntries, applyOpsView]
  | cons o os ih =>
    simp only [opsEntries, applyOpsView]
    have hI := inserted_append { ukey := o.ukey, seq := n + 1, kind := o.kind, val := o.val } H
    have hb' : ∀ x ∈ H ++ [{ ukey := o.ukey, seq := n + 1, kind := o.kind, val := o.val }],
        x.seq ≤ n + 1 := by
      intro x hx
      rcases hI.sub x hx with rfl | hx'
      · exact Nat.le_refl _
      · have := hb x hx'; omega
    have := ih _ (n + 1) hb'
    have e1 : n + (o :: os).length = n + 1 + os.length := by simp; omega
    have e2 : H ++ ({ ukey := o.ukey, seq := n + 1, kind := o.kind, val := o.val } :: opsEntries (n + 1 + 1) os)
        = (H ++ [{ ukey := o.ukey, seq := n + 1, kind := o.kind, val := o.val }]) ++ opsEntries (n + 1 + 1) os := by
      simp
    rw [e1, e2, this, view_inserted hI hb rfl k]
    rfl

theorem opsEntries_seq_inj {n : Nat} {ops : List WOp} {x y : Entry} (hx : x ∈ opsEntries n ops)
    (hy : y ∈ opsEntries n ops) (h : x.seq = y.seq) : x = y := by
  induction ops generalizing n with
  | nil => cases hx
  | cons o os ih =>
    rcases List.mem_cons.mp hx with rfl | hx' <;> rcases List.mem_cons.mp hy with rfl | hy'
    · rfl
    · have := (mem_opsEntries hy').1; simp at h; omega
    · have := (mem_opsEntries hx').1; simp at h; omega
    · exact ih hx' hy'

/-- `keyInDeeperLevels` sees every entry of a deeper level -/
theorem keyInDeeperLevels_of_mem {c : Cmp} {st : DbState} {level i : Nat} {g : FileMeta} {e : Entry}
    {k : Bytes} (hi : level < i) (hg : g ∈ st.level i) (he : e ∈ g.run) (hk : e.ukey = k) :
    keyInDeeperLevels c st level k = true := by
  unfold keyInDeeperLevels
  rw [List.any_eq_true]
  have hl := lt_length_of_mem_level hg
  refine ⟨st.level i, ?_, ?_⟩
  · rw [level_eq_getElem hl]
    have : st.levels[i] = (st.levels.drop (level + 1))[i - (level + 1)]'(by simp; omega) := by
      simp; congr 1; omega
    rw [this]; exact List.getElem_mem _
  · rw [List.any_eq_true]
    refine ⟨g, hg, ?_⟩
    rw [List.any_eq_true]
    exact ⟨e, he, by simp [hk, cmp_refl]⟩

/-! ### step classification, history -/

/-- steps of the engine that are not client writes and not recovery -/
def Step.isBackground : Step → Bool
  | .switchMem => true
  | .flush _ _ => true
  | .dropImm => true
  | .compact _ _ _ _ => true
  | .snapshot => true
  | .release _ => true
  | .bumpNextFile _ => true
  | _ => false

def Step.isAddL0 : Step → Bool
  | .addL0 _ => true
  | _ => false

/-- the plain log of all writes of a run started at `lastSeq = n`, with the sequence numbers
    `applyStep` assigns -/
def historyOf : Nat → List Step → List Entry
  | _, [] => []
  | n, .write ops :: ss => opsEntries (n + 1) ops ++ historyOf (n + ops.length) ss
  | n, _ :: ss => historyOf n ss

/-- the entries a compaction reads -/
abbrev compactIns (st : DbState) (level : Nat) (in0 in1 : List Nat) : List Entry :=
  (pickNums (st.level level) in0 ++ pickNums (st.level (level + 1)) in1).flatMap (·.run)

theorem mem_compactIns {st : DbState} {level : Nat} {in0 in1 : List Nat} {e : Entry} :
    e ∈ compactIns st level in0 in1 ↔
      ∃ g, ((g ∈ st.level level ∧ g.num ∈ in0) ∨ (g ∈ st.level (level + 1) ∧ g.num ∈ in1)) ∧ e ∈ g.run := by
  simp only [compactIns, List.mem_flatMap, List.mem_append, mem_pickNums]

theorem compactIns_sub {st : DbState} {level : Nat} {in0 in1 : List Nat} {e : Entry}
    (he : e ∈ compactIns st level in0 in1) : e ∈ allEntries st := by
  obtain ⟨g, hg, heg⟩ := mem_compactIns.mp he
  rcases hg with hg | hg
  · exact mem_allEntries.mpr (.inr (.inr ⟨g, mem_allFiles.mpr ⟨_, hg.1⟩, heg⟩))
  · exact mem_allEntries.mpr (.inr (.inr ⟨g, mem_allFiles.mpr ⟨_, hg.1⟩, heg⟩))

end Lcdb
