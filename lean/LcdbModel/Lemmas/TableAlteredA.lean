/-
  Partial alteration of a table file (C11), part A: a change confined to ONE byte outside the
  footer satisfies `AlteredOK` — every checksummed block region is untouched or fails its CRC
  (`single_byte_alteration_detected`); so does a change of one footer padding byte
  (`footer_padding_alteration_ok`).
-/
import LcdbModel.Lemmas.TableRead
import LcdbModel.Lemmas.InternalKey
import LcdbModel.Props.FilterProps
namespace Lcdb

/-! ### `pread` around the altered byte -/

/-- a read that does not cover position `pre.length` does not see the byte there -/
theorem pread_single_outside (pre suf : Bytes) (x y : UInt8) (off m : Nat)
    (h : pre.length < off ∨ off + m ≤ pre.length) :
    pread (pre ++ x :: suf) off m = pread (pre ++ y :: suf) off m := by
  unfold pread
  rcases h with h | h
  · have e : ∀ z : UInt8, (pre ++ z :: suf).drop off = suf.drop (off - pre.length - 1) := by
      intro z
      rw [List.drop_append, List.drop_of_length_le (by omega), List.nil_append]
      obtain ⟨k, hk⟩ : ∃ k, off - pre.length = k + 1 := ⟨off - pre.length - 1, by omega⟩
      rw [hk, List.drop_succ_cons]
      congr 1
    rw [e x, e y]
  · have e : ∀ z : UInt8, ((pre ++ z :: suf).drop off).take m = (pre.drop off).take m := by
      intro z
      rw [List.drop_append_of_le_length (by omega)]
      rw [List.take_append_of_le_length (by rw [List.length_drop]; omega)]
    rw [e x, e y]

/-- a read that covers position `pre.length` -/
theorem pread_single_inside (pre suf : Bytes) (z : UInt8) (off m : Nat)
    (h1 : off ≤ pre.length) (h2 : pre.length < off + m) :
    pread (pre ++ z :: suf) off m = pre.drop off ++ z :: suf.take (off + m - pre.length - 1) := by
  unfold pread
  rw [List.drop_append_of_le_length h1, List.take_append]
  rw [List.take_of_length_le (by rw [List.length_drop]; omega)]
  have : m - (pre.drop off).length = (off + m - pre.length - 1) + 1 := by
    rw [List.length_drop]; omega
  rw [this, List.take_succ_cons]

/-! ### the checksum test on a buffer with one byte changed -/

private theorem fixedDec_lt_pow (bs : Bytes) : fixedDec bs < 256 ^ bs.length := by
  induction bs with
  | nil => simp [fixedDec]
  | cons b bs ih =>
    simp only [fixedDec, List.length_cons, Nat.pow_succ]
    have := b.toNat_lt
    omega

theorem ofNat32_fixedDec_inj (a b : Bytes) (ha : a.length = 4) (hb : b.length = 4)
    (h : BitVec.ofNat 32 (fixedDec a) = BitVec.ofNat 32 (fixedDec b)) : a = b := by
  have h1 := fixedDec_lt_pow a
  have h2 := fixedDec_lt_pow b
  rw [ha] at h1
  rw [hb] at h2
  have h3 := congrArg BitVec.toNat h
  rw [BitVec.toNat_ofNat, BitVec.toNat_ofNat, Nat.mod_eq_of_lt (by omega), Nat.mod_eq_of_lt (by omega)] at h3
  exact fixedDec_inj' a b (ha.trans hb.symm) h3

/-- **one changed byte in a stored block is detected**: if the `n + 5` bytes `A ++ x :: B`
    pass the checksum test, then `A ++ y :: B` (`y ≠ x`) fail it — whether the byte is in the
    contents, the type byte or the stored checksum -/
theorem blockCrcOk_single_byte (A B : Bytes) (x y : UInt8) (n : Nat) (hxy : x ≠ y)
    (hlen : (A ++ x :: B).length = n + 5) (hok : blockCrcOk (A ++ x :: B) n = some true) :
    blockCrcOk (A ++ y :: B) n = some false := by
  have hlen' : (A ++ y :: B).length = n + 5 := by
    simpa only [List.length_append, List.length_cons] using hlen
  have hAB : A.length + B.length = n + 4 := by
    simp only [List.length_append, List.length_cons] at hlen; omega
  rw [blockCrcOk_of_length _ _ hlen] at hok
  rw [blockCrcOk_of_length _ _ hlen']
  have hok' := Option.some.inj hok
  rw [beq_iff_eq] at hok'
  congr 1
  rw [beq_eq_false_iff_ne]
  by_cases hA : A.length ≤ n
  · -- the byte is in the checksummed part: same stored crc, different body
    have hsplit : ∀ z : UInt8, A ++ z :: B
        = (A ++ z :: B.take (n - A.length)) ++ B.drop (n - A.length) := by
      intro z
      rw [List.append_assoc, List.cons_append, List.take_append_drop]
    have hl1 : ∀ z : UInt8, (A ++ z :: B.take (n - A.length)).length = n + 1 := by
      intro z
      simp only [List.length_append, List.length_cons, List.length_take]
      omega
    have hbody : ∀ z : UInt8, (A ++ z :: B).take (n + 1) = A ++ z :: B.take (n - A.length) := by
      intro z
      conv => lhs; rw [hsplit z]
      exact List.take_left' (hl1 z)
    have hst : ∀ z : UInt8, (A ++ z :: B).drop (n + 1) = B.drop (n - A.length) := by
      intro z
      conv => lhs; rw [hsplit z]
      exact List.drop_left' (hl1 z)
    rw [hbody x, hst x] at hok'
    rw [hbody y, hst y, hok']
    rw [crcExtendTab_eq, crcExtendTab_eq]
    exact crc_detects_single_byte 0 A _ x y hxy
  · -- the byte is in the stored crc: same body, different stored crc
    have hsplit : ∀ z : UInt8, A ++ z :: B
        = A.take (n + 1) ++ (A.drop (n + 1) ++ z :: B) := by
      intro z
      rw [← List.append_assoc, List.take_append_drop]
    have hl1 : (A.take (n + 1)).length = n + 1 := by
      rw [List.length_take]; omega
    have hbody : ∀ z : UInt8, (A ++ z :: B).take (n + 1) = A.take (n + 1) := by
      intro z
      conv => lhs; rw [hsplit z]
      exact List.take_left' hl1
    have hl2 : ∀ z : UInt8, (A.drop (n + 1) ++ z :: B).length = 4 := by
      intro z
      simp only [List.length_append, List.length_cons, List.length_drop]
      omega
    have hst : ∀ z : UInt8, ((A ++ z :: B).drop (n + 1)).take 4 = A.drop (n + 1) ++ z :: B := by
      intro z
      conv => lhs; rw [hsplit z]
      rw [List.drop_left' hl1]
      exact List.take_of_length_le (by rw [hl2 z]; exact Nat.le_refl _)
    rw [hbody x, hst x] at hok'
    rw [hbody y, hst y, ← hok']
    intro heq
    have h1 := ofNat32_fixedDec_inj _ _ (hl2 y) (hl2 x) (crcUnmask_injective heq)
    have h2 := List.append_cancel_left h1
    simp only [List.cons.injEq] at h2
    exact hxy h2.1.symm

/-! ### the theorems -/

/-- after a change of ONE byte every block that was checksum-valid is byte-identical or fails its
    checksum (wherever the byte lies) -/
theorem single_byte_blocks (pre suf : Bytes) (x y : UInt8) (hxy : x ≠ y) (h : BlockHandle)
    (hv : ∃ c, readBlock (pre ++ x :: suf) h.offset h.size true = .ok c) :
    BlockRegionOK (pre ++ x :: suf) (pre ++ y :: suf) h := by
  obtain ⟨c, hc⟩ := hv
  obtain ⟨_, hl, hcrc, _⟩ := readBlock_ok_true _ _ _ c hc
  unfold BlockRegionOK
  simp only [blockTrailerSize]
  by_cases hin : h.offset ≤ pre.length ∧ pre.length < h.offset + (h.size + 5)
  · right
    rw [pread_single_inside pre suf x _ _ hin.1 hin.2] at hl hcrc
    rw [pread_single_inside pre suf y _ _ hin.1 hin.2]
    exact blockCrcOk_single_byte _ _ x y h.size hxy hl hcrc
  · left
    exact (pread_single_outside pre suf x y _ _ (by omega)).symm

/-- **C11, single byte**: changing one byte that lies before the footer gives a file in which
    every block that was checksum-valid is byte-identical or fails its checksum, and whose
    footer is unchanged — the hypothesis `AlteredOK` of `altered_table_partial` -/
theorem single_byte_alteration_detected (pre suf : Bytes) (x y : UInt8) (hxy : x ≠ y)
    (hfoot : footerSize ≤ suf.length) : AlteredOK (pre ++ x :: suf) (pre ++ y :: suf) := by
  refine ⟨?_, ?_, fun h hv => single_byte_blocks pre suf x y hxy h hv⟩
  · simp only [List.length_append, List.length_cons]
  · have hl : ∀ z : UInt8, (pre ++ z :: suf).length = pre.length + suf.length + 1 := by
      intro z; simp only [List.length_append, List.length_cons]; omega
    rw [hl x, hl y]
    refine congrArg footerDecode (pread_single_outside pre suf x y _ _ (Or.inl ?_)).symm
    omega

theorem AlteredOK.refl (file : Bytes) : AlteredOK file file :=
  ⟨rfl, rfl, fun _ _ => Or.inl rfl⟩

theorem pread_footer (body F : Bytes) (hF : F.length = footerSize) :
    pread (body ++ F) ((body ++ F).length - footerSize) footerSize = F := by
  have h1 : (body ++ F).length - footerSize = body.length := by
    rw [List.length_append, hF]; omega
  rw [h1]
  unfold pread
  rw [List.drop_left, ← hF, List.take_length]

/-- **C11, footer padding**: overwriting one padding byte of the footer (between the end of the
    two block handles and the magic number) also gives `AlteredOK`: the footer decodes as before
    and a block region that happened to cover that byte fails its checksum -/
theorem footer_padding_alteration_ok (body : Bytes) (f : Footer) (hf : f.InRange) (i : Nat)
    (v : UInt8) (hlo : (handleEncode f.metaindex ++ handleEncode f.index).length ≤ i)
    (hhi : i < 2 * handleMaxLen) :
    AlteredOK (body ++ footerEncode f) (body ++ (footerEncode f).set i v) := by
  have hlen : (footerEncode f).length = footerSize := footer_length f hf
  have hi : i < (footerEncode f).length := by
    rw [hlen]; simp only [footerSize, handleMaxLen] at hhi ⊢; omega
  by_cases hxv : (footerEncode f)[i] = v
  · have : (footerEncode f).set i v = footerEncode f := by
      rw [← hxv]; exact List.set_getElem_self hi
    rw [this]
    exact AlteredOK.refl _
  · have e1 : footerEncode f
        = (footerEncode f).take i ++ (footerEncode f)[i] :: (footerEncode f).drop (i + 1) := by
      rw [List.getElem_cons_drop, List.take_append_drop]
    have e2 : (footerEncode f).set i v
        = (footerEncode f).take i ++ v :: (footerEncode f).drop (i + 1) :=
      List.set_eq_take_append_cons_drop.trans (by rw [if_pos hi])
    refine ⟨?_, ?_, ?_⟩
    · simp only [List.length_append, List.length_set]
    · rw [pread_footer body _ (by rw [List.length_set]; exact hlen), pread_footer body _ hlen]
      exact footer_padding_byte_irrelevant f hf i v hlo hhi
    · intro h hv
      rw [e2, ← List.append_assoc]
      have e3 : body ++ footerEncode f
          = (body ++ (footerEncode f).take i) ++ (footerEncode f)[i] :: (footerEncode f).drop (i + 1) := by
        rw [List.append_assoc, ← e1]
      rw [e3] at hv ⊢
      exact single_byte_blocks _ _ _ v hxv h hv

end Lcdb
