/-
  Helper lemmas for LcdbModel.Model.LogFormat (core Lean only).
-/
import LcdbModel.Model.LogFormat
import LcdbModel.Lemmas.Coding
import LcdbModel.Lemmas.Crc32c
import LcdbModel.Props.CodingProps
import LcdbModel.Props.CrcProps
namespace Lcdb

/-! ### writer -/

/-- well-formed writer block offset -/
def OffOk (off : Nat) : Prop := off ≤ logBlockSize

/-- number of zero bytes the writer pads with before switching block -/
def padLen (off : Nat) : Nat := if logBlockSize - off < logHeaderSize then logBlockSize - off else 0

/-- block offset at which the next physical record header is placed -/
def normOff (off : Nat) : Nat := if logBlockSize - off < logHeaderSize then 0 else off

/-- payload length of the next fragment -/
def fragLenAt (off : Nat) (n : Nat) : Nat := min n (logBlockSize - normOff off - logHeaderSize)

theorem emitPhysical_eq (ty : Nat) (frag : Bytes) :
    emitPhysical ty frag =
      fixedEnc 4 (crcMask (crcExtend (crc32c [UInt8.ofNat ty]) frag)).toNat ++
        (UInt8.ofNat (frag.length % 256) :: UInt8.ofNat (frag.length / 256) :: UInt8.ofNat ty :: frag) := by
  simp [emitPhysical]

theorem emitPhysical_length (ty : Nat) (frag : Bytes) :
    (emitPhysical ty frag).length = 7 + frag.length := by
  rw [emitPhysical_eq, List.length_append, fixedEnc_length]
  simp only [List.length_cons]; omega

theorem addRecordGo_zero (off : Nat) (left : Bytes) (b : Bool) :
    addRecordGo 0 off left b = ([], off) := rfl

theorem addRecordGo_succ (fuel off : Nat) (left : Bytes) (b : Bool) :
    addRecordGo (fuel + 1) off left b =
      let fl := fragLenAt off left.length
      let out := List.replicate (padLen off) 0 ++ emitPhysical (recType b (left.length == fl)) (left.take fl)
      let off2 := normOff off + logHeaderSize + fl
      if (left.drop fl).isEmpty then (out, off2)
      else (out ++ (addRecordGo fuel off2 (left.drop fl) false).1,
            (addRecordGo fuel off2 (left.drop fl) false).2) := by
  simp only [addRecordGo, fragLenAt, padLen, normOff]
  split <;> simp

theorem normOff_bound (off n : Nat) (h : off ≤ logBlockSize) :
    normOff off + logHeaderSize + fragLenAt off n ≤ logBlockSize := by
  unfold fragLenAt normOff logBlockSize logHeaderSize at *
  split <;> omega

theorem addRecordGo_off_le (f off : Nat) (left : Bytes) (b : Bool) (h : off ≤ logBlockSize) :
    (addRecordGo f off left b).2 ≤ logBlockSize := by
  induction f generalizing off left b with
  | zero => simpa [addRecordGo_zero] using h
  | succ f ih =>
    rw [addRecordGo_succ]
    have hb := normOff_bound off left.length h
    simp only
    split
    · exact hb
    · exact ih _ _ _ hb

/-- fuel that `addRecordGo` needs at block offset `off` with `n` bytes left -/
def fuelNeed (off n : Nat) : Nat := n + (if off = logBlockSize - logHeaderSize then 2 else 1)

theorem fuelNeed_step (off n f : Nat) : off ≤ logBlockSize → n - fragLenAt off n ≠ 0 →
    fuelNeed off n ≤ f + 1 →
    fuelNeed (normOff off + logHeaderSize + fragLenAt off n) (n - fragLenAt off n) ≤ f := by
  unfold fuelNeed fragLenAt normOff logBlockSize logHeaderSize
  by_cases hc : 32768 - off < 7 <;> by_cases h7 : off = 32768 - 7 <;> simp only [hc, h7, if_true, if_false]
  all_goals (repeat' split)
  all_goals omega

theorem addRecordGo_fuel' (f1 f2 off : Nat) (left : Bytes) (b : Bool)
    (h1 : fuelNeed off left.length ≤ f1) (h2 : fuelNeed off left.length ≤ f2)
    (hoff : off ≤ logBlockSize) : addRecordGo f1 off left b = addRecordGo f2 off left b := by
  induction f1 generalizing f2 off left b with
  | zero => unfold fuelNeed at h1; split at h1 <;> omega
  | succ f1 ih =>
    cases f2 with
    | zero => unfold fuelNeed at h2; split at h2 <;> omega
    | succ f2 =>
      rw [addRecordGo_succ, addRecordGo_succ]
      simp only
      split
      · rfl
      · rename_i hne
        have hb := normOff_bound off left.length hoff
        have hlen : (left.drop (fragLenAt off left.length)).length ≠ 0 := by
          intro h0; exact hne (by simpa using List.eq_nil_of_length_eq_zero h0)
        rw [List.length_drop] at hlen
        have k1 := fuelNeed_step off left.length f1 hoff hlen h1
        have k2 := fuelNeed_step off left.length f2 hoff hlen h2
        rw [← List.length_drop] at k1 k2
        rw [ih _ _ _ _ k1 k2 hb]

theorem fuelNeed_le (off n : Nat) : fuelNeed off n ≤ n + 2 := by
  unfold fuelNeed; split <;> omega

theorem addRecordGo_fuel (f1 f2 off : Nat) (left : Bytes) (b : Bool)
    (h1 : left.length + 2 ≤ f1) (h2 : left.length + 2 ≤ f2) (hoff : off ≤ logBlockSize) :
    addRecordGo f1 off left b = addRecordGo f2 off left b :=
  addRecordGo_fuel' f1 f2 off left b (Nat.le_trans (fuelNeed_le _ _) h1)
    (Nat.le_trans (fuelNeed_le _ _) h2) hoff

theorem addRecordGo_offset (f off : Nat) (left : Bytes) (b : Bool) (h : off ≤ logBlockSize) :
    (addRecordGo f off left b).2 % logBlockSize
      = (off + (addRecordGo f off left b).1.length) % logBlockSize := by
  induction f generalizing off left b with
  | zero => simp [addRecordGo_zero]
  | succ f ih =>
    rw [addRecordGo_succ]
    have hb := normOff_bound off left.length h
    have hp : (off + padLen off) % logBlockSize = normOff off % logBlockSize := by
      unfold padLen normOff logBlockSize logHeaderSize at *
      split
      · have : off + (32768 - off) = 32768 := by omega
        rw [this]
      · rfl
    simp only
    split
    · simp only [List.length_append, List.length_replicate, emitPhysical_length, List.length_take]
      have : min (fragLenAt off left.length) left.length = fragLenAt off left.length := by
        unfold fragLenAt; omega
      rw [this]
      unfold logHeaderSize logBlockSize at *
      omega
    · simp only
      rw [ih _ _ _ hb]
      simp only [List.length_append, List.length_replicate, emitPhysical_length, List.length_take]
      have : min (fragLenAt off left.length) left.length = fragLenAt off left.length := by
        unfold fragLenAt; omega
      rw [this]
      unfold logHeaderSize logBlockSize at *
      omega

theorem addRecordGo_off_block (f : Nat) (left : Bytes) (b : Bool) :
    addRecordGo (f + 1) logBlockSize left b = addRecordGo (f + 1) 0 left b := by
  rw [addRecordGo_succ, addRecordGo_succ]
  have h1 : padLen logBlockSize = padLen 0 := by decide
  have h2 : normOff logBlockSize = normOff 0 := by decide
  have h3 : fragLenAt logBlockSize left.length = fragLenAt 0 left.length := by
    unfold fragLenAt; rw [h2]
  rw [h1, h2, h3]

theorem addRecord_off_block (rec : Bytes) : addRecord logBlockSize rec = addRecord 0 rec :=
  addRecordGo_off_block _ _ _

/-- block offset after writing all records -/
def writeOff (off : Nat) : List Bytes → Nat
  | [] => off
  | r :: rs => writeOff (addRecord off r).2 rs

theorem addRecord_off_le' (off : Nat) (rec : Bytes) (h : off ≤ logBlockSize) :
    (addRecord off rec).2 ≤ logBlockSize := addRecordGo_off_le _ _ _ _ h

theorem writeOff_le (off : Nat) (rs : List Bytes) (h : off ≤ logBlockSize) :
    writeOff off rs ≤ logBlockSize := by
  induction rs generalizing off with
  | nil => exact h
  | cons r rs ih => exact ih _ (addRecord_off_le' off r h)

theorem writeFrom_append (off : Nat) (a b : List Bytes) :
    writeFrom off (a ++ b) = writeFrom off a ++ writeFrom (writeOff off a) b := by
  induction a generalizing off with
  | nil => rfl
  | cons r rs ih => simp only [List.cons_append, writeFrom, writeOff, ih, List.append_assoc]

theorem writeOff_mod (off : Nat) (a : List Bytes) (h : off ≤ logBlockSize) :
    writeOff off a % logBlockSize = (off + (writeFrom off a).length) % logBlockSize := by
  induction a generalizing off with
  | nil => simp [writeOff, writeFrom]
  | cons r rs ih =>
    simp only [writeOff, writeFrom, List.length_append]
    rw [ih _ (addRecord_off_le' off r h)]
    have := addRecordGo_offset (r.length + 2) off r true h
    unfold addRecord
    unfold logBlockSize at *
    omega

theorem writeFrom_off_block (rs : List Bytes) : writeFrom logBlockSize rs = writeFrom 0 rs := by
  cases rs with
  | nil => rfl
  | cons r rs => simp only [writeFrom, addRecord_off_block]

/-! ### reader: `readPhysical` = `parsePhys ∘ refill` -/

def refill (st : RState) : RState :=
  if st.buffer.length < logHeaderSize && !st.eof then
    { buffer := st.rest.take logBlockSize, rest := st.rest.drop logBlockSize,
      eof := (st.rest.take logBlockSize).length < logBlockSize }
  else st

def parsePhys (checksum : Bool) (st1 : RState) : Phys × List REvent × RState :=
  if st1.buffer.length < logHeaderSize then
    (Phys.eof, [], { st1 with buffer := [], eof := true })
  else
    let hdr := st1.buffer
    let length := (hdr.getD 4 0).toNat + 256 * (hdr.getD 5 0).toNat
    let ty := (hdr.getD 6 0).toNat
    if logHeaderSize + length > st1.buffer.length then
      if !st1.eof then (Phys.bad, [REvent.drop st1.buffer.length], { st1 with buffer := [] })
      else (Phys.eof, [], { st1 with buffer := [] })
    else if ty == 0 && length == 0 then
      (Phys.bad, [], { st1 with buffer := [] })
    else
      let payload := (hdr.drop logHeaderSize).take length
      let expect := crcUnmask (BitVec.ofNat 32 (fixedDec (hdr.take 4)))
      let actual := crc32c ((hdr.drop 6).take (1 + length))
      if checksum && actual != expect then
        (Phys.bad, [REvent.drop st1.buffer.length], { st1 with buffer := [] })
      else
        (Phys.data ty payload, [], { st1 with buffer := hdr.drop (logHeaderSize + length) })

theorem readPhysical_eq (c : Bool) (st : RState) : readPhysical c st = parsePhys c (refill st) := rfl

/-- Relation between the writer's block offset `off`, the not-yet-consumed file suffix `S`
    and the reader state: the buffer holds the remainder of the current block. -/
structure RInv (off : Nat) (S : Bytes) (st : RState) : Prop where
  split : st.buffer ++ st.rest = S
  len_le : st.buffer.length ≤ logBlockSize - off
  eof_rest : st.eof = true → st.rest = []
  short_eof : st.buffer.length < logBlockSize - off → st.eof = true

theorem RInv_init (S : Bytes) : RInv logBlockSize S { buffer := [], rest := S, eof := false } :=
  ⟨rfl, by simp, by simp, by simp⟩

/-! ### `parsePhys` on concrete buffers -/

theorem parsePhys_cons (c0 c1 c2 c3 l0 l1 t : UInt8) (body rest : Bytes) (eof : Bool)
    (hlen : l0.toNat + 256 * l1.toNat ≤ body.length)
    (hty : ¬ (t.toNat = 0 ∧ l0.toNat + 256 * l1.toNat = 0))
    (hcrc : crc32c (t :: body.take (l0.toNat + 256 * l1.toNat))
      = crcUnmask (BitVec.ofNat 32 (fixedDec [c0, c1, c2, c3]))) :
    parsePhys true ⟨c0 :: c1 :: c2 :: c3 :: l0 :: l1 :: t :: body, rest, eof⟩ =
      (Phys.data t.toNat (body.take (l0.toNat + 256 * l1.toNat)), [],
        ⟨body.drop (l0.toNat + 256 * l1.toNat), rest, eof⟩) := by
  unfold parsePhys
  simp [logHeaderSize]
  have e1 : List.take (1 + (l0.toNat + 256 * l1.toNat)) (t :: body)
      = t :: List.take (l0.toNat + 256 * l1.toNat) body := by
    rw [Nat.add_comm 1, List.take_succ_cons]
  have e2 : List.drop (7 + (l0.toNat + 256 * l1.toNat)) (c0 :: c1 :: c2 :: c3 :: l0 :: l1 :: t :: body)
      = List.drop (l0.toNat + 256 * l1.toNat) body := by
    rw [Nat.add_comm 7]; rfl
  rw [if_neg (by omega), if_neg (by omega), if_neg (by omega), e1, if_pos hcrc, e2]

/-- the physical record truncated inside: with `eof` set this is a clean end of file -/
theorem parsePhys_short (buf rest : Bytes) (h : buf.length < 7) (eof : Bool) :
    (parsePhys true ⟨buf, rest, eof⟩).1 = Phys.eof ∧ (parsePhys true ⟨buf, rest, eof⟩).2.1 = [] := by
  unfold parsePhys
  simp [logHeaderSize, h]

theorem parsePhys_cut (c0 c1 c2 c3 l0 l1 t : UInt8) (body rest : Bytes)
    (hlen : body.length < l0.toNat + 256 * l1.toNat) :
    (parsePhys true ⟨c0 :: c1 :: c2 :: c3 :: l0 :: l1 :: t :: body, rest, true⟩).1 = Phys.eof ∧
    (parsePhys true ⟨c0 :: c1 :: c2 :: c3 :: l0 :: l1 :: t :: body, rest, true⟩).2.1 = [] := by
  unfold parsePhys
  simp [logHeaderSize]
  rw [if_neg (by omega), if_pos (by omega)]
  simp

theorem fixedEnc_four (n : Nat) : ∃ c0 c1 c2 c3 : UInt8, fixedEnc 4 n = [c0, c1, c2, c3] :=
  ⟨_, _, _, _, rfl⟩

theorem emitPhysical_cons (ty : Nat) (frag : Bytes) : ∃ c0 c1 c2 c3 : UInt8,
    emitPhysical ty frag = c0 :: c1 :: c2 :: c3 :: UInt8.ofNat (frag.length % 256) ::
      UInt8.ofNat (frag.length / 256) :: UInt8.ofNat ty :: frag ∧
    BitVec.ofNat 32 (fixedDec [c0, c1, c2, c3]) = crcMask (crcExtend (crc32c [UInt8.ofNat ty]) frag) := by
  obtain ⟨c0, c1, c2, c3, h⟩ := fixedEnc_four (crcMask (crcExtend (crc32c [UInt8.ofNat ty]) frag)).toNat
  refine ⟨c0, c1, c2, c3, ?_, ?_⟩
  · rw [emitPhysical_eq, h]; rfl
  · rw [← h, fixedDec_fixedEnc, Nat.mod_eq_of_lt (by exact BitVec.isLt _)]
    simp


/-! ### one physical record written by the writer, read back -/

theorem append_split {α : Type} (buf rest X T : List α) (h : buf ++ rest = X ++ T)
    (hl : X.length ≤ buf.length) : ∃ b', buf = X ++ b' ∧ T = b' ++ rest := by
  rcases List.append_eq_append_iff.mp h with ⟨a', h1, h2⟩ | ⟨c', h1, h2⟩
  · have : a' = [] := by
      have := congrArg List.length h1
      rw [List.length_append] at this
      exact List.eq_nil_of_length_eq_zero (by omega)
    subst this
    exact ⟨[], by simpa using h1.symm, by simpa using h2.symm⟩
  · exact ⟨c', h1, h2⟩

theorem parsePhys_emit (off ty : Nat) (frag T : Bytes) (st : RState)
    (hb : off + 7 + frag.length ≤ logBlockSize) (hty : ty < 256) (hty0 : ty ≠ 0)
    (hinv : RInv off (emitPhysical ty frag ++ T) st) :
    ∃ st', parsePhys true st = (Phys.data ty frag, [], st') ∧ RInv (off + 7 + frag.length) T st' := by
  obtain ⟨buf, rest, eof⟩ := st
  obtain ⟨h1, h2, h3, h4⟩ := hinv
  simp only at h1 h2 h3 h4
  have hlen : (emitPhysical ty frag).length ≤ buf.length := by
    rw [emitPhysical_length]
    by_cases hc : buf.length < logBlockSize - off
    · have := h3 (h4 hc)
      subst this
      rw [List.append_nil] at h1
      rw [h1, List.length_append, emitPhysical_length]; omega
    · omega
  obtain ⟨b', hb1, hb2⟩ := append_split _ _ _ _ h1 hlen
  obtain ⟨c0, c1, c2, c3, he, hc⟩ := emitPhysical_cons ty frag
  have hfl : frag.length < 32768 := by unfold logBlockSize at hb; omega
  have hl : (UInt8.ofNat (frag.length % 256)).toNat + 256 * (UInt8.ofNat (frag.length / 256)).toNat
      = frag.length := by
    rw [UInt8.toNat_ofNat', UInt8.toNat_ofNat']
    omega
  have ht : (UInt8.ofNat ty).toNat = ty := by
    rw [UInt8.toNat_ofNat']; omega
  subst hb1
  rw [List.length_append, emitPhysical_length] at h2 h4
  rw [he]
  simp only [List.cons_append]
  have := parsePhys_cons c0 c1 c2 c3 (UInt8.ofNat (frag.length % 256)) (UInt8.ofNat (frag.length / 256))
    (UInt8.ofNat ty) (frag ++ b') rest eof (by rw [hl]; simp) (by rw [ht]; omega)
    (by rw [hl, hc, mask_unmask, List.take_left, ← crc32c_append]; rfl)
  rw [hl, ht, List.take_left, List.drop_left] at this
  refine ⟨_, this, ⟨hb2.symm, ?_, h3, ?_⟩⟩
  · simp only; omega
  · simp only
    intro hlt; apply h4; omega

theorem refill_noop (st : RState) (h : 7 ≤ st.buffer.length ∨ st.eof = true) : refill st = st := by
  unfold refill logHeaderSize
  rcases h with h | h
  · rw [if_neg]; simp; omega
  · rw [if_neg]; simp [h]

theorem refill_pad (off : Nat) (P S' : Bytes) (st : RState) (hinv : RInv off (P ++ S') st)
    (hP : P.length = logBlockSize - off) (hc : logBlockSize - off < 7) (he : st.eof = false) :
    RInv 0 S' (refill st) := by
  obtain ⟨buf, rest, eof⟩ := st
  obtain ⟨h1, h2, h3, h4⟩ := hinv
  simp only at h1 h2 h3 h4 he
  subst he
  have hl : buf.length = P.length := by
    by_cases hlt : buf.length < logBlockSize - off
    · simpa using h4 hlt
    · omega
  obtain ⟨hb, hr⟩ := List.append_inj h1 hl
  subst hb hr
  have : refill ⟨buf, rest, false⟩ = ⟨rest.take logBlockSize, rest.drop logBlockSize,
      decide ((rest.take logBlockSize).length < logBlockSize)⟩ := by
    unfold refill logHeaderSize
    rw [if_pos]; simp; omega
  rw [this]
  refine ⟨List.take_append_drop _ _, ?_, ?_, ?_⟩
  · simp only [List.length_take]; omega
  · simp only [List.length_take, decide_eq_true_eq, List.drop_eq_nil_iff]; omega
  · simp only [List.length_take, decide_eq_true_eq]; omega

theorem padLen_eq_of_lt (off : Nat) (h : logBlockSize - off < 7) : padLen off = logBlockSize - off := by
  unfold padLen logHeaderSize; rw [if_pos h]
theorem normOff_eq_of_lt (off : Nat) (h : logBlockSize - off < 7) : normOff off = 0 := by
  unfold normOff logHeaderSize; rw [if_pos h]
theorem padLen_eq_of_ge (off : Nat) (h : ¬ logBlockSize - off < 7) : padLen off = 0 := by
  unfold padLen logHeaderSize; rw [if_neg h]
theorem normOff_eq_of_ge (off : Nat) (h : ¬ logBlockSize - off < 7) : normOff off = off := by
  unfold normOff logHeaderSize; rw [if_neg h]

theorem RInv_buffer_eq (off : Nat) (S : Bytes) (st : RState) (hinv : RInv off S st)
    (h : st.buffer.length < logBlockSize - off) : st.eof = true ∧ st.rest = [] ∧ st.buffer = S := by
  have h1 := hinv.short_eof h
  have h2 := hinv.eof_rest h1
  refine ⟨h1, h2, ?_⟩
  have := hinv.split
  rwa [h2, List.append_nil] at this

theorem readPhysical_emit (off ty : Nat) (frag T : Bytes) (st : RState) (hoff : off ≤ logBlockSize)
    (hfrag : frag.length ≤ logBlockSize - normOff off - logHeaderSize) (hty : ty < 256) (hty0 : ty ≠ 0)
    (hinv : RInv off (List.replicate (padLen off) 0 ++ (emitPhysical ty frag ++ T)) st) :
    ∃ st', readPhysical true st = (Phys.data ty frag, [], st') ∧
      RInv (normOff off + logHeaderSize + frag.length) T st' := by
  rw [readPhysical_eq]
  by_cases hc : logBlockSize - off < 7
  · rw [padLen_eq_of_lt off hc] at hinv
    rw [normOff_eq_of_lt off hc] at hfrag ⊢
    have he : st.eof = false := by
      cases h : st.eof with
      | false => rfl
      | true =>
        exfalso
        have h2 := hinv.eof_rest h
        have h1 := hinv.split
        have h3 := hinv.len_le
        rw [h2, List.append_nil] at h1
        rw [h1] at h3
        simp only [List.length_append, List.length_replicate, emitPhysical_length] at h3
        omega
    have := refill_pad off _ _ st hinv (by simp) hc he
    have hb : 0 + 7 + frag.length ≤ logBlockSize := by
      unfold logBlockSize logHeaderSize at *; omega
    exact parsePhys_emit 0 ty frag T _ hb hty hty0 this
  · rw [padLen_eq_of_ge off hc] at hinv
    rw [normOff_eq_of_ge off hc] at hfrag ⊢
    simp only [List.replicate_zero, List.nil_append] at hinv
    have hb : off + 7 + frag.length ≤ logBlockSize := by
      unfold logBlockSize logHeaderSize at *; omega
    have hl : 7 ≤ st.buffer.length := by
      by_cases hlt : st.buffer.length < logBlockSize - off
      · rw [(RInv_buffer_eq _ _ _ hinv hlt).2.2, List.length_append, emitPhysical_length]; omega
      · omega
    rw [refill_noop st (Or.inl hl)]
    exact parsePhys_emit off ty frag T _ hb hty hty0 hinv

/-- a physical record cut short by the end of the file reads as a clean EOF, no drop -/
theorem parsePhys_cut_inv (off ty m : Nat) (frag : Bytes) (st : RState)
    (hb : off + 7 + frag.length ≤ logBlockSize) (hm : m < 7 + frag.length)
    (hinv : RInv off ((emitPhysical ty frag).take m) st) :
    (parsePhys true st).1 = Phys.eof ∧ (parsePhys true st).2.1 = [] := by
  have hlt : st.buffer.length < logBlockSize - off := by
    have := congrArg List.length hinv.split
    rw [List.length_append, List.length_take, emitPhysical_length] at this
    omega
  obtain ⟨h1, h2, h3⟩ := RInv_buffer_eq _ _ _ hinv hlt
  obtain ⟨buf, rest, eof⟩ := st
  simp only at h1 h2 h3
  subst h1 h2 h3
  by_cases h7 : m < 7
  · exact parsePhys_short _ _ (by rw [List.length_take]; omega) _
  · obtain ⟨c0, c1, c2, c3, he, -⟩ := emitPhysical_cons ty frag
    obtain ⟨k, rfl⟩ : ∃ k, m = k + 7 := ⟨m - 7, by omega⟩
    rw [he]
    simp only [List.take_succ_cons]
    apply parsePhys_cut
    have hfl : frag.length < 32768 := by unfold logBlockSize at hb; omega
    rw [UInt8.toNat_ofNat', UInt8.toNat_ofNat', List.length_take]
    omega

theorem readPhysical_cut (off ty m : Nat) (frag : Bytes) (st : RState) (hoff : off ≤ logBlockSize)
    (hfrag : frag.length ≤ logBlockSize - normOff off - logHeaderSize)
    (hm : m < padLen off + 7 + frag.length)
    (hinv : RInv off ((List.replicate (padLen off) 0 ++ emitPhysical ty frag).take m) st) :
    (readPhysical true st).1 = Phys.eof ∧ (readPhysical true st).2.1 = [] := by
  rw [readPhysical_eq]
  by_cases hc : logBlockSize - off < 7
  · rw [padLen_eq_of_lt off hc] at hinv hm
    rw [normOff_eq_of_lt off hc] at hfrag
    cases he : st.eof with
    | true =>
      rw [refill_noop st (Or.inr he)]
      obtain ⟨buf, rest, eof⟩ := st
      exact parsePhys_short _ _ (by have := hinv.len_le; simp only at this; omega) _
    | false =>
      have hl : st.buffer.length = logBlockSize - off := by
        by_cases hlt : st.buffer.length < logBlockSize - off
        · have := hinv.short_eof hlt; rw [he] at this; cases this
        · have := hinv.len_le; omega
      have hm' : logBlockSize - off ≤ m := by
        have := congrArg List.length hinv.split
        rw [List.length_append, List.length_take] at this
        omega
      rw [List.take_append, List.take_of_length_le (by simp; omega)] at hinv
      simp only [List.length_replicate] at hinv
      have := refill_pad off _ _ st hinv (by simp) hc he
      have hb : 0 + 7 + frag.length ≤ logBlockSize := by
        unfold logBlockSize logHeaderSize at *; omega
      exact parsePhys_cut_inv 0 ty _ frag _ hb (by omega) this
  · rw [padLen_eq_of_ge off hc] at hinv hm
    rw [normOff_eq_of_ge off hc] at hfrag
    simp only [List.replicate_zero, List.nil_append] at hinv
    have hb : off + 7 + frag.length ≤ logBlockSize := by
      unfold logBlockSize logHeaderSize at *; omega
    have hlt : st.buffer.length < logBlockSize - off := by
      have := congrArg List.length hinv.split
      rw [List.length_append, List.length_take, emitPhysical_length] at this
      omega
    rw [refill_noop st (Or.inr (hinv.short_eof hlt))]
    exact parsePhys_cut_inv off ty m frag st hb (by omega) hinv

/-! ### one logical record written by the writer, read back -/

theorem readRecordGo_step_full (c : Bool) (fuel : Nat) (st st' : RState) (frag scratch : Bytes) (ev : List REvent)
    (h : readPhysical c st = (Phys.data tyFull frag, [], st')) :
    readRecordGo c (fuel + 1) st false scratch ev = (some frag, ev, st') := by
  simp [readRecordGo, h]

theorem readRecordGo_step_first (c : Bool) (fuel : Nat) (st st' : RState) (frag scratch : Bytes) (ev : List REvent)
    (h : readPhysical c st = (Phys.data tyFirst frag, [], st')) :
    readRecordGo c (fuel + 1) st false scratch ev = readRecordGo c fuel st' true frag ev := by
  simp [readRecordGo, h, tyFirst, tyFull]

theorem readRecordGo_step_middle (c : Bool) (fuel : Nat) (st st' : RState) (frag scratch : Bytes) (ev : List REvent)
    (h : readPhysical c st = (Phys.data tyMiddle frag, [], st')) :
    readRecordGo c (fuel + 1) st true scratch ev = readRecordGo c fuel st' true (scratch ++ frag) ev := by
  simp [readRecordGo, h, tyFirst, tyFull, tyMiddle]

theorem readRecordGo_step_last (c : Bool) (fuel : Nat) (st st' : RState) (frag scratch : Bytes) (ev : List REvent)
    (h : readPhysical c st = (Phys.data tyLast frag, [], st')) :
    readRecordGo c (fuel + 1) st true scratch ev = (some (scratch ++ frag), ev, st') := by
  simp [readRecordGo, h, tyFirst, tyFull, tyMiddle, tyLast]

theorem readRecordGo_step_eof (c : Bool) (fuel : Nat) (st : RState) (inFrag : Bool) (scratch : Bytes) (ev : List REvent)
    (h1 : (readPhysical c st).1 = Phys.eof) (h2 : (readPhysical c st).2.1 = []) :
    ∃ st', readRecordGo c (fuel + 1) st inFrag scratch ev = (none, ev, st') := by
  rcases hr : readPhysical c st with ⟨p, d, st'⟩
  rw [hr] at h1 h2
  simp only at h1 h2
  subst h1 h2
  exact ⟨st', by simp [readRecordGo, hr]⟩

theorem recType_lt (b e : Bool) : recType b e < 256 ∧ recType b e ≠ 0 := by
  cases b <;> cases e <;> decide

theorem readRecordGo_write (f : Nat) : ∀ (off : Nat) (left : Bytes) (b : Bool) (fuel : Nat) (st : RState)
    (scratch : Bytes) (ev : List REvent) (T : Bytes),
    off ≤ logBlockSize → fuelNeed off left.length ≤ f →
    RInv off ((addRecordGo f off left b).1 ++ T) st →
    ((addRecordGo f off left b).1 ++ T).length < fuel → (b = true → scratch = []) →
    ∃ st', readRecordGo true fuel st (!b) scratch ev = (some (scratch ++ left), ev, st') ∧
      RInv (addRecordGo f off left b).2 T st' := by
  induction f with
  | zero =>
    intro off left b fuel st scratch ev T _ hf
    unfold fuelNeed at hf; split at hf <;> omega
  | succ f ih =>
    intro off left b fuel st scratch ev T hoff hf hinv hfuel hsc
    have hb := normOff_bound off left.length hoff
    have hfl : fragLenAt off left.length ≤ left.length := Nat.min_le_left _ _
    have hfl2 : fragLenAt off left.length ≤ logBlockSize - normOff off - logHeaderSize := Nat.min_le_right _ _
    rw [addRecordGo_succ] at hinv hfuel ⊢
    simp only at hinv hfuel ⊢
    obtain ⟨fuel', rfl⟩ : ∃ k, fuel = k + 1 := ⟨fuel - 1, by omega⟩
    by_cases hr : (left.drop (fragLenAt off left.length)).isEmpty = true
    · rw [if_pos hr] at hinv hfuel ⊢
      simp only at hinv hfuel ⊢
      have hll : fragLenAt off left.length = left.length := by
        have : left.length ≤ fragLenAt off left.length := by simpa using hr
        omega
      rw [hll] at hinv ⊢
      rw [List.take_length, beq_self_eq_true, List.append_assoc] at hinv
      obtain ⟨st', hread, hinv'⟩ := readPhysical_emit off (recType b true) left T st hoff (by omega)
        (recType_lt b true).1 (recType_lt b true).2 hinv
      cases b with
      | false => exact ⟨st', readRecordGo_step_last true fuel' st st' left scratch ev hread, hinv'⟩
      | true =>
        rw [hsc rfl]
        exact ⟨st', readRecordGo_step_full true fuel' st st' left [] ev hread, hinv'⟩
    · rw [if_neg hr] at hinv hfuel ⊢
      simp only at hinv hfuel ⊢
      have hll : fragLenAt off left.length < left.length := by
        have : ¬ left.length ≤ fragLenAt off left.length := by simpa using hr
        omega
      have hne : (left.length == fragLenAt off left.length) = false := by
        simp; omega
      rw [hne, List.append_assoc, List.append_assoc] at hinv
      have hfl3 : (left.take (fragLenAt off left.length)).length = fragLenAt off left.length := by
        rw [List.length_take]; omega
      obtain ⟨st', hread, hinv'⟩ := readPhysical_emit off (recType b false) (left.take (fragLenAt off left.length))
        _ st hoff (by omega) (recType_lt b false).1 (recType_lt b false).2 hinv
      rw [hfl3] at hinv'
      have hf' := fuelNeed_step off left.length f hoff (by omega) hf
      rw [← List.length_drop] at hf'
      have hfuel' : ((addRecordGo f (normOff off + logHeaderSize + fragLenAt off left.length)
          (left.drop (fragLenAt off left.length)) false).1 ++ T).length < fuel' := by
        rw [hne] at hfuel
        simp only [List.length_append, emitPhysical_length] at hfuel ⊢
        omega
      cases b with
      | false =>
        obtain ⟨st'', hgo, hinv''⟩ := ih _ _ false fuel' st' (scratch ++ left.take (fragLenAt off left.length))
          ev T hb hf' hinv' hfuel' (by simp)
        refine ⟨st'', ?_, hinv''⟩
        rw [Bool.not_false] at hgo ⊢
        rw [readRecordGo_step_middle true fuel' st st' _ scratch ev hread, hgo, List.append_assoc,
          List.take_append_drop]
      | true =>
        obtain ⟨st'', hgo, hinv''⟩ := ih _ _ false fuel' st' (left.take (fragLenAt off left.length))
          ev T hb hf' hinv' hfuel' (by simp)
        refine ⟨st'', ?_, hinv''⟩
        rw [Bool.not_false] at hgo
        rw [hsc rfl, Bool.not_true]
        rw [readRecordGo_step_first true fuel' st st' _ [] ev hread, hgo, List.take_append_drop]
        rfl

theorem readRecordGo_cut (f : Nat) : ∀ (off : Nat) (left : Bytes) (b : Bool) (fuel : Nat) (st : RState)
    (scratch : Bytes) (ev : List REvent) (m : Nat),
    off ≤ logBlockSize → fuelNeed off left.length ≤ f →
    RInv off ((addRecordGo f off left b).1.take m) st →
    m < (addRecordGo f off left b).1.length → m < fuel →
    ∃ st', readRecordGo true fuel st (!b) scratch ev = (none, ev, st') := by
  induction f with
  | zero =>
    intro off left b fuel st scratch ev m _ hf
    unfold fuelNeed at hf; split at hf <;> omega
  | succ f ih =>
    intro off left b fuel st scratch ev m hoff hf hinv hm hfuel
    have hb := normOff_bound off left.length hoff
    have hfl : fragLenAt off left.length ≤ left.length := Nat.min_le_left _ _
    have hfl2 : fragLenAt off left.length ≤ logBlockSize - normOff off - logHeaderSize := Nat.min_le_right _ _
    have hfl3 : (left.take (fragLenAt off left.length)).length = fragLenAt off left.length := by
      rw [List.length_take]; omega
    obtain ⟨fuel', rfl⟩ : ∃ k, fuel = k + 1 := ⟨fuel - 1, by omega⟩
    rw [addRecordGo_succ] at hinv hm
    simp only at hinv hm
    generalize hty : recType b (left.length == fragLenAt off left.length) = ty at hinv hm
    have htyb : ty < 256 ∧ ty ≠ 0 := hty ▸ recType_lt _ _
    by_cases hc : m < padLen off + 7 + fragLenAt off left.length
    · -- the cut falls inside the first physical record
      have hS : ∀ X : Bytes, ((List.replicate (padLen off) (0 : UInt8) ++
            emitPhysical ty (left.take (fragLenAt off left.length))) ++ X).take m =
          (List.replicate (padLen off) (0 : UInt8) ++
            emitPhysical ty (left.take (fragLenAt off left.length))).take m := by
        intro X
        rw [List.take_append_of_le_length]
        simp only [List.length_append, List.length_replicate, emitPhysical_length, hfl3]; omega
      have hinv2 : RInv off ((List.replicate (padLen off) (0 : UInt8) ++
            emitPhysical ty (left.take (fragLenAt off left.length))).take m) st := by
        split at hinv
        · exact hinv
        · simp only at hinv; rwa [hS] at hinv
      obtain ⟨h1, h2⟩ := readPhysical_cut off ty m _ st hoff (by omega) (by omega) hinv2
      exact readRecordGo_step_eof true fuel' st _ scratch ev h1 h2
    · by_cases hr : (left.drop (fragLenAt off left.length)).isEmpty = true
      · rw [if_pos hr] at hm
        simp only [List.length_append, List.length_replicate, emitPhysical_length, hfl3] at hm
        omega
      · rw [if_neg hr] at hinv hm
        simp only at hinv hm
        have hll : fragLenAt off left.length < left.length := by
          have : ¬ left.length ≤ fragLenAt off left.length := by simpa using hr
          omega
        have hne : (left.length == fragLenAt off left.length) = false := by
          simp; omega
        rw [hne] at hty
        have hlen : (List.replicate (padLen off) (0 : UInt8) ++
            emitPhysical ty (left.take (fragLenAt off left.length))).length
            = padLen off + 7 + fragLenAt off left.length := by
          simp only [List.length_append, List.length_replicate, emitPhysical_length, hfl3]; omega
        rw [List.take_append, List.take_of_length_le (by omega), hlen, List.append_assoc] at hinv
        obtain ⟨st', hread, hinv'⟩ := readPhysical_emit off ty (left.take (fragLenAt off left.length))
          _ st hoff (by omega) htyb.1 htyb.2 hinv
        rw [hfl3] at hinv'
        have hf' := fuelNeed_step off left.length f hoff (by omega) hf
        rw [← List.length_drop] at hf'
        rw [List.length_append, hlen] at hm
        cases b with
        | false =>
          obtain ⟨st'', hgo⟩ := ih _ _ false fuel' st' (scratch ++ left.take (fragLenAt off left.length))
            ev _ hb hf' hinv' (by omega) (by omega)
          refine ⟨st'', ?_⟩
          rw [Bool.not_false] at hgo ⊢
          subst hty
          rw [readRecordGo_step_middle true fuel' st st' _ scratch ev hread, hgo]
        | true =>
          obtain ⟨st'', hgo⟩ := ih _ _ false fuel' st' (left.take (fragLenAt off left.length))
            ev _ hb hf' hinv' (by omega) (by omega)
          refine ⟨st'', ?_⟩
          rw [Bool.not_false] at hgo
          subst hty
          rw [Bool.not_true, readRecordGo_step_first true fuel' st st' _ scratch ev hread, hgo]

/-! ### all records, possibly truncated file -/

theorem readPhysical_nil (off : Nat) (st : RState) (hinv : RInv off [] st) :
    (readPhysical true st).1 = Phys.eof ∧ (readPhysical true st).2.1 = [] := by
  obtain ⟨buf, rest, eof⟩ := st
  have := hinv.split
  simp only [List.append_eq_nil_iff] at this
  obtain ⟨rfl, rfl⟩ := this
  cases eof <;> simp [readPhysical, logHeaderSize, logBlockSize]

theorem addRecordGo_length_ge (f off : Nat) (left : Bytes) (b : Bool) :
    7 ≤ (addRecordGo (f + 1) off left b).1.length := by
  rw [addRecordGo_succ]
  simp only
  split <;> simp only [List.length_append, emitPhysical_length] <;> omega

/-- number of leading records of `rs` (written from block offset `off`) that lie wholly within the
    first `n` bytes -/
def wholeFrom (off : Nat) : List Bytes → Nat → Nat
  | [], _ => 0
  | r :: rs, n =>
    if (addRecord off r).1.length ≤ n then
      1 + wholeFrom (addRecord off r).2 rs (n - (addRecord off r).1.length)
    else 0

theorem readAllGo_succ (c : Bool) (fuel : Nat) (st : RState) (ev : List REvent) :
    readAllGo c (fuel + 1) st ev =
      match readRecordGo c (fuel + 1) st false [] [] with
      | (some r, ev', st') => readAllGo c fuel st' (ev ++ ev' ++ [REvent.record r])
      | (none, ev', _) => ev ++ ev' := rfl

theorem readAllGo_write (rs : List Bytes) : ∀ (off n : Nat) (st : RState) (fuel : Nat) (ev : List REvent),
    off ≤ logBlockSize → RInv off ((writeFrom off rs).take n) st →
    ((writeFrom off rs).take n).length + 2 ≤ fuel →
    readAllGo true fuel st ev = ev ++ (rs.take (wholeFrom off rs n)).map REvent.record := by
  induction rs with
  | nil =>
    intro off n st fuel ev hoff hinv hfuel
    obtain ⟨k, rfl⟩ : ∃ k, fuel = k + 1 := ⟨fuel - 1, by omega⟩
    simp only [writeFrom, List.take_nil] at hinv
    obtain ⟨h1, h2⟩ := readPhysical_nil off st hinv
    obtain ⟨st', hgo⟩ := readRecordGo_step_eof true k st false [] [] h1 h2
    rw [readAllGo_succ, hgo]
    simp
  | cons r rs ih =>
    intro off n st fuel ev hoff hinv hfuel
    obtain ⟨k, rfl⟩ : ∃ k, fuel = k + 1 := ⟨fuel - 1, by omega⟩
    simp only [writeFrom] at hinv hfuel
    have h7 : 7 ≤ (addRecord off r).1.length := addRecordGo_length_ge _ _ _ _
    by_cases hc : (addRecord off r).1.length ≤ n
    · rw [List.take_append, List.take_of_length_le hc] at hinv hfuel
      rw [List.length_append] at hfuel
      obtain ⟨st', hgo, hinv'⟩ := readRecordGo_write (r.length + 2) off r true (k + 1) st [] [] _ hoff
        (fuelNeed_le _ _) hinv (by rw [List.length_append]; unfold addRecord at hfuel ⊢; omega) (fun _ => rfl)
      rw [readAllGo_succ]
      simp only [Bool.not_true, List.nil_append] at hgo
      rw [hgo]
      simp only
      rw [ih _ _ st' k _ (addRecord_off_le' off r hoff) hinv' (by omega)]
      simp only [wholeFrom, if_pos hc, Nat.add_comm 1, List.take_succ_cons, List.map_cons,
        List.append_nil, List.append_assoc, List.cons_append, List.nil_append]
    · have hlt : n < (addRecord off r).1.length := by omega
      rw [List.take_append_of_le_length (by omega)] at hinv
      obtain ⟨st', hgo⟩ := readRecordGo_cut (r.length + 2) off r true (k + 1) st [] [] n hoff
        (fuelNeed_le _ _) hinv hlt (by
          rw [List.take_append_of_le_length (by omega), List.length_take] at hfuel; omega)
      simp only [Bool.not_true] at hgo
      rw [readAllGo_succ, hgo]
      simp [wholeFrom, if_neg hc]

theorem wholeFrom_ge (rs : List Bytes) : ∀ (off n : Nat), (writeFrom off rs).length ≤ n →
    wholeFrom off rs n = rs.length := by
  induction rs with
  | nil => intros; rfl
  | cons r rs ih =>
    intro off n h
    simp only [writeFrom, List.length_append] at h
    simp only [wholeFrom]
    rw [if_pos (by omega), ih _ _ (by omega), List.length_cons]; omega

theorem wholeFrom_off_block (rs : List Bytes) (n : Nat) : wholeFrom logBlockSize rs n = wholeFrom 0 rs n := by
  cases rs with
  | nil => rfl
  | cons r rs => simp only [wholeFrom, addRecord_off_block]

/-- cumulative end offsets of the records `rs` written from block offset `off`:
    entry `i` is the length of the output for `rs.take (i+1)` -/
def recordEnds (off : Nat) (rs : List Bytes) : List Nat :=
  (List.range rs.length).map fun i => (writeFrom off (rs.take (i + 1))).length

theorem recordEnds_cons (off : Nat) (r : Bytes) (rs : List Bytes) :
    recordEnds off (r :: rs) = (addRecord off r).1.length ::
      (recordEnds (addRecord off r).2 rs).map ((addRecord off r).1.length + ·) := by
  unfold recordEnds
  rw [List.length_cons, List.range_succ_eq_map, List.map_cons, List.map_map, List.map_map]
  congr 1
  · simp [writeFrom]
  · apply List.map_congr_left
    intro i _
    simp [writeFrom]

theorem wholeFrom_eq (rs : List Bytes) : ∀ (off n : Nat),
    wholeFrom off rs n = ((recordEnds off rs).filter (· ≤ n)).length := by
  induction rs with
  | nil => intros; rfl
  | cons r rs ih =>
    intro off n
    rw [recordEnds_cons]
    simp only [wholeFrom]
    by_cases hc : (addRecord off r).1.length ≤ n
    · rw [if_pos hc, List.filter_cons_of_pos (by simpa using hc), List.length_cons, List.filter_map,
        List.length_map, ih]
      rw [Nat.add_comm]
      congr 2
      apply List.filter_congr
      intro x _
      simp only [Function.comp, decide_eq_decide]
      omega
    · rw [if_neg hc, List.filter_cons_of_neg (by simpa using hc)]
      symm
      rw [List.length_eq_zero_iff, List.filter_eq_nil_iff]
      intro x hx
      simp only [List.mem_map] at hx
      obtain ⟨y, _, rfl⟩ := hx
      simp only [decide_eq_true_eq]; omega

theorem recordsOf_map_record (l : List Bytes) : recordsOf (l.map REvent.record) = l := by
  induction l with
  | nil => rfl
  | cons a l ih => simp only [List.map_cons, recordsOf, List.filterMap_cons] at ih ⊢; rw [ih]

theorem dropsOf_map_record (l : List Bytes) : dropsOf (l.map REvent.record) = [] := by
  induction l with
  | nil => rfl
  | cons a l ih => simp only [List.map_cons, dropsOf, List.filterMap_cons] at ih ⊢; rw [ih]

/-! ### soundness of the reader on arbitrary bytes -/

theorem fixedDec_lt (bs : Bytes) : fixedDec bs < 256 ^ bs.length := by
  induction bs with
  | nil => simp [fixedDec]
  | cons b bs ih =>
    simp only [fixedDec, List.length_cons, Nat.pow_succ]
    have := UInt8.toNat_lt_size b
    simp only [UInt8.size] at this
    omega

theorem fixedEnc_fixedDec (bs : Bytes) : fixedEnc bs.length (fixedDec bs) = bs := by
  induction bs with
  | nil => rfl
  | cons b bs ih =>
    have hb := UInt8.toNat_lt_size b
    simp only [UInt8.size] at hb
    simp only [fixedDec, List.length_cons, fixedEnc]
    have h1 : (b.toNat + 256 * fixedDec bs) % 256 = b.toNat := by omega
    have h2 : (b.toNat + 256 * fixedDec bs) / 256 = fixedDec bs := by omega
    rw [h1, h2, ih, UInt8.ofNat_toNat]

theorem exists_cons7 (buf : Bytes) (h : 7 ≤ buf.length) : ∃ c0 c1 c2 c3 l0 l1 t body,
    buf = c0 :: c1 :: c2 :: c3 :: l0 :: l1 :: t :: body := by
  rcases buf with _ | ⟨c0, _ | ⟨c1, _ | ⟨c2, _ | ⟨c3, _ | ⟨l0, _ | ⟨l1, _ | ⟨t, body⟩⟩⟩⟩⟩⟩⟩ <;>
    simp only [List.length_cons, List.length_nil] at h <;> try omega
  exact ⟨_, _, _, _, _, _, _, _, rfl⟩

/-- what a successfully parsed physical record looks like in the buffer -/
theorem parsePhys_data (st st' : RState) (ty : Nat) (payload : Bytes) (d : List REvent)
    (h : parsePhys true st = (Phys.data ty payload, d, st')) :
    d = [] ∧ st.buffer = emitPhysical ty payload ++ st'.buffer ∧ st'.rest = st.rest := by
  obtain ⟨buf, rest, eof⟩ := st
  unfold parsePhys at h
  simp only [logHeaderSize] at h
  split at h
  · simp at h
  rename_i h7
  split at h
  · split at h <;> simp at h
  rename_i hlen
  split at h
  · simp at h
  split at h
  · simp at h
  rename_i hcrc
  simp only [Prod.mk.injEq, Phys.data.injEq] at h
  obtain ⟨⟨rfl, rfl⟩, rfl, rfl⟩ := h
  refine ⟨rfl, ?_, rfl⟩
  simp only
  obtain ⟨c0, c1, c2, c3, l0, l1, t, body, rfl⟩ := exists_cons7 buf (by omega)
  have e1 : ∀ n, List.take (1 + n) (List.drop 6 (c0 :: c1 :: c2 :: c3 :: l0 :: l1 :: t :: body))
      = t :: List.take n body := by
    intro n; rw [Nat.add_comm 1]; rfl
  have e2 : ∀ n, List.drop (7 + n) (c0 :: c1 :: c2 :: c3 :: l0 :: l1 :: t :: body) = List.drop n body := by
    intro n; rw [Nat.add_comm 7]; rfl
  simp only [List.getD_cons_succ, List.getD_cons_zero, e1, e2] at hlen hcrc ⊢
  simp only [List.take_succ_cons, List.take_zero, List.drop_succ_cons, List.drop_zero,
    List.length_cons] at hlen hcrc ⊢
  generalize hn : l0.toNat + 256 * l1.toNat = n at hlen hcrc ⊢
  have hl0 := UInt8.toNat_lt_size l0
  have hl1 := UInt8.toNat_lt_size l1
  simp only [UInt8.size] at hl0 hl1
  have hnl : (List.take n body).length = n := by rw [List.length_take]; omega
  have hcrc' : crc32c (t :: List.take n body) = crcUnmask (BitVec.ofNat 32 (fixedDec [c0, c1, c2, c3])) := by
    simpa using hcrc
  rw [emitPhysical_eq, hnl, UInt8.ofNat_toNat, ← crc32c_append, List.singleton_append, hcrc', unmask_mask,
    BitVec.toNat_ofNat, Nat.mod_eq_of_lt (by have := fixedDec_lt [c0, c1, c2, c3]; simpa using this)]
  have h4 := fixedEnc_fixedDec [c0, c1, c2, c3]
  simp only [List.length_cons, List.length_nil] at h4
  rw [h4]
  have h5 : n % 256 = l0.toNat := by omega
  have h6 : n / 256 = l1.toNat := by omega
  rw [h5, h6, UInt8.ofNat_toNat, UInt8.ofNat_toNat]
  simp only [List.cons_append, List.nil_append, List.take_append_drop]
  

/-- the unconsumed input of the reader is a suffix of the source -/
def SrcInv (src : Bytes) (st : RState) : Prop := st.buffer ++ st.rest <:+ src

theorem refill_src (src : Bytes) (st : RState) (h : SrcInv src st) : SrcInv src (refill st) := by
  unfold refill
  split
  · unfold SrcInv at *
    simp only [List.take_append_drop]
    exact List.IsSuffix.trans (List.suffix_append _ _) h
  · exact h

theorem parsePhys_suffix (c : Bool) (st : RState) :
    (parsePhys c st).2.2.buffer <:+ st.buffer ∧ (parsePhys c st).2.2.rest = st.rest := by
  unfold parsePhys
  simp only
  repeat' split
  all_goals simp [List.drop_suffix]

theorem parsePhys_drops (c : Bool) (st : RState) : recordsOf (parsePhys c st).2.1 = [] := by
  unfold parsePhys
  simp only
  repeat' split
  all_goals simp [recordsOf]

theorem readPhysical_sound (src : Bytes) (st : RState) (h : SrcInv src st) :
    SrcInv src (readPhysical true st).2.2 ∧ recordsOf (readPhysical true st).2.1 = [] ∧
    ∀ ty payload, (readPhysical true st).1 = Phys.data ty payload → emitPhysical ty payload <:+: src := by
  rw [readPhysical_eq]
  have h1 := refill_src src st h
  generalize refill st = st1 at h1
  obtain ⟨hs1, hs2⟩ := parsePhys_suffix true st1
  refine ⟨?_, parsePhys_drops true st1, ?_⟩
  · unfold SrcInv at *
    rw [hs2]
    obtain ⟨pre, hpre⟩ := hs1
    refine List.IsSuffix.trans ⟨pre, ?_⟩ h1
    rw [← hpre, List.append_assoc]
  · intro ty payload hp
    rcases hr : parsePhys true st1 with ⟨p, d, st'⟩
    rw [hr] at hp
    simp only at hp
    subst hp
    obtain ⟨-, hb, -⟩ := parsePhys_data st1 st' ty payload d hr
    unfold SrcInv at h1
    obtain ⟨pre, hpre⟩ := h1
    refine ⟨pre, st'.buffer ++ st1.rest, ?_⟩
    rw [← hpre, hb]
    simp only [List.append_assoc]

/-- type pattern of the fragments of one logical record: FULL, or FIRST MIDDLE* LAST -/
def ChainTypes (tys : List Nat) : Prop :=
  tys = [tyFull] ∨ ∃ k, tys = tyFirst :: (List.replicate k tyMiddle ++ [tyLast])

/-- `r` is the concatenation of the payloads of a well-typed chain of physical records, each of which
    occurs verbatim (header with valid masked CRC, length, type, payload) in `src` -/
def GoodRec (src r : Bytes) : Prop :=
  ∃ frags : List (Nat × Bytes), r = (frags.map (·.2)).flatten ∧ ChainTypes (frags.map (·.1)) ∧
    ∀ f ∈ frags, emitPhysical f.1 f.2 <:+: src

def PartialRec (src scratch : Bytes) : Prop :=
  ∃ (frags : List (Nat × Bytes)) (k : Nat), scratch = (frags.map (·.2)).flatten ∧
    frags.map (·.1) = tyFirst :: List.replicate k tyMiddle ∧
    ∀ f ∈ frags, emitPhysical f.1 f.2 <:+: src

theorem GoodRec_full (src frag : Bytes) (h : emitPhysical tyFull frag <:+: src) : GoodRec src frag :=
  ⟨[(tyFull, frag)], by simp, Or.inl rfl, by simpa using h⟩

theorem PartialRec_first (src frag : Bytes) (h : emitPhysical tyFirst frag <:+: src) : PartialRec src frag :=
  ⟨[(tyFirst, frag)], 0, by simp, rfl, by simpa using h⟩

theorem PartialRec_middle (src s frag : Bytes) (hs : PartialRec src s)
    (h : emitPhysical tyMiddle frag <:+: src) : PartialRec src (s ++ frag) := by
  obtain ⟨frags, k, h1, h2, h3⟩ := hs
  refine ⟨frags ++ [(tyMiddle, frag)], k + 1, ?_, ?_, ?_⟩
  · simp [h1]
  · rw [List.map_append, h2, List.replicate_succ']; rfl
  · intro f hf
    rcases List.mem_append.mp hf with hf | hf
    · exact h3 f hf
    · simp only [List.mem_singleton] at hf; subst hf; exact h

theorem GoodRec_last (src s frag : Bytes) (hs : PartialRec src s)
    (h : emitPhysical tyLast frag <:+: src) : GoodRec src (s ++ frag) := by
  obtain ⟨frags, k, h1, h2, h3⟩ := hs
  refine ⟨frags ++ [(tyLast, frag)], ?_, Or.inr ⟨k, ?_⟩, ?_⟩
  · simp [h1]
  · rw [List.map_append, h2]; rfl
  · intro f hf
    rcases List.mem_append.mp hf with hf | hf
    · exact h3 f hf
    · simp only [List.mem_singleton] at hf; subst hf; exact h

theorem recordsOf_append (a b : List REvent) : recordsOf (a ++ b) = recordsOf a ++ recordsOf b := by
  simp [recordsOf]

theorem recordsOf_drop (n : Nat) : recordsOf [REvent.drop n] = [] := rfl

theorem recordsOf_append_drop (a : List REvent) (n : Nat) : recordsOf (a ++ [REvent.drop n]) = recordsOf a := by
  simp [recordsOf_append, recordsOf_drop]

theorem recordsOf_ite_drop (c : Prop) [Decidable c] (a : List REvent) (n : Nat) :
    recordsOf (if c then a ++ [REvent.drop n] else a) = recordsOf a := by
  split <;> simp [recordsOf_append_drop]

def RRPost (src : Bytes) (ev : List REvent) (res : Option Bytes × List REvent × RState) : Prop :=
  SrcInv src res.2.2 ∧ recordsOf res.2.1 = recordsOf ev ∧ ∀ r, res.1 = some r → GoodRec src r

theorem readRecordGo_sound (src : Bytes) (fuel : Nat) : ∀ (st : RState) (inFrag : Bool) (scratch : Bytes)
    (ev : List REvent), SrcInv src st → (inFrag = true → PartialRec src scratch) →
    RRPost src ev (readRecordGo true fuel st inFrag scratch ev) := by
  induction fuel with
  | zero =>
    intro st inFrag scratch ev hsrc _
    exact ⟨hsrc, rfl, by simp [readRecordGo]⟩
  | succ fuel ih =>
    intro st inFrag scratch ev hsrc hpart
    obtain ⟨h1, h2, h3⟩ := readPhysical_sound src st hsrc
    rcases hp : readPhysical true st with ⟨p, d, st'⟩
    rw [hp] at h1 h2 h3
    simp only at h1 h2 h3
    have hevd : recordsOf (ev ++ d) = recordsOf ev := by rw [recordsOf_append, h2, List.append_nil]
    have key : ∀ (inFrag' : Bool) (scratch' : Bytes) (ev' : List REvent),
        (inFrag' = true → PartialRec src scratch') → recordsOf ev' = recordsOf ev →
        RRPost src ev (readRecordGo true fuel st' inFrag' scratch' ev') := by
      intro inFrag' scratch' ev' hp' hev
      have := ih st' inFrag' scratch' ev' h1 hp'
      exact ⟨this.1, this.2.1.trans hev, this.2.2⟩
    have keyRet : ∀ (o : Option Bytes) (ev' : List REvent), recordsOf ev' = recordsOf ev →
        (∀ r, o = some r → GoodRec src r) → RRPost src ev (o, ev', st') :=
      fun o ev' hev hg => ⟨h1, hev, hg⟩
    simp only [readRecordGo, hp]
    cases p with
    | eof => exact keyRet _ _ hevd (by simp)
    | bad =>
      simp only
      split
      · exact key _ _ _ (by simp) (by rw [recordsOf_append_drop, hevd])
      · rename_i hif
        exact key _ _ _ (by intro h; exact absurd h hif) hevd
    | data ty frag =>
      have hinf := h3 ty frag rfl
      simp only
      split
      · rename_i hty
        have := eq_of_beq hty; subst this
        refine keyRet _ _ (by rw [recordsOf_ite_drop, hevd]) ?_
        intro r hr
        simp only [Option.some.injEq] at hr; subst hr
        exact GoodRec_full src frag hinf
      split
      · rename_i hty
        have := eq_of_beq hty; subst this
        exact key _ _ _ (fun _ => PartialRec_first src frag hinf) (by rw [recordsOf_ite_drop, hevd])
      split
      · rename_i hty
        have := eq_of_beq hty; subst this
        split
        · rename_i hif
          exact key _ _ _ (by intro h; simp [h] at hif) (by rw [recordsOf_append_drop, hevd])
        · rename_i hif
          have hin : inFrag = true := by simpa using hif
          exact key _ _ _ (fun _ => PartialRec_middle src scratch frag (hpart hin) hinf) hevd
      split
      · rename_i hty
        have := eq_of_beq hty; subst this
        split
        · rename_i hif
          exact key _ _ _ (by intro h; simp [h] at hif) (by rw [recordsOf_append_drop, hevd])
        · rename_i hif
          have hin : inFrag = true := by simpa using hif
          refine keyRet _ _ hevd ?_
          intro r hr
          simp only [Option.some.injEq] at hr; subst hr
          exact GoodRec_last src scratch frag (hpart hin) hinf
      split
      · exact keyRet _ _ hevd (by simp)
      split
      · split
        · exact key _ _ _ (by simp) (by rw [recordsOf_append_drop, hevd])
        · rename_i hif
          exact key _ _ _ (by intro h; exact absurd h hif) hevd
      · exact key _ _ _ (by simp) (by rw [recordsOf_append_drop, hevd])

theorem readAllGo_sound (src : Bytes) (fuel : Nat) : ∀ (st : RState) (ev : List REvent),
    SrcInv src st → (∀ r ∈ recordsOf ev, GoodRec src r) →
    ∀ r ∈ recordsOf (readAllGo true fuel st ev), GoodRec src r := by
  induction fuel with
  | zero => intro st ev _ hev; exact hev
  | succ fuel ih =>
    intro st ev hsrc hev
    have post := readRecordGo_sound src (fuel + 1) st false [] [] hsrc (by simp)
    rw [readAllGo_succ]
    rcases hr : readRecordGo true (fuel + 1) st false [] [] with ⟨o, ev', st'⟩
    rw [hr] at post
    obtain ⟨p1, p2, p3⟩ := post
    simp only at p1 p2 p3
    have p2' : recordsOf ev' = [] := p2
    cases o with
    | none =>
      simp only
      rw [recordsOf_append, p2', List.append_nil]
      exact hev
    | some r =>
      simp only
      apply ih st' _ p1
      intro x hx
      rw [recordsOf_append, recordsOf_append, p2', List.append_nil] at hx
      rcases List.mem_append.mp hx with hx | hx
      · exact hev x hx
      · have : x = r := by simpa [recordsOf] using hx
        subst this
        exact p3 x rfl

end Lcdb
