/-
  The handle table of src/util/cache.c (`lru_table_t`, model in Model/LruHTable.lean) is a finite map
  from (key, hash) to entry: invariant `Inv`, abstraction `abs`, and the refinement theorem `is_map`
  for every sequence of insert / remove / lookup (with the resizes the inserts trigger).
-/
import LcdbModel.Model.LruHTable
namespace Lcdb.LruCache.HTable

/-! ## reference finite map -/

/-- reference finite map -/
abbrev RefMap := Bytes × Nat → Option Nat

def refApply (m : RefMap) : HOp → RefMap × Option Nat
  | .insert k h id => (fun p => if p = (k, h) then some id else m p, m (k, h))
  | .remove k h => (fun p => if p = (k, h) then none else m p, m (k, h))
  | .lookup k h => (m, m (k, h))

def refRun : RefMap → List HOp → RefMap × List (Option Nat)
  | m, [] => (m, [])
  | m, op :: ops => let (m', r) := refApply m op; let (m'', rs) := refRun m' ops; (m'', r :: rs)

/-! ## invariant -/

/-- what the table matches on -/
def Node.kh (n : Node) : Bytes × Nat := (n.key, n.hash)

/-- The invariant that holds at every point, also between the `elems++` and the resize of an insert
    (where `elems` may exceed `length`). -/
structure Inv' (t : HTable) : Prop where
  /-- `length > 0`, so `hash & (length - 1) < length`: no out-of-bounds bucket read -/
  pos : 0 < t.buckets.length
  /-- every node hangs in the bucket of its hash -/
  home : ∀ i b, t.buckets[i]? = some b → ∀ n ∈ b, idx n.hash t.buckets.length = i
  /-- no two nodes anywhere in the table with the same (key, hash) -/
  nodup : (t.buckets.flatten.map Node.kh).Nodup
  /-- the C `assert(tbl->elems == count)` of `lru_table_resize` -/
  count : t.elems = t.buckets.flatten.length

/-- Well-formedness of the table between operations. -/
structure Inv (t : HTable) : Prop extends Inv' t where
  /-- load factor ≤ 1 after every operation.  The doubling loop of the model has fuel for 64 doublings
      from 4, so the statement is capped at `2^66` buckets (`elems` is a `uint32_t` in C: see `Inv.load_le`). -/
  load : min t.elems (2 ^ 66) ≤ t.buckets.length
  /-- the bucket count is a power of two, at least 4 (`hash & (length - 1)` is then `hash % length`) -/
  pow2 : ∃ k, t.buckets.length = 2 ^ k ∧ 2 ≤ k

def abs (t : HTable) : RefMap := fun p => (lookup t p.1 p.2).map (·.id)

theorem Inv.load_le {t : HTable} (h : Inv t) (he : t.elems ≤ 2 ^ 66) : t.elems ≤ t.buckets.length := by
  have := h.load; omega

/-! ## chains -/

theorem Node.is_iff (n : Node) (k : Bytes) (h : Nat) : n.is k h = true ↔ n.kh = (k, h) := by
  simp [Node.is, Node.kh]; exact And.comm

theorem idx_lt {h len : Nat} (hl : 0 < len) : idx h len < len := by
  have : idx h len ≤ len - 1 := Nat.and_le_right
  omega

abbrev ChainOk (b : List Node) : Prop := (b.map Node.kh).Nodup

theorem chainFind_some_mem {k h n} {b : List Node} (hf : chainFind k h b = some n) : n ∈ b ∧ n.kh = (k, h) := by
  induction b with
  | nil => simp [chainFind] at hf
  | cons m rest ih =>
    simp only [chainFind] at hf
    split at hf
    · rename_i hm
      cases hf
      exact ⟨by simp, (Node.is_iff _ _ _).1 hm⟩
    · have := ih hf
      exact ⟨by simp [this.1], this.2⟩

theorem chainFind_of_mem {k h n} {b : List Node} (hb : ChainOk b) (hn : n ∈ b) (hk : n.kh = (k, h)) :
    chainFind k h b = some n := by
  induction b with
  | nil => simp at hn
  | cons m rest ih =>
    simp only [chainFind]
    simp only [ChainOk, List.map_cons, List.nodup_cons, List.mem_map, not_exists, not_and] at hb
    split
    · rename_i hm
      rw [Node.is_iff] at hm
      rcases List.mem_cons.1 hn with rfl | hr
      · rfl
      · exact absurd (hk.trans hm.symm) (hb.1 n hr)
    · rename_i hm
      rw [Node.is_iff] at hm
      rcases List.mem_cons.1 hn with rfl | hr
      · exact absurd hk hm
      · exact ih hb.2 hr

theorem chainFind_eq_some_iff {k h n} {b : List Node} (hb : ChainOk b) :
    chainFind k h b = some n ↔ n ∈ b ∧ n.kh = (k, h) :=
  ⟨chainFind_some_mem, fun ⟨h1, h2⟩ => chainFind_of_mem hb h1 h2⟩

theorem mem_chainInsert {x n} {b : List Node} (hb : ChainOk b) :
    n ∈ chainInsert x b ↔ n = x ∨ (n ∈ b ∧ n.kh ≠ x.kh) := by
  induction b with
  | nil => simp [chainInsert]
  | cons m rest ih =>
    simp only [ChainOk, List.map_cons, List.nodup_cons, List.mem_map, not_exists, not_and] at hb
    simp only [chainInsert]
    split
    · rename_i hm
      rw [Node.is_iff] at hm
      simp only [List.mem_cons]
      constructor
      · rintro (h | h)
        · exact .inl h
        · exact .inr ⟨.inr h, fun hc => hb.1 n h (hc.trans hm.symm)⟩
      · rintro (h | ⟨h | h, hne⟩)
        · exact .inl h
        · subst h; exact absurd hm hne
        · exact .inr h
    · rename_i hm
      rw [Node.is_iff] at hm
      simp only [List.mem_cons, ih hb.2]
      constructor
      · rintro (h | h | h)
        · subst h; exact .inr ⟨.inl rfl, hm⟩
        · exact .inl h
        · exact .inr ⟨.inr h.1, h.2⟩
      · rintro (h | ⟨h | h, hne⟩)
        · exact .inr (.inl h)
        · exact .inl h
        · exact .inr (.inr ⟨h, hne⟩)

theorem chainInsert_ok {x} {b : List Node} (hb : ChainOk b) : ChainOk (chainInsert x b) := by
  induction b with
  | nil => simp [chainInsert, ChainOk]
  | cons m rest ih =>
    have hb' := hb
    simp only [ChainOk, List.map_cons, List.nodup_cons, List.mem_map, not_exists, not_and] at hb'
    simp only [chainInsert]
    split
    · rename_i hm
      rw [Node.is_iff] at hm
      simp only [ChainOk, List.map_cons, List.nodup_cons, List.mem_map, not_exists, not_and]
      exact ⟨fun a ha hc => hb'.1 a ha (hc.trans hm.symm), hb'.2⟩
    · rename_i hm
      rw [Node.is_iff] at hm
      simp only [ChainOk, List.map_cons, List.nodup_cons, List.mem_map, not_exists, not_and]
      refine ⟨fun a ha hc => ?_, ih hb'.2⟩
      rcases (mem_chainInsert hb'.2).1 ha with rfl | ⟨h1, _⟩
      · exact hm hc.symm
      · exact hb'.1 a h1 hc

theorem length_chainInsert {x} {b : List Node} :
    (chainInsert x b).length = if (chainFind x.key x.hash b).isSome then b.length else b.length + 1 := by
  induction b with
  | nil => simp [chainInsert, chainFind]
  | cons m rest ih =>
    simp only [chainInsert, chainFind]
    split
    · simp
    · simp only [List.length_cons, ih]; split <;> rfl

theorem mem_chainRemove {k h n} {b : List Node} (hb : ChainOk b) :
    n ∈ chainRemove k h b ↔ n ∈ b ∧ n.kh ≠ (k, h) := by
  induction b with
  | nil => simp [chainRemove]
  | cons m rest ih =>
    simp only [ChainOk, List.map_cons, List.nodup_cons, List.mem_map, not_exists, not_and] at hb
    simp only [chainRemove]
    split
    · rename_i hm
      rw [Node.is_iff] at hm
      simp only [List.mem_cons]
      constructor
      · intro h'
        exact ⟨.inr h', fun hc => hb.1 n h' (hc.trans hm.symm)⟩
      · rintro ⟨h' | h', hne⟩
        · subst h'; exact absurd hm hne
        · exact h'
    · rename_i hm
      rw [Node.is_iff] at hm
      simp only [List.mem_cons, ih hb.2]
      constructor
      · rintro (h' | h')
        · subst h'; exact ⟨.inl rfl, hm⟩
        · exact ⟨.inr h'.1, h'.2⟩
      · rintro ⟨h' | h', hne⟩
        · exact .inl h'
        · exact .inr ⟨h', hne⟩

theorem chainRemove_ok {k h} {b : List Node} (hb : ChainOk b) : ChainOk (chainRemove k h b) := by
  induction b with
  | nil => simp [chainRemove, ChainOk]
  | cons m rest ih =>
    have hb' := hb
    simp only [ChainOk, List.map_cons, List.nodup_cons, List.mem_map, not_exists, not_and] at hb'
    simp only [chainRemove]
    split
    · exact hb'.2
    · simp only [ChainOk, List.map_cons, List.nodup_cons, List.mem_map, not_exists, not_and]
      exact ⟨fun a ha hc => hb'.1 a ((mem_chainRemove hb'.2).1 ha).1 hc, ih hb'.2⟩

theorem length_chainRemove {k h} {b : List Node} :
    (chainRemove k h b).length = if (chainFind k h b).isSome then b.length - 1 else b.length := by
  induction b with
  | nil => simp [chainRemove, chainFind]
  | cons m rest ih =>
    simp only [chainRemove, chainFind]
    split
    · simp
    · simp only [List.length_cons, ih]
      split
      · rename_i hs
        cases rest with
        | nil => simp [chainFind] at hs
        | cons => simp
      · rfl

/-! ## buckets -/

theorem mem_flatten_iff_getElem? {n : Node} {L : List (List Node)} :
    n ∈ L.flatten ↔ ∃ (j : Nat) (b : List Node), L[j]? = some b ∧ n ∈ b := by
  rw [List.mem_flatten]
  constructor
  · rintro ⟨b, hb, hn⟩
    obtain ⟨j, hj⟩ := List.mem_iff_getElem?.1 hb
    exact ⟨j, b, hj, hn⟩
  · rintro ⟨j, b, hj, hn⟩
    exact ⟨b, List.mem_iff_getElem?.2 ⟨j, hj⟩, hn⟩

theorem chainOk_of_nodup {L : List (List Node)} (h : (L.flatten.map Node.kh).Nodup) {b} (hb : b ∈ L) :
    ChainOk b := by
  rw [List.map_flatten] at h
  exact (List.pairwise_flatten.1 h).1 _ (List.mem_map_of_mem hb)

/-- nodes placed by a function of their (key, hash) + chains without duplicates ⇒ no duplicates at all -/
theorem nodup_of_local (g : Node → Nat) (hg : ∀ a b : Node, a.kh = b.kh → g a = g b) :
    ∀ (L : List (List Node)) (off : Nat), (∀ i b, L[i]? = some b → ∀ n ∈ b, g n = off + i) →
      (∀ b ∈ L, ChainOk b) → (L.flatten.map Node.kh).Nodup := by
  intro L
  induction L with
  | nil => intros; simp
  | cons c L ih =>
    intro off hhome hloc
    rw [List.flatten_cons, List.map_append, List.nodup_append]
    refine ⟨hloc c (by simp), ih (off + 1) ?_ (fun b hb => hloc b (by simp [hb])), ?_⟩
    · intro i b hib n hn
      have := hhome (i + 1) b (by simpa using hib) n hn
      omega
    · intro p hp q hq hpq
      subst hpq
      obtain ⟨a, ha, rfl⟩ := List.mem_map.1 hp
      obtain ⟨a', ha', hk⟩ := List.mem_map.1 hq
      obtain ⟨j, b, hjb, hab⟩ := mem_flatten_iff_getElem?.1 ha'
      have h1 := hhome 0 c (by simp) a ha
      have h2 := hhome (j + 1) b (by simpa using hjb) a' hab
      have := hg _ _ hk
      omega

theorem length_flatten_modify {L : List (List Node)} {i : Nat} {b} (f : List Node → List Node)
    (hb : L[i]? = some b) : (L.modify i f).flatten.length + b.length = L.flatten.length + (f b).length := by
  induction L generalizing i with
  | nil => simp at hb
  | cons c L ih =>
    cases i with
    | zero =>
      simp only [List.getElem?_cons_zero, Option.some.injEq] at hb
      subst hb
      simp only [List.modify_zero_cons, List.flatten_cons, List.length_append]; omega
    | succ i =>
      simp only [List.getElem?_cons_succ] at hb
      have := ih hb
      simp only [List.modify_succ_cons, List.flatten_cons, List.length_append]; omega

theorem Inv'.chainOk {t : HTable} (hI : Inv' t) {i : Nat} {b} (hb : t.buckets[i]? = some b) : ChainOk b :=
  chainOk_of_nodup hI.nodup (List.mem_iff_getElem?.2 ⟨i, hb⟩)

theorem Inv'.bucket {t : HTable} (hI : Inv' t) (h : Nat) :
    ∃ b, t.buckets[idx h t.buckets.length]? = some b :=
  ⟨_, List.getElem?_eq_getElem (idx_lt hI.pos)⟩

theorem mem_flatten_modify {t : HTable} (hI : Inv' t) {i b} (hb : t.buckets[i]? = some b)
    (f : List Node → List Node) (n : Node) :
    n ∈ (t.buckets.modify i f).flatten ↔
      n ∈ f b ∨ (n ∈ t.buckets.flatten ∧ idx n.hash t.buckets.length ≠ i) := by
  simp only [mem_flatten_iff_getElem?, List.getElem?_modify]
  constructor
  · rintro ⟨j, b', hj, hn⟩
    cases hc : t.buckets[j]? with
    | none => simp [hc] at hj
    | some c =>
      simp only [hc, Option.map_eq_map, Option.map_some, Option.some.injEq] at hj
      by_cases hij : i = j
      · subst hij
        simp only [if_true] at hj
        rw [hb] at hc; cases hc
        exact .inl (hj ▸ hn)
      · simp only [hij, if_false] at hj
        subst hj
        exact .inr ⟨⟨j, c, hc, hn⟩, by rw [hI.home j c hc n hn]; exact fun h => hij h.symm⟩
  · rintro (hn | ⟨⟨j, c, hc, hn⟩, hne⟩)
    · exact ⟨i, f b, by simp [hb], hn⟩
    · have : i ≠ j := by rw [hI.home j c hc n hn] at hne; exact fun h => hne h.symm
      exact ⟨j, c, by simp [hc, this], hn⟩

/-- modifying one chain keeps the invariant, if the new chain is without duplicates, holds only nodes of
    this bucket, and `elems` follows the chain length -/
theorem inv'_modify {t : HTable} (hI : Inv' t) {i b} (hb : t.buckets[i]? = some b)
    (f : List Node → List Node) (e' : Nat) (hok : ChainOk (f b))
    (hhome : ∀ n ∈ f b, idx n.hash t.buckets.length = i)
    (hcount : e' + b.length = t.elems + (f b).length) :
    Inv' { buckets := t.buckets.modify i f, elems := e' } := by
  have hget : ∀ j b', (t.buckets.modify i f)[j]? = some b' →
      (j = i ∧ b' = f b) ∨ (j ≠ i ∧ t.buckets[j]? = some b') := by
    intro j b' hj
    rw [List.getElem?_modify] at hj
    cases hc : t.buckets[j]? with
    | none => simp [hc] at hj
    | some c =>
      simp only [hc, Option.map_eq_map, Option.map_some, Option.some.injEq] at hj
      by_cases hij : i = j
      · subst hij
        simp only [if_true] at hj
        rw [hb] at hc; cases hc
        exact .inl ⟨rfl, hj.symm⟩
      · simp only [hij, if_false] at hj
        subst hj
        exact .inr ⟨fun h => hij h.symm, rfl⟩
  refine ⟨by simpa using hI.pos, ?_, ?_, ?_⟩
  · intro j b' hj n hn
    simp only [List.length_modify]
    rcases hget j b' hj with ⟨rfl, rfl⟩ | ⟨_, hj'⟩
    · exact hhome n hn
    · exact hI.home j b' hj' n hn
  · refine nodup_of_local (fun n => idx n.hash t.buckets.length) ?_ _ 0 ?_ ?_
    · intro a b hab
      simp only [Node.kh, Prod.mk.injEq] at hab
      simp [hab.2]
    · intro j b' hj n hn
      simp only [Nat.zero_add]
      rcases hget j b' hj with ⟨rfl, rfl⟩ | ⟨_, hj'⟩
      · exact hhome n hn
      · exact hI.home j b' hj' n hn
    · intro b' hb'
      obtain ⟨j, hj⟩ := List.mem_iff_getElem?.1 hb'
      rcases hget j b' hj with ⟨rfl, rfl⟩ | ⟨_, hj'⟩
      · exact hok
      · exact hI.chainOk hj'
  · have := length_flatten_modify f hb
    have := hI.count
    simp only at *
    omega

/-! ## lookup is membership -/

theorem lookup_eq_some_iff {t : HTable} (hI : Inv' t) {k h n} :
    lookup t k h = some n ↔ n ∈ t.buckets.flatten ∧ n.kh = (k, h) := by
  obtain ⟨b, hb⟩ := hI.bucket h
  simp only [lookup, hb, Option.bind_some]
  rw [chainFind_eq_some_iff (hI.chainOk hb)]
  constructor
  · rintro ⟨hn, hk⟩
    exact ⟨mem_flatten_iff_getElem?.2 ⟨_, b, hb, hn⟩, hk⟩
  · rintro ⟨hn, hk⟩
    obtain ⟨j, c, hc, hnc⟩ := mem_flatten_iff_getElem?.1 hn
    have hj := hI.home j c hc n hnc
    have : n.hash = h := by simp only [Node.kh, Prod.mk.injEq] at hk; exact hk.2
    rw [this] at hj
    rw [← hj, hb] at hc
    cases hc
    exact ⟨hnc, hk⟩

theorem lookup_congr {t t' : HTable} (hI : Inv' t) (hI' : Inv' t')
    (hm : ∀ n, n ∈ t'.buckets.flatten ↔ n ∈ t.buckets.flatten) (k : Bytes) (h : Nat) :
    lookup t' k h = lookup t k h :=
  Option.ext fun n => by rw [lookup_eq_some_iff hI, lookup_eq_some_iff hI', hm]

theorem abs_congr {t t' : HTable} (hI : Inv' t) (hI' : Inv' t')
    (hm : ∀ n, n ∈ t'.buckets.flatten ↔ n ∈ t.buckets.flatten) : abs t' = abs t := by
  funext p
  simp only [abs, lookup_congr hI hI' hm]

theorem Inv'.mem_bucket {t : HTable} (hI : Inv' t) {i : Nat} {b} (hb : t.buckets[i]? = some b) {n : Node}
    (hn : n ∈ t.buckets.flatten) (hi : idx n.hash t.buckets.length = i) : n ∈ b := by
  obtain ⟨j, c, hc, hnc⟩ := mem_flatten_iff_getElem?.1 hn
  have hj := hI.home j c hc n hnc
  rw [hi] at hj; subst hj
  rw [hb] at hc; cases hc
  exact hnc

theorem Inv'.length_bucket_le {t : HTable} (_hI : Inv' t) {i : Nat} {b} (hb : t.buckets[i]? = some b) :
    b.length ≤ t.buckets.flatten.length := by
  have := length_flatten_modify (fun _ => []) hb
  simp only [List.length_nil] at this
  omega

theorem abs_of_mem_insert {t t' : HTable} (hI : Inv' t) (hI' : Inv' t') (x : Node)
    (hm : ∀ n, n ∈ t'.buckets.flatten ↔ n = x ∨ (n ∈ t.buckets.flatten ∧ n.kh ≠ x.kh)) :
    abs t' = fun p => if p = x.kh then some x.id else abs t p := by
  funext p
  obtain ⟨k, h⟩ := p
  by_cases hp : (k, h) = x.kh
  · have : lookup t' k h = some x := (lookup_eq_some_iff hI').2 ⟨(hm x).2 (.inl rfl), hp.symm⟩
    simp [abs, this, hp]
  · have : lookup t' k h = lookup t k h := by
      refine Option.ext fun n => ?_
      rw [lookup_eq_some_iff hI, lookup_eq_some_iff hI', hm]
      constructor
      · rintro ⟨h1 | h1, h2⟩
        · subst h1; exact absurd h2.symm hp
        · exact ⟨h1.1, h2⟩
      · rintro ⟨h1, h2⟩
        exact ⟨.inr ⟨h1, fun hc => hp (h2.symm.trans hc)⟩, h2⟩
    simp [abs, this, hp]

theorem abs_of_mem_remove {t t' : HTable} (hI : Inv' t) (hI' : Inv' t') (k : Bytes) (h : Nat)
    (hm : ∀ n, n ∈ t'.buckets.flatten ↔ n ∈ t.buckets.flatten ∧ n.kh ≠ (k, h)) :
    abs t' = fun p => if p = (k, h) then none else abs t p := by
  funext p
  obtain ⟨k', h'⟩ := p
  by_cases hp : (k', h') = (k, h)
  · have : lookup t' k' h' = none := by
      cases hl : lookup t' k' h' with
      | none => rfl
      | some n =>
        have := (lookup_eq_some_iff hI').1 hl
        exact absurd (this.2.trans hp) ((hm n).1 this.1).2
    simp [abs, this, hp]
  · have : lookup t' k' h' = lookup t k' h' := by
      refine Option.ext fun n => ?_
      rw [lookup_eq_some_iff hI, lookup_eq_some_iff hI', hm]
      constructor
      · rintro ⟨h1, h2⟩; exact ⟨h1.1, h2⟩
      · rintro ⟨h1, h2⟩; exact ⟨⟨h1, fun hc => hp (h2.symm.trans hc)⟩, h2⟩
    simp [abs, this, hp]

/-! ## resize -/

theorem newLength_ge_len (fuel len e : Nat) : len ≤ newLength fuel len e := by
  induction fuel generalizing len with
  | zero => simp [newLength]
  | succ f ih =>
    simp only [newLength]
    split
    · have := ih (len * 2); omega
    · exact Nat.le_refl _

theorem newLength_ge (fuel len e : Nat) : min e (len * 2 ^ fuel) ≤ newLength fuel len e := by
  induction fuel generalizing len with
  | zero => simp only [newLength, Nat.pow_zero, Nat.mul_one]; omega
  | succ f ih =>
    simp only [newLength]
    split
    · have := ih (len * 2)
      have : len * 2 * 2 ^ f = len * 2 ^ (f + 1) := by
        rw [Nat.pow_succ, Nat.mul_assoc, Nat.mul_comm 2]
      omega
    · omega

theorem newLength_pow2 (fuel k e : Nat) : ∃ k', newLength fuel (2 ^ k) e = 2 ^ k' ∧ k ≤ k' := by
  induction fuel generalizing k with
  | zero => exact ⟨k, rfl, Nat.le_refl _⟩
  | succ f ih =>
    simp only [newLength]
    split
    · obtain ⟨k', h1, h2⟩ := ih (k + 1)
      exact ⟨k', by rw [← h1, Nat.pow_succ], by omega⟩
    · exact ⟨k, rfl, Nat.le_refl _⟩

theorem inv'_replicate {len : Nat} (hl : 0 < len) : Inv' { buckets := List.replicate len [], elems := 0 } := by
  have hf : (List.replicate len ([] : List Node)).flatten = [] := by
    simp
  refine ⟨by simpa using hl, ?_, by simp [hf], by simp [hf]⟩
  intro i b hb n hn
  simp only [List.getElem?_replicate] at hb
  split at hb
  · cases hb; simp at hn
  · cases hb

theorem foldl_pushNode (ns : List Node) : ∀ (bs : List (List Node)) (e : Nat),
    Inv' { buckets := bs, elems := e } → (ns.map Node.kh).Nodup →
    (∀ a ∈ bs.flatten, ∀ b ∈ ns, a.kh ≠ b.kh) →
    Inv' { buckets := ns.foldl pushNode bs, elems := e + ns.length } ∧
      (ns.foldl pushNode bs).length = bs.length ∧
      ∀ n, n ∈ (ns.foldl pushNode bs).flatten ↔ n ∈ bs.flatten ∨ n ∈ ns := by
  induction ns with
  | nil => intro bs e hI _ _; exact ⟨hI, rfl, by simp⟩
  | cons x ns ih =>
    intro bs e hI hnd hdis
    simp only [List.map_cons, List.nodup_cons, List.mem_map, not_exists, not_and] at hnd
    obtain ⟨b, hb⟩ := hI.bucket x.hash
    simp only at hb
    have hmem : ∀ n, n ∈ (pushNode bs x).flatten ↔ n = x ∨ n ∈ bs.flatten := by
      intro n
      rw [pushNode, mem_flatten_modify (t := ⟨bs, e⟩) hI hb]
      simp only [List.mem_cons]
      constructor
      · rintro ((h | h) | h)
        · exact .inl h
        · exact .inr (mem_flatten_iff_getElem?.2 ⟨_, b, hb, h⟩)
        · exact .inr h.1
      · rintro (h | h)
        · exact .inl (.inl h)
        · by_cases hi : idx n.hash bs.length = idx x.hash bs.length
          · exact .inl (.inr (hI.mem_bucket hb h hi))
          · exact .inr ⟨h, hi⟩
    have hI1 : Inv' { buckets := pushNode bs x, elems := e + 1 } := by
      refine inv'_modify (t := ⟨bs, e⟩) hI hb (x :: ·) (e + 1) ?_ ?_ ?_
      · simp only [ChainOk, List.map_cons, List.nodup_cons, List.mem_map, not_exists, not_and]
        refine ⟨fun a ha => ?_, hI.chainOk hb⟩
        exact hdis a (mem_flatten_iff_getElem?.2 ⟨_, b, hb, ha⟩) x (by simp)
      · intro n hn
        rcases List.mem_cons.1 hn with rfl | hn
        · rfl
        · exact hI.home _ b hb n hn
      · simp only [List.length_cons]; omega
    have := ih (pushNode bs x) (e + 1) hI1 hnd.2 (by
      intro a ha c hc
      rcases (hmem a).1 ha with rfl | ha
      · exact fun hk => hnd.1 c hc hk.symm
      · exact hdis a ha c (by simp [hc]))
    simp only [List.foldl_cons, List.length_cons]
    refine ⟨by rw [show e + (ns.length + 1) = e + 1 + ns.length by omega]; exact this.1,
      by rw [this.2.1]; simp [pushNode], fun n => ?_⟩
    rw [this.2.2 n, hmem n, List.mem_cons]
    constructor
    · rintro ((h | h) | h)
      · exact .inr (.inl h)
      · exact .inl h
      · exact .inr (.inr h)
    · rintro (h | h | h)
      · exact .inl (.inr h)
      · exact .inl (.inl h)
      · exact .inr h

/-- `lru_table_resize` needs only: no duplicate (key, hash), and `elems` = number of nodes
    (so it also covers `lru_table_init`, where the old table is empty with `length = 0`) -/
theorem resize_spec (t : HTable) (hnd : (t.buckets.flatten.map Node.kh).Nodup)
    (hc : t.elems = t.buckets.flatten.length) :
    Inv' (resize t) ∧ (resize t).buckets.length = newLength 64 4 t.elems ∧ (resize t).elems = t.elems ∧
      ∀ n, n ∈ (resize t).buckets.flatten ↔ n ∈ t.buckets.flatten := by
  have hl : 0 < newLength 64 4 t.elems := by have := newLength_ge_len 64 4 t.elems; omega
  have := foldl_pushNode t.buckets.flatten _ 0 (inv'_replicate hl) hnd (by
    intro a ha; simp at ha)
  simp only [Nat.zero_add, ← hc] at this
  refine ⟨this.1, by simp only [resize, this.2.1, List.length_replicate], rfl, fun n => ?_⟩
  simp only [resize, this.2.2 n]
  simp

theorem resize_inv' (t : HTable) (hI : Inv' t) : Inv' (resize t) := (resize_spec t hI.nodup hI.count).1

theorem resize_abs (t : HTable) (hI : Inv' t) : abs (resize t) = abs t :=
  abs_congr hI (resize_inv' t hI) (resize_spec t hI.nodup hI.count).2.2.2

/-! ## init, insert, remove -/

theorem init_spec : Inv init ∧ ∀ n, n ∉ init.buckets.flatten := by
  have := resize_spec { buckets := [], elems := 0 } (by simp) (by simp)
  refine ⟨⟨this.1, ?_, ?_⟩, fun n hn => by simpa using (this.2.2.2 n).1 hn⟩
  · have h1 : init.elems = 0 := this.2.2.1
    rw [h1]; exact Nat.zero_le _
  · have h1 : init.buckets.length = newLength 64 4 0 := this.2.1
    exact ⟨2, by rw [h1]; decide, Nat.le_refl _⟩

theorem init_inv : Inv init := init_spec.1

theorem init_abs : abs init = fun _ => none := by
  funext p
  cases hl : lookup init p.1 p.2 with
  | none => simp [abs, hl]
  | some n => exact absurd ((lookup_eq_some_iff init_inv.toInv').1 hl).1 (init_spec.2 n)

theorem insert_spec {t : HTable} (hI : Inv t) (x : Node) :
    Inv (insert t x).1 ∧ (insert t x).2 = lookup t x.key x.hash ∧
      ∀ n, n ∈ (insert t x).1.buckets.flatten ↔ n = x ∨ (n ∈ t.buckets.flatten ∧ n.kh ≠ x.kh) := by
  have hI' := hI.toInv'
  obtain ⟨b, hb⟩ := hI'.bucket x.hash
  have hlk : lookup t x.key x.hash = chainFind x.key x.hash b := by simp [lookup, hb]
  have hok := chainInsert_ok (x := x) (hI'.chainOk hb)
  have hhome : ∀ n ∈ chainInsert x b, idx n.hash t.buckets.length = idx x.hash t.buckets.length := by
    intro n hn
    rcases (mem_chainInsert (hI'.chainOk hb)).1 hn with rfl | ⟨h1, _⟩
    · rfl
    · exact hI'.home _ b hb n h1
  have hmem : ∀ n, n ∈ (t.buckets.modify (idx x.hash t.buckets.length) (chainInsert x)).flatten ↔
      n = x ∨ (n ∈ t.buckets.flatten ∧ n.kh ≠ x.kh) := by
    intro n
    rw [mem_flatten_modify hI' hb, mem_chainInsert (hI'.chainOk hb)]
    constructor
    · rintro ((h | h) | h)
      · exact .inl h
      · exact .inr ⟨mem_flatten_iff_getElem?.2 ⟨_, b, hb, h.1⟩, h.2⟩
      · refine .inr ⟨h.1, fun hk => h.2 ?_⟩
        simp only [Node.kh, Prod.mk.injEq] at hk
        rw [hk.2]
    · rintro (h | h)
      · exact .inl (.inl h)
      · by_cases hi : idx n.hash t.buckets.length = idx x.hash t.buckets.length
        · exact .inl (.inr ⟨hI'.mem_bucket hb h.1 hi, h.2⟩)
        · exact .inr ⟨h.1, hi⟩
  have hlen := length_chainInsert (x := x) (b := b)
  cases hold : lookup t x.key x.hash with
  | some o =>
    have hI1 : Inv' { buckets := t.buckets.modify (idx x.hash t.buckets.length) (chainInsert x), elems := t.elems } := by
      refine inv'_modify hI' hb _ _ hok hhome ?_
      rw [hlen, ← hlk, hold]; rfl
    simp only [insert, hold]
    exact ⟨⟨hI1, by simpa using hI.load, by simpa using hI.pow2⟩, trivial, hmem⟩
  | none =>
    have hI1 : Inv' { buckets := t.buckets.modify (idx x.hash t.buckets.length) (chainInsert x), elems := t.elems + 1 } := by
      refine inv'_modify hI' hb _ _ hok hhome ?_
      rw [hlen, ← hlk, hold]; simp only [Option.isSome_none, Bool.false_eq_true, if_false]; omega
    simp only [insert, hold]
    refine ⟨?_, trivial, ?_⟩
    · split
      · have hr := resize_spec _ hI1.nodup hI1.count
        refine ⟨hr.1, ?_, ?_⟩
        · rw [hr.2.1, hr.2.2.1]
          have := newLength_ge 64 4 (t.elems + 1)
          simp only at this ⊢
          omega
        · rw [hr.2.1]
          obtain ⟨k', h1, h2⟩ := newLength_pow2 64 2 (t.elems + 1)
          exact ⟨k', h1, h2⟩
      · rename_i hgt
        refine ⟨hI1, ?_, by simpa using hI.pow2⟩
        simp only [List.length_modify, gt_iff_lt, Nat.not_lt] at hgt ⊢
        omega
    · intro n
      split
      · rw [(resize_spec _ hI1.nodup hI1.count).2.2.2 n]; exact hmem n
      · exact hmem n

theorem remove_spec {t : HTable} (hI : Inv t) (k : Bytes) (h : Nat) :
    Inv (remove t k h).1 ∧ (remove t k h).2 = lookup t k h ∧
      ∀ n, n ∈ (remove t k h).1.buckets.flatten ↔ n ∈ t.buckets.flatten ∧ n.kh ≠ (k, h) := by
  have hI' := hI.toInv'
  obtain ⟨b, hb⟩ := hI'.bucket h
  have hlk : lookup t k h = chainFind k h b := by simp [lookup, hb]
  cases hold : lookup t k h with
  | none =>
    simp only [remove, hold]
    refine ⟨hI, trivial, fun n => ⟨fun hn => ⟨hn, fun hk => ?_⟩, fun hn => hn.1⟩⟩
    have := (lookup_eq_some_iff hI').2 ⟨hn, hk⟩
    rw [hold] at this; cases this
  | some o =>
    have hcb := hI'.chainOk hb
    have hlen := length_chainRemove (k := k) (h := h) (b := b)
    rw [← hlk, hold] at hlen
    simp only [Option.isSome_some, if_true] at hlen
    have hob : o ∈ b := (chainFind_some_mem (hlk ▸ hold)).1
    have hbpos : 0 < b.length := List.length_pos_of_mem hob
    have hble := hI'.length_bucket_le hb
    have hcnt := hI'.count
    have hI1 : Inv' { buckets := t.buckets.modify (idx h t.buckets.length) (chainRemove k h), elems := t.elems - 1 } := by
      refine inv'_modify hI' hb _ _ (chainRemove_ok hcb) ?_ ?_
      · intro n hn
        exact hI'.home _ b hb n ((mem_chainRemove hcb).1 hn).1
      · rw [hlen]; omega
    simp only [remove, hold]
    refine ⟨⟨hI1, ?_, by simpa using hI.pow2⟩, trivial, fun n => ?_⟩
    · have := hI.load
      simp only [List.length_modify]
      omega
    · rw [mem_flatten_modify hI' hb, mem_chainRemove hcb]
      constructor
      · rintro (hn | hn)
        · exact ⟨mem_flatten_iff_getElem?.2 ⟨_, b, hb, hn.1⟩, hn.2⟩
        · refine ⟨hn.1, fun hk => hn.2 ?_⟩
          simp only [Node.kh, Prod.mk.injEq] at hk
          rw [hk.2]
      · rintro ⟨h1, h2⟩
        by_cases hi : idx n.hash t.buckets.length = idx h t.buckets.length
        · exact .inl ⟨hI'.mem_bucket hb h1 hi, h2⟩
        · exact .inr ⟨h1, hi⟩

/-! ## the table is a finite map -/

theorem apply_inv (t : HTable) (op : HOp) (hI : Inv t) : Inv (apply t op).1 := by
  cases op with
  | insert k h id => exact (insert_spec hI ⟨k, h, id⟩).1
  | remove k h => exact (remove_spec hI k h).1
  | lookup k h => exact hI

theorem apply_abs (t : HTable) (op : HOp) (hI : Inv t) :
    abs (apply t op).1 = (refApply (abs t) op).1 ∧ (apply t op).2 = (refApply (abs t) op).2 := by
  cases op with
  | insert k h id =>
    have hs := insert_spec hI ⟨k, h, id⟩
    refine ⟨abs_of_mem_insert hI.toInv' hs.1.toInv' ⟨k, h, id⟩ hs.2.2, ?_⟩
    simp only [apply, refApply, abs, hs.2.1]
  | remove k h =>
    have hs := remove_spec hI k h
    refine ⟨abs_of_mem_remove hI.toInv' hs.1.toInv' k h hs.2.2, ?_⟩
    simp only [apply, refApply, abs, hs.2.1]
  | lookup k h => exact ⟨rfl, rfl⟩

theorem runOps_refines (ops : List HOp) : ∀ (t : HTable), Inv t →
    (runOps t ops).2 = (refRun (abs t) ops).2 ∧ abs (runOps t ops).1 = (refRun (abs t) ops).1 ∧
      Inv (runOps t ops).1 := by
  induction ops with
  | nil => intro t hI; exact ⟨rfl, rfl, hI⟩
  | cons op ops ih =>
    intro t hI
    have ha := apply_abs t op hI
    have := ih (apply t op).1 (apply_inv t op hI)
    rw [ha.1] at this
    simp only [runOps, refRun]
    exact ⟨by rw [this.1, ha.2], this.2.1, this.2.2⟩

/-- the headline: any op sequence from the initial table gives exactly the results of the reference map,
    and the final table abstracts to the final map -/
theorem is_map (ops : List HOp) :
    (runOps init ops).2 = (refRun (fun _ => none) ops).2 ∧
      abs (runOps init ops).1 = (refRun (fun _ => none) ops).1 ∧ Inv (runOps init ops).1 := by
  have := runOps_refines ops init init_inv
  rwa [init_abs] at this

/-- the bucket count is always a power of two ≥ 4 -/
theorem length_pow2 (ops : List HOp) :
    ∃ k, (runOps init ops).1.buckets.length = 2 ^ k ∧ 2 ≤ k := (is_map ops).2.2.pow2

/-- `elems` is a `uint32_t` in C: within that range the load factor is ≤ 1 after every operation -/
theorem load_le (ops : List HOp) (h : (runOps init ops).1.elems < 2 ^ 32) :
    (runOps init ops).1.elems ≤ (runOps init ops).1.buckets.length :=
  (is_map ops).2.2.load_le (by omega)

/-! ## non-vacuity: a concrete run (7 inserts incl. a replace and two chain collisions, the resize 4 → 8 at the
    fifth distinct key, removes of a present and of an absent key, same key bytes under another hash) -/

def demoOps : List HOp :=
  [ .insert [1] 1 10, .insert [2] 2 20, .insert [3] 5 30, .insert [1] 1 11, .insert [4] 3 40,
    .insert [5] 9 50, .insert [6] 13 60, .lookup [3] 5, .remove [2] 2, .lookup [2] 2, .remove [2] 2,
    .lookup [1] 1, .lookup [1] 5 ]

example : (runOps init demoOps).2 =
    [none, none, none, some 10, none, none, none, some 30, some 20, none, none, some 11, none] := by decide

example : (refRun (fun _ => none) demoOps).2 =
    [none, none, none, some 10, none, none, none, some 30, some 20, none, none, some 11, none] := by decide

/-- before the fifth distinct key: 4 buckets; after it: 8 buckets; at the end 5 nodes in 8 buckets -/
example : (runOps init (demoOps.take 5)).1.buckets.length = 4 ∧ (runOps init (demoOps.take 6)).1.buckets.length = 8 ∧
    (runOps init demoOps).1.elems = 5 ∧ (runOps init demoOps).1.buckets.map (·.map (·.id)) =
      [[], [50, 11], [], [40], [], [30, 60], [], []] := by decide

example : Inv (runOps init demoOps).1 := (is_map demoOps).2.2

end Lcdb.LruCache.HTable
