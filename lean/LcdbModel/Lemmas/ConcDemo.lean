/-
  A concrete run of the concurrency model used for the non-vacuity examples: three writers (the second, a sync
  writer, leads a group that contains the third), two memtable switches, a stall on the background cv that is ended by
  `bgFinish`, readers overlapping commits, and `close` waiting for the worker.
-/
import LcdbModel.Lemmas.Conc

namespace Lcdb.Conc.Demo
open Lcdb.Conc

def ws : List Writer := [{ tid := 1, batch := 10, sync := false }, { tid := 2, batch := 20, sync := true },
  { tid := 3, batch := 30, sync := false }]
def rs : List Reader := [{ tid := 11 }, { tid := 12 }]

/-- up to the point where writer 2 sleeps on the background cv and the worker is running -/
def labels1 : List Label :=
  [ .wEnter 1 (.begin true 1),     -- head: switches memtables (schedules the flush), leads a group of one
    .wEnter 2 .fail,               -- queued behind 1
    .wEnter 3 .fail,               -- queued behind 2
    .rCapture 11,                  -- a reader captures sequence 0 while 1 is writing
    .wCommit 1 false,              -- publishes sequence 1, wakes 2
    .rRead 11,
    .wWake 2 .waitFlush,           -- memtable full again, imm still there: stall on background_work_finished
    .bgStart ]

/-- ... the flush finishes, 2 is woken by `bgFinish`, switches again and leads the group [2, 3] -/
def labels2 : List Label :=
  [ .bgMid true false false,
    .bgFinish false,               -- broadcast: wakes 2
    .wWake 2 (.begin true 2),      -- second switch, group of two: 3 is a follower
    .rCapture 12 ]                 -- a reader overlapping the group commit captures sequence 1

/-- ... commit of the group, everybody returns, close waits for the worker -/
def labels3 : List Label :=
  [ .wCommit 2 false,              -- publishes sequence 3, marks 3 done
    .rRelease 11 false,
    .wWake 3 .fail,                -- the follower returns the leader's status
    .rRead 12,
    .rRelease 12 true,
    .close,                        -- a background call is scheduled: wait
    .bgStart,
    .bgFinish false,               -- wakes the closer
    .closeWake ]

def labels : List Label := labels1 ++ labels2 ++ labels3

def st0 : St := initSt ws rs
def st1 : St := (run st0 labels1).getD st0
def st2 : St := (run st1 labels2).getD st0
def st3 : St := (run st2 labels3).getD st0

theorem wf : WF ws rs := by
  unfold WF; decide

theorem run1 : run st0 labels1 = some st1 := by rfl
theorem run2 : run st1 labels2 = some st2 := by rfl
theorem run3 : run st2 labels3 = some st3 := by rfl

theorem run_append {st st' st'' : St} {l1 l2 : List Label} (h1 : run st l1 = some st') (h2 : run st' l2 = some st'') :
    run st (l1 ++ l2) = some st'' := by
  induction l1 generalizing st with
  | nil => simp [run] at h1; subst h1; simpa using h2
  | cons l ls ih =>
    simp only [run, List.cons_append] at h1 ⊢
    cases hs : step st l with
    | none => simp [hs] at h1
    | some s => simp only [hs, Option.bind_some] at h1 ⊢; exact ih h1

theorem run_all : run st0 labels = some st3 := run_append (run_append run1 run2) run3

theorem reachable_run {ws : List Writer} {rs : List Reader} {st st' : St} {ls : List Label}
    (h : Reachable ws rs st) (hr : run st ls = some st') : Reachable ws rs st' := by
  induction ls generalizing st with
  | nil => simp [run] at hr; subst hr; exact h
  | cons l ls ih =>
    simp only [run] at hr
    cases hs : step st l with
    | none => simp [hs] at hr
    | some s => simp only [hs, Option.bind_some] at hr; exact ih (Reachable.step l h hs) hr

theorem reach1 : Reachable ws rs st1 := reachable_run Reachable.init run1
theorem reach2 : Reachable ws rs st2 := reachable_run reach1 run2
theorem reach3 : Reachable ws rs st3 := reachable_run reach2 run3

/-- the demo run does what it says -/
example : st1.queue = [2, 3] ∧ st1.imm = true ∧ st1.bg = .working ∧ st1.lastSeq = 1 ∧
    st1.writers.map (·.pc) = [.returned true, .asleepBg, .asleepW] := by decide
example : st2.queue = [2, 3] ∧ st2.inflight = [2, 3] ∧ st2.lastSeq = 1 ∧
    st2.writers.map (·.pc) = [.returned true, .io, .asleepW] ∧ st2.readers.map (·.pc) = [.releasing 0, .reading 1] := by
  decide
example : st3.committed = [10, 20, 30] ∧ st3.groups = [[10], [20, 30]] ∧ st3.lastSeq = 3 ∧ allDone st3 = true ∧
    st3.closer = .returned ∧ st3.writers.map (·.pc) = [.returned true, .returned true, .returned true] ∧
    st3.readers.map (·.pc) = [.returned 0, .returned 1] := by decide

/-! a second, sequential run: writer 1 returns before writer 2 is invoked; reader 11 returns before reader 12 is
    invoked -/

def ws' : List Writer := [{ tid := 1, batch := 10, sync := false }, { tid := 2, batch := 20, sync := false }]

def labels' : List Label :=
  [ .wEnter 1 (.begin false 1), .wCommit 1 false, .rCapture 11, .rRead 11, .rRelease 11 false,
    .wEnter 2 (.begin false 1), .wCommit 2 false, .rCapture 12 ]

def st0' : St := initSt ws' rs
def st' : St := (run st0' labels').getD st0'

theorem wf' : WF ws' rs := by unfold WF; decide
theorem run' : run st0' labels' = some st' := by rfl
theorem reach' : Reachable ws' rs st' := reachable_run Reachable.init run'

example : st'.log = [(1, false, 0), (1, true, 1), (11, false, 1), (11, true, 1), (2, false, 1), (2, true, 2),
    (12, false, 2)] ∧ st'.committed = [10, 20] := by decide

/-! the error paths of the head writer, and a worker overtaken by `close` -/

-- closing the old log file fails during the memtable switch: bg_error, imm set, nothing scheduled; the next writer fails too
example : (run st0 [.wEnter 1 .switchFail, .wEnter 2 .fail]).map
    (fun st => (st.bgError, st.imm, st.bgScheduled, st.queue, st.writers.map (·.pc))) =
    some (true, true, false, [], [.returned false, .returned false, .idle]) := by decide
-- creating the new log file fails: the write fails without a background error, the next writer proceeds
example : (run st0 [.wEnter 1 .fail, .wEnter 2 (.begin false 1), .wCommit 2 false]).map
    (fun st => (st.bgError, st.committed, st.writers.map (·.pc))) =
    some (false, [20], [.returned false, .returned true, .idle]) := by decide
-- `close` overtakes a running worker, which then records "deleting DB during compaction" and finishes
example : (run st0 [.wEnter 1 (.begin true 1), .wCommit 1 false, .bgStart, .close, .bgMid false false true, .closeWake,
      .bgFinish false, .closeWake]).map (fun st => (st.bgError, st.bgScheduled, st.closer)) =
    some (true, false, .returned) := by decide

end Lcdb.Conc.Demo
