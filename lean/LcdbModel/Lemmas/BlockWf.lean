/-
  Shared definitions for the block theorems: the decoded entries of a block as a chain that the
  iterator's own entry decoder walks (`Chain`), and well-formed blocks (`WfBlock`): a chain from
  offset 0 to the restart array plus a restart array of strictly increasing offsets of entries
  with `shared = 0`.  `Lemmas/BlockBuild.lean` shows that the builder produces well-formed blocks,
  `Lemmas/BlockIter.lean` that the iterator over a well-formed block is a cursor.
-/
import LcdbModel.Model.Block
namespace Lcdb

/-- one decoded entry: where it starts, its `shared` field, the full key, where its value lies -/
structure Ent where
  off : Nat
  sh : Nat
  key : Bytes
  voff : Nat
  vlen : Nat
  deriving Repr

/-- offset just past the entry (next_entry_offset when the iterator is on it) -/
def Ent.next (e : Ent) : Nat := e.voff + e.vlen

/-- the bytes `data[off .. off+len)` -/
def sliceAt (data : Bytes) (off len : Nat) : Bytes := (data.drop off).take len

def Ent.value (data : Bytes) (e : Ent) : Bytes := sliceAt data e.voff e.vlen

/-- decode_entry started at `off` with previous key `pk` yields exactly the entries of `L`, one
    after the other, and then stands at `limit` -/
def Chain (data : Bytes) (limit : Nat) : Bytes → Nat → List Ent → Prop
  | _, off, [] => off = limit
  | pk, off, e :: L =>
    e.off = off ∧ off < limit ∧
    (∃ ns kp, decodeEntry data off limit = .ok e.sh ns e.vlen kp ∧ e.sh ≤ pk.length ∧
       e.key = pk.take e.sh ++ sliceAt data kp ns ∧ (sliceAt data kp ns).length = ns ∧
       e.voff = kp + ns ∧ off + 3 ≤ kp) ∧
    Chain data limit e.key (e.voff + e.vlen) L

/-- entry `j` of the restart array at offset `restarts` -/
def restartAt (data : Bytes) (restarts j : Nat) : Nat :=
  fixedDec ((data.drop (restarts + j * 4)).take 4)

/-- a block whose data area `[0, restarts)` decodes to `L` and whose restart array (`num`
    entries at `restarts`, then the count) lists strictly increasing offsets of entries of `L`
    with `shared = 0`, starting with offset 0 -/
structure WfBlock (data : Bytes) (restarts num : Nat) (L : List Ent) : Prop where
  size : restarts + 4 * num + 4 = data.length
  num_pos : 0 < num
  count : blockNumRestarts data = num
  chain : Chain data restarts [] 0 L
  r0 : restartAt data restarts 0 = 0
  rmono : ∀ j, j + 1 < num → restartAt data restarts j < restartAt data restarts (j + 1)
  rent : ∀ j, 0 < j → j < num → ∃ e, e ∈ L ∧ e.off = restartAt data restarts j ∧ e.sh = 0

/-- the `(key, value)` list a chain stands for -/
def entriesOf (data : Bytes) (L : List Ent) : List (Bytes × Bytes) :=
  L.map (fun e => (e.key, e.value data))

end Lcdb
