/-
  Lemmas for C19 (repair): shape of `repairState`, counters, the user-iterator specification
  (`userKeys`, `visibleMap`) as a strictly sorted association list characterised by `view`.
-/
import LcdbModel.Model.Repair
import LcdbModel.Lemmas.LsmStepsView
import LcdbModel.Props.C01
namespace Lcdb

/-! ### shape of the repaired state -/

theorem repairLevel0_perm (c : Cmp) (files : List FileMeta) : (repairLevel0 c files).Perm files := by
  simpa [repairLevel0] using addFiles_perm c 0 [] files

theorem mem_repairLevel0 {c : Cmp} {files : List FileMeta} {f : FileMeta} :
    f ∈ repairLevel0 c files ↔ f ∈ files := (repairLevel0_perm c files).mem_iff

theorem allFiles_repairState (c : Cmp) (files : List FileMeta) :
    allFiles (repairState c files) = repairLevel0 c files := by
  simp [allFiles, repairState, List.replicate]

theorem mem_allFiles_repairState {c : Cmp} {files : List FileMeta} {f : FileMeta} :
    f ∈ allFiles (repairState c files) ↔ f ∈ files := by
  rw [allFiles_repairState]; exact mem_repairLevel0

theorem allEntries_repairState (c : Cmp) (files : List FileMeta) :
    allEntries (repairState c files) = (repairLevel0 c files).flatMap (·.run) := by
  unfold allEntries
  rw [allFiles_repairState]
  simp [repairState]

theorem levels_length_repairState (c : Cmp) (files : List FileMeta) :
    (repairState c files).levels.length = 7 := by
  simp [repairState]

theorem level_zero_repairState (c : Cmp) (files : List FileMeta) :
    (repairState c files).level 0 = repairLevel0 c files := rfl

theorem level_succ_repairState (c : Cmp) (files : List FileMeta) (l : Nat) :
    (repairState c files).level (l + 1) = [] := by
  simp only [DbState.level, repairState, List.getD_eq_getElem?_getD, List.getElem?_cons_succ,
    List.getElem?_replicate]
  split <;> rfl

theorem level_pos_repairState (c : Cmp) (files : List FileMeta) {l : Nat} (h : 1 ≤ l) :
    (repairState c files).level l = [] := by
  obtain ⟨l', rfl⟩ : ∃ l', l = l' + 1 := ⟨l - 1, by omega⟩
  exact level_succ_repairState c files l'

/-! ### counters -/

theorem foldl_maxSeq_ge (l : List Entry) (n : Nat) : n ≤ l.foldl (fun m e => max m e.seq) n := by
  induction l generalizing n with
  | nil => exact Nat.le_refl _
  | cons e es ih =>
    simp only [List.foldl_cons]
    exact Nat.le_trans (Nat.le_max_left _ _) (ih _)

theorem foldl_maxSeq_le (l : List Entry) (n : Nat) :
    ∀ e ∈ l, e.seq ≤ l.foldl (fun m e => max m e.seq) n := by
  induction l generalizing n with
  | nil => intro e he; cases he
  | cons x xs ih =>
    intro e he
    simp only [List.foldl_cons]
    rcases List.mem_cons.mp he with rfl | he'
    · exact Nat.le_trans (Nat.le_max_right _ _) (foldl_maxSeq_ge xs _)
    · exact ih _ e he'

theorem foldl_maxNum_ge (l : List FileMeta) (n : Nat) : n ≤ l.foldl (fun m f => max m f.num) n := by
  induction l generalizing n with
  | nil => exact Nat.le_refl _
  | cons e es ih =>
    simp only [List.foldl_cons]
    exact Nat.le_trans (Nat.le_max_left _ _) (ih _)

theorem foldl_maxNum_le (l : List FileMeta) (n : Nat) :
    ∀ f ∈ l, f.num ≤ l.foldl (fun m f => max m f.num) n := by
  induction l generalizing n with
  | nil => intro e he; cases he
  | cons x xs ih =>
    intro e he
    simp only [List.foldl_cons]
    rcases List.mem_cons.mp he with rfl | he'
    · exact Nat.le_trans (Nat.le_max_right _ _) (foldl_maxNum_ge xs _)
    · exact ih _ e he'

theorem seq_le_maxSeqOf {files : List FileMeta} {e : Entry} (h : e ∈ files.flatMap (·.run)) :
    e.seq ≤ maxSeqOf files := foldl_maxSeq_le _ 0 e h

theorem num_le_maxNumOf {files : List FileMeta} {f : FileMeta} (h : f ∈ files) :
    f.num ≤ maxNumOf files := foldl_maxNum_le _ 0 f h

/-! ### the iterator specification: `userKeys` and `visibleMap` -/

/-- the de-duplication pass of `userKeys` -/
def dedupKeys (c : Cmp) (l : List Bytes) : List Bytes :=
  l.foldr (fun k acc => match acc with
    | [] => [k]
    | k' :: _ => if c.compare k k' == .eq then acc else k :: acc) []

theorem userKeys_eq (c : Cmp) (es : List Entry) :
    userKeys c es = dedupKeys c ((es.map (·.ukey)).mergeSort (fun a b => c.compare a b != .gt)) := rfl

theorem dedupKeys_cons (c : Cmp) (k : Bytes) (l : List Bytes) :
    dedupKeys c (k :: l) = match dedupKeys c l with
      | [] => [k]
      | k' :: t => if c.compare k k' == .eq then k' :: t else k :: k' :: t := by
  simp only [dedupKeys, List.foldr_cons]
  split <;> simp_all

theorem mem_dedupKeys {c : Cmp} {l : List Bytes} {x : Bytes} : x ∈ dedupKeys c l ↔ x ∈ l := by
  induction l with
  | nil => simp [dedupKeys]
  | cons k l ih =>
    rw [dedupKeys_cons]
    cases hd : dedupKeys c l with
    | nil =>
      rw [hd] at ih
      have : ¬ x ∈ l := fun h => by simpa using ih.mpr h
      simp [this]
    | cons k' t =>
      rw [hd] at ih
      simp only
      split
      · rename_i heq
        have hk : k = k' := (cmp_eq_iff c _ _).mp (by simpa using heq)
        subst hk
        rw [List.mem_cons (a := x) (b := k) (l := l), ← ih]
        simp
      · rw [List.mem_cons, ih, List.mem_cons]

theorem dedupKeys_sorted {c : Cmp} {l : List Bytes}
    (h : l.Pairwise (fun a b => c.compare a b ≠ .gt)) :
    (dedupKeys c l).Pairwise (fun a b => c.compare a b = .lt) := by
  induction l with
  | nil => simp [dedupKeys]
  | cons k l ih =>
    rw [List.pairwise_cons] at h
    have ih := ih h.2
    rw [dedupKeys_cons]
    cases hd : dedupKeys c l with
    | nil => simp
    | cons k' t =>
      rw [hd] at ih
      simp only
      split
      · exact ih
      · rename_i hne
        have hk' : k' ∈ l := mem_dedupKeys.mp (by rw [hd]; simp)
        have hle := h.1 k' hk'
        have hlt : c.compare k k' = .lt := by
          cases hc : c.compare k k' with
          | lt => rfl
          | eq => simp [hc] at hne
          | gt => exact absurd hc hle
        rw [List.pairwise_cons]
        refine ⟨?_, ih⟩
        intro y hy
        rcases List.mem_cons.mp hy with rfl | hy'
        · exact hlt
        · exact cmp_lt_trans c hlt ((List.pairwise_cons.mp ih).1 y hy')

theorem mem_userKeys {c : Cmp} {es : List Entry} {k : Bytes} :
    k ∈ userKeys c es ↔ ∃ e ∈ es, e.ukey = k := by
  rw [userKeys_eq, mem_dedupKeys, (List.mergeSort_perm _ _).mem_iff, List.mem_map]

/-- the keys the iterator visits are in strictly increasing comparator order (each once) -/
theorem userKeys_sorted (c : Cmp) (es : List Entry) :
    (userKeys c es).Pairwise (fun a b => c.compare a b = .lt) := by
  rw [userKeys_eq]
  apply dedupKeys_sorted
  have := List.pairwise_mergeSort (le := fun (a b : Bytes) => c.compare a b != .gt)
    (by
      intro a b d hab hbd
      simp only [bne_iff_ne, ne_eq] at hab hbd ⊢
      exact cmp_le_trans c hab hbd)
    (by
      intro a b
      simp only [Bool.or_eq_true, bne_iff_ne, ne_eq]
      by_cases h : c.compare a b = .gt
      · exact .inr (by rw [(cmp_gt_iff c a b).mp h]; simp)
      · exact .inl h)
    (es.map (·.ukey))
  exact this.imp (fun h => by simpa using h)

/-- the answer `view` gives for a key, as a map entry -/
theorem mem_visibleMap {c : Cmp} {es : List Entry} {s : Nat} {k : Bytes} {v : String} :
    (k, v) ∈ visibleMap c es s ↔ view c es k s = some v := by
  unfold visibleMap view
  rw [List.mem_filterMap]
  constructor
  · rintro ⟨k', _, h⟩
    cases hn : newestVisible c es k' s with
    | none => rw [hn] at h; simp at h
    | some e =>
      rw [hn] at h
      obtain ⟨_, hk, _, _⟩ := newestVisible_spec hn
      by_cases h1 : e.kind == 1
      · simp only [h1, if_true, Option.some.injEq, Prod.mk.injEq] at h
        obtain ⟨h2, h3⟩ := h
        have : k' = k := hk.symm.trans h2
        subst this
        rw [hn]; simp [h1, h3]
      · simp [h1] at h
  · intro h
    cases hn : newestVisible c es k s with
    | none => rw [hn] at h; simp at h
    | some e =>
      rw [hn] at h
      obtain ⟨hm, hk, _, _⟩ := newestVisible_spec hn
      refine ⟨k, mem_userKeys.mpr ⟨e, hm, hk⟩, ?_⟩
      rw [hn]
      by_cases h1 : e.kind == 1
      · simp only [h1, if_true, Option.some.injEq] at h
        simp [h1, h, hk]
      · simp [h1] at h

/-- the map is strictly sorted by key: every key at most once, in comparator order -/
theorem visibleMap_sorted (c : Cmp) (es : List Entry) (s : Nat) :
    (visibleMap c es s).Pairwise (fun p q => c.compare p.1 q.1 = .lt) := by
  unfold visibleMap
  rw [List.pairwise_filterMap]
  refine (userKeys_sorted c es).imp ?_
  intro a b hab p hp q hq
  have key : ∀ (k : Bytes) (p : Bytes × String),
      (match newestVisible c es k s with
        | some e => if e.kind == 1 then some (e.ukey, e.val) else none
        | none => none) = some p → p.1 = k := by
    intro k p h
    cases hn : newestVisible c es k s with
    | none => rw [hn] at h; simp at h
    | some e =>
      rw [hn] at h
      obtain ⟨_, hk, _, _⟩ := newestVisible_spec hn
      by_cases h1 : e.kind == 1
      · simp only [h1, if_true, Option.some.injEq] at h
        rw [← h]; exact hk
      · simp [h1] at h
  rw [key a p hp, key b q hq]
  exact hab

/-- two strictly sorted lists with the same elements are equal -/
theorem eq_of_sorted_of_mem_iff {α : Type _} {R : α → α → Prop} (hirr : ∀ a, ¬ R a a)
    (hasymm : ∀ a b, R a b → ¬ R b a) {l₁ l₂ : List α} (h₁ : l₁.Pairwise R) (h₂ : l₂.Pairwise R)
    (hm : ∀ x, x ∈ l₁ ↔ x ∈ l₂) : l₁ = l₂ := by
  induction l₁ generalizing l₂ with
  | nil =>
    cases l₂ with
    | nil => rfl
    | cons b bs => exact absurd ((hm b).mpr (by simp)) (by simp)
  | cons a as ih =>
    cases l₂ with
    | nil => exact absurd ((hm a).mp (by simp)) (by simp)
    | cons b bs =>
      rw [List.pairwise_cons] at h₁ h₂
      have hab : a = b := by
        apply Classical.byContradiction
        intro hne
        have h1 : a ∈ bs := by
          rcases List.mem_cons.mp ((hm a).mp (by simp)) with h | h
          · exact absurd h hne
          · exact h
        have h2 : b ∈ as := by
          rcases List.mem_cons.mp ((hm b).mpr (by simp)) with h | h
          · exact absurd h.symm hne
          · exact h
        exact hasymm _ _ (h₁.1 b h2) (h₂.1 a h1)
      subst hab
      congr 1
      apply ih h₁.2 h₂.2
      intro x
      constructor
      · intro hx
        rcases List.mem_cons.mp ((hm x).mp (List.mem_cons_of_mem _ hx)) with h | h
        · subst h; exact absurd (h₁.1 x hx) (hirr x)
        · exact h
      · intro hx
        rcases List.mem_cons.mp ((hm x).mpr (List.mem_cons_of_mem _ hx)) with h | h
        · subst h; exact absurd (h₂.1 x hx) (hirr x)
        · exact h

/-- the iterator specification is determined by `view`: two entry sets with the same `view`
    at `s` have the same visible map -/
theorem visibleMap_congr {c : Cmp} {es es' : List Entry} {s : Nat}
    (h : ∀ k, view c es k s = view c es' k s) : visibleMap c es s = visibleMap c es' s := by
  apply eq_of_sorted_of_mem_iff (R := fun (p q : Bytes × String) => c.compare p.1 q.1 = .lt)
    (fun a => cmp_lt_irrefl c a.1)
    (fun a b h1 h2 => cmp_lt_irrefl c a.1 (cmp_lt_trans c h1 h2))
    (visibleMap_sorted c es s) (visibleMap_sorted c es' s)
  rintro ⟨k, v⟩
  rw [mem_visibleMap, mem_visibleMap, h k]

end Lcdb
