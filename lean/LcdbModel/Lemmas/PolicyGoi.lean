/-
  `ldb_version_get_overlapping_inputs` (src/version_set.c:797) — `goiPass` / `goiLoop` /
  `getOverlappingInputs` / `goi` of `LcdbModel.Model.Policy`:

    * deeper levels: a plain filter by `rangeHits`;
    * level 0: every pass either yields the filter (all picked files inside the range) or restarts
      with one bound widened to a bound of an actual file hitting the current range;
    * the stated fuel `2 * length + 1` is always enough (termination measure `goiMu`);
    * level-0 specification: the result is exactly the set of files hitting the final range, lies
      inside the final range, the final range is the original one widened to bounds of selected
      files, the result is closed under user-range overlap within the level;
    * the result is always a sublist of the level.
-/
import LcdbModel.Lemmas.PolicyDefs
namespace Lcdb.Policy
open Lcdb.CmpBasic Lcdb.Lsm

/-! ### vocabulary -/

/-- `f` sticks out of the range at the begin side (`f.sk < user_begin`) -/
def stickB (c : Cmp) (b : Option Bytes) (f : FileMeta) : Bool :=
  b.any (fun ub => c.compare f.sk ub == .lt)

/-- `f` sticks out of the range at the end side (`f.lk > user_end`) -/
def stickE (c : Cmp) (e : Option Bytes) (f : FileMeta) : Bool :=
  e.any (fun ue => c.compare f.lk ue == .gt)

theorem skipB_eq (c : Cmp) (b : Option Bytes) (f : FileMeta) :
    b.any (fun ub => c.compare f.lk ub == .lt) = afterFile c b f := by
  cases b with
  | none => rfl
  | some ub =>
    simp only [Option.any, afterFile]
    rw [compare_swap c ub f.lk]; cases c.compare ub f.lk <;> rfl

theorem skipE_eq (c : Cmp) (e : Option Bytes) (f : FileMeta) :
    e.any (fun ue => c.compare f.sk ue == .gt) = beforeFile c e f := by
  cases e with
  | none => rfl
  | some ue =>
    simp only [Option.any, beforeFile]
    rw [compare_swap c ue f.sk]; cases c.compare ue f.sk <;> rfl

theorem stickB_false_iff (c : Cmp) (b : Option Bytes) (f : FileMeta) :
    stickB c b f = false ↔ ∀ ub, b = some ub → c.compare f.sk ub ≠ .lt := by
  cases b with
  | none => simp [stickB]
  | some ub => simp [stickB]

theorem stickE_false_iff (c : Cmp) (e : Option Bytes) (f : FileMeta) :
    stickE c e f = false ↔ ∀ ue, e = some ue → c.compare f.lk ue ≠ .gt := by
  cases e with
  | none => simp [stickE]
  | some ue => simp [stickE]

/-- the loop body, with the two skip tests folded into `rangeHits` -/
theorem goiPass_cons (c : Cmp) (l0 : Bool) (b e : Option Bytes) (f : FileMeta) (rest : List FileMeta) :
    goiPass c l0 b e (f :: rest) =
      if rangeHits c b e f = false then goiPass c l0 b e rest
      else if (l0 && stickB c b f) = true then .error (some f.sk, e)
      else if (l0 && stickE c e f) = true then .error (b, some f.lk)
      else match goiPass c l0 b e rest with
        | .ok r => .ok (f :: r)
        | .error x => .error x := by
  simp only [goiPass, skipB_eq, skipE_eq, rangeHits, stickB, stickE]
  rcases Bool.eq_false_or_eq_true (afterFile c b f) with h1 | h1 <;>
  rcases Bool.eq_false_or_eq_true (beforeFile c e f) with h2 | h2 <;>
  simp only [h1, h2, Bool.or_true, Bool.or_false, Bool.not_true, Bool.not_false, if_true, if_false,
    Bool.false_eq_true, reduceCtorEq]
  cases goiPass c l0 b e rest <;> rfl

/-! ### 1. deeper levels -/

theorem goiPass_deep (c : Cmp) (b e : Option Bytes) (files : List FileMeta) :
    goiPass c false b e files = .ok (files.filter (rangeHits c b e)) := by
  induction files with
  | nil => rfl
  | cons f rest ih =>
    rw [goiPass_cons, ih, List.filter_cons]
    cases rangeHits c b e f <;> simp

theorem getOverlappingInputs_deep (c : Cmp) (files : List FileMeta) (b e : Option Bytes) :
    getOverlappingInputs c false files b e = some (files.filter (rangeHits c b e), b, e) := by
  simp only [getOverlappingInputs, goiFuel, goiLoop, goiPass_deep]

theorem goi_deep (c : Cmp) (files : List FileMeta) (b e : Option IKey) :
    goi c false files b e = some (files.filter (rangeHits c (b.map (·.1)) (e.map (·.1)))) := by
  simp only [goi, getOverlappingInputs_deep, Option.map]

/-! ### 2. one pass -/

theorem goiPass_ok_aux (c : Cmp) (l0 : Bool) (b e : Option Bytes) :
    ∀ (files r : List FileMeta), goiPass c l0 b e files = .ok r →
      r = files.filter (rangeHits c b e) ∧
      (l0 = true → ∀ f ∈ r, stickB c b f = false ∧ stickE c e f = false) := by
  intro files
  induction files with
  | nil =>
    intro r h
    simp only [goiPass, Except.ok.injEq] at h
    subst h
    simp
  | cons f rest ih =>
    intro r h
    rw [goiPass_cons] at h
    split at h
    · next hr =>
      have := ih r h
      rw [List.filter_cons, hr]
      simpa using this
    · next hr =>
      split at h
      · cases h
      · next hb =>
        split at h
        · cases h
        · next he =>
          cases hrec : goiPass c l0 b e rest with
          | error x => rw [hrec] at h; cases h
          | ok r' =>
            rw [hrec] at h
            simp only [Except.ok.injEq] at h
            subst h
            obtain ⟨h1, h2⟩ := ih r' hrec
            have hr' : rangeHits c b e f = true := by simpa using hr
            refine ⟨?_, ?_⟩
            · rw [List.filter_cons, hr', ← h1]; rfl
            · intro hl0 g hg
              subst hl0
              rcases List.mem_cons.mp hg with rfl | hg
              · simpa using And.intro hb he
              · exact h2 rfl g hg

/-- a level-0 pass that completes: the filter by the current range, every picked file inside it -/
theorem goiPass_level0_ok (c : Cmp) (b e : Option Bytes) (files r : List FileMeta)
    (h : goiPass c true b e files = .ok r) :
    r = files.filter (rangeHits c b e) ∧
    ∀ f ∈ r, (∀ ub, b = some ub → c.compare f.sk ub ≠ .lt) ∧ (∀ ue, e = some ue → c.compare f.lk ue ≠ .gt) := by
  obtain ⟨h1, h2⟩ := goiPass_ok_aux c true b e files r h
  refine ⟨h1, fun f hf => ?_⟩
  obtain ⟨hb, he⟩ := h2 rfl f hf
  exact ⟨(stickB_false_iff c b f).mp hb, (stickE_false_iff c e f).mp he⟩

/-- a pass that restarts: one bound widened to the bound of a file that hits the current range -/
theorem goiPass_error (c : Cmp) (l0 : Bool) (b e : Option Bytes) :
    ∀ (files : List FileMeta) (b' e' : Option Bytes), goiPass c l0 b e files = .error (b', e') →
      (e' = e ∧ ∃ ub f, b = some ub ∧ f ∈ files ∧ b' = some f.sk ∧ c.compare f.sk ub = .lt ∧
        rangeHits c b e f = true) ∨
      (b' = b ∧ ∃ ue f, e = some ue ∧ f ∈ files ∧ e' = some f.lk ∧ c.compare f.lk ue = .gt ∧
        rangeHits c b e f = true) := by
  intro files
  induction files with
  | nil => intro b' e' h; simp [goiPass] at h
  | cons f rest ih =>
    intro b' e' h
    have lift : ((e' = e ∧ ∃ ub f, b = some ub ∧ f ∈ rest ∧ b' = some f.sk ∧ c.compare f.sk ub = .lt ∧
          rangeHits c b e f = true) ∨
        (b' = b ∧ ∃ ue f, e = some ue ∧ f ∈ rest ∧ e' = some f.lk ∧ c.compare f.lk ue = .gt ∧
          rangeHits c b e f = true)) →
        ((e' = e ∧ ∃ ub g, b = some ub ∧ g ∈ f :: rest ∧ b' = some g.sk ∧ c.compare g.sk ub = .lt ∧
          rangeHits c b e g = true) ∨
        (b' = b ∧ ∃ ue g, e = some ue ∧ g ∈ f :: rest ∧ e' = some g.lk ∧ c.compare g.lk ue = .gt ∧
          rangeHits c b e g = true)) := by
      rintro (⟨h1, ub, g, h2, h3, h4⟩ | ⟨h1, ue, g, h2, h3, h4⟩)
      · exact .inl ⟨h1, ub, g, h2, List.mem_cons_of_mem _ h3, h4⟩
      · exact .inr ⟨h1, ue, g, h2, List.mem_cons_of_mem _ h3, h4⟩
    rw [goiPass_cons] at h
    split at h
    · exact lift (ih b' e' h)
    · next hr =>
      have hr' : rangeHits c b e f = true := by simpa using hr
      split at h
      · next hb =>
        simp only [Except.error.injEq, Prod.mk.injEq] at h
        obtain ⟨rfl, rfl⟩ := h
        simp only [Bool.and_eq_true] at hb
        cases b with
        | none => simp [stickB] at hb
        | some ub =>
          refine .inl ⟨rfl, ub, f, rfl, List.mem_cons_self, rfl, ?_, hr'⟩
          simpa [stickB] using hb.2
      · split at h
        · next hb he =>
          simp only [Except.error.injEq, Prod.mk.injEq] at h
          obtain ⟨rfl, rfl⟩ := h
          simp only [Bool.and_eq_true] at he
          cases e with
          | none => simp [stickE] at he
          | some ue =>
            refine .inr ⟨rfl, ue, f, rfl, List.mem_cons_self, rfl, ?_, hr'⟩
            simpa [stickE] using he.2
        · cases hrec : goiPass c l0 b e rest with
          | ok r' => rw [hrec] at h; cases h
          | error x =>
            rw [hrec] at h
            simp only [Except.error.injEq] at h
            subst h
            exact lift (ih b' e' hrec)

theorem goiPass_level0_error (c : Cmp) (b e : Option Bytes) (files : List FileMeta) (b' e' : Option Bytes)
    (h : goiPass c true b e files = .error (b', e')) :
    (e' = e ∧ ∃ ub f, b = some ub ∧ f ∈ files ∧ b' = some f.sk ∧ c.compare f.sk ub = .lt ∧
      rangeHits c b e f = true) ∨
    (b' = b ∧ ∃ ue f, e = some ue ∧ f ∈ files ∧ e' = some f.lk ∧ c.compare f.lk ue = .gt ∧
      rangeHits c b e f = true) :=
  goiPass_error c true b e files b' e' h

/-! ### 3. totality: the fuel is enough -/

theorem countP_lt_of_imp {α : Type} (p q : α → Bool) (l : List α)
    (himp : ∀ x ∈ l, q x = true → p x = true) (hex : ∃ x ∈ l, p x = true ∧ q x = false) :
    l.countP q < l.countP p := by
  induction l with
  | nil => obtain ⟨x, hx, _⟩ := hex; cases hx
  | cons a l ih =>
    have hle : l.countP q ≤ l.countP p :=
      List.countP_mono_left (fun x hx => himp x (List.mem_cons_of_mem _ hx))
    obtain ⟨x, hx, hp, hq⟩ := hex
    rw [List.countP_cons, List.countP_cons]
    rcases List.mem_cons.mp hx with rfl | hx
    · rw [if_pos hp, if_neg (by simp [hq])]; omega
    · have := ih (fun x hx => himp x (List.mem_cons_of_mem _ hx)) ⟨x, hx, hp, hq⟩
      have ha := himp a List.mem_cons_self
      by_cases hqa : q a = true
      · rw [if_pos hqa, if_pos (ha hqa)]; omega
      · rw [if_neg hqa]; split <;> omega

/-- the termination measure of the restart loop: files sticking out at the begin side plus files sticking
    out at the end side -/
def goiMu (c : Cmp) (files : List FileMeta) (b e : Option Bytes) : Nat :=
  files.countP (stickB c b) + files.countP (stickE c e)

theorem goiMu_le (c : Cmp) (files : List FileMeta) (b e : Option Bytes) :
    goiMu c files b e ≤ 2 * files.length := by
  have h1 := List.countP_le_length (p := stickB c b) (l := files)
  have h2 := List.countP_le_length (p := stickE c e) (l := files)
  unfold goiMu; omega

/-- every restart strictly decreases the measure -/
theorem goiMu_decrease (c : Cmp) (l0 : Bool) (files : List FileMeta) (b e b' e' : Option Bytes)
    (h : goiPass c l0 b e files = .error (b', e')) : goiMu c files b' e' < goiMu c files b e := by
  rcases goiPass_error c l0 b e files b' e' h with
    ⟨rfl, ub, f, rfl, hf, rfl, hlt, _⟩ | ⟨rfl, ue, f, rfl, hf, rfl, hgt, _⟩
  · have : files.countP (stickB c (some f.sk)) < files.countP (stickB c (some ub)) := by
      apply countP_lt_of_imp
      · intro x _ hx
        simp only [stickB, Option.any_some, beq_iff_eq] at hx ⊢
        exact compare_lt_trans c hx hlt
      · refine ⟨f, hf, ?_, ?_⟩
        · simpa [stickB] using hlt
        · simp [stickB, compare_refl]
    unfold goiMu; omega
  · have : files.countP (stickE c (some f.lk)) < files.countP (stickE c (some ue)) := by
      apply countP_lt_of_imp
      · intro x _ hx
        simp only [stickE, Option.any_some, beq_iff_eq] at hx ⊢
        exact compare_gt_trans c hx hgt
      · refine ⟨f, hf, ?_, ?_⟩
        · simpa [stickE] using hgt
        · simp [stickE, compare_refl]
    unfold goiMu; omega

theorem goiLoop_total (c : Cmp) (l0 : Bool) (files : List FileMeta) :
    ∀ (fuel : Nat) (b e : Option Bytes), goiMu c files b e < fuel →
      ∃ r b' e', goiLoop c l0 files fuel b e = some (r, b', e') := by
  intro fuel
  induction fuel with
  | zero => intro b e h; omega
  | succ n ih =>
    intro b e h
    cases hp : goiPass c l0 b e files with
    | ok r => exact ⟨r, b, e, by simp only [goiLoop, hp]⟩
    | error x =>
      obtain ⟨b1, e1⟩ := x
      have hd := goiMu_decrease c l0 files b e b1 e1 hp
      obtain ⟨r, b', e', hr⟩ := ih b1 e1 (by omega)
      exact ⟨r, b', e', by simp only [goiLoop, hp, hr]⟩

theorem getOverlappingInputs_total (c : Cmp) (level0 : Bool) (files : List FileMeta) (b e : Option Bytes) :
    ∃ r b' e', getOverlappingInputs c level0 files b e = some (r, b', e') := by
  apply goiLoop_total
  have := goiMu_le c files b e
  unfold goiFuel; omega

theorem goi_total (c : Cmp) (level0 : Bool) (files : List FileMeta) (b e : Option IKey) :
    ∃ r, goi c level0 files b e = some r := by
  obtain ⟨r, b', e', h⟩ := getOverlappingInputs_total c level0 files (b.map (·.1)) (e.map (·.1))
  exact ⟨r, by unfold goi; rw [h]; rfl⟩

/-! ### 4. the level-0 specification -/

/-- `(b', e')` is `(b, e)` widened to bounds of files of the level that hit `(b', e')` -/
def Widened (c : Cmp) (files : List FileMeta) (b e b' e' : Option Bytes) : Prop :=
  (b' = none ↔ b = none) ∧ (e' = none ↔ e = none) ∧
  (∀ ub ub', b = some ub → b' = some ub' →
    ub' = ub ∨ (c.compare ub' ub = .lt ∧ ∃ f ∈ files, f.sk = ub' ∧ rangeHits c b' e' f = true)) ∧
  (∀ ue ue', e = some ue → e' = some ue' →
    ue' = ue ∨ (c.compare ue' ue = .gt ∧ ∃ f ∈ files, f.lk = ue' ∧ rangeHits c b' e' f = true))

theorem Widened.refl (c : Cmp) (files : List FileMeta) (b e : Option Bytes) : Widened c files b e b e := by
  refine ⟨Iff.rfl, Iff.rfl, ?_, ?_⟩
  · intro ub ub' h1 h2; rw [h1] at h2; cases h2; exact .inl rfl
  · intro ue ue' h1 h2; rw [h1] at h2; cases h2; exact .inl rfl

/-- widening the range keeps every hit -/
theorem Widened.hits {c : Cmp} {files : List FileMeta} {b e b' e' : Option Bytes}
    (w : Widened c files b e b' e') {f : FileMeta} (h : rangeHits c b e f = true) :
    rangeHits c b' e' f = true := by
  obtain ⟨wb, we, hb, he⟩ := w
  simp only [rangeHits, Bool.not_eq_true', Bool.or_eq_false_iff] at h ⊢
  obtain ⟨h1, h2⟩ := h
  constructor
  · cases hb' : b' with
    | none => rfl
    | some ub' =>
      cases hb0 : b with
      | none => rw [wb.mpr hb0] at hb'; cases hb'
      | some ub =>
        rw [hb0] at h1
        simp only [afterFile, beq_eq_false_iff_ne, ne_eq] at h1 ⊢
        rcases hb ub ub' hb0 hb' with rfl | ⟨hlt, _⟩
        · exact h1
        · intro hgt
          exact h1 (compare_gt_trans c ((compare_lt_iff c ub' ub).mp hlt) hgt)
  · cases he' : e' with
    | none => rfl
    | some ue' =>
      cases he0 : e with
      | none => rw [we.mpr he0] at he'; cases he'
      | some ue =>
        rw [he0] at h2
        simp only [beforeFile, beq_eq_false_iff_ne, ne_eq] at h2 ⊢
        rcases he ue ue' he0 he' with rfl | ⟨hgt, _⟩
        · exact h2
        · intro hlt
          exact h2 (compare_lt_trans c ((compare_gt_iff c ue' ue).mp hgt) hlt)

/-- one restart followed by a widening is a widening -/
theorem Widened.step {c : Cmp} {l0 : Bool} {files : List FileMeta} {b e b1 e1 b' e' : Option Bytes}
    (hp : goiPass c l0 b e files = .error (b1, e1)) (w : Widened c files b1 e1 b' e') :
    Widened c files b e b' e' := by
  have w' := w
  obtain ⟨wb, we, hb, he⟩ := w
  rcases goiPass_error c l0 b e files b1 e1 hp with
    ⟨rfl, ub, f, rfl, hf, rfl, hlt, hh⟩ | ⟨rfl, ue, f, rfl, hf, rfl, hgt, hh⟩
  · refine ⟨?_, we, ?_, he⟩
    · rw [wb]; simp
    · intro ub0 ub' h0 h'
      cases h0
      have hin : rangeHits c (some f.sk) e1 f = true := by
        simp only [rangeHits, Bool.not_eq_true', Bool.or_eq_false_iff] at hh ⊢
        refine ⟨?_, hh.2⟩
        simp only [afterFile, beq_eq_false_iff_ne, ne_eq]
        intro hgt
        have := hh.1
        simp only [afterFile, beq_eq_false_iff_ne, ne_eq] at this
        exact this (compare_gt_trans c ((compare_lt_iff c f.sk ub).mp hlt) hgt)
      rcases hb f.sk ub' rfl h' with rfl | ⟨hlt', hex⟩
      · exact .inr ⟨hlt, f, hf, rfl, w'.hits hin⟩
      · exact .inr ⟨compare_lt_trans c hlt' hlt, hex⟩
  · refine ⟨wb, ?_, hb, ?_⟩
    · rw [we]; simp
    · intro ue0 ue' h0 h'
      cases h0
      have hin : rangeHits c b1 (some f.lk) f = true := by
        simp only [rangeHits, Bool.not_eq_true', Bool.or_eq_false_iff] at hh ⊢
        refine ⟨hh.1, ?_⟩
        simp only [beforeFile, beq_eq_false_iff_ne, ne_eq]
        intro hlt
        have := hh.2
        simp only [beforeFile, beq_eq_false_iff_ne, ne_eq] at this
        exact this (compare_lt_trans c ((compare_gt_iff c f.lk ue).mp hgt) hlt)
      rcases he f.lk ue' rfl h' with rfl | ⟨hgt', hex⟩
      · exact .inr ⟨hgt, f, hf, rfl, w'.hits hin⟩
      · exact .inr ⟨compare_gt_trans c hgt' hgt, hex⟩

/-- the loop ends with a completed pass over a widening of the range it started from -/
theorem goiLoop_spec (c : Cmp) (l0 : Bool) (files : List FileMeta) :
    ∀ (fuel : Nat) (b e : Option Bytes) (r : List FileMeta) (b' e' : Option Bytes),
      goiLoop c l0 files fuel b e = some (r, b', e') →
      goiPass c l0 b' e' files = .ok r ∧ Widened c files b e b' e' := by
  intro fuel
  induction fuel with
  | zero => intro b e r b' e' h; simp [goiLoop] at h
  | succ n ih =>
    intro b e r b' e' h
    cases hp : goiPass c l0 b e files with
    | ok r0 =>
      simp only [goiLoop, hp, Option.some.injEq, Prod.mk.injEq] at h
      obtain ⟨rfl, rfl, rfl⟩ := h
      exact ⟨hp, Widened.refl c files b e⟩
    | error x =>
      obtain ⟨b1, e1⟩ := x
      simp only [goiLoop, hp] at h
      obtain ⟨h1, h2⟩ := ih b1 e1 r b' e' h
      exact ⟨h1, Widened.step hp h2⟩

theorem getOverlappingInputs_level0 (c : Cmp) (files : List FileMeta) (b e : Option Bytes)
    (r : List FileMeta) (b' e' : Option Bytes)
    (h : getOverlappingInputs c true files b e = some (r, b', e')) :
    r = files.filter (rangeHits c b' e')
    ∧ (∀ f ∈ r, (∀ ub, b' = some ub → c.compare f.sk ub ≠ .lt) ∧ (∀ ue, e' = some ue → c.compare f.lk ue ≠ .gt))
    ∧ (b' = none ↔ b = none) ∧ (e' = none ↔ e = none)
    ∧ (∀ ub ub', b = some ub → b' = some ub' → ub' = ub ∨ (c.compare ub' ub = .lt ∧ ∃ f ∈ files, f.sk = ub'))
    ∧ (∀ ue ue', e = some ue → e' = some ue' → ue' = ue ∨ (c.compare ue' ue = .gt ∧ ∃ f ∈ files, f.lk = ue'))
    ∧ (∀ f ∈ files, rangeHits c b e f = true → f ∈ r) := by
  obtain ⟨hp, w⟩ := goiLoop_spec c true files _ b e r b' e' h
  obtain ⟨hr, hin⟩ := goiPass_level0_ok c b' e' files r hp
  refine ⟨hr, hin, w.1, w.2.1, ?_, ?_, ?_⟩
  · intro ub ub' h1 h2
    rcases w.2.2.1 ub ub' h1 h2 with h | ⟨h, f, hf, hk, _⟩
    · exact .inl h
    · exact .inr ⟨h, f, hf, hk⟩
  · intro ue ue' h1 h2
    rcases w.2.2.2 ue ue' h1 h2 with h | ⟨h, f, hf, hk, _⟩
    · exact .inl h
    · exact .inr ⟨h, f, hf, hk⟩
  · intro f hf hh
    rw [hr]
    exact List.mem_filter.mpr ⟨hf, w.hits hh⟩

/-- the hull is attained: a bound that moved is the bound of a *selected* file (no hypothesis on the
    files is needed: the restarting file hits the range of its pass, hence the final one) -/
theorem getOverlappingInputs_level0_hull (c : Cmp) (files : List FileMeta) (b e : Option Bytes)
    (r : List FileMeta) (b' e' : Option Bytes)
    (h : getOverlappingInputs c true files b e = some (r, b', e')) :
    (∀ ub ub', b = some ub → b' = some ub' → ub' = ub ∨ (c.compare ub' ub = .lt ∧ ∃ f ∈ r, f.sk = ub'))
    ∧ (∀ ue ue', e = some ue → e' = some ue' → ue' = ue ∨ (c.compare ue' ue = .gt ∧ ∃ f ∈ r, f.lk = ue')) := by
  obtain ⟨hp, w⟩ := goiLoop_spec c true files _ b e r b' e' h
  obtain ⟨hr, _⟩ := goiPass_level0_ok c b' e' files r hp
  constructor
  · intro ub ub' h1 h2
    rcases w.2.2.1 ub ub' h1 h2 with h | ⟨h, f, hf, hk, hh⟩
    · exact .inl h
    · exact .inr ⟨h, f, by rw [hr]; exact List.mem_filter.mpr ⟨hf, hh⟩, hk⟩
  · intro ue ue' h1 h2
    rcases w.2.2.2 ue ue' h1 h2 with h | ⟨h, f, hf, hk, hh⟩
    · exact .inl h
    · exact .inr ⟨h, f, by rw [hr]; exact List.mem_filter.mpr ⟨hf, hh⟩, hk⟩

/-! ### 5. closedness -/

/-- a file inside the range and a file missing the range have disjoint user-key ranges -/
theorem userRangesOverlap_false_of_inside_of_miss (c : Cmp) (b e : Option Bytes) (f g : FileMeta)
    (hb : ∀ ub, b = some ub → c.compare f.sk ub ≠ .lt) (he : ∀ ue, e = some ue → c.compare f.lk ue ≠ .gt)
    (hg : rangeHits c b e g = false) : userRangesOverlap c f g = false := by
  simp only [rangeHits, Bool.not_eq_eq_eq_not, Bool.not_false, Bool.or_eq_true] at hg
  simp only [userRangesOverlap, Bool.not_eq_eq_eq_not, Bool.not_false, Bool.or_eq_true, beq_iff_eq]
  rcases hg with hg | hg
  · cases b with
    | none => simp [afterFile] at hg
    | some ub =>
      simp only [afterFile, beq_iff_eq] at hg
      -- g.lk < ub ≤ f.sk
      right
      have h1 : c.compare g.lk ub = .lt := (compare_gt_iff c ub g.lk).mp hg
      have h2 : c.compare ub f.sk ≠ .gt := fun h => hb ub rfl ((compare_gt_iff c ub f.sk).mp h)
      exact compare_lt_of_lt_of_ne_gt c h1 h2
  · cases e with
    | none => simp [beforeFile] at hg
    | some ue =>
      simp only [beforeFile, beq_iff_eq] at hg
      -- f.lk ≤ ue < g.sk
      left
      exact compare_lt_of_ne_gt_of_lt c (he ue rfl) hg

theorem getOverlappingInputs_level0_closed (c : Cmp) (files : List FileMeta) (b e : Option Bytes)
    (r : List FileMeta) (b' e' : Option Bytes)
    (h : getOverlappingInputs c true files b e = some (r, b', e')) :
    ∀ g ∈ files, g ∉ r → ∀ f ∈ r, userRangesOverlap c f g = false := by
  obtain ⟨hr, hin, _⟩ := getOverlappingInputs_level0 c files b e r b' e' h
  intro g hg hgr f hf
  have hmiss : rangeHits c b' e' g = false := by
    cases hh : rangeHits c b' e' g with
    | false => rfl
    | true => exact absurd (by rw [hr]; exact List.mem_filter.mpr ⟨hg, hh⟩) hgr
  exact userRangesOverlap_false_of_inside_of_miss c b' e' f g (hin f hf).1 (hin f hf).2 hmiss

/-! ### 6. the result is a sublist of the level -/

theorem getOverlappingInputs_sublist (c : Cmp) (level0 : Bool) (files : List FileMeta) (b e : Option Bytes)
    (r : List FileMeta) (b' e' : Option Bytes)
    (h : getOverlappingInputs c level0 files b e = some (r, b', e')) : r.Sublist files := by
  obtain ⟨hp, _⟩ := goiLoop_spec c level0 files _ b e r b' e' h
  rw [(goiPass_ok_aux c level0 b' e' files r hp).1]
  exact List.filter_sublist

theorem goi_some {c : Cmp} {level0 : Bool} {files : List FileMeta} {b e : Option IKey} {r : List FileMeta}
    (h : goi c level0 files b e = some r) :
    ∃ b' e', getOverlappingInputs c level0 files (b.map (·.1)) (e.map (·.1)) = some (r, b', e') := by
  unfold goi at h
  cases hg : getOverlappingInputs c level0 files (b.map (·.1)) (e.map (·.1)) with
  | none => rw [hg] at h; cases h
  | some x =>
    obtain ⟨r0, b', e'⟩ := x
    rw [hg] at h
    simp only [Option.map, Option.some.injEq] at h
    subst h
    exact ⟨b', e', rfl⟩

theorem goi_sublist (c : Cmp) (level0 : Bool) (files : List FileMeta) (b e : Option IKey) (r : List FileMeta)
    (h : goi c level0 files b e = some r) : r.Sublist files := by
  obtain ⟨b', e', hg⟩ := goi_some h
  exact getOverlappingInputs_sublist c level0 files _ _ r b' e' hg

theorem goi_pairwise {R : FileMeta → FileMeta → Prop} (c : Cmp) (level0 : Bool) (files : List FileMeta)
    (b e : Option IKey) (r : List FileMeta) (h : goi c level0 files b e = some r)
    (hp : files.Pairwise R) : r.Pairwise R :=
  hp.sublist (goi_sublist c level0 files b e r h)

theorem goi_nodup (c : Cmp) (level0 : Bool) (files : List FileMeta) (b e : Option IKey) (r : List FileMeta)
    (h : goi c level0 files b e = some r) (hn : files.Nodup) : r.Nodup :=
  goi_pairwise c level0 files b e r h hn

theorem goi_mem (c : Cmp) (level0 : Bool) (files : List FileMeta) (b e : Option IKey) (r : List FileMeta)
    (h : goi c level0 files b e = some r) : ∀ f ∈ r, f ∈ files :=
  fun _ hf => (goi_sublist c level0 files b e r h).subset hf

theorem goi_level0_closed (c : Cmp) (files : List FileMeta) (b e : Option IKey) (r : List FileMeta)
    (h : goi c true files b e = some r) :
    (∀ g ∈ files, g ∉ r → ∀ f ∈ r, userRangesOverlap c f g = false)
    ∧ (∀ f ∈ files, rangeHits c (b.map (·.1)) (e.map (·.1)) f = true → f ∈ r)
    ∧ r.Sublist files := by
  obtain ⟨b', e', hg⟩ := goi_some h
  exact ⟨getOverlappingInputs_level0_closed c files _ _ r b' e' hg,
    (getOverlappingInputs_level0 c files _ _ r b' e' hg).2.2.2.2.2.2,
    goi_sublist c true files b e r h⟩

end Lcdb.Policy
