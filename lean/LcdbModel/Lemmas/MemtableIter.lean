/-
  Helper lemmas for Model/Memtable.lean, part 2: seek / get / the iterator against the run of entries.
-/
import LcdbModel.Lemmas.Memtable
import LcdbModel.Lemmas.IterSimDefs
namespace Lcdb.Memtable
open Lcdb Lcdb.Skiplist

/-- the node list `L` of the skiplist lines up with the entries `es` -/
structure Aligned (mt : Memtable) (es : List MEntry) (L : List Nat) : Prop where
  wf : ∀ e ∈ es, e.wf
  inv : Skiplist.Inv (memKeyCmp mt.c) mt.table L
  len : L.length = es.length
  key : ∀ i (hi : i < L.length) (hi' : i < es.length), keyOf mt.table L[i] = some (es[i].enc)

theorem map_keyOf {sl : SkipList Bytes} (l : List Nat) (hk : ∀ x ∈ l, ∃ k, keyOf sl x = some k) :
    l.map (keyOf sl) = (l.filterMap (keyOf sl)).map some := by
  induction l with
  | nil => rfl
  | cons a t ih =>
    obtain ⟨k, hk'⟩ := hk a (by simp)
    simp only [List.map_cons, List.filterMap_cons, hk']
    rw [ih (fun x hx => hk x (by simp [hx]))]

theorem Holds.aligned {mt : Memtable} {es : List MEntry} (h : Holds mt es) : ∃ L, Aligned mt es L := by
  obtain ⟨hwf, L, hinv, hk⟩ := h
  have hm := map_keyOf L hinv.hasKey
  rw [hk, List.map_map] at hm
  have hlen : L.length = es.length := by simpa using congrArg List.length hm
  refine ⟨L, hwf, hinv, hlen, ?_⟩
  intro i hi hi'
  have := congrArg (fun l => l[i]?) hm
  simp only [List.getElem?_map, List.getElem?_eq_getElem hi, List.getElem?_eq_getElem hi', Option.map_some,
    Function.comp] at this
  simpa using this

theorem find?_prefix {β : Type} (p : β → Bool) (l : List β) (j : Nat) (h1 : ∀ i (hi : i < l.length), i < j → p l[i] = false)
    (h2 : ∀ (hj : j < l.length), p l[j] = true) : l.find? p = l[j]? ∧ l.findIdx? p = (if j < l.length then some j else none) := by
  induction l generalizing j with
  | nil => simp
  | cons a t ih =>
    cases j with
    | zero =>
      have := h2 (by simp)
      simp at this
      simp [List.find?_cons, List.findIdx?_cons, this]
    | succ j =>
      have ha := h1 0 (by simp) (by omega)
      simp at ha
      obtain ⟨ih1, ih2⟩ := ih j
        (fun i hi hij => by
          have := h1 (i + 1) (by simp; omega) (by omega)
          rw [List.getElem_cons_succ] at this; exact this)
        (fun hj => by
          have := h2 (by simp; omega)
          rw [List.getElem_cons_succ] at this; exact this)
      simp only [List.find?_cons, ha, List.findIdx?_cons, List.getElem?_cons_succ, ih1, ih2, List.length_cons]
      by_cases hj : j < t.length
      · simp [hj]
      · simp [hj]

section aligned
variable {mt : Memtable} {es : List MEntry} {L : List Nat}

/-- seek to the length-prefixed internal key `(k, pk)` lands on the node whose index `runSeekIdx` computes -/
theorem seek_spec (tok : Bytes → String) (h : Aligned mt es L) (k : Bytes) (pk : Nat) (hk : k.length + 8 < 2 ^ 32) (hpk : pk < 2 ^ 64) :
    ∃ j, iterSeek (memKeyCmp mt.c) mt.table (sliceEnc (k ++ fixedEnc 8 pk)) = some L[j]? ∧
      runSeekIdx mt.c (es.map (MEntry.toEntry tok)) k pk = (if j < L.length then some j else none) ∧
      es.find? (fun e => !ikLt mt.c e.ukey e.packed k pk) = es[j]? := by
  obtain ⟨A, B, hL, hA, hB⟩ := sorted_split (memKeyCmp_ok mt.c) h.inv (sliceEnc (k ++ fixedEnc 8 pk))
  have hseek := iterSeek_spec h.inv _ A B hL hA hB
  have hlen := h.len
  have hbefore : ∀ i (hi : i < es.length), i < A.length → ikLt mt.c es[i].ukey es[i].packed k pk = true := by
    intro i hi hiA
    have hiL : i < L.length := by omega
    have hmem : L[i] ∈ A := by
      have : L[i] = A[i] := by simp only [hL]; rw [List.getElem_append_left hiA]
      rw [this]; exact List.getElem_mem hiA
    obtain ⟨ka, h1, h2⟩ := afterKey_true (hA _ hmem)
    rw [h.key i hiL hi] at h1; cases h1
    exact (memKeyCmp_enc_target mt.c (h.wf _ (List.getElem_mem hi)) k pk hk hpk).mp h2
  have hat : ∀ (hj : A.length < es.length), ikLt mt.c es[A.length].ukey es[A.length].packed k pk = false := by
    intro hj
    have hjL : A.length < L.length := by omega
    have hmem : L[A.length] ∈ B := by
      have hB0 : 0 < B.length := by rw [hL, List.length_append] at hjL; omega
      have : L[A.length] = B[0] := by simp only [hL]; rw [List.getElem_append_right (by omega)]; simp
      rw [this]; exact List.getElem_mem hB0
    obtain ⟨ka, h1, h2⟩ := afterKey_false (hB _ hmem)
    rw [h.key _ hjL hj] at h1; cases h1
    cases hx : ikLt mt.c es[A.length].ukey es[A.length].packed k pk with
    | false => rfl
    | true => exact absurd ((memKeyCmp_enc_target mt.c (h.wf _ (List.getElem_mem hj)) k pk hk hpk).mpr hx) h2
  refine ⟨A.length, ?_, ?_, ?_⟩
  · rw [hseek]; congr 1
    simp only [hL]
    rw [List.getElem?_append_right (by omega)]; simp [List.head?_eq_getElem?]
  · have := (find?_prefix (fun e : Entry => !ikLt mt.c e.ukey e.packed k pk) (es.map (MEntry.toEntry tok)) A.length
      (by intro i hi hij
          simp only [List.length_map] at hi
          simp [List.getElem_map, MEntry.toEntry, Entry.packed]
          exact hbefore i hi hij)
      (by intro hj
          simp only [List.length_map] at hj
          simp [List.getElem_map, MEntry.toEntry, Entry.packed]
          exact hat hj)).2
    unfold runSeekIdx
    rw [this]; simp [hlen]
  · exact (find?_prefix (fun e : MEntry => !ikLt mt.c e.ukey e.packed k pk) es A.length
      (by intro i hi hij; simp [hbefore i hi hij])
      (by intro hj; simp [hat hj])).1

/-- what the accessors read back from the node at index `i` -/
theorem iterEntry_at (tok : Bytes → String) (h : Aligned mt es L) (i : Nat) (hi : i < L.length) (hi' : i < es.length) :
    iterEntry tok mt (some L[i]) = some (es[i].toEntry tok) := by
  have hwf := h.wf _ (List.getElem_mem hi')
  simp only [iterEntry, iterKV, iterKey, h.key i hi hi', MEntry.enc]
  rw [decodeEntry_encodeEntry _ _ _ _ hwf.1 hwf.2.1]
  have hl : ¬ (ikeyEnc es[i].ukey es[i].seq es[i].kind).length < 8 := by
    unfold ikeyEnc; rw [List.length_append, fixedEnc_length]; omega
  have hu : ikeyUser (ikeyEnc es[i].ukey es[i].seq es[i].kind) = es[i].ukey := ikeyUser_enc _ _
  have hn : ikeyNum (ikeyEnc es[i].ukey es[i].seq es[i].kind) = packSeqType es[i].seq es[i].kind :=
    ikeyNum_enc _ _ (MEntry.packed_lt hwf)
  simp only []
  rw [if_neg hl, hu, hn]
  have h4 := hwf.2.2.2
  simp only [MEntry.toEntry, packSeqType]
  congr 2
  · omega
  · omega

/-- the relation between the skiplist iterator (a node) and the cursor over the run (an index) -/
def IterRel (L : List Nat) (it : Iter) (p : Option Nat) : Prop :=
  it = p.bind (L[·]?) ∧ ∀ i, p = some i → i < L.length

theorem IterRel.none : IterRel L none none := ⟨rfl, by simp⟩

theorem iterRel_of_getElem? (j : Nat) : IterRel L L[j]? (if j < L.length then some j else none) := by
  by_cases hj : j < L.length
  · simp [IterRel, hj]
  · simp [IterRel, hj]

end aligned
end Lcdb.Memtable
