/-
  Shared definitions for the whole-table theorems (Props/TableProps.lean):

  * `tableLayout file`    what a checksum-verifying reader finds in a file: footer, index block,
                          and for every index entry the handle, the block contents and its entries
  * `TableWF o file es`   decidable well-formedness of `file` as a table holding exactly `es`
  * `OnPosT`, `TOpsOk`    vocabulary of the iterator theorems
  * `AlteredOK`           the hypothesis of the partial-alteration theorem (C11)

  Definitions only; lemmas live in Lemmas/Table*.lean.
-/
import LcdbModel.Model.Table
import LcdbModel.Lemmas.CursorDefs
namespace Lcdb

/-! ### canonical blocks -/

/-- `data` is a block the block builder writes for `es` with SOME restart interval `≥ 1`
    (intervals above `es.length` all give the same bytes, hence the bound).  The restart
    interval is not part of table well-formedness. -/
def CanonBlock (data : Bytes) (es : List (Bytes × Bytes)) : Prop :=
  ∃ ri, ri < es.length + 1 ∧ data = blockBuild (ri + 1) es

instance (data : Bytes) (es : List (Bytes × Bytes)) : Decidable (CanonBlock data es) := by
  unfold CanonBlock; exact inferInstance

/-! ### what a verifying reader finds in a file -/

/-- one data block as named by an index entry -/
structure BlkInfo where
  /-- the index key -/
  sep : Bytes
  /-- the index value (encoded handle, possibly followed by more bytes) -/
  hv : Bytes
  handle : BlockHandle
  /-- block contents after checksum verification and decompression -/
  contents : Bytes
  entries : List (Bytes × Bytes)

def blkInfo (file : Bytes) (ie : Bytes × Bytes) : Option BlkInfo :=
  match handleRead ie.2 with
  | none => none
  | some (h, _) =>
    match readBlock file h.offset h.size true with
    | .error _ => none
    | .ok c =>
      match blockParse c with
      | none => none
      | some es => some { sep := ie.1, hv := ie.2, handle := h, contents := c, entries := es }

def blkInfos (file : Bytes) : List (Bytes × Bytes) → Option (List BlkInfo)
  | [] => some []
  | ie :: rest =>
    match blkInfo file ie, blkInfos file rest with
    | some b, some bs => some (b :: bs)
    | _, _ => none

structure Layout where
  footer : Footer
  /-- contents of the index block -/
  index : Bytes
  blocks : List BlkInfo

/-- footer, index block (checksum verified), its entries, and every data block they name
    (checksum verified, decompressed, parsed) -/
def tableLayout (file : Bytes) : Option Layout :=
  if file.length < footerSize then none
  else
    match footerDecode (pread file (file.length - footerSize) footerSize) with
    | none => none
    | some ft =>
      match readBlock file ft.index.offset ft.index.size true with
      | .error _ => none
      | .ok idx =>
        match blockParse idx with
        | none => none
        | some ixs =>
          match blkInfos file ixs with
          | none => none
          | some bs => some { footer := ft, index := idx, blocks := bs }

/-! ### index keys -/

def firstKeyOf (es : List (Bytes × Bytes)) : Bytes := (es.head?.map (·.1)).getD []
def lastKeyOf (es : List (Bytes × Bytes)) : Bytes := (es.getLast?.map (·.1)).getD []

/-- an index key is either the block's last key, or `(u, MAX_SEQUENCE, SEEK)` with `u` strictly
    between the user keys of the block's last key and of the next block's first key -/
def sepForm (c : Cmp) (last sep : Bytes) : Option Bytes → Prop
  | none => sep = last ∨
      (ikeyNum sep = packSeqType maxSequence valtypeSeek ∧ c.compare (ikeyUser last) (ikeyUser sep) = .lt)
  | some f => sep = last ∨
      (ikeyNum sep = packSeqType maxSequence valtypeSeek ∧ c.compare (ikeyUser last) (ikeyUser sep) = .lt ∧
       c.compare (ikeyUser sep) (ikeyUser f) = .lt)

/-- `last ≤ sep`, `sep < first of the next block` (if any), shape as in `sepForm` -/
def sepOk (c : Cmp) (last sep : Bytes) (next : Option Bytes) : Prop :=
  8 ≤ sep.length ∧ sep.length < 2 ^ 32 ∧ ikeyCmp c last sep ≠ .gt ∧
  (∀ f, next = some f → ikeyCmp c sep f = .lt) ∧ sepForm c last sep next

instance (c : Cmp) (last sep : Bytes) : (next : Option Bytes) → Decidable (sepForm c last sep next)
  | none => inferInstanceAs (Decidable (sep = last ∨
      (ikeyNum sep = packSeqType maxSequence valtypeSeek ∧ c.compare (ikeyUser last) (ikeyUser sep) = .lt)))
  | some f => inferInstanceAs (Decidable (sep = last ∨
      (ikeyNum sep = packSeqType maxSequence valtypeSeek ∧ c.compare (ikeyUser last) (ikeyUser sep) = .lt ∧
       c.compare (ikeyUser sep) (ikeyUser f) = .lt)))

/- the instances below are written so that they also reduce in the kernel (`decide +kernel`):
   no `simp`/`split` casts in the data part -/
instance (c : Cmp) (last sep : Bytes) : (next : Option Bytes) → Decidable (sepOk c last sep next)
  | none =>
    decidable_of_iff (8 ≤ sep.length ∧ sep.length < 2 ^ 32 ∧ ikeyCmp c last sep ≠ .gt ∧
        sepForm c last sep none)
      ⟨fun h => ⟨h.1, h.2.1, h.2.2.1, (fun _ hn => nomatch hn), h.2.2.2⟩,
       fun h => ⟨h.1, h.2.1, h.2.2.1, h.2.2.2.2⟩⟩
  | some f =>
    decidable_of_iff (8 ≤ sep.length ∧ sep.length < 2 ^ 32 ∧ ikeyCmp c last sep ≠ .gt ∧
        ikeyCmp c sep f = .lt ∧ sepForm c last sep (some f))
      ⟨fun h => ⟨h.1, h.2.1, h.2.2.1, (fun _ hs => by cases hs; exact h.2.2.2.1), h.2.2.2.2⟩,
       fun h => ⟨h.1, h.2.1, h.2.2.1, h.2.2.2.1 f rfl, h.2.2.2.2⟩⟩

def sepsOk (c : Cmp) : List BlkInfo → Prop
  | [] => True
  | [b] => sepOk c (lastKeyOf b.entries) b.sep none
  | b :: b' :: rest =>
    sepOk c (lastKeyOf b.entries) b.sep (some (firstKeyOf b'.entries)) ∧ sepsOk c (b' :: rest)

instance sepsOkDec (c : Cmp) : (bs : List BlkInfo) → Decidable (sepsOk c bs)
  | [] => isTrue trivial
  | [b] => inferInstanceAs (Decidable (sepOk c (lastKeyOf b.entries) b.sep none))
  | b :: b' :: rest =>
    have := sepsOkDec c (b' :: rest)
    inferInstanceAs (Decidable
      (sepOk c (lastKeyOf b.entries) b.sep (some (firstKeyOf b'.entries)) ∧ sepsOk c (b' :: rest)))

/-! ### filter -/

/-- whatever filter block the reader ends up with (for this `paranoid_checks` setting) matches
    every key of every data block at that block's offset: no false negatives -/
def filterCovers (o : TableOpts) (file : Bytes) (L : Layout) (paranoid : Bool) : Prop :=
  match o.policy, readMeta o file paranoid L.footer with
  | some p, .ok (some fc) =>
    ∀ b ∈ L.blocks, ∀ e ∈ b.entries, filterMatch p fc b.handle.offset e.1 = true
  | _, _ => True

instance (o : TableOpts) (file : Bytes) (L : Layout) (paranoid : Bool) :
    Decidable (filterCovers o file L paranoid) :=
  match h1 : o.policy, h2 : readMeta o file paranoid L.footer with
  | some p, .ok (some fc) =>
    decidable_of_iff (∀ b ∈ L.blocks, ∀ e ∈ b.entries, filterMatch p fc b.handle.offset e.1 = true)
      (by unfold filterCovers; rw [h1, h2])
  | none, _ => isTrue (by unfold filterCovers; rw [h1]; trivial)
  | some _, .ok none => isTrue (by unfold filterCovers; rw [h1, h2]; trivial)
  | some _, .error _ => isTrue (by unfold filterCovers; rw [h1, h2]; trivial)

/-- the metaindex block passes its checksum, and if it names a filter block (for this policy)
    that block passes its checksum too -/
def metaReadable (o : TableOpts) (file : Bytes) (L : Layout) : Prop :=
  (∃ c, readBlock file L.footer.metaindex.offset L.footer.metaindex.size true = .ok c) ∧
  match findFilterHandle o file true L.footer with
  | .ok (some v) =>
    match handleRead v with
    | some (h, _) => ∃ c, readBlock file h.offset h.size true = .ok c
    | none => True
  | _ => True

instance (file : Bytes) (off sz : Nat) : Decidable (∃ c, readBlock file off sz true = .ok c) :=
  match h : readBlock file off sz true with
  | .ok c => isTrue ⟨c, rfl⟩
  | .error e => isFalse (by intro ⟨c, hc⟩; cases hc)

/-- second half of `metaReadable` -/
def filterReadable (o : TableOpts) (file : Bytes) (L : Layout) : Prop :=
  match findFilterHandle o file true L.footer with
  | .ok (some v) =>
    match handleRead v with
    | some (h, _) => ∃ c, readBlock file h.offset h.size true = .ok c
    | none => True
  | _ => True

instance (o : TableOpts) (file : Bytes) (L : Layout) : Decidable (filterReadable o file L) :=
  match h1 : findFilterHandle o file true L.footer with
  | .ok (some v) =>
    match h2 : handleRead v with
    | some (h, r) =>
      decidable_of_iff (∃ c, readBlock file h.offset h.size true = .ok c)
        (by unfold filterReadable; rw [h1]; simp only [h2])
    | none => isTrue (by unfold filterReadable; rw [h1]; simp only [h2])
  | .ok none => isTrue (by unfold filterReadable; rw [h1]; trivial)
  | .error _ => isTrue (by unfold filterReadable; rw [h1]; trivial)

instance (o : TableOpts) (file : Bytes) (L : Layout) : Decidable (metaReadable o file L) :=
  decidable_of_iff
    ((∃ c, readBlock file L.footer.metaindex.offset L.footer.metaindex.size true = .ok c) ∧
      filterReadable o file L)
    (by unfold metaReadable filterReadable; exact Iff.rfl)

/-! ### table well-formedness -/

/-- what readers need from the layout found in `file` for it to hold exactly `es`:
    canonical index and data blocks (any restart interval, any cut positions, any compression
    choice), non-empty data blocks that partition `es` in order, sizes below 2^32, strictly sorted
    internal keys of at least 8 bytes, valid index keys (any valid separator choice), a readable
    metaindex/filter block and no filter false negatives. -/
def Layout.Good (L : Layout) (o : TableOpts) (file : Bytes) (es : List (Bytes × Bytes)) : Prop :=
  CanonBlock L.index (L.blocks.map fun b => (b.sep, b.hv)) ∧
  L.index.length < 2 ^ 32 ∧
  (∀ b ∈ L.blocks, b.hv.length < 2 ^ 32 ∧ CanonBlock b.contents b.entries ∧ b.entries ≠ [] ∧
      b.contents.length < 2 ^ 32) ∧
  es = L.blocks.flatMap (·.entries) ∧
  (∀ e ∈ es, 8 ≤ e.1.length ∧ e.1.length < 2 ^ 32 ∧ e.2.length < 2 ^ 32) ∧
  SortedKeys (ikeyCmp o.cmp) (es.map (·.1)) ∧
  sepsOk o.cmp L.blocks ∧
  metaReadable o file L ∧
  filterCovers o file L true ∧ filterCovers o file L false

instance (L : Layout) (o : TableOpts) (file : Bytes) (es : List (Bytes × Bytes)) :
    Decidable (L.Good o file es) := by
  unfold Layout.Good SortedKeys; exact inferInstance

/-- `file` is a well-formed table (for readers configured with `o.cmp` and `o.filterBits`)
    holding exactly the entries `es`.  Block cut positions, restart intervals, the compression
    choice per block and the choice of separators are NOT constrained beyond validity. -/
def TableWF (o : TableOpts) (file : Bytes) (es : List (Bytes × Bytes)) : Prop :=
  match tableLayout file with
  | none => False
  | some L => L.Good o file es

instance (o : TableOpts) (file : Bytes) (es : List (Bytes × Bytes)) : Decidable (TableWF o file es) :=
  match h : tableLayout file with
  | none => isFalse (fun hw => by unfold TableWF at hw; rw [h] at hw; exact hw)
  | some L => decidable_of_iff (L.Good o file es) (by unfold TableWF; rw [h])

/-! ### vocabulary of the iterator theorems -/

/-- the table iterator `it` is where the cursor position `p` over `es` says -/
def OnPosT (es : List (Bytes × Bytes)) (it : TwoIter) : Option Nat → Prop
  | none => it.valid = false
  | some i => ∃ h : i < es.length, it.valid = true ∧ it.key = es[i].1 ∧ it.value = es[i].2

/-- seek targets are internal keys (at least 8 bytes) -/
def TOpsOk (ops : List BlockOp) : Prop :=
  ∀ op ∈ ops, ∀ x, op.target? = some x → 8 ≤ x.length

/-- the reference lookup: first entry not below `ikey` -/
def refSeek (c : Cmp) (es : List (Bytes × Bytes)) (ikey : Bytes) : Option (Bytes × Bytes) :=
  es.find? fun e => ikeyCmp c e.1 ikey != .lt

/-- what `save_value` (version_set.c) lets the caller see of a get: the entry handed to the
    callback, if its user key is the one looked up -/
def GetResult.visible (g : GetResult) (ikey : Bytes) : Option (Bytes × Bytes) :=
  g.found.filter fun e => ikeyUser e.1 == ikeyUser ikey

/-! ### partial alteration (C11) -/

/-- the stored block `h` of `file` is, in `file'`, either byte-identical (contents, type, crc)
    or fails its checksum -/
def BlockRegionOK (file file' : Bytes) (h : BlockHandle) : Prop :=
  pread file' h.offset (h.size + blockTrailerSize) = pread file h.offset (h.size + blockTrailerSize) ∨
  blockCrcOk (pread file' h.offset (h.size + blockTrailerSize)) h.size = some false

/-- `file'` differs from `file` only inside checksummed block regions, and every region that
    held a checksum-valid block and was touched no longer passes its checksum ("no CRC
    collision"); the footer is untouched as far as `footerDecode` can see -/
structure AlteredOK (file file' : Bytes) : Prop where
  len : file'.length = file.length
  footer : footerDecode (pread file' (file'.length - footerSize) footerSize)
            = footerDecode (pread file (file.length - footerSize) footerSize)
  blocks : ∀ h : BlockHandle, (∃ c, readBlock file h.offset h.size true = .ok c) →
            BlockRegionOK file file' h

end Lcdb
