/-
  Helpers for `no_fault_all_ok` (statuses under an oracle without faults) and
  `ok_run_abstracts_write_then_sync` (the bridge from system-call traces to `Disk.Ev` via `absGo`).
-/
import LcdbModel.Lemmas.WFileFs
namespace Lcdb.WFile
open Lcdb.Disk (FName)

/-! ### absGo over the events of one open file -/

/-- only `sync f` / `syncDir` events -/
def OnlySyncs (f : FName) (l : List Disk.Ev) : Prop := ∀ e ∈ l, e = Disk.Ev.sync f ∨ e = Disk.Ev.syncDir

theorem onlySyncs_nil (f : FName) : OnlySyncs f [] := by intro e he; simp at he

theorem onlySyncs_cons {f : FName} {x : Disk.Ev} {l : List Disk.Ev} (hx : x = Disk.Ev.sync f ∨ x = Disk.Ev.syncDir)
    (hl : OnlySyncs f l) : OnlySyncs f (x :: l) := by
  intro e he
  simp only [List.mem_cons] at he
  rcases he with he | he
  · subst he; exact hx
  · exact hl e he

theorem full_cross_false {full cur d : Bytes} (hp : full <+: cur) : ¬ (cur ≠ full ∧ cur ++ d = full) := by
  intro ⟨h1, h2⟩
  obtain ⟨s, hs⟩ := hp
  have hl : (cur ++ d).length = full.length := by rw [h2]
  rw [← hs] at hl
  simp only [List.length_append] at hl
  have : s = [] := List.eq_nil_of_length_eq_zero (by omega)
  subst this
  exact h1 (by simpa using hs.symm)

/-- once the record is complete no further `append` is emitted -/
theorem absGo_done (f : FName) (full : Bytes) (r : Disk.Rec) : ∀ (t : List Sys) (cur : Bytes),
    (∀ e ∈ t, e.isBody = true) → full <+: cur → OnlySyncs f (absGo f full r cur t) := by
  intro t
  induction t with
  | nil => intro cur _ _; simp [absGo]; exact onlySyncs_nil f
  | cons e t ih =>
    intro cur h hp
    have he := h e (List.mem_cons_self ..)
    have ht : ∀ x ∈ t, x.isBody = true := fun x hx => h x (List.mem_cons_of_mem _ hx)
    cases e with
    | write q d =>
      simp only [absGo, full_cross_false hp, ↓reduceIte, List.nil_append]
      exact ih _ ht (hp.trans (List.prefix_append _ _))
    | writeErr q x => simp only [absGo]; exact ih _ ht hp
    | openDir x => simp only [absGo]; exact ih _ ht hp
    | fsync dir x =>
      cases dir <;> cases x
      · simp only [absGo]; exact onlySyncs_cons (Or.inl rfl) (ih _ ht hp)
      · simp only [absGo]; exact ih _ ht hp
      · simp only [absGo]; exact onlySyncs_cons (Or.inr rfl) (ih _ ht hp)
      · simp only [absGo]; exact ih _ ht hp
    | close dir x =>
      cases dir
      · simp [Sys.isBody] at he
      · simp only [absGo]; exact ih _ ht hp
    | openW g x => simp [Sys.isBody] at he
    | rename a b x => simp [Sys.isBody] at he
    | unlink a x => simp [Sys.isBody] at he

/-- the record is completed by exactly one write(2) of the trace: one `append`, only syncs around it -/
theorem absGo_cross (f : FName) (full : Bytes) (r : Disk.Rec) : ∀ (t : List Sys) (cur : Bytes),
    (∀ e ∈ t, e.isBody = true) → cur ≠ full → cur ++ transferred t = full →
    ∃ A B, absGo f full r cur t = A ++ [Disk.Ev.append f r] ++ B ∧ OnlySyncs f A ∧ OnlySyncs f B := by
  intro t
  induction t with
  | nil => intro cur _ h1 h2; simp [transferred] at h2; exact absurd h2 h1
  | cons e t ih =>
    intro cur h h1 h2
    have he := h e (List.mem_cons_self ..)
    have ht : ∀ x ∈ t, x.isBody = true := fun x hx => h x (List.mem_cons_of_mem _ hx)
    cases e with
    | write q d =>
      simp only [transferred] at h2
      by_cases hx : cur ++ d = full
      · refine ⟨[], absGo f full r (cur ++ d) t, ?_, onlySyncs_nil f, ?_⟩
        · simp [absGo, h1, hx]
        · exact absGo_done f full r t _ ht (by rw [hx]; exact List.prefix_refl _)
      · obtain ⟨A, B, e1, e2, e3⟩ := ih (cur ++ d) ht hx (by rw [List.append_assoc]; exact h2)
        refine ⟨A, B, ?_, e2, e3⟩
        simp [absGo, hx, e1]
    | writeErr q x => simp only [transferred] at h2; simp only [absGo]; exact ih _ ht h1 h2
    | openDir x => simp only [transferred] at h2; simp only [absGo]; exact ih _ ht h1 h2
    | fsync dir x =>
      simp only [transferred] at h2
      obtain ⟨A, B, e1, e2, e3⟩ := ih cur ht h1 h2
      cases dir <;> cases x
      · exact ⟨Disk.Ev.sync f :: A, B, by simp [absGo, e1], onlySyncs_cons (Or.inl rfl) e2, e3⟩
      · exact ⟨A, B, by simp [absGo, e1], e2, e3⟩
      · exact ⟨Disk.Ev.syncDir :: A, B, by simp [absGo, e1], onlySyncs_cons (Or.inr rfl) e2, e3⟩
      · exact ⟨A, B, by simp [absGo, e1], e2, e3⟩
    | close dir x =>
      cases dir
      · simp [Sys.isBody] at he
      · simp only [transferred] at h2; simp only [absGo]; exact ih _ ht h1 h2
    | openW g x => simp [Sys.isBody] at he
    | rename a b x => simp [Sys.isBody] at he
    | unlink a x => simp [Sys.isBody] at he

theorem absGo_append_body (f : FName) (full : Bytes) (r : Disk.Rec) : ∀ (t1 : List Sys) (cur : Bytes) (t2 : List Sys),
    (∀ e ∈ t1, e.isBody = true) →
    absGo f full r cur (t1 ++ t2) = absGo f full r cur t1 ++ absGo f full r (cur ++ transferred t1) t2 := by
  intro t1
  induction t1 with
  | nil => intro cur t2 _; simp [absGo, transferred]
  | cons e t ih =>
    intro cur t2 h
    have he := h e (List.mem_cons_self ..)
    have ht : ∀ x ∈ t, x.isBody = true := fun x hx => h x (List.mem_cons_of_mem _ hx)
    cases e with
    | write q d => simp [absGo, transferred, ih _ t2 ht]
    | writeErr q x => simp [absGo, transferred, ih _ t2 ht]
    | openDir x => simp [absGo, transferred, ih _ t2 ht]
    | fsync dir x => cases dir <;> cases x <;> simp [absGo, transferred, ih _ t2 ht]
    | close dir x =>
      cases dir
      · simp [Sys.isBody] at he
      · simp [absGo, transferred, ih _ t2 ht]
    | openW g x => simp [Sys.isBody] at he
    | rename a b x => simp [Sys.isBody] at he
    | unlink a x => simp [Sys.isBody] at he

/-! ### the trace of a run consists of events of the open file -/

theorem applyOp_isBody (cap : Nat) (f : WF) (orc : Oracle) (op : Op) : ∀ e ∈ (applyOp cap f orc op).ev, e.isBody = true := by
  intro e he
  cases op with
  | append d => exact isBody_of_isWrite (append0_isWrite _ _ _ _ e he)
  | flush => exact isBody_of_isWrite (osWrite_isWrite _ _ e he)
  | sync => exact sync0_isBody _ _ e he

theorem run_tr_isBody (cap : Nat) : ∀ (ops : List Op) (st : RunSt), (∀ e ∈ st.tr, e.isBody = true) →
    ∀ e ∈ (run cap st ops).tr, e.isBody = true := by
  intro ops
  induction ops with
  | nil => intro st h; exact h
  | cons op ops ih =>
    intro st h
    rw [run_cons]
    apply ih
    intro e he
    simp only [step, List.mem_append] at he
    rcases he with he | he
    · exact h e he
    · exact applyOp_isBody _ _ _ _ e he

/-! ### statuses under an oracle without faults -/

/-- the part of "no fault" the file operations depend on: write, fsync and open answers -/
def Oracle.IoNoFault (orc : Oracle) : Prop :=
  orc.WNoFault ∧ (∀ a ∈ orc.s, a.isFault = false) ∧ (∀ a ∈ orc.o, a.isFault = false)

theorem osOpen_rest_suffix (mk : Option Errno → Sys) (s : List Ans) : (osOpen mk s).rest <:+ s := by
  fun_induction osOpen mk s with
  | case1 => simp
  | case2 => simp
  | case3 rest r ih => exact ih.trans (List.suffix_cons _ _)
  | case4 => simp
  | case5 => exact (List.suffix_cons _ _).trans (List.suffix_cons _ _)
  | case6 rest r ih => exact (ih.trans (List.suffix_cons _ _)).trans (List.suffix_cons _ _)
  | case7 => exact (List.suffix_cons _ _).trans (List.suffix_cons _ _)
  | case8 => exact List.suffix_cons _ _

theorem flush_so (f : WF) (orc : Oracle) : (flush f orc).orc.s = orc.s ∧ (flush f orc).orc.o = orc.o := ⟨rfl, rfl⟩

theorem append0_so (cap : Nat) (f : WF) (d : Bytes) (orc : Oracle) :
    (append0 cap f d orc).orc.s = orc.s ∧ (append0 cap f d orc).orc.o = orc.o := by
  unfold append0
  simp only
  split
  · exact ⟨rfl, rfl⟩
  · split
    · exact ⟨rfl, rfl⟩
    · split <;> exact ⟨rfl, rfl⟩

theorem append0_rc_nf (cap : Nat) (f : WF) (d : Bytes) (orc : Oracle) (h : orc.WNoFault) : (append0 cap f d orc).rc = .ok := by
  unfold append0
  simp only
  split
  · rfl
  · have hf := wfWrite_wnofault (f.buf ++ d.take (min d.length (cap - f.buf.length))) orc h
    have hrc : (flush { f with buf := f.buf ++ d.take (min d.length (cap - f.buf.length)) } orc).rc = .ok := hf.1
    simp only [hrc, ne_eq, not_true_eq_false, ↓reduceIte]
    split
    · rfl
    · exact (wfWrite_wnofault _ _ hf.2).1

theorem syncDir_nf (orc : Oracle) (hs : ∀ a ∈ orc.s, a.isFault = false) (ho : ∀ a ∈ orc.o, a.isFault = false) :
    (syncDir orc).rc = .ok ∧ (∀ a ∈ (syncDir orc).orc.s, a.isFault = false) ∧ (∀ a ∈ (syncDir orc).orc.o, a.isFault = false) := by
  have hopen := osOpen_nofault Sys.openDir orc.o ho
  rw [syncDir_opened orc hopen]
  refine ⟨by simp [osFsync_nofault true orc.s hs, ignoreBadf], ?_, ?_⟩
  · intro a ha; exact hs a ((osFsync_rest_suffix true orc.s).subset ha)
  · intro a ha; exact ho a ((osOpen_rest_suffix _ orc.o).subset ha)

theorem sync0_nf (f : WF) (orc : Oracle) (h : orc.IoNoFault) : (sync0 f orc).rc = .ok ∧ (sync0 f orc).orc.IoNoFault := by
  obtain ⟨hw, hs, ho⟩ := h
  unfold sync0
  generalize hd : (if f.manifest = true then syncDir orc else ({ ev := [], rc := .ok, orc := orc } : FRes)) = d
  have hdn : d.rc = .ok ∧ d.orc.IoNoFault := by
    subst hd
    split
    · have := syncDir_nf orc hs ho
      refine ⟨this.1, ?_, this.2.1, this.2.2⟩
      unfold Oracle.WNoFault; rw [syncDir_w]; exact hw
    · exact ⟨rfl, hw, hs, ho⟩
  obtain ⟨h1, hw', hs', ho'⟩ := hdn
  have hf := wfWrite_wnofault f.buf d.orc hw'
  have h2 : (flush f d.orc).rc = .ok := hf.1
  simp only [h1, h2, ne_eq, not_true_eq_false, ↓reduceIte]
  refine ⟨osFsync_nofault false _ hs', hf.2, ?_, ho'⟩
  intro a ha
  exact hs' a ((osFsync_rest_suffix false _).subset ha)

theorem applyOp_nf (cap : Nat) (f : WF) (hf : f.buf.length ≤ cap) (orc : Oracle) (h : orc.IoNoFault) (op : Op) :
    (applyOp cap f orc op).rc = .ok ∧ (applyOp cap f orc op).orc.IoNoFault := by
  cases op with
  | append d =>
    have F := append0_facts cap f hf d orc
    have so := append0_so cap f d orc
    refine ⟨append0_rc_nf cap f d orc h.1, (F.nf h.1).2, ?_, ?_⟩
    · show ∀ a ∈ (append0 cap f d orc).orc.s, _; rw [so.1]; exact h.2.1
    · show ∀ a ∈ (append0 cap f d orc).orc.o, _; rw [so.2]; exact h.2.2
  | flush =>
    have := wfWrite_wnofault f.buf orc h.1
    exact ⟨this.1, this.2, h.2.1, h.2.2⟩
  | sync => exact sync0_nf f orc h

theorem run_nf_ok (cap : Nat) : ∀ (ops : List Op) (st : RunSt), Inv cap st → st.orc.IoNoFault →
    (∀ rc ∈ st.rcs, rc = .ok) → ∀ rc ∈ (run cap st ops).rcs, rc = .ok := by
  intro ops
  induction ops with
  | nil => intro st _ _ h; exact h
  | cons op ops ih =>
    intro st hi hn h
    rw [run_cons]
    have a := applyOp_nf cap st.f hi.buf_le st.orc hn op
    apply ih _ (step_inv hi op) a.2
    intro rc hrc
    simp only [step, List.mem_append, List.mem_singleton] at hrc
    rcases hrc with hrc | hrc
    · exact h rc hrc
    · rw [hrc]; exact a.1

end Lcdb.WFile
