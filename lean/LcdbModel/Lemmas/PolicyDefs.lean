/-
  Vocabulary shared by the lemma files about `LcdbModel.Model.Policy` (version_set.c file selection).
-/
import LcdbModel.Model.Policy
import LcdbModel.Lemmas.Lsm
namespace Lcdb.Policy
open Lcdb.CmpBasic Lcdb.Lsm

/-- the user-key range of `f` intersects `[lo, hi]` (`none` = -∞ / +∞) -/
def rangeHits (c : Cmp) (lo hi : Option Bytes) (f : FileMeta) : Bool :=
  !(afterFile c lo f || beforeFile c hi f)

/-- smallest ≤ largest in user-key order, for every file -/
def UserBoundsOk (c : Cmp) (files : List FileMeta) : Prop := ∀ f ∈ files, c.compare f.sk f.lk ≠ .gt

/-- smallest ≤ largest in internal-key order, for every file -/
def BoundsOk (c : Cmp) (files : List FileMeta) : Prop := ∀ f ∈ files, ikLt c f.lk f.lp f.sk f.sp = false

/-- the packed trailer of every largest key is at most that of (MAX_SEQUENCE, VALTYPE_SEEK) -/
def PackedOk (files : List FileMeta) : Prop := ∀ f ∈ files, f.lp ≤ maxPacked

/-- the largest keys are strictly increasing (what find_file's binary search really needs) -/
def LargestSorted (c : Cmp) (files : List FileMeta) : Prop :=
  files.Pairwise (fun f g => ikLt c f.lk f.lp g.lk g.lp = true)

instance (c : Cmp) (fs : List FileMeta) : Decidable (UserBoundsOk c fs) := by unfold UserBoundsOk; infer_instance
instance (c : Cmp) (fs : List FileMeta) : Decidable (BoundsOk c fs) := by unfold BoundsOk; infer_instance
instance (fs : List FileMeta) : Decidable (PackedOk fs) := by unfold PackedOk; infer_instance
instance (c : Cmp) (fs : List FileMeta) : Decidable (LargestSorted c fs) := by unfold LargestSorted; infer_instance

theorem ikl_iff (c : Cmp) (a b : IKey) : ikl c a b = true ↔ c.compare a.1 b.1 = .lt ∨ (a.1 = b.1 ∧ a.2 > b.2) :=
  ikLt_iff c _ _ _ _

/-- internal-key `a < b` implies user-key `a ≤ b` -/
theorem user_le_of_ikLt {c : Cmp} {ak : Bytes} {ap : Nat} {bk : Bytes} {bp : Nat}
    (h : ikLt c ak ap bk bp = true) : c.compare ak bk ≠ .gt := by
  rw [ikLt_iff] at h
  rcases h with h | ⟨rfl, _⟩
  · rw [h]; decide
  · rw [compare_refl]; decide

/-- internal-key `¬ (b < a)` (i.e. `a ≤ b`) implies user-key `a ≤ b` -/
theorem user_le_of_not_ikLt {c : Cmp} {ak : Bytes} {ap : Nat} {bk : Bytes} {bp : Nat}
    (h : ikLt c bk bp ak ap = false) : c.compare ak bk ≠ .gt := by
  intro hgt
  have : c.compare bk ak = .lt := (compare_gt_iff c ak bk).mp hgt
  have : ikLt c bk bp ak ap = true := (ikLt_iff c _ _ _ _).mpr (.inl this)
  rw [h] at this; cases this

theorem BoundsOk.user {c : Cmp} {files : List FileMeta} (h : BoundsOk c files) : UserBoundsOk c files :=
  fun f hf => user_le_of_not_ikLt (h f hf)

theorem fileOk_boundsOk {c : Cmp} {f : FileMeta} (hf : FileOk c f) : ikLt c f.lk f.lp f.sk f.sp = false := by
  obtain ⟨e, he, hk, hp⟩ := fileOk_smallest_mem hf
  have := fileOk_le_largest hf he
  rw [← hk, ← hp]
  simpa [entryLt] using this

end Lcdb.Policy
