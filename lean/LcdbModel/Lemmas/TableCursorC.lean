/-
  Table cursor proofs, part C: what `TableWF` says about the layout, and the instance of the
  two-level context (`TwoCtx`) for a well-formed table file.
-/
import LcdbModel.Lemmas.TableCursorB
namespace Lcdb

/-! ### reading blocks -/

theorem readBlock_verify_irrel' {f : Bytes} {off size : Nat} {c : Bytes}
    (h : readBlock f off size true = .ok c) : readBlock f off size false = .ok c := by
  unfold readBlock at h ⊢
  by_cases h1 : size > 2 ^ 64 - 1 - blockTrailerSize
  · simp [h1] at h
  · simp only [h1, if_false] at h ⊢
    by_cases h2 : (pread f off (size + blockTrailerSize)).length ≠ size + blockTrailerSize
    · simp [h2] at h
    · simp only [h2, if_false, if_true] at h ⊢
      simp only [Bool.false_eq_true, if_false]
      cases hc : blockCrcOk (pread f off (size + blockTrailerSize)) size with
      | none => simp [hc] at h
      | some b =>
        cases b with
        | false => simp [hc] at h
        | true => simpa [hc] using h

theorem readBlock_any_verify {f : Bytes} {off size : Nat} {c : Bytes}
    (h : readBlock f off size true = .ok c) (v : Bool) : readBlock f off size v = .ok c := by
  cases v
  · exact readBlock_verify_irrel' h
  · exact h

/-! ### unpacking the layout -/

theorem blkInfo_some {file : Bytes} {ie : Bytes × Bytes} {b : BlkInfo}
    (h : blkInfo file ie = some b) :
    b.sep = ie.1 ∧ b.hv = ie.2 ∧ (∃ r, handleRead ie.2 = some (b.handle, r)) ∧
      readBlock file b.handle.offset b.handle.size true = .ok b.contents ∧
      blockParse b.contents = some b.entries := by
  unfold blkInfo at h
  cases h1 : handleRead ie.2 with
  | none => simp [h1] at h
  | some hr =>
    obtain ⟨hd, r⟩ := hr
    simp only [h1] at h
    cases h2 : readBlock file hd.offset hd.size true with
    | error e => simp [h2] at h
    | ok c =>
      simp only [h2] at h
      cases h3 : blockParse c with
      | none => simp [h3] at h
      | some es =>
        simp only [h3, Option.some.injEq] at h
        subst h
        exact ⟨rfl, rfl, ⟨r, rfl⟩, h2, h3⟩

theorem blkInfos_some {file : Bytes} : ∀ {ixs : List (Bytes × Bytes)} {bs : List BlkInfo},
    blkInfos file ixs = some bs →
    ixs = ixsOf bs ∧ ∀ b ∈ bs, blkInfo file (b.sep, b.hv) = some b := by
  intro ixs
  induction ixs with
  | nil =>
    intro bs h
    simp only [blkInfos, Option.some.injEq] at h
    subst h
    exact ⟨rfl, fun b hb => by cases hb⟩
  | cons ie rest ih =>
    intro bs h
    unfold blkInfos at h
    cases h1 : blkInfo file ie with
    | none => simp [h1] at h
    | some b =>
      cases h2 : blkInfos file rest with
      | none => simp [h1, h2] at h
      | some bs' =>
        simp only [h1, h2, Option.some.injEq] at h
        subst h
        obtain ⟨e1, e2⟩ := ih h2
        obtain ⟨s1, s2, _⟩ := blkInfo_some h1
        have hie : ie = (b.sep, b.hv) := by rw [s1, s2]
        refine ⟨?_, ?_⟩
        · rw [e1, hie]; rfl
        · intro b' hb'
          rcases List.mem_cons.mp hb' with rfl | hb'
          · rw [← hie]; exact h1
          · exact e2 b' hb'

theorem tableLayout_some {file : Bytes} {L : Layout} (h : tableLayout file = some L) :
    ¬ file.length < footerSize ∧
    footerDecode (pread file (file.length - footerSize) footerSize) = some L.footer ∧
    readBlock file L.footer.index.offset L.footer.index.size true = .ok L.index ∧
    ∃ ixs, blockParse L.index = some ixs ∧ blkInfos file ixs = some L.blocks := by
  unfold tableLayout at h
  by_cases h0 : file.length < footerSize
  · simp [h0] at h
  · simp only [h0, if_false] at h
    cases h1 : footerDecode (pread file (file.length - footerSize) footerSize) with
    | none => simp [h1] at h
    | some ft =>
      simp only [h1] at h
      cases h2 : readBlock file ft.index.offset ft.index.size true with
      | error e => simp [h2] at h
      | ok idx =>
        simp only [h2] at h
        cases h3 : blockParse idx with
        | none => simp [h3] at h
        | some ixs =>
          simp only [h3] at h
          cases h4 : blkInfos file ixs with
          | none => simp [h4] at h
          | some bs =>
            simp only [h4, Option.some.injEq] at h
            subst h
            exact ⟨h0, rfl, h2, ixs, h3, h4⟩

/-- everything the layout of a file says about its blocks -/
theorem tableLayout_blocks {file : Bytes} {L : Layout} (h : tableLayout file = some L) :
    ∀ b ∈ L.blocks, blkInfo file (b.sep, b.hv) = some b := by
  obtain ⟨_, _, _, ixs, _, h4⟩ := tableLayout_some h
  exact (blkInfos_some h4).2

theorem blkInfo_hv_inj {file : Bytes} {b b' : BlkInfo}
    (h : blkInfo file (b.sep, b.hv) = some b) (h' : blkInfo file (b'.sep, b'.hv) = some b')
    (heq : b.hv = b'.hv) : b.contents = b'.contents ∧ b.entries = b'.entries ∧
      b.handle = b'.handle := by
  obtain ⟨_, _, ⟨r, hr⟩, hrd, hp⟩ := blkInfo_some h
  obtain ⟨_, _, ⟨r', hr'⟩, hrd', hp'⟩ := blkInfo_some h'
  simp only at hr hr'
  rw [heq, hr'] at hr
  simp only [Option.some.injEq, Prod.mk.injEq] at hr
  obtain ⟨hh, _⟩ := hr
  rw [← hh, hrd'] at hrd
  simp only [Except.ok.injEq] at hrd
  rw [← hrd, hp'] at hp
  simp only [Option.some.injEq] at hp
  exact ⟨hrd.symm, hp.symm, hh.symm⟩

theorem blockReader_of_blkInfo {t : Table} {b : BlkInfo} (verify : Bool)
    (h : blkInfo t.file (b.sep, b.hv) = some b) :
    blockReader t verify b.hv = some (.opened (blockIterCreate b.contents)) := by
  obtain ⟨_, _, ⟨r, hr⟩, hrd, _⟩ := blkInfo_some h
  simp only at hr
  unfold blockReader
  simp only [hr, readBlock_any_verify hrd verify]

/-! ### separators -/

theorem sepsOk_getElem {c : Cmp} : ∀ {bs : List BlkInfo} {i : Nat} {b : BlkInfo},
    sepsOk c bs → bs[i]? = some b →
    sepOk c (lastKeyOf b.entries) b.sep ((bs[i + 1]?).map fun b' => firstKeyOf b'.entries)
  | [], i, b, _, hb => by simp at hb
  | [b0], i, b, h, hb => by
    cases i with
    | zero =>
      simp only [List.getElem?_cons_zero, Option.some.injEq] at hb
      subst hb
      simpa [sepsOk] using h
    | succ i => simp at hb
  | b0 :: b1 :: rest, i, b, h, hb => by
    cases i with
    | zero =>
      simp only [List.getElem?_cons_zero, Option.some.injEq] at hb
      subst hb
      simpa [sepsOk] using h.1
    | succ i =>
      simp only [List.getElem?_cons_succ] at hb
      have := sepsOk_getElem (bs := b1 :: rest) h.2 hb
      simpa using this

namespace OrdLaws
variable {cmp : Bytes → Bytes → Ordering}

theorem le_trans (h : OrdLaws cmp) {a b c : Bytes} (hab : cmp a b ≠ .gt) (hbc : cmp b c ≠ .gt) :
    cmp a c ≠ .gt := by
  cases hc : cmp a b with
  | lt => rw [h.lt_of_lt_of_le hc hbc]; decide
  | eq => rw [h.eq_left a b c hc]; exact hbc
  | gt => exact absurd hc hab

end OrdLaws

/-- in a sorted entry list every key is at most the last key -/
theorem le_lastKeyOf {cmp : Bytes → Bytes → Ordering} (hl : OrdLaws cmp)
    {es : List (Bytes × Bytes)} (hs : SortedKeys cmp (es.map (·.1))) {e : Bytes × Bytes}
    (he : e ∈ es) : cmp e.1 (lastKeyOf es) ≠ .gt := by
  obtain ⟨j, hj, rfl⟩ := List.getElem_of_mem he
  have hlast : lastKeyOf es = es[es.length - 1].1 := by
    unfold lastKeyOf
    rw [List.getLast?_eq_getElem?, List.getElem?_eq_getElem (by omega)]
    rfl
  rw [hlast]
  rcases Nat.lt_or_ge j (es.length - 1) with hlt | hge
  · have := List.pairwise_iff_getElem.mp hs j (es.length - 1) (by simpa using hj)
      (by simp; omega) hlt
    simp only [List.getElem_map] at this
    rw [this]; decide
  · have : j = es.length - 1 := by omega
    subst this
    rw [hl.refl]; decide

theorem firstKeyOf_head {es : List (Bytes × Bytes)} {e : Bytes × Bytes} (h : es.head? = some e) :
    firstKeyOf es = e.1 := by
  simp [firstKeyOf, h]

/-! ### the two-level context of a well-formed table -/

section
variable {o : TableOpts} {file : Bytes} {es : List (Bytes × Bytes)} {L : Layout}

theorem Layout.Good.es_eq (hg : L.Good o file es) : es = (partsOf L.blocks).flatten := by
  rw [hg.2.2.2.1, List.flatMap_def]; rfl

theorem Layout.Good.mem_es (hg : L.Good o file es) {b : BlkInfo} (hb : b ∈ L.blocks)
    {e : Bytes × Bytes} (he : e ∈ b.entries) : e ∈ es := by
  rw [hg.2.2.2.1]
  exact List.mem_flatMap.mpr ⟨b, hb, he⟩

theorem Layout.Good.block_sorted (hg : L.Good o file es) {b : BlkInfo} (hb : b ∈ L.blocks) :
    SortedKeys (ikeyCmp o.cmp) (b.entries.map (·.1)) := by
  have hs := hg.2.2.2.2.2.1
  have hsub : b.entries.Sublist es := by
    rw [hg.es_eq]
    exact List.sublist_flatten_of_mem (List.mem_map.mpr ⟨b, hb, rfl⟩)
  exact List.Pairwise.sublist (hsub.map _) hs

theorem Layout.Good.sepOk_at (hg : L.Good o file es) {i : Nat} {b : BlkInfo}
    (hb : L.blocks[i]? = some b) :
    sepOk o.cmp (lastKeyOf b.entries) b.sep
      ((L.blocks[i + 1]?).map fun b' => firstKeyOf b'.entries) :=
  sepsOk_getElem hg.2.2.2.2.2.2.1 hb

theorem Layout.Good.le_sep (hg : L.Good o file es) {b : BlkInfo} (hb : b ∈ L.blocks)
    {e : Bytes × Bytes} (he : e ∈ b.entries) : ikeyCmp o.cmp e.1 b.sep ≠ .gt := by
  obtain ⟨i, hi, rfl⟩ := List.getElem_of_mem hb
  have h1 := (hg.sepOk_at (List.getElem?_eq_getElem hi)).2.2.1
  exact (ordLaws_ikeyCmp o.cmp).le_trans
    (le_lastKeyOf (ordLaws_ikeyCmp o.cmp) (hg.block_sorted hb) he) h1

theorem Layout.Good.sep_lt_head (hg : L.Good o file es) {i : Nat} {b b' : BlkInfo}
    (hb : L.blocks[i]? = some b) (hb' : L.blocks[i + 1]? = some b') {e : Bytes × Bytes}
    (he : b'.entries.head? = some e) : ikeyCmp o.cmp b.sep e.1 = .lt := by
  have h1 := (hg.sepOk_at hb).2.2.2.1 (firstKeyOf b'.entries) (by simp [hb'])
  rw [firstKeyOf_head he] at h1
  exact h1

theorem Layout.Good.nonempty (hg : L.Good o file es) {b : BlkInfo} (hb : b ∈ L.blocks) :
    b.entries ≠ [] := (hg.2.2.1 b hb).2.2.1

theorem head?_of_ne_nil {α : Type} {l : List α} (h : l ≠ []) : ∃ e, l.head? = some e ∧ e ∈ l := by
  cases l with
  | nil => exact absurd rfl h
  | cons a as => exact ⟨a, rfl, List.mem_cons_self⟩

theorem Layout.Good.sep_lt_far (hg : L.Good o file es) {i : Nat} {b : BlkInfo}
    (hb : L.blocks[i]? = some b) : ∀ (d : Nat) (b' : BlkInfo) (e : Bytes × Bytes),
    L.blocks[i + 1 + d]? = some b' → b'.entries.head? = some e →
    ikeyCmp o.cmp b.sep e.1 = .lt := by
  intro d
  induction d with
  | zero => intro b' e hb' he; exact hg.sep_lt_head hb hb' he
  | succ d ih =>
    intro b' e hb' he
    have hlen : i + 1 + d < L.blocks.length := by
      have := (List.getElem?_eq_some_iff.mp hb').1; omega
    have hb'' : L.blocks[i + 1 + d]? = some L.blocks[i + 1 + d] := List.getElem?_eq_getElem hlen
    have hmem := List.getElem_mem hlen
    obtain ⟨e'', he'', hmem''⟩ := head?_of_ne_nil (hg.nonempty hmem)
    have h1 := ih _ e'' hb'' he''
    have h2 := hg.le_sep hmem hmem''
    have h3 := hg.sep_lt_head hb'' (by rw [← hb']; congr 1) he
    exact (ordLaws_ikeyCmp o.cmp).lt_trans _ _ _
      ((ordLaws_ikeyCmp o.cmp).lt_of_lt_of_le h1 h2) h3

theorem Layout.Good.index_sorted (hg : L.Good o file es) :
    SortedKeys (ikeyCmp o.cmp) ((ixsOf L.blocks).map (·.1)) := by
  apply List.pairwise_iff_getElem.mpr
  intro i j hi hj hij
  simp only [List.length_map, ixsOf_length] at hi hj
  have e1 : ((ixsOf L.blocks).map (·.1))[i] = L.blocks[i].sep := by simp [ixsOf]
  have e2 : ((ixsOf L.blocks).map (·.1))[j] = L.blocks[j].sep := by simp [ixsOf]
  rw [e1, e2]
  have hmemj := List.getElem_mem hj
  obtain ⟨e, he, hmem⟩ := head?_of_ne_nil (hg.nonempty hmemj)
  obtain ⟨d, rfl⟩ : ∃ d, j = i + 1 + d := ⟨j - i - 1, by omega⟩
  have h1 := hg.sep_lt_far (List.getElem?_eq_getElem hi) d _ e (List.getElem?_eq_getElem hj) he
  exact (ordLaws_ikeyCmp o.cmp).lt_of_lt_of_le h1 (hg.le_sep hmemj hmem)

theorem Layout.Good.twoCtx (hL : tableLayout file = some L) (hg : L.Good o file es) (t : Table)
    (htf : t.file = file) (verify : Bool) :
    TwoCtx (mkBlockCmp o.cmp true) (blockReader t verify) L.index L.blocks := by
  have hblk := tableLayout_blocks hL
  have hsz := hg.2.2.2.2.1
  refine
    { ictx := ?_, bctx := ?_, nonempty := fun b hb => hg.nonempty hb, read := ?_, hvinj := ?_,
      le_sep := fun b hb e he => hg.le_sep hb he,
      sep_lt := fun i b b' hb hb' e he => hg.sep_lt_head hb hb' he,
      keys8 := fun b hb e he => (hsz e (hg.mem_es hb he)).1 }
  · refine
      { canon := hg.1, sizes := ?_, total := hg.2.1, laws := ordLaws_ikeyCmp o.cmp,
        sorted := hg.index_sorted, ikeys := ?_ }
    · intro e he
      obtain ⟨b, hb, rfl⟩ := List.mem_map.mp he
      obtain ⟨i, hi, rfl⟩ := List.getElem_of_mem hb
      exact ⟨(hg.sepOk_at (List.getElem?_eq_getElem hi)).2.1, (hg.2.2.1 _ hb).1⟩
    · intro _ e he
      obtain ⟨b, hb, rfl⟩ := List.mem_map.mp he
      obtain ⟨i, hi, rfl⟩ := List.getElem_of_mem hb
      exact (hg.sepOk_at (List.getElem?_eq_getElem hi)).1
  · intro b hb
    exact
      { canon := (hg.2.2.1 b hb).2.1
        sizes := fun e he => (hsz e (hg.mem_es hb he)).2
        total := (hg.2.2.1 b hb).2.2.2
        laws := ordLaws_ikeyCmp o.cmp
        sorted := hg.block_sorted hb
        ikeys := fun _ e he => (hsz e (hg.mem_es hb he)).1 }
  · intro b hb
    exact blockReader_of_blkInfo verify (by rw [htf]; exact hblk b hb)
  · intro b hb b' hb' heq
    obtain ⟨h1, h2, _⟩ := blkInfo_hv_inj (hblk b hb) (hblk b' hb') heq
    exact ⟨h1, h2⟩

end

end Lcdb
