/-
  Partial alteration of a table file (C11, "altered_table_partial").

  If `file'` differs from a well-formed table `file` only so that every checksummed block region
  is byte-identical or fails its CRC (`AlteredOK file file'`), then with verify_checksums AND
  paranoid_checks every sequence of iterator operations, every forward scan and every point
  lookup on `file'` gives the original answer or reports an error.

    TableAlteredA   `single_byte_alteration_detected` : one changed byte outside the footer
                    satisfies `AlteredOK`
    TableAlteredB   lockstep-until-divergence of two-level iterators over agreeing readers
    TableAlteredC   `altered_open`, `altered_rdAgree`
    this file       scan and lookup lockstep, `altered_table_partial`
-/
import LcdbModel.Lemmas.TableAlteredC
namespace Lcdb

/-! ### the forward scan -/

/-- a scan from an iterator that reports an error ends with an error status -/
theorem scanGo_flagged (t : Table) (verify : Bool) :
    ∀ (n : Nat) (a : TwoIter) (acc : List (Bytes × Bytes)) (r : ScanResult), a.Inv t.cmpB →
      a.Flagged → scanGo t verify n a acc = some r → r.status ≠ .ok := by
  intro n
  induction n with
  | zero =>
    intro a acc r _ hfl h
    unfold scanGo at h
    cases h
    exact hfl
  | succ n ih =>
    intro a acc r ha hfl h
    unfold scanGo at h
    by_cases hv : a.valid = true
    · rw [if_pos hv] at h
      have nf : TwoIter.NF t.cmpB (blockReader t verify) (skipFuel t) a
          ((tableIterOps t verify).next a) := TwoIter.next_nf (skipFuel t) a ha hv
      cases e : (tableIterOps t verify).next a with
      | none => rw [e] at h; cases h
      | some s =>
        rw [e] at h
        dsimp only at h
        have g := nf.good (blockReader_rdInv t.cmpB t verify) e
        exact ih s _ r g.1 (g.2.2.2 hfl) h
    · rw [if_neg hv] at h
      cases h
      exact hfl

/-- the status a scan ends with is the status of a state reached by `next`s -/
theorem scanGo_status_run (t : Table) (verify : Bool) :
    ∀ (n : Nat) (a : TwoIter) (acc : List (Bytes × Bytes)) (r : ScanResult),
      scanGo t verify n a acc = some r →
      ∃ k a2, (tableIterOps t verify).run (List.replicate k .next) a = some a2 ∧
        r.status = a2.getStatus := by
  intro n
  induction n with
  | zero =>
    intro a acc r h
    unfold scanGo at h
    cases h
    exact ⟨0, a, rfl, rfl⟩
  | succ n ih =>
    intro a acc r h
    unfold scanGo at h
    by_cases hv : a.valid = true
    · rw [if_pos hv] at h
      cases e : (tableIterOps t verify).next a with
      | none => rw [e] at h; cases h
      | some s =>
        rw [e] at h
        dsimp only at h
        obtain ⟨k, a2, hk, hs⟩ := ih s _ r h
        refine ⟨k + 1, a2, ?_, hs⟩
        have hap : (tableIterOps t verify).apply .next a = some s := by
          show (if (tableIterOps t verify).valid a then (tableIterOps t verify).next a else some a)
            = some s
          have hv' : (tableIterOps t verify).valid a = true := hv
          rw [if_pos hv', e]
        rw [List.replicate_succ]
        unfold IterOps.run
        rw [hap]
        exact hk
    · rw [if_neg hv] at h
      cases h
      exact ⟨0, a, rfl, rfl⟩

theorem tOpsOk_first_nexts (k : Nat) : TOpsOk (.first :: List.replicate k .next) := by
  intro op hop x hx
  simp only [List.mem_cons, List.mem_replicate] at hop
  rcases hop with rfl | ⟨_, rfl⟩ <;> cases hx

/-- a scan of a well-formed table never ends with an error status, whatever the step budget -/
theorem table_scan_status (o : TableOpts) (file : Bytes) (es : List (Bytes × Bytes))
    (hwf : TableWF o file es) (t : Table) (paranoid verify : Bool)
    (ht : tableOpen o file paranoid = .ok t) (n : Nat) (r : ScanResult)
    (h : tableIterAll t verify n = some r) : r.status = .ok := by
  unfold tableIterAll at h
  cases e : (tableIterOps t verify).first (tableIterCreate t) with
  | none => rw [e] at h; cases h
  | some a =>
    rw [e] at h
    dsimp only at h
    obtain ⟨k, a2, hk, hs⟩ := scanGo_status_run t verify n a [] r h
    obtain ⟨it, p, h1, _, hst, _⟩ := table_is_cursor o file es hwf t paranoid verify ht
      (.first :: List.replicate k .next) (tOpsOk_first_nexts k)
    have h2 : (tableIterOps t verify).run (.first :: List.replicate k .next) (tableIterCreate t)
        = some a2 := by
      unfold IterOps.run
      have hap : (tableIterOps t verify).apply .first (tableIterCreate t) = some a := e
      rw [hap]
      exact hk
    rw [h1] at h2
    cases h2
    rw [hs, hst]

section
variable {t' t : Table} {verify : Bool}

/-- scans over two tables with the same comparator, index block and agreeing readers -/
theorem scanGo_div (hc : t'.cmpB = t.cmpB) (hfuel : skipFuel t' = skipFuel t)
    (hag : RdAgree (blockReader t' verify) (blockReader t verify)) :
    ∀ (n : Nat) (a' a : TwoIter) (acc : List (Bytes × Bytes)) (r' r : ScanResult),
      a'.Inv t.cmpB → a.Inv t.cmpB → TwoIter.Div a' a →
      scanGo t' verify n a' acc = some r' → scanGo t verify n a acc = some r →
      r'.status ≠ .ok ∨ r.status ≠ .ok ∨ r' = r := by
  intro n
  induction n with
  | zero =>
    intro a' a acc r' r ha' ha hd h' h
    rcases hd with hd | hd | hd
    · exact Or.inl (scanGo_flagged t' verify 0 a' acc r' (by rw [hc]; exact ha') hd h')
    · exact Or.inr (Or.inl (scanGo_flagged t verify 0 a acc r ha hd h))
    · subst hd
      unfold scanGo at h' h
      rw [h'] at h
      exact Or.inr (Or.inr (Option.some.inj h))
  | succ n ih =>
    intro a' a acc r' r ha' ha hd h' h
    rcases hd with hd | hd | hd
    · exact Or.inl (scanGo_flagged t' verify _ a' acc r' (by rw [hc]; exact ha') hd h')
    · exact Or.inr (Or.inl (scanGo_flagged t verify _ a acc r ha hd h))
    · subst hd
      unfold scanGo at h' h
      by_cases hv : a'.valid = true
      · rw [if_pos hv] at h' h
        cases e' : (tableIterOps t' verify).next a' with
        | none => rw [e'] at h'; cases h'
        | some s' =>
          cases e : (tableIterOps t verify).next a' with
          | none => rw [e] at h; cases h
          | some s =>
            rw [e'] at h'
            rw [e] at h
            dsimp only at h' h
            have e1' : TwoIter.next t.cmpB (blockReader t' verify) (skipFuel t) a' = some s' := by
              rw [← hc, ← hfuel]; exact e'
            have e1 : TwoIter.next t.cmpB (blockReader t verify) (skipFuel t) a' = some s := e
            have g' := (TwoIter.next_nf (rd := blockReader t' verify) (skipFuel t) a' ha hv).good
              (blockReader_rdInv t.cmpB t' verify) e1'
            have g := (TwoIter.next_nf (rd := blockReader t verify) (skipFuel t) a' ha hv).good
              (blockReader_rdInv t.cmpB t verify) e1
            have d := TwoIter.next_div (blockReader_rdInv t.cmpB t' verify)
              (blockReader_rdInv t.cmpB t verify) (blockReader_total t' verify)
              (blockReader_total t verify) hag (skipFuel t) a' a' s' s ha ha hv hv
              (TwoIter.Div.rfl' _) e1' e1
            exact ih s' s _ r' r g'.1 g.1 d h' h
      · rw [if_neg hv] at h' h
        rw [h'] at h
        exact Or.inr (Or.inr (Option.some.inj h))

/-! ### the point lookup -/

/-- lookups in two tables with the same options, index block, filter block and agreeing
    readers -/
theorem tableGet_div (ho : t'.opts = t.opts) (hi : t'.index = t.index)
    (hflt : t'.filter = t.filter)
    (hag : RdAgree (blockReader t' verify) (blockReader t verify)) (ikey : Bytes)
    (g' g : GetResult) (h' : tableGet t' ikey verify = some g')
    (h : tableGet t ikey verify = some g) :
    g'.status ≠ .ok ∨ g.status ≠ .ok ∨ g' = g := by
  have hc : t'.cmpB = t.cmpB := by unfold Table.cmpB; rw [ho]
  have hfr : ∀ iv, filterRejects t' iv ikey = filterRejects t iv ikey := by
    intro iv; unfold filterRejects; rw [hflt, ho]
  unfold tableGet at h' h
  rw [hc, hi] at h'
  cases hs : (blockIterCreate t.index).seek t.cmpB ikey with
  | none => rw [hs] at h; cases h
  | some ix =>
    rw [hs] at h' h
    dsimp only at h' h
    by_cases hv : ix.valid = true
    · rw [if_pos hv] at h' h
      rw [hfr] at h'
      cases hf : filterRejects t ix.value ikey with
      | none => rw [hf] at h; cases h
      | some b =>
        rw [hf] at h' h
        cases b with
        | true =>
          rw [h'] at h
          exact Or.inr (Or.inr (Option.some.inj h))
        | false =>
          dsimp only at h' h
          rcases hag ix.value with e | ⟨s, hs, e⟩ | ⟨s, hs, e⟩
          · rw [e] at h'
            rw [h'] at h
            exact Or.inr (Or.inr (Option.some.inj h))
          · left
            rw [e] at h'
            simp only [DataIter.lift, Option.some.injEq] at h'
            rw [← h']
            simp only [DataIter.status, hs, if_false]
            exact hs
          · right; left
            rw [e] at h
            simp only [DataIter.lift, Option.some.injEq] at h
            rw [← h]
            simp only [DataIter.status, hs, if_false]
            exact hs
    · rw [if_neg hv] at h' h
      rw [h'] at h
      exact Or.inr (Or.inr (Option.some.inj h))

end

/-! ### lookups in a table structure whose filter is the real one or absent -/

theorem filterRejects_spec' {o : TableOpts} {file : Bytes} {es : List (Bytes × Bytes)} {L : Layout}
    (hL : tableLayout file = some L) (hg : L.Good o file es) (t : Table) (paranoid : Bool)
    (ho : t.opts = o)
    (hmeta : t.filter = none ∨ readMeta o file paranoid L.footer = .ok t.filter)
    {b : BlkInfo} (hb : b ∈ L.blocks) (ikey : Bytes) :
    ∃ r, filterRejects t b.hv ikey = some r ∧
      (r = true → ∀ e ∈ b.entries, ikeyUser e.1 ≠ ikeyUser ikey) := by
  rcases hmeta with hn | hm
  · refine ⟨false, ?_, fun h => by cases h⟩
    unfold filterRejects
    rw [hn]
  · exact filterRejects_spec hL hg t paranoid ho hm hb ikey

/-- `table_get_spec` for any table structure over the well-formed file that has the layout's
    index block and the real filter block or none (e.g. because the filter block could not be
    read) -/
theorem table_get_spec' {o : TableOpts} {file : Bytes} {es : List (Bytes × Bytes)} {L : Layout}
    (hL : tableLayout file = some L) (hg : L.Good o file es) (t : Table) (paranoid verify : Bool)
    (ho : t.opts = o) (hf : t.file = file) (hi : t.index = L.index)
    (hmeta : t.filter = none ∨ readMeta o file paranoid L.footer = .ok t.filter)
    (ikey : Bytes) (hk : 8 ≤ ikey.length) :
    ∃ g, tableGet t ikey verify = some g ∧ g.status = .ok ∧
      (∀ e, g.found = some e → refSeek o.cmp es ikey = some e) ∧
      (∀ e, refSeek o.cmp es ikey = some e → ikeyUser e.1 = ikeyUser ikey → g.found = some e) := by
  have hctx := hg.twoCtx hL t hf verify
  have hcmpB : t.cmpB = mkBlockCmp o.cmp true := by unfold Table.cmpB; rw [ho]
  obtain ⟨ix, hix1, hix2⟩ := hctx.ictx.seek_at hctx.ictx.create ikey hk
  obtain ⟨hixst, hixv, hixobs⟩ := BlockAt.obs hctx.ictx hix2
  unfold tableGet
  rw [hcmpB, hi]
  simp only [hix1, hixst, TStatus.ofB]
  cases hfi : ((ixsOf L.blocks).map (·.1)).findIdx?
      (fun k => (mkBlockCmp o.cmp true).cmp k ikey != .lt) with
  | none =>
    rw [hfi] at hixv
    simp only [hixv, Option.isSome_none, Bool.false_eq_true, if_false]
    have href := get_ref_none hg hctx ikey hfi
    refine ⟨_, rfl, rfl, (fun e he => by cases he), fun e he => ?_⟩
    rw [href] at he; cases he
  | some i =>
    rw [hfi] at hixv
    obtain ⟨hil, _, hval⟩ := hixobs i hfi
    have hib : i < L.blocks.length := by rw [← ixsOf_length]; exact hil
    have hb : L.blocks[i]? = some L.blocks[i] := List.getElem?_eq_getElem hib
    have hbm : L.blocks[i] ∈ L.blocks := List.getElem_mem hib
    have hval' : ix.value = L.blocks[i].hv := by rw [hval]; simp [ixsOf]
    simp only [hixv, Option.isSome_some, if_true, hval']
    obtain ⟨r, hr, hrej⟩ := filterRejects_spec' hL hg t paranoid ho hmeta hbm ikey
    rw [hr]
    obtain ⟨d', hd1, hd2⟩ :=
      (hctx.bctx _ hbm).seek_at (hctx.bctx _ hbm).create ikey hk
    obtain ⟨hdst, hdv, hdobs⟩ := BlockAt.obs (hctx.bctx _ hbm) hd2
    cases r with
    | true =>
      refine ⟨_, rfl, rfl, (fun e he => by cases he), fun e he huser => ?_⟩
      exfalso
      cases hj : (L.blocks[i].entries.map (·.1)).findIdx?
          (fun k => ikeyCmp o.cmp k ikey != .lt) with
      | none => exact get_ref_miss hg hctx ikey hb hfi hj e he huser
      | some j =>
        obtain ⟨hjl, href⟩ := get_ref_some hg hctx ikey hb hfi hj
        rw [href] at he
        cases he
        exact hrej rfl _ (List.getElem_mem hjl) huser
    | false =>
      simp only [hctx.read _ hbm, DataIter.lift, hd1, Option.map_some, DataIter.valid,
        DataIter.status, DataIter.key, DataIter.value, hdst, TStatus.ofB, if_true]
      refine ⟨_, rfl, rfl, ?_⟩
      cases hj : (L.blocks[i].entries.map (·.1)).findIdx?
          (fun k => ikeyCmp o.cmp k ikey != .lt) with
      | none =>
        have hj' : (L.blocks[i].entries.map (·.1)).findIdx?
            (fun k => (mkBlockCmp o.cmp true).cmp k ikey != .lt) = none := hj
        rw [hj'] at hdv
        simp only [hdv, Option.isSome_none, Bool.false_eq_true, if_false]
        refine ⟨(fun e he => by cases he), fun e he huser => ?_⟩
        exact absurd huser (get_ref_miss hg hctx ikey hb hfi hj e he)
      | some j =>
        have hj' : (L.blocks[i].entries.map (·.1)).findIdx?
            (fun k => (mkBlockCmp o.cmp true).cmp k ikey != .lt) = some j := hj
        rw [hj'] at hdv
        obtain ⟨hjl, hkey, hvalue⟩ := hdobs j hj'
        obtain ⟨_, href⟩ := get_ref_some hg hctx ikey hb hfi hj
        simp only [hdv, Option.isSome_some, if_true, hkey, hvalue]
        rw [href]
        exact ⟨fun e he => he, fun e he _ => he⟩

theorem table_get_visible' {o : TableOpts} {file : Bytes} {es : List (Bytes × Bytes)} {L : Layout}
    (hL : tableLayout file = some L) (hg : L.Good o file es) (t : Table) (paranoid verify : Bool)
    (ho : t.opts = o) (hf : t.file = file) (hi : t.index = L.index)
    (hmeta : t.filter = none ∨ readMeta o file paranoid L.footer = .ok t.filter)
    (ikey : Bytes) (hk : 8 ≤ ikey.length) :
    ∃ g, tableGet t ikey verify = some g ∧ g.status = .ok ∧
      g.visible ikey = (refSeek o.cmp es ikey).filter (fun e => ikeyUser e.1 == ikeyUser ikey) := by
  obtain ⟨g, h1, h2, h3, h4⟩ := table_get_spec' hL hg t paranoid verify ho hf hi hmeta ikey hk
  refine ⟨g, h1, h2, ?_⟩
  unfold GetResult.visible
  cases hfd : g.found with
  | some e =>
    rw [h3 e hfd]
  | none =>
    cases hr : refSeek o.cmp es ikey with
    | none => rfl
    | some e =>
      by_cases hu : ikeyUser e.1 = ikeyUser ikey
      · have := h4 e hr hu
        rw [hfd] at this; cases this
      · simp [Option.filter, hu]

/-! ### the theorem -/

/-- **C11 (altered_table_partial)**: `file'` is a well-formed table `file` altered so that every
    checksummed block is byte-identical or fails its CRC and the footer decodes as before.  If
    `file'` still opens (paranoid checks on), then with checksum verification on
    * every sequence of iterator operations ends with an error status or in EXACTLY the state the
      original file gives,
    * every forward scan reports an error status or returns exactly the original result,
    * every point lookup reports an error status or lets the caller see exactly what the original
      lookup shows (`GetResult.visible`). -/
theorem altered_table_partial (o : TableOpts) (file file' : Bytes) (es : List (Bytes × Bytes))
    (hwf : TableWF o file es) (halt : AlteredOK file file') (t' : Table)
    (ht' : tableOpen o file' true = .ok t') :
    ∃ t, tableOpen o file true = .ok t ∧
      (∀ ops, TOpsOk ops → ∀ it', (tableIterOps t' true).run ops (tableIterCreate t') = some it' →
        it'.getStatus ≠ .ok ∨
          ∃ it, (tableIterOps t true).run ops (tableIterCreate t) = some it ∧ it' = it) ∧
      (∀ n r', tableIterAll t' true n = some r' →
        r'.status ≠ .ok ∨ tableIterAll t true n = some r') ∧
      (∀ ikey, 8 ≤ ikey.length → ∀ g', tableGet t' ikey true = some g' →
        g'.status ≠ .ok ∨
          ∃ g, tableGet t ikey true = some g ∧ g'.visible ikey = g.visible ikey) := by
  obtain ⟨t, L, hL, hg, ht, ho, hf, hi, hm, hopen⟩ :=
    altered_open_layout o file file' es hwf halt
  have hopen' : t'.index = t.index ∧ t'.opts = o ∧ t'.file = file' ∧
      (t'.filter = t.filter ∨ t'.filter = none) := by
    rcases hopen with ⟨e, he⟩ | ⟨t'', h1, h2, h3, h4, _, h6⟩
    · rw [he] at ht'; cases ht'
    · rw [h1] at ht'
      cases ht'
      exact ⟨h2, h3, h4, h6⟩
  obtain ⟨hi', ho', hf', hflt'⟩ := hopen'
  have hc : t'.cmpB = t.cmpB := by unfold Table.cmpB; rw [ho', ho]
  have hfuel : skipFuel t' = skipFuel t := by unfold skipFuel; rw [hi']
  have hcreate : tableIterCreate t' = tableIterCreate t := by unfold tableIterCreate; rw [hi']
  have hag := altered_rdAgree halt t' t hf' hf
  have hrd' := blockReader_rdInv t.cmpB t' true
  have hrd := blockReader_rdInv t.cmpB t true
  have hrt' := blockReader_total t' true
  have hrt := blockReader_total t true
  have hops' : tableIterOps t' true
      = twoIterOps t.cmpB (blockReader t' true) (skipFuel t) := by
    unfold tableIterOps; rw [hc, hfuel]
  refine ⟨t, ht, ?_, ?_, ?_⟩
  · -- iterator operations
    intro ops hops it' hrun'
    obtain ⟨it, p, hrun, _, hst, _⟩ := table_is_cursor o file es hwf t true true ht ops hops
    rw [hops', hcreate] at hrun'
    have d := twoIter_run_div hrd' hrd hrt' hrt hag (skipFuel t) ops (tableIterCreate t)
      (tableIterCreate t) it' it (tableIterCreate_inv t.cmpB t) (tableIterCreate_inv t.cmpB t)
      (TwoIter.Div.rfl' _) hrun' hrun
    rcases d with d | d | d
    · exact Or.inl d
    · exact absurd hst d
    · exact Or.inr ⟨it, hrun, d⟩
  · -- forward scan
    intro n r' h'
    cases hr : tableIterAll t true n with
    | none => exact absurd hr (tableIterAll_no_fault' t true n)
    | some r =>
      have hst := table_scan_status o file es hwf t true true ht n r hr
      have h := hr
      unfold tableIterAll at h' h
      cases e' : (tableIterOps t' true).first (tableIterCreate t') with
      | none => rw [e'] at h'; cases h'
      | some a' =>
        cases e : (tableIterOps t true).first (tableIterCreate t) with
        | none => rw [e] at h; cases h
        | some a =>
          rw [e'] at h'
          rw [e] at h
          dsimp only at h' h
          have e1' : TwoIter.first t.cmpB (blockReader t' true) (skipFuel t) (tableIterCreate t)
              = some a' := by
            rw [hops', hcreate] at e'; exact e'
          have e1 : TwoIter.first t.cmpB (blockReader t true) (skipFuel t) (tableIterCreate t)
              = some a := e
          have hinv := tableIterCreate_inv t.cmpB t
          have g' := (TwoIter.first_nf hrd' hrt' (skipFuel t) _ hinv).good hrd' e1'
          have g := (TwoIter.first_nf hrd hrt (skipFuel t) _ hinv).good hrd e1
          have d := TwoIter.first_div hrd' hrd hrt' hrt hag (skipFuel t) _ _ a' a hinv hinv
            (TwoIter.Div.rfl' _) e1' e1
          rcases scanGo_div hc hfuel hag n a' a [] r' r g'.1 g.1 d h' h with d2 | d2 | d2
          · exact Or.inl d2
          · exact absurd hst d2
          · right; rw [d2]
  · -- point lookup
    intro ikey hk g' hg'
    let t₂ : Table := { t with filter := t'.filter }
    have hmeta₂ : t₂.filter = none ∨ readMeta o file true L.footer = .ok t₂.filter := by
      rcases hflt' with h | h
      · right
        show readMeta o file true L.footer = .ok t'.filter
        rw [h]; exact hm
      · left; exact h
    obtain ⟨g₂, hg₂, hst₂, hvis₂⟩ :=
      table_get_visible' hL hg t₂ true true ho hf hi hmeta₂ ikey hk
    obtain ⟨g, hgt, _, hvis⟩ := table_get_visible o file es hwf t true true ht ikey hk
    have hag₂ : RdAgree (blockReader t' true) (blockReader t₂ true) :=
      altered_rdAgree halt t' t₂ hf' hf
    rcases tableGet_div (t' := t') (t := t₂) (ho'.trans ho.symm) hi' rfl hag₂ ikey g' g₂ hg' hg₂
      with d | d | d
    · exact Or.inl d
    · exact absurd hst₂ d
    · exact Or.inr ⟨g, hgt, by rw [d, hvis₂, hvis]⟩

end Lcdb
