/-
  Helper lemmas for Model/Skiplist.lean, part 3: `ldb_skiplist_insert` preserves the invariant and
  puts the new node at its place in key order.
-/
import LcdbModel.Lemmas.SkiplistSearch
namespace Lcdb.Skiplist
variable {α : Type}

/-! ### get / set -/

theorem setNext_some {sl : SkipList α} {x lvl : Nat} (v : Option Nat) (h : lvl < heightOf sl x) :
    ∃ sl', setNext sl x lvl v = some sl' := by
  unfold heightOf at h
  unfold setNext
  cases hx : sl.nodes[x]? with
  | none => simp [hx] at h
  | some n => simp [hx] at h; simp [h]

theorem setNext_spec {sl sl' : SkipList α} {x lvl : Nat} {v : Option Nat} (h : setNext sl x lvl v = some sl') :
    sl'.nodes.length = sl.nodes.length ∧ sl'.maxHeight = sl.maxHeight ∧ sl'.rnd = sl.rnd ∧
    (∀ y, keyOf sl' y = keyOf sl y) ∧ (∀ y, heightOf sl' y = heightOf sl y) ∧
    (∀ y l, getNext sl' y l = if y = x ∧ l = lvl then some v else getNext sl y l) := by
  unfold setNext at h
  cases hx : sl.nodes[x]? with
  | none => simp [hx] at h
  | some n =>
    simp only [hx] at h
    split at h
    · rename_i hl
      cases h
      obtain ⟨hxl, hxn⟩ := List.getElem?_eq_some_iff.mp hx
      refine ⟨by simp, rfl, rfl, ?_, ?_, ?_⟩
      · intro y
        simp only [keyOf, List.getElem?_set]
        by_cases hy : x = y
        · subst hy; simp [hxl, hxn]
        · simp [hy]
      · intro y
        simp only [heightOf, List.getElem?_set]
        by_cases hy : x = y
        · subst hy; simp [hxl, hxn]
        · simp [hy]
      · intro y l
        simp only [getNext, List.getElem?_set]
        by_cases hy : x = y
        · subst hy
          simp only [hxl, if_true, true_and, hx]
          by_cases hll : l = lvl
          · subst hll; simp [hl]
          · simp [hll, List.getElem?_set_ne (Ne.symm hll)]
        · have : ¬ y = x := fun e => hy e.symm
          simp [hy, this]
    · cases h

/-- the list with the new node appended (`ldb_skipnode_create`, links not yet set) -/
def withNode (sl : SkipList α) (k : α) (h mh : Nat) : SkipList α :=
  { sl with nodes := sl.nodes ++ [{ key := some k, next := List.replicate h none }], maxHeight := mh }

theorem withNode_keyOf (sl : SkipList α) (k : α) (h mh y : Nat) :
    keyOf (withNode sl k h mh) y = if y = sl.nodes.length then some k else keyOf sl y := by
  simp only [keyOf, withNode]
  by_cases hy : y < sl.nodes.length
  · rw [List.getElem?_append_left hy]; simp [Nat.ne_of_lt hy]
  · by_cases he : y = sl.nodes.length
    · subst he; simp
    · have : sl.nodes.length < y := by omega
      rw [List.getElem?_eq_none (by simp; omega), List.getElem?_eq_none (by omega)]
      simp [he]

theorem withNode_heightOf (sl : SkipList α) (k : α) (h mh y : Nat) :
    heightOf (withNode sl k h mh) y = if y = sl.nodes.length then h else heightOf sl y := by
  simp only [heightOf, withNode]
  by_cases hy : y < sl.nodes.length
  · rw [List.getElem?_append_left hy]; simp [Nat.ne_of_lt hy]
  · by_cases he : y = sl.nodes.length
    · subst he; simp
    · have : sl.nodes.length < y := by omega
      rw [List.getElem?_eq_none (by simp; omega), List.getElem?_eq_none (by omega)]
      simp [he]

theorem withNode_getNext (sl : SkipList α) (k : α) (h mh y l : Nat) :
    getNext (withNode sl k h mh) y l =
      if y = sl.nodes.length then (if l < h then some none else none) else getNext sl y l := by
  simp only [getNext, withNode]
  by_cases hy : y < sl.nodes.length
  · rw [List.getElem?_append_left hy]; simp [Nat.ne_of_lt hy]
  · by_cases he : y = sl.nodes.length
    · subst he
      by_cases hl : l < h
      · simp [hl]
      · simp [hl]
    · have : sl.nodes.length < y := by omega
      rw [List.getElem?_eq_none (by simp; omega), List.getElem?_eq_none (by omega)]
      simp [he]

/-! ### the link loop -/

/-- state of the link loop when levels `< i` are done; `s0` = list with the fresh node `n`, `P l` = `prev[l]` -/
structure LinkSt (s0 : SkipList α) (n : Nat) (P : Nat → Nat) (i : Nat) (s : SkipList α) : Prop where
  len : s.nodes.length = s0.nodes.length
  mh : s.maxHeight = s0.maxHeight
  rnd : s.rnd = s0.rnd
  key : ∀ y, keyOf s y = keyOf s0 y
  height : ∀ y, heightOf s y = heightOf s0 y
  next : ∀ y l, getNext s y l =
    if y = n then (if l < i then getNext s0 (P l) l else getNext s0 n l)
    else if l < i ∧ y = P l then some (some n) else getNext s0 y l

theorem linkGo_spec (s0 : SkipList α) (n : Nat) (P : Nat → Nat) (prev : List (Option Nat)) (hcount : Nat) :
    ∀ (cnt i : Nat) (s : SkipList α), i + cnt = hcount → LinkSt s0 n P i s →
      (∀ l, l < hcount → prev[l]? = some (some (P l)) ∧ P l ≠ n ∧ l < heightOf s0 (P l) ∧ (getNext s0 (P l) l).isSome) →
      hcount ≤ heightOf s0 n →
      ∃ s', linkGo s n prev i cnt = some s' ∧ LinkSt s0 n P hcount s' := by
  intro cnt
  induction cnt with
  | zero =>
    intro i s hi hs _ _
    have : i = hcount := by omega
    subst this
    exact ⟨s, rfl, hs⟩
  | succ cnt ih =>
    intro i s hi hs hP hn
    obtain ⟨hpi, hne, hlt, hsome⟩ := hP i (by omega)
    simp only [linkGo, hpi]
    have hgn : getNext s (P i) i = getNext s0 (P i) i := by
      rw [hs.next]; simp [hne]
    obtain ⟨nx, hnx⟩ := Option.isSome_iff_exists.mp hsome
    rw [hgn, hnx]
    simp only
    obtain ⟨s1, hs1⟩ := setNext_some (sl := s) (x := n) (lvl := i) nx (by rw [hs.height]; omega)
    rw [hs1]
    simp only
    have sp1 := setNext_spec hs1
    obtain ⟨s2, hs2⟩ := setNext_some (sl := s1) (x := P i) (lvl := i) (some n) (by rw [sp1.2.2.2.2.1, hs.height]; exact hlt)
    rw [hs2]
    simp only
    have sp2 := setNext_spec hs2
    apply ih (i + 1) s2 (by omega) _ hP hn
    refine ⟨by rw [sp2.1, sp1.1, hs.len], by rw [sp2.2.1, sp1.2.1, hs.mh], by rw [sp2.2.2.1, sp1.2.2.1, hs.rnd],
      fun y => by rw [sp2.2.2.2.1, sp1.2.2.2.1, hs.key], fun y => by rw [sp2.2.2.2.2.1, sp1.2.2.2.2.1, hs.height], ?_⟩
    intro y l
    rw [sp2.2.2.2.2.2, sp1.2.2.2.2.2, hs.next]
    by_cases hyn : y = n
    · subst hyn
      have : ¬ y = P i := fun e => hne e.symm
      by_cases hli : l = i
      · subst hli; simp [this, hnx]
      · have h1 : (l < i + 1) = (l < i) := by apply propext; omega
        simp [this, hli, h1]
    · by_cases hli : l = i
      · subst hli
        by_cases hyp : y = P l
        · simp [hyp, hne]
        · simp [hyp, hyn]
      · have h1 : (l < i + 1) = (l < i) := by apply propext; omega
        simp [hyn, hli, h1]

/-! ### the split of the ordered list at a key -/

/-- `after` of `find_ge` / `find_lt` for key `k` -/
def afterKey (cmp : α → α → Ordering) (sl : SkipList α) (k : α) : Nat → Option Bool :=
  fun n => (keyOf sl n).map fun kk => cmp kk k == .lt

theorem sorted_split_aux {cmp : α → α → Ordering} (hc : CmpOk cmp) (sl : SkipList α) (k : α) (l : List Nat)
    (hs : l.Pairwise (NodeLt cmp sl)) (hk : ∀ x ∈ l, ∃ kx, keyOf sl x = some kx) :
    ∃ A B, l = A ++ B ∧ (∀ a ∈ A, afterKey cmp sl k a = some true) ∧ (∀ b ∈ B, afterKey cmp sl k b = some false) := by
  induction l with
  | nil => exact ⟨[], [], rfl, by simp, by simp⟩
  | cons x t ih =>
    obtain ⟨kx, hkx⟩ := hk x (by simp)
    rw [List.pairwise_cons] at hs
    by_cases hlt : cmp kx k = .lt
    · obtain ⟨A, B, rfl, hA, hB⟩ := ih hs.2 (fun y hy => hk y (by simp [hy]))
      refine ⟨x :: A, B, rfl, ?_, hB⟩
      intro a ha
      rcases List.mem_cons.mp ha with rfl | ha
      · simp [afterKey, hkx, hlt]
      · exact hA a ha
    · refine ⟨[], x :: t, rfl, by simp, ?_⟩
      intro b hb
      rcases List.mem_cons.mp hb with rfl | hb
      · simp [afterKey, hkx, hlt]
      · obtain ⟨ka, kb, h1, h2, h3⟩ := hs.1 b hb
        rw [hkx] at h1
        cases h1
        have : cmp kb k ≠ .lt := fun h' => hlt (hc.trans _ _ _ h3 h')
        simp [afterKey, h2, this]

theorem sorted_split {cmp : α → α → Ordering} {sl : SkipList α} {L : List Nat} (hc : CmpOk cmp) (h : Inv cmp sl L) (k : α) :
    ∃ A B, L = A ++ B ∧ (∀ a ∈ A, afterKey cmp sl k a = some true) ∧ (∀ b ∈ B, afterKey cmp sl k b = some false) :=
  sorted_split_aux hc sl k L h.sorted h.hasKey

/-! ### top-level searches -/

theorem search_top {cmp : α → α → Ordering} {sl : SkipList α} {L : List Nat} (h : Inv cmp sl L)
    (after : Nat → Option Bool) (A B : List Nat) (hL : L = A ++ B)
    (hA : ∀ a ∈ A, after a = some true) (hB : ∀ b ∈ B, after b = some false) :
    ∃ prev, searchGo sl after (searchFuel sl) 0 (sl.maxHeight - 1) (List.replicate kMaxHeight none) = some (B.head?, prev) ∧
      prev.length = kMaxHeight ∧
      (∀ i, i < sl.maxHeight → ∃ p, prev[i]? = some (some p) ∧ PrevOk sl A i p) ∧
      (∀ i, sl.maxHeight ≤ i → i < kMaxHeight → prev[i]? = some none) := by
  have hmh := h.mhRange
  have hlen := h.len
  obtain ⟨prev, hrun, hl, hlow, hhigh⟩ := searchGo_spec h after A B hL hA hB (searchFuel sl) 0 (sl.maxHeight - 1)
    (List.replicate kMaxHeight none) [] A rfl (by rw [h.headHeight]; omega) (by simp; omega)
    (by unfold searchFuel; rw [← hlen, hL]; simp; omega)
  refine ⟨prev, hrun, by simpa using hl, fun i hi => hlow i (by omega), ?_⟩
  intro i hi hi2
  rw [hhigh i (by omega)]
  simp [hi2]

theorem findGE_spec0 {cmp : α → α → Ordering} {sl : SkipList α} {L : List Nat} (h : Inv cmp sl L) (k : α)
    (A B : List Nat) (hL : L = A ++ B)
    (hA : ∀ a ∈ A, afterKey cmp sl k a = some true) (hB : ∀ b ∈ B, afterKey cmp sl k b = some false) :
    ∃ prev, findGE cmp sl k = some (B.head?, prev) ∧ prev.length = kMaxHeight ∧
      (∀ i, i < sl.maxHeight → ∃ p, prev[i]? = some (some p) ∧ PrevOk sl A i p) ∧
      (∀ i, sl.maxHeight ≤ i → i < kMaxHeight → prev[i]? = some none) := by
  have := search_top h (afterKey cmp sl k) A B hL hA hB
  unfold findGE
  rw [if_neg (by have := h.mhRange; omega), findGEGo_eq]
  exact this

/-! ### raisePrev -/

theorem raise_get (prev : List (Option Nat)) (lo m i : Nat) :
    ((List.range m).foldl (fun p j => p.set (lo + j) (some 0)) prev)[i]? =
      if lo ≤ i ∧ i < lo + m ∧ i < prev.length then some (some 0) else prev[i]? := by
  induction m with
  | zero =>
    simp only [List.range_zero, List.foldl_nil]
    rw [if_neg (by omega)]
  | succ m ih =>
    rw [List.range_succ, List.foldl_append]
    simp only [List.foldl_cons, List.foldl_nil, List.getElem?_set]
    have hlen : ((List.range m).foldl (fun p j => p.set (lo + j) (some 0)) prev).length = prev.length := by
      clear ih
      induction m with
      | zero => rfl
      | succ m ih2 => rw [List.range_succ, List.foldl_append]; simp [ih2]
    rw [hlen, ih]
    by_cases he : lo + m = i
    · subst he
      by_cases hl : lo + m < prev.length
      · simp [hl]
      · simp [hl]
    · simp only [he, if_false]
      by_cases h1 : lo ≤ i ∧ i < lo + m ∧ i < prev.length
      · have : lo ≤ i ∧ i < lo + (m + 1) ∧ i < prev.length := ⟨h1.1, by omega, h1.2.2⟩
        simp [h1, this]
      · have : ¬ (lo ≤ i ∧ i < lo + (m + 1) ∧ i < prev.length) := by
          intro h2; apply h1; exact ⟨h2.1, by omega, h2.2.2⟩
        simp [h1, this]

end Lcdb.Skiplist
