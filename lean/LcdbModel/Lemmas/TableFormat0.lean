/-
  Helper lemmas for LcdbModel.Model.TableFormat0 (block handle, footer).
-/
import LcdbModel.Model.TableFormat0
import LcdbModel.Props.CodingProps
namespace Lcdb

theorem handleRead_handleEncode (h : BlockHandle) (rest : Bytes)
    (ho : h.offset < 2 ^ 64) (hs : h.size < 2 ^ 64) :
    handleRead (handleEncode h ++ rest) = some (h, rest) := by
  unfold handleRead handleEncode
  rw [List.append_assoc, varint64_roundtrip h.offset _ ho]
  simp only
  rw [varint64_roundtrip h.size _ hs]

theorem handleEncode_length_le (h : BlockHandle) (ho : h.offset < 2 ^ 64) (hs : h.size < 2 ^ 64) :
    (handleEncode h).length ≤ handleMaxLen := by
  unfold handleEncode handleMaxLen
  have := varintEnc_length_le64 h.offset ho
  have := varintEnc_length_le64 h.size hs
  rw [List.length_append]; omega

theorem handleEncode_length_pos (h : BlockHandle) : 2 ≤ (handleEncode h).length := by
  unfold handleEncode
  have := varintEnc_length_pos h.offset
  have := varintEnc_length_pos h.size
  rw [List.length_append]; omega

/-- a successful handle read consumes between 2 and 20 bytes -/
theorem handleRead_consumes (bs : Bytes) (h : BlockHandle) (rest : Bytes)
    (hr : handleRead bs = some (h, rest)) :
    h.offset < 2 ^ 64 ∧ h.size < 2 ^ 64 ∧ ∃ k, 2 ≤ k ∧ k ≤ 20 ∧ rest = bs.drop k := by
  unfold handleRead at hr
  cases h1 : varint64Read bs with
  | none => simp [h1] at hr
  | some p1 =>
    obtain ⟨o, r1⟩ := p1
    simp only [h1] at hr
    cases h2 : varint64Read r1 with
    | none => simp [h2] at hr
    | some p2 =>
      obtain ⟨s, r2⟩ := p2
      simp only [h2, Option.some.injEq, Prod.mk.injEq] at hr
      obtain ⟨hh, hrest⟩ := hr
      obtain ⟨ho, k1, hk1, hk1', hd1⟩ := varint64Read_consumes bs o r1 h1
      obtain ⟨hs, k2, hk2, hk2', hd2⟩ := varint64Read_consumes r1 s r2 h2
      subst hh
      refine ⟨ho, hs, k1 + k2, by omega, by omega, ?_⟩
      rw [← hrest, hd2, hd1, List.drop_drop]

theorem drop_length_append3 (A M R : Bytes) : (A ++ M ++ R).drop A.length = M ++ R := by
  rw [List.append_assoc, List.drop_left]

/-- the footer reader on `handles ‖ pad ‖ magic ‖ rest` for ANY padding bytes of the right length -/
theorem footerRead_layout (f : Footer) (pad rest : Bytes)
    (h1 : f.metaindex.offset < 2 ^ 64) (h2 : f.metaindex.size < 2 ^ 64)
    (h3 : f.index.offset < 2 ^ 64) (h4 : f.index.size < 2 ^ 64)
    (hp : (handleEncode f.metaindex ++ handleEncode f.index).length + pad.length = 2 * handleMaxLen) :
    footerRead (handleEncode f.metaindex ++ handleEncode f.index ++ pad ++ fixedEnc 8 tableMagic ++ rest)
      = some (f, rest) := by
  have hlen40 : (handleEncode f.metaindex ++ handleEncode f.index ++ pad).length = 40 := by
    rw [List.length_append]; simpa [handleMaxLen] using hp
  have hm : (fixedEnc 8 tableMagic).length = 8 := fixedEnc_length 8 tableMagic
  unfold footerRead
  have hlt : ¬ (handleEncode f.metaindex ++ handleEncode f.index ++ pad ++ fixedEnc 8 tableMagic ++ rest).length
      < footerSize := by
    rw [List.length_append, List.length_append, hlen40, hm]; simp [footerSize, handleMaxLen]
  rw [if_neg hlt]
  have hdrop : (handleEncode f.metaindex ++ handleEncode f.index ++ pad ++ fixedEnc 8 tableMagic ++ rest).drop
      (footerSize - 8) = fixedEnc 8 tableMagic ++ rest := by
    have : footerSize - 8 = (handleEncode f.metaindex ++ handleEncode f.index ++ pad).length := by
      rw [hlen40]; rfl
    rw [this]; exact drop_length_append3 _ _ _
  have htake : (fixedEnc 8 tableMagic ++ rest).take 8 = fixedEnc 8 tableMagic := by
    have := @List.take_left _ (fixedEnc 8 tableMagic) rest
    rwa [hm] at this
  rw [hdrop, htake, fixedDec_fixedEnc]
  have hmagic : tableMagic % 256 ^ 8 = tableMagic := by decide
  rw [hmagic]
  simp only [ne_eq, not_true_eq_false, if_false]
  have e1 : handleEncode f.metaindex ++ handleEncode f.index ++ pad ++ fixedEnc 8 tableMagic ++ rest
      = handleEncode f.metaindex ++ (handleEncode f.index ++ (pad ++ fixedEnc 8 tableMagic ++ rest)) := by
    simp [List.append_assoc]
  rw [e1, handleRead_handleEncode _ _ h1 h2]
  simp only
  rw [handleRead_handleEncode _ _ h3 h4]
  simp only
  rw [← e1]
  have hdrop2 : (handleEncode f.metaindex ++ handleEncode f.index ++ pad ++ fixedEnc 8 tableMagic ++ rest).drop
      footerSize = rest := by
    have : footerSize = (handleEncode f.metaindex ++ handleEncode f.index ++ pad ++ fixedEnc 8 tableMagic).length := by
      rw [List.length_append, hlen40, hm]; rfl
    rw [this, List.drop_left]
  rw [hdrop2]

end Lcdb
