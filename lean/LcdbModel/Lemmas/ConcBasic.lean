/-
  Basic facts about the concurrency model `Lcdb.Conc`: look-up in the thread tables, normal forms of the
  state transformers (`setW`, `signalW`, `followStep`, `broadcastBg`) as maps over the writer table, and
  inversion lemmas for `step`.
-/
import LcdbModel.Model.Conc

namespace Lcdb.Conc

/-- well-formed thread tables: thread ids are distinct (across writers and readers), batch ids are distinct,
    and nobody has started yet -/
def WF (ws : List Writer) (rs : List Reader) : Prop :=
  (ws.map (·.tid) ++ rs.map (·.tid)).Nodup ∧ (ws.map (·.batch)).Nodup ∧
  (∀ w ∈ ws, w.pc = .idle ∧ w.done = false) ∧ (∀ r ∈ rs, r.pc = .idle)

/-- apply `g` to every writer record -/
def mapW (st : St) (g : Writer → Writer) : St := { st with writers := st.writers.map g }

/-- apply `g` to every reader record -/
def mapR (st : St) (g : Reader → Reader) : St := { st with readers := st.readers.map g }

@[simp] theorem mapW_writers (st : St) (g) : (mapW st g).writers = st.writers.map g := rfl
@[simp] theorem mapW_readers (st : St) (g) : (mapW st g).readers = st.readers := rfl
@[simp] theorem mapW_queue (st : St) (g) : (mapW st g).queue = st.queue := rfl
@[simp] theorem mapW_inflight (st : St) (g) : (mapW st g).inflight = st.inflight := rfl
@[simp] theorem mapW_lastSeq (st : St) (g) : (mapW st g).lastSeq = st.lastSeq := rfl
@[simp] theorem mapW_committed (st : St) (g) : (mapW st g).committed = st.committed := rfl
@[simp] theorem mapW_imm (st : St) (g) : (mapW st g).imm = st.imm := rfl
@[simp] theorem mapW_needsCompaction (st : St) (g) : (mapW st g).needsCompaction = st.needsCompaction := rfl
@[simp] theorem mapW_bgScheduled (st : St) (g) : (mapW st g).bgScheduled = st.bgScheduled := rfl
@[simp] theorem mapW_bg (st : St) (g) : (mapW st g).bg = st.bg := rfl
@[simp] theorem mapW_bgError (st : St) (g) : (mapW st g).bgError = st.bgError := rfl
@[simp] theorem mapW_shuttingDown (st : St) (g) : (mapW st g).shuttingDown = st.shuttingDown := rfl
@[simp] theorem mapW_closer (st : St) (g) : (mapW st g).closer = st.closer := rfl
@[simp] theorem mapW_log (st : St) (g) : (mapW st g).log = st.log := rfl
@[simp] theorem mapW_groups (st : St) (g) : (mapW st g).groups = st.groups := rfl

@[simp] theorem mapR_writers (st : St) (g) : (mapR st g).writers = st.writers := rfl
@[simp] theorem mapR_readers (st : St) (g) : (mapR st g).readers = st.readers.map g := rfl
@[simp] theorem mapR_queue (st : St) (g) : (mapR st g).queue = st.queue := rfl
@[simp] theorem mapR_inflight (st : St) (g) : (mapR st g).inflight = st.inflight := rfl
@[simp] theorem mapR_lastSeq (st : St) (g) : (mapR st g).lastSeq = st.lastSeq := rfl
@[simp] theorem mapR_committed (st : St) (g) : (mapR st g).committed = st.committed := rfl
@[simp] theorem mapR_imm (st : St) (g) : (mapR st g).imm = st.imm := rfl
@[simp] theorem mapR_needsCompaction (st : St) (g) : (mapR st g).needsCompaction = st.needsCompaction := rfl
@[simp] theorem mapR_bgScheduled (st : St) (g) : (mapR st g).bgScheduled = st.bgScheduled := rfl
@[simp] theorem mapR_bg (st : St) (g) : (mapR st g).bg = st.bg := rfl
@[simp] theorem mapR_bgError (st : St) (g) : (mapR st g).bgError = st.bgError := rfl
@[simp] theorem mapR_shuttingDown (st : St) (g) : (mapR st g).shuttingDown = st.shuttingDown := rfl
@[simp] theorem mapR_closer (st : St) (g) : (mapR st g).closer = st.closer := rfl
@[simp] theorem mapR_log (st : St) (g) : (mapR st g).log = st.log := rfl
@[simp] theorem mapR_groups (st : St) (g) : (mapR st g).groups = st.groups := rfl

theorem mapW_mapW (st : St) (g g') : mapW (mapW st g) g' = mapW st (g' ∘ g) := by
  simp [mapW, List.map_map]

theorem mapW_congr {st : St} {g g' : Writer → Writer} (h : ∀ x ∈ st.writers, g x = g' x) :
    mapW st g = mapW st g' := by
  simp only [mapW]; rw [List.map_congr_left h]

theorem mapW_id' {st : St} {g : Writer → Writer} (h : ∀ x ∈ st.writers, g x = x) : mapW st g = st := by
  have : st.writers.map g = st.writers := by
    rw [List.map_congr_left h]; simp
  simp [mapW, this]

/-! ### look-up -/

theorem find_tid_of_mem {l : List Writer} (hN : (l.map (·.tid)).Nodup) {x : Writer} (hx : x ∈ l) :
    l.find? (·.tid == x.tid) = some x := by
  induction l with
  | nil => cases hx
  | cons a l ih =>
    simp only [List.map_cons, List.nodup_cons, List.mem_map, not_exists, not_and] at hN
    rcases List.mem_cons.1 hx with rfl | hx
    · simp
    · have hne : a.tid ≠ x.tid := fun h => hN.1 x hx h.symm
      simp [hne, ih hN.2 hx]

theorem getW_some {st : St} {t : Tid} {w : Writer} (h : getW st t = some w) : w ∈ st.writers ∧ w.tid = t := by
  unfold getW at h
  exact ⟨List.mem_of_find?_eq_some h, by simpa using List.find?_some h⟩

theorem getW_of_mem {st : St} (hN : (st.writers.map (·.tid)).Nodup) {x : Writer} (hx : x ∈ st.writers) :
    getW st x.tid = some x := find_tid_of_mem hN hx

theorem getW_none {st : St} {t : Tid} (h : getW st t = none) : ∀ x ∈ st.writers, x.tid ≠ t := by
  unfold getW at h
  intro x hx
  have := List.find?_eq_none.1 h x hx
  simpa using this

/-- with distinct tids a writer record is determined by its tid -/
theorem writer_unique {st : St} (hN : (st.writers.map (·.tid)).Nodup) {x y : Writer}
    (hx : x ∈ st.writers) (hy : y ∈ st.writers) (h : x.tid = y.tid) : x = y := by
  have h1 := getW_of_mem hN hx
  have h2 := getW_of_mem hN hy
  rw [h] at h1; rw [h1] at h2; exact Option.some.inj h2

theorem getW_isSome_of_mem {st : St} {x : Writer} (hx : x ∈ st.writers) : ∃ y, getW st x.tid = some y := by
  cases h : getW st x.tid with
  | some y => exact ⟨y, rfl⟩
  | none => exact absurd rfl (getW_none h x hx)

theorem find_rtid_of_mem {l : List Reader} (hN : (l.map (·.tid)).Nodup) {x : Reader} (hx : x ∈ l) :
    l.find? (·.tid == x.tid) = some x := by
  induction l with
  | nil => cases hx
  | cons a l ih =>
    simp only [List.map_cons, List.nodup_cons, List.mem_map, not_exists, not_and] at hN
    rcases List.mem_cons.1 hx with rfl | hx
    · simp
    · have hne : a.tid ≠ x.tid := fun h => hN.1 x hx h.symm
      simp [hne, ih hN.2 hx]

theorem getR_some {st : St} {t : Tid} {r : Reader} (h : getR st t = some r) : r ∈ st.readers ∧ r.tid = t := by
  unfold getR at h
  exact ⟨List.mem_of_find?_eq_some h, by simpa using List.find?_some h⟩

theorem reader_unique {st : St} (hN : (st.readers.map (·.tid)).Nodup) {x y : Reader}
    (hx : x ∈ st.readers) (hy : y ∈ st.readers) (h : x.tid = y.tid) : x = y := by
  have h1 : getR st x.tid = some x := find_rtid_of_mem hN hx
  have h2 : getR st y.tid = some y := find_rtid_of_mem hN hy
  rw [h] at h1; rw [h1] at h2; exact Option.some.inj h2

/-! ### normal forms: every transformer is a map over the writer table -/

/-- overwrite the record of thread `t` -/
def putW (t : Tid) (w' : Writer) (x : Writer) : Writer := if x.tid = t then w' else x

theorem setW_eq (st : St) (w' : Writer) : setW st w' = mapW st (putW w'.tid w') := by
  simp [setW, mapW, putW]

def putR (t : Tid) (r' : Reader) (x : Reader) : Reader := if x.tid = t then r' else x

theorem setR_eq (st : St) (r' : Reader) : setR st r' = mapR st (putR r'.tid r') := by
  simp [setR, mapR, putR]

/-- the effect of a signal on the writer's own condition variable -/
def wake (x : Writer) : Writer := if x.pc = .asleepW then { x with pc := .wokenW } else x

/-- apply `f` to the record of thread `t` only -/
def atW (t : Tid) (f : Writer → Writer) (x : Writer) : Writer := if x.tid = t then f x else x

@[simp] theorem wake_tid (x : Writer) : (wake x).tid = x.tid := by unfold wake; split <;> rfl
@[simp] theorem wake_batch (x : Writer) : (wake x).batch = x.batch := by unfold wake; split <;> rfl
@[simp] theorem wake_sync (x : Writer) : (wake x).sync = x.sync := by unfold wake; split <;> rfl
@[simp] theorem wake_done (x : Writer) : (wake x).done = x.done := by unfold wake; split <;> rfl
@[simp] theorem wake_status (x : Writer) : (wake x).status = x.status := by unfold wake; split <;> rfl
@[simp] theorem wake_usedDelay (x : Writer) : (wake x).usedDelay = x.usedDelay := by unfold wake; split <;> rfl
theorem wake_pc (x : Writer) : (wake x).pc = if x.pc = .asleepW then .wokenW else x.pc := by
  unfold wake; split <;> simp [*]

theorem signalW_eq {st : St} (hN : (st.writers.map (·.tid)).Nodup) (t : Tid) :
    signalW st t = mapW st (atW t wake) := by
  unfold signalW
  cases h : getW st t with
  | none =>
    simp only
    rw [mapW_id']
    intro x hx; simp [atW, getW_none h x hx]
  | some w =>
    obtain ⟨hw, rfl⟩ := getW_some h
    simp only
    split
    · rename_i hpc
      rw [setW_eq]
      apply mapW_congr
      intro x hx
      simp only [putW, atW]
      split
      · rename_i ht
        have := writer_unique hN hx hw ht
        subst this
        simp [wake, beq_iff_eq.1 hpc]
      · rfl
    · rename_i hpc
      rw [mapW_id']
      intro x hx
      simp only [atW]
      split
      · rename_i ht
        have := writer_unique hN hx hw ht
        subst this
        have : x.pc ≠ .asleepW := by simpa using hpc
        simp [wake, this]
      · rfl

/-- the effect of the leader's hand-over on a follower -/
def markF (ok : Bool) (x : Writer) : Writer :=
  { x with done := true, status := ok, pc := if x.pc = .asleepW then .wokenW else x.pc }

theorem markF_idem (ok : Bool) (x : Writer) : markF ok (markF ok x) = markF ok x := by
  unfold markF; cases x.pc <;> simp

theorem followStep_eq {st : St} (hN : (st.writers.map (·.tid)).Nodup) (ok : Bool) (m : Tid) :
    followStep ok st m = mapW st (atW m (markF ok)) := by
  unfold followStep
  cases h : getW st m with
  | none =>
    simp only
    rw [mapW_id']
    intro x hx; simp [atW, getW_none h x hx]
  | some f =>
    obtain ⟨hf, rfl⟩ := getW_some h
    simp only
    rw [signalW_eq, setW_eq, mapW_mapW]
    · apply mapW_congr
      intro x hx
      simp only [Function.comp, putW, atW]
      split
      · rename_i ht
        have := writer_unique hN hx hf ht
        subst this
        simp [wake, markF]
        split <;> simp [*]
      · simp [*]
    · rw [setW_eq]; simp only [mapW_writers, List.map_map]
      have : ((fun x : Writer => x.tid) ∘ putW f.tid { f with done := true, status := ok }) = fun x => x.tid := by
        funext x; simp only [Function.comp, putW]; split <;> simp [*]
      rw [this]; exact hN

theorem map_tid_mapW {st : St} {g : Writer → Writer} (hg : ∀ x, (g x).tid = x.tid) :
    (mapW st g).writers.map (·.tid) = st.writers.map (·.tid) := by
  simp only [mapW_writers, List.map_map]
  congr 1; funext x; exact hg x

theorem foldl_followStep_eq (ok : Bool) (ms : List Tid) :
    ∀ {st : St}, (st.writers.map (·.tid)).Nodup →
      ms.foldl (followStep ok) st = mapW st (fun x => if x.tid ∈ ms then markF ok x else x) := by
  induction ms with
  | nil => intro st _; simp [mapW_id']
  | cons m ms ih =>
    intro st hN
    simp only [List.foldl_cons]
    rw [followStep_eq hN, ih, mapW_mapW]
    · apply mapW_congr
      intro x _
      simp only [Function.comp, atW, List.mem_cons]
      by_cases h1 : x.tid = m <;> by_cases h2 : x.tid ∈ ms <;> simp [h1, h2, markF_idem]
      all_goals (first | (subst h1; simp [markF, h2]) | simp [markF] | skip)
    · rw [map_tid_mapW]; exact hN
      intro x; simp only [atW]; split <;> simp [markF]

/-- the effect of a broadcast on `background_work_finished_signal` on a writer -/
def bwake (x : Writer) : Writer := if x.pc = .asleepBg then { x with pc := .wokenBg } else x

@[simp] theorem bwake_tid (x : Writer) : (bwake x).tid = x.tid := by unfold bwake; split <;> rfl
@[simp] theorem bwake_batch (x : Writer) : (bwake x).batch = x.batch := by unfold bwake; split <;> rfl
@[simp] theorem bwake_sync (x : Writer) : (bwake x).sync = x.sync := by unfold bwake; split <;> rfl
@[simp] theorem bwake_done (x : Writer) : (bwake x).done = x.done := by unfold bwake; split <;> rfl
@[simp] theorem bwake_status (x : Writer) : (bwake x).status = x.status := by unfold bwake; split <;> rfl
@[simp] theorem bwake_usedDelay (x : Writer) : (bwake x).usedDelay = x.usedDelay := by unfold bwake; split <;> rfl
theorem bwake_pc (x : Writer) : (bwake x).pc = if x.pc = .asleepBg then .wokenBg else x.pc := by
  unfold bwake; split <;> simp [*]

theorem broadcastBg_eq (st : St) :
    broadcastBg st = { mapW st bwake with closer := if st.closer = .asleepBg then .wokenBg else st.closer } := by
  unfold broadcastBg
  have : (fun w : Writer => if (w.pc == WPc.asleepBg) = true then { w with pc := WPc.wokenBg } else w) = bwake := by
    funext w; simp [bwake]
  simp only [this]
  by_cases h : st.closer = .asleepBg <;> simp [h, mapW]

end Lcdb.Conc
