/-
  The 16-shard wrapper: scripts of cache-level operations, their projection to the 16 per-shard
  scripts, and the projection lemma (the i-th shard after a cache script = the shard run of the ops
  whose key hashes to i).
-/
import LcdbModel.Lemmas.LruCacheSpec
import LcdbModel.Lemmas.Bloom
namespace Lcdb.LruCache

/-- cache-level operations (`ldb_lru_insert/lookup/release/erase/prune`) -/
inductive COp where
  | insert (key : Bytes) (val charge : Nat)
  | lookup (key : Bytes)
  | release (h : Handle)
  | erase (key : Bytes)
  | prune
deriving Repr, DecidableEq

inductive COut where
  | handle (h : Option Handle)
  | unit
deriving Repr, DecidableEq

def Cache.step (c : Cache) : COp → Option (Cache × COut)
  | .insert k v ch => (c.insert k v ch).map fun (c', h) => (c', .handle (some h))
  | .lookup k => (c.lookup k).map fun (c', h) => (c', .handle h)
  | .release h => (c.release h).map fun c' => (c', .unit)
  | .erase k => (c.erase k).map fun c' => (c', .unit)
  | .prune => (c.prune).map fun c' => (c', .unit)

def Cache.run : Cache → List COp → Option (Cache × List COut)
  | c, [] => some (c, [])
  | c, op :: ops =>
    match c.step op with
    | none => none
    | some (c', o) => (Cache.run c' ops).map fun (c'', os) => (c'', o :: os)

/-- what shard `i` sees of a cache-level op -/
def projOp (i : Nat) : COp → List Op
  | .insert k v ch => if shardOf k = i then [.insert k v ch] else []
  | .lookup k => if shardOf k = i then [.lookup k] else []
  | .release h => if h.1 = i then [.release h.2] else []
  | .erase k => if shardOf k = i then [.erase k] else []
  | .prune => [.prune]

/-- the per-shard script of shard `i` -/
def proj (i : Nat) : List COp → List Op
  | [] => []
  | op :: ops => projOp i op ++ proj i ops

theorem run_append {s s1 s2 : Shard} {a b : List Op} {o1 o2 : List Out}
    (h1 : run s a = some (s1, o1)) (h2 : run s1 b = some (s2, o2)) : run s (a ++ b) = some (s2, o1 ++ o2) := by
  induction a generalizing s o1 with
  | nil => simp [run] at h1; obtain ⟨rfl, rfl⟩ := h1; simpa using h2
  | cons op a ih =>
    simp only [run] at h1
    cases hs : step s op with
    | none => rw [hs] at h1; cases h1
    | some p =>
      obtain ⟨s', o⟩ := p
      simp only [hs] at h1
      cases hr : run s' a with
      | none => rw [hr] at h1; cases h1
      | some q =>
        obtain ⟨s'', os⟩ := q
        rw [hr] at h1; simp at h1; obtain ⟨rfl, rfl⟩ := h1
        simp [run, hs, ih hr]

/-- a run that does not fault was well-formed (`release` of a handle that is not held faults) -/
theorem run_some_wf (s : Shard) (ops : List Op) (r : Shard × List Out) (h : run s ops = some r) : wf s ops = true := by
  induction ops generalizing s r with
  | nil => rfl
  | cons op ops ih =>
    simp only [run] at h
    cases hs : step s op with
    | none => rw [hs] at h; cases h
    | some p =>
      obtain ⟨s', o⟩ := p
      simp only [hs] at h
      cases hr : run s' ops with
      | none => rw [hr] at h; cases h
      | some q =>
        simp only [wf, hs, Bool.and_eq_true]
        refine ⟨?_, ih s' q hr⟩
        cases op with
        | release id =>
          simp only [step, release] at hs
          by_cases hm : id ∈ s.held
          · simpa using hm
          · simp [hm] at hs
        | _ => rfl

theorem onShard_spec {α} (c c' : Cache) (j : Nat) (f : Shard → Option (Shard × α)) (a : α)
    (h : c.onShard j f = some (c', a)) :
    ∃ sj sj', c.shards[j]? = some sj ∧ f sj = some (sj', a) ∧ c'.shards = c.shards.set j sj' := by
  simp only [Cache.onShard] at h
  cases hj : c.shards[j]? with
  | none => rw [hj] at h; cases h
  | some sj =>
    simp only [hj] at h
    cases hf : f sj with
    | none => simp [hf] at h
    | some p =>
      obtain ⟨sj', a'⟩ := p
      simp [hf] at h; obtain ⟨rfl, rfl⟩ := h
      exact ⟨sj, sj', rfl, hf, rfl⟩

theorem getElem?_lt {α} {l : List α} {i : Nat} {a : α} (h : l[i]? = some a) : i < l.length := by
  rcases Nat.lt_or_ge i l.length with h' | h'
  · exact h'
  · rw [List.getElem?_eq_none h'] at h; cases h

/-- an op routed to shard `j`: shard `j` makes the step `op`, every other shard is untouched -/
theorem onShard_proj {α} (c c' : Cache) (j : Nat) (f : Shard → Option (Shard × α)) (a : α) (op : Op) (o : Out)
    (h : c.onShard j f = some (c', a))
    (hf : ∀ sj sj', f sj = some (sj', a) → step sj op = some (sj', o)) (i : Nat) (s : Shard)
    (hs : c.shards[i]? = some s) :
    ∃ s' outs, c'.shards[i]? = some s' ∧ run s (if j = i then [op] else []) = some (s', outs) := by
  obtain ⟨sj, sj', hj, hfj, hc'⟩ := onShard_spec c c' j f a h
  by_cases hji : j = i
  · subst hji
    rw [hj] at hs; cases hs
    refine ⟨sj', [o], by rw [hc']; simp [getElem?_lt hj], ?_⟩
    simp [run, hf _ sj' hfj]
  · exact ⟨s, [], by rw [hc']; simp [List.getElem?_set, hji, hs], by simp [hji, run]⟩

theorem mapM'_spec (f : Shard → Option Shard) (l l' : List Shard) (h : mapM' f l = some l') :
    l'.length = l.length ∧ ∀ (i : Nat) (s : Shard), l[i]? = some s → ∃ s', l'[i]? = some s' ∧ f s = some s' := by
  induction l generalizing l' with
  | nil => simp [mapM'] at h; subst h; simp
  | cons a l ih =>
    simp only [mapM'] at h
    cases hf : f a with
    | none => rw [hf] at h; cases h
    | some a' =>
      rw [hf] at h
      cases hm : mapM' f l with
      | none => rw [hm] at h; cases h
      | some r =>
        rw [hm] at h; simp at h; subst h
        obtain ⟨hl, hr⟩ := ih r hm
        refine ⟨by simp [hl], ?_⟩
        intro i s hi
        cases i with
        | zero => simp at hi; subst hi; exact ⟨a', by simp, hf⟩
        | succ i => simp at hi; simpa using hr i s hi

theorem step_proj (c c' : Cache) (op : COp) (o : COut) (h : c.step op = some (c', o)) (i : Nat) (s : Shard)
    (hs : c.shards[i]? = some s) :
    ∃ s' outs, c'.shards[i]? = some s' ∧ run s (projOp i op) = some (s', outs) := by
  cases op with
  | insert k v ch =>
    simp only [Cache.step, Cache.insert] at h
    cases hh : c.onShard (shardOf k) (fun s => (LruCache.insert s k v ch).map fun (s', h) => (s', (shardOf k, h))) with
    | none => rw [hh] at h; cases h
    | some p =>
      obtain ⟨c1, hd⟩ := p
      rw [hh] at h; simp at h; obtain ⟨rfl, _⟩ := h
      cases hins : hd with
      | mk j id =>
      subst hins
      exact onShard_proj c c1 (shardOf k) _ (j, id) (.insert k v ch) (.handle (some id)) hh (by
        intro sj sj' hf
        cases hi : LruCache.insert sj k v ch with
        | none => simp [hi] at hf
        | some q => obtain ⟨s2, h2⟩ := q; simp [hi] at hf; obtain ⟨rfl, _, rfl⟩ := hf; simp [step, hi]) i s hs
  | lookup k =>
    simp only [Cache.step, Cache.lookup] at h
    cases hh : c.onShard (shardOf k) (fun s => (LruCache.lookup s k).map fun (s', h) => (s', h.map fun h => (shardOf k, h))) with
    | none => rw [hh] at h; cases h
    | some p =>
      obtain ⟨c1, hd⟩ := p
      rw [hh] at h; simp at h; obtain ⟨rfl, _⟩ := h
      obtain ⟨sj, sj', hj, hfj, hc'⟩ := onShard_spec c c1 (shardOf k) _ hd hh
      cases hl : LruCache.lookup sj k with
      | none => simp [hl] at hfj
      | some q =>
        obtain ⟨s2, h2⟩ := q
        simp [hl] at hfj; obtain ⟨rfl, _⟩ := hfj
        by_cases hji : shardOf k = i
        · subst hji
          rw [hj] at hs; cases hs
          exact ⟨s2, [.handle h2], by rw [hc']; simp [getElem?_lt hj], by simp [projOp, run, step, hl]⟩
        · exact ⟨s, [], by rw [hc']; simp [List.getElem?_set, hji, hs], by simp [projOp, hji, run]⟩
  | release hd =>
    simp only [Cache.step, Cache.release] at h
    cases hh : c.onShard hd.1 (fun s => (LruCache.release s hd.2).map fun s' => (s', ())) with
    | none => rw [hh] at h; cases h
    | some p =>
      obtain ⟨c1, u⟩ := p
      rw [hh] at h; simp at h; obtain ⟨rfl, _⟩ := h
      exact onShard_proj c c1 hd.1 _ u (.release hd.2) .unit hh (by
        intro sj sj' hf
        cases hi : LruCache.release sj hd.2 with
        | none => simp [hi] at hf
        | some q => simp [hi] at hf; subst hf; simp [step, hi]) i s hs
  | erase k =>
    simp only [Cache.step, Cache.erase] at h
    cases hh : c.onShard (shardOf k) (fun s => (LruCache.erase s k).map fun s' => (s', ())) with
    | none => rw [hh] at h; cases h
    | some p =>
      obtain ⟨c1, u⟩ := p
      rw [hh] at h; simp at h; obtain ⟨rfl, _⟩ := h
      exact onShard_proj c c1 (shardOf k) _ u (.erase k) .unit hh (by
        intro sj sj' hf
        cases hi : LruCache.erase sj k with
        | none => simp [hi] at hf
        | some q => simp [hi] at hf; subst hf; simp [step, hi]) i s hs
  | prune =>
    simp only [Cache.step, Cache.prune] at h
    cases hm : mapM' LruCache.prune c.shards with
    | none => rw [hm] at h; cases h
    | some ss =>
      rw [hm] at h; simp at h; obtain ⟨rfl, _⟩ := h
      obtain ⟨_, hr⟩ := mapM'_spec _ _ _ hm
      obtain ⟨s', h1, h2⟩ := hr i s hs
      exact ⟨s', [.unit], h1, by simp [projOp, run, step, h2]⟩

/-- **projection lemma**: after a cache-level script that does not fault, shard `i` is exactly what the shard-level
    run of the projected script (the ops whose key hashes to `i`, the releases of handles of shard `i`, every prune)
    makes of the initial shard `i`; and that projected script is well-formed -/
theorem cache_run_proj (c c' : Cache) (ops : List COp) (outs : List COut) (h : c.run ops = some (c', outs))
    (i : Nat) (s : Shard) (hs : c.shards[i]? = some s) :
    ∃ s' o, c'.shards[i]? = some s' ∧ run s (proj i ops) = some (s', o) ∧ wf s (proj i ops) = true := by
  induction ops generalizing c s outs with
  | nil => simp [Cache.run] at h; obtain ⟨rfl, _⟩ := h; exact ⟨s, [], hs, rfl, rfl⟩
  | cons op ops ih =>
    simp only [Cache.run] at h
    cases hst : c.step op with
    | none => rw [hst] at h; cases h
    | some p =>
      obtain ⟨c1, o⟩ := p
      simp only [hst] at h
      cases hr : Cache.run c1 ops with
      | none => rw [hr] at h; cases h
      | some q =>
        obtain ⟨c2, os⟩ := q
        rw [hr] at h; simp at h; obtain ⟨rfl, _⟩ := h
        obtain ⟨s1, o1, hs1, hr1⟩ := step_proj c c1 op o hst i s hs
        obtain ⟨s2, o2, hs2, hr2, _⟩ := ih c1 os hr s1 hs1
        have := run_append hr1 hr2
        exact ⟨s2, o1 ++ o2, hs2, this, run_some_wf _ _ _ this⟩

theorem create_getElem? (cap i : Nat) (hi : i < 16) :
    (Cache.create cap).shards[i]? = some (Shard.empty ((cap + 15) / 16)) := by
  show (List.replicate numShards (Shard.empty ((cap + (numShards - 1)) / numShards)))[i]? = _
  rw [List.getElem?_replicate]; simp [numShards, hi]


/-! ### un-projecting a decomposition of a shard script -/

theorem projOp_length (i : Nat) (op : COp) : (projOp i op).length ≤ 1 := by
  cases op <;> simp [projOp] <;> split <;> simp

theorem proj_append (i : Nat) (a b : List COp) : proj i (a ++ b) = proj i a ++ proj i b := by
  induction a with
  | nil => rfl
  | cons op a ih => simp [proj, ih]

theorem proj_split (i : Nat) (ops : List COp) (a b : List Op) (x : Op) (h : proj i ops = a ++ x :: b) :
    ∃ pre op post, ops = pre ++ op :: post ∧ projOp i op = [x] ∧ proj i pre = a ∧ proj i post = b := by
  induction ops generalizing a with
  | nil => simp [proj] at h
  | cons op ops ih =>
    simp only [proj] at h
    have hl := projOp_length i op
    cases hp : projOp i op with
    | nil =>
      rw [hp] at h; simp only [List.nil_append] at h
      obtain ⟨pre, op', post, h1, h2, h3, h4⟩ := ih a h
      exact ⟨op :: pre, op', post, by simp [h1], h2, by simp [proj, hp, h3], h4⟩
    | cons y ys =>
      rw [hp] at hl h
      have : ys = [] := by cases ys with | nil => rfl | cons _ _ => simp at hl
      subst this
      cases a with
      | nil =>
        simp at h
        exact ⟨[], op, ops, rfl, by rw [hp, h.1], rfl, h.2⟩
      | cons a0 a' =>
        simp at h
        obtain ⟨pre, op', post, h1, h2, h3, h4⟩ := ih a' h.2
        exact ⟨op :: pre, op', post, by simp [h1], h2, by simp [proj, hp, h3, h.1], h4⟩

theorem mem_proj (i : Nat) (ops : List COp) (op : COp) (h : op ∈ ops) (x : Op) (hx : x ∈ projOp i op) : x ∈ proj i ops := by
  induction ops with
  | nil => cases h
  | cons o ops ih =>
    simp only [proj, List.mem_append]
    rcases List.mem_cons.1 h with rfl | h'
    · left; exact hx
    · right; exact ih h'

/-! ### concatenated (shard-tagged) logs -/

/-- the lists of the shards, concatenated in shard order, each element tagged with its shard index -/
def tagFrom (n : Nat) : List (List Nat) → List (Nat × Nat)
  | [] => []
  | x :: xs => x.map (fun id => (n, id)) ++ tagFrom (n + 1) xs

theorem mem_tagFrom (n : Nat) (l : List (List Nat)) (i id : Nat) :
    (i, id) ∈ tagFrom n l ↔ n ≤ i ∧ ∃ x, l[i - n]? = some x ∧ id ∈ x := by
  induction l generalizing n with
  | nil => simp [tagFrom]
  | cons x xs ih =>
    simp only [tagFrom, List.mem_append, List.mem_map, Prod.mk.injEq, ih]
    constructor
    · rintro (⟨a, ha, rfl, rfl⟩ | ⟨h1, y, h2, h3⟩)
      · exact ⟨Nat.le_refl _, x, by simp, ha⟩
      · refine ⟨by omega, y, ?_, h3⟩
        have : i - n = (i - (n + 1)) + 1 := by omega
        rw [this]; simpa using h2
    · rintro ⟨h1, y, h2, h3⟩
      by_cases h : i = n
      · subst h; simp at h2; subst h2; left; exact ⟨id, h3, rfl, rfl⟩
      · right
        have : i - n = (i - (n + 1)) + 1 := by omega
        rw [this] at h2
        exact ⟨by omega, y, by simpa using h2, h3⟩

theorem nodup_map_tag (n : Nat) (x : List Nat) (h : x.Nodup) : (x.map (fun id => (n, id))).Nodup := by
  induction x with
  | nil => simp
  | cons a x ih =>
    obtain ⟨h1, h2⟩ := List.nodup_cons.1 h
    simp only [List.map_cons, List.nodup_cons, List.mem_map, Prod.mk.injEq]
    exact ⟨by rintro ⟨b, hb, _, rfl⟩; exact h1 hb, ih h2⟩

theorem nodup_tagFrom (n : Nat) (l : List (List Nat)) (h : ∀ x ∈ l, x.Nodup) : (tagFrom n l).Nodup := by
  induction l generalizing n with
  | nil => simp [tagFrom]
  | cons x xs ih =>
    simp only [tagFrom]
    rw [List.nodup_append]
    refine ⟨nodup_map_tag n x (h x (by simp)), ih (n + 1) (fun y hy => h y (by simp [hy])), ?_⟩
    intro a ha b hb hab
    subst hab
    obtain ⟨i, id⟩ := a
    simp only [List.mem_map, Prod.mk.injEq] at ha
    obtain ⟨_, _, hi, _⟩ := ha
    have := (mem_tagFrom (n + 1) xs i id).1 hb
    omega

/-- all deleter calls of the cache: per shard in shard order, tagged (shard, entry id) -/
def Cache.deletedAll (c : Cache) : List Handle := tagFrom 0 (c.shards.map (·.deleted))

/-- all handles held by the client, as (shard, entry id) -/
def Cache.heldAll (c : Cache) : List Handle := tagFrom 0 (c.shards.map (·.held))

end Lcdb.LruCache
