/-
  Helper lemmas for LcdbModel.Model.Crc32c (core Lean only).
-/
import LcdbModel.Model.Crc32c
namespace Lcdb

/-! ### generic 32-bit facts -/

theorem w32_xor_xor_cancel (a b : W32) : (a ^^^ b) ^^^ b = a := by
  rw [BitVec.xor_assoc, BitVec.xor_self, BitVec.xor_zero]

/-- rotating right by 15 then left by 15 -/
theorem w32_rotr15_rotl15 (c : W32) :
    (((c >>> 15) ||| (c <<< 17)) >>> 17) ||| (((c >>> 15) ||| (c <<< 17)) <<< 15) = c := by
  apply BitVec.eq_of_getLsbD_eq
  intro i hi
  simp only [BitVec.getLsbD_or, BitVec.getLsbD_ushiftRight, BitVec.getLsbD_shiftLeft]
  by_cases h : i < 15
  · have e1 : 17 + i - 17 = i := by omega
    have e2 : ¬ 17 + i < 17 := by omega
    have e3 : 17 + i < 32 := by omega
    have e4 : 15 + (17 + i) ≥ 32 := by omega
    simp [h, hi, e1, e2, e3, BitVec.getLsbD_of_ge _ _ e4]
  · have e1 : 15 + (i - 15) = i := by omega
    have e4 : 15 + (17 + i) ≥ 32 := by omega
    have e5 : 17 + i ≥ 32 := by omega
    have e6 : i - 15 < 17 := by omega
    simp [h, hi, e1, e6, BitVec.getLsbD_of_ge _ _ e4, Nat.not_lt.mpr e5]

/-- rotating left by 15 then right by 15 -/
theorem w32_rotl15_rotr15 (c : W32) :
    (((c >>> 17) ||| (c <<< 15)) >>> 15) ||| (((c >>> 17) ||| (c <<< 15)) <<< 17) = c := by
  apply BitVec.eq_of_getLsbD_eq
  intro i hi
  simp only [BitVec.getLsbD_or, BitVec.getLsbD_ushiftRight, BitVec.getLsbD_shiftLeft]
  by_cases h : i < 17
  · have e1 : 15 + i - 15 = i := by omega
    have e2 : ¬ 15 + i < 15 := by omega
    have e3 : 15 + i < 32 := by omega
    have e4 : 17 + (15 + i) ≥ 32 := by omega
    simp [h, hi, e1, e2, e3, BitVec.getLsbD_of_ge _ _ e4]
  · have e1 : 17 + (i - 17) = i := by omega
    have e4 : 17 + (15 + i) ≥ 32 := by omega
    have e5 : 15 + i ≥ 32 := by omega
    have e6 : i - 17 < 15 := by omega
    simp [h, hi, e1, e6, BitVec.getLsbD_of_ge _ _ e4, Nat.not_lt.mpr e5]

theorem getLsbD_0xff (i : Nat) : (0xff#32 : W32).getLsbD i = decide (i < 8) := by
  have : (0xff#32 : W32) = BitVec.setWidth 32 (BitVec.allOnes 8) := by decide
  rw [this, BitVec.getLsbD_setWidth, BitVec.getLsbD_allOnes]
  by_cases h : i < 8
  · have : i < 32 := by omega
    simp [h, this]
  · simp [h]

/-- split a word into its low byte and the rest -/
theorem w32_split_low_byte (l : W32) : l = (l &&& 0xff#32) ^^^ ((l >>> 8) <<< 8) := by
  apply BitVec.eq_of_getLsbD_eq
  intro i hi
  simp only [BitVec.getLsbD_xor, BitVec.getLsbD_and, getLsbD_0xff, BitVec.getLsbD_shiftLeft,
    BitVec.getLsbD_ushiftRight]
  by_cases h : i < 8
  · simp [h]
  · have e : 8 + (i - 8) = i := by omega
    simp [h, hi, e]

theorem w32_shl8_low_zero (x : W32) (i : Nat) (h : i < 8) : (x <<< 8).getLsbD i = false := by
  simp [BitVec.getLsbD_shiftLeft, h]

theorem w32_shr8_shl8_shr8 (l : W32) : ((l >>> 8) <<< 8) >>> 8 = l >>> 8 := by
  apply BitVec.eq_of_getLsbD_eq
  intro i hi
  simp only [BitVec.getLsbD_ushiftRight, BitVec.getLsbD_shiftLeft]
  by_cases h : 8 + i < 32
  · simp [h]
  · have : 32 ≤ 8 + i := by omega
    simp [h, BitVec.getLsbD_of_ge _ _ this]

/-! ### one LFSR step -/

theorem crcPoly_msb : crcPoly.getLsbD 31 = true := by decide

theorem crcBit_of_lsb_false (l : W32) (h : l.getLsbD 0 = false) : crcBit l = l >>> 1 := by
  have h' : ¬ (l.getLsbD 0 = true) := by rw [h]; exact Bool.false_ne_true
  rw [crcBit, if_neg h']

theorem crcBit_of_lsb_true (l : W32) (h : l.getLsbD 0 = true) :
    crcBit l = (l >>> 1) ^^^ crcPoly := by
  rw [crcBit, if_pos h]

theorem crcBit_xor' (a b : W32) : crcBit (a ^^^ b) = crcBit a ^^^ crcBit b := by
  have hx : (a ^^^ b).getLsbD 0 = (a.getLsbD 0 ^^ b.getLsbD 0) := BitVec.getLsbD_xor
  cases ha : a.getLsbD 0 <;> cases hb : b.getLsbD 0
  · rw [crcBit_of_lsb_false a ha, crcBit_of_lsb_false b hb,
      crcBit_of_lsb_false (a ^^^ b) (by rw [hx, ha, hb]; rfl), BitVec.ushiftRight_xor_distrib]
  · rw [crcBit_of_lsb_false a ha, crcBit_of_lsb_true b hb,
      crcBit_of_lsb_true (a ^^^ b) (by rw [hx, ha, hb]; rfl), BitVec.ushiftRight_xor_distrib,
      BitVec.xor_assoc]
  · rw [crcBit_of_lsb_true a ha, crcBit_of_lsb_false b hb,
      crcBit_of_lsb_true (a ^^^ b) (by rw [hx, ha, hb]; rfl), BitVec.ushiftRight_xor_distrib,
      BitVec.xor_assoc, BitVec.xor_assoc, BitVec.xor_comm (b >>> 1)]
  · rw [crcBit_of_lsb_true a ha, crcBit_of_lsb_true b hb,
      crcBit_of_lsb_false (a ^^^ b) (by rw [hx, ha, hb]; rfl), BitVec.ushiftRight_xor_distrib,
      BitVec.xor_assoc, BitVec.xor_comm (b >>> 1), ← BitVec.xor_assoc crcPoly,
      BitVec.xor_self, BitVec.zero_xor]

theorem crcBit_zero : crcBit 0 = 0 := by decide

/-- the top bit of `crcBit l` is the low bit of `l` (the polynomial has bit 31 set) -/
theorem crcBit_msb (l : W32) : (crcBit l).getLsbD 31 = l.getLsbD 0 := by
  have hs : (l >>> 1).getLsbD 31 = false := by
    rw [BitVec.getLsbD_ushiftRight]; exact BitVec.getLsbD_of_ge _ _ (by omega)
  cases h : l.getLsbD 0
  · rw [crcBit_of_lsb_false l h, hs]
  · rw [crcBit_of_lsb_true l h, BitVec.getLsbD_xor, hs, crcPoly_msb]; rfl

theorem crcBit_inj {a b : W32} (h : crcBit a = crcBit b) : a = b := by
  have h0 : a.getLsbD 0 = b.getLsbD 0 := by
    rw [← crcBit_msb a, ← crcBit_msb b, h]
  have hs : a >>> 1 = b >>> 1 := by
    cases ha : a.getLsbD 0
    · have hb : b.getLsbD 0 = false := by rw [← h0, ha]
      rw [crcBit_of_lsb_false a ha, crcBit_of_lsb_false b hb] at h; exact h
    · have hb : b.getLsbD 0 = true := by rw [← h0, ha]
      rw [crcBit_of_lsb_true a ha, crcBit_of_lsb_true b hb] at h
      exact (BitVec.xor_left_inj crcPoly).mp h
  apply BitVec.eq_of_getLsbD_eq
  intro i _
  cases i with
  | zero => exact h0
  | succ j =>
    have := congrArg (fun x => BitVec.getLsbD x j) hs
    simp only [BitVec.getLsbD_ushiftRight] at this
    rw [Nat.add_comm j 1]; exact this

/-! ### eight steps -/

theorem crcBit8_xor' (a b : W32) : crcBit8 (a ^^^ b) = crcBit8 a ^^^ crcBit8 b := by
  simp only [crcBit8, crcBit_xor']

theorem crcBit8_inj {a b : W32} (h : crcBit8 a = crcBit8 b) : a = b := by
  unfold crcBit8 at h
  exact crcBit_inj (crcBit_inj (crcBit_inj (crcBit_inj (crcBit_inj (crcBit_inj (crcBit_inj
    (crcBit_inj h)))))))

theorem crcBit_shr (h : W32) (k : Nat) (hz : h.getLsbD k = false) :
    crcBit (h >>> k) = h >>> (k + 1) := by
  rw [crcBit_of_lsb_false, BitVec.shiftRight_add]
  rw [BitVec.getLsbD_ushiftRight]; exact hz

/-- on a word whose low byte is zero, eight LFSR steps are just `>>> 8` -/
theorem crcBit8_of_low_zero (h : W32) (hz : ∀ i, i < 8 → h.getLsbD i = false) :
    crcBit8 h = h >>> 8 := by
  unfold crcBit8
  have e0 : crcBit h = h >>> 1 := by
    have := crcBit_shr h 0 (hz 0 (by omega))
    rwa [BitVec.ushiftRight_zero] at this
  rw [e0, crcBit_shr h 1 (hz 1 (by omega)), crcBit_shr h 2 (hz 2 (by omega)),
    crcBit_shr h 3 (hz 3 (by omega)), crcBit_shr h 4 (hz 4 (by omega)),
    crcBit_shr h 5 (hz 5 (by omega)), crcBit_shr h 6 (hz 6 (by omega)),
    crcBit_shr h 7 (hz 7 (by omega))]

/-! ### table -/

theorem crcTable_length' : crcTable.length = 256 := by
  simp [crcTable]

theorem crcTableGet_eq' (i : Nat) (h : i < 256) :
    crcTableGet i = crcBit8 (BitVec.ofNat 32 i) := by
  simp [crcTableGet, crcTable, List.getD_eq_getElem?_getD, h]

theorem crcTab_index_lt (l : W32) (b : UInt8) :
    ((l &&& 0xff#32) ^^^ (b.toBitVec.zeroExtend 32)).toNat < 256 := by
  rw [BitVec.toNat_xor, BitVec.toNat_and]
  apply Nat.xor_lt_two_pow (n := 8)
  · have : l.toNat &&& (0xff#32 : W32).toNat ≤ (0xff#32 : W32).toNat := Nat.and_le_right
    have e : (0xff#32 : W32).toNat = 255 := by decide
    omega
  · show (BitVec.setWidth 32 b.toBitVec).toNat < 2 ^ 8
    rw [BitVec.toNat_setWidth]
    have := b.toBitVec.isLt
    have : b.toBitVec.toNat % 2 ^ 32 ≤ b.toBitVec.toNat := Nat.mod_le _ _
    omega

theorem crcByteTab_eq_spec' (l : W32) (b : UInt8) : crcByteTab l b = crcByteSpec l b := by
  unfold crcByteTab crcByteSpec
  rw [crcTableGet_eq' _ (crcTab_index_lt l b), BitVec.ofNat_toNat, BitVec.setWidth_eq]
  have hsplit : l ^^^ (b.toBitVec.zeroExtend 32)
      = ((l &&& 0xff#32) ^^^ (b.toBitVec.zeroExtend 32)) ^^^ ((l >>> 8) <<< 8) := by
    rw [BitVec.xor_assoc, BitVec.xor_comm (b.toBitVec.zeroExtend 32), ← BitVec.xor_assoc,
      ← w32_split_low_byte]
  rw [hsplit, crcBit8_xor' _ ((l >>> 8) <<< 8), crcBit8_of_low_zero _ (w32_shl8_low_zero _), w32_shr8_shl8_shr8]

theorem zeroExtend32_inj {x y : UInt8}
    (h : x.toBitVec.zeroExtend 32 = y.toBitVec.zeroExtend 32) : x = y := by
  have h' := congrArg (BitVec.setWidth 8) h
  simp only [BitVec.zeroExtend] at h'
  rw [BitVec.setWidth_setWidth_of_le _ (by omega), BitVec.setWidth_setWidth_of_le _ (by omega),
    BitVec.setWidth_eq, BitVec.setWidth_eq] at h'
  exact UInt8.toBitVec_inj.mp h'

/-! ### folds -/

theorem crcFeed_nil (l : W32) : crcFeed l [] = l := rfl
theorem crcFeed_cons (l : W32) (b : UInt8) (bs : Bytes) :
    crcFeed l (b :: bs) = crcFeed (crcByteSpec l b) bs := rfl
theorem crcFeed_append (l : W32) (a b : Bytes) :
    crcFeed l (a ++ b) = crcFeed (crcFeed l a) b := by
  simp [crcFeed, List.foldl_append]

end Lcdb
