/-
  Helper lemmas for the table-block theorems (umbrella module).

  * Lemmas/BlockWf.lean      `Ent`, `Chain`, `WfBlock`: the decoded view of a block
  * Lemmas/BlockBuild.lean   the builder produces well-formed blocks (`blockBuild_wf`)
  * Lemmas/BlockSafety.lean  invariant + totality on arbitrary bytes (`block_no_fault`)
  * Lemmas/BlockIter.lean    the iterator over a well-formed block simulates the reference cursor
  * Lemmas/CursorDefs.lean, Lemmas/Cursor.lean   order laws, reference cursor, seek helpers, simulation
  * Lemmas/OrdInstances.lean the concrete comparators satisfy the order laws
  * Lemmas/BlockExtras.lean  size bound for built blocks, the 15-byte header window is unobservable
-/
import LcdbModel.Lemmas.BlockWf
import LcdbModel.Lemmas.BlockBuild
import LcdbModel.Lemmas.BlockSafety
import LcdbModel.Lemmas.BlockIter
import LcdbModel.Lemmas.Cursor
import LcdbModel.Lemmas.OrdInstances
import LcdbModel.Lemmas.BlockExtras
