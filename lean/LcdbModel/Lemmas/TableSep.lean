/-
  The index keys chosen by the table builder (`ikeySeparator` between two blocks,
  `ikeySuccessor` after the last block) satisfy `sepOk` (Lemmas/TableDefs.lean).
-/
import LcdbModel.Lemmas.TableDefs
import LcdbModel.Props.KeyProps
import LcdbModel.Lemmas.OrdInstances
namespace Lcdb

theorem packSeek_lt : packSeqType maxSequence valtypeSeek < 2 ^ 64 := by decide

theorem ikeyUser_length (x : Bytes) : (ikeyUser x).length = x.length - 8 := by
  simp only [ikeyUser, List.length_take]; omega

theorem ikeyEnc_length (u : Bytes) (seq ty : Nat) : (ikeyEnc u seq ty).length = u.length + 8 := by
  simp only [ikeyEnc, List.length_append, fixedEnc_length']

/-- the two outcomes of `ikeySeparator`: the start key itself, or a strictly shorter user key
    (bytewise comparator only) with the maximal (sequence, type) tag -/
theorem ikeySeparator_cases (c : Cmp) (x y : Bytes) :
    ikeySeparator c x y = x ∨
    (c = .bytewise ∧
      (shortestSeparator (ikeyUser x) (ikeyUser y)).length < (ikeyUser x).length ∧
      bytesCmp (ikeyUser x) (shortestSeparator (ikeyUser x) (ikeyUser y)) = .lt ∧
      ikeySeparator c x y = ikeyEnc (shortestSeparator (ikeyUser x) (ikeyUser y)) maxSequence valtypeSeek) := by
  unfold ikeySeparator
  cases c with
  | bytewise =>
    show (if ((shortestSeparator (ikeyUser x) (ikeyUser y)).length < (ikeyUser x).length &&
        bytesCmp (ikeyUser x) (shortestSeparator (ikeyUser x) (ikeyUser y)) == .lt) = true
        then shortestSeparator (ikeyUser x) (ikeyUser y) ++ fixedEnc 8 (packSeqType maxSequence valtypeSeek)
        else x) = x ∨ _
    by_cases hcond : ((shortestSeparator (ikeyUser x) (ikeyUser y)).length < (ikeyUser x).length &&
        bytesCmp (ikeyUser x) (shortestSeparator (ikeyUser x) (ikeyUser y)) == .lt) = true
    · right
      have hc2 := hcond
      rw [Bool.and_eq_true, decide_eq_true_eq, beq_iff_eq] at hc2
      exact ⟨rfl, hc2.1, hc2.2, if_pos hcond⟩
    · left
      exact if_neg hcond
  | reverse => left; rfl
  | lenFirst => left; rfl

theorem ikeySuccessor_cases (c : Cmp) (x : Bytes) :
    ikeySuccessor c x = x ∨
    (c = .bytewise ∧
      (shortSuccessor (ikeyUser x)).length < (ikeyUser x).length ∧
      bytesCmp (ikeyUser x) (shortSuccessor (ikeyUser x)) = .lt ∧
      ikeySuccessor c x = ikeyEnc (shortSuccessor (ikeyUser x)) maxSequence valtypeSeek) := by
  unfold ikeySuccessor
  cases c with
  | bytewise =>
    show (if ((shortSuccessor (ikeyUser x)).length < (ikeyUser x).length &&
        bytesCmp (ikeyUser x) (shortSuccessor (ikeyUser x)) == .lt) = true
        then shortSuccessor (ikeyUser x) ++ fixedEnc 8 (packSeqType maxSequence valtypeSeek)
        else x) = x ∨ _
    by_cases hcond : ((shortSuccessor (ikeyUser x)).length < (ikeyUser x).length &&
        bytesCmp (ikeyUser x) (shortSuccessor (ikeyUser x)) == .lt) = true
    · right
      have hc2 := hcond
      rw [Bool.and_eq_true, decide_eq_true_eq, beq_iff_eq] at hc2
      exact ⟨rfl, hc2.1, hc2.2, if_pos hcond⟩
    · left
      exact if_neg hcond
  | reverse => left; rfl
  | lenFirst => left; rfl

theorem ikeySeparator_sepOk (c : Cmp) (x y : Bytes) (hx : 8 ≤ x.length) (hy : 8 ≤ y.length)
    (hxs : x.length < 2 ^ 32) (hlt : ikeyCmp c x y = .lt) :
    sepOk c x (ikeySeparator c x y) (some y) := by
  obtain ⟨hle, hlt', h8⟩ := KeyProps.ikey_separator_contract c x y hx hy hlt
  refine ⟨h8, ?_, hle, ?_, ?_⟩
  · rcases ikeySeparator_cases c x y with h | ⟨_, hlen, _, h⟩
    · rw [h]; exact hxs
    · rw [h, ikeyEnc_length]
      rw [ikeyUser_length] at hlen
      omega
  · intro f hf
    cases hf
    exact hlt'
  · rcases ikeySeparator_cases c x y with h | ⟨hc, hlen, hcmp, h⟩
    · exact Or.inl h
    · refine Or.inr ?_
      subst hc
      rw [h, KeyProps.ikeyUser_ikeyEnc, KeyProps.ikeyNum_ikeyEnc _ _ _ packSeek_lt]
      refine ⟨rfl, hcmp, ?_⟩
      have hu : bytesCmp (ikeyUser x) (ikeyUser y) = .lt := by
        rcases (ikeyCmp_lt_iff .bytewise x y).mp hlt with h1 | ⟨h1, _⟩
        · exact h1
        · rw [← h1, KeyProps.shortestSeparator_self] at hlen
          exact absurd hlen (Nat.lt_irrefl _)
      exact (KeyProps.separator_contract _ _ hu).2

theorem ikeySuccessor_sepOk (c : Cmp) (x : Bytes) (hx : 8 ≤ x.length) (hxs : x.length < 2 ^ 32) :
    sepOk c x (ikeySuccessor c x) none := by
  obtain ⟨hle, h8⟩ := KeyProps.ikey_successor_contract c x hx
  refine ⟨h8, ?_, hle, ?_, ?_⟩
  · rcases ikeySuccessor_cases c x with h | ⟨_, hlen, _, h⟩
    · rw [h]; exact hxs
    · rw [h, ikeyEnc_length]
      rw [ikeyUser_length] at hlen
      omega
  · intro f hf
    cases hf
  · rcases ikeySuccessor_cases c x with h | ⟨hc, hlen, hcmp, h⟩
    · exact Or.inl h
    · refine Or.inr ?_
      subst hc
      rw [h, KeyProps.ikeyUser_ikeyEnc, KeyProps.ikeyNum_ikeyEnc _ _ _ packSeek_lt]
      exact ⟨rfl, hcmp⟩

end Lcdb
