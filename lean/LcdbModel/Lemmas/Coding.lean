/-
  Helper lemmas for LcdbModel.Model.Coding (core Lean only).
-/
import LcdbModel.Model.Coding
namespace Lcdb

/-! ### fixed-width -/

theorem fixedEnc_length' (w n : Nat) : (fixedEnc w n).length = w := by
  induction w generalizing n with
  | zero => simp [fixedEnc]
  | succ w ih => simp [fixedEnc, ih]

theorem fixedDec_fixedEnc' (w n : Nat) : fixedDec (fixedEnc w n) = n % 256 ^ w := by
  induction w generalizing n with
  | zero => simp [fixedEnc, fixedDec, Nat.mod_one]
  | succ w ih =>
    simp only [fixedEnc, fixedDec, ih, UInt8.toNat_ofNat']
    have h1 : n % 256 % 2 ^ 8 = n % 256 := by omega
    have h2 : 256 ^ (w + 1) = 256 * 256 ^ w := by rw [Nat.pow_succ, Nat.mul_comm]
    rw [h1, h2, Nat.mod_mul]

/-! ### varint encoder -/

theorem varintEnc_lt (n : Nat) (h : n < 128) : varintEnc n = [UInt8.ofNat n] := by
  rw [varintEnc]; simp [h]

theorem varintEnc_ge (n : Nat) (h : ¬ n < 128) :
    varintEnc n = UInt8.ofNat (n % 128 + 128) :: varintEnc (n / 128) := by
  rw [varintEnc]; simp [h]

theorem varintEnc_length_pos (n : Nat) : 1 ≤ (varintEnc n).length := by
  by_cases h : n < 128
  · simp [varintEnc_lt n h]
  · simp [varintEnc_ge n h]

/-- `n < 128^(k+1)` needs at most `k+1` bytes -/
theorem varintEnc_length_le (k n : Nat) (h : n < 128 ^ (k + 1)) :
    (varintEnc n).length ≤ k + 1 := by
  induction k generalizing n with
  | zero =>
    have h' : n < 128 := by simpa using h
    simp [varintEnc_lt n h']
  | succ k ih =>
    by_cases h' : n < 128
    · simp [varintEnc_lt n h']
    · rw [varintEnc_ge n h']
      have : n / 128 < 128 ^ (k + 1) := by
        rw [Nat.div_lt_iff_lt_mul (by decide)]
        rw [Nat.pow_succ] at h; exact h
      have := ih (n / 128) this
      simp only [List.length_cons]; omega

/-! ### varint decoder loop -/

/-- the decoder loop inverts the encoder provided enough fuel remains -/
theorem varintGo_varintEnc (w : Nat) (n : Nat) :
    ∀ (fuel shift acc : Nat) (rest : Bytes), (varintEnc n).length ≤ fuel →
      varintGo w fuel shift acc (varintEnc n ++ rest)
        = some ((acc + n * 2 ^ shift) % 2 ^ w, rest) := by
  induction n using Nat.strongRecOn with
  | _ n ih =>
    intro fuel shift acc rest hf
    by_cases h : n < 128
    · rw [varintEnc_lt n h] at hf ⊢
      cases fuel with
      | zero => simp at hf
      | succ fuel =>
        have h1 : (UInt8.ofNat n).toNat = n := by
          rw [UInt8.toNat_ofNat']; omega
        simp only [List.cons_append, List.nil_append, varintGo, h1]
        have : ¬ n ≥ 128 := by omega
        simp [this]
    · rw [varintEnc_ge n h] at hf ⊢
      cases fuel with
      | zero => simp at hf
      | succ fuel =>
        have h1 : (UInt8.ofNat (n % 128 + 128)).toNat = n % 128 + 128 := by
          rw [UInt8.toNat_ofNat']; omega
        simp only [List.cons_append, varintGo, h1]
        have h2 : n % 128 + 128 ≥ 128 := by omega
        simp only [h2, if_true]
        have hlt : n / 128 < n := by omega
        have hf' : (varintEnc (n / 128)).length ≤ fuel := by
          simp only [List.length_cons] at hf; omega
        rw [ih (n / 128) hlt fuel (shift + 7) _ rest hf']
        have h3 : (n % 128 + 128) % 128 = n % 128 := by omega
        rw [h3]
        have h4 : n % 128 * 2 ^ shift + n / 128 * 2 ^ (shift + 7) = n * 2 ^ shift := by
          rw [Nat.pow_add, Nat.mul_comm (2 ^ shift) (2 ^ 7), ← Nat.mul_assoc, ← Nat.add_mul]
          congr 1
          have := Nat.div_add_mod n 128
          omega
        rw [Nat.add_assoc, h4]

/-- a successful decode yields a `w`-bit value and consumes between 1 and `fuel` bytes -/
theorem varintGo_consumes (w : Nat) :
    ∀ (fuel shift acc : Nat) (bs : Bytes) (v : Nat) (rest : Bytes),
      varintGo w fuel shift acc bs = some (v, rest) →
        v < 2 ^ w ∧ ∃ k, 1 ≤ k ∧ k ≤ fuel ∧ rest = bs.drop k := by
  intro fuel
  induction fuel with
  | zero => intro shift acc bs v rest h; simp [varintGo] at h
  | succ fuel ih =>
    intro shift acc bs v rest h
    cases bs with
    | nil => simp [varintGo] at h
    | cons b bs =>
      simp only [varintGo] at h
      by_cases hb : b.toNat ≥ 128
      · simp only [hb, if_true] at h
        obtain ⟨hv, k, hk1, hk2, hk3⟩ := ih _ _ _ _ _ h
        exact ⟨hv, k + 1, by omega, by omega, by simpa using hk3⟩
      · simp only [hb, if_false, Option.some.injEq, Prod.mk.injEq] at h
        obtain ⟨h1, h2⟩ := h
        refine ⟨?_, 1, by omega, by omega, by simp [h2]⟩
        rw [← h1]; exact Nat.mod_lt _ (Nat.two_pow_pos w)

/-- the accumulated value stays below `2^shift` when it starts so (justifies `|` as `+`) -/
theorem varintGo_acc_lt (shift acc : Nat) (b : UInt8) (h : acc < 2 ^ shift) :
    acc + (b.toNat % 128) * 2 ^ shift < 2 ^ (shift + 7) := by
  have hb : b.toNat % 128 ≤ 127 := by omega
  have : (b.toNat % 128) * 2 ^ shift ≤ 127 * 2 ^ shift := Nat.mul_le_mul_right _ hb
  rw [Nat.pow_add]; omega

end Lcdb
