/-
  DBIter (db_iter.c) over an internal iterator that simulates the run cursor only for BOUNDED seek targets
  (the memtable iterator: `ldb_slice_export` truncates lengths ≥ 2^32).

  Method: `patchSeek I g` replaces the `seek` entry of the vtable.  DBIter calls `I.seek` only from
  `ldb_dbiter_seek`, with the user's target and the trailer `seekPacked s`; so DBIter over `I` and over the
  patched iterator run identically on every operation sequence whose targets are in bounds (`run_patch`), and
  the patched iterator (out-of-bounds targets answered by a state that represents the cursor's answer) is an
  unrestricted simulation, to which `C07x.dbiter_is_map_cursor_gen` applies.
-/
import LcdbModel.Props.IterProps
import LcdbModel.Lemmas.MemtableGet
namespace Lcdb

/-- `InternalIter.Sim` with the seek clause restricted to targets satisfying `P` -/
structure InternalIter.SimOn {σ τ : Type} (P : Bytes → Nat → Prop) (I₁ : InternalIter σ) (I₂ : InternalIter τ)
    (R : σ → τ → Prop) : Prop where
  valid : ∀ a b, R a b → I₁.valid a = I₂.valid b
  entry : ∀ a b, R a b → I₁.entry a = I₂.entry b
  status : ∀ a b, R a b → I₁.status a = I₂.status b
  first : ∀ a b, R a b → ∃ a' b', I₁.first a = some a' ∧ I₂.first b = some b' ∧ R a' b'
  last : ∀ a b, R a b → ∃ a' b', I₁.last a = some a' ∧ I₂.last b = some b' ∧ R a' b'
  seek : ∀ k pk a b, P k pk → R a b → ∃ a' b', I₁.seek k pk a = some a' ∧ I₂.seek k pk b = some b' ∧ R a' b'
  next : ∀ a b, R a b → I₁.valid a = true →
    ∃ a' b', I₁.next a = some a' ∧ I₂.next b = some b' ∧ R a' b'
  prev : ∀ a b, R a b → I₁.valid a = true →
    ∃ a' b', I₁.prev a = some a' ∧ I₂.prev b = some b' ∧ R a' b'

/-- the vtable with its `seek` entry replaced -/
def patchSeek {σ : Type} (I : InternalIter σ) (g : Bytes → Nat → σ → Option σ) : InternalIter σ :=
  { I with seek := g }

namespace DbIter
variable {σ : Type} (I : InternalIter σ) (g : Bytes → Nat → σ → Option σ) (c : Cmp) (s : Nat)

theorem findNext_patch (fuel : Nat) (sk : Bool) (st : DbIter σ) :
    findNextUserEntry (patchSeek I g) c s fuel sk st = findNextUserEntry I c s fuel sk st := by
  induction fuel generalizing sk st with
  | zero => rfl
  | succ fuel ih =>
    have hrec : findNextUserEntry (patchSeek I g) c s fuel = findNextUserEntry I c s fuel := by
      funext a b; exact ih a b
    simp only [findNextUserEntry, hrec]
    rfl

theorem findPrevLoop_patch (fuel vt : Nat) (st : DbIter σ) :
    findPrevLoop (patchSeek I g) c s fuel vt st = findPrevLoop I c s fuel vt st := by
  induction fuel generalizing vt st with
  | zero => rfl
  | succ fuel ih =>
    have hrec : findPrevLoop (patchSeek I g) c s fuel = findPrevLoop I c s fuel := by
      funext a b; exact ih a b
    simp only [findPrevLoop, hrec]
    rfl

theorem prevScan_patch (fuel : Nat) (st : DbIter σ) :
    prevScan (patchSeek I g) c fuel st = prevScan I c fuel st := by
  induction fuel generalizing st with
  | zero => rfl
  | succ fuel ih =>
    have hrec : prevScan (patchSeek I g) c fuel = prevScan I c fuel := by
      funext a; exact ih a
    simp only [prevScan, hrec]
    rfl

theorem findPrevUser_patch (fuel : Nat) (st : DbIter σ) :
    findPrevUserEntry (patchSeek I g) c s fuel st = findPrevUserEntry I c s fuel st := by
  have h : findPrevLoop (patchSeek I g) c s fuel = findPrevLoop I c s fuel := by
    funext a b; exact findPrevLoop_patch I g c s fuel a b
  simp only [findPrevUserEntry, h]
  rfl

theorem next_patch (fuel : Nat) : next (patchSeek I g) c s fuel = next I c s fuel := by
  funext st
  have h : findNextUserEntry (patchSeek I g) c s fuel = findNextUserEntry I c s fuel := by
    funext a b; exact findNext_patch I g c s fuel a b
  simp only [next, h]
  rfl

theorem prev_patch (fuel : Nat) : prev (patchSeek I g) c s fuel = prev I c s fuel := by
  funext st
  have h1 : prevScan (patchSeek I g) c fuel = prevScan I c fuel := by
    funext a; exact prevScan_patch I g c fuel a
  have h2 : findPrevUserEntry (patchSeek I g) c s fuel = findPrevUserEntry I c s fuel := by
    funext a; exact findPrevUser_patch I g c s fuel a
  simp only [prev, h1, h2]
  rfl

theorem first_patch (fuel : Nat) : first (patchSeek I g) c s fuel = first I c s fuel := by
  funext st
  have h : findNextUserEntry (patchSeek I g) c s fuel = findNextUserEntry I c s fuel := by
    funext a b; exact findNext_patch I g c s fuel a b
  simp only [first, h]
  rfl

theorem last_patch (fuel : Nat) : last (patchSeek I g) c s fuel = last I c s fuel := by
  funext st
  have h2 : findPrevUserEntry (patchSeek I g) c s fuel = findPrevUserEntry I c s fuel := by
    funext a; exact findPrevUser_patch I g c s fuel a
  simp only [last, h2]
  rfl

theorem seek_patch (fuel : Nat) (t : Bytes) (hg : ∀ a, g t (seekPacked s) a = I.seek t (seekPacked s) a) :
    seek (patchSeek I g) c s fuel t = seek I c s fuel t := by
  funext st
  have h : findNextUserEntry (patchSeek I g) c s fuel = findNextUserEntry I c s fuel := by
    funext a b; exact findNext_patch I g c s fuel a b
  simp only [seek, h]
  show (match g t (seekPacked s) st.it with | none => none | some it' => _) = _
  rw [hg]
  rfl

/-- the seek target of a public operation -/
def opTarget : IterOp → Option Bytes
  | .seek t => some t | .seekGe t => some t | .seekGt t => some t | .seekLe t => some t | .seekLt t => some t
  | _ => none

theorem apply_patch (fuel : Nat) (op : IterOp) (st : DbIter σ)
    (hg : ∀ t, opTarget op = some t → ∀ a, g t (seekPacked s) a = I.seek t (seekPacked s) a) :
    apply (patchSeek I g) c s fuel op st = apply I c s fuel op st := by
  cases op with
  | first => show first (patchSeek I g) c s fuel st = _; rw [first_patch]; rfl
  | last => show last (patchSeek I g) c s fuel st = _; rw [last_patch]; rfl
  | next =>
    show (if isValid st then next (patchSeek I g) c s fuel st else some st) = _
    rw [next_patch]; rfl
  | prev =>
    show (if isValid st then prev (patchSeek I g) c s fuel st else some st) = _
    rw [prev_patch]; rfl
  | seek t => show seek (patchSeek I g) c s fuel t st = _; rw [seek_patch I g c s fuel t (hg t rfl)]; rfl
  | seekGe t => show seek (patchSeek I g) c s fuel t st = _; rw [seek_patch I g c s fuel t (hg t rfl)]; rfl
  | seekGt t =>
    show IterOps.seekGT (ops (patchSeek I g) c s fuel) t st = IterOps.seekGT (ops I c s fuel) t st
    simp only [IterOps.seekGT, ops, seek_patch I g c s fuel t (hg t rfl), next_patch]
    rfl
  | seekLe t =>
    show IterOps.seekLE (ops (patchSeek I g) c s fuel) t st = IterOps.seekLE (ops I c s fuel) t st
    simp only [IterOps.seekLE, ops, seek_patch I g c s fuel t (hg t rfl), prev_patch, last_patch]
    rfl
  | seekLt t =>
    show IterOps.seekLT (ops (patchSeek I g) c s fuel) t st = IterOps.seekLT (ops I c s fuel) t st
    simp only [IterOps.seekLT, ops, seek_patch I g c s fuel t (hg t rfl), prev_patch, last_patch]
    rfl

theorem run_patch (fuel : Nat) (ops : List IterOp) (st : DbIter σ)
    (hg : ∀ op ∈ ops, ∀ t, opTarget op = some t → ∀ a, g t (seekPacked s) a = I.seek t (seekPacked s) a) :
    run (patchSeek I g) c s fuel ops st = run I c s fuel ops st := by
  induction ops generalizing st with
  | nil => rfl
  | cons op rest ih =>
    simp only [run, apply_patch I g c s fuel op st (hg op (by simp))]
    cases apply I c s fuel op st with
    | none => rfl
    | some st' => exact ih st' (fun o ho => hg o (by simp [ho]))

end DbIter

theorem runSeekIdx_lt {c : Cmp} {r : Run} {k : Bytes} {pk i : Nat} (h : runSeekIdx c r k pk = some i) : i < r.length := by
  unfold runSeekIdx at h
  exact (List.findIdx?_eq_some_iff_getElem.mp h).1

end Lcdb
