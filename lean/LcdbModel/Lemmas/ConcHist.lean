/-
  How one step changes the commit history: only `wCommit` without a sync failure does, by appending the batches of the
  whole group being written.
-/
import LcdbModel.Lemmas.Conc

namespace Lcdb.Conc

/-- the batches of the writers `l`, in that order -/
def batchesOf (st : St) (l : List Tid) : List Nat := l.filterMap fun m => (getW st m).map (·.batch)

theorem headOutcome_history {st st' : St} {w : Writer} {c : RoomChoice} (hN : (st.writers.map (·.tid)).Nodup)
    (h : HeadOutcome st w c st') :
    st'.committed = st.committed ∧ st'.lastSeq = st.lastSeq ∧ st'.groups = st.groups := by
  cases h with
  | fail _ => rw [failAct_eq hN]; exact ⟨rfl, rfl, rfl⟩
  | switchFail _ _ =>
    rw [failAct_eq (by rw [switchFailSt_writers]; exact nodup_tids_map bwake_tid hN)]
    exact ⟨by simp [failG], by simp [failG], by simp [failG]⟩
  | delay _ _ => rw [setW_eq]; exact ⟨rfl, rfl, rfl⟩
  | wait _ _ _ => rw [setW_eq]; exact ⟨rfl, rfl, rfl⟩
  | begin sw g _ _ _ _ _ => rw [beginSt_eq]; exact ⟨by simp, by simp, by simp⟩

theorem step_history {st st' : St} {l : Label} (HQ : InvQ st) (h : step st l = some st') :
    (st'.committed = st.committed ∧ st'.lastSeq = st.lastSeq ∧ st'.groups = st.groups ∧
      ∀ t, l ≠ .wCommit t false) ∨
    (∃ t, l = .wCommit t false ∧ st'.committed = st.committed ++ batchesOf st st.inflight ∧
      st'.lastSeq = st.lastSeq + st.inflight.length ∧ st'.groups = st.groups ++ [batchesOf st st.inflight]) := by
  have hN := HQ.wnodup
  cases l with
  | wEnter t c =>
    left
    obtain ⟨w, hg, hpc, _, h⟩ := step_wEnter h
    rcases h with ⟨hh, ho⟩ | ⟨hh, _, rfl⟩
    · obtain ⟨a, b, c⟩ := headOutcome_history (st := enq st t) hN ho
      exact ⟨a, b, c, by simp⟩
    · rw [setW_eq]; exact ⟨rfl, rfl, rfl, by simp⟩
  | wWake t c =>
    left
    obtain ⟨w, hg, hpc, h⟩ := step_wWake h
    rcases h with ⟨hd, _, rfl⟩ | ⟨hd, hh, ho⟩ | ⟨hd, hh, _, rfl⟩
    · rw [setW_eq]; exact ⟨rfl, rfl, rfl, by simp⟩
    · obtain ⟨a, b, c⟩ := headOutcome_history hN ho
      exact ⟨a, b, c, by simp⟩
    · rw [setW_eq]; exact ⟨rfl, rfl, rfl, by simp⟩
  | wCommit t sf =>
    obtain ⟨w, hg, hpc, _, rfl⟩ := step_wCommit h
    rw [commitAct_eq hN]
    cases sf with
    | true => left; exact ⟨by simp [commitG], by simp [commitG], by simp [commitG], by simp⟩
    | false => right; exact ⟨t, rfl, by simp [commitG, batchesOf], by simp [commitG], by simp [commitG, batchesOf]⟩
  | rCapture t =>
    obtain ⟨r, _, _, _, rfl⟩ := step_rCapture h
    left; exact ⟨rfl, rfl, rfl, by simp⟩
  | rRead t =>
    obtain ⟨r, s, _, _, rfl⟩ := step_rRead h
    left; exact ⟨rfl, rfl, rfl, by simp⟩
  | rRelease t seek =>
    obtain ⟨r, s, _, _, rfl⟩ := step_rRelease h
    left; cases seek
    · exact ⟨rfl, rfl, rfl, by simp⟩
    · exact ⟨by simp [setR], by simp [setR], by simp [setR], by simp⟩
  | bgStart =>
    obtain ⟨_, rfl⟩ := step_bgStart h
    left; exact ⟨rfl, rfl, rfl, by simp⟩
  | bgMid fd bc er =>
    obtain ⟨_, _, _, _, rfl⟩ := step_bgMid h
    left
    by_cases hb : (bc || er) = true
    · simp only [hb, if_true]; rw [broadcastBg_eq]; exact ⟨rfl, rfl, rfl, by simp⟩
    · simp only [hb]; exact ⟨rfl, rfl, rfl, by simp⟩
  | bgFinish sn =>
    obtain ⟨_, rfl⟩ := step_bgFinish h
    left; rw [broadcastBg_eq]; exact ⟨by simp, by simp, by simp, by simp⟩
  | close =>
    obtain ⟨_, _, _, rfl⟩ := step_close h
    left; exact ⟨rfl, rfl, rfl, by simp⟩
  | closeWake =>
    obtain ⟨_, rfl⟩ := step_closeWake h
    left; exact ⟨rfl, rfl, rfl, by simp⟩

end Lcdb.Conc
