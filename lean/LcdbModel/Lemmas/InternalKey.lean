/-
  Helper lemmas for LcdbModel.Model.InternalKey (core Lean only).  Final statements are
  re-exported without the primes in LcdbModel.Props.KeyProps.
-/
import LcdbModel.Model.InternalKey
import LcdbModel.Props.CodingProps
namespace Lcdb

/-! ### bytesCmp -/

theorem bytesCmp_cons_cons (a b : UInt8) (as bs : Bytes) :
    bytesCmp (a :: as) (b :: bs)
      = if a.toNat < b.toNat then .lt else if b.toNat < a.toNat then .gt else bytesCmp as bs := by
  simp [bytesCmp, UInt8.lt_iff_toNat_lt]

theorem bytesCmp_refl' (a : Bytes) : bytesCmp a a = .eq := by
  induction a with
  | nil => rfl
  | cons x xs ih => simp [bytesCmp_cons_cons, ih]

theorem bytesCmp_eq_iff' (a b : Bytes) : bytesCmp a b = .eq ↔ a = b := by
  induction a generalizing b with
  | nil => cases b <;> simp [bytesCmp]
  | cons x xs ih =>
    cases b with
    | nil => simp [bytesCmp]
    | cons y ys =>
      rw [bytesCmp_cons_cons, List.cons.injEq, ← UInt8.toNat_inj, ← ih]
      split
      · simp; omega
      · split
        · simp; omega
        · have : x.toNat = y.toNat := by omega
          simp [this]

theorem bytesCmp_swap' (a b : Bytes) : bytesCmp b a = (bytesCmp a b).swap := by
  induction a generalizing b with
  | nil => cases b <;> simp [bytesCmp]
  | cons x xs ih =>
    cases b with
    | nil => simp [bytesCmp]
    | cons y ys =>
      rw [bytesCmp_cons_cons, bytesCmp_cons_cons, ih]
      split
      · split
        · omega
        · rfl
      · split
        · rfl
        · rfl

theorem bytesCmp_lt_trans' (a b c : Bytes) :
    bytesCmp a b = .lt → bytesCmp b c = .lt → bytesCmp a c = .lt := by
  induction a generalizing b c with
  | nil =>
    cases b with
    | nil => simp [bytesCmp]
    | cons y ys => cases c <;> simp [bytesCmp]
  | cons x xs ih =>
    cases b with
    | nil => simp [bytesCmp]
    | cons y ys =>
      cases c with
      | nil => simp [bytesCmp]
      | cons z zs =>
        rw [bytesCmp_cons_cons, bytesCmp_cons_cons, bytesCmp_cons_cons]
        intro h1 h2
        split at h1
        · split at h2
          · rw [if_pos (by omega)]
          · split at h2
            · cases h2
            · rw [if_pos (by omega)]
        · split at h1
          · cases h1
          · split at h2
            · rw [if_pos (by omega)]
            · split at h2
              · cases h2
              · rw [if_neg (by omega), if_neg (by omega)]
                exact ih _ _ h1 h2


/-! ### lawful comparators -/

/-- a comparator on byte strings that is a lawful total order -/
structure CmpLawful (f : Bytes → Bytes → Ordering) : Prop where
  refl : ∀ a, f a a = .eq
  eq_iff : ∀ a b, f a b = .eq ↔ a = b
  swap : ∀ a b, f b a = (f a b).swap
  lt_trans : ∀ a b c, f a b = .lt → f b c = .lt → f a c = .lt
  le_lt_trans : ∀ a b c, f a b ≠ .gt → f b c = .lt → f a c = .lt
  lt_le_trans : ∀ a b c, f a b = .lt → f b c ≠ .gt → f a c = .lt
  le_trans : ∀ a b c, f a b ≠ .gt → f b c ≠ .gt → f a c ≠ .gt

theorem ne_gt_iff (o : Ordering) : o ≠ .gt ↔ o = .lt ∨ o = .eq := by
  cases o <;> simp

/-- the le-variants follow from the four basic laws -/
theorem CmpLawful.of_basic {f : Bytes → Bytes → Ordering}
    (refl : ∀ a, f a a = .eq)
    (eq_iff : ∀ a b, f a b = .eq ↔ a = b)
    (swap : ∀ a b, f b a = (f a b).swap)
    (lt_trans : ∀ a b c, f a b = .lt → f b c = .lt → f a c = .lt) : CmpLawful f where
  refl := refl
  eq_iff := eq_iff
  swap := swap
  lt_trans := lt_trans
  le_lt_trans := by
    intro a b c h1 h2
    rcases (ne_gt_iff _).mp h1 with h | h
    · exact lt_trans a b c h h2
    · rw [(eq_iff a b).mp h]; exact h2
  lt_le_trans := by
    intro a b c h1 h2
    rcases (ne_gt_iff _).mp h2 with h | h
    · exact lt_trans a b c h1 h
    · rw [← (eq_iff b c).mp h]; exact h1
  le_trans := by
    intro a b c h1 h2
    rcases (ne_gt_iff _).mp h1 with h | h
    · rcases (ne_gt_iff _).mp h2 with h' | h'
      · rw [lt_trans a b c h h']; simp
      · rw [← (eq_iff b c).mp h', h]; simp
    · rw [(eq_iff a b).mp h]; exact h2

theorem bytesCmp_lawful : CmpLawful bytesCmp :=
  .of_basic bytesCmp_refl' bytesCmp_eq_iff' bytesCmp_swap' bytesCmp_lt_trans'

theorem reverse_lawful : CmpLawful (Cmp.compare .reverse) := by
  apply CmpLawful.of_basic
  · intro a; exact bytesCmp_refl' a
  · intro a b; show bytesCmp b a = .eq ↔ a = b
    rw [bytesCmp_eq_iff']; exact eq_comm
  · intro a b; exact bytesCmp_swap' b a
  · intro a b c h1 h2; exact bytesCmp_lt_trans' c b a h2 h1

theorem lenFirst_lawful : CmpLawful (Cmp.compare .lenFirst) := by
  apply CmpLawful.of_basic
  · intro a; simp [Cmp.compare, bytesCmp_refl']
  · intro a b
    simp only [Cmp.compare]
    split
    · simp; intro h; subst h; omega
    · split
      · simp; intro h; subst h; omega
      · exact bytesCmp_eq_iff' a b
  · intro a b
    simp only [Cmp.compare]
    split
    · split
      · omega
      · rfl
    · split
      · rfl
      · exact bytesCmp_swap' a b
  · intro a b c
    simp only [Cmp.compare]
    intro h1 h2
    split at h1
    · split at h2
      · rw [if_pos (by omega)]
      · split at h2
        · cases h2
        · rw [if_pos (by omega)]
    · split at h1
      · cases h1
      · split at h2
        · rw [if_pos (by omega)]
        · split at h2
          · cases h2
          · rw [if_neg (by omega), if_neg (by omega)]
            exact bytesCmp_lt_trans' _ _ _ h1 h2

theorem cmp_lawful' (c : Cmp) : CmpLawful c.compare := by
  cases c
  · exact bytesCmp_lawful
  · exact reverse_lawful
  · exact lenFirst_lawful

/-! ### separator / successor -/

theorem shortestSeparator_self' (a : Bytes) : shortestSeparator a a = a := by
  induction a with
  | nil => rfl
  | cons x xs ih => simp [shortestSeparator, ih]

theorem separator_contract' (a b : Bytes) (h : bytesCmp a b = .lt) :
    bytesCmp a (shortestSeparator a b) ≠ .gt ∧ bytesCmp (shortestSeparator a b) b = .lt := by
  induction a generalizing b with
  | nil => simp [shortestSeparator, bytesCmp_refl', h]
  | cons x xs ih =>
    cases b with
    | nil => simp [bytesCmp] at h
    | cons y ys =>
      simp only [shortestSeparator]
      by_cases hxy : x = y
      · subst hxy
        rw [bytesCmp_cons_cons] at h
        simp only [Nat.lt_irrefl, if_false] at h
        simp only [beq_self_eq_true, if_true, bytesCmp_cons_cons, Nat.lt_irrefl, if_false]
        exact ih ys h
      · have hne : (x == y) = false := by simpa using hxy
        simp only [hne, Bool.false_eq_true, if_false]
        split
        · rename_i hc
          simp only [Bool.and_eq_true, decide_eq_true_eq] at hc
          have h1 : (x + 1).toNat = x.toNat + 1 := by
            rw [UInt8.toNat_add]; simp; omega
          simp only [bytesCmp_cons_cons, h1]
          constructor
          · rw [if_pos (by omega)]; simp
          · rw [if_pos (by omega)]
        · exact ⟨by simp [bytesCmp_refl'], h⟩

theorem successor_contract' (a : Bytes) : bytesCmp a (shortSuccessor a) ≠ .gt := by
  induction a with
  | nil => simp [shortSuccessor, bytesCmp]
  | cons x xs ih =>
    simp only [shortSuccessor]
    split
    · rename_i hc
      have hx : x.toNat ≠ 255 := by
        intro h; apply (bne_iff_ne.mp hc); exact UInt8.toNat_inj.mp h
      have hlt := x.toNat_lt
      have h1 : (x + 1).toNat = x.toNat + 1 := by
        rw [UInt8.toNat_add]; simp; omega
      rw [bytesCmp_cons_cons, h1, if_pos (by omega)]; simp
    · rw [bytesCmp_cons_cons]; simpa using ih

/-! ### internal keys -/

theorem ikeyUser_append8 (u t : Bytes) (ht : t.length = 8) : ikeyUser (u ++ t) = u := by
  simp [ikeyUser, ht]

theorem ikeyNum_append8 (u t : Bytes) (ht : t.length = 8) : ikeyNum (u ++ t) = fixedDec t := by
  simp [ikeyNum, ht]

theorem ikey_split (x : Bytes) (hx : 8 ≤ x.length) :
    x = ikeyUser x ++ x.drop (x.length - 8) ∧ (x.drop (x.length - 8)).length = 8 := by
  refine ⟨(List.take_append_drop _ _).symm, ?_⟩
  rw [List.length_drop]; omega

theorem fixedDec_inj' (a b : Bytes) (hl : a.length = b.length) (h : fixedDec a = fixedDec b) :
    a = b := by
  induction a generalizing b with
  | nil => cases b with
    | nil => rfl
    | cons y ys => simp at hl
  | cons x xs ih =>
    cases b with
    | nil => simp at hl
    | cons y ys =>
      simp only [fixedDec] at h
      simp only [List.length_cons, Nat.add_right_cancel_iff] at hl
      have hx := x.toNat_lt
      have hy := y.toNat_lt
      have h1 : x.toNat = y.toNat := by omega
      have h2 : fixedDec xs = fixedDec ys := by omega
      rw [UInt8.toNat_inj.mp h1, ih ys hl h2]

section
variable (c : Cmp) (x y z : Bytes)

theorem ikeyCmp_lt_iff' :
    ikeyCmp c x y = .lt ↔
      c.compare (ikeyUser x) (ikeyUser y) = .lt ∨
        (ikeyUser x = ikeyUser y ∧ ikeyNum y < ikeyNum x) := by
  have L := cmp_lawful' c
  unfold ikeyCmp
  cases h : c.compare (ikeyUser x) (ikeyUser y)
  · simp
  · have := (L.eq_iff _ _).mp h
    simp only [this, true_and, reduceCtorEq, false_or]
    split
    · simp [*]
    · split <;> simp [*]
  · have hne : ikeyUser x ≠ ikeyUser y := fun e => by rw [e, L.refl] at h; cases h
    simp [hne]

theorem ikeyCmp_gt_iff' :
    ikeyCmp c x y = .gt ↔
      c.compare (ikeyUser x) (ikeyUser y) = .gt ∨
        (ikeyUser x = ikeyUser y ∧ ikeyNum x < ikeyNum y) := by
  have L := cmp_lawful' c
  unfold ikeyCmp
  cases h : c.compare (ikeyUser x) (ikeyUser y)
  · have hne : ikeyUser x ≠ ikeyUser y := fun e => by rw [e, L.refl] at h; cases h
    simp [hne]
  · have := (L.eq_iff _ _).mp h
    simp only [this, true_and, reduceCtorEq, false_or]
    split
    · simp; omega
    · split <;> simp [*]
  · simp

theorem ikeyCmp_eq_iff' :
    ikeyCmp c x y = .eq ↔ ikeyUser x = ikeyUser y ∧ ikeyNum x = ikeyNum y := by
  have L := cmp_lawful' c
  unfold ikeyCmp
  cases h : c.compare (ikeyUser x) (ikeyUser y)
  · have hne : ikeyUser x ≠ ikeyUser y := fun e => by rw [e, L.refl] at h; cases h
    simp [hne]
  · have := (L.eq_iff _ _).mp h
    simp only [this, true_and]
    split
    · simp; omega
    · split
      · simp; omega
      · simp; omega
  · have hne : ikeyUser x ≠ ikeyUser y := fun e => by rw [e, L.refl] at h; cases h
    simp [hne]

theorem ikeyCmp_ne_gt_iff' :
    ikeyCmp c x y ≠ .gt ↔
      c.compare (ikeyUser x) (ikeyUser y) = .lt ∨
        (ikeyUser x = ikeyUser y ∧ ikeyNum y ≤ ikeyNum x) := by
  rw [ne_gt_iff, ikeyCmp_lt_iff', ikeyCmp_eq_iff']
  constructor
  · rintro ((h | ⟨h1, h2⟩) | ⟨h1, h2⟩)
    · exact .inl h
    · exact .inr ⟨h1, by omega⟩
    · exact .inr ⟨h1, by omega⟩
  · rintro (h | ⟨h1, h2⟩)
    · exact .inl (.inl h)
    · by_cases h3 : ikeyNum x = ikeyNum y
      · exact .inr ⟨h1, h3⟩
      · exact .inl (.inr ⟨h1, by omega⟩)

theorem ikeyCmp_refl' : ikeyCmp c x x = .eq := by
  rw [ikeyCmp_eq_iff']; exact ⟨rfl, rfl⟩

theorem ikeyCmp_swap' : ikeyCmp c y x = (ikeyCmp c x y).swap := by
  have L := cmp_lawful' c
  cases h : ikeyCmp c x y
  · rw [ikeyCmp_lt_iff'] at h
    show _ = Ordering.gt
    rw [ikeyCmp_gt_iff']
    rcases h with h | ⟨h1, h2⟩
    · left; rw [L.swap, h]; rfl
    · right; exact ⟨h1.symm, h2⟩
  · rw [ikeyCmp_eq_iff'] at h
    show _ = Ordering.eq
    rw [ikeyCmp_eq_iff']
    exact ⟨h.1.symm, h.2.symm⟩
  · rw [ikeyCmp_gt_iff'] at h
    show _ = Ordering.lt
    rw [ikeyCmp_lt_iff']
    rcases h with h | ⟨h1, h2⟩
    · left; rw [L.swap, h]; rfl
    · right; exact ⟨h1.symm, h2⟩

theorem ikeyCmp_lt_trans' (h1 : ikeyCmp c x y = .lt) (h2 : ikeyCmp c y z = .lt) :
    ikeyCmp c x z = .lt := by
  have L := cmp_lawful' c
  rw [ikeyCmp_lt_iff'] at *
  rcases h1 with h1 | ⟨e1, n1⟩ <;> rcases h2 with h2 | ⟨e2, n2⟩
  · exact .inl (L.lt_trans _ _ _ h1 h2)
  · rw [← e2]; exact .inl h1
  · rw [e1]; exact .inl h2
  · exact .inr ⟨e1.trans e2, by omega⟩

theorem ikeyCmp_le_lt_trans' (h1 : ikeyCmp c x y ≠ .gt) (h2 : ikeyCmp c y z = .lt) :
    ikeyCmp c x z = .lt := by
  have L := cmp_lawful' c
  rw [ikeyCmp_ne_gt_iff'] at h1
  rw [ikeyCmp_lt_iff'] at *
  rcases h1 with h1 | ⟨e1, n1⟩ <;> rcases h2 with h2 | ⟨e2, n2⟩
  · exact .inl (L.lt_trans _ _ _ h1 h2)
  · rw [← e2]; exact .inl h1
  · rw [e1]; exact .inl h2
  · exact .inr ⟨e1.trans e2, by omega⟩

theorem ikeyCmp_lt_le_trans' (h1 : ikeyCmp c x y = .lt) (h2 : ikeyCmp c y z ≠ .gt) :
    ikeyCmp c x z = .lt := by
  have L := cmp_lawful' c
  rw [ikeyCmp_ne_gt_iff'] at h2
  rw [ikeyCmp_lt_iff'] at *
  rcases h1 with h1 | ⟨e1, n1⟩ <;> rcases h2 with h2 | ⟨e2, n2⟩
  · exact .inl (L.lt_trans _ _ _ h1 h2)
  · rw [← e2]; exact .inl h1
  · rw [e1]; exact .inl h2
  · exact .inr ⟨e1.trans e2, by omega⟩

theorem ikeyCmp_le_trans' (h1 : ikeyCmp c x y ≠ .gt) (h2 : ikeyCmp c y z ≠ .gt) :
    ikeyCmp c x z ≠ .gt := by
  have L := cmp_lawful' c
  rw [ikeyCmp_ne_gt_iff'] at *
  rcases h1 with h1 | ⟨e1, n1⟩ <;> rcases h2 with h2 | ⟨e2, n2⟩
  · exact .inl (L.lt_trans _ _ _ h1 h2)
  · rw [← e2]; exact .inl h1
  · rw [e1]; exact .inl h2
  · exact .inr ⟨e1.trans e2, by omega⟩

theorem ikeyCmp_eq_iff_eq' (hx : 8 ≤ x.length) (hy : 8 ≤ y.length) :
    ikeyCmp c x y = .eq ↔ x = y := by
  constructor
  · intro h
    rw [ikeyCmp_eq_iff'] at h
    obtain ⟨sx, lx⟩ := ikey_split x hx
    obtain ⟨sy, ly⟩ := ikey_split y hy
    rw [sx, sy, h.1]
    congr 1
    exact fixedDec_inj' _ _ (lx.trans ly.symm) h.2
  · intro h; subst h; exact ikeyCmp_refl' c x

end

/-! ### encode / decode -/

theorem ikeyUser_ikeyEnc' (u : Bytes) (seq ty : Nat) : ikeyUser (ikeyEnc u seq ty) = u :=
  ikeyUser_append8 u _ (fixedEnc_length 8 _)

theorem ikeyNum_ikeyEnc' (u : Bytes) (seq ty : Nat) (h : packSeqType seq ty < 2 ^ 64) :
    ikeyNum (ikeyEnc u seq ty) = packSeqType seq ty := by
  unfold ikeyEnc
  rw [ikeyNum_append8 u _ (fixedEnc_length 8 _), fixedDec_fixedEnc]
  exact Nat.mod_eq_of_lt (by simpa using h)

theorem pkeyImport_ikeyEnc' (u : Bytes) (seq ty : Nat) (hs : seq < 2 ^ 56) (ht : ty ≤ 1) :
    pkeyImport (ikeyEnc u seq ty) = some (u, seq, ty) := by
  have hp : packSeqType seq ty < 2 ^ 64 := by unfold packSeqType; omega
  have hl : ¬ (ikeyEnc u seq ty).length < 8 := by
    simp [ikeyEnc, fixedEnc_length]
  unfold pkeyImport
  simp only [hl, if_false, ikeyUser_ikeyEnc', ikeyNum_ikeyEnc' u seq ty hp, pkeyImport.typeValue']
  unfold packSeqType
  have h1 : (seq * 256 + ty) % 256 = ty := by omega
  have h2 : (seq * 256 + ty) / 256 = seq := by omega
  rw [h1, h2, if_neg (by omega)]

/-! ### internal-key separator / successor -/

theorem ikey_separator_contract' (c : Cmp) (x y : Bytes) (hx : 8 ≤ x.length)
    (h : ikeyCmp c x y = .lt) :
    ikeyCmp c x (ikeySeparator c x y) ≠ .gt ∧ ikeyCmp c (ikeySeparator c x y) y = .lt ∧
      8 ≤ (ikeySeparator c x y).length := by
  have triv : ikeyCmp c x x ≠ .gt ∧ ikeyCmp c x y = .lt ∧ 8 ≤ x.length :=
    ⟨by simp [ikeyCmp_refl'], h, hx⟩
  unfold ikeySeparator
  cases c with
  | reverse => exact triv
  | lenFirst => exact triv
  | bytewise =>
    simp only [Cmp.hasShortening, Bool.not_true, Bool.false_eq_true, if_false]
    split
    · rename_i hc
      simp only [Bool.and_eq_true, decide_eq_true_eq, beq_iff_eq] at hc
      obtain ⟨hlen, hlt⟩ := hc
      have hl8 := fixedEnc_length 8 (packSeqType maxSequence valtypeSeek)
      have hult : bytesCmp (ikeyUser x) (ikeyUser y) = .lt := by
        rcases (ikeyCmp_lt_iff' _ _ _).mp h with h' | ⟨e, _⟩
        · exact h'
        · rw [← e, shortestSeparator_self'] at hlen; omega
      refine ⟨?_, ?_, ?_⟩
      · rw [ikeyCmp_ne_gt_iff', ikeyUser_append8 _ _ hl8]; exact .inl hlt
      · rw [ikeyCmp_lt_iff', ikeyUser_append8 _ _ hl8]
        exact .inl (separator_contract' _ _ hult).2
      · rw [List.length_append, hl8]; omega
    · exact triv

theorem ikey_successor_contract' (c : Cmp) (x : Bytes) (hx : 8 ≤ x.length) :
    ikeyCmp c x (ikeySuccessor c x) ≠ .gt ∧ 8 ≤ (ikeySuccessor c x).length := by
  have triv : ikeyCmp c x x ≠ .gt ∧ 8 ≤ x.length := ⟨by simp [ikeyCmp_refl'], hx⟩
  unfold ikeySuccessor
  cases c with
  | reverse => exact triv
  | lenFirst => exact triv
  | bytewise =>
    simp only [Cmp.hasShortening, Bool.not_true, Bool.false_eq_true, if_false]
    split
    · rename_i hc
      simp only [Bool.and_eq_true, decide_eq_true_eq, beq_iff_eq] at hc
      have hl8 := fixedEnc_length 8 (packSeqType maxSequence valtypeSeek)
      refine ⟨?_, ?_⟩
      · rw [ikeyCmp_ne_gt_iff', ikeyUser_append8 _ _ hl8]; exact .inl hc.2
      · rw [List.length_append, hl8]; omega
    · exact triv

end Lcdb
