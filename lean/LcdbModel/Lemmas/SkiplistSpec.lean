/-
  Helper lemmas for Model/Skiplist.lean, part 8: the search results in closed form
  (`takeWhile` / `find?` over the chains), PRNG range.
-/
import LcdbModel.Lemmas.SkiplistIter
namespace Lcdb.Skiplist
variable {α : Type}

theorem takeWhile_append_all {p : Nat → Bool} {X Y : List Nat} (hX : ∀ a ∈ X, p a = true) (hY : ∀ b ∈ Y, p b = false) :
    (X ++ Y).takeWhile p = X := by
  induction X with
  | nil =>
    cases Y with
    | nil => rfl
    | cons b t => simp [List.takeWhile_cons, hY b (by simp)]
  | cons a t ih =>
    simp only [List.cons_append, List.takeWhile_cons, hX a (by simp), if_true]
    rw [ih (fun x hx => hX x (by simp [hx]))]

/-- `prev[i]` in closed form: the last node of level `i` that lies in `A`, the head if there is none -/
theorem PrevOk.closed {cmp : α → α → Ordering} {sl : SkipList α} {L A : List Nat} (h : Inv cmp sl L) {i p : Nat}
    (hi : i < kMaxHeight) (hp : PrevOk sl A i p) :
    ((A.filter (fun y => decide (i < heightOf sl y))).getLast?).getD 0 = p := by
  obtain ⟨A1, A2, hs, hlt, hA2⟩ := hp
  have h0 : decide (i < heightOf sl 0) = true := by rw [h.headHeight]; simpa using hi
  have e1 : (0 :: A).filter (fun y => decide (i < heightOf sl y)) = 0 :: A.filter (fun y => decide (i < heightOf sl y)) := by
    rw [List.filter_cons, h0]; rfl
  have e2 : (0 :: A).filter (fun y => decide (i < heightOf sl y)) = A1.filter (fun y => decide (i < heightOf sl y)) ++ [p] := by
    rw [hs, List.filter_append, List.filter_cons]
    have : A2.filter (fun y => decide (i < heightOf sl y)) = [] := by
      rw [List.filter_eq_nil_iff]; intro a ha; have := hA2 a ha; simp; omega
    simp [hlt, this]
  have := congrArg List.getLast? (e1.symm.trans e2)
  rw [List.getLast?_cons] at this
  simpa using this

/-- the PRNG never leaves 1 .. M-1 (so it never reaches the fixed points 0 and M) -/
theorem randNext_range (s : Nat) (h : 1 ≤ s ∧ s < randM) : 1 ≤ randNext s ∧ randNext s < randM := by
  unfold randNext randM randA at *
  simp only
  have hp : s * 16807 < 2 ^ 64 := by omega
  rw [Nat.mod_eq_of_lt hp]
  generalize hq : s * 16807 / 2 ^ 31 = q
  generalize hr : s * 16807 % 2 ^ 31 = r
  have hdm : s * 16807 = 2 ^ 31 * q + r := by rw [← hq, ← hr]; exact (Nat.div_add_mod _ _).symm
  have hr2 : r < 2 ^ 31 := by rw [← hr]; exact Nat.mod_lt _ (by decide)
  have hq2 : q < 16807 := by omega
  have hs32 : (q + r) % 2 ^ 32 = q + r := Nat.mod_eq_of_lt (by omega)
  rw [hs32]
  split <;> omega

theorem randInit_range (seed : Nat) : 1 ≤ randInit seed ∧ randInit seed < randM := by
  unfold randInit randM
  simp only
  split <;> omega

theorem randHeightGo_range (fuel h s : Nat) (hs : 1 ≤ s ∧ s < randM) :
    h ≤ (randHeightGo fuel h s).2 ∧ (randHeightGo fuel h s).2 ≤ h + fuel ∧
      1 ≤ (randHeightGo fuel h s).1 ∧ (randHeightGo fuel h s).1 < randM := by
  induction fuel generalizing h s with
  | zero => simp [randHeightGo, hs]
  | succ fuel ih =>
    have hn := randNext_range s hs
    simp only [randHeightGo, randOneIn, randUniform]
    simp only [show (4 : Nat) ≠ 0 by decide, if_false]
    split
    · have := ih (h + 1) (randNext s) hn
      omega
    · simp; omega

end Lcdb.Skiplist
