/-
  Live indices of a sorted run, counted: `liveIdxs s r` (in increasing order), `rank s r k` (number
  of live indices below `k`), and the identification with the specification:
  `visibleMap c r s = (liveIdxs s r).map (fun j => (uk r j, vl r j))`.
-/
import LcdbModel.Lemmas.DbIterScan
import LcdbModel.Lemmas.VisibleMap
namespace Lcdb.DbIt
open Lcdb Lcdb.Lsm Lcdb.CmpBasic

/-! ### counting the indices below a bound that satisfy a predicate -/

def cnt (P : Nat → Bool) (k : Nat) : Nat := ((List.range k).filter P).length

theorem cnt_zero (P : Nat → Bool) : cnt P 0 = 0 := rfl

theorem cnt_succ (P : Nat → Bool) (k : Nat) : cnt P (k + 1) = cnt P k + (if P k then 1 else 0) := by
  unfold cnt
  rw [List.range_succ, List.filter_append, List.length_append]
  cases h : P k <;> simp [h]

theorem cnt_mono (P : Nat → Bool) {a b : Nat} (h : a ≤ b) : cnt P a ≤ cnt P b := by
  induction b with
  | zero => have : a = 0 := by omega
            subst this; exact Nat.le_refl _
  | succ b ih =>
    rcases Nat.lt_or_eq_of_le h with h1 | rfl
    · have := ih (by omega)
      rw [cnt_succ]; omega
    · exact Nat.le_refl _

theorem cnt_eq_of_none (P : Nat → Bool) {a b : Nat} (h : a ≤ b) (hn : ∀ j, a ≤ j → j < b → P j = false) :
    cnt P a = cnt P b := by
  induction b with
  | zero => have : a = 0 := by omega
            subst this; rfl
  | succ b ih =>
    rcases Nat.lt_or_eq_of_le h with h1 | rfl
    · have := ih (by omega) (fun j h1 h2 => hn j h1 (by omega))
      rw [cnt_succ, hn b (by omega) (by omega)]
      simpa using this
    · rfl

theorem cnt_lt_of_true (P : Nat → Bool) {a b : Nat} (h : a < b) (ha : P a = true) : cnt P a < cnt P b := by
  have h1 : cnt P (a + 1) = cnt P a + 1 := by rw [cnt_succ, ha]; rfl
  have h2 := cnt_mono P (show a + 1 ≤ b by omega)
  omega

theorem filter_range_getElem? (P : Nat → Bool) (n i q : Nat) :
    ((List.range n).filter P)[i]? = some q ↔ q < n ∧ P q = true ∧ cnt P q = i := by
  induction n with
  | zero => simp
  | succ n ih =>
    rw [List.range_succ, List.filter_append]
    have hlen : ((List.range n).filter P).length = cnt P n := rfl
    rcases Nat.lt_or_ge i ((List.range n).filter P).length with hi | hi
    · rw [List.getElem?_append_left hi, ih]
      constructor
      · rintro ⟨h1, h2, h3⟩; exact ⟨by omega, h2, h3⟩
      · rintro ⟨h1, h2, h3⟩
        refine ⟨?_, h2, h3⟩
        rcases Nat.lt_or_eq_of_le (Nat.le_of_lt_succ h1) with h | rfl
        · exact h
        · omega
    · rw [List.getElem?_append_right hi]
      cases hP : P n with
      | false =>
        simp only [List.filter_cons, hP, Bool.false_eq_true, if_false, List.filter_nil, List.getElem?_nil,
          reduceCtorEq, false_iff, not_and]
        intro h1 h2 h3
        rcases Nat.lt_or_eq_of_le (Nat.le_of_lt_succ h1) with h | rfl
        · have := cnt_lt_of_true P h h2; omega
        · rw [hP] at h2; cases h2
      | true =>
        simp only [List.filter_cons, hP, if_true, List.filter_nil]
        constructor
        · intro h
          have hidx : i - ((List.range n).filter P).length = 0 := by
            rcases Nat.eq_zero_or_pos (i - ((List.range n).filter P).length) with h0 | h0
            · exact h0
            · rw [List.getElem?_eq_none (by simp only [List.length_cons, List.length_nil]; omega)] at h; cases h
          rw [hidx] at h
          simp only [List.getElem?_cons_zero, Option.some.injEq] at h
          subst h
          exact ⟨by omega, hP, by omega⟩
        · rintro ⟨h1, h2, h3⟩
          rcases Nat.lt_or_eq_of_le (Nat.le_of_lt_succ h1) with h | rfl
          · have := cnt_lt_of_true P h h2; omega
          · have : i - ((List.range q).filter P).length = 0 := by omega
            rw [this]; rfl

/-! ### live indices -/

def liveB (s : Nat) (r : Run) (j : Nat) : Bool :=
  vis s r j && (knd r j == 1) && (List.range j).all (fun i => !(uk r i == uk r j && vis s r i))

theorem liveB_iff {s : Nat} {r : Run} {j : Nat} : liveB s r j = true ↔ Live s r j := by
  unfold liveB Live Head
  simp only [Bool.and_eq_true, beq_iff_eq, List.all_eq_true, List.mem_range, Bool.not_eq_eq_eq_not,
    Bool.not_true, Bool.and_eq_false_imp]
  constructor
  · rintro ⟨⟨h1, h2⟩, h3⟩; exact ⟨⟨h1, h3⟩, h2⟩
  · rintro ⟨⟨h1, h3⟩, h2⟩; exact ⟨⟨h1, h2⟩, h3⟩

theorem liveB_false {s : Nat} {r : Run} {j : Nat} (h : ¬ Live s r j) : liveB s r j = false := by
  cases hb : liveB s r j with
  | false => rfl
  | true => exact absurd (liveB_iff.mp hb) h

def liveIdxs (s : Nat) (r : Run) : List Nat := (List.range r.length).filter (liveB s r)

def rank (s : Nat) (r : Run) (k : Nat) : Nat := cnt (liveB s r) k

theorem liveIdxs_get {s : Nat} {r : Run} {i q : Nat} :
    (liveIdxs s r)[i]? = some q ↔ Live s r q ∧ rank s r q = i := by
  unfold liveIdxs rank
  rw [filter_range_getElem?, liveB_iff]
  constructor
  · rintro ⟨_, h2, h3⟩; exact ⟨h2, h3⟩
  · rintro ⟨h2, h3⟩; exact ⟨h2.lt, h2, h3⟩

theorem liveIdxs_length (s : Nat) (r : Run) : (liveIdxs s r).length = rank s r r.length := rfl

theorem rank_succ_live {s : Nat} {r : Run} {q : Nat} (h : Live s r q) : rank s r (q + 1) = rank s r q + 1 := by
  unfold rank; rw [cnt_succ, liveB_iff.mpr h]; rfl

theorem rank_eq_of_none {s : Nat} {r : Run} {a b : Nat} (h : a ≤ b) (hn : ∀ j, a ≤ j → j < b → ¬ Live s r j) :
    rank s r a = rank s r b :=
  cnt_eq_of_none _ h (fun j h1 h2 => liveB_false (hn j h1 h2))

theorem rank_mono (s : Nat) (r : Run) {a b : Nat} (h : a ≤ b) : rank s r a ≤ rank s r b := cnt_mono _ h

theorem rank_lt_of_live {s : Nat} {r : Run} {a b : Nat} (h : a < b) (ha : Live s r a) : rank s r a < rank s r b :=
  cnt_lt_of_true _ h (liveB_iff.mpr ha)

/-- live indices beyond the run do not exist -/
theorem rank_ge_length {s : Nat} {r : Run} {k : Nat} (h : r.length ≤ k) : rank s r k = rank s r r.length :=
  (rank_eq_of_none h (fun j h1 _ hl => by have := hl.lt; omega)).symm

theorem mem_liveIdxs {s : Nat} {r : Run} {j : Nat} : j ∈ liveIdxs s r ↔ Live s r j := by
  unfold liveIdxs
  rw [List.mem_filter, List.mem_range, liveB_iff]
  exact ⟨fun h => h.2, fun h => ⟨h.lt, h⟩⟩

/-- two live indices in order have strictly increasing user keys -/
theorem live_uk_lt {c : Cmp} {s : Nat} {r : Run} (hs : RunSorted c r) {a b : Nat} (hab : a < b)
    (ha : Live s r a) (hb : Live s r b) : c.compare (uk r a) (uk r b) = .lt := by
  have h1 := uk_le hs (Nat.le_of_lt hab) hb.lt
  cases hc : c.compare (uk r a) (uk r b) with
  | lt => rfl
  | gt => exact absurd hc h1
  | eq => exact absurd hb.1 (not_head_of_vis hab ((compare_eq_iff c _ _).mp hc) ha.1.1)

/-! ### the specification map is the list of live entries -/

def liveMap (s : Nat) (r : Run) : List (Bytes × String) := (liveIdxs s r).map (fun j => (uk r j, vl r j))

theorem liveMap_sorted {c : Cmp} {s : Nat} {r : Run} (hs : RunSorted c r) :
    (liveMap s r).Pairwise (fun a b => c.compare a.1 b.1 = .lt) := by
  unfold liveMap
  rw [List.pairwise_map]
  have hpw : (liveIdxs s r).Pairwise (· < ·) := List.Pairwise.filter _ List.pairwise_lt_range
  exact hpw.imp_of_mem (fun ha hb hab => live_uk_lt hs hab (mem_liveIdxs.mp ha) (mem_liveIdxs.mp hb))

theorem mem_liveMap {s : Nat} {r : Run} {k : Bytes} {v : String} :
    (k, v) ∈ liveMap s r ↔ ∃ j, Live s r j ∧ uk r j = k ∧ vl r j = v := by
  unfold liveMap
  rw [List.mem_map]
  constructor
  · rintro ⟨j, hj, he⟩
    simp only [Prod.mk.injEq] at he
    exact ⟨j, mem_liveIdxs.mp hj, he.1, he.2⟩
  · rintro ⟨j, hj, h1, h2⟩
    exact ⟨j, mem_liveIdxs.mpr hj, by rw [h1, h2]⟩

/-- in a sorted run, `find?` of the first visible entry of `k` finds the head of `k` -/
theorem find_head {c : Cmp} {s : Nat} {r : Run} {k : Bytes} {e : Entry} :
    r.find? (fun e => c.compare e.ukey k == .eq && decide (e.seq ≤ s)) = some e ↔
      ∃ j, r[j]? = some e ∧ Head s r j ∧ e.ukey = k := by
  rw [List.find?_eq_some_iff_getElem]
  constructor
  · rintro ⟨hp, i, hi, he, hbefore⟩
    simp only [Bool.and_eq_true, beq_iff_eq, decide_eq_true_eq] at hp
    have hk : e.ukey = k := (compare_eq_iff c _ _).mp hp.1
    have hei : r[i]? = some e := by rw [List.getElem?_eq_getElem hi, he]
    refine ⟨i, hei, ⟨by rw [vis_of hei]; simpa using hp.2, fun i' hi' hu => ?_⟩, hk⟩
    have hi'l : i' < r.length := Nat.lt_trans hi' hi
    have h := hbefore i' hi'
    have hei' : r[i']? = some r[i'] := List.getElem?_eq_getElem hi'l
    rw [uk_of hei', uk_of hei, hk] at hu
    rw [vis_of hei']
    simp only [hu, compare_refl, beq_self_eq_true, Bool.true_and, Bool.not_eq_eq_eq_not, Bool.not_true] at h
    exact h
  · rintro ⟨j, hej, hh, hk⟩
    obtain ⟨hj, he⟩ := List.getElem?_eq_some_iff.mp hej
    have hv := hh.1
    rw [vis_of hej] at hv
    refine ⟨by simp only [hk, compare_refl, beq_self_eq_true, Bool.true_and]; exact hv, j, hj, he, fun i hi => ?_⟩
    have hil : i < r.length := Nat.lt_trans hi hj
    have hei : r[i]? = some r[i] := List.getElem?_eq_getElem hil
    simp only [Bool.not_eq_eq_eq_not, Bool.not_true, Bool.and_eq_false_imp, beq_iff_eq]
    intro hc
    have hu : uk r i = uk r j := by rw [uk_of hei, uk_of hej, hk]; exact (compare_eq_iff c _ _).mp hc
    have := hh.2 i hi hu
    rw [vis_of hei] at this
    exact this

theorem visibleMap_eq_live {c : Cmp} {s : Nat} {r : Run} (hs : RunSorted c r) (hk : ∀ e ∈ r, e.kind ≤ 1) :
    visibleMap c r s = liveMap s r := by
  apply VisMap.sorted_ext c (VisMap.visibleMap_sorted c r s) (liveMap_sorted hs)
  rintro ⟨k, v⟩
  rw [VisMap.mem_visibleMap, mem_liveMap]
  have hk' : ∀ e ∈ r, e.kind < 256 := fun e he => by have := hk e he; omega
  simp only [VisMap.newestVisible_sorted c r hs hk' k s]
  constructor
  · rintro ⟨e, hf, h1, h2⟩
    obtain ⟨j, hej, hh, hku⟩ := find_head.mp hf
    exact ⟨j, ⟨hh, by rw [knd_of hej]; exact h1⟩, by rw [uk_of hej]; exact hku, by rw [vl_of hej]; exact h2⟩
  · rintro ⟨j, hl, h1, h2⟩
    obtain ⟨e, hej, _⟩ := get_of_lt hl.lt
    refine ⟨e, find_head.mpr ⟨j, hej, hl.1, by rw [← uk_of hej]; exact h1⟩, ?_, by rw [← vl_of hej]; exact h2⟩
    rw [← knd_of hej]; exact hl.2

end Lcdb.DbIt
