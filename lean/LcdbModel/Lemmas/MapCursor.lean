/-
  The reference cursor (`cursorOps`) over the keys of a strictly sorted association list, driven
  through the generic seek helpers of iterator.c, is the specification cursor `mapCursorStep`.
-/
import LcdbModel.Lemmas.Cursor
import LcdbModel.Lemmas.OrdInstances
import LcdbModel.Model.DbIterImpl
namespace Lcdb.MapCursor
open Lcdb

def posToState : Option Nat → DbIterState
  | none => .invalid
  | some i => .at i

/-! ### pure list lemmas -/

/-- `findIdx?` on a mapped list is the length of the `takeWhile` of the negated predicate -/
theorem findIdx?_map_takeWhile {α β : Type} (f : α → β) (q : β → Bool) (r : α → Bool)
    (hr : ∀ a, r a = !q (f a)) (l : List α) :
    (l.map f).findIdx? q =
      if (l.takeWhile r).length < l.length then some (l.takeWhile r).length else none := by
  induction l with
  | nil => simp
  | cons a l ih =>
    rw [List.map_cons, List.findIdx?_cons, List.takeWhile_cons, hr a]
    cases hq : q (f a) with
    | true => simp
    | false =>
      rw [ih]
      by_cases hn : (l.takeWhile r).length < l.length <;> simp [hn]

theorem lastIdx_none_of_all {q : Bytes → Bool} {keys : List Bytes}
    (h : ∀ k ∈ keys, q k = false) : lastIdx q keys = none := by
  rw [lastIdx_eq_none_iff]; intro j hj; exact h _ (getD_mem hj)

/-- for a predicate that stays false once false, `lastIdx` is the end of the `takeWhile` prefix -/
theorem lastIdx_takeWhile (q : Bytes → Bool) (keys : List Bytes)
    (hm : keys.Pairwise (fun a b => q a = false → q b = false)) :
    lastIdx q keys =
      if (keys.takeWhile q).length = 0 then none else some ((keys.takeWhile q).length - 1) := by
  induction keys with
  | nil => simp [lastIdx]
  | cons a as ih =>
    rw [List.pairwise_cons] at hm
    obtain ⟨ha, has⟩ := hm
    cases hq : q a with
    | false =>
      have : lastIdx q as = none := lastIdx_none_of_all (fun k hk => ha k hk hq)
      simp [lastIdx, this, hq]
    | true =>
      have := ih has
      by_cases hn : (as.takeWhile q).length = 0
      · simp [hn] at this
        simp [lastIdx, this, hq, hn]
      · simp [hn] at this
        simp [lastIdx, this, hq]
        omega

theorem takeWhile_map_length {α β : Type} (f : α → β) (q : β → Bool) (l : List α) :
    ((l.map f).takeWhile q).length = (l.takeWhile (fun a => q (f a))).length := by
  induction l with
  | nil => rfl
  | cons a l ih =>
    simp only [List.map_cons, List.takeWhile_cons]
    cases q (f a) <;> simp [ih]

theorem takeWhile_length_le {α : Type} (r : α → Bool) (l : List α) :
    (l.takeWhile r).length ≤ l.length := by
  induction l with
  | nil => simp
  | cons a l ih =>
    simp only [List.takeWhile_cons]
    cases r a <;> simp [ih]

/-! ### the four landing points in terms of `firstGe` / `firstGt` -/

theorem findIdx?_ge (c : Cmp) (m : List (Bytes × String)) (t : Bytes) :
    (m.map (·.1)).findIdx? (fun k => c.compare k t != .lt) =
      if firstGe c m t < m.length then some (firstGe c m t) else none :=
  findIdx?_map_takeWhile (·.1) (fun k => c.compare k t != .lt) _
    (fun a => by cases c.compare a.1 t <;> rfl) m

theorem findIdx?_gt (c : Cmp) (m : List (Bytes × String)) (t : Bytes) :
    (m.map (·.1)).findIdx? (fun k => c.compare k t == .gt) =
      if firstGt c m t < m.length then some (firstGt c m t) else none :=
  findIdx?_map_takeWhile (·.1) (fun k => c.compare k t == .gt) _
    (fun a => by cases c.compare a.1 t <;> rfl) m

theorem lastIdx_le (c : Cmp) (m : List (Bytes × String))
    (hs : SortedKeys c.compare (m.map (·.1))) (t : Bytes) :
    lastIdx (fun k => c.compare k t != .gt) (m.map (·.1)) =
      if firstGt c m t = 0 then none else some (firstGt c m t - 1) := by
  have h := ordLaws_cmp c
  rw [lastIdx_takeWhile _ _ (hs.imp (fun {a b} hab hq => by
    have : c.compare a t = .gt := by
      cases hc : c.compare a t <;> simp [hc] at hq ⊢
    have := h.gt_of_lt_of_not_lt hab (by rw [this]; decide)
    simp [this])), takeWhile_map_length]
  rfl

theorem lastIdx_lt (c : Cmp) (m : List (Bytes × String))
    (hs : SortedKeys c.compare (m.map (·.1))) (t : Bytes) :
    lastIdx (fun k => c.compare k t == .lt) (m.map (·.1)) =
      if firstGe c m t = 0 then none else some (firstGe c m t - 1) := by
  have h := ordLaws_cmp c
  rw [lastIdx_takeWhile _ _ (hs.imp (fun {a b} hab hq => by
    have hgt : c.compare b t = .gt :=
      h.gt_of_lt_of_not_lt (t := t) hab (by intro hc; simp [hc] at hq)
    simp [hgt])), takeWhile_map_length]
  rfl

theorem firstGe_le (c : Cmp) (m : List (Bytes × String)) (t : Bytes) : firstGe c m t ≤ m.length :=
  takeWhile_length_le _ m

theorem firstGt_le (c : Cmp) (m : List (Bytes × String)) (t : Bytes) : firstGt c m t ≤ m.length :=
  takeWhile_length_le _ m

/-! ### positions and states -/

theorem posToState_ofIdx (m : List (Bytes × String)) (n : Nat) :
    posToState (if n < m.length then some n else none) = cursorOfIdx m n := by
  unfold cursorOfIdx; split <;> rfl

theorem ofIdx_bound (m : List (Bytes × String)) (n : Nat) :
    ∀ i, (if n < m.length then some n else none) = some i → i < m.length := by
  intro i; split
  · intro h; cases h; assumption
  · intro h; cases h

theorem posToState_pred (n : Nat) :
    posToState (if n = 0 then none else some (n - 1)) =
      if (n == 0) = true then DbIterState.invalid else .at (n - 1) := by
  cases n <;> rfl

theorem pred_bound (m : List (Bytes × String)) (n : Nat) (hn : n ≤ m.length) :
    ∀ i, (if n = 0 then none else some (n - 1)) = some i → i < m.length := by
  intro i; split
  · intro h; cases h
  · intro h; cases h; omega

/-! ### the theorems -/

/-- the reference cursor over the keys of a strictly sorted association list, driven through the
    generic seek helpers of iterator.c, moves exactly as `mapCursorStep` dictates -/
theorem cursor_apply_eq_mapCursorStep (c : Cmp) (m : List (Bytes × String))
    (hs : m.Pairwise (fun a b => c.compare a.1 b.1 = .lt)) (op : IterOp) (p : Option Nat)
    (hp : ∀ i, p = some i → i < m.length) :
    ∃ p', (cursorOps c.compare (m.map (·.1))).apply (DbIter.toBlockOp op) p = some p' ∧
      (∀ i, p' = some i → i < m.length) ∧
      posToState p' = mapCursorStep c m (posToState p) op := by
  have hsk : SortedKeys c.compare (m.map (·.1)) := List.pairwise_map.mpr hs
  have h := ordLaws_cmp c
  cases op with
  | first =>
    refine ⟨_, rfl, ?_, ?_⟩
    · cases m <;> simp
    · cases m <;> simp [posToState, mapCursorStep, cursorOfIdx]
  | last =>
    refine ⟨_, rfl, ?_, ?_⟩
    · cases m <;> simp
    · cases m <;> simp [posToState, mapCursorStep]
  | next =>
    cases p with
    | none => exact ⟨none, rfl, by simp, rfl⟩
    | some i =>
      refine ⟨if i + 1 < m.length then some (i + 1) else none, ?_, ofIdx_bound m (i + 1),
        posToState_ofIdx m (i + 1)⟩
      simp [DbIter.toBlockOp, IterOps.apply, cursorOps]
  | prev =>
    cases p with
    | none => exact ⟨none, rfl, by simp, rfl⟩
    | some i =>
      have hi := hp i rfl
      cases i with
      | zero => exact ⟨none, rfl, by simp, rfl⟩
      | succ i =>
        refine ⟨some i, rfl, ?_, ?_⟩
        · intro j hj; cases hj; omega
        · simp [posToState, mapCursorStep]
  | seek k =>
    exact ⟨_, (seekGE_cursor c.compare _ k p).trans (congrArg some (findIdx?_ge c m k)),
      ofIdx_bound m _, posToState_ofIdx m _⟩
  | seekGe k =>
    exact ⟨_, (seekGE_cursor c.compare _ k p).trans (congrArg some (findIdx?_ge c m k)),
      ofIdx_bound m _, posToState_ofIdx m _⟩
  | seekGt k =>
    exact ⟨_, (seekGT_cursor c.compare h _ hsk k p).trans (congrArg some (findIdx?_gt c m k)),
      ofIdx_bound m _, posToState_ofIdx m _⟩
  | seekLe k =>
    exact ⟨_, (seekLE_cursor c.compare h _ hsk k p).trans (congrArg some (lastIdx_le c m hsk k)),
      pred_bound m _ (firstGt_le c m k), posToState_pred _⟩
  | seekLt k =>
    exact ⟨_, (seekLT_cursor c.compare h _ hsk k p).trans (congrArg some (lastIdx_lt c m hsk k)),
      pred_bound m _ (firstGe_le c m k), posToState_pred _⟩

/-- what the spec cursor shows -/
theorem mapCursorGet_posToState (m : List (Bytes × String)) (p : Option Nat) :
    mapCursorGet m (posToState p) = p.bind (m[·]?) := by
  cases p <;> rfl

end Lcdb.MapCursor
