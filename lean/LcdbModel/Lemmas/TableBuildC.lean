/-
  `TableWF` of what the table builder writes.

  * `assemble_layout`     `tableLayout (tableAssemble o bss)` finds footer, index block and every data block
  * `assemble_wf_nofilter`, `build_wf_nofilter`   tables without a filter policy
-/
import LcdbModel.Lemmas.TableBuildB
namespace Lcdb

/-- hypotheses about a partition `bss` of the entries into data blocks -/
structure AsmCtx (o : TableOpts) (bss : List (List (Bytes × Bytes))) : Prop where
  hri : 1 ≤ o.restartInterval
  hne : ∀ b ∈ bss, b ≠ []
  hsorted : SortedKeys (ikeyCmp o.cmp) (bss.flatten.map (·.1))
  hsz : ∀ e ∈ bss.flatten, 8 ≤ e.1.length ∧ e.1.length < 2 ^ 32 ∧ e.2.length < 2 ^ 32
  hfile : (tableAssemble o bss).length < 2 ^ 32
  hraw : tableRawBound bss.flatten < 2 ^ 31

/-- the blocks the reader finds -/
def asmInfos (o : TableOpts) (bss : List (List (Bytes × Bytes))) : List BlkInfo :=
  infoGo o none (layGo o 0 bss)

/-- the footer written -/
def asmFooter (o : TableOpts) (bss : List (List (Bytes × Bytes))) : Footer :=
  tailFooter o (dataBytes o 0 bss).length (tableFilterC o bss) (blockBuild 1 (tableIndex o bss))

def asmLayout (o : TableOpts) (bss : List (List (Bytes × Bytes))) : Layout :=
  { footer := asmFooter o bss, index := blockBuild 1 (tableIndex o bss), blocks := asmInfos o bss }

namespace AsmCtx
variable {o : TableOpts} {bss : List (List (Bytes × Bytes))}

theorem maxLen : Snappy.maxLength = 2 ^ 31 - 1 := by decide

theorem tableIndex_eq (o : TableOpts) (bss : List (List (Bytes × Bytes))) :
    tableIndex o bss = (asmInfos o bss).map fun b => (b.sep, b.hv) :=
  ixGo_eq_infoGo o (layGo o 0 bss) none

theorem entry_sizes (C : AsmCtx o bss) : ∀ b ∈ bss, ∀ e ∈ b, 8 ≤ e.1.length ∧ e.1.length < 2 ^ 32 ∧ e.2.length < 2 ^ 32 :=
  fun b hb e he => C.hsz e (List.mem_flatten.mpr ⟨b, hb, he⟩)

theorem data_raw_lt (C : AsmCtx o bss) : ∀ b ∈ bss, (blockBuild o.restartInterval b).length < 2 ^ 31 := by
  intro b hb
  have h1 := blockBuild_length_le o.restartInterval b (fun e he => (C.entry_sizes b hb e he).2)
  have h2 := blockSizeBound_le_raw bss b hb
  have h3 := C.hraw
  omega

theorem data_parse (C : AsmCtx o bss) : ∀ b ∈ bss, blockParse (blockBuild o.restartInterval b) = some b := by
  intro b hb
  have := C.data_raw_lt b hb
  exact block_roundtrip _ b C.hri (fun e he => (C.entry_sizes b hb e he).2) (by omega)

theorem file_eq (o : TableOpts) (bss : List (List (Bytes × Bytes))) :
    tableAssemble o bss = [] ++ dataBytes o ([] : Bytes).length bss ++
      tailBytes o (dataBytes o 0 bss).length (tableFilterC o bss) (blockBuild 1 (tableIndex o bss)) := rfl

theorem lay_mem (bh : List (Bytes × Bytes) × BlockHandle) (h : bh ∈ layGo o 0 bss) : bh.1 ∈ bss := by
  have := List.mem_map_of_mem (f := (·.1)) h
  rwa [layGo_map_fst] at this

theorem lay_bounds (C : AsmCtx o bss) (bh : List (Bytes × Bytes) × BlockHandle) (h : bh ∈ layGo o 0 bss) :
    bh.2.offset + bh.2.size + blockTrailerSize ≤ (dataBytes o 0 bss).length ∧
    (dataBytes o 0 bss).length < 2 ^ 32 := by
  have h1 := (layGo_bounds o bss 0 bh h).2
  have h2 := C.hfile
  rw [tableAssemble, List.length_append] at h2
  omega

theorem data_read (C : AsmCtx o bss) (v : Bool) (bh : List (Bytes × Bytes) × BlockHandle)
    (h : bh ∈ layGo o 0 bss) :
    readBlock (tableAssemble o bss) bh.2.offset bh.2.size v = .ok (blockBuild o.restartInterval bh.1) := by
  rw [file_eq]
  refine data_readable o v bss (fun b hb => ?_) [] _ bh h
  have := C.data_raw_lt b hb
  rw [maxLen]; omega

/-- every block the reader finds -/
theorem infos_mem (C : AsmCtx o bss) (x : BlkInfo) (hx : x ∈ asmInfos o bss) :
    ∃ sep bh, x = mkInfo o sep bh ∧ bh ∈ layGo o 0 bss ∧ bh.1 ∈ bss ∧
      sep.length ≤ (lastKeyOf bh.1).length := by
  obtain ⟨sep, bh, h1, h2, h3⟩ := mem_infoGo o (layGo o 0 bss) none x hx
  simp only [Option.toList_none, List.nil_append] at h2
  refine ⟨sep, bh, h1, h2, lay_mem bh h2, ?_⟩
  rcases h3 with rfl | ⟨y, rfl⟩
  · exact ikeySuccessor_length_le _ _
  · exact ikeySeparator_length_le _ _ _

theorem infos_blkInfo (C : AsmCtx o bss) (x : BlkInfo) (hx : x ∈ asmInfos o bss) :
    blkInfo (tableAssemble o bss) (x.sep, x.hv) = some x := by
  obtain ⟨sep, bh, rfl, h2, h3, _⟩ := C.infos_mem x hx
  have hb := C.lay_bounds bh h2
  exact blkInfo_mk o _ sep bh (by omega) (by omega) (C.data_read true bh h2) (C.data_parse bh.1 h3)

theorem infos_entries (o : TableOpts) (bss : List (List (Bytes × Bytes))) :
    (asmInfos o bss).flatMap (·.entries) = bss.flatten := by
  rw [asmInfos, infoGo_entries]
  simp only [Option.toList_none, List.nil_append, List.flatMap_def]
  rw [layGo_map_fst]

theorem infos_index_facts (C : AsmCtx o bss) : ∀ b ∈ asmInfos o bss,
    b.sep.length ≤ (lastKeyOf b.entries).length ∧ b.hv.length ≤ 20 ∧ b.entries ≠ [] := by
  intro x hx
  obtain ⟨sep, bh, rfl, h2, h3, h4⟩ := C.infos_mem x hx
  have hb := C.lay_bounds bh h2
  refine ⟨h4, ?_, C.hne bh.1 h3⟩
  exact handleEncode_length_le bh.2 (by omega) (by omega)

theorem index_sizes (C : AsmCtx o bss) :
    ∀ e ∈ tableIndex o bss, e.1.length < 2 ^ 32 ∧ e.2.length < 2 ^ 32 := by
  intro e he
  rw [tableIndex_eq] at he
  obtain ⟨x, hx, rfl⟩ := List.mem_map.mp he
  obtain ⟨h1, h2, h3⟩ := C.infos_index_facts x hx
  obtain ⟨e', he', hl⟩ := lastKeyOf_mem x.entries h3
  have hmem : e' ∈ bss.flatten := by
    rw [← infos_entries o bss]
    exact List.mem_flatMap.mpr ⟨x, hx, he'⟩
  have := C.hsz e' hmem
  rw [hl] at h1
  simp only []
  omega

theorem index_raw_lt (C : AsmCtx o bss) : (blockBuild 1 (tableIndex o bss)).length < 2 ^ 31 := by
  have h1 := blockBuild_length_le 1 (tableIndex o bss) C.index_sizes
  have h2 := index_bound (asmInfos o bss) C.infos_index_facts
  rw [← tableIndex_eq, infos_entries] at h2
  have h3 := C.hraw
  rw [tableRawBound_eq] at h3
  omega

theorem index_parse (C : AsmCtx o bss) : blockParse (blockBuild 1 (tableIndex o bss)) = some (tableIndex o bss) := by
  have := C.index_raw_lt
  exact block_roundtrip 1 _ (Nat.le_refl 1) C.index_sizes (by omega)

theorem file_lt64 (C : AsmCtx o bss) : (dataBytes o 0 bss ++ tailBytes o (dataBytes o 0 bss).length (tableFilterC o bss)
    (blockBuild 1 (tableIndex o bss))).length < 2 ^ 64 := by
  have := C.hfile
  unfold tableAssemble at this
  omega

/-- **what the reader finds** in the assembled file -/
theorem layout (C : AsmCtx o bss) : tableLayout (tableAssemble o bss) = some (asmLayout o bss) := by
  obtain ⟨hf1, hf2⟩ := tail_footer_read o (dataBytes o 0 bss) (tableFilterC o bss)
    (blockBuild 1 (tableIndex o bss)) C.file_lt64
  have hix := tail_index_read o (dataBytes o 0 bss) (tableFilterC o bss)
    (blockBuild 1 (tableIndex o bss)) true (by have := C.index_raw_lt; rw [maxLen]; omega)
  have hbl := blkInfos_of_forall (tableAssemble o bss) (asmInfos o bss) C.infos_blkInfo
  rw [← tableIndex_eq] at hbl
  unfold tableLayout
  rw [if_neg (by exact hf1)]
  unfold tableAssemble at hbl ⊢
  rw [hf2]
  simp only [tailFooter]
  rw [hix]
  simp only [C.index_parse, hbl]
  rfl

theorem filter_len (C : AsmCtx o bss) (c : Bytes) (hc : tableFilterC o bss = some c) : c.length < 2 ^ 32 := by
  have := C.hfile
  rw [tableAssemble, List.length_append, tailBytes_length, hc] at this
  simp only [filterBytes, rawBlockBytes_length] at this
  omega

theorem meta_raw (C : AsmCtx o bss) :
    (∀ e ∈ metaEntries (dataBytes o 0 bss).length (tableFilterC o bss), e.1.length < 2 ^ 32 ∧ e.2.length < 2 ^ 32) ∧
    (blockBuild o.restartInterval (metaEntries (dataBytes o 0 bss).length (tableFilterC o bss))).length < 2 ^ 31 := by
  have hlt : (dataBytes o 0 bss).length < 2 ^ 32 := by
    have := C.hfile
    rw [tableAssemble, List.length_append] at this
    omega
  obtain ⟨h1, h2⟩ := meta_bound (dataBytes o 0 bss).length (tableFilterC o bss) (by omega)
    (fun c hc => by have := C.filter_len c hc; omega)
  refine ⟨h1, ?_⟩
  have := blockBuild_length_le o.restartInterval _ h1
  omega

theorem meta_read (C : AsmCtx o bss) (v : Bool) :
    readBlock (tableAssemble o bss) (asmFooter o bss).metaindex.offset (asmFooter o bss).metaindex.size v
      = .ok (blockBuild o.restartInterval (metaEntries (dataBytes o 0 bss).length (tableFilterC o bss))) := by
  have := C.meta_raw.2
  exact tail_meta_read o (dataBytes o 0 bss) (tableFilterC o bss) (blockBuild 1 (tableIndex o bss)) v
    (by rw [maxLen]; omega)

/-- everything in `Layout.Good` except the filter-related parts -/
theorem good_of (C : AsmCtx o bss)
    (hm : metaReadable o (tableAssemble o bss) (asmLayout o bss))
    (hf1 : filterCovers o (tableAssemble o bss) (asmLayout o bss) true)
    (hf2 : filterCovers o (tableAssemble o bss) (asmLayout o bss) false) :
    (asmLayout o bss).Good o (tableAssemble o bss) bss.flatten := by
  refine ⟨?_, ?_, ?_, ?_, C.hsz, C.hsorted, ?_, hm, hf1, hf2⟩
  · show CanonBlock (blockBuild 1 (tableIndex o bss)) ((asmInfos o bss).map fun b => (b.sep, b.hv))
    rw [← tableIndex_eq]
    exact ⟨0, by omega, rfl⟩
  · have := C.index_raw_lt
    show (blockBuild 1 (tableIndex o bss)).length < 2 ^ 32
    omega
  · intro x hx
    have hx' : x ∈ asmInfos o bss := hx
    obtain ⟨h1, h2, h3⟩ := C.infos_index_facts x hx'
    obtain ⟨sep, bh, rfl, h4, h5, _⟩ := C.infos_mem x hx'
    have := C.data_raw_lt bh.1 h5
    refine ⟨by omega, canonBlock_build _ _ C.hri, h3, ?_⟩
    show (blockBuild o.restartInterval bh.1).length < 2 ^ 32
    omega
  · exact (infos_entries o bss).symm
  · have hfl : (((none : Option (List (Bytes × Bytes) × BlockHandle)).toList ++ layGo o 0 bss).flatMap (·.1))
        = bss.flatten := by
      simp only [Option.toList_none, List.nil_append, List.flatMap_def]
      rw [layGo_map_fst]
    refine sepsOk_infoGo o (layGo o 0 bss) none ?_ (by rw [hfl]; exact C.hsorted)
    intro bh hbh
    simp only [Option.toList_none, List.nil_append] at hbh
    have hb := lay_mem bh hbh
    exact ⟨C.hne _ hb, fun e he => ⟨(C.entry_sizes _ hb e he).1, (C.entry_sizes _ hb e he).2.1⟩⟩

theorem wf_of (C : AsmCtx o bss)
    (hm : metaReadable o (tableAssemble o bss) (asmLayout o bss))
    (hf1 : filterCovers o (tableAssemble o bss) (asmLayout o bss) true)
    (hf2 : filterCovers o (tableAssemble o bss) (asmLayout o bss) false) :
    TableWF o (tableAssemble o bss) bss.flatten := by
  unfold TableWF
  rw [C.layout]
  exact C.good_of hm hf1 hf2

/-- tables written without a filter policy -/
theorem wf_nofilter (C : AsmCtx o bss) (hp : o.filterBits = none) :
    TableWF o (tableAssemble o bss) bss.flatten := by
  have hpol : o.policy = none := by simp only [TableOpts.policy, hp, Option.map_none]
  refine C.wf_of ⟨⟨_, C.meta_read true⟩, ?_⟩ ?_ ?_
  · simp only [findFilterHandle, hpol]
  · simp only [filterCovers, hpol]
  · simp only [filterCovers, hpol]

end AsmCtx

/-- hypotheses of `build_wf` give the context for the builder's own partition -/
theorem asmCtx_of_build (o : TableOpts) (es : List (Bytes × Bytes)) (hri : 1 ≤ o.restartInterval)
    (hsorted : SortedKeys (ikeyCmp o.cmp) (es.map (·.1)))
    (hsz : ∀ e ∈ es, 8 ≤ e.1.length ∧ e.1.length < 2 ^ 32 ∧ e.2.length < 2 ^ 32)
    (hfile : (tableBuild o es).length < 2 ^ 32) (hraw : tableRawBound es < 2 ^ 31) :
    AsmCtx o (tableCut o es) where
  hri := hri
  hne := tableCut_ne_nil o es
  hsorted := by rw [tableCut_flatten]; exact hsorted
  hsz := by rw [tableCut_flatten]; exact hsz
  hfile := by rw [← tableBuild_eq]; exact hfile
  hraw := by rw [tableCut_flatten]; exact hraw

/-- **The builder writes well-formed tables** (no filter policy; any block size, restart interval,
    compression setting and comparator). -/
theorem build_wf_nofilter (o : TableOpts) (es : List (Bytes × Bytes)) (hri : 1 ≤ o.restartInterval)
    (hsorted : SortedKeys (ikeyCmp o.cmp) (es.map (·.1)))
    (hsz : ∀ e ∈ es, 8 ≤ e.1.length ∧ e.1.length < 2 ^ 32 ∧ e.2.length < 2 ^ 32)
    (hfile : (tableBuild o es).length < 2 ^ 32) (hraw : tableRawBound es < 2 ^ 31)
    (hnf : o.filterBits = none) :
    TableWF o (tableBuild o es) es := by
  have C := asmCtx_of_build o es hri hsorted hsz hfile hraw
  have := C.wf_nofilter hnf
  rwa [← tableBuild_eq, tableCut_flatten] at this

/-! ### tables with a filter policy -/

/-- seeking the only key of a one-entry block finds it -/
theorem seek_single (iv : Nat) (k v : Bytes) (hiv : 1 ≤ iv) (hk : k.length < 2 ^ 32) (hv : v.length < 2 ^ 32)
    (hsz : (blockBuild iv [(k, v)]).length < 2 ^ 32) :
    ∃ it, (blockIterCreate (blockBuild iv [(k, v)])).seek bytewiseBlockCmp k = some it ∧
      it.valid = true ∧ it.key = k ∧ it.value = v := by
  have hb : BuiltOk bytewiseBlockCmp iv [(k, v)] :=
    { interval_pos := hiv
      sizes := by intro e he; simp only [List.mem_singleton] at he; subst he; exact ⟨hk, hv⟩
      total := hsz
      laws := ordLaws_bytesCmp
      sorted := by simp [SortedKeys]
      ikeys := by intro h; cases h }
  obtain ⟨it, h1, _, h3⟩ := blockIter_seek_first_ge bytewiseBlockCmp iv [(k, v)] hb []
    (by intro op hop; simp at hop) k (by intro h; cases h)
  have hfi : ([(k, v)].map (·.1)).findIdx? (fun k' => bytewiseBlockCmp.cmp k' k != .lt) = some 0 := by
    simp [bytewiseBlockCmp, ordLaws_bytesCmp.refl k]
  rw [hfi] at h3
  obtain ⟨_, hv1, hv2, hv3⟩ := h3
  refine ⟨it, ?_, hv1, hv2, hv3⟩
  simp only [List.nil_append, IterOps.run, IterOps.apply, blockIterOps] at h1
  cases hs : (blockIterCreate (blockBuild iv [(k, v)])).seek bytewiseBlockCmp k with
  | none => rw [hs] at h1; cases h1
  | some it' => rw [hs] at h1; simpa using h1

theorem fblGo_pairwise (o : TableOpts) (bss : List (List (Bytes × Bytes))) :
    ∀ off, List.Pairwise (fun a b : Nat × List Bytes => a.1 ≤ b.1) (fblGo o off bss) ∧
      ∀ x ∈ fblGo o off bss, off ≤ x.1 ∧ x.1 ≤ off + (dataBytes o off bss).length := by
  induction bss with
  | nil => intro off; simp [fblGo]
  | cons b rest ih =>
    intro off
    obtain ⟨ih1, ih2⟩ := ih (off + (dataW o off b).1.length)
    simp only [fblGo, dataBytes, List.length_append, List.pairwise_cons, List.mem_cons]
    refine ⟨⟨fun x hx => ?_, ih1⟩, fun x hx => ?_⟩
    · have := ih2 x hx; omega
    · rcases hx with rfl | hx
      · omega
      · have := ih2 x hx; omega

namespace AsmCtx
variable {o : TableOpts} {bss : List (List (Bytes × Bytes))}

/-- the handle of the filter block -/
def filterHandle (o : TableOpts) (bss : List (List (Bytes × Bytes))) (c : Bytes) : BlockHandle :=
  { offset := (dataBytes o 0 bss).length, size := c.length }

theorem find_filter (C : AsmCtx o bss) (p : Policy) (hp : o.policy = some p) (c : Bytes)
    (hc : tableFilterC o bss = some c) (v : Bool) :
    findFilterHandle o (tableAssemble o bss) v (asmFooter o bss)
      = .ok (some (handleEncode (filterHandle o bss c))) := by
  obtain ⟨hm1, hm2⟩ := C.meta_raw
  have hr := C.meta_read v
  rw [hc] at hr hm1 hm2
  simp only [metaEntries] at hr hm1 hm2
  have hs := hm1 _ (List.mem_singleton.mpr rfl)
  obtain ⟨it, h1, h2, h3, h4⟩ := seek_single o.restartInterval filterKeyName
    (handleEncode { offset := (dataBytes o 0 bss).length, size := c.length }) C.hri hs.1 hs.2 (by omega)
  unfold findFilterHandle
  simp only [hp, hr, h1, h2, h3, h4, beq_self_eq_true, Bool.and_self, if_true]
  rfl

theorem filter_read (C : AsmCtx o bss) (c : Bytes) (hc : tableFilterC o bss = some c) (v : Bool) :
    readBlock (tableAssemble o bss) (filterHandle o bss c).offset (filterHandle o bss c).size v = .ok c := by
  have := tail_filter_read o (dataBytes o 0 bss) c (blockBuild 1 (tableIndex o bss)) v (C.filter_len c hc)
  unfold tableAssemble
  rw [hc]
  exact this

theorem filterHandle_read (C : AsmCtx o bss) (c : Bytes) (hc : tableFilterC o bss = some c) :
    handleRead (handleEncode (filterHandle o bss c)) = some (filterHandle o bss c, []) := by
  have h1 := C.filter_len c hc
  have h2 := C.hfile
  rw [tableAssemble, List.length_append] at h2
  have := handle_roundtrip (filterHandle o bss c) [] (by show (dataBytes o 0 bss).length < 2 ^ 64; omega)
    (by show c.length < 2 ^ 64; omega)
  rwa [List.append_nil] at this

theorem read_meta (C : AsmCtx o bss) (p : Policy) (hp : o.policy = some p) (c : Bytes)
    (hc : tableFilterC o bss = some c) (v : Bool) :
    readMeta o (tableAssemble o bss) v (asmFooter o bss) = .ok (some c) := by
  unfold readMeta
  rw [C.find_filter p hp c hc v]
  simp only [readFilter, C.filterHandle_read c hc, C.filter_read c hc v]

theorem meta_readable (C : AsmCtx o bss) (p : Policy) (hp : o.policy = some p) (c : Bytes)
    (hc : tableFilterC o bss = some c) :
    metaReadable o (tableAssemble o bss) (asmLayout o bss) := by
  refine ⟨⟨_, C.meta_read true⟩, ?_⟩
  show match findFilterHandle o (tableAssemble o bss) true (asmFooter o bss) with
    | .ok (some v) => _
    | _ => True
  rw [C.find_filter p hp c hc true]
  simp only [C.filterHandle_read c hc]
  exact ⟨c, C.filter_read c hc true⟩

theorem filter_covers (C : AsmCtx o bss) (bits : Nat) (hb : o.filterBits = some bits) (v : Bool) :
    filterCovers o (tableAssemble o bss) (asmLayout o bss) v := by
  have hp : o.policy = some (ifpPolicy (bloomPolicy bits)) := by
    simp only [TableOpts.policy, hb, Option.map_some]
  have hc : tableFilterC o bss = some (filterBuild (ifpPolicy (bloomPolicy bits))
      (fblGo o 0 bss ++ [((dataBytes o 0 bss).length, [])])) := by
    simp only [tableFilterC, hp, Option.map_some]
  unfold filterCovers
  show match o.policy, readMeta o (tableAssemble o bss) v (asmFooter o bss) with
    | some p, .ok (some fc) => ∀ b ∈ asmInfos o bss, ∀ e ∈ b.entries, filterMatch p fc b.handle.offset e.1 = true
    | _, _ => True
  rw [C.read_meta _ hp _ hc v, hp]
  intro x hx e he
  obtain ⟨sep, bh, rfl, h2, h3, _⟩ := C.infos_mem x hx
  have he' : e ∈ bh.1 := he
  have h8 := (C.entry_sizes bh.1 h3 e he').1
  have hsplit : e.1 = e.1.take (e.1.length - 8) ++ e.1.drop (e.1.length - 8) := (List.take_append_drop _ _).symm
  have htl : (e.1.drop (e.1.length - 8)).length = 8 := by rw [List.length_drop]; omega
  have hpw : List.Pairwise (fun a b : Nat × List Bytes => a.1 ≤ b.1)
      (fblGo o 0 bss ++ [((dataBytes o 0 bss).length, [])]) := by
    obtain ⟨p1, p2⟩ := fblGo_pairwise o bss 0
    rw [List.pairwise_append]
    refine ⟨p1, by simp, ?_⟩
    intro a ha b hb'
    simp only [List.mem_singleton] at hb'
    subst hb'
    have := (p2 a ha).2
    simp only []; omega
  have hmem : (bh.2.offset, bh.1.map (·.1)) ∈ fblGo o 0 bss ++ [((dataBytes o 0 bss).length, [])] := by
    apply List.mem_append_left
    rw [fblGo_eq]
    exact List.mem_map.mpr ⟨bh, h2, rfl⟩
  have hk : e.1.take (e.1.length - 8) ++ e.1.drop (e.1.length - 8) ∈ bh.1.map (·.1) := by
    rw [← hsplit]; exact List.mem_map_of_mem he'
  have := filter_covers_block_ifp bits _ hpw (C.filter_len _ hc) bh.2.offset (bh.1.map (·.1)) hmem
    (e.1.take (e.1.length - 8)) (e.1.drop (e.1.length - 8)) (e.1.drop (e.1.length - 8)) htl htl hk
  rw [← hsplit] at this
  exact this

/-- **any partition into non-empty data blocks gives a well-formed table** -/
theorem wf (C : AsmCtx o bss) : TableWF o (tableAssemble o bss) bss.flatten := by
  cases hb : o.filterBits with
  | none => exact C.wf_nofilter hb
  | some bits =>
    have hp : o.policy = some (ifpPolicy (bloomPolicy bits)) := by
      simp only [TableOpts.policy, hb, Option.map_some]
    have hc : tableFilterC o bss = some (filterBuild (ifpPolicy (bloomPolicy bits))
        (fblGo o 0 bss ++ [((dataBytes o 0 bss).length, [])])) := by
      simp only [tableFilterC, hp, Option.map_some]
    exact C.wf_of (C.meta_readable _ hp _ hc) (C.filter_covers bits hb true) (C.filter_covers bits hb false)

end AsmCtx

/-- **The builder writes well-formed tables**: for every option combination (any block size,
    restart interval ≥ 1, compression on/off, filter policy or none, any of the comparators) the
    file written for strictly sorted internal keys is a well-formed table holding exactly `es`.
    `hfile` bounds all stored sizes and offsets (and the never-compressed filter block),
    `hraw` keeps every raw block below the Snappy limit 2^31. -/
theorem build_wf (o : TableOpts) (es : List (Bytes × Bytes)) (hri : 1 ≤ o.restartInterval)
    (hsorted : SortedKeys (ikeyCmp o.cmp) (es.map (·.1)))
    (hsz : ∀ e ∈ es, 8 ≤ e.1.length ∧ e.1.length < 2 ^ 32 ∧ e.2.length < 2 ^ 32)
    (hfile : (tableBuild o es).length < 2 ^ 32) (hraw : tableRawBound es < 2 ^ 31) :
    TableWF o (tableBuild o es) es := by
  have C := asmCtx_of_build o es hri hsorted hsz hfile hraw
  have := C.wf
  rwa [← tableBuild_eq, tableCut_flatten] at this

/-! ### non-vacuity: the hypotheses of `build_wf` are satisfiable (two data blocks, Snappy, bloom filter) -/

private def exE (u : String) (seq v : Nat) : Bytes × Bytes := (ikeyEnc u.toUTF8.toList seq 1, List.replicate v 7)
private def exEntries : List (Bytes × Bytes) := [exE "aaa" 5 30, exE "aab" 9 40, exE "abc" 3 50, exE "b" 2 10]
private def exOpts : TableOpts :=
  { blockSize := 100, restartInterval := 3, compression := true, filterBits := some 10, cmp := .bytewise }

example : TableWF exOpts (tableBuild exOpts exEntries) exEntries :=
  build_wf exOpts exEntries (by decide) (by unfold SortedKeys; decide +kernel) (by decide +kernel)
    (by decide +kernel) (by decide +kernel)

end Lcdb

