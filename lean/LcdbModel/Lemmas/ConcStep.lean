/-
  Inversion lemmas for `Lcdb.Conc.step`: what each enabled label does, with every compound transformer
  (`failAct`, `commitAct`, `headAct`) in the normal form "update the global fields, then map over the writers".
-/
import LcdbModel.Lemmas.ConcBasic

namespace Lcdb.Conc

/-! ### maybeSchedule -/

theorem maybeSchedule_eq (st : St) :
    maybeSchedule st =
      if st.bgScheduled = false ∧ st.shuttingDown = false ∧ st.bgError = false ∧ (st.imm = true ∨ st.needsCompaction = true)
      then { st with bgScheduled := true, bg := .posted } else st := by
  unfold maybeSchedule
  cases st.bgScheduled <;> cases st.shuttingDown <;> cases st.bgError <;> cases st.imm <;> cases st.needsCompaction <;> simp

@[simp] theorem maybeSchedule_writers (st : St) : (maybeSchedule st).writers = st.writers := by
  rw [maybeSchedule_eq]; split <;> rfl
@[simp] theorem maybeSchedule_readers (st : St) : (maybeSchedule st).readers = st.readers := by
  rw [maybeSchedule_eq]; split <;> rfl
@[simp] theorem maybeSchedule_queue (st : St) : (maybeSchedule st).queue = st.queue := by
  rw [maybeSchedule_eq]; split <;> rfl
@[simp] theorem maybeSchedule_inflight (st : St) : (maybeSchedule st).inflight = st.inflight := by
  rw [maybeSchedule_eq]; split <;> rfl
@[simp] theorem maybeSchedule_lastSeq (st : St) : (maybeSchedule st).lastSeq = st.lastSeq := by
  rw [maybeSchedule_eq]; split <;> rfl
@[simp] theorem maybeSchedule_committed (st : St) : (maybeSchedule st).committed = st.committed := by
  rw [maybeSchedule_eq]; split <;> rfl
@[simp] theorem maybeSchedule_imm (st : St) : (maybeSchedule st).imm = st.imm := by
  rw [maybeSchedule_eq]; split <;> rfl
@[simp] theorem maybeSchedule_needsCompaction (st : St) : (maybeSchedule st).needsCompaction = st.needsCompaction := by
  rw [maybeSchedule_eq]; split <;> rfl
@[simp] theorem maybeSchedule_bgError (st : St) : (maybeSchedule st).bgError = st.bgError := by
  rw [maybeSchedule_eq]; split <;> rfl
@[simp] theorem maybeSchedule_shuttingDown (st : St) : (maybeSchedule st).shuttingDown = st.shuttingDown := by
  rw [maybeSchedule_eq]; split <;> rfl
@[simp] theorem maybeSchedule_closer (st : St) : (maybeSchedule st).closer = st.closer := by
  rw [maybeSchedule_eq]; split <;> rfl
@[simp] theorem maybeSchedule_log (st : St) : (maybeSchedule st).log = st.log := by
  rw [maybeSchedule_eq]; split <;> rfl
@[simp] theorem maybeSchedule_groups (st : St) : (maybeSchedule st).groups = st.groups := by
  rw [maybeSchedule_eq]; split <;> rfl

/-! ### signalHead, failAct, commitAct -/

/-- wake `x` if it is the head of `q` -/
def wakeHead (q : List Tid) (x : Writer) : Writer := if q.head? = some x.tid then wake x else x

theorem signalHead_eq {st : St} (hN : (st.writers.map (·.tid)).Nodup) :
    signalHead st = mapW st (wakeHead st.queue) := by
  unfold signalHead
  cases hq : st.queue with
  | nil => simp only; rw [mapW_id']; intro x _; simp [wakeHead]
  | cons h q =>
    simp only; rw [signalW_eq hN]; apply mapW_congr; intro x _
    simp only [atW, wakeHead, List.head?_cons, Option.some.injEq]
    by_cases hx : x.tid = h <;> simp [hx]
    intro h'; exact absurd h'.symm hx

theorem putW_tid {t : Tid} {w' : Writer} (h : w'.tid = t) (x : Writer) : (putW t w' x).tid = x.tid := by
  unfold putW; split <;> simp [*]

/-- the globals after `failAct` -/
def failG (st : St) (t : Tid) : St :=
  { st with queue := st.queue.drop 1, log := st.log ++ [(t, true, st.lastSeq)] }

theorem failAct_eq {st : St} (hN : (st.writers.map (·.tid)).Nodup) (w : Writer) :
    failAct st w = mapW (failG st w.tid)
      (wakeHead (st.queue.drop 1) ∘ putW w.tid { w with pc := .returned false }) := by
  unfold failAct
  rw [signalHead_eq, setW_eq, mapW_mapW]
  · rfl
  · rw [setW_eq, map_tid_mapW (putW_tid rfl)]; exact hN

/-- the globals after `commitAct` -/
def commitG (st : St) (t : Tid) (sf : Bool) : St :=
  let n := st.inflight.length
  let batches := st.inflight.filterMap fun m => (getW st m).map (·.batch)
  if sf then
    { st with bgError := true, closer := if st.closer = .asleepBg then .wokenBg else st.closer,
              queue := st.queue.drop n, inflight := [], log := st.log ++ [(t, true, st.lastSeq)] }
  else
    { st with lastSeq := st.lastSeq + n, committed := st.committed ++ batches, groups := st.groups ++ [batches],
              queue := st.queue.drop n, inflight := [], log := st.log ++ [(t, true, st.lastSeq + n)] }

/-- what `commitAct` does to a writer record -/
def commitW (st : St) (w : Writer) (sf : Bool) (x : Writer) : Writer :=
  wakeHead (st.queue.drop st.inflight.length)
    (putW w.tid { w with pc := .returned (!sf) }
      (if x.tid ∈ st.inflight.drop 1 then markF (!sf) (if sf then bwake x else x) else (if sf then bwake x else x)))

theorem nodup_tids_map {l : List Writer} {g : Writer → Writer} (hg : ∀ x, (g x).tid = x.tid)
    (hN : (l.map (·.tid)).Nodup) : ((l.map g).map (·.tid)).Nodup := by
  have : (l.map g).map (·.tid) = l.map (·.tid) := by
    rw [List.map_map]; apply List.map_congr_left; intro x _; exact hg x
  rw [this]; exact hN

theorem ite_beq_tid (w' : Writer) (x : Writer) : (if (x.tid == w'.tid) = true then w' else x).tid = x.tid := by
  split <;> simp_all

theorem commitAct_eq {st : St} (hN : (st.writers.map (·.tid)).Nodup) (w : Writer) (sf : Bool) :
    commitAct st w sf = mapW (commitG st w.tid sf) (commitW st w sf) := by
  unfold commitAct
  have hmark : ∀ (ok : Bool) (l : List Tid) (x : Writer), (if x.tid ∈ l then markF ok x else x).tid = x.tid := by
    intro ok l x; split <;> simp [markF]
  cases sf with
  | false =>
    simp only [Bool.not_false, if_true, Bool.false_eq_true, if_false]
    rw [foldl_followStep_eq, signalHead_eq, setW_eq]
    · simp only [mapW, commitG, List.map_map, Bool.false_eq_true, if_false]
      congr 1
    all_goals first | exact hN | exact nodup_tids_map (ite_beq_tid _) (nodup_tids_map (hmark _ _) hN)
  | true =>
    simp only [Bool.not_true, Bool.false_eq_true, if_false, if_true]
    rw [broadcastBg_eq, foldl_followStep_eq, signalHead_eq, setW_eq]
    · simp only [mapW, commitG, List.map_map, if_true]
      congr 1
      apply List.map_congr_left; intro x _
      simp [commitW, Function.comp]
    · exact nodup_tids_map (ite_beq_tid _) (nodup_tids_map (hmark _ _) (nodup_tids_map bwake_tid hN))
    · exact nodup_tids_map bwake_tid hN

/-! ### headAct -/

/-- the state in which a begun group is being written -/
def beginSt (st : St) (w : Writer) (sw : Bool) (g : Nat) : St :=
  setW { (if sw then maybeSchedule { st with imm := true } else st) with inflight := st.queue.take g } { w with pc := .io }

/-- the state after a memtable switch in which closing the old log file failed: `imm` set, `bg_error` recorded (and
    broadcast), nothing scheduled -/
def switchFailSt (st : St) : St := broadcastBg { st with imm := true, bgError := true }

theorem switchFailSt_eq (st : St) :
    switchFailSt st = mapW { st with imm := true, bgError := true,
                                     closer := if st.closer = .asleepBg then .wokenBg else st.closer } bwake := by
  unfold switchFailSt; rw [broadcastBg_eq]; rfl

@[simp] theorem switchFailSt_writers (st : St) : (switchFailSt st).writers = st.writers.map bwake := by
  rw [switchFailSt_eq]; rfl
@[simp] theorem switchFailSt_readers (st : St) : (switchFailSt st).readers = st.readers := by
  rw [switchFailSt_eq]; rfl
@[simp] theorem switchFailSt_queue (st : St) : (switchFailSt st).queue = st.queue := by
  rw [switchFailSt_eq]; rfl
@[simp] theorem switchFailSt_inflight (st : St) : (switchFailSt st).inflight = st.inflight := by
  rw [switchFailSt_eq]; rfl
@[simp] theorem switchFailSt_lastSeq (st : St) : (switchFailSt st).lastSeq = st.lastSeq := by
  rw [switchFailSt_eq]; rfl
@[simp] theorem switchFailSt_committed (st : St) : (switchFailSt st).committed = st.committed := by
  rw [switchFailSt_eq]; rfl
@[simp] theorem switchFailSt_groups (st : St) : (switchFailSt st).groups = st.groups := by
  rw [switchFailSt_eq]; rfl
@[simp] theorem switchFailSt_log (st : St) : (switchFailSt st).log = st.log := by
  rw [switchFailSt_eq]; rfl
@[simp] theorem switchFailSt_shuttingDown (st : St) : (switchFailSt st).shuttingDown = st.shuttingDown := by
  rw [switchFailSt_eq]; rfl
@[simp] theorem switchFailSt_bgScheduled (st : St) : (switchFailSt st).bgScheduled = st.bgScheduled := by
  rw [switchFailSt_eq]; rfl
@[simp] theorem switchFailSt_bg (st : St) : (switchFailSt st).bg = st.bg := by
  rw [switchFailSt_eq]; rfl
@[simp] theorem switchFailSt_imm (st : St) : (switchFailSt st).imm = true := by
  rw [switchFailSt_eq]; rfl
@[simp] theorem switchFailSt_bgError (st : St) : (switchFailSt st).bgError = true := by
  rw [switchFailSt_eq]; rfl
@[simp] theorem switchFailSt_needsCompaction (st : St) : (switchFailSt st).needsCompaction = st.needsCompaction := by
  rw [switchFailSt_eq]; rfl
theorem switchFailSt_closer (st : St) :
    (switchFailSt st).closer = if st.closer = .asleepBg then .wokenBg else st.closer := by
  rw [switchFailSt_eq]; rfl

/-- a writer that does not sleep on the background cv keeps its record in `switchFailSt` -/
theorem mem_switchFailSt {st : St} {w : Writer} (hw : w ∈ st.writers) (hpc : w.pc ≠ .asleepBg) :
    w ∈ (switchFailSt st).writers := by
  rw [switchFailSt_writers]
  have : bwake w = w := by simp [bwake, hpc]
  rw [← this]; exact List.mem_map_of_mem hw

/-- the enabled outcomes of the head writer's critical section -/
inductive HeadOutcome (st : St) (w : Writer) : RoomChoice → St → Prop
  | fail : (st.bgError = true ∨ st.imm = false) → HeadOutcome st w .fail (failAct st w)
  | delay : st.bgError = false → w.usedDelay = false →
      HeadOutcome st w .delay (setW st { w with pc := .delayed, usedDelay := true })
  | wait (c : RoomChoice) : st.bgError = false →
      (c = .waitFlush ∧ st.imm = true ∨ c = .waitL0 ∧ st.needsCompaction = true) →
      HeadOutcome st w c (setW st { w with pc := .asleepBg })
  | switchFail : st.bgError = false → st.imm = false → HeadOutcome st w .switchFail (failAct (switchFailSt st) w)
  | begin (sw : Bool) (g : Nat) : st.bgError = false → (sw = true → st.imm = false) → 0 < g → g ≤ st.queue.length →
      (w.sync = false → ∀ m ∈ st.queue.take g, ∃ x, getW st m = some x ∧ (x.sync = true → x.tid = w.tid)) →
      HeadOutcome st w (.begin sw g) (beginSt st w sw g)

theorem headAct_inv {st st' : St} {w : Writer} {c : RoomChoice} (h : headAct st w c = some st') :
    HeadOutcome st w c st' := by
  unfold headAct at h
  by_cases hE : st.bgError = true
  · simp only [hE, if_true] at h
    by_cases hc : c = .fail
    · subst hc; simp at h; subst h; exact .fail (Or.inl hE)
    · simp [hc] at h
  · have hE' : st.bgError = false := by simpa using hE
    rw [if_neg hE] at h
    cases c with
    | fail =>
      by_cases hi : st.imm = true
      · simp [hi] at h
      · simp [hi] at h; subst h; exact .fail (Or.inr (by simpa using hi))
    | delay =>
      by_cases hd : w.usedDelay = true
      · simp [hd] at h
      · simp [hd] at h; subst h; exact .delay hE' (by simpa using hd)
    | waitFlush =>
      by_cases hi : st.imm = true
      · simp [hi] at h; subst h; exact .wait _ hE' (Or.inl ⟨rfl, hi⟩)
      · simp [hi] at h
    | waitL0 =>
      by_cases hi : st.needsCompaction = true
      · simp [hi] at h; subst h; exact .wait _ hE' (Or.inr ⟨rfl, hi⟩)
      · simp [hi] at h
    | switchFail =>
      by_cases hi : st.imm = true
      · simp [hi] at h
      · simp [hi] at h; subst h; exact .switchFail hE' (by simpa using hi)
    | begin sw g =>
      simp only at h
      have key : ∀ (A B C : Bool) (x : St),
          (if A = true then none else if B = true then none else if C = true then none else some x) = some st' →
          A = false ∧ B = false ∧ C = false ∧ x = st' := by
        intro A B C x hx
        cases A <;> cases B <;> cases C <;> simp at hx ⊢
        exact hx
      obtain ⟨h1, h2, h3, h4⟩ := key _ _ _ _ h
      subst h4
      have hq : (if sw = true then maybeSchedule { st with imm := true } else st).queue = st.queue := by
        split <;> simp
      have hgw : ∀ m, getW (if sw = true then maybeSchedule { st with imm := true } else st) m = getW st m := by
        intro m; unfold getW; split <;> simp
      simp only [hq, hgw] at h3
      suffices hs : HeadOutcome st w (.begin sw g) (beginSt st w sw g) by
        simpa only [beginSt, hq] using hs
      refine .begin sw g hE' ?_ ?_ ?_ ?_
      · intro hsw; simpa [hsw] using h1
      · simp at h2; omega
      · simp at h2; omega
      · intro hs m hm
        simp only [hs, Bool.not_false, Bool.true_and] at h3
        have h3' := List.any_eq_false.1 h3 m hm
        cases hg : getW st m with
        | none => simp [hg] at h3'
        | some x =>
          refine ⟨x, rfl, ?_⟩
          intro hxs
          simpa [hg, hxs] using h3'

/-- the state after pushing `t` on the queue (and logging the invocation) -/
def enq (st : St) (t : Tid) : St :=
  { st with queue := st.queue ++ [t], log := st.log ++ [(t, false, st.lastSeq)] }

theorem step_wEnter {st st' : St} {t : Tid} {c : RoomChoice} (h : step st (.wEnter t c) = some st') :
    ∃ w, getW st t = some w ∧ w.pc = .idle ∧ st.shuttingDown = false ∧
      (((st.queue ++ [t]).head? = some t ∧ HeadOutcome (enq st t) w c st') ∨
       ((st.queue ++ [t]).head? ≠ some t ∧ c = .fail ∧ st' = setW (enq st t) { w with pc := .asleepW })) := by
  simp only [step] at h
  cases hw : getW st t with
  | none => simp [hw] at h
  | some w =>
    simp only [hw] at h
    refine ⟨w, rfl, ?_⟩
    split at h
    · cases h
    · rename_i h1
      simp only [bne_iff_ne, ne_eq, Bool.or_eq_true, not_or, Decidable.not_not, Bool.not_eq_true] at h1
      refine ⟨h1.1, h1.2, ?_⟩
      split at h
      · rename_i h2
        exact Or.inl ⟨by simpa using h2, headAct_inv h⟩
      · rename_i h2
        split at h
        · cases h
        · rename_i h3
          simp only [Option.some.injEq] at h
          exact Or.inr ⟨by simpa using h2, by simpa using h3, h.symm⟩

theorem step_wWake {st st' : St} {t : Tid} {c : RoomChoice} (h : step st (.wWake t c) = some st') :
    ∃ w, getW st t = some w ∧ (w.pc = .wokenW ∨ w.pc = .wokenBg ∨ w.pc = .delayed) ∧
      ((w.done = true ∧ c = .fail ∧
          st' = setW { st with log := st.log ++ [(t, true, st.lastSeq)] } { w with pc := .returned w.status }) ∨
       (w.done = false ∧ st.queue.head? = some t ∧ HeadOutcome st w c st') ∨
       (w.done = false ∧ st.queue.head? ≠ some t ∧ c = .fail ∧ st' = setW st { w with pc := .asleepW })) := by
  simp only [step] at h
  cases hw : getW st t with
  | none => simp [hw] at h
  | some w =>
    simp only [hw] at h
    refine ⟨w, rfl, ?_⟩
    split at h
    · cases h
    · rename_i h1
      refine ⟨?_, ?_⟩
      · simp only [bne_iff_ne, ne_eq, Bool.and_eq_true, not_and, Decidable.not_not] at h1
        by_cases a : w.pc = .wokenW
        · exact Or.inl a
        · by_cases b : w.pc = .wokenBg
          · exact Or.inr (Or.inl b)
          · exact Or.inr (Or.inr (h1 ⟨a, b⟩))
      · split at h
        · rename_i hd
          split at h
          · cases h
          · rename_i hc
            simp only [Option.some.injEq] at h
            exact Or.inl ⟨hd, by simpa using hc, h.symm⟩
        · rename_i hd
          have hd' : w.done = false := by simpa using hd
          split at h
          · rename_i h2
            exact Or.inr (Or.inl ⟨hd', by simpa using h2, headAct_inv h⟩)
          · rename_i h2
            split at h
            · cases h
            · rename_i h3
              simp only [Option.some.injEq] at h
              exact Or.inr (Or.inr ⟨hd', by simpa using h2, by simpa using h3, h.symm⟩)

theorem step_wCommit {st st' : St} {t : Tid} {sf : Bool} (h : step st (.wCommit t sf) = some st') :
    ∃ w, getW st t = some w ∧ w.pc = .io ∧ st.inflight.head? = some t ∧ st' = commitAct st w sf := by
  simp only [step] at h
  cases hw : getW st t with
  | none => simp [hw] at h
  | some w =>
    simp only [hw] at h
    refine ⟨w, rfl, ?_⟩
    split at h
    · cases h
    · rename_i h1
      simp only [bne_iff_ne, ne_eq, Bool.or_eq_true, not_or, Decidable.not_not] at h1
      simp only [Option.some.injEq] at h
      exact ⟨h1.1, h1.2, h.symm⟩

theorem step_rCapture {st st' : St} {t : Tid} (h : step st (.rCapture t) = some st') :
    ∃ r, getR st t = some r ∧ r.pc = .idle ∧ st.shuttingDown = false ∧
      st' = setR { st with log := st.log ++ [(t, false, st.lastSeq)] } { r with pc := .reading st.lastSeq } := by
  simp only [step] at h
  cases hr : getR st t with
  | none => simp [hr] at h
  | some r =>
    simp only [hr] at h
    refine ⟨r, rfl, ?_⟩
    split at h
    · cases h
    · rename_i h1
      simp only [bne_iff_ne, ne_eq, Bool.or_eq_true, not_or, Decidable.not_not, Bool.not_eq_true] at h1
      simp only [Option.some.injEq] at h
      exact ⟨h1.1, h1.2, h.symm⟩

theorem step_rRead {st st' : St} {t : Tid} (h : step st (.rRead t) = some st') :
    ∃ r s, getR st t = some r ∧ r.pc = .reading s ∧ st' = setR st { r with pc := .releasing s } := by
  simp only [step] at h
  cases hr : getR st t with
  | none => simp [hr] at h
  | some r =>
    simp only [hr] at h
    cases hpc : r.pc <;> simp [hpc] at h
    exact ⟨r, _, rfl, hpc, h.symm⟩

theorem step_rRelease {st st' : St} {t : Tid} {seek : Bool} (h : step st (.rRelease t seek) = some st') :
    ∃ r s, getR st t = some r ∧ r.pc = .releasing s ∧
      st' = setR { (if seek then maybeSchedule { st with needsCompaction := true } else st) with
                    log := (if seek then maybeSchedule { st with needsCompaction := true } else st).log ++
                      [(t, true, (if seek then maybeSchedule { st with needsCompaction := true } else st).lastSeq)] }
               { r with pc := .returned s } := by
  simp only [step] at h
  cases hr : getR st t with
  | none => simp [hr] at h
  | some r =>
    simp only [hr] at h
    cases hpc : r.pc <;> simp [hpc] at h
    exact ⟨r, _, rfl, hpc, h.symm⟩

theorem step_bgStart {st st' : St} (h : step st .bgStart = some st') :
    st.bg = .posted ∧ st' = { st with bg := .working } := by
  simp only [step] at h
  split at h
  · cases h
  · rename_i h1
    simp only [Option.some.injEq] at h
    exact ⟨by simpa using h1, h.symm⟩

theorem step_bgMid {st st' : St} {fd bc er : Bool} (h : step st (.bgMid fd bc er) = some st') :
    st.bg = .working ∧ True ∧ (er = true → st.bgError = false) ∧
      (fd = true → st.imm = true) ∧
      st' = (if bc || er then broadcastBg else id)
        { st with imm := if fd then false else st.imm, bgError := if er then true else st.bgError } := by
  simp only [step] at h
  split at h
  · cases h
  · rename_i h1
    split at h
    · cases h
    · rename_i h2
      split at h
      · cases h
      · rename_i h3
        simp only [Option.some.injEq] at h
        refine ⟨by simpa using h1, trivial, ?_, ?_, ?_⟩
        · intro he; subst he; simpa using h2
        · intro hfd; simpa [hfd] using h3
        · subst h
          cases fd <;> cases er <;> cases bc <;> simp

theorem step_bgFinish {st st' : St} {sn : Bool} (h : step st (.bgFinish sn) = some st') :
    st.bg = .working ∧
      st' = broadcastBg (maybeSchedule { st with bgScheduled := false, bg := .parked, needsCompaction := sn }) := by
  simp only [step] at h
  split at h
  · cases h
  · rename_i h1
    simp only [Option.some.injEq] at h
    exact ⟨by simpa using h1, h.symm⟩

theorem step_close {st st' : St} (h : step st .close = some st') :
    st.closer = .idle ∧
      (∀ w ∈ st.writers, w.pc = .idle ∨ ∃ ok, w.pc = .returned ok) ∧
      (∀ r ∈ st.readers, r.pc = .idle ∨ ∃ s, r.pc = .returned s) ∧
      st' = { st with shuttingDown := true, closer := if st.bgScheduled then .asleepBg else .returned } := by
  simp only [step] at h
  split at h
  · cases h
  · rename_i h1
    split at h
    · cases h
    · rename_i h2
      split at h
      · cases h
      · rename_i h3
        refine ⟨by simpa using h1, ?_, ?_, ?_⟩
        · intro w hw
          simp only [List.any_eq_true, not_exists, not_and] at h2
          have := h2 w hw
          cases hpc : w.pc <;> simp [hpc] at this ⊢
        · intro r hr
          simp only [List.any_eq_true, not_exists, not_and] at h3
          have := h3 r hr
          cases hpc : r.pc <;> simp [hpc] at this ⊢
        · by_cases hb : st.bgScheduled = true <;> simp [hb] at h ⊢ <;> exact h.symm

theorem step_closeWake {st st' : St} (h : step st .closeWake = some st') :
    st.closer = .wokenBg ∧
      st' = { st with closer := if st.bgScheduled then .asleepBg else .returned } := by
  simp only [step] at h
  split at h
  · cases h
  · rename_i h1
    refine ⟨by simpa using h1, ?_⟩
    by_cases hb : st.bgScheduled = true <;> simp [hb] at h ⊢ <;> exact h.symm

end Lcdb.Conc
