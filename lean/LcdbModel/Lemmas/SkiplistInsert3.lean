/-
  Helper lemmas for Model/Skiplist.lean, part 5: `insert` itself — it succeeds exactly when the key is new,
  and then the invariant holds for the ordered list with the new node at its place.
-/
import LcdbModel.Lemmas.SkiplistInsert2
namespace Lcdb.Skiplist
variable {α : Type}

theorem afterKey_true {cmp : α → α → Ordering} {sl : SkipList α} {k : α} {a : Nat} (h : afterKey cmp sl k a = some true) :
    ∃ ka, keyOf sl a = some ka ∧ cmp ka k = .lt := by
  unfold afterKey at h
  cases hk : keyOf sl a with
  | none => simp [hk] at h
  | some ka => simp [hk] at h; exact ⟨ka, rfl, h⟩

theorem afterKey_false {cmp : α → α → Ordering} {sl : SkipList α} {k : α} {a : Nat} (h : afterKey cmp sl k a = some false) :
    ∃ ka, keyOf sl a = some ka ∧ cmp ka k ≠ .lt := by
  unfold afterKey at h
  cases hk : keyOf sl a with
  | none => simp [hk] at h
  | some ka => simp [hk] at h; exact ⟨ka, rfl, h⟩

theorem insertAt_ok {cmp : α → α → Ordering} {sl : SkipList α} {L : List Nat} (h : Inv cmp sl L) (k : α) (height : Nat)
    (hh : 1 ≤ height ∧ height ≤ kMaxHeight) (A B : List Nat) (hL : L = A ++ B) (prev : List (Option Nat))
    (hplen : prev.length = kMaxHeight)
    (hlow : ∀ i, i < sl.maxHeight → ∃ p, prev[i]? = some (some p) ∧ PrevOk sl A i p) :
    ∃ s' P, insertAt sl k height prev = some s' ∧ (∀ l, l < height → PrevOk sl A l (P l)) ∧
      Inserted sl s' k height (if height > sl.maxHeight then height else sl.maxHeight) P := by
  have hmh := h.mhRange
  have hn0 : 0 < sl.nodes.length := by have := h.len; omega
  -- the prev array after raising
  let prev' := if height > sl.maxHeight then raisePrev prev sl.maxHeight height else prev
  let P : Nat → Nat := fun l => match prev'[l]? with
    | some (some p) => p
    | _ => 0
  have hP : ∀ l, l < height → prev'[l]? = some (some (P l)) ∧ PrevOk sl A l (P l) := by
    intro l hl
    have key : ∃ p, prev'[l]? = some (some p) ∧ PrevOk sl A l p := by
      by_cases hlm : l < sl.maxHeight
      · obtain ⟨p, hp1, hp2⟩ := hlow l hlm
        refine ⟨p, ?_, hp2⟩
        show (if height > sl.maxHeight then raisePrev prev sl.maxHeight height else prev)[l]? = _
        split
        · unfold raisePrev
          rw [raise_get, if_neg (by omega)]; exact hp1
        · exact hp1
      · have hgt : height > sl.maxHeight := by omega
        refine ⟨0, ?_, [], A, rfl, by rw [h.headHeight]; omega, ?_⟩
        · show (if height > sl.maxHeight then raisePrev prev sl.maxHeight height else prev)[l]? = _
          rw [if_pos hgt]
          unfold raisePrev
          rw [raise_get, if_pos (by omega)]
        · intro a ha
          have := (h.heights a (by rw [hL]; simp [ha])).2
          omega
    obtain ⟨p, hp1, hp2⟩ := key
    have : P l = p := by simp only [P, hp1]
    rw [this]
    exact ⟨hp1, hp2⟩
  let mh' := if height > sl.maxHeight then height else sl.maxHeight
  have hs0 : LinkSt (withNode sl k height mh') sl.nodes.length P 0 (withNode sl k height mh') := by
    refine ⟨rfl, rfl, rfl, fun _ => rfl, fun _ => rfl, ?_⟩
    intro y l
    by_cases hy : y = sl.nodes.length
    · simp [hy]
    · simp [hy]
  have hPn : ∀ l, l < height → P l ≠ sl.nodes.length := by
    intro l hl
    have hm := (hP l hl).2.mem
    rcases List.mem_cons.mp hm with e | hm
    · omega
    · have := (h.mem_iff (P l)).mp (by rw [hL]; simp [hm]); omega
  obtain ⟨s', hrun, hst⟩ := linkGo_spec (withNode sl k height mh') sl.nodes.length P prev' height height 0
    (withNode sl k height mh') (by omega) hs0
    (by
      intro l hl
      obtain ⟨hp1, A1, A2, hs, hlt, hA2⟩ := hP l hl
      refine ⟨hp1, hPn l hl, ?_, ?_⟩
      · rw [withNode_heightOf, if_neg (hPn l hl)]; exact hlt
      · rw [withNode_getNext, if_neg (hPn l hl),
          h.next A1 (P l) (A2 ++ B) (by rw [hL, ← List.cons_append, hs]; simp) l hlt]
        rfl)
    (by rw [withNode_heightOf]; simp)
  refine ⟨s', P, hrun, fun l hl => (hP l hl).2, ?_⟩
  refine ⟨by rw [hst.len]; simp [withNode], by rw [hst.mh]; rfl, by rw [hst.rnd]; rfl, ?_, ?_, ?_⟩
  · intro y; rw [hst.key, withNode_keyOf]
  · intro y; rw [hst.height, withNode_heightOf]
  · intro y l
    rw [hst.next]
    by_cases hy : y = sl.nodes.length
    · rw [if_pos hy, if_pos hy]
      by_cases hl : l < height
      · rw [if_pos hl, if_pos hl, withNode_getNext, if_neg (hPn l hl)]
      · rw [if_neg hl, if_neg hl, withNode_getNext, if_pos rfl, if_neg hl]
    · rw [if_neg hy, if_neg hy, withNode_getNext, if_neg hy]

theorem insert_ok {cmp : α → α → Ordering} {sl : SkipList α} {L : List Nat} (hc : CmpOk cmp) (h : Inv cmp sl L) (k : α)
    (height : Nat) (hh : 1 ≤ height ∧ height ≤ kMaxHeight) (A B : List Nat) (hL : L = A ++ B)
    (hA : ∀ a ∈ A, afterKey cmp sl k a = some true) (hB : ∀ b ∈ B, afterKey cmp sl k b = some false)
    (hdup : ∀ b kb, B.head? = some b → keyOf sl b = some kb → cmp k kb ≠ .eq) :
    ∃ s', insert cmp sl k height = some s' ∧ Inv cmp s' (A ++ sl.nodes.length :: B) ∧
      s'.rnd = sl.rnd ∧ s'.nodes.length = sl.nodes.length + 1 ∧
      (∀ y, keyOf s' y = if y = sl.nodes.length then some k else keyOf sl y) ∧
      (∀ y, heightOf s' y = if y = sl.nodes.length then height else heightOf sl y) := by
  obtain ⟨prev, hfind, hplen, hlow, _⟩ := findGE_spec0 h k A B hL hA hB
  unfold insert
  rw [if_neg (by omega), hfind]
  simp only
  have hd : isDup cmp sl k B.head? = some false := by
    cases hb : B.head? with
    | none => rfl
    | some b =>
      have hbB : b ∈ B := List.mem_of_mem_head? hb
      obtain ⟨kb, hkb, _⟩ := afterKey_false (hB b hbB)
      simp only [isDup, hkb, Option.map_some]
      have := hdup b kb hb hkb
      simp [this]
  rw [hd]
  simp only
  obtain ⟨s', P, hrun, hP, hins⟩ := insertAt_ok h k height hh A B hL prev hplen hlow
  refine ⟨s', hrun, ?_, hins.rnd, hins.len, hins.key, hins.htEq⟩
  refine inserted_inv hc h k height hh A B hL (fun a ha => afterKey_true (hA a ha)) ?_ P hP hins
  -- every node of B carries a key above k
  intro b hb
  cases B with
  | nil => cases hb
  | cons b0 t =>
    obtain ⟨k0, hk0, hnlt⟩ := afterKey_false (hB b0 (by simp))
    have hne := hdup b0 k0 rfl hk0
    have hlt0 : cmp k k0 = .lt := by
      have := hc.swap k0 k
      cases h1 : cmp k0 k with
      | lt => exact absurd h1 hnlt
      | eq => rw [h1] at this; simp [Ordering.swap] at this; exact absurd this hne
      | gt => rw [h1] at this; simpa [Ordering.swap] using this
    rcases List.mem_cons.mp hb with rfl | hb
    · exact ⟨k0, hk0, hlt0⟩
    · have hs := h.sorted
      rw [hL, List.pairwise_append] at hs
      obtain ⟨ka, kb, h1, h2, h3⟩ := (List.pairwise_cons.mp hs.2.1).1 b hb
      rw [hk0] at h1
      cases h1
      exact ⟨kb, h2, hc.trans _ _ _ hlt0 h3⟩

theorem insert_dup {cmp : α → α → Ordering} {sl : SkipList α} {L : List Nat} (h : Inv cmp sl L) (k : α)
    (height : Nat) (A B : List Nat) (hL : L = A ++ B)
    (hA : ∀ a ∈ A, afterKey cmp sl k a = some true) (hB : ∀ b ∈ B, afterKey cmp sl k b = some false)
    (b : Nat) (kb : α) (hb : B.head? = some b) (hkb : keyOf sl b = some kb) (heq : cmp k kb = .eq) :
    insert cmp sl k height = none := by
  obtain ⟨prev, hfind, _⟩ := findGE_spec0 h k A B hL hA hB
  unfold insert
  split
  · rfl
  · rw [hfind]
    simp [isDup, hb, hkb, heq]

end Lcdb.Skiplist
