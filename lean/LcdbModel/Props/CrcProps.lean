/-
  Final theorems about the CRC-32C model.
-/
import LcdbModel.Lemmas.Crc32c
namespace Lcdb

/-! ### 1 mask / unmask -/

theorem mask_unmask (c : W32) : crcUnmask (crcMask c) = c := by
  unfold crcUnmask crcMask
  simp only [BitVec.add_sub_cancel]
  exact w32_rotr15_rotl15 c

theorem unmask_mask (m : W32) : crcMask (crcUnmask m) = m := by
  unfold crcUnmask crcMask
  simp only [w32_rotl15_rotr15, BitVec.sub_add_cancel]

theorem crcMask_injective : Function.Injective crcMask := by
  intro a b h
  rw [← mask_unmask a, ← mask_unmask b, h]

theorem crcUnmask_injective : Function.Injective crcUnmask := by
  intro a b h
  rw [← unmask_mask a, ← unmask_mask b, h]

/-! ### 2 the table -/

theorem crcTable_length : crcTable.length = 256 := crcTable_length'

theorem crcTableGet_eq (i : Nat) (h : i < 256) : crcTableGet i = crcBit8 (BitVec.ofNat 32 i) :=
  crcTableGet_eq' i h

/-! ### 3 GF(2)-linearity -/

theorem crcBit_xor (a b : W32) : crcBit (a ^^^ b) = crcBit a ^^^ crcBit b := crcBit_xor' a b

theorem crcBit8_xor (a b : W32) : crcBit8 (a ^^^ b) = crcBit8 a ^^^ crcBit8 b := crcBit8_xor' a b

/-! ### 4 table-driven step = bitwise specification -/

theorem crcByteTab_eq_spec (l : W32) (b : UInt8) : crcByteTab l b = crcByteSpec l b :=
  crcByteTab_eq_spec' l b

theorem crcExtendTab_eq (z : W32) (bs : Bytes) : crcExtendTab z bs = crcExtend z bs := by
  have : crcByteTab = crcByteSpec := funext fun l => funext fun b => crcByteTab_eq_spec l b
  unfold crcExtendTab crcExtend crcFeed
  rw [this]

/-! ### 5 injectivity -/

theorem crcBit_injective : Function.Injective crcBit := fun _ _ h => crcBit_inj h

theorem crcBit8_injective : Function.Injective crcBit8 := fun _ _ h => crcBit8_inj h

theorem crcByteSpec_injective_left (b : UInt8) : Function.Injective (fun l => crcByteSpec l b) := by
  intro l1 l2 h
  exact (BitVec.xor_left_inj _).mp (crcBit8_inj h)

theorem crcByteSpec_injective_right (l : W32) : Function.Injective (crcByteSpec l) := by
  intro x y h
  exact zeroExtend32_inj ((BitVec.xor_right_inj l).mp (crcBit8_inj h))

theorem crcFeed_injective (bs : Bytes) : Function.Injective (fun l => crcFeed l bs) := by
  induction bs with
  | nil => intro a b h; exact h
  | cons c cs ih =>
    intro a b h
    simp only [crcFeed_cons] at h
    exact crcByteSpec_injective_left c (ih h)

theorem crcExtend_injective_left (bs : Bytes) : Function.Injective (fun z => crcExtend z bs) := by
  intro a b h
  unfold crcExtend at h
  have h1 := (BitVec.xor_left_inj _).mp h
  exact (BitVec.xor_left_inj _).mp (crcFeed_injective bs h1)

/-! ### 7 streaming -/

theorem crcExtend_append (z : W32) (a b : Bytes) :
    crcExtend z (a ++ b) = crcExtend (crcExtend z a) b := by
  unfold crcExtend
  rw [crcFeed_append, w32_xor_xor_cancel]

theorem crc32c_append (a b : Bytes) : crc32c (a ++ b) = crcExtend (crc32c a) b :=
  crcExtend_append 0 a b

/-! ### 6 error detection: any change confined to one byte changes the CRC -/

theorem crc_detects_single_byte (z : W32) (pre suf : Bytes) (x y : UInt8) (h : x ≠ y) :
    crcExtend z (pre ++ x :: suf) ≠ crcExtend z (pre ++ y :: suf) := by
  intro heq
  unfold crcExtend at heq
  have h1 := (BitVec.xor_left_inj _).mp heq
  rw [crcFeed_append, crcFeed_append, crcFeed_cons, crcFeed_cons] at h1
  exact h (crcByteSpec_injective_right _ (crcFeed_injective suf h1))

/-- in particular, flipping any set of bits within a single byte is detected -/
theorem crc_detects_bit_flips_in_byte (z : W32) (pre suf : Bytes) (x m : UInt8) (hm : m ≠ 0) :
    crcExtend z (pre ++ (x ^^^ m) :: suf) ≠ crcExtend z (pre ++ x :: suf) := by
  apply crc_detects_single_byte
  intro he
  apply hm
  have h1 : (x ^^^ m).toBitVec = x.toBitVec := congrArg UInt8.toBitVec he
  rw [UInt8.toBitVec_xor] at h1
  have h2 : x.toBitVec ^^^ m.toBitVec = x.toBitVec ^^^ 0#8 := by rw [h1, BitVec.xor_zero]
  have h3 := (BitVec.xor_right_inj _).mp h2
  exact UInt8.toBitVec_inj.mp h3

/-! ### 8 check values (kernel evaluation, no native code) -/

theorem crc32c_check_123456789 :
    crc32c [0x31, 0x32, 0x33, 0x34, 0x35, 0x36, 0x37, 0x38, 0x39] = 0xE3069283#32 := by decide +kernel

theorem crc32c_check_utf8 : crc32c "123456789".toUTF8.toList = 0xE3069283#32 := by decide +kernel

theorem crc32c_check_zeros32 : crc32c (List.replicate 32 0) = 0x8A9136AA#32 := by decide +kernel

theorem crc32c_check_ones32 : crc32c (List.replicate 32 0xFF) = 0x62A8AB43#32 := by decide +kernel

theorem crc32c_empty : crc32c [] = 0#32 := by decide

theorem crcTable_check_1 : crcTableGet 1 = 0xF26B8303#32 := by decide
theorem crcTable_check_255 : crcTableGet 255 = 0xAD7D5351#32 := by decide

/-! ### 9 non-vacuity / concrete instances -/

example : crcExtend 0 ([1, 2] ++ 3 :: [4]) ≠ crcExtend 0 ([1, 2] ++ 7 :: [4]) :=
  crc_detects_single_byte 0 [1, 2] [4] 3 7 (by decide)

example : crcTableGet 200 = crcBit8 (BitVec.ofNat 32 200) := crcTableGet_eq 200 (by decide)

example : crcUnmask (crcMask 0xE3069283#32) = 0xE3069283#32 := mask_unmask _

example : crcMask 0xE3069283#32 ≠ 0xE3069283#32 := by decide

end Lcdb
