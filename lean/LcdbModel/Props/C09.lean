/-
  C09 -- the write path neither deadlocks nor loses a wake-up.

  Statements about `Lcdb.Conc` (LcdbModel/Model/Conc.lean), for every schedule and every outcome of the data-dependent
  choices. `WF ws rs`: thread ids distinct (across writers and readers), batch ids distinct, nobody started.
-/
import LcdbModel.Lemmas.ConcDemo
import LcdbModel.Lemmas.ConcRank

namespace Lcdb.C09
open Lcdb.Conc

/-- the program counters of a writer that is on the queue -/
def queuedPc (p : WPc) : Prop :=
  p = .asleepW ∨ p = .wokenW ∨ p = .asleepBg ∨ p = .wokenBg ∨ p = .delayed ∨ p = .io

/-- 1. The writer queue. -/
theorem queue_inv {ws : List Writer} {rs : List Reader} (hwf : WF ws rs) {st : St} (h : Reachable ws rs st) :
    st.queue.Nodup ∧
    (∀ t ∈ st.queue, ∃ w ∈ st.writers, w.tid = t) ∧
    -- on the queue iff in flight and not yet handed a result
    (∀ w ∈ st.writers, (w.tid ∈ st.queue ↔ queuedPc w.pc ∧ w.done = false)) ∧
    -- the group being written is a prefix of the queue, non-empty iff the head is doing its I/O
    st.inflight <+: st.queue ∧
    (st.inflight ≠ [] ↔ ∃ w ∈ st.writers, st.queue.head? = some w.tid ∧ w.pc = .io) ∧
    -- `done` is set only on writers a leader removed from the queue; they are woken (or, afterwards, have returned
    -- exactly the status they were handed)
    (∀ w ∈ st.writers, w.done = true → w.tid ∉ st.queue ∧ (w.pc = .wokenW ∨ w.pc = .returned w.status)) := by
  have H := (reachable_Inv hwf h).q
  refine ⟨H.qnodup, H.qmem, ?_, H.pfx, ?_, ?_⟩
  · intro w hw
    have := H.wq' hw
    have hm : st.queue.head? = some w.tid → w.tid ∈ st.queue := List.mem_of_mem_head?
    unfold WQ at this; unfold queuedPc
    cases hpc : w.pc <;> simp only [hpc] at this <;> simp <;> grind
  · constructor
    · intro hne
      cases hi : st.inflight with
      | nil => exact absurd hi hne
      | cons a l =>
        obtain ⟨r, hr⟩ := H.pfx
        have hq : st.queue.head? = some a := by rw [← hr, hi]; rfl
        obtain ⟨w, hw, hwt⟩ := H.qmem a (List.mem_of_mem_head? hq)
        exact ⟨w, hw, by rw [hwt]; exact hq, H.io_of_inflight hw (by simp) (by rw [hi, hwt]; rfl)⟩
    · rintro ⟨w, hw, _, hpc⟩ h0
      have := H.wq' hw
      simp [WQ, hpc, h0] at this
  · intro w hw hd
    have := H.wq' hw
    have hm : st.queue.head? = some w.tid → w.tid ∈ st.queue := List.mem_of_mem_head?
    unfold WQ at this
    cases hpc : w.pc <;> simp only [hpc] at this <;> simp <;> grind

/-- 2. No lost wake-up: whoever sleeps on its own condition variable does not have to run yet, and the head of the
    queue never sleeps there. -/
theorem wakeup_inv {ws : List Writer} {rs : List Reader} (hwf : WF ws rs) {st : St} (h : Reachable ws rs st) :
    (∀ w ∈ st.writers, w.pc = .asleepW → st.queue.head? ≠ some w.tid ∧ w.done = false ∧ w.tid ∈ st.queue) ∧
    (∀ t, st.queue.head? = some t → ∃ w ∈ st.writers, w.tid = t ∧ w.done = false ∧
      (w.pc = .wokenW ∨ w.pc = .asleepBg ∨ w.pc = .wokenBg ∨ w.pc = .delayed ∨ w.pc = .io)) ∧
    -- consequently a woken writer that is not done is the head: the wait loop never goes back to sleep
    (∀ w ∈ st.writers, (w.pc = .wokenW ∨ w.pc = .wokenBg ∨ w.pc = .delayed) → w.done = false →
      st.queue.head? = some w.tid) := by
  have H := (reachable_Inv hwf h).q
  refine ⟨?_, ?_, ?_⟩
  · intro w hw hpc
    have := H.wq' hw
    simp only [WQ, hpc] at this
    exact ⟨this.2.2, this.1, this.2.1⟩
  · intro t ht
    obtain ⟨w, hw, rfl⟩ := H.qmem t (List.mem_of_mem_head? ht)
    refine ⟨w, hw, rfl, ?_⟩
    have := H.wq' hw
    have hm := List.mem_of_mem_head? ht
    unfold WQ at this
    cases hpc : w.pc <;> simp only [hpc] at this <;> simp <;> grind
  · intro w hw hpc hd
    exact (H.woken_head hw hpc hd).1

/-- 3. Background work: it is scheduled whenever it is needed, and whoever waits for it will be woken. -/
theorem bg_inv {ws : List Writer} {rs : List Reader} (hwf : WF ws rs) {st : St} (h : Reachable ws rs st) :
    (st.bgScheduled = true ↔ st.bg ≠ .parked) ∧
    ((st.imm = true ∨ st.needsCompaction = true) → st.bgError = false → st.shuttingDown = false →
      st.bgScheduled = true) ∧
    (∀ w ∈ st.writers, w.pc = .asleepBg → st.bgScheduled = true ∧ st.bgError = false) ∧
    (st.closer = .asleepBg → st.bgScheduled = true) ∧
    -- close is exclusive
    (st.shuttingDown = true → (∀ w ∈ st.writers, w.pc = .idle ∨ ∃ ok, w.pc = .returned ok) ∧
      (∀ r ∈ st.readers, r.pc = .idle ∨ ∃ s, r.pc = .returned s)) := by
  have H := (reachable_Inv hwf h).b
  exact ⟨H.sched, H.need, fun w hw => (H.wb w hw).1, H.closerB,
    fun hs => ⟨fun w hw => (H.wb w hw).2 hs, fun r hr => H.rb r hr hs⟩⟩

/-- some operation has been invoked and has not returned, or the background worker has a job -/
def InFlight (st : St) : Prop :=
  (∃ w ∈ st.writers, w.pc ≠ .idle ∧ ∀ ok, w.pc ≠ .returned ok) ∨
  (∃ r ∈ st.readers, r.pc ≠ .idle ∧ ∀ s, r.pc ≠ .returned s) ∨
  st.closer = .asleepBg ∨ st.closer = .wokenBg ∨ st.bg ≠ .parked

/-! enabledness of the steps used as witnesses -/

theorem enabled_wake_done {st : St} {w : Writer} (hg : getW st w.tid = some w)
    (hpc : w.pc = .wokenW ∨ w.pc = .wokenBg ∨ w.pc = .delayed) (hd : w.done = true) :
    ∃ st', step st (.wWake w.tid .fail) = some st' := by
  rcases hpc with hpc | hpc | hpc <;> simp [step, hg, hpc, hd]

theorem enabled_wake_head {st : St} {w : Writer} (hg : getW st w.tid = some w)
    (hpc : w.pc = .wokenW ∨ w.pc = .wokenBg ∨ w.pc = .delayed) (hd : w.done = false)
    (hh : st.queue.head? = some w.tid) :
    ∃ c st', step st (.wWake w.tid c) = some st' := by
  obtain ⟨q, hq⟩ := head?_eq_cons hh
  by_cases hE : st.bgError = true
  · refine ⟨.fail, ?_⟩
    rcases hpc with hpc | hpc | hpc <;> simp [step, hg, hpc, hd, hh, headAct, hE]
  · refine ⟨.begin false 1, ?_⟩
    rcases hpc with hpc | hpc | hpc <;> simp [step, hg, hpc, hd, headAct, hE, hq]

theorem enabled_commit {st : St} {w : Writer} (hg : getW st w.tid = some w) (hpc : w.pc = .io)
    (hi : st.inflight.head? = some w.tid) : ∃ st', step st (.wCommit w.tid false) = some st' := by
  simp [step, hg, hpc, hi]

/-- 4. No deadlock: while anything is in flight, some thread other than a new caller can take a step. -/
theorem no_deadlock {ws : List Writer} {rs : List Reader} (hwf : WF ws rs) {st : St} (h : Reachable ws rs st)
    (hf : InFlight st) : ∃ l st', isInvocation l = false ∧ step st l = some st' := by
  have H := reachable_Inv hwf h
  -- the worker can always run
  by_cases hbg' : st.bg ≠ .parked
  · cases hb : st.bg with
    | parked => exact absurd hb hbg'
    | posted =>
      have : ∃ st', step st .bgStart = some st' := by simp [step, hb]
      exact ⟨.bgStart, this.choose, rfl, this.choose_spec⟩
    | working =>
      have : ∃ st', step st (.bgFinish false) = some st' := by simp [step, hb]
      exact ⟨.bgFinish false, this.choose, rfl, this.choose_spec⟩
  have hbg : st.bg = .parked := by simpa using hbg'
  have hns : st.bgScheduled = false := by
    cases hs : st.bgScheduled with
    | false => rfl
    | true => exact absurd hbg (H.b.sched.1 hs)
  rcases hf with ⟨w, hw, hni, hnr⟩ | ⟨r, hr, hni, hnr⟩ | hc | hc | hc
  · -- a writer is in flight
    have hgw := getW_of_mem H.q.wnodup hw
    have hwq := H.q.wq' hw
    by_cases hd : w.done = true
    · -- handed a result: it has been signalled and can return
      have hpc : w.pc = .wokenW := by
        unfold WQ at hwq
        cases hpc : w.pc <;> simp only [hpc] at hwq <;> simp_all
      obtain ⟨st', hs⟩ := enabled_wake_done hgw (Or.inl hpc) hd
      exact ⟨_, st', rfl, hs⟩
    · -- still queued: the head of the queue can run
      have hd' : w.done = false := by simpa using hd
      have hm : w.tid ∈ st.queue := by
        have hmh : st.queue.head? = some w.tid → w.tid ∈ st.queue := List.mem_of_mem_head?
        unfold WQ at hwq
        cases hpc : w.pc <;> simp only [hpc] at hwq <;> simp_all
      obtain ⟨t, q, hq⟩ : ∃ t q, st.queue = t :: q := by
        cases hq : st.queue with
        | nil => rw [hq] at hm; cases hm
        | cons t q => exact ⟨t, q, rfl⟩
      have hh : st.queue.head? = some t := by rw [hq]; rfl
      obtain ⟨x, hx, rfl⟩ := H.q.qmem t (by rw [hq]; simp)
      have hgx := getW_of_mem H.q.wnodup hx
      have hxq := H.q.wq' hx
      have hxm : x.tid ∈ st.queue := by rw [hq]; simp
      have hxb := (H.b.wb x hx).1
      unfold WQ at hxq
      cases hpc : x.pc <;> simp only [hpc] at hxq
      · exact absurd hxm hxq.2
      · exact absurd hh hxq.2.2
      · rcases hxq with hxq | hxq
        · exact absurd hxm hxq.2
        · obtain ⟨c, st', hs⟩ := enabled_wake_head hgx (Or.inl hpc) hxq.1 hh
          exact ⟨_, st', rfl, hs⟩
      · have := (hxb hpc).1; rw [hns] at this; cases this
      · obtain ⟨c, st', hs⟩ := enabled_wake_head hgx (Or.inr (Or.inl hpc)) hxq.1 hh
        exact ⟨_, st', rfl, hs⟩
      · obtain ⟨c, st', hs⟩ := enabled_wake_head hgx (Or.inr (Or.inr hpc)) hxq.1 hh
        exact ⟨_, st', rfl, hs⟩
      · obtain ⟨st', hs⟩ := enabled_commit hgx hpc hxq.2.2
        exact ⟨_, st', rfl, hs⟩
      · exact absurd hxm hxq.1
  · -- a reader is in flight
    have hgr : getR st r.tid = some r := find_rtid_of_mem H.l.rnodup hr
    cases hpc : r.pc with
    | idle => exact absurd hpc hni
    | reading s =>
      have : ∃ st', step st (.rRead r.tid) = some st' := by simp [step, hgr, hpc]
      exact ⟨_, this.choose, rfl, this.choose_spec⟩
    | releasing s =>
      have : ∃ st', step st (.rRelease r.tid false) = some st' := by simp [step, hgr, hpc]
      exact ⟨_, this.choose, rfl, this.choose_spec⟩
    | returned s => exact absurd hpc (hnr s)
  · have := H.b.closerB hc; rw [hns] at this; cases this
  · have : ∃ st', step st .closeWake = some st' := by simp [step, hc, hns]
    exact ⟨_, this.choose, rfl, this.choose_spec⟩
  · exact absurd hbg hc

/-- when every thread has returned and the worker is parked nothing is in flight -/
theorem not_inFlight_of_allDone {st : St} (hd : allDone st = true) (hb : st.bg = .parked) : ¬ InFlight st := by
  simp only [allDone, Bool.and_eq_true, List.all_eq_true, Bool.or_eq_true, beq_iff_eq] at hd
  obtain ⟨⟨hw, hr⟩, hc⟩ := hd
  rintro (⟨w, hw', h1, h2⟩ | ⟨r, hr', h1, h2⟩ | hc' | hc' | hc')
  · have := hw w hw'
    cases hpc : w.pc <;> simp [hpc] at this h1 h2
  · have := hr r hr'
    cases hpc : r.pc <;> simp [hpc] at this h1 h2
  · rw [hc'] at hc; simp at hc
  · rw [hc'] at hc; simp at hc
  · exact hc' hb

/-! ### 5. progress

`Lcdb.Conc.rank` is a weighted sum over: the writers (by program counter: `asleepW > wokenW = delayed > wokenBg >
asleepBg > io = woken-and-done > returned`, plus the delay a writer may still take), the readers, the closer, the worker
phase, `imm` and `bgError`. Every step that continues an operation makes it strictly smaller, except for the only two
kinds of steps that can repeat without bound, both of the background worker (`Lcdb.Conc.isSpin`):

* `bgStart`: the worker starts another round -- `bgFinish stillNeeds` reschedules it for as long as the (abstracted)
  data say that a compaction is needed or the immutable memtable is still there;
* `bgMid false _ false`: a critical section in the middle of the work that neither installs the flushed memtable nor
  records an error (with `bcast = true` it even wakes a stalled writer, which then stalls again).

These raise the rank by at most `#writers + 2`. (A woken writer that is not the head going back to sleep -- the third
candidate -- never happens at all: `wakeup_inv`.) -/

theorem rank_step {ws : List Writer} {rs : List Reader} (hwf : WF ws rs) {st st' : St} {l : Label}
    (h : Reachable ws rs st) (hs : step st l = some st') (hni : isInvocation l = false) :
    st'.writers.length = st.writers.length ∧
    (isSpin l = false → rank st' < rank st) ∧
    (isSpin l = true → rank st' ≤ rank st + (st.writers.length + 2)) := by
  obtain ⟨h1, h2, h3⟩ := rankWith_step (M := st.writers.length + 2) (U := st.writers.length + 4)
    (reachable_Inv hwf h) (Nat.le_refl _) (Nat.le_refl _) hs hni
  refine ⟨h1, fun hsp => ?_, fun hsp => ?_⟩
  · have := h3 hsp; unfold rank; rw [h1]; omega
  · have := h2 hsp; unfold rank; rw [h1]; omega

/-- a sequence of non-invocation steps is no longer than the rank of its first state plus `#writers + 3` per worker
    spin step in it -/
theorem run_bound {ws : List Writer} {rs : List Reader} (hwf : WF ws rs) {ls : List Label} :
    ∀ {st st' : St}, Reachable ws rs st → run st ls = some st' → (∀ l ∈ ls, isInvocation l = false) →
      ls.length + rank st' ≤ rank st + ls.countP isSpin * (st.writers.length + 3) := by
  induction ls with
  | nil => intro st st' _ hr _; simp [run] at hr; subst hr; simp
  | cons l ls ih =>
    intro st st' h hr hni
    simp only [run] at hr
    cases hs : step st l with
    | none => simp [hs] at hr
    | some st1 =>
      simp only [hs, Option.bind_some] at hr
      obtain ⟨hl, h1, h2⟩ := rank_step hwf h hs (hni l (by simp))
      have := ih (Reachable.step l h hs) hr (fun l' hl' => hni l' (by simp [hl']))
      rw [hl] at this
      simp only [List.length_cons, List.countP_cons]
      cases hsp : isSpin l with
      | false =>
        have := h1 hsp
        simp; omega
      | true =>
        have := h2 hsp
        simp only [if_true, Nat.add_mul, Nat.one_mul]; omega

/-- 5. From any reachable state, a sequence of steps that continue operations in flight, in which the worker spins
    (`bgStart` or `bgMid false _ false`) at most `N` times, has bounded length; and when it cannot be extended (no
    such step is enabled in its last state) nothing is in flight any more. -/
theorem progress_partial {ws : List Writer} {rs : List Reader} (hwf : WF ws rs) {st : St} (h : Reachable ws rs st)
    (N : Nat) {ls : List Label} {st' : St} (hr : run st ls = some st') (hni : ∀ l ∈ ls, isInvocation l = false)
    (hN : ls.countP isSpin ≤ N) :
    ls.length ≤ rank st + N * (st.writers.length + 3) ∧
    ((∀ l st'', isInvocation l = false → step st' l ≠ some st'') → ¬ InFlight st') := by
  refine ⟨?_, ?_⟩
  · have := run_bound hwf h hr hni
    have := Nat.mul_le_mul_right (st.writers.length + 3) hN
    omega
  · intro hmax hf
    obtain ⟨l, st'', h1, h2⟩ := no_deadlock hwf (Demo.reachable_run h hr) hf
    exact hmax l st'' h1 h2

/-- Consequently there is no infinite sequence of such steps with at most `N` worker spins. -/
theorem no_infinite_run {ws : List Writer} {rs : List Reader} (hwf : WF ws rs) {st : St} (h : Reachable ws rs st)
    (N : Nat) (ls : Nat → Label) (sts : Nat → St) (h0 : sts 0 = st)
    (hstep : ∀ i, isInvocation (ls i) = false ∧ step (sts i) (ls i) = some (sts (i + 1)))
    (hN : ∀ n, ((List.range n).map ls).countP isSpin ≤ N) : False := by
  have hrun : ∀ n, run st ((List.range n).map ls) = some (sts n) := by
    intro n
    induction n with
    | zero => simp [run, h0]
    | succ n ih =>
      rw [List.range_succ, List.map_append]
      refine Demo.run_append ih ?_
      simp [run, (hstep n).2]
  have := (progress_partial hwf h N (hrun (rank st + N * (st.writers.length + 3) + 1))
    (by intro l hl; obtain ⟨i, _, rfl⟩ := List.mem_map.1 hl; exact (hstep i).1) (hN _)).1
  simp only [List.length_map, List.length_range] at this
  omega

/-! ### non-vacuity -/

section Examples
open Lcdb.Conc.Demo

example : st1.queue.Nodup ∧ st2.inflight <+: st2.queue := ⟨(queue_inv wf reach1).1, (queue_inv wf reach2).2.2.2.1⟩
-- writer 3 sleeps on its own cv behind the head (2), which is asleep on the background cv, not on its own
example : ∃ w ∈ st1.writers, w.pc = .asleepW := by decide
example : ∃ w ∈ st1.writers, w.pc = .asleepBg ∧ st1.queue.head? = some w.tid := by decide
example : st1.bgScheduled = true := ((bg_inv wf reach1).2.2.1 _ (by decide : (st1.writers[1]'(by decide)) ∈ st1.writers)
  (by decide)).1
-- in `st1` the only runnable thread is the worker; `no_deadlock` finds it
example : InFlight st1 := Or.inl (by decide)
example : ∃ l st', isInvocation l = false ∧ step st1 l = some st' := no_deadlock wf reach1 (Or.inl (by decide))
-- the follower 3 of `st2` is committed by its leader 2 in the next step of the run
example : InFlight st2 ∧ ¬ InFlight st3 := by
  exact ⟨Or.inl (by decide), not_inFlight_of_allDone (by decide) (by decide)⟩

-- the whole demo run after its three `wEnter`s ... consists of non-invocation steps only from `st2` on except
-- `close`; the tail of the run from the state after `close` is a maximal sequence with one worker spin
example : isSpin .bgStart = true ∧ isSpin (.bgMid false true false) = true ∧ isSpin (.bgMid true false false) = false ∧
    isSpin (.bgFinish true) = false := by decide
example : ∃ st4, run st2 [.wCommit 2 false, .rRelease 11 false, .wWake 3 .fail, .rRead 12, .rRelease 12 true] = some st4 ∧
    [Label.wCommit 2 false, .rRelease 11 false, .wWake 3 .fail, .rRead 12, .rRelease 12 true].length ≤
      rank st2 + 0 * (st2.writers.length + 3) := by
  refine ⟨_, rfl, ?_⟩
  exact (progress_partial wf reach2 0 (st' := _) rfl (by decide) (by decide)).1
example : rank st2 = 60 ∧ rank st3 = 31 := by decide

end Examples

end Lcdb.C09
