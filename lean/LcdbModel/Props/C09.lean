import LcdbModel.Model.Conc
namespace Lcdb.C09
end Lcdb.C09
