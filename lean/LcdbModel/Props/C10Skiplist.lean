/-
  C10, lock-free memtable reads against an insert in progress (src/skiplist.c).

  * `publish_safe`                  if the publishing store is at least `release` and the link load at least `acquire`,
                                    every plain read a reader performs on a node it reached through a published link
                                    happens-after the plain writes that initialised the node (no race, initialised key);
  * `publish_unsafe_relaxed`        with a relaxed publishing store the same shape of trace IS a data race (the
                                    hypothesis of `publish_safe` is necessary in the model);
  * `publish_safe_current_source`   the orders found in /repo's current source (Generated.atomics) satisfy the
                                    hypotheses — closed by `decide`;
  * `insert_represents`, `reader_load`   level 0 as memory cells: the no-barrier step leaves the represented list
                                    unchanged, the publishing step turns it into the list with the key inserted, and a
                                    reader's load of `next[0]` returns the first key above its position;
  * `reader_sees_sorted_superset`   a level-0 traversal that runs concurrently with ONE inserter visits a strictly
                                    increasing sequence of keys, only linked keys, and — when it reaches the end —
                                    every key that was linked before it started.

  SINGLE-WRITER ASSUMPTION (explicit): the schedule of `reader_sees_sorted_superset` contains the level-0
  publications of one writer, one atomic store each; `insert_represents` is about one insert running alone on the
  writer side.  In lcdb this is guaranteed by external synchronisation: only the writer at the head of db->writers
  calls ldb_memtable_add (see Spec/ConcPolicy.lean, `knownUnlocked`, writer-queue token).
-/
import LcdbModel.Model.SkiplistPub
import LcdbModel.Spec.ConcPolicy
namespace Lcdb.C10
open Lcdb.HB Lcdb.SkiplistPub Lcdb.Conc

/-! ## publication in the happens-before model -/

/-- **publish_safe.**  Let the events of one `ldb_skiplist_insert` of node `n` (height `h`) occur in the trace in
    program order at positions `pos 0 < pos 1 < ...` (other threads' events interleaved arbitrarily).  If a reader
    thread loads, with order `oLoad ≥ acquire`, the link through which the insert published `n` at some level
    (`oStore ≥ release`; the load reads THAT store, which precedes it in the trace), then every later event of the
    reader — in particular its plain reads of the node's key and height — happens-after both initialising writes. -/
theorem publish_safe (tr : Trace) (W R : Tid) (oStore oLoad : MemOrder) (n h : Nat) (prevs : Nat → Nat)
    (rfs : Nat → Option Nat) (pos : Nat → Nat)
    (hmono : ∀ a b, a < b → pos a < pos b)
    (hemb : ∀ k e, (insertEvents W oStore n h prevs rfs)[k]? = some e → tr[pos k]? = some e)
    (hs : oStore.isRelease = true) (hl : oLoad.isAcquire = true)
    (level : Nat) (hlevel : level < h) (l r : Nat) (e : Ev)
    (hload : tr[l]? = some (R, Ev.aload (linkVar (prevs level) level) oLoad (some (pubTag n level))))
    (hrf : pos (pubIndex level) < l)
    (hlr : l < r) (hread : tr[r]? = some (R, e)) :
    tr[pos 0]? = some (W, Ev.write (keyLoc n)) ∧ tr[pos 1]? = some (W, Ev.write (heightLoc n)) ∧
    HB tr (pos 0) r ∧ HB tr (pos 1) r := by
  have h0 : tr[pos 0]? = some (W, Ev.write (keyLoc n)) := hemb 0 _ (by simp [insertEvents])
  have h1 : tr[pos 1]? = some (W, Ev.write (heightLoc n)) := hemb 1 _ (by simp [insertEvents])
  have hp := hemb (pubIndex level) _ (insertEvents_pub W oStore n h prevs rfs level hlevel)
  have hsw : HB tr (pos (pubIndex level)) r := HB.trans (HB.sw hrf hp hs hload hl) (HB.po hlr hload hread)
  have p0 : pos 0 < pos (pubIndex level) := hmono _ _ (by simp [pubIndex]; omega)
  have p1 : pos 1 < pos (pubIndex level) := hmono _ _ (by simp [pubIndex]; omega)
  exact ⟨h0, h1, HB.trans (HB.po p0 h0 hp) hsw, HB.trans (HB.po p1 h1 hp) hsw⟩

/-- the reader's read of the key is therefore not a data race with the initialising write -/
theorem publish_no_race (tr : Trace) (W R : Tid) (oStore oLoad : MemOrder) (n h : Nat) (prevs : Nat → Nat)
    (rfs : Nat → Option Nat) (pos : Nat → Nat)
    (hmono : ∀ a b, a < b → pos a < pos b)
    (hemb : ∀ k e, (insertEvents W oStore n h prevs rfs)[k]? = some e → tr[pos k]? = some e)
    (hs : oStore.isRelease = true) (hl : oLoad.isAcquire = true)
    (level : Nat) (hlevel : level < h) (l r : Nat)
    (hload : tr[l]? = some (R, Ev.aload (linkVar (prevs level) level) oLoad (some (pubTag n level))))
    (hrf : pos (pubIndex level) < l) (hlr : l < r) (hread : tr[r]? = some (R, Ev.read (keyLoc n))) :
    ¬ Race tr (pos 0) r := by
  intro hrace
  obtain ⟨_, _, _, _, _, _, _, _, _, _, _, _, _, _, hn⟩ := hrace
  exact hn (publish_safe tr W R oStore oLoad n h prevs rfs pos hmono hemb hs hl level hlevel l r _ hload hrf hlr hread).2.2.1

/-- non-vacuity of `publish_safe`: a concrete interleaving (insert of node 5, height 1, after node 0; reader thread 2) -/
def exInsertTrace : Trace :=
  insertEvents 1 .release 5 1 (fun _ => 0) (fun _ => none) ++
    [(2, Ev.aload (linkVar 0 0) .acquire (some (pubTag 5 0))), (2, Ev.read (keyLoc 5))]

example : (∀ a b : Nat, a < b → id a < id b) ∧
    (∀ (k : Nat) (e : Tid × Ev), (insertEvents 1 .release 5 1 (fun _ => 0) (fun _ => none))[k]? = some e → exInsertTrace[id k]? = some e) ∧
    exInsertTrace[5]? = some (2, Ev.aload (linkVar 0 0) .acquire (some (pubTag 5 0))) ∧ id (pubIndex 0) < 5 ∧
    exInsertTrace[6]? = some (2, Ev.read (keyLoc 5)) := by
  refine ⟨fun _ _ h => h, ?_, by decide, by decide, by decide⟩
  intro k e hk
  have hlen : (insertEvents 1 .release 5 1 (fun _ => 0) (fun _ => none)).length = 5 := by decide
  have : k < 5 := by
    rcases Nat.lt_or_ge k 5 with h | h
    · exact h
    · rw [List.getElem?_eq_none (by omega)] at hk; cases hk
  show exInsertTrace[k]? = some e
  unfold exInsertTrace
  rw [List.getElem?_append_left (by omega)]
  exact hk

/-- the same shape of trace with a RELAXED publishing store: initialising write, relaxed store, acquire load that reads
    it, read of the key -/
def exRelaxedPublish : Trace :=
  [(1, .write (keyLoc 5)), (1, .astore (linkVar 0 0) .relaxed (pubTag 5 0)),
   (2, .aload (linkVar 0 0) .acquire (some (pubTag 5 0))), (2, .read (keyLoc 5))]

private theorem exRelaxed_at {i : Nat} {t : Tid} {e : Ev} (h : exRelaxedPublish[i]? = some (t, e)) :
    (i = 0 ∧ t = 1 ∧ e = Ev.write (keyLoc 5)) ∨ (i = 1 ∧ t = 1 ∧ e = Ev.astore (linkVar 0 0) .relaxed (pubTag 5 0)) ∨
    (i = 2 ∧ t = 2 ∧ e = Ev.aload (linkVar 0 0) .acquire (some (pubTag 5 0))) ∨ (i = 3 ∧ t = 2 ∧ e = Ev.read (keyLoc 5)) := by
  rcases i with _ | _ | _ | _ | i
  · simp [exRelaxedPublish] at h; obtain ⟨rfl, rfl⟩ := h; exact Or.inl ⟨rfl, rfl, rfl⟩
  · simp [exRelaxedPublish] at h; obtain ⟨rfl, rfl⟩ := h; exact Or.inr (Or.inl ⟨rfl, rfl, rfl⟩)
  · simp [exRelaxedPublish] at h; obtain ⟨rfl, rfl⟩ := h; exact Or.inr (Or.inr (Or.inl ⟨rfl, rfl, rfl⟩))
  · simp [exRelaxedPublish] at h; obtain ⟨rfl, rfl⟩ := h; exact Or.inr (Or.inr (Or.inr ⟨rfl, rfl, rfl⟩))
  · simp [exRelaxedPublish] at h

private theorem exRelaxed_hb : ∀ i j, HB exRelaxedPublish i j → (i = 0 ∧ j = 1) ∨ (i = 2 ∧ j = 3) := by
  intro i j h
  induction h with
  | po hlt h1 h2 =>
    rcases exRelaxed_at h1 with ⟨a, b, _⟩ | ⟨a, b, _⟩ | ⟨a, b, _⟩ | ⟨a, b, _⟩ <;>
      rcases exRelaxed_at h2 with ⟨c, d, _⟩ | ⟨c, d, _⟩ | ⟨c, d, _⟩ | ⟨c, d, _⟩ <;>
      first
        | omega
        | (exfalso; rw [b] at d; cases d)
  | lock hlt h1 h2 => rcases exRelaxed_at h1 with ⟨_, _, h⟩ | ⟨_, _, h⟩ | ⟨_, _, h⟩ | ⟨_, _, h⟩ <;> cases h
  | fork hlt h1 h2 => rcases exRelaxed_at h1 with ⟨_, _, h⟩ | ⟨_, _, h⟩ | ⟨_, _, h⟩ | ⟨_, _, h⟩ <;> cases h
  | join hlt h1 h2 => rcases exRelaxed_at h2 with ⟨_, _, h⟩ | ⟨_, _, h⟩ | ⟨_, _, h⟩ | ⟨_, _, h⟩ <;> cases h
  | sw hlt h1 hrel h2 _ =>
    rcases exRelaxed_at h1 with ⟨_, _, h⟩ | ⟨_, _, h⟩ | ⟨_, _, h⟩ | ⟨_, _, h⟩ <;> cases h
    simp [MemOrder.isRelease] at hrel
  | trans _ _ ih1 ih2 => omega

/-- **necessity.**  With a relaxed publishing store the reader's read of the key races with the initialising write. -/
theorem publish_unsafe_relaxed : Race exRelaxedPublish 0 3 :=
  ⟨1, 2, .write (keyLoc 5), .read (keyLoc 5), keyLoc 5, true, false, by omega, rfl, rfl, by decide, rfl, rfl, rfl,
    fun h => by have := exRelaxed_hb 0 3 h; omega⟩

/-- **instance for the current source**: the orders the translator found for `ldb_skipnode_set` / `ldb_skipnode_next`
    satisfy the hypotheses of `publish_safe`. -/
theorem publish_safe_current_source :
    ∃ oStore oLoad, ConcPolicy.skiplistStoreOrder = some oStore ∧ ConcPolicy.skiplistLoadOrder = some oLoad ∧
      oStore.isRelease = true ∧ oLoad.isAcquire = true :=
  ⟨.release, .acquire, by decide +kernel, by decide +kernel, rfl, rfl⟩

/-! ## level 0 as memory cells -/

theorem mem_insertSorted {k x : Nat} : ∀ {L : List Nat}, x ∈ insertSorted k L ↔ x = k ∨ x ∈ L := by
  intro L
  induction L with
  | nil => simp [insertSorted]
  | cons a r ih =>
    simp only [insertSorted]
    split
    · simp
    · simp only [List.mem_cons, ih]
      constructor
      · rintro (h | h | h)
        · exact Or.inr (Or.inl h)
        · exact Or.inl h
        · exact Or.inr (Or.inr h)
      · rintro (h | h | h)
        · exact Or.inr (Or.inl h)
        · exact Or.inl h
        · exact Or.inr (Or.inr h)

theorem pairwise_insertSorted {k : Nat} : ∀ {L : List Nat}, L.Pairwise (· < ·) → k ∉ L → (insertSorted k L).Pairwise (· < ·) := by
  intro L
  induction L with
  | nil => intro _ _; simp [insertSorted]
  | cons a r ih =>
    intro hp hk
    rw [List.pairwise_cons] at hp
    simp only [List.mem_cons, not_or] at hk
    simp only [insertSorted]
    split
    · rename_i hka
      rw [List.pairwise_cons]
      refine ⟨?_, List.pairwise_cons.mpr hp⟩
      intro x hx
      rcases List.mem_cons.mp hx with rfl | hx
      · exact hka
      · exact Nat.lt_trans hka (hp.1 x hx)
    · rename_i hka
      have hak : a < k := by omega
      rw [List.pairwise_cons]
      refine ⟨?_, ih hp.2 hk.2⟩
      intro x hx
      rcases mem_insertSorted.mp hx with rfl | hx
      · exact hak
      · exact hp.1 x hx

theorem chain_congr {M M' : Mem} : ∀ {L : List Nat} {p : Option Nat}, (∀ x ∈ L, M'.nxt x = M.nxt x) → Chain M p L → Chain M' p L := by
  intro L
  induction L with
  | nil => intro p _ h; exact h
  | cons a r ih =>
    intro p hx h
    obtain ⟨h1, h2⟩ := h
    refine ⟨h1, ?_⟩
    rw [hx a (List.mem_cons_self ..)]
    exact ih (fun x hxr => hx x (List.mem_cons_of_mem _ hxr)) h2

theorem chain_head {M : Mem} {L : List Nat} {p : Option Nat} (h : Chain M p L) : p = L.head? := by
  cases L with
  | nil => exact h
  | cons a r => exact h.1

private theorem find_all_true {q : Nat → Bool} : ∀ {r : List Nat}, (∀ x ∈ r, q x = true) → r.find? q = r.head? := by
  intro r h
  cases r with
  | nil => rfl
  | cons a r => simp [List.find?, h a (List.mem_cons_self ..)]

private theorem load_store_same (M : Mem) (c v : Option Nat) : load (store M c v) c = v := by
  cases c <;> simp [load, store]

private theorem load_store_ne (M : Mem) {c c' : Option Nat} (v : Option Nat) (h : c ≠ c') : load (store M c v) c' = load M c' := by
  cases c <;> cases c' <;> simp [load, store] at h ⊢
  · intro h'; exact absurd h'.symm h

private theorem nxt_store_ne (M : Mem) {c : Option Nat} (v : Option Nat) {x : Nat} (h : c ≠ some x) : (store M c v).nxt x = M.nxt x := by
  have := load_store_ne M v h
  simpa [load] using this

private theorem above_ne {c : Option Nat} {x : Nat} (h : above c x = true) : c ≠ some x := by
  intro hc
  subst hc
  simp [above] at h

/-- a reader positioned at the head or at a linked node reads, from that node's `next[0]`, the first key above it -/
theorem reader_load {M : Mem} {L : List Nat} (hr : Represents M L) (hp : L.Pairwise (· < ·)) (cur : Option Nat)
    (hcur : cur = none ∨ ∃ c, cur = some c ∧ c ∈ L) : load M cur = L.find? (above cur) := by
  rcases hcur with rfl | ⟨c, rfl, hc⟩
  · have : L.find? (above none) = L.head? := find_all_true (fun _ _ => rfl)
    rw [this]
    exact chain_head hr
  · -- general statement over chains
    have gen : ∀ (L : List Nat) (p : Option Nat), Chain M p L → L.Pairwise (· < ·) → c ∈ L → M.nxt c = L.find? (above (some c)) := by
      intro L
      induction L with
      | nil => intro p _ _ hc; cases hc
      | cons a r ih =>
        intro p hch hpw hc
        rw [List.pairwise_cons] at hpw
        obtain ⟨_, hch2⟩ := hch
        rcases List.mem_cons.mp hc with rfl | hcr
        · have h1 : (c :: r).find? (above (some c)) = r.find? (above (some c)) := by simp [List.find?, above]
          rw [h1, find_all_true (fun x hx => by simp [above, hpw.1 x hx])]
          exact chain_head hch2
        · have hac : a < c := hpw.1 c hcr
          have h1 : (a :: r).find? (above (some c)) = r.find? (above (some c)) := by
            simp only [List.find?, above]
            have : decide (c < a) = false := by simp; omega
            rw [this]
          rw [h1]
          exact ih _ hch2 hpw.2 hcr
    exact gen L M.head hr hp hc

private theorem predCell_some (k : Nat) : ∀ (r : List Nat) (a : Nat), (∀ x ∈ r, a < x) → r.Pairwise (· < ·) →
    ∃ b, predCell k (some a) r = some b ∧ a ≤ b := by
  intro r
  induction r with
  | nil => intro a _ _; exact ⟨a, rfl, Nat.le_refl _⟩
  | cons x r ih =>
    intro a ha hp
    rw [List.pairwise_cons] at hp
    simp only [predCell]
    split
    · exact ⟨a, rfl, Nat.le_refl _⟩
    · obtain ⟨b, hb, hxb⟩ := ih x hp.1 hp.2
      have := ha x (List.mem_cons_self ..)
      exact ⟨b, hb, by omega⟩

private theorem predCell_mem (k : Nat) : ∀ (L : List Nat) (c : Option Nat), predCell k c L = c ∨ ∃ b ∈ L, predCell k c L = some b := by
  intro L
  induction L with
  | nil => intro c; exact Or.inl rfl
  | cons a r ih =>
    intro c
    simp only [predCell]
    split
    · exact Or.inl rfl
    · rcases ih (some a) with h | ⟨b, hb, h⟩
      · exact Or.inr ⟨a, List.mem_cons_self .., h⟩
      · exact Or.inr ⟨b, List.mem_cons_of_mem _ hb, h⟩

private theorem chain_publish {M : Mem} {k : Nat} : ∀ (L : List Nat) (c : Option Nat),
    Chain M (load M c) L → L.Pairwise (· < ·) → (∀ x ∈ L, above c x = true) → above c k = true → k ∉ L →
    M.nxt k = load M (predCell k c L) →
    Chain (store M (predCell k c L) (some k)) (load (store M (predCell k c L) (some k)) c) (insertSorted k L) := by
  intro L
  induction L with
  | nil =>
    intro c hch _ _ hck _ hnk
    simp only [predCell] at hnk ⊢
    simp only [insertSorted, load_store_same]
    refine ⟨rfl, ?_⟩
    show (store M c (some k)).nxt k = none
    rw [nxt_store_ne M _ (above_ne hck), hnk]
    exact hch
  | cons a r ih =>
    intro c hch hpw hab hck hk hnk
    rw [List.pairwise_cons] at hpw
    simp only [List.mem_cons, not_or] at hk
    obtain ⟨hca, hch2⟩ := hch
    have haa : above c a = true := hab a (List.mem_cons_self ..)
    simp only [predCell, insertSorted] at hnk ⊢
    split
    · rename_i hka
      simp only [hka, if_true] at hnk
      simp only [load_store_same]
      refine ⟨rfl, ?_⟩
      have e1 : (store M c (some k)).nxt k = some a := by rw [nxt_store_ne M _ (above_ne hck), hnk, hca]
      rw [e1]
      refine ⟨rfl, ?_⟩
      rw [nxt_store_ne M _ (above_ne haa)]
      exact chain_congr (fun x hx => nxt_store_ne M _ (above_ne (hab x (List.mem_cons_of_mem _ hx)))) hch2
    · rename_i hka
      simp only [hka, if_false] at hnk
      have hak : a < k := by omega
      have ih' := ih (some a) hch2 hpw.2 (fun x hx => by simp [above, hpw.1 x hx]) (by simp [above, hak]) hk.2 hnk
      obtain ⟨b, hb, hab'⟩ := predCell_some k r a hpw.1 hpw.2
      have hne : predCell k (some a) r ≠ c := by
        rw [hb]
        intro hc
        subst hc
        simp [above] at haa
        omega
      refine ⟨?_, ?_⟩
      · rw [load_store_ne M _ hne]; exact hca
      · exact ih'

/-- **one insert at level 0.**  After the no-barrier step the memory still represents the old list (a concurrent reader
    cannot see the new node); after the publishing store it represents the list with `k` inserted in order. -/
theorem insert_represents {M : Mem} {L : List Nat} {k : Nat} (hr : Represents M L) (hp : L.Pairwise (· < ·)) (hk : k ∉ L) :
    Represents (prepare M k L) L ∧ Represents (publish (prepare M k L) k L) (insertSorted k L) := by
  have hpc : predCell k none L ≠ some k := by
    rcases predCell_mem k L none with h | ⟨b, hb, h⟩
    · rw [h]; simp
    · rw [h]; intro hbk; cases hbk; exact hk hb
  have hprep : Represents (prepare M k L) L := by
    unfold Represents prepare
    have hh : (store M (some k) (load M (predCell k none L))).head = M.head := by simp [store]
    rw [hh]
    exact chain_congr (fun x hx => nxt_store_ne M _ (by intro h; cases h; exact hk hx)) hr
  refine ⟨hprep, ?_⟩
  have hn : (prepare M k L).nxt k = load (prepare M k L) (predCell k none L) := by
    unfold prepare
    rw [load_store_ne M _ (Ne.symm hpc)]
    simp [store]
  have := chain_publish (M := prepare M k L) (k := k) L none hprep hp (fun _ _ => rfl) rfl hk hn
  exact this

/-! ## one reader against one writer -/

private theorem first_le {p : Nat → Bool} {x k : Nat} : ∀ {L : List Nat}, L.Pairwise (· < ·) → L.find? p = some x → k ∈ L → p k = true → x ≤ k := by
  intro L
  induction L with
  | nil => intro _ h; cases h
  | cons a r ih =>
    intro hp hf hk hpk
    rw [List.pairwise_cons] at hp
    simp only [List.find?] at hf
    cases hpa : p a with
    | true =>
      rw [hpa] at hf
      cases hf
      rcases List.mem_cons.mp hk with rfl | hkr
      · exact Nat.le_refl _
      · exact Nat.le_of_lt (hp.1 k hkr)
    | false =>
      rw [hpa] at hf
      rcases List.mem_cons.mp hk with rfl | hkr
      · rw [hpa] at hpk; cases hpk
      · exact ih hp.2 hf hkr hpk

/-- invariant of the interleaved run that started from list `L0` -/
structure Inv (L0 : List Nat) (s : St) : Prop where
  sortedL : s.L.Pairwise (· < ·)
  sortedV : s.V.Pairwise (· < ·)
  vInL : ∀ v ∈ s.V, v ∈ s.L
  vBelow : ∀ v ∈ s.V, above s.cur v = false
  curInL : s.cur = none ∨ ∃ c, s.cur = some c ∧ c ∈ s.L
  l0InL : ∀ k ∈ L0, k ∈ s.L
  l0Seen : ∀ k ∈ L0, above s.cur k = false → k ∈ s.V
  doneAll : s.done = true → ∀ k ∈ L0, k ∈ s.V

theorem inv_start {L0 : List Nat} (h : L0.Pairwise (· < ·)) : Inv L0 (start L0) :=
  { sortedL := h, sortedV := List.Pairwise.nil, vInL := fun _ hv => (by cases hv), vBelow := fun _ hv => (by cases hv),
    curInL := Or.inl rfl, l0InL := fun _ hk => hk, l0Seen := fun _ _ ha => (by simp [start, above] at ha),
    doneAll := fun hd => (by simp [start] at hd) }

theorem inv_step {L0 : List Nat} {s : St} (inv : Inv L0 s) (st : Step) : Inv L0 (step s st) := by
  cases st with
  | ins k =>
    simp only [step]
    split
    · exact inv
    · rename_i hk
      exact { sortedL := pairwise_insertSorted inv.sortedL hk, sortedV := inv.sortedV,
              vInL := fun v hv => mem_insertSorted.mpr (Or.inr (inv.vInL v hv)), vBelow := inv.vBelow,
              curInL := (by
                rcases inv.curInL with h | ⟨c, h, hc⟩
                · exact Or.inl h
                · exact Or.inr ⟨c, h, mem_insertSorted.mpr (Or.inr hc)⟩),
              l0InL := fun x hx => mem_insertSorted.mpr (Or.inr (inv.l0InL x hx)), l0Seen := inv.l0Seen, doneAll := inv.doneAll }
  | adv =>
    simp only [step]
    split
    · exact inv
    · rename_i hd
      split
      · rename_i x hf
        have hpx : above s.cur x = true := List.find?_some hf
        have hxL : x ∈ s.L := List.mem_of_find?_eq_some hf
        have vlt : ∀ v ∈ s.V, v < x := by
          intro v hv
          have hb := inv.vBelow v hv
          cases hc : s.cur with
          | none => rw [hc] at hb; simp [above] at hb
          | some c => rw [hc] at hb hpx; simp [above] at hb hpx; omega
        exact {
          sortedL := inv.sortedL,
          sortedV := (by
            rw [List.pairwise_append]
            refine ⟨inv.sortedV, List.pairwise_singleton _ _, ?_⟩
            intro a ha b hb
            rw [List.mem_singleton] at hb
            subst hb
            exact vlt a ha),
          vInL := (by
            intro v hv
            rcases List.mem_append.mp hv with h | h
            · exact inv.vInL v h
            · rw [List.mem_singleton] at h; subst h; exact hxL),
          vBelow := (by
            intro v hv
            rcases List.mem_append.mp hv with h | h
            · have := vlt v h; simp [above]; omega
            · rw [List.mem_singleton] at h; subst h; simp [above]),
          curInL := Or.inr ⟨x, rfl, hxL⟩,
          l0InL := inv.l0InL,
          l0Seen := (by
            intro k hk hab
            simp [above] at hab
            cases hck : above s.cur k with
            | false => exact List.mem_append.mpr (Or.inl (inv.l0Seen k hk hck))
            | true =>
              have := first_le inv.sortedL hf (inv.l0InL k hk) hck
              have : k = x := by omega
              subst this
              exact List.mem_append.mpr (Or.inr (List.mem_singleton.mpr rfl))),
          doneAll := (by intro h; simp at hd; rw [hd] at h; cases h) }
      · rename_i hf
        rw [List.find?_eq_none] at hf
        exact { sortedL := inv.sortedL, sortedV := inv.sortedV, vInL := inv.vInL, vBelow := inv.vBelow, curInL := inv.curInL,
                l0InL := inv.l0InL, l0Seen := inv.l0Seen,
                doneAll := fun _ k hk => inv.l0Seen k hk (by
                  have := hf k (inv.l0InL k hk)
                  simpa using this) }

theorem inv_run {L0 : List Nat} : ∀ (sched : List Step) {s : St}, Inv L0 s → Inv L0 (run s sched) := by
  intro sched
  induction sched with
  | nil => intro s h; exact h
  | cons a r ih => intro s h; exact ih (inv_step h a)

/-- **reader_sees_sorted_superset.**  A reader starts a level-0 traversal at the head while the keys `L0` (ascending) are
    linked; the (single) writer's publications `ins k` and the reader's link loads `adv` interleave arbitrarily
    (`sched`).  Then the keys the reader visits are strictly increasing, every visited key is linked, and if the reader
    reached the end of the list it has visited every key of `L0` — every node whose insert completed before the
    traversal began. -/
theorem reader_sees_sorted_superset (L0 : List Nat) (h0 : L0.Pairwise (· < ·)) (sched : List Step) :
    let s := run (start L0) sched
    s.V.Pairwise (· < ·) ∧ (∀ v ∈ s.V, v ∈ s.L) ∧ (s.done = true → ∀ k ∈ L0, k ∈ s.V) :=
  let inv := inv_run sched (inv_start h0)
  ⟨inv.sortedV, inv.vInL, inv.doneAll⟩

/-- non-vacuity: keys 10 and 30 linked; the writer links 20 after the reader passed 10 and 5 after it passed the head;
    the reader sees 10, 20, 30 (a sorted superset of {10, 30}) -/
example : (run (start [10, 30]) [.adv, .ins 20, .ins 5, .adv, .adv, .adv]).V = [10, 20, 30] ∧
    (run (start [10, 30]) [.adv, .ins 20, .ins 5, .adv, .adv, .adv]).done = true := by decide

end Lcdb.C10
