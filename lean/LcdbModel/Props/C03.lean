/-
  C03 — a process crash (kill; the operating system survives) loses nothing that was acknowledged
  (storage-protocol level).

  The kill image contains every byte written.  Under `Conforms t`:
    * `kill_recovers`: once some batch was acknowledged, recovery of the kill image succeeds,
    * `kill_durable` : every acknowledged batch (sync or not) is replayed, or belongs to a log the recovered
                       version has retired,
    * `kill_order`   : the replayed batches are a sublist of the batches in the order they were appended
                       (so relative order is preserved), `kill_order_pair` spells that out for two batches.
-/
import LcdbModel.Props.C02

namespace Lcdb.C03
open Lcdb.Disk Lcdb.C02

theorem replayed_mem' {img : Image} {n b ln : Nat} {recs : List Rec}
    (him : imgLookup img (.log n) = some recs) (hm : Rec.batch b ∈ recs) (hn : ln ≤ n) : b ∈ replayedOf img ln := by
  unfold replayedOf
  rw [List.mem_flatMap]
  refine ⟨n, ?_, ?_⟩
  · rw [(List.mergeSort_perm _ _).mem_iff, List.mem_filter]
    exact ⟨mem_logNumbers him, by simpa using hn⟩
  · rw [him]; exact mem_batchesOf hm

/-- what recovery of the kill image computes, in terms of the invariant's candidates -/
theorem kill_recover_eq {t : List Ev} (hI : Inv t)
    (hcur : (lookup (dirAt (World.run t) (World.run t).dirOps.length) .current).isSome) :
    ∃ v ln, Cand (World.run t) (World.run t).dirOps.length v ∧ v.logNum = some ln ∧
      recover (killImage (World.run t)) = some ⟨ln, v.tables, replayedOf (killImage (World.run t)) ln⟩ := by
  have hw := WInv.run t
  obtain ⟨_, _, v, ln, hc, hln, _, _, _, _, hr⟩ :=
    recover_of_image hw hI.a1 hI.a2 (inRange_len hw) hcur (killImage_imgAt hw)
  exact ⟨v, ln, hc, hln, hr⟩

/-- if some batch was acknowledged (sync or not), recovery after a process kill succeeds -/
theorem kill_recovers (t : List Ev) (h : Conforms t) (n : Nat) (ha : ackedAll (t.take n) ≠ []) :
    ∃ r, recover (killImage (World.run (t.take n))) = some r := by
  have hI := Inv.of_conforms _ (conforms_prefix h n)
  obtain ⟨v, ln, _, _, hr⟩ := kill_recover_eq hI (hI.e2 ha)
  exact ⟨_, hr⟩

/-- every acknowledged batch is replayed after a process kill, or its log was retired by the recovered version -/
theorem kill_durable (t : List Ev) (h : Conforms t) (n : Nat) :
    ∀ r, recover (killImage (World.run (t.take n))) = some r →
      ∀ b ∈ ackedAll (t.take n), b ∈ r.replayed ∨ ∃ l, logOfBatch t b = some l ∧ l < r.logNum := by
  intro r hr b hb
  have hI := Inv.of_conforms _ (conforms_prefix h n)
  have hw := WInv.run (t.take n)
  obtain ⟨v, ln, hc, hln, hr'⟩ := kill_recover_eq hI (hI.e2 (List.ne_nil_of_mem hb))
  rw [hr'] at hr
  have : r = ⟨ln, v.tables, replayedOf (killImage (World.run (t.take n))) ln⟩ := (Option.some.inj hr).symm
  subst this
  obtain ⟨l, hl, hsafe⟩ := hI.bK b hb
  rcases hsafe v hc with ⟨ln', hln', hlt⟩ | ⟨id, body, hlk, hbd, hm⟩
  · right
    rw [hln] at hln'
    have : ln = ln' := Option.some.inj hln'
    subst this
    exact ⟨l, logOfBatch_take hl, hlt⟩
  · by_cases hlt : l < ln
    · right; exact ⟨l, logOfBatch_take hl, hlt⟩
    · left
      rw [dirAt_len hw] at hlk
      exact replayed_mem' (killImage_lookup hw hlk hbd) hm (by omega)


/-- the batches replayed after a process kill appear in the order in which they were appended to the logs
    (within each log in append order, logs in increasing number — which is creation order):
    `r.replayed` is a sublist of the list of all appended batches -/
theorem kill_order (t : List Ev) (h : Conforms t) (n : Nat) :
    ∀ r, recover (killImage (World.run (t.take n))) = some r → r.replayed.Sublist (appended (t.take n)) := by
  intro r hr
  have hc := conforms_prefix h n
  rw [recover_replayed hr]
  exact replayed_sublist (Inv.of_conforms _ hc) (OInv.of_conforms _ hc) (killImage_imgAt (WInv.run _)) _

/-- every batch id is appended at most once -/
theorem appended_mem_logOf : ∀ (t : List Ev) (b : Nat), b ∈ appended t → (logOfBatch t b).isSome := by
  intro t
  induction t using snoc_induction with
  | nil => intro b h; simp [appended] at h
  | snoc t e ih =>
    intro b h
    rw [appended_snoc, List.mem_append] at h
    rw [logOfBatch_snoc]
    rcases h with h | h
    · have := ih b h
      cases hl : logOfBatch t b with
      | none => rw [hl] at this; cases this
      | some x => rfl
    · rcases ev_class e with ⟨n, b', he⟩ | ⟨n, he⟩ | ⟨h1, _, _⟩
      · subst he
        simp [appended] at h
        subst h
        cases logOfBatch t b <;> simp [logOfBatch]
      · subst he; simp [appended] at h
      · rw [h1] at h; simp at h

theorem appended_nodup : ∀ (t : List Ev), Conforms t → (appended t).Nodup := by
  intro t
  induction t using snoc_induction with
  | nil => intro _; simp [appended]
  | snoc t e ih =>
    intro hc
    obtain ⟨h0, pre, _⟩ := conforms_snoc hc
    rw [appended_snoc, List.nodup_append]
    refine ⟨ih h0, ?_, ?_⟩
    · rcases ev_class e with ⟨n, b', he⟩ | ⟨n, he⟩ | ⟨h1, _, _⟩
      · subst he; simp [appended]
      · subst he; simp [appended]
      · rw [h1]; simp
    · intro a ha b hb
      rcases ev_class e with ⟨n, b', he⟩ | ⟨n, he⟩ | ⟨h1, _, _⟩
      · subst he
        simp [appended] at hb
        subst hb
        obtain ⟨hfresh, _, _⟩ := pre_append_batch pre
        rw [(Inv.of_conforms _ h0).logOf] at hfresh
        intro hab; subst hab
        have := appended_mem_logOf t a ha
        rw [hfresh] at this; cases this
      · subst he; simp [appended] at hb
      · rw [h1] at hb; simp at hb

theorem nodup_pairwise_idxOf : ∀ (L : List Nat), L.Nodup → L.Pairwise (fun a b => L.idxOf a < L.idxOf b) := by
  intro L
  induction L with
  | nil => intro _; simp
  | cons x L ih =>
    intro hn
    rw [List.nodup_cons] at hn
    rw [List.pairwise_cons]
    constructor
    · intro b hb
      have : (x == b) = false := by
        have : x ≠ b := fun h => hn.1 (h ▸ hb)
        simpa using this
      simp [List.idxOf_cons, this]
    · apply (ih hn.2).imp_of_mem
      intro a b ha hb hab
      have h1 : (x == a) = false := by
        have : x ≠ a := fun h => hn.1 (h ▸ ha)
        simpa using this
      have h2 : (x == b) = false := by
        have : x ≠ b := fun h => hn.1 (h ▸ hb)
        simpa using this
      simp only [List.idxOf_cons, h1, h2, cond_false]
      omega

/-- relative order: of two replayed batches, the one that was appended (hence acknowledged by a single writer)
    earlier comes first in `r.replayed` -/
theorem kill_order_pos (t : List Ev) (h : Conforms t) (n : Nat) :
    ∀ r, recover (killImage (World.run (t.take n))) = some r →
      r.replayed.Pairwise (fun a b => (appended (t.take n)).idxOf a < (appended (t.take n)).idxOf b) := by
  intro r hr
  exact (nodup_pairwise_idxOf _ (appended_nodup _ (conforms_prefix h n))).sublist (kill_order t h n r hr)

end Lcdb.C03
