/-
  C04 at the level of the concurrency protocol: the updates of one batch, and of one commit group, become visible to
  readers together. (`Lcdb.C04` states atomicity of a batch inside the LSM model; this file is the protocol part: the
  sequence that makes a group visible is published in one step, and readers only ever capture published sequences.)
-/
import LcdbModel.Props.C08

namespace Lcdb.C04Conc
open Lcdb.Conc Lcdb.C08

/-- The history changes only in `wCommit` steps (without a sync failure), by appending the batches of the whole
    group at once, together with the publication of the sequence and the ghost record of the group. -/
theorem committed_changes_only_in_commit {ws : List Writer} {rs : List Reader} (hwf : WF ws rs) {st st' : St}
    {l : Label} (h : Reachable ws rs st) (hs : step st l = some st') :
    (st'.committed = st.committed ∧ st'.lastSeq = st.lastSeq ∧ st'.groups = st.groups ∧ ∀ t, l ≠ .wCommit t false) ∨
    (∃ t, l = .wCommit t false ∧ st'.committed = st.committed ++ batchesOf st st.inflight ∧
      st'.lastSeq = st.lastSeq + st.inflight.length ∧ st'.groups = st.groups ++ [batchesOf st st.inflight]) :=
  step_history (reachable_Inv hwf h).q hs

theorem flatten_take_boundary (g : List (List Nat)) (k : Nat) :
    g.flatten.take ((g.take k).flatten).length = (g.take k).flatten := by
  have h : g.flatten = (g.take k).flatten ++ (g.drop k).flatten := by
    rw [← List.flatten_append, List.take_append_drop]
  rw [h, List.take_left' rfl]

/-- 10. The history is the concatenation of the commit groups, and what a reader sees -- whatever sequence it
    captured, at any time -- is a whole number of groups: never a part of a group (hence never a part of a batch). -/
theorem batch_atomic_for_readers {ws : List Writer} {rs : List Reader} (hwf : WF ws rs) {st : St}
    (h : Reachable ws rs st) :
    st.committed = st.groups.flatten ∧
    ∀ r ∈ st.readers, ∀ s, captured r.pc = some s →
      ∃ k, k ≤ st.groups.length ∧ s = ((st.groups.take k).flatten).length ∧ view st s = (st.groups.take k).flatten := by
  have H := (reachable_Inv hwf h).l
  refine ⟨H.flat, ?_⟩
  intro r hr s hc
  obtain ⟨hm, _⟩ := reader_captured hwf h hr hc
  obtain ⟨k, hk, hs⟩ := H.log_bd _ hm
  refine ⟨k, hk, hs, ?_⟩
  unfold view
  rw [H.flat]
  simp only at hs
  rw [hs]; exact flatten_take_boundary _ _

/-- 10'. In a `wCommit` the batches of the group are appended in queue order, each exactly once, and none of them was
    in the history before. -/
theorem group_preserves_batches {ws : List Writer} {rs : List Reader} (hwf : WF ws rs) {st st' : St} {t : Tid}
    (h : Reachable ws rs st) (hs : step st (.wCommit t false) = some st') :
    ∃ members : List Writer,
      (∀ x ∈ members, x ∈ st.writers) ∧
      members.map (·.tid) = st.queue.take members.length ∧ members.map (·.tid) = st.inflight ∧
      members.head?.map (·.tid) = some t ∧
      st'.committed = st.committed ++ members.map (·.batch) ∧
      st'.lastSeq = st.lastSeq + members.length ∧
      (members.map (·.batch)).Nodup ∧ ∀ x ∈ members, x.batch ∉ st.committed := by
  have H := reachable_Inv hwf h
  obtain ⟨w, hg, hpc, hi, _⟩ := step_wCommit hs
  rcases step_history H.q hs with ⟨_, _, _, hne⟩ | ⟨t', ht', hc, hl, _⟩
  · exact absurd rfl (hne t)
  have hex : ∀ m ∈ st.inflight, ∃ x ∈ st.writers, x.tid = m := fun m hm => H.q.qmem m (H.q.pfx.subset hm)
  have hmem : ∀ x ∈ st.inflight.filterMap (getW st), x ∈ st.writers ∧ x.tid ∈ st.inflight := by
    intro x hx
    obtain ⟨m, hm, hgm⟩ := List.mem_filterMap.1 hx
    obtain ⟨a, b⟩ := getW_some hgm
    exact ⟨a, by rw [b]; exact hm⟩
  have htid : (st.inflight.filterMap (getW st)).map (·.tid) = st.inflight := by
    have : ∀ l : List Tid, (∀ m ∈ l, ∃ x ∈ st.writers, x.tid = m) → (l.filterMap (getW st)).map (·.tid) = l := by
      intro l
      induction l with
      | nil => intro _; rfl
      | cons m l ih =>
        intro hl
        obtain ⟨x, hx, hxm⟩ := hl m (by simp)
        have := getW_of_mem H.q.wnodup hx
        rw [hxm] at this
        simp only [List.filterMap_cons, this, List.map_cons, hxm]
        rw [ih (fun m' hm' => hl m' (by simp [hm']))]
    exact this _ hex
  have hlen : (st.inflight.filterMap (getW st)).length = st.inflight.length := by
    rw [← List.length_map (f := fun x : Writer => x.tid), htid]
  have hbat : (st.inflight.filterMap (getW st)).map (·.batch) = batchesOf st st.inflight := by
    rw [batchesOf, List.map_filterMap]
  have hgN : st.inflight.Nodup := List.Nodup.sublist H.q.pfx.sublist H.q.qnodup
  refine ⟨st.inflight.filterMap (getW st), fun x hx => (hmem x hx).1, ?_, htid, ?_, by rw [hbat]; exact hc,
    by rw [hlen]; exact hl, ?_, ?_⟩
  · rw [htid, hlen]; exact List.prefix_iff_eq_take.1 H.q.pfx
  · rw [← List.head?_map, htid]; exact hi
  · rw [hbat, List.nodup_iff_count]
    intro b
    by_cases hb : b ∈ batchesOf st st.inflight
    · rw [← hbat] at hb
      obtain ⟨x, hx, rfl⟩ := List.mem_map.1 hb
      rw [batchesOf, count_batches H.q.wnodup H.l.batches (hmem x hx).1 _ hgN]
      split <;> omega
    · rw [List.count_eq_zero_of_not_mem hb]; omega
  · intro x hx hb
    obtain ⟨hxw, hxi⟩ := hmem x hx
    have hq := H.q.queued hxw (by simp) (H.q.pfx.subset hxi)
    have hc0 := H.l.wc x hxw
    rw [WC, wCommitted_of_not_done hq.1 (retOk_none_of hq.2.2)] at hc0
    exact (List.count_eq_zero.1 (by simpa using hc0)) hb

/-! ### non-vacuity -/

section Examples
open Lcdb.Conc.Demo

-- reader 12 captured sequence 1 while the group [20, 30] was being written: it sees exactly the first group
example : ∃ k, k ≤ st3.groups.length ∧ (1 : Nat) = ((st3.groups.take k).flatten).length ∧
    view st3 1 = (st3.groups.take k).flatten :=
  (batch_atomic_for_readers wf reach3).2 (st3.readers[1]'(by decide)) (by decide) 1 (by decide)
example : st3.groups = [[10], [20, 30]] ∧ view st3 1 = [10] := by decide
-- the group commit of leader 2 with follower 3
example : ∃ st', step st2 (.wCommit 2 false) = some st' := ⟨_, rfl⟩

end Examples

end Lcdb.C04Conc
