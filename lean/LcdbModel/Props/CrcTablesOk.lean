/-
  T2 obligations: the CRC-32C lookup tables in /repo's current src/util/crc32c.c
  (LcdbModel/Generated/CrcTables.lean, rewritten on every check) are the tables of the
  bitwise-defined CRC-32C -- all 5 x 256 entries, by kernel evaluation.
-/
import LcdbModel.Generated.CrcTables
import LcdbModel.Model.Crc32c
namespace Lcdb.CrcTablesOk
open Lcdb

/-- T2: the C byte table is the bitwise-defined CRC-32C table (all 256 entries) -/
theorem byteExtTable_ok : Generated.byteExtTable = crcTable.map BitVec.toNat := by decide +kernel

/-- stride tables of crc32c_generic: entry i of table k is the register after feeding byte i
    followed by (4*(3-k) + 3)... zero bytes -- stated as: table k = byte table extended by zero bytes -/
def zeroExtend (n : Nat) (l : W32) : W32 := (List.replicate n (0 : UInt8)).foldl crcByteSpec l

theorem strideTables_ok :
    Generated.strideExtTable0 = crcTable.map (fun x => (zeroExtend 12 x).toNat) ∧
    Generated.strideExtTable1 = crcTable.map (fun x => (zeroExtend 13 x).toNat) ∧
    Generated.strideExtTable2 = crcTable.map (fun x => (zeroExtend 14 x).toNat) ∧
    Generated.strideExtTable3 = crcTable.map (fun x => (zeroExtend 15 x).toNat) := by
  refine ⟨?_, ?_, ?_, ?_⟩ <;> decide +kernel

end Lcdb.CrcTablesOk
