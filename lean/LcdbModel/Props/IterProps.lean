/-
  C07 for the iterator stack above blocks: the merging iterator (table/merger.c) and the user
  iterator (db_iter.c, with the generic seek helpers of table/iterator.c).

  (a) `merge_is_cursor`      — the merging iterator over cursors over strictly sorted runs with pairwise
                               distinct internal keys is a cursor over the sorted union, for ANY operation
                               sequence (incl. the re-positioning of the non-current children on a
                               direction change);
  (b) `dbiter_is_map_cursor` — the db_iter.c state machine over any internal iterator that simulates a
                               cursor over a strictly sorted run `r` (kinds ≤ 1) is, for every sequence
                               `s` and ANY sequence of the nine public operations, positioned exactly
                               where `mapCursorStep` over `visibleMap c r s` is, with the same key and
                               value, status OK — forward, backward and all direction changes;
  (c) corollaries             — forward scan = the live keys, each exactly once, in comparator order;
                               backward scan = its reverse; the iterator agrees with `view` (= `get`);
  (d) `dbiter_over_merge`    — composition: DBIter over MergeIter over the runs of a database = map cursor
                               over `visibleMap c (all entries) s`;
  (e) totality                — every statement above includes "the run does not fault" (`= some st'`):
                               no `next`/`prev`/`key` on an invalid internal iterator, and fuel
                               `total length + 2` suffices for every loop.
-/
import LcdbModel.Lemmas.DbIterImpl
import LcdbModel.Lemmas.DbIterTotal
import LcdbModel.Lemmas.MergeIter
import LcdbModel.Lemmas.MergeTotal
namespace Lcdb.C07x
open Lcdb Lcdb.Lsm Lcdb.CmpBasic Lcdb.DbIt Lcdb.MapCursor

/-! ### simulations lift to operation sequences -/

theorem InternalIter.Sim.apply {σ τ : Type} {I₁ : InternalIter σ} {I₂ : InternalIter τ} {R : σ → τ → Prop}
    (hsim : InternalIter.Sim I₁ I₂ R) (op : InternalOp) (a : σ) (b : τ) (h : R a b) :
    ∃ a' b', I₁.apply op a = some a' ∧ I₂.apply op b = some b' ∧ R a' b' := by
  have hv := hsim.valid a b h
  cases op with
  | first => exact hsim.first a b h
  | last => exact hsim.last a b h
  | seek k pk => exact hsim.seek k pk a b h
  | next =>
    simp only [InternalIter.apply, ← hv]
    cases hva : I₁.valid a with
    | false => exact ⟨a, b, by simp, by simp, h⟩
    | true => simpa using hsim.next a b h hva
  | prev =>
    simp only [InternalIter.apply, ← hv]
    cases hva : I₁.valid a with
    | false => exact ⟨a, b, by simp, by simp, h⟩
    | true => simpa using hsim.prev a b h hva

theorem InternalIter.Sim.run {σ τ : Type} {I₁ : InternalIter σ} {I₂ : InternalIter τ} {R : σ → τ → Prop}
    (hsim : InternalIter.Sim I₁ I₂ R) (ops : List InternalOp) (a : σ) (b : τ) (h : R a b) :
    ∃ a' b', I₁.run ops a = some a' ∧ I₂.run ops b = some b' ∧ R a' b' := by
  induction ops generalizing a b with
  | nil => exact ⟨a, b, rfl, rfl, h⟩
  | cons op ops ih =>
    obtain ⟨a1, b1, e1, e2, h1⟩ := InternalIter.Sim.apply hsim op a b h
    obtain ⟨a2, b2, e3, e4, h2⟩ := ih a1 b1 h1
    exact ⟨a2, b2, by simp [InternalIter.run, e1, e3], by simp [InternalIter.run, e2, e4], h2⟩

/-! ### (a) the merging iterator -/

/-- children of a freshly created merging iterator: one unpositioned OK cursor per run -/
def freshChildren (runs : List Run) : List MChild := runs.map fun r => { run := r, st := .ok, pos := none }

/-- **merge_is_cursor.**  For children that are cursors over strictly sorted runs with pairwise distinct
    internal keys, after ANY operation sequence the merging iterator has not faulted and is valid iff the
    reference cursor over the sorted union `mergedRun c runs` is, at the same entry; its status is OK. -/
theorem merge_is_cursor (c : Cmp) (runs : List Run) (hs : ∀ r ∈ runs, RunSorted c r)
    (hd : DistinctKeys c runs) (ops : List InternalOp) :
    ∃ mi p, (mergeIterI c).run ops (mergeCreate (freshChildren runs)) = some mi ∧
      (runIter c (mergedRun c runs)).run ops none = some p ∧
      mi.valid = (runEntry (mergedRun c runs) p).isSome ∧
      mi.entry = runEntry (mergedRun c runs) p ∧ mi.status = .ok := by
  obtain ⟨mi, p, h1, h2, hrel⟩ := InternalIter.Sim.run (Merge.merge_sim c runs hs hd) ops _ none
    (Merge.mergeRel_create c runs)
  obtain ⟨g1, g2, g3⟩ := Merge.mergeRel_observe hs hd hrel
  exact ⟨mi, p, h1, h2, g1, g2, g3⟩

/-- the sorted union really is the sorted union: a permutation of all entries, strictly sorted -/
theorem mergedRun_spec (c : Cmp) (runs : List Run) (hd : DistinctKeys c runs) :
    (mergedRun c runs).Perm runs.flatten ∧ RunSorted c (mergedRun c runs) :=
  ⟨Merge.mergedRun_perm c runs, Merge.mergedRun_sorted c runs hd⟩

/-- **merge_no_fault.**  Whatever the children hold (unsorted runs, the same internal key in several
    children, error children) no operation sequence makes the merging iterator fault: `mi->current`, when not
    NULL, always designates a valid child. -/
theorem merge_no_fault (c : Cmp) (children : List MChild) (ops : List InternalOp) :
    ∃ mi, (mergeIterI c).run ops (mergeCreate children) = some mi := by
  obtain ⟨mi, h, _⟩ := Merge.run_total c ops (mergeCreate children) (fun i hi => by cases hi)
  exact ⟨mi, h⟩

/-! ### (b) the user iterator -/

/-- what "the iterator is where the sorted map dictates" means: same validity, same key, same value, status OK -/
def Shows {σ : Type} (I : InternalIter σ) (st : DbIter σ) (m : List (Bytes × String)) (ms : DbIterState) : Prop :=
  st.isValid = (mapCursorGet m ms).isSome ∧ st.getStatus I = .ok ∧
    ∀ k v, mapCursorGet m ms = some (k, v) → st.key? I = some k ∧ st.value? I = some v

theorem run_eq_iterOps_run {σ : Type} (I : InternalIter σ) (c : Cmp) (s fuel : Nat) (ops : List IterOp)
    (st : DbIter σ) :
    DbIter.run I c s fuel ops st = (DbIter.ops I c s fuel).run (ops.map DbIter.toBlockOp) st := by
  induction ops generalizing st with
  | nil => rfl
  | cons op ops ih =>
    simp only [DbIter.run, List.map_cons, IterOps.run, DbIter.apply]
    cases (DbIter.ops I c s fuel).apply (DbIter.toBlockOp op) st with
    | none => rfl
    | some st' => exact ih st'

/-- the reference cursor over the keys of a sorted map follows `mapCursorStep` along any op sequence -/
theorem cursor_run_eq_foldl (c : Cmp) (m : List (Bytes × String))
    (hs : m.Pairwise (fun a b => c.compare a.1 b.1 = .lt)) (ops : List IterOp) (p : Option Nat)
    (hp : ∀ i, p = some i → i < m.length) :
    ∃ p', (cursorOps c.compare (m.map (·.1))).run (ops.map DbIter.toBlockOp) p = some p' ∧
      posToState p' = ops.foldl (mapCursorStep c m) (posToState p) := by
  induction ops generalizing p with
  | nil => exact ⟨p, rfl, rfl⟩
  | cons op ops ih =>
    obtain ⟨p1, h1, hb, h2⟩ := cursor_apply_eq_mapCursorStep c m hs op p hp
    obtain ⟨p2, h3, h4⟩ := ih p1 hb
    refine ⟨p2, by simp [IterOps.run, h1, h3], ?_⟩
    rw [List.foldl_cons, ← h2]; exact h4

theorem keysOf_eq_map (s : Nat) (r : Run) : keysOf s r = (liveMap s r).map (·.1) := by
  simp [keysOf, liveMap, List.map_map, Function.comp_def]

/-- **dbiter_is_map_cursor** (general form).  `I` is any internal iterator that simulates a cursor over the
    strictly sorted run `r` through `R` (e.g. the plain cursor itself, or the merging iterator); entries have
    kind ≤ 1.  For every sequence `s`, fuel ≥ `r.length + 2` and ANY sequence of public operations
    (first/last/next/prev/seek/seek_ge/gt/le/lt; `next`/`prev` only issued when valid) the db_iter.c state
    machine does not fault and ends exactly where `mapCursorStep` over `visibleMap c r s` ends, showing the
    same key and value, with status OK. -/
theorem dbiter_is_map_cursor_gen {σ : Type} {I : InternalIter σ} {c : Cmp} {r : Run}
    {R : σ → Option Nat → Prop} (hsim : InternalIter.Sim I (runIter c r) R) (hs : RunSorted c r)
    (hk : ∀ e ∈ r, e.kind ≤ 1) (s : Nat) {fuel : Nat} (hfuel : r.length + 2 ≤ fuel)
    {it₀ : σ} {p₀ : Option Nat} (h₀ : R it₀ p₀) (ops : List IterOp) :
    ∃ st', DbIter.run I c s fuel ops (DbIter.create it₀) = some st' ∧
      Shows I st' (visibleMap c r s) (ops.foldl (mapCursorStep c (visibleMap c r s)) .invalid) := by
  have hD := dbiter_sim hsim hs hk s hfuel
  have hinit : DRel R s r (DbIter.create it₀) none := ⟨rfl, ⟨p₀, h₀⟩, rfl⟩
  obtain ⟨st', cp', h1, h2, hrel⟩ := hD.run (ops.map DbIter.toBlockOp) (fun _ _ _ _ => trivial) _ none hinit
  refine ⟨st', by rw [run_eq_iterOps_run]; exact h1, ?_⟩
  rw [visibleMap_eq_live hs hk]
  obtain ⟨p', h3, h4⟩ := cursor_run_eq_foldl c (liveMap s r) (liveMap_sorted hs) ops none (fun i hi => by cases hi)
  rw [← keysOf_eq_map, h2] at h3
  cases h3
  have h4' : ops.foldl (mapCursorStep c (liveMap s r)) .invalid = posToState cp' := h4.symm
  rw [h4', Shows, mapCursorGet_posToState]
  obtain ⟨g1, g2, g3⟩ := drel_observe hsim hrel
  refine ⟨?_, g2, ?_⟩
  · rw [g1]
    cases cp' with
    | none => rfl
    | some i =>
      obtain ⟨q, hq, _, _⟩ := g3 i rfl
      simp [liveMap, hq]
  · intro k v hkv
    cases cp' with
    | none => cases hkv
    | some i =>
      obtain ⟨q, hq, hkey, hval⟩ := g3 i rfl
      simp only [Option.bind_some, liveMap, List.getElem?_map, hq, Option.map_some, Option.some.injEq,
        Prod.mk.injEq] at hkv
      rw [hkey, hval, hkv.1, hkv.2]
      exact ⟨rfl, rfl⟩

/-- a cursor over a run simulates itself -/
theorem runIter_self_sim (c : Cmp) (r : Run) :
    InternalIter.Sim (runIter c r) (runIter c r) (fun a b => a = b) where
  valid a b h := by rw [h]
  entry a b h := by rw [h]
  status a b h := by rw [h]
  first a b h := ⟨_, _, rfl, rfl, rfl⟩
  last a b h := ⟨_, _, rfl, rfl, rfl⟩
  seek k pk a b h := ⟨_, _, rfl, rfl, rfl⟩
  next a b h hv := by
    subst h
    cases a with
    | none => cases hv
    | some i =>
      have hi : i < r.length := by
        rcases Nat.lt_or_ge i r.length with h | h
        · exact h
        · simp [runIter, runEntry, List.getElem?_eq_none h] at hv
      have : (runIter c r).next (some i) = some (if i + 1 < r.length then some (i + 1) else none) := by
        simp [runIter, runNext, hi]
      exact ⟨_, _, this, this, rfl⟩
  prev a b h hv := by
    subst h
    cases a with
    | none => cases hv
    | some i =>
      have hi : i < r.length := by
        rcases Nat.lt_or_ge i r.length with h | h
        · exact h
        · simp [runIter, runEntry, List.getElem?_eq_none h] at hv
      have : ∃ x, (runIter c r).prev (some i) = some x := by
        simp [runIter, runPrev, hi]
      obtain ⟨x, hx⟩ := this
      exact ⟨_, _, hx, hx, rfl⟩

/-- **dbiter_is_map_cursor.**  The user iterator over a plain cursor over one strictly sorted run. -/
theorem dbiter_is_map_cursor (c : Cmp) (r : Run) (hs : RunSorted c r) (hk : ∀ e ∈ r, e.kind ≤ 1) (s : Nat)
    (ops : List IterOp) :
    ∃ st', DbIter.run (runIter c r) c s (dbIterFuel [r]) ops (DbIter.create none) = some st' ∧
      Shows (runIter c r) st' (visibleMap c r s) (ops.foldl (mapCursorStep c (visibleMap c r s)) .invalid) :=
  dbiter_is_map_cursor_gen (runIter_self_sim c r) hs hk s (by simp [dbIterFuel]) (rfl : (none : Option Nat) = none) ops

/-! ### (c) corollaries -/

theorem step_next_cursorOfIdx (c : Cmp) (m : List (Bytes × String)) (k : Nat) :
    mapCursorStep c m (cursorOfIdx m k) .next = cursorOfIdx m (k + 1) := by
  unfold cursorOfIdx
  by_cases h : k < m.length
  · simp [h, mapCursorStep, cursorOfIdx]
  · have : ¬ k + 1 < m.length := by omega
    simp [h, this, mapCursorStep]

/-- where the specification cursor is after `first, next^k` -/
theorem foldl_first_next (c : Cmp) (m : List (Bytes × String)) (k : Nat) :
    (IterOp.first :: List.replicate k IterOp.next).foldl (mapCursorStep c m) .invalid = cursorOfIdx m k := by
  induction k with
  | zero => rfl
  | succ k ih =>
    rw [List.replicate_succ', ← List.cons_append, List.foldl_append, ih]
    exact step_next_cursorOfIdx c m k

/-- position `len - 1 - k` counted from the end, invalid beyond the front -/
def cursorFromEnd (m : List (Bytes × String)) (k : Nat) : DbIterState :=
  if k < m.length then .at (m.length - 1 - k) else .invalid

theorem step_prev_cursorFromEnd (c : Cmp) (m : List (Bytes × String)) (k : Nat) :
    mapCursorStep c m (cursorFromEnd m k) .prev = cursorFromEnd m (k + 1) := by
  unfold cursorFromEnd
  by_cases h : k < m.length
  · by_cases h' : k + 1 < m.length
    · have h0 : (m.length - 1 - k == 0) = false := by
        simp only [beq_eq_false_iff_ne, ne_eq]; omega
      simp only [h, h', if_true, mapCursorStep, h0, Bool.false_eq_true, if_false]
      congr 1
    · have h0 : (m.length - 1 - k == 0) = true := by
        simp only [beq_iff_eq]; omega
      simp [h, h', mapCursorStep, h0]
  · have : ¬ k + 1 < m.length := by omega
    simp [h, this, mapCursorStep]

theorem foldl_last_prev (c : Cmp) (m : List (Bytes × String)) (k : Nat) :
    (IterOp.last :: List.replicate k IterOp.prev).foldl (mapCursorStep c m) .invalid = cursorFromEnd m k := by
  induction k with
  | zero =>
    simp only [List.replicate_zero, List.foldl_cons, List.foldl_nil, mapCursorStep, cursorFromEnd]
    cases m with
    | nil => rfl
    | cons a t => simp
  | succ k ih =>
    rw [List.replicate_succ', ← List.cons_append, List.foldl_append, ih]
    exact step_prev_cursorFromEnd c m k

section Corollaries
variable {σ : Type} {I : InternalIter σ} {c : Cmp} {r : Run} {R : σ → Option Nat → Prop}

/-- **forward scan**: `first` followed by `k` times `next` shows entry `k` of `visibleMap c r s` — every
    live key exactly once, in comparator order (see `visibleMap_strictly_sorted`) — and is invalid from
    `k = length` on. -/
theorem dbiter_forward_scan (hsim : InternalIter.Sim I (runIter c r) R) (hs : RunSorted c r)
    (hk : ∀ e ∈ r, e.kind ≤ 1) (s : Nat) {fuel : Nat} (hfuel : r.length + 2 ≤ fuel)
    {it₀ : σ} {p₀ : Option Nat} (h₀ : R it₀ p₀) (k : Nat) :
    ∃ st', DbIter.run I c s fuel (.first :: List.replicate k .next) (DbIter.create it₀) = some st' ∧
      Shows I st' (visibleMap c r s) (cursorOfIdx (visibleMap c r s) k) := by
  have := dbiter_is_map_cursor_gen hsim hs hk s hfuel h₀ (.first :: List.replicate k .next)
  rw [foldl_first_next] at this
  exact this

/-- **backward scan**: `last` followed by `k` times `prev` shows entry `length - 1 - k`: the forward scan
    reversed. -/
theorem dbiter_backward_scan (hsim : InternalIter.Sim I (runIter c r) R) (hs : RunSorted c r)
    (hk : ∀ e ∈ r, e.kind ≤ 1) (s : Nat) {fuel : Nat} (hfuel : r.length + 2 ≤ fuel)
    {it₀ : σ} {p₀ : Option Nat} (h₀ : R it₀ p₀) (k : Nat) :
    ∃ st', DbIter.run I c s fuel (.last :: List.replicate k .prev) (DbIter.create it₀) = some st' ∧
      Shows I st' (visibleMap c r s) (cursorFromEnd (visibleMap c r s) k) := by
  have := dbiter_is_map_cursor_gen hsim hs hk s hfuel h₀ (.last :: List.replicate k .prev)
  rw [foldl_last_prev] at this
  exact this

/-- **forward = reverse of backward**: step `k` of the forward scan and step `length - 1 - k` of the
    backward scan show the same key and value. -/
theorem forward_eq_reverse_backward (hsim : InternalIter.Sim I (runIter c r) R) (hs : RunSorted c r)
    (hk : ∀ e ∈ r, e.kind ≤ 1) (s : Nat) {fuel : Nat} (hfuel : r.length + 2 ≤ fuel)
    {it₀ : σ} {p₀ : Option Nat} (h₀ : R it₀ p₀) (k : Nat) (hk' : k < (visibleMap c r s).length) :
    ∃ st₁ st₂,
      DbIter.run I c s fuel (.first :: List.replicate k .next) (DbIter.create it₀) = some st₁ ∧
      DbIter.run I c s fuel (.last :: List.replicate ((visibleMap c r s).length - 1 - k) .prev)
        (DbIter.create it₀) = some st₂ ∧
      st₁.isValid = true ∧ st₂.isValid = true ∧ st₁.key? I = st₂.key? I ∧ st₁.value? I = st₂.value? I := by
  obtain ⟨st₁, h1, g1, _, g3⟩ := dbiter_forward_scan hsim hs hk s hfuel h₀ k
  obtain ⟨st₂, h2, f1, _, f3⟩ := dbiter_backward_scan hsim hs hk s hfuel h₀ ((visibleMap c r s).length - 1 - k)
  have e1 : cursorOfIdx (visibleMap c r s) k = .at k := by simp [cursorOfIdx, hk']
  have e2 : cursorFromEnd (visibleMap c r s) ((visibleMap c r s).length - 1 - k) = .at k := by
    unfold cursorFromEnd
    rw [if_pos (by omega)]
    congr 1; omega
  rw [e1] at g1 g3
  rw [e2] at f1 f3
  have hget : mapCursorGet (visibleMap c r s) (.at k) = some (visibleMap c r s)[k] := by
    simp [mapCursorGet, hk']
  rw [hget] at g1 f1 g3 f3
  obtain ⟨a1, a2⟩ := g3 _ _ rfl
  obtain ⟨b1, b2⟩ := f3 _ _ rfl
  exact ⟨st₁, st₂, h1, h2, g1, f1, a1.trans b1.symm, a2.trans b2.symm⟩

/-- **iter_agrees_get**: whatever the operation sequence, a valid iterator shows a key `k` and the value
    `view c r k s` — what `ldb_get` at sequence `s` answers for `k` (C01: `get = view`). -/
theorem iter_agrees_get (hsim : InternalIter.Sim I (runIter c r) R) (hs : RunSorted c r)
    (hk : ∀ e ∈ r, e.kind ≤ 1) (s : Nat) {fuel : Nat} (hfuel : r.length + 2 ≤ fuel)
    {it₀ : σ} {p₀ : Option Nat} (h₀ : R it₀ p₀) (ops : List IterOp) :
    ∃ st', DbIter.run I c s fuel ops (DbIter.create it₀) = some st' ∧
      (st'.isValid = true → ∃ k v, st'.key? I = some k ∧ st'.value? I = some v ∧ view c r k s = some v) := by
  obtain ⟨st', h1, g1, _, g3⟩ := dbiter_is_map_cursor_gen hsim hs hk s hfuel h₀ ops
  refine ⟨st', h1, fun hv => ?_⟩
  rw [hv] at g1
  cases hget : mapCursorGet (visibleMap c r s) (ops.foldl (mapCursorStep c (visibleMap c r s)) .invalid) with
  | none => rw [hget] at g1; cases g1
  | some kv =>
    obtain ⟨k, v⟩ := kv
    obtain ⟨a1, a2⟩ := g3 k v hget
    refine ⟨k, v, a1, a2, ?_⟩
    have hmem : (k, v) ∈ visibleMap c r s := by
      cases hms : ops.foldl (mapCursorStep c (visibleMap c r s)) .invalid with
      | invalid => rw [hms] at hget; cases hget
      | «at» i =>
        rw [hms] at hget
        exact List.mem_of_getElem? hget
    exact (VisMap.mem_visibleMap_iff_view c r s k v).mp hmem

/-- in a strictly sorted map, `firstGe` of a key that is present is its index -/
theorem firstGe_of_get (c : Cmp) {m : List (Bytes × String)}
    (hm : m.Pairwise (fun a b => c.compare a.1 b.1 = .lt)) {j : Nat} {k : Bytes} {v : String}
    (h : m[j]? = some (k, v)) : firstGe c m k = j := by
  induction m generalizing j with
  | nil => cases h
  | cons a t ih =>
    have hp := List.pairwise_cons.mp hm
    cases j with
    | zero =>
      simp only [List.getElem?_cons_zero, Option.some.injEq] at h
      subst h
      simp [firstGe, List.takeWhile_cons, compare_refl]
    | succ j =>
      simp only [List.getElem?_cons_succ] at h
      have hlt : c.compare a.1 k = .lt := hp.1 (k, v) (List.mem_of_getElem? h)
      have := ih hp.2 h
      unfold firstGe at this ⊢
      simp [List.takeWhile_cons, hlt, this]

/-- **seek agrees with get**: after any operations, `seek k` lands on `k` exactly when `view c r k s`
    (= what `ldb_get` answers at sequence `s`) is a value, and then shows that value. -/
theorem seek_agrees_get (hsim : InternalIter.Sim I (runIter c r) R) (hs : RunSorted c r)
    (hk : ∀ e ∈ r, e.kind ≤ 1) (s : Nat) {fuel : Nat} (hfuel : r.length + 2 ≤ fuel)
    {it₀ : σ} {p₀ : Option Nat} (h₀ : R it₀ p₀) (ops : List IterOp) (k : Bytes) :
    ∃ st', DbIter.run I c s fuel (ops ++ [.seek k]) (DbIter.create it₀) = some st' ∧
      (∀ v, view c r k s = some v → st'.isValid = true ∧ st'.key? I = some k ∧ st'.value? I = some v) ∧
      (view c r k s = none → ¬ (st'.isValid = true ∧ st'.key? I = some k)) := by
  obtain ⟨st', h1, g1, _, g3⟩ := dbiter_is_map_cursor_gen hsim hs hk s hfuel h₀ (ops ++ [.seek k])
  refine ⟨st', h1, ?_, ?_⟩
  · intro v hv
    have hmem := (VisMap.mem_visibleMap_iff_view c r s k v).mpr hv
    obtain ⟨j, hj⟩ := List.getElem?_of_mem hmem
    have hjl := (List.getElem?_eq_some_iff.mp hj).1
    have hms : (ops ++ [IterOp.seek k]).foldl (mapCursorStep c (visibleMap c r s)) .invalid = .at j := by
      rw [List.foldl_append]
      simp only [List.foldl_cons, List.foldl_nil, mapCursorStep]
      rw [firstGe_of_get c (VisMap.visibleMap_sorted c r s) hj]
      simp [cursorOfIdx, hjl]
    rw [hms] at g1 g3
    have hget : mapCursorGet (visibleMap c r s) (.at j) = some (k, v) := hj
    rw [hget] at g1
    obtain ⟨a1, a2⟩ := g3 k v hget
    exact ⟨g1, a1, a2⟩
  · intro hnone ⟨hv, hkey⟩
    rw [hv] at g1
    cases hget : mapCursorGet (visibleMap c r s)
        ((ops ++ [IterOp.seek k]).foldl (mapCursorStep c (visibleMap c r s)) .invalid) with
    | none => rw [hget] at g1; cases g1
    | some kv =>
      obtain ⟨k', v'⟩ := kv
      obtain ⟨a1, _⟩ := g3 k' v' hget
      rw [hkey] at a1
      cases a1
      have hmem : (k, v') ∈ visibleMap c r s := by
        cases hms : (ops ++ [IterOp.seek k]).foldl (mapCursorStep c (visibleMap c r s)) .invalid with
        | invalid => rw [hms] at hget; cases hget
        | «at» i => rw [hms] at hget; exact List.mem_of_getElem? hget
      rw [(VisMap.mem_visibleMap_iff_view c r s k v').mp hmem] at hnone
      cases hnone

end Corollaries

/-- the keys of the visible map are strictly increasing: no key is shown twice by a scan -/
theorem visibleMap_strictly_sorted (c : Cmp) (es : List Entry) (s : Nat) :
    (visibleMap c es s).Pairwise (fun a b => c.compare a.1 b.1 = .lt) := VisMap.visibleMap_sorted c es s

/-- … and they are exactly the keys `get` finds, with the value `get` returns -/
theorem mem_visibleMap_iff_view (c : Cmp) (es : List Entry) (s : Nat) (k : Bytes) (v : String) :
    (k, v) ∈ visibleMap c es s ↔ view c es k s = some v := VisMap.mem_visibleMap_iff_view c es s k v

/-! ### (d) DBIter over MergeIter -/

/-- no (user key, sequence) pair occurs twice among all entries of all runs (true of a database:
    sequence numbers are unique per write) -/
def SeqDistinct (runs : List Run) : Prop :=
  runs.flatten.Pairwise (fun a b => a.ukey = b.ukey → a.seq ≠ b.seq)

theorem SeqDistinct.distinctKeys {c : Cmp} {runs : List Run} (h : SeqDistinct runs)
    (hk : ∀ r ∈ runs, ∀ e ∈ r, e.kind ≤ 1) : DistinctKeys c runs := by
  unfold DistinctKeys
  unfold SeqDistinct at h
  refine h.imp_of_mem (fun {a b} ha hb hab hc => ?_)
  obtain ⟨ra, hra, hea⟩ := List.mem_flatten.mp ha
  obtain ⟨rb, hrb, heb⟩ := List.mem_flatten.mp hb
  have hka := hk ra hra a hea
  have hkb := hk rb hrb b heb
  obtain ⟨h1, h2⟩ := (Merge.entryCmp_eq_iff c a b).mp hc
  unfold entryLt at h1 h2
  rcases ikLt_trichotomy c a.ukey a.packed b.ukey b.packed with h | ⟨hu, hp⟩ | h
  · rw [h] at h1; cases h1
  · apply hab hu
    simp only [Entry.packed] at hp
    omega
  · rw [h] at h2; cases h2

theorem SeqDistinct.noDup {runs : List Run} (h : SeqDistinct runs) :
    ∀ x ∈ runs.flatten, ∀ y ∈ runs.flatten, x.ukey = y.ukey → x.seq = y.seq → x = y := by
  intro x hx y hy hu hq
  rcases Classical.em (x = y) with heq | hne
  · exact heq
  · exact absurd hq (pairwise_symm_mem h (fun {a b} hab hu' hq' => hab hu'.symm hq'.symm) hx hy hne hu)

/-- **dbiter_over_merge.**  The user iterator over the merging iterator over the runs of a database
    (each strictly sorted, kinds ≤ 1, no (user key, sequence) twice) is, after ANY operation sequence,
    exactly where the sorted map `visibleMap c (all entries) s` dictates, with the same key and value;
    nothing faults and fuel `total length + 2` suffices. -/
theorem dbiter_over_merge (c : Cmp) (runs : List Run) (hs : ∀ r ∈ runs, RunSorted c r)
    (hk : ∀ r ∈ runs, ∀ e ∈ r, e.kind ≤ 1) (hd : SeqDistinct runs) (s : Nat) (ops : List IterOp) :
    ∃ st', DbIter.run (mergeIterI c) c s (dbIterFuel runs) ops
        (DbIter.create (mergeCreate (freshChildren runs))) = some st' ∧
      Shows (mergeIterI c) st' (visibleMap c runs.flatten s)
        (ops.foldl (mapCursorStep c (visibleMap c runs.flatten s)) .invalid) := by
  have hdk : DistinctKeys c runs := hd.distinctKeys hk
  have hperm := Merge.mergedRun_perm c runs
  have hkU : ∀ e ∈ mergedRun c runs, e.kind ≤ 1 := by
    intro e he
    obtain ⟨r, hr, her⟩ := List.mem_flatten.mp (hperm.mem_iff.mp he)
    exact hk r hr e her
  have hmap : visibleMap c (mergedRun c runs) s = visibleMap c runs.flatten s := by
    apply VisMap.visibleMap_perm c hperm
    intro x hx y hy
    exact hd.noDup x (hperm.mem_iff.mp hx) y (hperm.mem_iff.mp hy)
  have := dbiter_is_map_cursor_gen (Merge.merge_sim c runs hs hdk) (Merge.mergedRun_sorted c runs hdk) hkU s
    (fuel := dbIterFuel runs) (by rw [Merge.mergedRun_length]; exact Nat.le_refl _)
    (Merge.mergeRel_create c runs) ops
  rw [hmap] at this
  exact this

/-- … instantiated with the runs of a database state satisfying the LSM invariant: memtable, immutable
    memtable, level-0 files (newest first), one run per deeper level.  (In lcdb the deeper levels are read
    through two-level iterators — another slice shows those are cursors over the level's run.) -/
theorem dbiter_over_db (c : Cmp) (st : DbState) (h : Inv c st) (hd : SeqDistinct (sourceRuns st))
    (s : Nat) (ops : List IterOp) :
    ∃ st', DbIter.run (mergeIterI c) c s (dbIterFuel (sourceRuns st)) ops
        (DbIter.create (mergeCreate (freshChildren (sourceRuns st)))) = some st' ∧
      Shows (mergeIterI c) st' (visibleMap c (sourceRuns st).flatten s)
        (ops.foldl (mapCursorStep c (visibleMap c (sourceRuns st).flatten s)) .invalid) ∧
      ∀ k v, (k, v) ∈ visibleMap c (sourceRuns st).flatten s ↔ view c (allEntries st) k s = some v := by
  obtain ⟨st', h1, h2⟩ := dbiter_over_merge c (sourceRuns st) (sourceRuns_sorted h) (sourceRuns_kinds h) hd s ops
  refine ⟨st', h1, h2, fun k v => ?_⟩
  rw [VisMap.mem_visibleMap_iff_view c _ s k v]
  -- `view` only depends on the newest visible entry, which is the same for both enumerations
  have hperm : (sourceRuns st).flatten.Perm (allEntries st) := by
    rw [sourceRuns_flatten, allEntries_eq h.nlevels]
    exact List.Perm.append_right _ (List.Perm.append_left _
      (List.Perm.flatMap_right _ (List.mergeSort_perm _ _)))
  unfold view
  rw [VisMap.newestVisible_perm c hperm hd.noDup k s]

/-! ### (e) totality without assumptions on the contents -/

/-- **dbiter_total.**  Over an internal iterator that simulates a cursor over an ARBITRARY entry list `r`
    (no order, no bound on the value types: `kind > 1` takes the `ldb_pkey_import` failure path) no sequence
    of public operations faults: the internal iterator's `key`/`next`/`prev` are only used while it is
    valid and fuel `r.length + 2` suffices for every loop of db_iter.c. -/
theorem dbiter_total {σ : Type} {I : InternalIter σ} {c : Cmp} {r : Run} {R : σ → Option Nat → Prop}
    (hsim : InternalIter.Sim I (runIter c r) R) (s : Nat) {fuel : Nat} (hfuel : r.length + 2 ≤ fuel)
    {it₀ : σ} (h₀ : R it₀ none) (ops : List IterOp) :
    ∃ st', DbIter.run I c s fuel ops (DbIter.create it₀) = some st' := by
  obtain ⟨st', h, _⟩ := run_total hsim s hfuel ops (DbIter.create it₀)
    ⟨none, h₀, fun q hq => (by cases hq), fun h => (by cases h)⟩
  exact ⟨st', h⟩

/-- … for the plain cursor over any run -/
theorem dbiter_total_run (c : Cmp) (r : Run) (s : Nat) (ops : List IterOp) :
    ∃ st', DbIter.run (runIter c r) c s (dbIterFuel [r]) ops (DbIter.create none) = some st' :=
  dbiter_total (runIter_self_sim c r) s (by simp [dbIterFuel]) rfl ops

/-- … and for the merging iterator over strictly sorted runs with distinct internal keys, whatever the
    value types (corrupt keys included) -/
theorem dbiter_over_merge_total (c : Cmp) (runs : List Run) (hs : ∀ r ∈ runs, RunSorted c r)
    (hd : DistinctKeys c runs) (s : Nat) (ops : List IterOp) :
    ∃ st', DbIter.run (mergeIterI c) c s (dbIterFuel runs) ops
        (DbIter.create (mergeCreate (freshChildren runs))) = some st' :=
  dbiter_total (Merge.merge_sim c runs hs hd) s (by rw [Merge.mergedRun_length]; exact Nat.le_refl _)
    (Merge.mergeRel_create c runs) ops

/-! ### non-vacuity -/

/-- two runs: `b` has a value (seq 4) under a newer tombstone (seq 6) in another run; `a` is live;
    `c` has only a deletion -/
def exRuns : List Run :=
  [ [⟨[0x61], 5, 1, "a5"⟩, ⟨[0x62], 6, 0, ""⟩, ⟨[0x63], 2, 0, ""⟩],
    [⟨[0x61], 3, 1, "a3"⟩, ⟨[0x62], 4, 1, "b4"⟩, ⟨[0x62], 1, 1, "b1"⟩] ]

example : (∀ r ∈ exRuns, RunSorted .bytewise r) ∧ (∀ r ∈ exRuns, ∀ e ∈ r, e.kind ≤ 1) := by decide
example : SeqDistinct exRuns := by unfold SeqDistinct; decide
example : DistinctKeys .bytewise exRuns := by unfold DistinctKeys; decide

/-- at sequence 5 the tombstone of `b` is invisible: a ↦ a5, b ↦ b4, c absent -/
example : view .bytewise exRuns.flatten [0x61] 5 = some "a5" ∧ view .bytewise exRuns.flatten [0x62] 5 = some "b4" ∧
    view .bytewise exRuns.flatten [0x63] 5 = none := by decide
/-- at sequence 9 `b` is deleted -/
example : view .bytewise exRuns.flatten [0x62] 9 = none := by decide

/-- the machine on the example: last, prev, next (two direction changes) ends on `b` -/
example :
    (DbIter.run (mergeIterI .bytewise) .bytewise 5 (dbIterFuel exRuns) [.last, .prev, .next]
      (DbIter.create (mergeCreate (freshChildren exRuns)))).map
        (fun st => (st.isValid, st.key? (mergeIterI .bytewise), st.value? (mergeIterI .bytewise)))
      = some (true, some [0x62], some "b4") := by decide

end Lcdb.C07x
