/-
  C05 — recovery yields a coherent database (storage-protocol level).

  For every crash image (power loss or kill) of a conforming trace:
    * `recover_subset`  : what recovery replays is, log by log in increasing log number, a PREFIX of the batches
                          appended to that log — it drops at most a tail of each log segment, never invents a batch;
    * `recover_subset_filter` : the same, phrased per log via `logOfBatch`;
    * `recover_sublist` : hence the replayed batches are a sublist of all appended batches in append order.
  Crashing again during the recovery that follows (partial results, see the doc-strings):
    * `recover_idempotent_partial`, `recover_idempotent_kill_partial`: the I/O of a recovery after a process kill is
      just a conforming continuation of the trace, so at every crash point inside it all acknowledged batches survive;
    * `crash_versions_step`: one I/O step adds at most one new recoverable version (old MANIFEST + appended edit, or the
      complete new MANIFEST at the CURRENT switch);
    * `recovery_crash_versions_partial`: while a new MANIFEST is written and installed, every crash image recovers a
      version that was already recoverable before, or — only after the rename — the complete new MANIFEST's version.
-/
import LcdbModel.Props.C03

namespace Lcdb.C05
open Lcdb.Disk Lcdb.C02 Lcdb.C03

/-- what `recover` returns on a crash image, in terms of the invariant's candidates -/
theorem recover_cand {t : List Ev} (hI : Inv t) {j : Nat} (hj : InRange (World.run t) j) {img : Image}
    (hia : ImgAt (World.run t) j img) {r : Recovered} (hr : recover img = some r) :
    ∃ v, Cand (World.run t) j v ∧ v.logNum = some r.logNum ∧ r.tables = v.tables ∧
      r.replayed = replayedOf img r.logNum := by
  have hcur : (lookup (dirAt (World.run t) j) .current).isSome := by
    apply lookup_isSome_of_mem
    rw [← hia.1]
    have : (imgLookup img .current).isSome := by
      unfold recover at hr
      cases hc : imgLookup img .current with
      | none => simp [hc] at hr
      | some x => rfl
    cases hc : imgLookup img .current with
    | none => rw [hc] at this; cases this
    | some x => exact List.mem_map.2 ⟨_, imgLookup_mem hc, rfl⟩
  obtain ⟨_, _, v, ln, hc, hln, _, _, _, _, hr'⟩ :=
    recover_of_image (WInv.run t) hI.a1 hI.a2 hj hcur hia
  rw [hr'] at hr
  have : r = ⟨ln, v.tables, replayedOf img ln⟩ := (Option.some.inj hr).symm
  subst this
  exact ⟨v, hc, hln, rfl, rfl⟩

/-- (4) In every crash image of a conforming trace, recovery replays, for an increasing sequence of log numbers
    `logs` (all ≥ the recovered log number), a prefix `seg l` of the batches that were appended to log `l`. -/
theorem recover_subset (t : List Ev) (h : Conforms t) (n : Nat) (img : Image)
    (hi : IsCrashImage (World.run (t.take n)) img) (r : Recovered) (hr : recover img = some r) :
    ∃ (logs : List Nat) (seg : Nat → List Nat), logs.Pairwise (· < ·) ∧
      (∀ l ∈ logs, r.logNum ≤ l ∧ seg l <+: appendedTo (t.take n) l) ∧
      r.replayed = logs.flatMap seg := by
  have hc := conforms_prefix h n
  obtain ⟨j, _, hia⟩ := (isCrashImage_iff _ _).1 hi
  obtain ⟨h1, h2⟩ := replayed_structure (Inv.of_conforms _ hc) (OInv.of_conforms _ hc) hia r.logNum
  refine ⟨_, fun s => batchesOf ((imgLookup img (.log s)).getD []), h1, ?_, recover_replayed hr⟩
  intro l hl
  obtain ⟨h3, _, h4⟩ := h2 l hl
  exact ⟨h3, h4⟩

/-- the replayed batches are a sublist of the appended batches, in append order, in every crash image -/
theorem recover_sublist (t : List Ev) (h : Conforms t) (n : Nat) (img : Image)
    (hi : IsCrashImage (World.run (t.take n)) img) (r : Recovered) (hr : recover img = some r) :
    r.replayed.Sublist (appended (t.take n)) := by
  have hc := conforms_prefix h n
  obtain ⟨j, _, hia⟩ := (isCrashImage_iff _ _).1 hi
  rw [recover_replayed hr]
  exact replayed_sublist (Inv.of_conforms _ hc) (OInv.of_conforms _ hc) hia _

theorem appendedTo_logOf : ∀ (t : List Ev), Conforms t → ∀ b l, b ∈ appendedTo t l → logOfBatch t b = some l := by
  intro t
  induction t using snoc_induction with
  | nil => intro _ b l h; simp [appendedTo] at h
  | snoc t e ih =>
    intro hc b l hb
    obtain ⟨h0, pre, _⟩ := conforms_snoc hc
    rw [appendedTo_snoc, List.mem_append] at hb
    rcases hb with hb | hb
    · exact logOfBatch_append_some (ih h0 b l hb)
    · rcases ev_class e with ⟨n, b', he⟩ | ⟨n, he⟩ | ⟨_, h2, _⟩
      · subst he
        by_cases hnl : n = l
        · subst hnl
          simp [appendedTo] at hb
          subst hb
          obtain ⟨hfresh, _, _⟩ := pre_append_batch pre
          rw [(Inv.of_conforms _ h0).logOf] at hfresh
          rw [logOfBatch_snoc, hfresh]
          simp [logOfBatch]
        · simp [appendedTo, hnl] at hb
      · subst he; simp [appendedTo] at hb
      · rw [h2 l] at hb; simp at hb

theorem flatMap_single {f : Nat → List Nat} (l : Nat) : ∀ (logs : List Nat), logs.Nodup →
    (∀ l' ∈ logs, l' ≠ l → f l' = []) → logs.flatMap f = if l ∈ logs then f l else [] := by
  intro logs
  induction logs with
  | nil => intro _ _; rfl
  | cons a logs ih =>
    intro hn h
    rw [List.nodup_cons] at hn
    rw [List.flatMap_cons, ih hn.2 (fun l' hl' => h l' (List.mem_cons_of_mem _ hl'))]
    by_cases hal : a = l
    · subst hal
      simp [hn.1]
    · rw [h a (by simp) hal]
      have : ¬ l = a := fun e => hal e.symm
      simp [this]

/-- (4), per log: the batches of log `l` among the replayed ones (a batch belongs to the log it was appended to)
    form a prefix of the batches appended to log `l` -/
theorem recover_subset_filter (t : List Ev) (h : Conforms t) (n : Nat) (img : Image)
    (hi : IsCrashImage (World.run (t.take n)) img) (r : Recovered) (hr : recover img = some r) (l : Nat) :
    r.replayed.filter (fun b => logOfBatch t b == some l) <+: appendedTo (t.take n) l := by
  obtain ⟨logs, seg, hs, hseg, hrep⟩ := recover_subset t h n img hi r hr
  have hc := conforms_prefix h n
  have hlog : ∀ l' ∈ logs, ∀ b ∈ seg l', logOfBatch t b = some l' := by
    intro l' hl' b hb
    exact logOfBatch_take (appendedTo_logOf _ hc b l' ((hseg l' hl').2.subset hb))
  rw [hrep, List.filter_flatMap]
  have hnd : logs.Nodup := hs.imp (by intro a b hab; omega)
  rw [flatMap_single l logs hnd]
  · by_cases hl : l ∈ logs
    · rw [if_pos hl]
      have : (seg l).filter (fun b => logOfBatch t b == some l) = seg l := by
        rw [List.filter_eq_self]
        intro b hb
        simp [hlog l hl b hb]
      rw [this]; exact (hseg l hl).2
    · rw [if_neg hl]; exact List.nil_prefix
  · intro l' hl' hne
    rw [List.filter_eq_nil_iff]
    intro b hb
    simp [hlog l' hl' b hb, hne]

/-! ### crashing again during recovery -/

theorem ackedSync_append (t s : List Ev) : ackedSync (t ++ s) = ackedSync t ++ ackedSync s := by
  simp [ackedSync, List.filterMap_append]
theorem ackedAll_append (t s : List Ev) : ackedAll (t ++ s) = ackedAll t ++ ackedAll s := by
  simp [ackedAll, List.filterMap_append]

theorem logOfBatch_of_append {t s : List Ev} {b l n : Nat} (h1 : logOfBatch t b = some n)
    (h2 : logOfBatch (t ++ s) b = some l) : logOfBatch t b = some l := by
  rw [logOfBatch_append_some h1] at h2; rw [h1, ← h2]

/-- Partial form of "recovery is idempotent under crashes".  After a *process kill* the file system is exactly the
    world the trace left behind, so the I/O of the recovery that follows (and of everything after it) is a
    continuation `s` of the trace `t`.  If the whole trace conforms, then at every crash point inside `s`, in every
    crash image, recovery succeeds and every batch that was sync-acknowledged in `t` is still replayed or retired.
    (Not covered: a recovery that starts from a power-loss image, which needs a world built from an image.) -/
theorem recover_idempotent_partial (t s : List Ev) (h : Conforms (t ++ s)) (m : Nat) (img : Image)
    (hi : IsCrashImage (World.run ((t ++ s).take (t.length + m))) img) (hs : ackedSync t ≠ []) :
    ∃ r, recover img = some r ∧
      ∀ b ∈ ackedSync t, b ∈ r.replayed ∨ ∃ l, logOfBatch t b = some l ∧ l < r.logNum := by
  have htake : (t ++ s).take (t.length + m) = t ++ s.take m := List.take_length_add_append m
  have hne : ackedSync ((t ++ s).take (t.length + m)) ≠ [] := by
    rw [htake, ackedSync_append]
    intro h0
    exact hs (List.append_eq_nil_iff.1 h0).1
  obtain ⟨r, hr, hb⟩ := synced_durable (t ++ s) h (t.length + m) img hi hne
  refine ⟨r, hr, ?_⟩
  intro b hbm
  have hI := Inv.of_conforms _ (conforms_append h)
  obtain ⟨n, hn, _⟩ := hI.bS b hbm
  rcases hb b (by rw [htake, ackedSync_append]; exact List.mem_append.2 (Or.inl hbm)) with h1 | ⟨l, hl, hlt⟩
  · exact Or.inl h1
  · exact Or.inr ⟨l, logOfBatch_of_append hn hl, hlt⟩

/-- same for a process kill inside the continuation: every batch acknowledged in `t` (sync or not) survives -/
theorem recover_idempotent_kill_partial (t s : List Ev) (h : Conforms (t ++ s)) (m : Nat) (ha : ackedAll t ≠ []) :
    ∃ r, recover (killImage (World.run ((t ++ s).take (t.length + m)))) = some r ∧
      ∀ b ∈ ackedAll t, b ∈ r.replayed ∨ ∃ l, logOfBatch t b = some l ∧ l < r.logNum := by
  have htake : (t ++ s).take (t.length + m) = t ++ s.take m := List.take_length_add_append m
  have hne : ackedAll ((t ++ s).take (t.length + m)) ≠ [] := by
    rw [htake, ackedAll_append]
    intro h0
    exact ha (List.append_eq_nil_iff.1 h0).1
  obtain ⟨r, hr⟩ := kill_recovers (t ++ s) h (t.length + m) hne
  refine ⟨r, hr, ?_⟩
  intro b hbm
  have hI := Inv.of_conforms _ (conforms_append h)
  obtain ⟨n, hn, _⟩ := hI.bK b hbm
  rcases kill_durable (t ++ s) h (t.length + m) r hr b
      (by rw [htake, ackedAll_append]; exact List.mem_append.2 (Or.inl hbm)) with h1 | ⟨l, hl, hlt⟩
  · exact Or.inl h1
  · exact Or.inr ⟨l, logOfBatch_of_append hn hl, hlt⟩

/-- One I/O step changes the set of versions a crash could recover in only three ways: it stays a version that was
    recoverable before; or the step appended an edit to the MANIFEST and the version is the complete old MANIFEST
    plus that edit; or the step was the CURRENT switch and the version is that of the complete new MANIFEST. -/
theorem crash_versions_step (t : List Ev) (e : Ev) (h : Conforms (t ++ [e])) (j' : Nat) (v' : AVersion)
    (hj' : InRange (World.run (t ++ [e])) j') (hC : Cand (World.run (t ++ [e])) j' v') :
    (∃ j, InRange (World.run t) j ∧ Cand (World.run t) j v') ∨
    (∃ k mb ed, e = .append (.manifest k) (.edit ed) ∧ bodyOf (World.run t) (.manifest k) = some mb ∧
        InRange (World.run t) j' ∧ Cand (World.run t) j' (versionOf mb.recs) ∧ v' = applyEdit (versionOf mb.recs) ed) ∨
    (∃ a k mb, e = .rename a .current ∧ bodyOf (World.run (t ++ [e])) .current = some ⟨[.ptr k], 1⟩ ∧
        bodyOf (World.run (t ++ [e])) (.manifest k) = some mb ∧ v' = versionOf mb.recs) := by
  obtain ⟨h0, pre, post⟩ := conforms_snoc h
  have hI := Inv.of_conforms _ h0
  rw [run_snoc] at hj' hC ⊢
  cases cand_back (WInv.run t) hI.ops hI.a1 pre hj' hC with
  | old j hj _ hc _ => exact Or.inl ⟨j, hj, hc⟩
  | ext k mb ed he hj hb _ hc hv => exact Or.inr (Or.inl ⟨k, mb, ed, he, hb, hj, hc, hv⟩)
  | new a k mb' n he hj hc hm hn hv =>
    subst he
    obtain ⟨hs, _⟩ := post_rename post hc hm
    rw [List.take_of_length_le (by omega)] at hv
    exact Or.inr (Or.inr ⟨a, k, mb', rfl, hc, hm, hv⟩)

/-- the events of a MANIFEST roll-over before the CURRENT switch: no rename, and edits are appended only to the
    new MANIFEST `k'` -/
def Quiet (k' : Nat) (e : Ev) : Prop :=
  (∀ a b, e ≠ .rename a b) ∧ (∀ k ed, e = .append (.manifest k) (.edit ed) → k = k')

theorem quiet_versions (t : List Ev) (k' : Nat) (hfresh : created (World.run t) (.manifest k') = false) :
    ∀ (s : List Ev), Conforms (t ++ s) → (∀ e ∈ s, Quiet k' e) →
      (∀ j mb, InRange (World.run (t ++ s)) j → ¬ Points (World.run (t ++ s)) j k' mb) ∧
      (∀ j' v', InRange (World.run (t ++ s)) j' → Cand (World.run (t ++ s)) j' v' →
        ∃ j, InRange (World.run t) j ∧ Cand (World.run t) j v') := by
  intro s
  induction s using snoc_induction with
  | nil =>
    intro hc _
    simp only [List.append_nil] at hc ⊢
    have hI := Inv.of_conforms _ hc
    refine ⟨?_, fun j' v' hj hC => ⟨j', hj, hC⟩⟩
    intro j mb _ ⟨_, mid, _, _, hm, _⟩
    have := created_of_mem (creator_ne hI.ops (by simp) hm)
    rw [this] at hfresh; cases hfresh
  | snoc s e ih =>
    intro hc hq
    rw [← List.append_assoc] at hc ⊢
    obtain ⟨h0, pre, post⟩ := conforms_snoc hc
    obtain ⟨ihP, ihC⟩ := ih h0 (fun e he => hq e (List.mem_append.2 (Or.inl he)))
    have hI := Inv.of_conforms _ h0
    obtain ⟨hq1, hq2⟩ := hq e (by simp)
    rw [run_snoc]
    constructor
    · intro j mb hj hP
      cases points_back (WInv.run _) hI.ops hI.a1 pre hj hP with
      | old j0 mb0 hj0 _ hp _ _ _ => exact ihP j0 mb0 hj0 hp
      | ext mb0 r he hj0 hp _ _ => exact ihP j mb0 hj0 hp
      | new a he _ _ _ => exact hq1 _ _ he
    · intro j' v' hj hC
      cases cand_back (WInv.run _) hI.ops hI.a1 pre hj hC with
      | old j0 hj0 _ hc0 _ => exact ihC j0 v' hj0 hc0
      | ext k mb ed he hj0 hb hp0 hc0 hv =>
        exfalso
        have hk := hq2 k ed he
        subst hk
        exact ihP j' mb hj0 hp0
      | new a k mb' n he _ _ _ _ _ => exact absurd he (hq1 _ _)


/-- Partial form of "a crash during recovery yields the same tables or the pre-recovery version".
    Let the recovery (or any MANIFEST roll-over) after trace `t` consist of events `s` that contain no rename and
    append edits only to a new MANIFEST `k'` (snapshot naming the recovered tables + the edit with the new log
    number, their fsyncs, the `<k'>.dbtmp` file), followed by the CURRENT switch.  If the whole trace conforms then
    * at every crash point before the switch, every crash image recovers a version (tables and log number) that
      some crash image at the start of the recovery would also have recovered;
    * after the switch it is such a version, or the version of the complete new MANIFEST.
    (Not proved here: that the new MANIFEST's version has the same tables as the recovered one — that is the content
    of the snapshot record, an LSM-level fact; and recoveries that start from a power-loss image.) -/
theorem recovery_crash_versions_partial (t s : List Ev) (k' : Nat) (a : FName)
    (h : Conforms (t ++ s ++ [.rename a .current]))
    (hfresh : created (World.run t) (.manifest k') = false) (hq : ∀ e ∈ s, Quiet k' e) :
    (∀ m img, IsCrashImage (World.run (t ++ s.take m)) img → ∀ r, recover img = some r →
        ∃ j v, InRange (World.run t) j ∧ Cand (World.run t) j v ∧ r.tables = v.tables ∧ v.logNum = some r.logNum) ∧
    (∀ img, IsCrashImage (World.run (t ++ s ++ [.rename a .current])) img → ∀ r, recover img = some r →
        (∃ j v, InRange (World.run t) j ∧ Cand (World.run t) j v ∧ r.tables = v.tables ∧ v.logNum = some r.logNum) ∨
        (∃ k mb, bodyOf (World.run (t ++ s ++ [.rename a .current])) .current = some ⟨[.ptr k], 1⟩ ∧
          bodyOf (World.run (t ++ s ++ [.rename a .current])) (.manifest k) = some mb ∧
          r.tables = (versionOf mb.recs).tables ∧ (versionOf mb.recs).logNum = some r.logNum)) := by
  have hts : Conforms (t ++ s) := conforms_append h
  constructor
  · intro m img hi r hr
    have hsplit : t ++ s = (t ++ s.take m) ++ s.drop m := by rw [List.append_assoc, List.take_append_drop]
    have hcm : Conforms (t ++ s.take m) := by rw [hsplit] at hts; exact conforms_append hts
    obtain ⟨_, hC⟩ := quiet_versions t k' hfresh (s.take m) hcm (fun e he => hq e (List.mem_of_mem_take he))
    obtain ⟨j', hj', hia⟩ := (isCrashImage_iff _ _).1 hi
    obtain ⟨v, hc, hln, htab, _⟩ := recover_cand (Inv.of_conforms _ hcm) hj' hia hr
    obtain ⟨j, hj, hcj⟩ := hC j' v hj' hc
    exact ⟨j, v, hj, hcj, htab, hln⟩
  · intro img hi r hr
    obtain ⟨_, hC⟩ := quiet_versions t k' hfresh s hts hq
    obtain ⟨j', hj', hia⟩ := (isCrashImage_iff _ _).1 hi
    obtain ⟨v, hc, hln, htab, _⟩ := recover_cand (Inv.of_conforms _ h) hj' hia hr
    rcases crash_versions_step (t ++ s) _ h j' v hj' hc with ⟨j0, hj0, hc0⟩ | ⟨k, mb, ed, he, _⟩ | ⟨a', k, mb, _, hcur, hman, hv⟩
    · obtain ⟨j, hj, hcj⟩ := hC j0 v hj0 hc0
      exact Or.inl ⟨j, v, hj, hcj, htab, hln⟩
    · cases he
    · subst hv
      exact Or.inr ⟨k, mb, hcur, hman, htab, hln⟩


/-! non-vacuity of `recovery_crash_versions_partial`: the MANIFEST roll-over inside `C02.exTrace` -/

def rollT : List Ev := C02.setup ++ [.create (.log 3)]
def rollS : List Ev := [
  .create (.manifest 2), .append (.manifest 2) (C02.ed none), .append (.manifest 2) (C02.ed (some 3)),
  .syncDir, .sync (.manifest 2), .create (.tmp 2), .append (.tmp 2) (.ptr 2), .sync (.tmp 2) ]

set_option maxRecDepth 100000 in
theorem rollover_hyps : Conforms (rollT ++ rollS ++ [.rename (.tmp 2) .current]) ∧
    created (World.run rollT) (.manifest 2) = false ∧ ∀ e ∈ rollS, Quiet 2 e := by
  refine ⟨by decide, by decide, ?_⟩
  intro e he
  simp only [rollS, List.mem_cons, List.not_mem_nil, or_false] at he
  rcases he with rfl | rfl | rfl | rfl | rfl | rfl | rfl | rfl <;>
    refine ⟨(by intro a b h; cases h), (by
      intro k ed h
      first
        | (cases h; done)
        | (cases h; rfl)
        | (injection h with h1 h2; injection h1 with h3; exact h3.symm))⟩

end Lcdb.C05
