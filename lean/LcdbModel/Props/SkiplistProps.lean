/-
  The skiplist (src/skiplist.c) and the memtable (src/memtable.c) ARE the sorted run of the LSM model.

  All statements hold for every sequence of inserts with ARBITRARY node heights in 1..12 (so whatever
  the generator does), for any comparator with `CmpOk` (antisymmetric `swap`, `<` transitive);
  `memKeyCmp_ok` instantiates it with the memtable's comparator on length-prefixed internal keys.

   1. `insert_refines_ordInsert` / `insert_refines_runInsert` / `add_refines_runInsert`
   2. `levels_nested_sorted`, `search_fuel_suffices`
   3. `findGreaterOrEqual_spec`, `findLessThan_spec`, `findLast_spec`
   4. `iter_is_cursor` (+ `memiter_observe`, `memiter_step` in Lemmas/MemtableGet.lean: the simulation it iterates)
   5. `memtable_entry_roundtrip`, `memtableGet_eq_runGet`
   6. `randomHeight_range`, `rand_never_zero`
-/
import LcdbModel.Lemmas.MemtableGet
import LcdbModel.Props.IterProps
namespace Lcdb.Skiplist
open Lcdb Lcdb.Memtable

variable {α : Type}

/-! ## 1. inserts build the sorted run -/

/-- **insert_refines_ordInsert.**  Starting from the empty list, inserting pairwise non-equal keys with any heights
    in 1..12 never faults, and the keys in iteration order (level-0 chain) are the ordered insertion of the keys
    one after the other; the list has one node per key (none lost, none duplicated). -/
theorem insert_refines_ordInsert {cmp : α → α → Ordering} (hc : CmpOk cmp) (khs : List (α × Nat))
    (hh : ∀ kh ∈ khs, 1 ≤ kh.2 ∧ kh.2 ≤ kMaxHeight)
    (hd : (khs.map (·.1)).Pairwise (fun a b => cmp a b ≠ .eq)) :
    ∃ sl, insertMany cmp SkipList.init khs = some sl ∧
      keys sl = (khs.map (·.1)).foldl (fun r k => ordInsert cmp k r) [] ∧
      (chain sl 0).length = khs.length ∧ sl.nodes.length = khs.length + 1 := by
  obtain ⟨sl, hrun, hg, hlen⟩ := insertMany_good hc khs SkipList.init [] (init_good cmp) hh (by simp) hd
  refine ⟨sl, hrun, hg.keys, ?_, by rw [hlen]; simp [SkipList.init]; omega⟩
  obtain ⟨L, hi, _⟩ := hg
  rw [chain0_eq hi]
  have := hi.len
  rw [hlen] at this
  simp [SkipList.init] at this
  omega

/-- a key that compares equal to none in the list is always accepted (the model's only fault of `insert` with a
    height in range is the duplicate the C code asserts against), and the result is again a well-formed list -/
theorem insert_total {cmp : α → α → Ordering} (hc : CmpOk cmp) {sl : SkipList α} {ks : List α} (h : Good cmp sl ks)
    (k : α) (height : Nat) (hh : 1 ≤ height ∧ height ≤ kMaxHeight) (hnew : ∀ x ∈ ks, cmp k x ≠ .eq) :
    ∃ s', insert cmp sl k height = some s' ∧ Good cmp s' (ordInsert cmp k ks) ∧ keys s' = ordInsert cmp k (keys sl) := by
  obtain ⟨s', hs', hg, _⟩ := insert_good hc h k height hh hnew
  exact ⟨s', hs', hg, by rw [hg.keys, h.keys]⟩

/-- the duplicate at the search position is refused (`none`; the C code only asserts) -/
theorem insert_dup_faults {cmp : α → α → Ordering} {sl : SkipList α} {L : List Nat} (h : Inv cmp sl L) (k : α)
    (height : Nat) (A B : List Nat) (hL : L = A ++ B)
    (hA : ∀ a ∈ A, afterKey cmp sl k a = some true) (hB : ∀ b ∈ B, afterKey cmp sl k b = some false)
    (b : Nat) (kb : α) (hb : B.head? = some b) (hkb : keyOf sl b = some kb) (heq : cmp k kb = .eq) :
    insert cmp sl k height = none :=
  insert_dup h k height A B hL hA hB b kb hb hkb heq

/-- **insert_refines_runInsert.**  `ldb_memtable_add` of well-formed entries with pairwise distinct internal keys and
    ANY node heights in 1..12: no fault, and the memtable holds the entries `es` whose image in the LSM model is
    `mkRun` (= `foldl runInsert`) of the writes; the skiplist's iteration order is exactly their encodings. -/
theorem insert_refines_runInsert (c : Cmp) (tok : Bytes → String) (ehs : List (MEntry × Nat))
    (hwf : ∀ eh ∈ ehs, eh.1.wf ∧ 1 ≤ eh.2 ∧ eh.2 ≤ kMaxHeight) (hd : DistinctIKeys (ehs.map (·.1))) :
    ∃ mt es, addManyH (Memtable.create c) ehs = some mt ∧ Holds mt es ∧
      keys mt.table = es.map MEntry.enc ∧
      es.map (MEntry.toEntry tok) = mkRun c ((ehs.map (·.1)).map (MEntry.toEntry tok)) ∧
      RunSorted c (es.map (MEntry.toEntry tok)) ∧ es.length = ehs.length := by
  obtain ⟨mt, hrun, hc, hh⟩ := addManyH_holds ehs (Memtable.create c) [] (create_holds c) hwf (by simp) hd
  refine ⟨mt, _, hrun, hh, hh.2.keys, ?_, ?_, ?_⟩
  · rw [foldl_mrunInsert_toEntry]; rfl
  · obtain ⟨L, ha⟩ := hh.aligned
    have hs := ha.inv.sorted
    rw [RunSorted, List.pairwise_map]
    rw [List.pairwise_iff_getElem] at hs ⊢
    intro i j hi hj hij
    have hiL : i < L.length := by rw [ha.len]; exact hi
    have hjL : j < L.length := by rw [ha.len]; exact hj
    obtain ⟨ka, kb, h1, h2, h3⟩ := hs i j hiL hjL hij
    rw [ha.key i hiL hi] at h1; cases h1
    rw [ha.key j hjL hj] at h2; cases h2
    rw [hc] at h3
    exact (memKeyCmp_enc_lt c (ha.wf _ (List.getElem_mem hi)) (ha.wf _ (List.getElem_mem hj))).mp h3
  · rw [length_foldl_mrunInsert]; simp

/-- **add_refines_runInsert.**  The same with the heights drawn by `ldb_skiplist_randheight` from the list's own
    generator (`ldb_memtable_add` as it is): whatever the generator yields, no fault and the same run. -/
theorem add_refines_runInsert (c : Cmp) (tok : Bytes → String) (ws : List MEntry)
    (hwf : ∀ e ∈ ws, e.wf) (hd : DistinctIKeys ws) :
    ∃ mt es, addMany (Memtable.create c) ws = some mt ∧ Holds mt es ∧
      keys mt.table = es.map MEntry.enc ∧
      es.map (MEntry.toEntry tok) = mkRun c (ws.map (MEntry.toEntry tok)) := by
  obtain ⟨mt, hrun, _, hh⟩ := addMany_holds ws (Memtable.create c) [] (create_holds c)
    (randInit_range 0xdeadbeef) hwf (by simp) hd
  refine ⟨mt, _, hrun, hh, hh.2.keys, ?_⟩
  rw [foldl_mrunInsert_toEntry]; rfl

/-! ## 2. the levels -/

/-- **levels_nested_sorted.**  In every list built by inserts (`Good`): the chain of level `lvl` (following
    `next[lvl]` from the head) consists of exactly the nodes of the level-0 chain whose height exceeds `lvl`, in the
    same order; it is sorted by key, duplicate-free, a sublist of the chain below; the level-0 chain contains every
    node; chains at or above `max_height` are empty, and `max_height` is 1 or the height of some node. -/
theorem levels_nested_sorted {cmp : α → α → Ordering} (hc : CmpOk cmp) {sl : SkipList α} {ks : List α} (h : Good cmp sl ks)
    (lvl : Nat) (hl : lvl < kMaxHeight) :
    chain sl lvl = (chain sl 0).filter (fun y => decide (lvl < heightOf sl y)) ∧
    (chain sl lvl).Pairwise (NodeLt cmp sl) ∧ (chain sl lvl).Nodup ∧
    (lvl + 1 < kMaxHeight → (chain sl (lvl + 1)).Sublist (chain sl lvl)) ∧
    (∀ x, x ∈ chain sl 0 ↔ 1 ≤ x ∧ x < sl.nodes.length) ∧
    (∀ x ∈ chain sl 0, 1 ≤ heightOf sl x ∧ heightOf sl x ≤ sl.maxHeight) ∧
    (sl.maxHeight ≤ lvl → chain sl lvl = []) ∧
    (1 ≤ sl.maxHeight ∧ sl.maxHeight ≤ kMaxHeight) ∧
    (sl.maxHeight = 1 ∨ ∃ x ∈ chain sl 0, heightOf sl x = sl.maxHeight) := by
  obtain ⟨L, hi, _⟩ := h
  have hsub : (chain sl lvl).Sublist L := by rw [chain_eq hi lvl hl]; exact List.filter_sublist
  rw [chain0_eq hi]
  refine ⟨chain_eq hi lvl hl, hi.sorted.sublist hsub, ?_, ?_, hi.mem_iff, hi.heights, ?_, hi.mhRange, hi.mhExact⟩
  · have := (List.nodup_cons.mp (hi.nodup hc)).2
    exact this.sublist hsub
  · intro hl1
    rw [chain_eq hi _ hl1, chain_eq hi lvl hl]
    have : L.filter (fun y => decide (lvl + 1 < heightOf sl y)) =
        (L.filter (fun y => decide (lvl < heightOf sl y))).filter (fun y => decide (lvl + 1 < heightOf sl y)) := by
      rw [List.filter_filter]
      apply List.filter_congr
      intro x _
      by_cases hx : lvl + 1 < heightOf sl x
      · have : lvl < heightOf sl x := by omega
        simp [hx, this]
      · simp [hx]
    rw [this]
    exact List.filter_sublist
  · intro hm
    rw [chain_eq hi lvl hl, List.filter_eq_nil_iff]
    intro a ha
    have := (hi.heights a ha).2
    simp; omega

/-- **search_fuel_suffices.**  With fuel `nodes + max_height` none of the three search loops runs out of fuel
    (or faults in any other way) on a list built by inserts: the chains are acyclic and end in NULL. -/
theorem search_fuel_suffices {cmp : α → α → Ordering} (hc : CmpOk cmp) {sl : SkipList α} {ks : List α} (h : Good cmp sl ks)
    (k : α) : (findGE cmp sl k).isSome ∧ (findLT cmp sl k).isSome ∧ (findLast sl).isSome := by
  obtain ⟨L, hi, _⟩ := h
  obtain ⟨A, B, hL, hA, hB⟩ := sorted_split hc hi k
  obtain ⟨prev, h1, _⟩ := findGE_spec0 hi k A B hL hA hB
  obtain ⟨p, h2, _⟩ := findLT_spec0 hi k A B hL hA hB
  obtain ⟨q, h3, _⟩ := findLast_spec0 hi
  simp [h1, h2, h3]

/-! ## 3. the searches -/

/-- **findGreaterOrEqual_spec.**  `find_ge(key)` returns the first node of the level-0 chain whose key is not below
    `key` (`runSeek` on the run), and fills `prev[i]`, for every `i < max_height`, with the last node of the level-`i`
    chain whose key is below `key` (the head, index 0, if there is none); `prev[i]` stays unset above. -/
theorem findGreaterOrEqual_spec {cmp : α → α → Ordering} (hc : CmpOk cmp) {sl : SkipList α} {ks : List α} (h : Good cmp sl ks)
    (k : α) :
    ∃ prev, findGE cmp sl k = some ((chain sl 0).find? (fun y => afterKey cmp sl k y != some true), prev) ∧
      prev.length = kMaxHeight ∧
      (∀ i, i < sl.maxHeight → prev[i]? = some (some
        ((((chain sl i).takeWhile (fun y => afterKey cmp sl k y == some true)).getLast?).getD 0))) ∧
      (∀ i, sl.maxHeight ≤ i → i < kMaxHeight → prev[i]? = some none) := by
  obtain ⟨L, hi, _⟩ := h
  obtain ⟨A, B, hL, hA, hB⟩ := sorted_split hc hi k
  obtain ⟨prev, h1, hlen, hlow, hhigh⟩ := findGE_spec0 hi k A B hL hA hB
  refine ⟨prev, ?_, hlen, ?_, hhigh⟩
  · rw [h1, chain0_eq hi, hL, find?_append_of_all_false (fun a ha => by simp [hA a ha])]
    cases B with
    | nil => rfl
    | cons b t => simp [List.find?_cons, hB b (by simp)]
  · intro i him
    have hik : i < kMaxHeight := by have := hi.mhRange; omega
    obtain ⟨p, hp1, hp2⟩ := hlow i him
    rw [hp1, chain_eq hi i hik, hL, List.filter_append,
      takeWhile_append_all (fun a ha => by simp [hA a (List.mem_filter.mp ha).1])
        (fun b hb => by simp [hB b (List.mem_filter.mp hb).1]),
      hp2.closed hi hik]

/-- **findLessThan_spec.**  `find_lt(key)` = the last node whose key is below `key`, the head (0) if none. -/
theorem findLessThan_spec {cmp : α → α → Ordering} (hc : CmpOk cmp) {sl : SkipList α} {ks : List α} (h : Good cmp sl ks)
    (k : α) :
    findLT cmp sl k = some ((((chain sl 0).takeWhile (fun y => afterKey cmp sl k y == some true)).getLast?).getD 0) := by
  obtain ⟨L, hi, _⟩ := h
  obtain ⟨A, B, hL, hA, hB⟩ := sorted_split hc hi k
  obtain ⟨p, h1, h2⟩ := findLT_spec0 hi k A B hL hA hB
  rw [h1, chain0_eq hi, hL, takeWhile_append_all (fun a ha => by simp [hA a ha]) (fun b hb => by simp [hB b hb])]
  rw [List.getLast?_cons] at h2
  simpa using h2.symm

/-- **findLast_spec.**  `find_last()` = the last node of the level-0 chain, the head (0) if the list is empty. -/
theorem findLast_spec {cmp : α → α → Ordering} {sl : SkipList α} {ks : List α} (h : Good cmp sl ks) :
    findLast sl = some (((chain sl 0).getLast?).getD 0) := by
  obtain ⟨L, hi, _⟩ := h
  obtain ⟨p, h1, h2⟩ := findLast_spec0 hi
  rw [h1, chain0_eq hi]
  rw [List.getLast?_cons] at h2
  simpa using h2.symm

/-! ## 4. the iterator is the cursor over the run -/

/-- **iter_is_cursor.**  For a memtable holding the entries `es`: ANY sequence of `first/last/seek/next/prev`
    (seek targets below 4 GiB and trailers below 2^64 — beyond that `ldb_slice_export` truncates the length)
    run on the memtable iterator (`ldb_memiter_*` over `ldb_skipiter_*`: `prev` by `find_lt`, `last` by `find_last`)
    does not fault and ends valid iff the plain cursor `runIter` over the run `es` is, on the same entry.
    `memiter_observe` / `memiter_step` (Lemmas/MemtableGet.lean) are the simulation in the sense of
    `InternalIter.Sim` restricted to such targets. -/
theorem iter_is_cursor (tok : Bytes → String) {mt : Memtable} {es : List MEntry} (h : Holds mt es)
    (ops : List InternalOp) (hops : ∀ op ∈ ops, SeekOk op) :
    ∃ it p, (memIter tok mt).run ops iterInit = some it ∧
      (runIter mt.c (es.map (MEntry.toEntry tok))).run ops none = some p ∧
      (memIter tok mt).valid it = (runEntry (es.map (MEntry.toEntry tok)) p).isSome ∧
      (memIter tok mt).entry it = runEntry (es.map (MEntry.toEntry tok)) p ∧
      (memIter tok mt).status it = .ok := by
  obtain ⟨L, ha⟩ := h.aligned
  have key : ∀ (ops : List InternalOp), (∀ op ∈ ops, SeekOk op) → ∀ (it : Iter) (p : Option Nat), IterRel L it p →
      ∃ it' p', (memIter tok mt).run ops it = some it' ∧
        (runIter mt.c (es.map (MEntry.toEntry tok))).run ops p = some p' ∧ IterRel L it' p' := by
    intro ops
    induction ops with
    | nil => intro _ it p hr; exact ⟨it, p, rfl, rfl, hr⟩
    | cons op rest ih =>
      intro hall it p hr
      obtain ⟨it1, p1, e1, e2, hr1⟩ := memiter_step tok ha op (hall op (by simp)) hr
      obtain ⟨it2, p2, e3, e4, hr2⟩ := ih (fun o ho => hall o (by simp [ho])) it1 p1 hr1
      exact ⟨it2, p2, by simp [InternalIter.run, e1, e3], by simp [InternalIter.run, e2, e4], hr2⟩
  obtain ⟨it, p, e1, e2, hr⟩ := key ops hops iterInit none IterRel.none
  have hobs := memiter_observe tok ha hr
  exact ⟨it, p, e1, e2, hobs.1, hobs.2, rfl⟩

/-! ## 5. the memtable -/

/-- **memtable_entry_roundtrip.**  What `ldb_memiter_key` / `ldb_memiter_value` (and `ldb_memtable_get`) decode from
    the arena bytes `ldb_memtable_add` wrote is the internal key and the value that went in; user key, sequence and
    type are recovered from the internal key. -/
theorem memtable_entry_roundtrip (uk : Bytes) (seq kind : Nat) (v : Bytes) (hk : uk.length + 8 < 2 ^ 32)
    (hv : v.length < 2 ^ 32) (hs : seq < 2 ^ 56) (ht : kind < 256) :
    Memtable.decodeEntry (Memtable.encodeEntry uk seq kind v) = some (ikeyEnc uk seq kind, v) ∧
    ikeyUser (ikeyEnc uk seq kind) = uk ∧ ikeyNum (ikeyEnc uk seq kind) / 256 = seq ∧
    ikeyNum (ikeyEnc uk seq kind) % 256 = kind := by
  have hp : packSeqType seq kind < 2 ^ 64 := by unfold packSeqType; omega
  refine ⟨decodeEntry_encodeEntry uk seq kind v hk hv, ikeyUser_enc _ _, ?_, ?_⟩
  · unfold ikeyEnc; rw [ikeyNum_enc _ _ hp]; unfold packSeqType; omega
  · unfold ikeyEnc; rw [ikeyNum_enc _ _ hp]; unfold packSeqType; omega

/-- **memtableGet_eq_runGet.**  `ldb_memtable_get` on a memtable holding `es` answers what `Lsm.runGet` finds in the
    run: a value entry → its value, a deletion → "deleted", no entry of that user key at or below the sequence →
    "not found"; an entry of any other type falls through the `switch` → "not found". -/
theorem memtableGet_eq_runGet (tok : Bytes → String) {mt : Memtable} {es : List MEntry} (h : Holds mt es) (k : Bytes)
    (s : Nat) (hk : k.length + 8 < 2 ^ 32) (hs : s < 2 ^ 56) :
    ∃ r, Memtable.get mt k s = some r ∧
      match runGet mt.c (es.map (MEntry.toEntry tok)) k s with
      | none => r = .notFound
      | some e => (e.kind = 1 → ∃ v, r = .found v ∧ tok v = e.val) ∧ (e.kind = 0 → r = .deleted) ∧
          (e.kind ≠ 0 → e.kind ≠ 1 → r = .notFound) := by
  refine ⟨_, get_spec h k s hk hs, ?_⟩
  rw [← mrunGet_toEntry]
  cases mrunGet mt.c es k s with
  | none => rfl
  | some m =>
    simp only [Option.map_some, getResultOf, MEntry.toEntry]
    refine ⟨fun h1 => ⟨m.val, by simp [h1], rfl⟩, fun h0 => by simp [h0], fun h0 h1 => by simp [h0, h1]⟩

/-! ## 6. the generator -/

/-- **rand_never_zero.**  `ldb_rand_init` puts the state into 1 .. 2^31-2 for every seed, and `ldb_rand_next` keeps
    it there: the generator never reaches its fixed points 0 and 2^31-1. -/
theorem rand_never_zero (seed : Nat) :
    (1 ≤ randInit seed ∧ randInit seed < randM) ∧
    ∀ s, 1 ≤ s ∧ s < randM → 1 ≤ randNext s ∧ randNext s < randM :=
  ⟨randInit_range seed, randNext_range⟩

/-- **randomHeight_range.**  For every generator state in range, `ldb_skiplist_randheight` returns a height in
    1 .. 12 and leaves the generator in range. -/
theorem randomHeight_range (s : Nat) (hs : 1 ≤ s ∧ s < randM) :
    1 ≤ (randomHeight s).2 ∧ (randomHeight s).2 ≤ kMaxHeight ∧ 1 ≤ (randomHeight s).1 ∧ (randomHeight s).1 < randM :=
  randomHeight_ok s hs

/-! ## non-vacuity: concrete instances meet the hypotheses -/

/-- the natural numbers under `compare` are a `CmpOk` order -/
theorem natCmpOk : CmpOk (fun a b : Nat => compare a b) where
  swap a b := by
    simp only [Nat.compare_eq_ite_lt]
    by_cases h1 : a < b
    · have : ¬ b < a := by omega
      simp [h1, this, Ordering.swap]
    · by_cases h2 : b < a
      · simp [h1, h2, Ordering.swap]
      · simp [h1, h2, Ordering.swap]
  trans a b c h1 h2 := by
    rw [Nat.compare_eq_lt] at *
    omega

/-- four inserts (heights 1, 3, 2, 12) of distinct keys: hypotheses of `insert_refines_ordInsert` hold … -/
example : (∀ kh ∈ [((5 : Nat), 1), (2, 3), (9, 2), (7, 12)], 1 ≤ kh.2 ∧ kh.2 ≤ kMaxHeight) ∧
    ([((5 : Nat), 1), (2, 3), (9, 2), (7, 12)].map (·.1)).Pairwise (fun a b => compare a b ≠ .eq) := by decide

/-- … and the model run shows the sorted keys and the nested chains (node = ordinal of its insert) -/
example : (insertMany (fun a b : Nat => compare a b) SkipList.init [(5, 1), (2, 3), (9, 2), (7, 12)]).map
      (fun sl => [keys sl, chain sl 11, chain sl 2, chain sl 1, chain sl 0, [sl.maxHeight]])
    = some [[2, 5, 7, 9], [4], [2, 4], [2, 4, 3], [2, 1, 4, 3], [12]] := by decide

/-- the search of `find_ge(6)` in that list: node 4 (key 7); `prev` = node 1 (key 5) at level 0, node 2 (key 2) above -/
example : ((insertMany (fun a b : Nat => compare a b) SkipList.init [(5, 1), (2, 3), (9, 2), (7, 12)]).bind
      (fun sl => findGE (fun a b : Nat => compare a b) sl 6)).map (fun r => (r.1, r.2.take 4))
    = some (some 4, [some 1, some 2, some 2, some 0]) := by decide

/-- three well-formed entries with distinct internal keys (a value, a newer deletion, another key) -/
def exWrites : List (MEntry × Nat) :=
  [({ ukey := [0x61], seq := 5, kind := 1, val := [0xaa] }, 2),
   ({ ukey := [0x61], seq := 7, kind := 0, val := [] }, 1),
   ({ ukey := [0x62], seq := 4, kind := 1, val := [0xbb, 0xcc] }, 3)]

theorem exWrites_ok : (∀ eh ∈ exWrites, eh.1.wf ∧ 1 ≤ eh.2 ∧ eh.2 ≤ kMaxHeight) ∧ DistinctIKeys (exWrites.map (·.1)) := by
  unfold DistinctIKeys MEntry.wf
  decide

/-- the memtable built from them exists, is sorted, and answers `get` like `runGet` on the run (a deletion at
    sequence 9, the value at sequence 6) -/
example : ∃ mt es, addManyH (Memtable.create .bytewise) exWrites = some mt ∧ Holds mt es ∧ es.length = 3 ∧
    (es.map (MEntry.toEntry (fun _ => ""))).map (fun e => (e.ukey, e.seq, e.kind)) = [([0x61], 7, 0), ([0x61], 5, 1), ([0x62], 4, 1)] := by
  obtain ⟨mt, es, h1, h2, _, h4, _, h6⟩ := insert_refines_runInsert .bytewise (fun _ => "") exWrites exWrites_ok.1 exWrites_ok.2
  refine ⟨mt, es, h1, h2, h6, ?_⟩
  rw [h4]
  decide

example : runGet .bytewise (mkRun .bytewise ((exWrites.map (·.1)).map (MEntry.toEntry (fun _ => "")))) [0x61] 9
    = some { ukey := [0x61], seq := 7, kind := 0, val := "" } := by decide

/-- the first heights `ldb_skiplist_randheight` draws from seed 0xdeadbeef (as the C harness prints them) -/
example : (randomHeight (randInit 0xdeadbeef)).2 = 2 ∧ randInit 0xdeadbeef = 1588444911 ∧
    randNext 1588444911 = 1624403320 := by decide

end Lcdb.Skiplist
