/-
  Properties of the sharded LRU cache of src/util/cache.c (model: Model/LruCache.lean, Model/LruHTable.lean).
  Needed by C01 (reads do not depend on cache evictions) and C10/C18 (a cached object is never freed while
  a handle to it is outstanding, and is freed exactly once).

  All statements are about ARBITRARY well-formed op sequences (`wf`: only handles that are held are
  released) on a shard of any capacity, proved through the invariant `Inv` (Lemmas/LruCache.lean).
-/
import LcdbModel.Lemmas.LruCacheSpec
import LcdbModel.Lemmas.LruCacheWrap
import LcdbModel.Lemmas.LruHTable
import LcdbModel.Lemmas.Bloom
namespace Lcdb.LruCache

/-- everything a well-formed run from the empty shard establishes -/
theorem run_from_empty (cap : Nat) (ops : List Op) (hw : wf (Shard.empty cap) ops = true) :
    ∃ s outs, run (Shard.empty cap) ops = some (s, outs) ∧ outs.length = ops.length ∧ Inv s ∧
      Coh s (specOf ops) ∧ s.entries.map kvc = insertsOf ops ∧ s.capacity = cap := by
  obtain ⟨s, outs, hr, hi, hp, hl⟩ :=
    run_induct (fun s pre => Coh s (specOf pre) ∧ s.entries.map kvc = insertsOf pre ∧ s.capacity = cap)
      (by
        intro s op s' o _ _ sp _ pre ⟨hc, hk, hcap⟩
        refine ⟨by rw [specOf_snoc]; exact coh_step s s' op o _ sp hc,
          by rw [insertsOf_snoc, kvc_step s s' op o sp, hk], ?_⟩
        cases op with
        | insert k v c => exact sp.2.cap.trans hcap
        | lookup k => exact sp.2.frame.cap.trans hcap
        | release id => exact sp.2.frame.cap.trans hcap
        | erase k => exact sp.2.frame.cap.trans hcap
        | prune => exact sp.2.1.frame.cap.trans hcap
        | total => rw [sp.2]; exact hcap)
      (Shard.empty cap) ops [] (inv_empty cap) hw
      ⟨⟨rfl, fun _ => Or.inl rfl, fun _ _ => rfl⟩, rfl, rfl⟩
  exact ⟨s, outs, hr, hl, hi, by simpa using hp.1, by simpa using hp.2.1, hp.2.2⟩

/-- **no fault**: a well-formed op sequence never drives the model into `none` (a C assert / use-after-free / a
    non-terminating eviction loop), whatever the capacity -/
theorem run_total (cap : Nat) (ops : List Op) (hw : wf (Shard.empty cap) ops = true) :
    ∃ s outs, run (Shard.empty cap) ops = some (s, outs) ∧ outs.length = ops.length := by
  obtain ⟨s, outs, hr, hl, _⟩ := run_from_empty cap ops hw; exact ⟨s, outs, hr, hl⟩

/-- a well-formed run determines its result -/
theorem run_facts {cap : Nat} {ops : List Op} {s : Shard} {outs : List Out} (hw : wf (Shard.empty cap) ops = true)
    (hr : run (Shard.empty cap) ops = some (s, outs)) :
    Inv s ∧ Coh s (specOf ops) ∧ s.entries.map kvc = insertsOf ops ∧ s.capacity = cap := by
  obtain ⟨s', outs', hr', _, h⟩ := run_from_empty cap ops hw
  rw [hr] at hr'; cases hr'; exact h

/-! ### 1. lookup coherence: the cache is a partial, forgetful map -/

/-- `latest ops k` is what it is called: the entry created by the last `insert k` of the sequence, provided no
    `erase k` came after it -/
theorem latest_spec (ops : List Op) (k : Bytes) (id : Nat) (h : latest ops k = some id) :
    ∃ pre post v c, ops = pre ++ .insert k v c :: post ∧ id = (insertsOf pre).length ∧
      (insertsOf ops)[id]? = some (k, v, c) ∧
      ∀ op ∈ post, op ≠ .erase k ∧ ∀ v' c', op ≠ .insert k v' c' := by
  rcases spec_fold_char ops Spec.init k id h with ⟨h1, _⟩ | ⟨pre, post, v, c, he, hid, hp⟩
  · simp [Spec.init] at h1
  · refine ⟨pre, post, v, c, he, by simpa [Spec.init] using hid, ?_, hp⟩
    have hid' : id = (insertsOf pre).length := by simpa [Spec.init] using hid
    subst he
    have : insertsOf (pre ++ Op.insert k v c :: post) = insertsOf pre ++ (k, v, c) :: insertsOf post := by
      simp [insertsOf, List.filterMap_append]
    rw [this, hid']; simp

/-- **lookup_coherent**: after any well-formed op sequence, `lookup k` does not fault and returns either a miss or
    a handle to the entry of the MOST RECENT `insert k _` that no `erase k` followed (`latest_spec`) — never an older
    insert of `k`, never an entry inserted under another key — and `ldb_lru_value` of that handle is the value of that
    insert.  (Evictions and `prune` only ever turn hits into misses.) -/
theorem lookup_coherent (cap : Nat) (ops : List Op) (s : Shard) (outs : List Out)
    (hw : wf (Shard.empty cap) ops = true) (hr : run (Shard.empty cap) ops = some (s, outs)) (k : Bytes) :
    ∃ s', lookup s k = some (s', s.table k) ∧
      (s.table k = none ∨
        ∃ id v c, s.table k = some id ∧ latest ops k = some id ∧ (insertsOf ops)[id]? = some (k, v, c) ∧
          value s' id = some v) := by
  obtain ⟨hi, hc, hk, _⟩ := run_facts hw hr
  obtain ⟨s', hl, hi', ls⟩ := lookup_inv s k hi
  refine ⟨s', hl, ?_⟩
  cases ht : s.table k with
  | none => left; rfl
  | some id =>
    right
    obtain ⟨e, hx, hcache, hkey⟩ := hi.tabIn k id ht
    have hlat : latest ops k = some id := by
      rcases hc.tab k with h | h
      · rw [ht] at h; cases h
      · rw [ht] at h; exact h.symm
    have hins : (insertsOf ops)[id]? = some (k, e.val, e.charge) := by
      rw [← hk, List.getElem?_map, hx]; simp [kvc, hkey]
    refine ⟨id, e.val, e.charge, rfl, hlat, hins, ?_⟩
    obtain ⟨e', hx', _, hv, _⟩ := ls.frame.kv id e hx
    have hheld : id ∈ s'.held := by rw [ls.held, ht]; simp
    have hrefs := hi'.refs id e' hx'
    have hcnt : 0 < s'.held.count id := List.count_pos_iff.2 hheld
    have hne : e'.refs ≠ 0 := by omega
    simp [value, hheld, hx', hne, hv]

/-- the observable form: the `Out` of a `lookup k` op issued after a well-formed run -/
theorem lookup_out_coherent (cap : Nat) (ops : List Op) (s : Shard) (outs : List Out)
    (hw : wf (Shard.empty cap) ops = true) (hr : run (Shard.empty cap) ops = some (s, outs)) (k : Bytes) :
    ∃ s' h, step s (.lookup k) = some (s', .handle h) ∧ (h = none ∨ h = latest ops k) := by
  obtain ⟨s', hl, hh⟩ := lookup_coherent cap ops s outs hw hr k
  refine ⟨s', s.table k, by simp [step, hl], ?_⟩
  rcases hh with h | ⟨id, _, _, h1, h2, _⟩
  · left; exact h
  · right; rw [h1, h2]

/-! ### 2. pinned entries are never deleted; every entry is deleted exactly once -/

/-- **pinned_never_deleted**: an entry whose handle is outstanding has not been passed to the deleter (and is alive:
    `refs > 0`), after any well-formed op sequence -/
theorem pinned_never_deleted (cap : Nat) (ops : List Op) (s : Shard) (outs : List Out)
    (hw : wf (Shard.empty cap) ops = true) (hr : run (Shard.empty cap) ops = some (s, outs)) (id : Nat)
    (hh : id ∈ s.held) :
    id ∉ s.deleted ∧ ∃ e, s.entries[id]? = some e ∧ 0 < e.refs := by
  obtain ⟨hi, _⟩ := run_facts hw hr
  have hlt := hi.heldB id hh
  have hx : s.entries[id]? = some s.entries[id] := by simp [hlt]
  have hrefs := hi.refs id _ hx
  have hcnt : 0 < s.held.count id := List.count_pos_iff.2 hh
  refine ⟨?_, _, hx, by omega⟩
  intro hd
  obtain ⟨e, he, h0⟩ := (hi.delIff id).1 hd
  rw [hx] at he; cases he; omega

/-- **deleted_once** (at most once): the deleter log never contains an entry twice, and contains exactly the freed
    entries (`refs = 0`) -/
theorem deleted_once (cap : Nat) (ops : List Op) (s : Shard) (outs : List Out)
    (hw : wf (Shard.empty cap) ops = true) (hr : run (Shard.empty cap) ops = some (s, outs)) :
    s.deleted.Nodup ∧ ∀ id, id ∈ s.deleted ↔ ∃ e, s.entries[id]? = some e ∧ e.refs = 0 := by
  obtain ⟨hi, _⟩ := run_facts hw hr
  exact ⟨hi.ndDel, hi.delIff⟩

theorem filterMap_range_getElem? {α β} (l : List α) (g : α → β) :
    (List.range l.length).filterMap (fun i => (l[i]?).map g) = l.map g := by
  induction l with
  | nil => simp
  | cons a l ih =>
    rw [List.length_cons, List.range_succ_eq_map, List.filterMap_cons]
    simp only [List.getElem?_cons_zero, Option.map_some, List.filterMap_map, List.map_cons]
    congr 1

/-- **deleted_once** (exactly once): releasing every outstanding handle and destroying the shard
    (`lru_shard_clear`) does not fault and leaves a deleter log that is a permutation of ALL entries ever inserted —
    no leak, no double free; the values passed to the deleter are, as a multiset, exactly the inserted values -/
theorem shutdown_deletes_all (cap : Nat) (ops : List Op) (s : Shard) (outs : List Out)
    (hw : wf (Shard.empty cap) ops = true) (hr : run (Shard.empty cap) ops = some (s, outs)) :
    ∃ s', shutdown s = some s' ∧ s'.held = [] ∧
      s'.deleted.Perm (List.range (insertsOf ops).length) ∧
      (deletedVals s').Perm ((insertsOf ops).map (·.2.1)) := by
  obtain ⟨hi, _, hk, _⟩ := run_facts hw hr
  obtain ⟨s', hs, hh, hf, hp⟩ := shutdown_spec s hi
  have hlen : (insertsOf ops).length = s.entries.length := by rw [← hk]; simp
  refine ⟨s', hs, hh, by rw [hlen]; exact hp, ?_⟩
  have h1 : (deletedVals s').Perm ((List.range s'.entries.length).filterMap fun id => (s'.entries[id]?).map (·.val)) := by
    rw [hf.len]; exact hp.filterMap _
  rw [filterMap_range_getElem?] at h1
  have h2 : s'.entries.map (·.val) = (insertsOf ops).map (·.2.1) := by
    rw [← hk, ← frame_kvc hf]; simp [kvc]
  rw [← h2]; exact h1

/-! ### 3. capacity -/

/-- `usage` is the sum of the charges of the in-cache entries, and `ldb_lru_usage` reports it -/
theorem usage_is_sum (cap : Nat) (ops : List Op) (s : Shard) (outs : List Out)
    (hw : wf (Shard.empty cap) ops = true) (hr : run (Shard.empty cap) ops = some (s, outs)) :
    s.usage = sumCharge s.entries ∧ totalCharge s = s.usage :=
  ⟨(run_facts hw hr).1.usage, rfl⟩

/-- **capacity_respected**: after an `insert` (the only operation that evicts) either the shard is within its
    capacity or everything left in it is pinned.  From any state satisfying the invariant. -/
theorem capacity_respected (s : Shard) (hi : Inv s) (k : Bytes) (v c : Nat) :
    ∃ s', insert s k v c = some (s', s.entries.length) ∧ (s'.usage ≤ s'.capacity ∨ s'.lru = []) := by
  obtain ⟨s', h, _, sp⟩ := insert_inv s k v c hi; exact ⟨s', h, sp.respected⟩

/-- … and `lookup`, `erase`, `prune`, `total` keep it (prune even establishes `lru = []`) -/
theorem capacity_preserved (s s' : Shard) (op : Op) (o : Out) (hi : Inv s) (hne : ∀ id, op ≠ .release id)
    (hs : step s op = some (s', o)) (h : s.usage ≤ s.capacity ∨ s.lru = []) :
    s'.usage ≤ s'.capacity ∨ s'.lru = [] := by
  have hok : op.ok s := by cases op <;> simp [Op.ok]; exact absurd rfl (hne _)
  obtain ⟨s1, o1, hs1, _, sp⟩ := step_inv s op hi hok
  rw [hs] at hs1; cases hs1
  cases op with
  | insert k v c => exact sp.2.respected
  | lookup k =>
    obtain ⟨_, ls⟩ := sp
    rcases h with h | h
    · left; rw [ls.usage, ls.frame.cap]; exact h
    · right; rw [ls.lru, h]; rfl
  | release id => exact absurd rfl (hne id)
  | erase k =>
    obtain ⟨_, es⟩ := sp
    rcases h with h | h
    · left; rw [es.frame.cap]; exact Nat.le_trans es.usageLe h
    · right; apply List.eq_nil_iff_forall_not_mem.2; intro id hid; have := es.lruSub id hid; rw [h] at this; cases this
  | prune => right; exact sp.2.2
  | total => obtain ⟨_, rfl⟩ := sp; exact h

/-- `release` is the exception (as in LevelDB): it can leave an unpinned entry in a shard that is over its capacity —
    nothing is evicted until the next `insert`.  Capacity 1, two pinned entries of charge 1, one released. -/
example :
    ∃ s outs, run (Shard.empty 1) [.insert [1] 10 1, .insert [2] 20 1, .release 0] = some (s, outs) ∧
      s.usage = 2 ∧ s.capacity = 1 ∧ s.lru = [0] := by
  refine ⟨_, _, rfl, ?_⟩; decide +kernel

/-! ### 4. LRU order -/

/-- **lru_order**: `insert` first takes the old entry of the key (if any) out of the cache, then evicts a PREFIX of
    the LRU list — the entries unpinned longest ago first — passing exactly them to the deleter in that order, and
    stops as soon as the shard fits or nothing unpinned is left -/
theorem lru_order (s : Shard) (hi : Inv s) (k : Bytes) (v c : Nat) :
    ∃ s' n, insert s k v c = some (s', s.entries.length) ∧ n ≤ (insMid s k).length ∧
      s'.lru = (insMid s k).drop n ∧
      s'.deleted = s.deleted ++ insOld s k ++ (insMid s k).take n ∧
      (s'.usage ≤ s'.capacity ∨ s'.lru = []) := by
  obtain ⟨s', h, _, sp⟩ := insert_inv s k v c hi
  obtain ⟨n, hn, hl, hd⟩ := sp.order
  exact ⟨s', n, h, hn, hl, hd, sp.respected⟩

/-- how the LRU list is ordered: the LAST release of an in-cache entry appends it at the newest end … -/
theorem release_appends (s : Shard) (hi : Inv s) (id : Nat) (hh : id ∈ s.held) :
    ∃ s' e, release s id = some s' ∧ s.entries[id]? = some e ∧
      s'.lru = (if e.inCache = true ∧ s.held.count id = 1 then s.lru ++ [id] else s.lru) ∧
      s'.deleted = (if e.inCache = false ∧ s.held.count id = 1 then s.deleted ++ [id] else s.deleted) := by
  obtain ⟨s', h, _, sp⟩ := release_inv s id hi hh
  have hlt := hi.heldB id hh
  exact ⟨s', s.entries[id], h, by simp [hlt], sp.lru _ (by simp [hlt]), sp.deleted _ (by simp [hlt])⟩

/-- … a lookup hit takes the entry off the list (wherever it is) and deletes nothing; `prune` deletes the whole
    list, oldest first -/
theorem lookup_unlinks (s : Shard) (hi : Inv s) (k : Bytes) :
    ∃ s', lookup s k = some (s', s.table k) ∧ s'.deleted = s.deleted ∧
      s'.lru = s.lru.filter (fun x => s.table k != some x) := by
  obtain ⟨s', h, _, sp⟩ := lookup_inv s k hi; exact ⟨s', h, sp.deleted, sp.lru⟩

theorem prune_deletes_lru (s : Shard) (hi : Inv s) :
    ∃ s', prune s = some s' ∧ s'.lru = [] ∧ s'.deleted = s.deleted ++ s.lru ∧ s'.inUse = s.inUse ∧ s'.held = s.held := by
  obtain ⟨s', h, _, sp, hl⟩ := prune_inv s hi
  obtain ⟨n, hn, hd, hdel⟩ := sp.pre
  refine ⟨s', h, hl, ?_, sp.inUse, sp.held⟩
  have : s.lru.length ≤ n := by
    rw [hl] at hd
    have := congrArg List.length hd; simp at this; omega
  rw [hdel, List.take_of_length_le this]

/-! ### 5. structural invariants -/

/-- **invariants**: after any well-formed op sequence
    (a) `refs` = client handles + (1 if in cache);
    (b) an entry is on `lru` iff it is in the cache and `refs = 1`; on `in_use` iff in the cache and `refs ≥ 2`;
    (c) `lru` and `in_use` are duplicate-free, disjoint, and together hold exactly the in-cache entries;
    (d) the handle table maps a key to an entry iff that entry is in the cache and has that key
        (so at most one in-cache entry per key). -/
theorem invariants (cap : Nat) (ops : List Op) (s : Shard) (outs : List Out)
    (hw : wf (Shard.empty cap) ops = true) (hr : run (Shard.empty cap) ops = some (s, outs)) :
    (∀ id e, s.entries[id]? = some e → e.refs = s.held.count id + (if e.inCache then 1 else 0)) ∧
    (∀ id, id ∈ s.lru ↔ ∃ e, s.entries[id]? = some e ∧ e.inCache = true ∧ e.refs = 1) ∧
    (∀ id, id ∈ s.inUse ↔ ∃ e, s.entries[id]? = some e ∧ e.inCache = true ∧ 2 ≤ e.refs) ∧
    (s.lru.Nodup ∧ s.inUse.Nodup ∧ (∀ id, ¬ (id ∈ s.lru ∧ id ∈ s.inUse)) ∧
      ∀ id e, s.entries[id]? = some e → (e.inCache = true ↔ (id ∈ s.lru ∨ id ∈ s.inUse))) ∧
    (∀ k id, s.table k = some id ↔ ∃ e, s.entries[id]? = some e ∧ e.inCache = true ∧ e.key = k) := by
  obtain ⟨hi, _⟩ := run_facts hw hr
  refine ⟨hi.refs, hi.lruIff, hi.useIff, ⟨hi.ndLru, hi.ndUse, ?_, ?_⟩, ?_⟩
  · rintro id ⟨h1, h2⟩
    obtain ⟨e, he, _, hr1⟩ := (hi.lruIff id).1 h1
    obtain ⟨e', he', _, hr2⟩ := (hi.useIff id).1 h2
    rw [he] at he'; cases he'; omega
  · intro id e he
    constructor
    · intro hc
      have := hi.refs id e he; simp [hc] at this
      by_cases h1 : e.refs = 1
      · left; exact (hi.lruIff id).2 ⟨e, he, hc, h1⟩
      · right; exact (hi.useIff id).2 ⟨e, he, hc, by omega⟩
    · rintro (h | h)
      · obtain ⟨e', he', hc, _⟩ := (hi.lruIff id).1 h; rw [he] at he'; cases he'; exact hc
      · obtain ⟨e', he', hc, _⟩ := (hi.useIff id).1 h; rw [he] at he'; cases he'; exact hc
  · intro k id
    constructor
    · exact hi.tabIn k id
    · rintro ⟨e, he, hc, hk⟩; rw [← hk]; exact hi.tab id e he (by simp) hc

/-! ### the handle table -/

/-- **htable_is_map**: the open-hashing handle table of cache.c (chains, replace-in-place, resize when
    `elems > length`) answers every sequence of insert / remove / lookup exactly as a finite map keyed by (key, hash),
    ends up abstracting to that map, and keeps its structural invariant (every node in the bucket of its hash, no
    duplicate (key, hash), `elems` = number of nodes, bucket count a power of two ≥ 4, load factor ≤ 1) -/
theorem htable_is_map (ops : List HTable.HOp) :
    (HTable.runOps HTable.init ops).2 = (HTable.refRun (fun _ => none) ops).2 ∧
    HTable.abs (HTable.runOps HTable.init ops).1 = (HTable.refRun (fun _ => none) ops).1 ∧
    HTable.Inv (HTable.runOps HTable.init ops).1 :=
  HTable.is_map ops

/-! ### the 16-shard wrapper -/

/-- a key always selects one of the 16 shards (`hash >> 28` of a 32-bit hash) -/
theorem shardOf_lt (k : Bytes) : shardOf k < numShards := by
  have := ldbHash_lt k 0
  simp only [shardOf, lruHash, numShards]
  omega

/-- per-shard capacity of `ldb_lru_create`: rounded up, so 16 shards never hold less than `capacity` in total, and a
    positive capacity gives every shard a positive one; capacity 0 switches every shard off -/
theorem create_shards (capacity : Nat) :
    (Cache.create capacity).shards.length = 16 ∧
    (∀ s ∈ (Cache.create capacity).shards, s.capacity = (capacity + 15) / 16 ∧ Inv s) ∧
    capacity ≤ 16 * ((capacity + 15) / 16) ∧ ((capacity + 15) / 16 = 0 ↔ capacity = 0) := by
  refine ⟨by simp [Cache.create, numShards], ?_, by omega, by omega⟩
  intro s hs
  simp only [Cache.create, numShards, List.mem_replicate] at hs
  rw [hs.2]; exact ⟨rfl, inv_empty _⟩

/-- an operation on a key touches the shard of that key only and is that shard's operation -/
theorem cache_insert_local (c : Cache) (k : Bytes) (v ch : Nat) (s : Shard) (hs : c.shards[shardOf k]? = some s)
    (hi : Inv s) :
    ∃ s', insert s k v ch = some (s', s.entries.length) ∧ Inv s' ∧
      c.insert k v ch = some ({ c with shards := c.shards.set (shardOf k) s' }, (shardOf k, s.entries.length)) := by
  obtain ⟨s', h, hi', _⟩ := insert_inv s k v ch hi
  exact ⟨s', h, hi', by simp [Cache.insert, Cache.onShard, hs, h]⟩

/-- `ldb_lru_id` hands out 1, 2, 3, … (distinct until the 64-bit counter wraps): the `cache_id` prefixes of the block
    cache keys of different tables never coincide, and 0 (= "no block cache") is never handed out -/
theorem newId_fresh (c : Cache) (h : c.lastId + 1 < 2 ^ 64) :
    c.newId.2 = c.lastId + 1 ∧ c.newId.1.lastId = c.lastId + 1 ∧ c.newId.1.shards = c.shards := by
  simp [Cache.newId, Nat.mod_eq_of_lt h]

/-! ### non-vacuity -/

/-- a well-formed script in which overwrite-while-pinned, erase-while-pinned, evict-after-release, a revived lookup
    and a prune with a pinned entry all occur (capacity 2) -/
def demo : List Op :=
  [.insert [1] 10 1, .insert [2] 20 1, .release 0, .lookup [1], .release 0, .insert [1] 11 1,
   .erase [2], .insert [3] 30 1, .release 2, .insert [4] 40 1, .lookup [9], .prune, .total, .release 1]

example : wf (Shard.empty 2) demo = true := by decide +kernel

example : (run (Shard.empty 2) demo).map (·.2) =
    some [.handle (some 0), .handle (some 1), .unit, .handle (some 0), .unit, .handle (some 2), .unit,
          .handle (some 3), .unit, .handle (some 4), .handle none, .unit, .total 2, .unit] := by decide +kernel

example : (run (Shard.empty 2) demo).map (fun p => (p.1.deleted, p.1.lru, p.1.inUse)) = some ([0, 2, 1], [], [3, 4]) := by
  decide +kernel

example : (run (Shard.empty 2) demo).map (fun p => (p.1.held, p.1.usage)) = some ([3, 4], 2) := by decide +kernel

example : latest demo [1] = some 2 ∧ latest demo [2] = none ∧ latest demo [4] = some 4 := by decide +kernel

example : (shutdown ((run (Shard.empty 2) demo).get (by decide +kernel)).1).map (·.deleted) = some [0, 2, 1, 3, 4] := by decide +kernel

/-- releasing a handle that is not held is not well-formed, and the model refuses it -/
example : wf (Shard.empty 2) [.insert [1] 10 1, .release 0, .release 0] = false ∧
    run (Shard.empty 2) [.insert [1] 10 1, .release 0, .release 0] = none := by decide +kernel

/-! ### the whole 16-shard cache: scripts of cache-level ops (`COp`, `Cache.run`, Lemmas/LruCacheWrap.lean)

  Every statement is about ANY cache-level script that runs without fault from `Cache.create cap` (a script faults only by
  releasing a handle that is not held: `run_some_wf`), and is obtained by projecting the script to the 16 per-shard scripts
  (`cache_run_proj`) and applying the shard theorem. -/

/-- shard `i` after a cache script = the shard-level run of the projected script, which is well-formed -/
theorem cache_shard_run (cap : Nat) (ops : List COp) (c : Cache) (outs : List COut)
    (hr : (Cache.create cap).run ops = some (c, outs)) (i : Nat) (hi : i < 16) :
    ∃ s o, c.shards[i]? = some s ∧ run (Shard.empty ((cap + 15) / 16)) (proj i ops) = some (s, o) ∧
      wf (Shard.empty ((cap + 15) / 16)) (proj i ops) = true :=
  cache_run_proj _ c ops outs hr i _ (create_getElem? cap i hi)

theorem cache_shards_length (c c' : Cache) (ops : List COp) (outs : List COut) (h : c.run ops = some (c', outs)) :
    ∀ i : Nat, (∃ s, c'.shards[i]? = some s) ↔ (∃ s, c.shards[i]? = some s) := by
  induction ops generalizing c outs with
  | nil => simp [Cache.run] at h; obtain ⟨rfl, _⟩ := h; intro i; rfl
  | cons op ops ih =>
    simp only [Cache.run] at h
    cases hst : c.step op with
    | none => simp [hst] at h
    | some p =>
      obtain ⟨c1, o⟩ := p
      simp only [hst] at h
      cases hr : Cache.run c1 ops with
      | none => simp [hr] at h
      | some q =>
        obtain ⟨c2, os⟩ := q
        simp [hr] at h; obtain ⟨rfl, _⟩ := h
        intro i
        rw [ih c1 os hr i]
        -- one step keeps the set of shard indices
        have hlen : c1.shards.length = c.shards.length := by
          cases op with
          | insert k v ch =>
            simp only [Cache.step, Cache.insert] at hst
            cases hh : c.onShard (shardOf k) (fun s => (LruCache.insert s k v ch).map fun (s', h) => (s', (shardOf k, h))) with
            | none => simp [hh] at hst
            | some p => obtain ⟨c', a⟩ := p; simp [hh] at hst; obtain ⟨rfl, _⟩ := hst
                        obtain ⟨_, _, _, _, h3⟩ := onShard_spec _ _ _ _ _ hh; rw [h3]; simp
          | lookup k =>
            simp only [Cache.step, Cache.lookup] at hst
            cases hh : c.onShard (shardOf k) (fun s => (LruCache.lookup s k).map fun (s', h) => (s', h.map fun h => (shardOf k, h))) with
            | none => simp [hh] at hst
            | some p => obtain ⟨c', a⟩ := p; simp [hh] at hst; obtain ⟨rfl, _⟩ := hst
                        obtain ⟨_, _, _, _, h3⟩ := onShard_spec _ _ _ _ _ hh; rw [h3]; simp
          | release hd =>
            simp only [Cache.step, Cache.release] at hst
            cases hh : c.onShard hd.1 (fun s => (LruCache.release s hd.2).map fun s' => (s', ())) with
            | none => simp [hh] at hst
            | some p => obtain ⟨c', a⟩ := p; simp [hh] at hst; obtain ⟨rfl, _⟩ := hst
                        obtain ⟨_, _, _, _, h3⟩ := onShard_spec _ _ _ _ _ hh; rw [h3]; simp
          | erase k =>
            simp only [Cache.step, Cache.erase] at hst
            cases hh : c.onShard (shardOf k) (fun s => (LruCache.erase s k).map fun s' => (s', ())) with
            | none => simp [hh] at hst
            | some p => obtain ⟨c', a⟩ := p; simp [hh] at hst; obtain ⟨rfl, _⟩ := hst
                        obtain ⟨_, _, _, _, h3⟩ := onShard_spec _ _ _ _ _ hh; rw [h3]; simp
          | prune =>
            simp only [Cache.step, Cache.prune] at hst
            cases hm : mapM' LruCache.prune c.shards with
            | none => simp [hm] at hst
            | some ss => simp [hm] at hst; obtain ⟨rfl, _⟩ := hst; exact (mapM'_spec _ _ _ hm).1
        constructor
        · rintro ⟨s, hs⟩; have := getElem?_lt hs; rw [hlen] at this; exact ⟨c.shards[i], by simp [this]⟩
        · rintro ⟨s, hs⟩; have := getElem?_lt hs; rw [← hlen] at this; exact ⟨c1.shards[i], by simp [this]⟩

/-- every shard of the cache satisfies the shard invariant, and there are exactly 16 of them -/
theorem cache_inv (cap : Nat) (ops : List COp) (c : Cache) (outs : List COut)
    (hr : (Cache.create cap).run ops = some (c, outs)) (i : Nat) (s : Shard) (hs : c.shards[i]? = some s) :
    i < 16 ∧ Inv s := by
  have hi : i < 16 := by
    obtain ⟨s0, h0⟩ := (cache_shards_length _ _ _ _ hr i).1 ⟨s, hs⟩
    have := getElem?_lt h0; simpa [Cache.create, numShards] using this
  obtain ⟨s', o, h1, h2, h3⟩ := cache_shard_run cap ops c outs hr i hi
  rw [hs] at h1; cases h1
  exact ⟨hi, (run_facts h3 h2).1⟩

theorem projOp_eq_insert (i : Nat) (op : COp) (k : Bytes) (v ch : Nat) (h : projOp i op = [.insert k v ch]) :
    op = .insert k v ch := by
  cases op with
  | insert k2 v2 c2 =>
    simp only [projOp] at h; split at h
    · simp at h; obtain ⟨rfl, rfl, rfl⟩ := h; rfl
    · cases h
  | lookup k2 => simp only [projOp] at h; split at h <;> simp at h
  | release hd => simp only [projOp] at h; split at h <;> simp at h
  | erase k2 => simp only [projOp] at h; split at h <;> simp at h
  | prune => simp [projOp] at h

/-- **cache_lookup_coherent**: after any cache script, `ldb_lru_lookup(k)` does not fault and returns nothing, or a handle whose
    value is the value `v` of the LATEST `insert k v _` of the script, with no `erase k` after it — never a stale value of an
    older insert of `k`, never a value inserted under another key (whichever shard it lives in) -/
theorem cache_lookup_coherent (cap : Nat) (ops : List COp) (c : Cache) (outs : List COut)
    (hr : (Cache.create cap).run ops = some (c, outs)) (k : Bytes) :
    ∃ c' h, c.lookup k = some (c', h) ∧
      (h = none ∨ ∃ id v ch pre post, h = some (shardOf k, id) ∧ c'.value (shardOf k, id) = some v ∧
        ops = pre ++ .insert k v ch :: post ∧
        (∀ op ∈ post, op ≠ .erase k ∧ ∀ v' c', op ≠ .insert k v' c') ∧
        latest (proj (shardOf k) ops) k = some id) := by
  have hi := shardOf_lt k
  obtain ⟨s, o, hs, hrun, hwf⟩ := cache_shard_run cap ops c outs hr (shardOf k) hi
  obtain ⟨s', hl, hh⟩ := lookup_coherent _ _ s o hwf hrun k
  have hlt := getElem?_lt hs
  refine ⟨{ c with shards := c.shards.set (shardOf k) s' }, (s.table k).map fun h => (shardOf k, h),
    by simp [Cache.lookup, Cache.onShard, hs, hl], ?_⟩
  rcases hh with h | ⟨id, v, ch, h1, h2, h3, h4⟩
  · left; simp [h]
  · right
    obtain ⟨pre', post', v', c', he, _, hins, hpost⟩ := latest_spec _ k id h2
    rw [h3] at hins; simp at hins; obtain ⟨rfl, rfl⟩ := hins
    obtain ⟨pre, op, post, hops, hop, _, hpp⟩ := proj_split _ ops pre' post' _ he
    have hopeq : op = .insert k v ch := projOp_eq_insert _ op k v ch hop
    subst hopeq
    refine ⟨id, v, ch, pre, post, by simp [h1], ?_, hops, ?_, h2⟩
    · simp [Cache.value, hlt, h4]
    · intro op hop
      refine ⟨?_, ?_⟩
      · rintro rfl
        have := mem_proj (shardOf k) post _ hop (.erase k) (by simp [projOp])
        rw [hpp] at this; exact (hpost _ this).1 rfl
      · rintro v2 c2 rfl
        have := mem_proj (shardOf k) post _ hop (.insert k v2 c2) (by simp [projOp])
        rw [hpp] at this; exact (hpost _ this).2 v2 c2 rfl

/-- **cache_pinned_never_deleted**: a handle (shard, entry) the client holds is in no deleter log -/
theorem cache_pinned_never_deleted (cap : Nat) (ops : List COp) (c : Cache) (outs : List COut)
    (hr : (Cache.create cap).run ops = some (c, outs)) (h : Handle) (hh : h ∈ c.heldAll) : h ∉ c.deletedAll := by
  obtain ⟨i, id⟩ := h
  simp only [Cache.heldAll, Cache.deletedAll, mem_tagFrom, Nat.sub_zero, List.getElem?_map] at hh ⊢
  obtain ⟨_, x, hx, hid⟩ := hh
  rintro ⟨_, y, hy, hid'⟩
  cases hs : c.shards[i]? with
  | none => simp [hs] at hx
  | some s =>
    simp [hs] at hx hy; subst hx; subst hy
    obtain ⟨hi, _⟩ := cache_inv cap ops c outs hr i s hs
    obtain ⟨s', o, h1, h2, h3⟩ := cache_shard_run cap ops c outs hr i hi
    rw [hs] at h1; cases h1
    exact (pinned_never_deleted _ _ s o h3 h2 id hid).1 hid'

/-- **cache_deleted_once**: the concatenation of the 16 deleter logs (tagged with the shard) has no duplicate: no entry of the
    cache is passed to its deleter twice -/
theorem cache_deleted_once (cap : Nat) (ops : List COp) (c : Cache) (outs : List COut)
    (hr : (Cache.create cap).run ops = some (c, outs)) : c.deletedAll.Nodup := by
  apply nodup_tagFrom
  intro x hx
  simp only [List.mem_map] at hx
  obtain ⟨s, hs, rfl⟩ := hx
  obtain ⟨i, hi⟩ := List.mem_iff_getElem?.1 hs
  exact (cache_inv cap ops c outs hr i s hi).2.ndDel

/-- **cache_usage_is_sum**: `ldb_lru_usage` = the sum over the shards of the charges of their in-cache entries -/
theorem cache_usage_is_sum (cap : Nat) (ops : List COp) (c : Cache) (outs : List COut)
    (hr : (Cache.create cap).run ops = some (c, outs)) :
    c.totalCharge = (c.shards.map fun s => sumCharge s.entries).sum := by
  simp only [Cache.totalCharge]
  congr 1
  apply List.map_congr_left
  intro s hs
  obtain ⟨i, hi⟩ := List.mem_iff_getElem?.1 hs
  exact (cache_inv cap ops c outs hr i s hi).2.usage

/-- non-vacuity: keys `[0x61]` (shard 12) and `[0x62]` (shard 9) of a cache of capacity 16 (1 per shard) -/
def cdemo : List COp :=
  [.insert [0x61] 5 1, .insert [0x62] 6 1, .lookup [0x61], .release (12, 0), .release (12, 0), .insert [0x61] 7 1,
   .lookup [0x61], .erase [0x62], .prune]

example : shardOf [0x61] = 12 ∧ shardOf [0x62] = 9 := by decide +kernel

example : ((Cache.create 16).run cdemo).map (·.2) =
    some [.handle (some (12, 0)), .handle (some (9, 0)), .handle (some (12, 0)), .unit, .unit, .handle (some (12, 1)),
          .handle (some (12, 1)), .unit, .unit] := by decide +kernel

example : ((Cache.create 16).run cdemo).map (fun p => (p.1.deletedAll, p.1.heldAll, p.1.totalCharge)) =
    some ([(12, 0)], [(9, 0), (12, 1), (12, 1)], 1) := by decide +kernel

example : proj 12 cdemo = [.insert [0x61] 5 1, .lookup [0x61], .release 0, .release 0, .insert [0x61] 7 1, .lookup [0x61], .prune] ∧
    proj 9 cdemo = [.insert [0x62] 6 1, .erase [0x62], .prune] := by decide +kernel

end Lcdb.LruCache
