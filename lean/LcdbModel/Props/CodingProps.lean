/-
  Final theorems about the coding model (fixed-width, varint, length-prefixed slices).
-/
import LcdbModel.Lemmas.Coding
namespace Lcdb

/-! ### 1–3 fixed-width integers -/

theorem fixedDec_fixedEnc (w n : Nat) : fixedDec (fixedEnc w n) = n % 256 ^ w :=
  fixedDec_fixedEnc' w n

theorem fixedEnc_length (w n : Nat) : (fixedEnc w n).length = w :=
  fixedEnc_length' w n

theorem fixedRead_fixedEnc (w n : Nat) (rest : Bytes) (h : n < 256 ^ w) :
    fixedRead w (fixedEnc w n ++ rest) = some (n, rest) := by
  have hl := fixedEnc_length w n
  have h1 : ¬ (fixedEnc w n ++ rest).length < w := by
    rw [List.length_append, hl]; omega
  have h2 : (fixedEnc w n ++ rest).take w = fixedEnc w n := by
    rw [List.take_append_of_le_length (by omega), List.take_of_length_le (by omega)]
  have h3 : (fixedEnc w n ++ rest).drop w = rest := by
    have := @List.drop_left _ (fixedEnc w n) rest
    rwa [hl] at this
  unfold fixedRead
  rw [if_neg h1, h2, h3, fixedDec_fixedEnc, Nat.mod_eq_of_lt h]

/-- a successful fixed read consumes exactly `w` bytes and yields a `w`-byte value's decode -/
theorem fixedRead_consumes (w : Nat) (bs : Bytes) (v : Nat) (rest : Bytes)
    (h : fixedRead w bs = some (v, rest)) : w ≤ bs.length ∧ rest = bs.drop w := by
  unfold fixedRead at h
  by_cases hl : bs.length < w
  · simp [hl] at h
  · simp only [hl, if_false, Option.some.injEq, Prod.mk.injEq] at h
    exact ⟨by omega, h.2.symm⟩

/-! ### 4–6 varint round trips and length bounds -/

theorem varintEnc_length_le32 (n : Nat) (h : n < 2 ^ 32) : (varintEnc n).length ≤ 5 :=
  varintEnc_length_le 4 n (by omega)

theorem varintEnc_length_le64 (n : Nat) (h : n < 2 ^ 64) : (varintEnc n).length ≤ 10 :=
  varintEnc_length_le 9 n (by omega)

theorem varint32_roundtrip (n : Nat) (rest : Bytes) (h : n < 2 ^ 32) :
    varint32Read (varintEnc n ++ rest) = some (n, rest) := by
  unfold varint32Read
  rw [varintGo_varintEnc 32 n 5 0 0 rest (varintEnc_length_le32 n h)]
  simp only [Nat.pow_zero, Nat.mul_one, Nat.zero_add]
  rw [Nat.mod_eq_of_lt h]

theorem varint64_roundtrip (n : Nat) (rest : Bytes) (h : n < 2 ^ 64) :
    varint64Read (varintEnc n ++ rest) = some (n, rest) := by
  unfold varint64Read
  rw [varintGo_varintEnc 64 n 10 0 0 rest (varintEnc_length_le64 n h)]
  simp only [Nat.pow_zero, Nat.mul_one, Nat.zero_add]
  rw [Nat.mod_eq_of_lt h]

/-! ### 7 decoders consume a bounded, nonzero number of bytes -/

theorem varint32Read_consumes (bs : Bytes) (v : Nat) (rest : Bytes) :
    varint32Read bs = some (v, rest) →
      v < 2 ^ 32 ∧ ∃ k, 1 ≤ k ∧ k ≤ 5 ∧ rest = bs.drop k :=
  varintGo_consumes 32 5 0 0 bs v rest

theorem varint64Read_consumes (bs : Bytes) (v : Nat) (rest : Bytes) :
    varint64Read bs = some (v, rest) →
      v < 2 ^ 64 ∧ ∃ k, 1 ≤ k ∧ k ≤ 10 ∧ rest = bs.drop k :=
  varintGo_consumes 64 10 0 0 bs v rest

/-- a successful varint read needs a nonempty input and leaves a strict suffix -/
theorem varint32Read_rest_lt (bs : Bytes) (v : Nat) (rest : Bytes)
    (h : varint32Read bs = some (v, rest)) : rest.length < bs.length := by
  obtain ⟨_, k, hk1, _, hk⟩ := varint32Read_consumes bs v rest h
  have hne : bs ≠ [] := by
    intro he; subst he; simp [varint32Read, varintGo] at h
  have : 0 < bs.length := List.length_pos_iff.mpr hne
  rw [hk, List.length_drop]; omega

theorem varint64Read_rest_lt (bs : Bytes) (v : Nat) (rest : Bytes)
    (h : varint64Read bs = some (v, rest)) : rest.length < bs.length := by
  obtain ⟨_, k, hk1, _, hk⟩ := varint64Read_consumes bs v rest h
  have hne : bs ≠ [] := by
    intro he; subst he; simp [varint64Read, varintGo] at h
  have : 0 < bs.length := List.length_pos_iff.mpr hne
  rw [hk, List.length_drop]; omega

/-! ### 8–9 length-prefixed slices -/

theorem sliceRead_sliceEnc (s rest : Bytes) (h : s.length < 2 ^ 32) :
    sliceRead (sliceEnc s ++ rest) = some (s, rest) := by
  unfold sliceRead sliceEnc
  rw [List.append_assoc, varint32_roundtrip s.length (s ++ rest) h]
  have h1 : ¬ (s ++ rest).length < s.length := by
    rw [List.length_append]; omega
  simp only [h1, if_false]
  rw [List.take_left, List.drop_left]

theorem sliceRead_consumes (bs s rest : Bytes) :
    sliceRead bs = some (s, rest) → ∃ k, 1 ≤ k ∧ k ≤ 5 ∧ bs.drop k = s ++ rest := by
  intro h
  unfold sliceRead at h
  cases hv : varint32Read bs with
  | none => simp [hv] at h
  | some p =>
    obtain ⟨n, r⟩ := p
    simp only [hv] at h
    by_cases hl : r.length < n
    · simp [hl] at h
    · simp only [hl, if_false, Option.some.injEq, Prod.mk.injEq] at h
      obtain ⟨_, k, hk1, hk2, hk⟩ := varint32Read_consumes bs n r hv
      refine ⟨k, hk1, hk2, ?_⟩
      rw [← hk, ← h.1, ← h.2, List.take_append_drop]

/-- the remainder after a successful slice read is a strict suffix of the input -/
theorem sliceRead_rest_lt (bs s rest : Bytes) (h : sliceRead bs = some (s, rest)) :
    rest.length < bs.length := by
  obtain ⟨k, hk1, _, hk⟩ := sliceRead_consumes bs s rest h
  have hne : bs ≠ [] := by
    intro he; subst he; simp [sliceRead, varint32Read, varintGo] at h
  have hpos : 0 < bs.length := List.length_pos_iff.mpr hne
  have := congrArg List.length hk
  rw [List.length_drop, List.length_append] at this
  omega

/-! ### 10 behaviour on an over-long (non-canonical) fifth byte -/

/-- With four continuation bytes, the fifth byte's bits above bit 3 are shifted past bit 31
    and silently dropped by the 32-bit truncation (the C reader does not reject them). -/
theorem varint32_fifth_byte_truncates (b0 b1 b2 b3 b4 : UInt8) (rest : Bytes)
    (h0 : b0.toNat ≥ 128) (h1 : b1.toNat ≥ 128) (h2 : b2.toNat ≥ 128) (h3 : b3.toNat ≥ 128)
    (h4 : b4.toNat < 128) :
    varint32Read (b0 :: b1 :: b2 :: b3 :: b4 :: rest)
      = some ((b0.toNat % 128 + b1.toNat % 128 * 2 ^ 7 + b2.toNat % 128 * 2 ^ 14
                + b3.toNat % 128 * 2 ^ 21 + b4.toNat * 2 ^ 28) % 2 ^ 32, rest) := by
  have h4' : ¬ b4.toNat ≥ 128 := by omega
  simp only [varint32Read, varintGo, h0, h1, h2, h3, h4', if_true, if_false,
    Nat.zero_add, Nat.pow_zero, Nat.mul_one]

/-- five continuation bytes are rejected outright -/
theorem varint32_six_bytes_fail (b0 b1 b2 b3 b4 : UInt8) (rest : Bytes)
    (h0 : b0.toNat ≥ 128) (h1 : b1.toNat ≥ 128) (h2 : b2.toNat ≥ 128) (h3 : b3.toNat ≥ 128)
    (h4 : b4.toNat ≥ 128) :
    varint32Read (b0 :: b1 :: b2 :: b3 :: b4 :: rest) = none := by
  simp only [varint32Read, varintGo, h0, h1, h2, h3, h4, if_true]

/-! ### non-vacuity / concrete instances -/

example : fixedRead 4 (fixedEnc 4 0xDEADBEEF ++ [7]) = some (0xDEADBEEF, [7]) :=
  fixedRead_fixedEnc 4 0xDEADBEEF [7] (by decide)

example : varint32Read (varintEnc 300 ++ [9]) = some (300, [9]) :=
  varint32_roundtrip 300 [9] (by decide)

example : varint64Read (varintEnc (2 ^ 64 - 1) ++ []) = some (2 ^ 64 - 1, []) :=
  varint64_roundtrip (2 ^ 64 - 1) [] (by decide)

example : (varintEnc (2 ^ 32 - 1)).length = 5 := by
  simp [varintEnc_ge, varintEnc_lt]
example : (varintEnc (2 ^ 64 - 1)).length = 10 := by
  simp [varintEnc_ge, varintEnc_lt]

example : varint32Read [0xAC, 0x02, 0x55] = some (300, [0x55]) := by decide

example : sliceRead (sliceEnc [1, 2, 3] ++ [4]) = some ([1, 2, 3], [4]) :=
  sliceRead_sliceEnc [1, 2, 3] [4] (by decide)

/-- the non-canonical encoding `ff ff ff ff 7f` decodes to `2^32-1` (high bits of `7f` lost) -/
example : varint32Read [0xFF, 0xFF, 0xFF, 0xFF, 0x7F] = some (2 ^ 32 - 1, []) := by
  rw [varint32_fifth_byte_truncates 0xFF 0xFF 0xFF 0xFF 0x7F [] (by decide) (by decide)
    (by decide) (by decide) (by decide)]
  decide

/-- two distinct byte strings decode to the same value: the decoder is not injective -/
example : varint32Read [0xFF, 0xFF, 0xFF, 0xFF, 0x7F] = varint32Read [0xFF, 0xFF, 0xFF, 0xFF, 0x0F] := by
  decide

end Lcdb
