/-
  C15 -- write-ahead-log framing is exact, standard and torn-tail tolerant.
  Property theorems about Model/LogFormat.lean (helper lemmas live in Lemmas/).
-/
import LcdbModel.Props.Consts
import LcdbModel.Props.CrcTablesOk
import LcdbModel.Props.CodingProps
import LcdbModel.Props.CrcProps
import LcdbModel.Model.LogFormat
import LcdbModel.Lemmas.LogFormat
namespace Lcdb.C15
open Lcdb

/-! ### 1 block-offset invariant and fuel sufficiency of the writer -/

/-- `lw->block_offset ≤ kBlockSize` is preserved by `ldb_writer_add_record` -/
theorem addRecord_off_le (off : Nat) (rec : Bytes) (h : off ≤ logBlockSize) :
    (addRecord off rec).2 ≤ logBlockSize := addRecord_off_le' off rec h

theorem blockOffset_le (off : Nat) (rs : List Bytes) (h : off ≤ logBlockSize) :
    writeOff off rs ≤ logBlockSize := writeOff_le off rs h

/-- any fuel `≥ length + 2` gives the same result: the model's bound on the do/while is never hit -/
theorem addRecordGo_fuel (f1 f2 off : Nat) (left : Bytes) (b : Bool)
    (h1 : left.length + 2 ≤ f1) (h2 : left.length + 2 ≤ f2) (hoff : off ≤ logBlockSize) :
    addRecordGo f1 off left b = addRecordGo f2 off left b :=
  Lcdb.addRecordGo_fuel f1 f2 off left b h1 h2 hoff

/-! ### 2 the tracked block offset is the file position modulo the block size -/

theorem addRecord_offset (off : Nat) (rec : Bytes) (h : off ≤ logBlockSize) :
    (addRecord off rec).2 % logBlockSize = (off + (addRecord off rec).1.length) % logBlockSize :=
  addRecordGo_offset _ off rec true h

/-! ### 3 writing is compositional; reopening a log for append (log reuse) -/

/-- at a block boundary the writer behaves the same whether it tracks `32768` or `0` -/
theorem addRecord_off_block (rec : Bytes) : addRecord logBlockSize rec = addRecord 0 rec :=
  Lcdb.addRecord_off_block rec

theorem write_compositional (off : Nat) (a b : List Bytes) (h : off ≤ logBlockSize) :
    ∃ off', off' ≤ logBlockSize ∧
      off' % logBlockSize = (off + (writeFrom off a).length) % logBlockSize ∧
      writeFrom off (a ++ b) = writeFrom off a ++ writeFrom off' b :=
  ⟨writeOff off a, writeOff_le off a h, writeOff_mod off a h, writeFrom_append off a b⟩

/-- `ldb_writer_init(dst, length)` on an existing log continues exactly where the first writer stopped -/
theorem write_reuse (a b : List Bytes) :
    writeAll 0 (a ++ b) = writeAll 0 a ++ writeAll (writeAll 0 a).length b := by
  have h0 : (0 : Nat) ≤ logBlockSize := Nat.zero_le _
  have hle := writeOff_le 0 a h0
  have hmod := writeOff_mod 0 a h0
  show writeFrom 0 (a ++ b) = writeFrom 0 a ++ writeFrom ((writeFrom 0 a).length % logBlockSize) b
  rw [writeFrom_append]
  congr 1
  rw [Nat.zero_add] at hmod
  rw [← hmod]
  by_cases hc : writeOff 0 a = logBlockSize
  · rw [hc, Nat.mod_self, writeFrom_off_block]
  · rw [Nat.mod_eq_of_lt (by omega)]

/-! ### 4, 5 round trip and torn tail -/

/-- number of records whose last byte lies before the cut at `n` bytes -/
def wholeBefore (rs : List Bytes) (n : Nat) : Nat := ((recordEnds 0 rs).filter (· ≤ n)).length

/-- `recordEnds 0 rs` really is the list of lengths of `writeAll 0` of the non-empty prefixes -/
theorem recordEnds_spec (rs : List Bytes) :
    recordEnds 0 rs = (List.range rs.length).map fun i => (writeAll 0 (rs.take (i + 1))).length := rfl

/-- A log written from an empty file and cut at an arbitrary byte position `n` reads back as exactly
    the records lying wholly before the cut, and the reader reports no corruption. -/
theorem read_truncated (rs : List Bytes) (n : Nat) :
    readAll ((writeAll 0 rs).take n) = (rs.take (wholeBefore rs n), []) := by
  have hw : writeAll 0 rs = writeFrom logBlockSize rs := by
    show writeFrom 0 rs = _
    rw [writeFrom_off_block]
  have hev : readAllEvents true ((writeAll 0 rs).take n)
      = (rs.take (wholeBefore rs n)).map REvent.record := by
    unfold readAllEvents
    rw [hw, readAllGo_write rs logBlockSize n _ _ [] (Nat.le_refl _) (RInv_init _) (Nat.le_refl _),
      wholeFrom_off_block, wholeFrom_eq, List.nil_append]
    rfl
  unfold readAll
  simp only [hev, recordsOf_map_record, dropsOf_map_record]

theorem wholeBefore_le (rs : List Bytes) (n : Nat) : wholeBefore rs n ≤ rs.length := by
  unfold wholeBefore
  refine Nat.le_trans (List.length_filter_le _ _) ?_
  simp [recordEnds]

/-- the untruncated file contains every record -/
theorem wholeBefore_full (rs : List Bytes) (n : Nat) (h : (writeAll 0 rs).length ≤ n) :
    wholeBefore rs n = rs.length := by
  unfold wholeBefore
  rw [← wholeFrom_eq]
  exact wholeFrom_ge rs 0 _ h

/-- every record sequence written from an empty file reads back identically, no drop reported -/
theorem read_write (rs : List Bytes) : readAll (writeAll 0 rs) = (rs, []) := by
  have := read_truncated rs (writeAll 0 rs).length
  rw [List.take_length] at this
  rw [this]
  rw [wholeBefore_full rs _ (Nat.le_refl _), List.take_length]

/-! ### 6 soundness of the reader on arbitrary bytes (checksums on)

`readAllEvents` is a total function (structural recursion on fuel), so the reader terminates on
every input; `readAllEvents_total` records the trivial consequence.  `read_sound`: whatever the
bytes, every record handed to the caller is the concatenation of the payloads of a chain of
physical records typed FULL or FIRST MIDDLE* LAST, each of which occurs verbatim in the source as
`emitPhysical ty payload`, i.e. with a 7-byte header whose stored masked CRC equals
`crcMask (crc32c (ty ‖ payload))`, whose stored length is `payload.length`, and whose type is `ty`. -/

theorem readAllEvents_total (checksum : Bool) (src : Bytes) : ∃ ev, readAllEvents checksum src = ev :=
  ⟨_, rfl⟩

theorem read_sound (src : Bytes) :
    ∀ r ∈ recordsOf (readAllEvents true src),
      ∃ frags : List (Nat × Bytes),
        r = (frags.map (·.2)).flatten ∧
        (frags.map (·.1) = [tyFull] ∨
          ∃ k, frags.map (·.1) = tyFirst :: (List.replicate k tyMiddle ++ [tyLast])) ∧
        ∀ f ∈ frags, emitPhysical f.1 f.2 <:+: src := by
  intro r hr
  have hinit : SrcInv src { buffer := [], rest := src, eof := false } := List.suffix_refl _
  exact readAllGo_sound src (src.length + 2) _ [] hinit (by simp [recordsOf]) r hr

/-- same statement for the pair returned by `readAll` -/
theorem readAll_sound (src : Bytes) :
    ∀ r ∈ (readAll src).1,
      ∃ frags : List (Nat × Bytes),
        r = (frags.map (·.2)).flatten ∧
        (frags.map (·.1) = [tyFull] ∨
          ∃ k, frags.map (·.1) = tyFirst :: (List.replicate k tyMiddle ++ [tyLast])) ∧
        ∀ f ∈ frags, emitPhysical f.1 f.2 <:+: src :=
  read_sound src

/-- the header of an `emitPhysical` really carries the masked CRC of type ‖ payload -/
theorem emitPhysical_crc (ty : Nat) (frag : Bytes) :
    crcUnmask (BitVec.ofNat 32 (fixedDec ((emitPhysical ty frag).take 4)))
      = crc32c (UInt8.ofNat ty :: frag) := by
  obtain ⟨c0, c1, c2, c3, he, hc⟩ := emitPhysical_cons ty frag
  rw [he]
  simp only [List.take_succ_cons, List.take_zero]
  rw [hc, mask_unmask]
  exact (crc32c_append [UInt8.ofNat ty] frag).symm

/-! ### 7 non-vacuity / concrete instances -/

set_option maxRecDepth 100000 in
example : readAll (writeAll 0 [[1, 2, 3], [], List.replicate 300 7])
    = ([[1, 2, 3], [], List.replicate 300 7], []) := by decide +kernel

/-- a record spanning two blocks (instance of the theorem; kernel evaluation of 40 kB CRCs is slow) -/
example : readAll (writeAll 0 [[1, 2, 3], [], List.replicate 40000 7])
    = ([[1, 2, 3], [], List.replicate 40000 7], []) := read_write _

example : (writeAll 0 [[1, 2, 3], [4, 5]]).length = 19 := by decide +kernel
example : wholeBefore [[1, 2, 3], [4, 5]] 18 = 1 := by decide +kernel
example : wholeBefore [[1, 2, 3], [4, 5]] 9 = 0 := by decide +kernel

/-- torn tail: the cut record silently disappears -/
example : readAll ((writeAll 0 [[1, 2, 3], [4, 5]]).take 18) = ([[1, 2, 3]], []) := by decide +kernel

/-- the same through the theorem -/
example : readAll ((writeAll 0 [[1, 2, 3], [4, 5]]).take 18) = ([[1, 2, 3], [4, 5]].take 1, []) := by
  have h : wholeBefore [[1, 2, 3], [4, 5]] 18 = 1 := by decide +kernel
  rw [← h]; exact read_truncated _ 18

/-- damage that is not a truncation IS reported (so "no drop" in `read_truncated` is not vacuous):
    flipping the last payload byte of the first record drops the rest of the block (19 bytes) -/
example : readAll ((writeAll 0 [[1, 2, 3], [4, 5]]).set 9 0) = ([], [19]) := by decide +kernel

/-- log reuse on concrete data -/
example : writeAll 0 ([[1], [2, 3]] ++ [[4]]) = writeAll 0 [[1], [2, 3]] ++ writeAll 17 [[4]] :=
  write_reuse [[1], [2, 3]] [[4]]

/-- the writer pads a block trailer shorter than a header with zeros -/
example : (addRecord 32765 [9]).1.take 3 = [0, 0, 0] ∧ (addRecord 32765 [9]).2 = 8 := by decide +kernel

/-- exactly seven bytes left: an empty FIRST fragment is emitted, then the block switches -/
example : (addRecord 32761 [9]).2 = 8 ∧ (addRecord 32761 [9]).1.length = 15 := by decide +kernel

end Lcdb.C15
