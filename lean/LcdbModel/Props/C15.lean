/-
  C15 -- write-ahead-log framing is exact, standard and torn-tail tolerant.
  Property theorems about Model/LogFormat.lean (helper lemmas live in Lemmas/).
-/
import LcdbModel.Props.Consts
import LcdbModel.Props.CrcTablesOk
import LcdbModel.Props.CodingProps
import LcdbModel.Props.CrcProps
import LcdbModel.Model.LogFormat
namespace Lcdb.C15
open Lcdb

end Lcdb.C15
