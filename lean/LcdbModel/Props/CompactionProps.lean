/-
  The compaction MECHANISM (`Model/Compaction.lean`: the merged input, drop rules (A) and (B), the
  base-level test with its monotone pointers) meets the compaction CONTRACT (`stepOk (.compact ..)`,
  clause (c) of `Model/Lsm.lean`), from which `Props/C06.lean` derives that every view at or above the
  smallest protected sequence is preserved.

  Only the property theorems are here; helper lemmas are in `Lemmas/Compaction.lean`.
-/
import LcdbModel.Lemmas.Compaction
import LcdbModel.Props.C06
import LcdbModel.Props.IterProps
namespace Lcdb.Compaction
open Lcdb

/-! ### 1. what the loop sees: the merged input -/

/-- the merge of strictly sorted runs with pairwise different internal keys is strictly sorted and a
    permutation of all their entries -/
theorem mergeInputs_sorted_perm (c : Cmp) (runs : List Run) (hs : ∀ r ∈ runs, RunSorted c r)
    (hd : DistinctKeys c runs) :
    RunSorted c (mergeInputs c runs) ∧ (mergeInputs c runs).Perm runs.flatten :=
  mergeInputs_sorted_perm' c runs hs hd

/-- hence it is the run `mergedRun c runs` that the merging iterator walks (`C07x.merge_is_cursor`) -/
theorem mergeInputs_eq_mergedRun (c : Cmp) (runs : List Run) (hs : ∀ r ∈ runs, RunSorted c r)
    (hd : DistinctKeys c runs) : mergeInputs c runs = mergedRun c runs := by
  obtain ⟨h1, h2⟩ := mergeInputs_sorted_perm c runs hs hd
  exact sorted_perm_eq h1 (Merge.mergedRun_sorted c runs hd) (h2.trans (Merge.mergedRun_perm c runs).symm)

/-- `C07x.merge_is_cursor` restated: the merging iterator that `ldb_inputiter_create` builds over the input
    runs, after ANY operation sequence (in particular `first` followed by `next`s, which is how the loop
    drives it), stands where a plain cursor over `mergeInputs c runs` stands -/
theorem inputIter_walks_mergeInputs (c : Cmp) (runs : List Run) (hs : ∀ r ∈ runs, RunSorted c r)
    (hd : DistinctKeys c runs) (ops : List InternalOp) :
    ∃ mi p, (mergeIterI c).run ops (mergeCreate (C07x.freshChildren runs)) = some mi ∧
      (runIter c (mergeInputs c runs)).run ops none = some p ∧
      mi.valid = (runEntry (mergeInputs c runs) p).isSome ∧
      mi.entry = runEntry (mergeInputs c runs) p ∧ mi.status = .ok := by
  rw [mergeInputs_eq_mergedRun c runs hs hd]
  exact C07x.merge_is_cursor c runs hs hd ops

/-! ### 2. the loop only drops -/

theorem dropLoop_sublist (c : Cmp) (sm : Nat) (isBase : Bytes → Bool) (r : Run) :
    (dropLoop c sm isBase r).Sublist r :=
  dropLoopFrom_sublist c sm isBase {} r

/-- entries are drawn from the input, and sortedness is preserved -/
theorem dropLoop_mem_sorted (c : Cmp) (sm : Nat) (isBase : Bytes → Bool) (r : Run) :
    (∀ e ∈ dropLoop c sm isBase r, e ∈ r) ∧ (RunSorted c r → RunSorted c (dropLoop c sm isBase r)) :=
  ⟨fun _ he => (dropLoop_sublist c sm isBase r).mem he,
   fun hs => List.Pairwise.sublist (dropLoop_sublist c sm isBase r) hs⟩

/-! ### 3. the stateful base-level test computes the stateless one -/

/-- the loop exactly as C runs it (monotone `level_ptrs`, short-circuit evaluation) equals the loop with the
    stateless test "no deeper file's user-key range contains the key", when the deeper levels are sorted
    with well-formed bounds and the user keys of the merged input ascend.
    Invariant (`PtrsOk`): each pointer has only skipped files whose largest user key is below every key
    still to come. -/
theorem dropLoopPtr_eq_dropLoop (c : Cmp) (sm : Nat) (deeper : List (List FileMeta)) (r : Run)
    (hs : ∀ files ∈ deeper, LevelSorted c files)
    (hw : ∀ files ∈ deeper, ∀ f ∈ files, c.compare f.sk f.lk ≠ .gt)
    (hr : RunSorted c r) :
    dropLoopPtrFrom c sm deeper {} (deeper.map fun _ => 0) r =
      dropLoop c sm (fun k => !deeper.any (·.any (fileContainsUser c · k))) r :=
  dropLoopPtrFrom_eq c sm deeper hs hw {} _ r hr (fun e _ => ptrsOk_zero c e.ukey deeper)

/-- under the state invariant, for input files taken in order from `level` and `level + 1` -/
theorem expectedOutput_eq_spec (c : Cmp) (st : DbState) (level : Nat) (in0 in1 : List FileMeta) (sm : Nat)
    (h : Inv c st) (h0 : in0.Sublist (st.level level)) (h1 : in1.Sublist (st.level (level + 1))) :
    expectedOutput c st level in0 in1 sm = expectedOutputSpec c st level in0 in1 sm := by
  unfold expectedOutput expectedOutputSpec
  exact dropLoopPtr_eq_dropLoop c sm _ _ (deeper_sorted h level)
    (fun files hf f hff => (deeper_filesOk h _ files hf f hff).sk_le_lk) (merged_sorted_perm h h0 h1).1

/-! ### 4. the drop rules preserve the answer at every sequence from `sm` on -/

/-- the core: at every sequence `s ≥ sm` the output answers for `k` like the input, except that a
    deletion marker at or below `sm` for a key the base-level test accepts may turn into absence -/
theorem dropLoop_sameAnswer (c : Cmp) (sm : Nat) (isBase : Bytes → Bool) (r : Run)
    (hs : RunSorted c r) (hk : ∀ e ∈ r, e.kind ≤ 1) (hnt : KeyNoTies r) (k : Bytes) (s : Nat) (hsm : sm ≤ s) :
    newestVisible c (dropLoop c sm isBase r) k s = newestVisible c r k s ∨
    ∃ a, newestVisible c r k s = some a ∧ a.kind = 0 ∧ isBase a.ukey = true ∧ a.seq ≤ sm ∧
      newestVisible c (dropLoop c sm isBase r) k s = none := by
  have hsub := dropLoop_sublist c sm isBase r
  have hnt' : KeyNoTies (dropLoop c sm isBase r) :=
    fun x hx y hy => hnt x (hsub.mem hx) y (hsub.mem hy)
  cases hn : newestVisible c r k s with
  | none =>
    left
    rw [newestVisible_eq_none_iff] at hn ⊢
    exact fun e he => hn e (hsub.mem he)
  | some a =>
    obtain ⟨ha1, ha2, ha3, ha4⟩ := newestVisible_spec hn
    have hA : NotShadowed sm r a := by
      intro q hq hqk hlt
      have := ha4 q hq (hqk.trans ha2)
      omega
    cases hB : ruleB sm isBase a with
    | false =>
      left
      have hmem := (mem_dropLoop_iff c sm isBase r hs hk hnt a).mpr ⟨ha1, hA, hB⟩
      exact newestVisible_eq_some_of hnt' hmem ha2 ha3 (fun e he => ha4 e (hsub.mem he))
    | true =>
      right
      have hB' : a.kind = 0 ∧ a.seq ≤ sm ∧ isBase a.ukey = true := by
        simpa [ruleB, and_assoc] using hB
      refine ⟨a, rfl, hB'.1, hB'.2.2, hB'.2.1, ?_⟩
      rw [newestVisible_eq_none_iff]
      intro e he hek hes
      obtain ⟨he1, he2, he3⟩ := (mem_dropLoop_iff c sm isBase r hs hk hnt e).mp he
      have hle := ha4 e he1 hek hes
      by_cases heq : e.seq = a.seq
      · have : e = a := hnt e he1 a ha1 (hek.trans ha2.symm) heq
        rw [this, hB] at he3
        cases he3
      · have := he2 a ha1 (ha2.trans hek.symm) (by omega)
        omega

/-- the converse safety fact (at EVERY sequence, no hypothesis): the output never shows anything the input
    does not hold, so what it answers is never newer than what the input answers -/
theorem dropLoop_not_newer (c : Cmp) (sm : Nat) (isBase : Bytes → Bool) (r : Run) (k : Bytes) (s : Nat) :
    (newestVisible c r k s = none → newestVisible c (dropLoop c sm isBase r) k s = none) ∧
    ∀ b, newestVisible c (dropLoop c sm isBase r) k s = some b →
      b ∈ r ∧ ∃ a, newestVisible c r k s = some a ∧ b.seq ≤ a.seq := by
  have hsub := dropLoop_sublist c sm isBase r
  constructor
  · intro hn
    rw [newestVisible_eq_none_iff] at hn ⊢
    exact fun e he => hn e (hsub.mem he)
  · intro b hb
    obtain ⟨hb1, hb2, hb3, _⟩ := newestVisible_spec hb
    refine ⟨hsub.mem hb1, ?_⟩
    cases hn : newestVisible c r k s with
    | none => exact absurd hb3 ((newestVisible_eq_none_iff.mp hn) b (hsub.mem hb1) hb2)
    | some a => exact ⟨a, rfl, (newestVisible_spec hn).2.2.2 b (hsub.mem hb1) hb2 hb3⟩

/-! ### 5. the mechanism meets clause (c) of the contract -/

/-- for EVERY user key and EVERY sequence `s ≥ sm`: the concatenated outputs answer like the inputs -/
theorem expectedOutput_sameAnswer (c : Cmp) (st : DbState) (level : Nat) (in0 in1 : List Nat) (sm : Nat)
    (h : Inv c st) (hnt : NoSeqTies c st) (k : Bytes) (s : Nat) (hsm : sm ≤ s) :
    sameAnswer c st level (compactIns st level in0 in1)
      (expectedOutput c st level (pickNums (st.level level) in0) (pickNums (st.level (level + 1)) in1) sm)
      k s = true := by
  have h0 : (pickNums (st.level level) in0).Sublist (st.level level) := List.filter_sublist
  have h1 : (pickNums (st.level (level + 1)) in1).Sublist (st.level (level + 1)) := List.filter_sublist
  rw [expectedOutput_eq_spec c st level _ _ sm h h0 h1]
  unfold expectedOutputSpec
  obtain ⟨hsorted, hperm⟩ := merged_sorted_perm h h0 h1
  generalize mergeInputs c (inputRuns level (pickNums (st.level level) in0) (pickNums (st.level (level + 1)) in1))
    = M at hsorted hperm
  have hperm' : M.Perm (compactIns st level in0 in1) := hperm
  have hKins : KeyNoTies (compactIns st level in0 in1) :=
    fun x hx y hy => hnt.keyNoTies x (compactIns_sub hx) y (compactIns_sub hy)
  have hKM : KeyNoTies M :=
    fun x hx y hy => hKins x (hperm'.mem_iff.mp hx) y (hperm'.mem_iff.mp hy)
  have hkM : ∀ e ∈ M, e.kind ≤ 1 := fun e he => h.kinds e (compactIns_sub (hperm'.mem_iff.mp he))
  have hins : newestVisible c (compactIns st level in0 in1) k s = newestVisible c M k s :=
    newestVisible_congr hKM (fun e _ _ => hperm'.mem_iff.symm)
  unfold sameAnswer
  rw [hins]
  rcases dropLoop_sameAnswer c sm (isBaseSpec c st.levels level) M hsorted hkM hKM k s hsm with heq | ⟨a, ha, hk0, hbase, _, hnone⟩
  · rw [heq]
    cases newestVisible c M k s with
    | none => rfl
    | some a => simp
  · rw [ha, hnone]
    have hak : a.ukey = k := (newestVisible_spec ha).2.1
    have := isBaseSpec_sound h level a.ukey hbase
    rw [hak] at this
    simp [hk0, this]

/-- the three conjuncts of clause (c) of `stepOk c st (.compact level in0 in1 outs)`, literally, for a
    compaction whose tables hold `expectedOutput` computed with a smallest snapshot `sm` that is not above
    the smallest protected sequence.  (`in0 ⊆` file numbers of `level` etc. are not needed here:
    `pickNums` ignores numbers that name no file.) -/
theorem expectedOutput_meets_contract (c : Cmp) (st : DbState) (level : Nat) (in0 in1 : List Nat)
    (outs : List FileMeta) (sm : Nat) (h : Inv c st) (hnt : NoSeqTies c st)
    (hsm : sm ≤ smallestProtected st)
    (hout : outs.flatMap (·.run) =
      expectedOutput c st level (pickNums (st.level level) in0) (pickNums (st.level (level + 1)) in1) sm) :
    let ins := (pickNums (st.level level) in0 ++ pickNums (st.level (level + 1)) in1).flatMap (·.run)
    let outEntries := outs.flatMap (·.run)
    (∀ e ∈ outEntries, e ∈ ins) ∧
    (∀ e ∈ ins, ∀ s ∈ protectedSeqs st, sameAnswer c st level ins outEntries e.ukey s = true) ∧
    (∀ e ∈ ins, ∀ e' ∈ ins, e'.seq ≥ smallestProtected st →
      sameAnswer c st level ins outEntries e.ukey e'.seq = true) := by
  intro ins outEntries
  have h0 : (pickNums (st.level level) in0).Sublist (st.level level) := List.filter_sublist
  have h1 : (pickNums (st.level (level + 1)) in1).Sublist (st.level (level + 1)) := List.filter_sublist
  have hsame : ∀ k s, sm ≤ s → sameAnswer c st level ins outEntries k s = true := by
    intro k s hs
    show sameAnswer c st level (compactIns st level in0 in1) (outs.flatMap (·.run)) k s = true
    rw [hout]
    exact expectedOutput_sameAnswer c st level in0 in1 sm h hnt k s hs
  refine ⟨?_, ?_, ?_⟩
  · intro e he
    have he' : e ∈ expectedOutput c st level (pickNums (st.level level) in0)
        (pickNums (st.level (level + 1)) in1) sm := by rw [← hout]; exact he
    rw [expectedOutput_eq_spec c st level _ _ sm h h0 h1] at he'
    exact (merged_sorted_perm h h0 h1).2.mem_iff.mp ((dropLoop_sublist _ _ _ _).mem he')
  · intro e _ s hs
    exact hsame e.ukey s (Nat.le_trans hsm (smallestProtected_le st s hs))
  · intro e _ e' _ hge
    exact hsame e.ukey e'.seq (Nat.le_trans hsm hge)

/-! ### 6. hence the mechanism preserves every view from the smallest protected sequence on -/

/-- everything `stepOk c st (.compact level in0 in1 outs)` asks for except clause (c): the side
    conditions and clauses (a), (a'), (b) — they concern which files are picked and how the output is
    cut into files, not what the loop drops -/
def compactFrame (c : Cmp) (st : DbState) (level : Nat) (in0 in1 : List Nat) (outs : List FileMeta) : Prop :=
  let ins := (pickNums (st.level level) in0 ++ pickNums (st.level (level + 1)) in1).flatMap (·.run)
  level + 1 < 7 ∧ in0 ≠ [] ∧
  (∀ n ∈ in0, ∃ f ∈ st.level level, f.num = n) ∧ (∀ n ∈ in1, ∃ f ∈ st.level (level + 1), f.num = n) ∧
  (∀ g ∈ removeNums (st.level level) in0, ∀ f ∈ pickNums (st.level level) in0, NewerThan c g.run f.run) ∧
  (∀ g ∈ removeNums (st.level (level + 1)) in1, NewerThan c g.run ins) ∧
  (∀ f ∈ outs, FileOk c f) ∧
  LevelSorted c (addFiles c (level + 1) (removeNums (st.level (level + 1)) in1) outs) ∧
  (∀ f ∈ outs, (∀ g ∈ allFiles st, g.num = f.num → g ∈ pickNums (st.level level) in0 ∧ outs = [g])) ∧
  outs.Pairwise (fun f g => f.num ≠ g.num)

instance (c : Cmp) (st : DbState) (level : Nat) (in0 in1 : List Nat) (outs : List FileMeta) :
    Decidable (compactFrame c st level in0 in1 outs) := by
  unfold compactFrame; infer_instance

/-- a compaction that writes `expectedOutput` (however cut into files) and respects the frame is a
    contract-respecting step -/
theorem mechanism_stepOk (c : Cmp) (st : DbState) (level : Nat) (in0 in1 : List Nat)
    (outs : List FileMeta) (sm : Nat) (h : Inv c st) (hnt : NoSeqTies c st)
    (hframe : compactFrame c st level in0 in1 outs) (hsm : sm ≤ smallestProtected st)
    (hout : outs.flatMap (·.run) =
      expectedOutput c st level (pickNums (st.level level) in0) (pickNums (st.level (level + 1)) in1) sm) :
    stepOk c st (.compact level in0 in1 outs) := by
  obtain ⟨a1, a2, a3, a4, a5, a6, a7, a8, a9, a10⟩ := hframe
  obtain ⟨c1, c2, c3⟩ := expectedOutput_meets_contract c st level in0 in1 outs sm h hnt hsm hout
  exact ⟨a1, a2, a3, a4, a5, a6, a7, a8, a9, a10, c1, c2, c3⟩

/-- ... and therefore changes no view at any sequence `q ≥ smallestProtected st` (and keeps `Inv`) -/
theorem mechanism_preserves_view (c : Cmp) (st : DbState) (level : Nat) (in0 in1 : List Nat)
    (outs : List FileMeta) (sm : Nat) (h : Inv c st) (hnt : NoSeqTies c st)
    (hframe : compactFrame c st level in0 in1 outs) (hsm : sm ≤ smallestProtected st)
    (hout : outs.flatMap (·.run) =
      expectedOutput c st level (pickNums (st.level level) in0) (pickNums (st.level (level + 1)) in1) sm)
    (k : Bytes) (q : Nat) (hq : smallestProtected st ≤ q) :
    view c (allEntries (applyStep c st (.compact level in0 in1 outs))) k q = view c (allEntries st) k q ∧
    Inv c (applyStep c st (.compact level in0 in1 outs)) := by
  have hok := mechanism_stepOk c st level in0 in1 outs sm h hnt hframe hsm hout
  exact ⟨C06.compact_preserves_view_above c st level in0 in1 outs h hnt hok k q hq,
    C14.step_preserves_inv c st _ h hok⟩

/-! ### 7. the bound `sm ≤ smallestProtected st` is needed -/

/-- below the smallest snapshot the loop does change answers: with `sm = 6`, the value `(k, 3)` is dropped
    by rule (A) because `(k, 5)` shadows it from sequence 5 on; a reader at sequence 4 (which no live
    snapshot is) would see the key vanish.  Rule (B) is not involved (`isBase` constantly false). -/
theorem dropLoop_not_safe_below_smallest :
    ∃ (r : Run) (sm s : Nat) (k : Bytes),
      RunSorted .bytewise r ∧ (∀ e ∈ r, e.kind ≤ 1) ∧ KeyNoTies r ∧ s < sm ∧
      view .bytewise r k s = some "old" ∧
      view .bytewise (dropLoop .bytewise sm (fun _ => false) r) k s = none ∧
      newestVisible .bytewise (dropLoop .bytewise sm (fun _ => false) r) k s ≠ newestVisible .bytewise r k s :=
  ⟨[⟨[1], 5, 1, "new"⟩, ⟨[1], 3, 1, "old"⟩], 6, 4, [1],
    by decide, by decide, by decide, by decide, by decide, by decide, by decide⟩

/-! ### non-vacuity: a concrete state where rule (A), rule (B) at the base level, and rule (B) refused
    because a deeper level holds the key all fire -/

namespace Ex
open Lcdb.C14.Ex

def e5 : FileMeta := mkFile 5 [⟨k1, 7, 1, "x"⟩]
def e4 : FileMeta := mkFile 4 [⟨k1, 5, 0, ""⟩, ⟨k3, 6, 0, ""⟩]
def e3 : FileMeta := mkFile 3 [⟨k1, 3, 1, "z"⟩, ⟨k3, 2, 1, "v"⟩]
def e2 : FileMeta := mkFile 2 [⟨k1, 1, 1, "old"⟩]
/-- two overlapping level-0 files, one level-1 file, one level-2 file that holds `k1` but not `k3`;
    one live snapshot at sequence 6 -/
def stE : DbState :=
  { mem := [], imm := none, levels := [[e5, e4], [e3], [e2], [], [], [], []],
    lastSeq := 10, snaps := [6], nextFile := 7 }
/-- what the level 0 -> 1 compaction of everything writes -/
def e8 : FileMeta := mkFile 8 [⟨k1, 7, 1, "x"⟩, ⟨k1, 5, 0, ""⟩]

theorem invE : Inv .bytewise stE := inv_of_invRel (by decide)
theorem ntE : NoSeqTies .bytewise stE := by decide

/-- 1. the hypotheses of `mergeInputs_sorted_perm` hold for the three input runs, and the merged input is -/
theorem mergedE : mergeInputs .bytewise (inputRuns 0 [e5, e4] [e3]) =
    [⟨k1, 7, 1, "x"⟩, ⟨k1, 5, 0, ""⟩, ⟨k1, 3, 1, "z"⟩, ⟨k3, 6, 0, ""⟩, ⟨k3, 2, 1, "v"⟩] := by
  rw [mergeInputs_eq_mergedRun _ _ (by decide) (by decide)]
  decide

example : (inputRuns 0 [e5, e4] [e3]).length = 3 ∧ (∀ r ∈ inputRuns 0 [e5, e4] [e3], RunSorted .bytewise r) ∧
    DistinctKeys .bytewise (inputRuns 0 [e5, e4] [e3]) := by decide

/-- the base-level test: level 2 holds `k1` (range `[k1, k1]`), nothing deeper holds `k3` -/
example : isBaseSpec .bytewise stE.levels 0 k1 = false ∧ isBaseSpec .bytewise stE.levels 0 k3 = true := by
  decide
/-- the pointer walk for `k3` moves the level-2 pointer past `e2` -/
example : isBasePtr .bytewise k3 (stE.levels.drop 2) [0, 0, 0, 0, 0] = (true, [1, 0, 0, 0, 0]) ∧
    isBasePtr .bytewise k1 (stE.levels.drop 2) [0, 0, 0, 0, 0] = (false, [0, 0, 0, 0, 0]) := by decide

/-- rule (A): `(k1, 3)` comes after `(k1, 5)` and `5 ≤ 6` -/
example : (stepEntry .bytewise 6 (isBaseSpec .bytewise stE.levels 0)
    { curKey := some k1, lastSeq := some 5 } ⟨k1, 3, 1, "z"⟩).1 = true := by decide
/-- rule (B) at the base level: the deletion `(k3, 6)` is the first entry of its key, `6 ≤ 6`, base level -/
example : (stepEntry .bytewise 6 (isBaseSpec .bytewise stE.levels 0)
    { curKey := some k1, lastSeq := some 3 } ⟨k3, 6, 0, ""⟩).1 = true := by decide
/-- rule (B) refused: the deletion `(k1, 5)` is not hidden (`7 > 6`), `5 ≤ 6`, but level 2 holds `k1`;
    were it the base level it would be dropped -/
example : (stepEntry .bytewise 6 (isBaseSpec .bytewise stE.levels 0)
      { curKey := some k1, lastSeq := some 7 } ⟨k1, 5, 0, ""⟩).1 = false ∧
    (stepEntry .bytewise 6 (fun _ => true) { curKey := some k1, lastSeq := some 7 } ⟨k1, 5, 0, ""⟩).1 = true := by
  decide

/-- the whole loop, literal and with the stateless test -/
theorem outE : expectedOutput .bytewise stE 0 [e5, e4] [e3] 6 = [⟨k1, 7, 1, "x"⟩, ⟨k1, 5, 0, ""⟩] := by
  unfold expectedOutput
  rw [mergedE]
  decide
example : expectedOutputSpec .bytewise stE 0 [e5, e4] [e3] 6 = [⟨k1, 7, 1, "x"⟩, ⟨k1, 5, 0, ""⟩] := by
  rw [← expectedOutput_eq_spec _ _ _ _ _ _ invE (by decide) (by decide)]
  exact outE

/-- 4. hypotheses of `dropLoop_sameAnswer` on the merged input; the tombstone-to-absence case really occurs
    (`k3` at sequence 8) and so does the plain case (`k1` at sequence 6) -/
example : let r : Run := [⟨k1, 7, 1, "x"⟩, ⟨k1, 5, 0, ""⟩, ⟨k1, 3, 1, "z"⟩, ⟨k3, 6, 0, ""⟩, ⟨k3, 2, 1, "v"⟩]
    RunSorted .bytewise r ∧ (∀ e ∈ r, e.kind ≤ 1) ∧ KeyNoTies r ∧
    newestVisible .bytewise r k3 8 = some ⟨k3, 6, 0, ""⟩ ∧
    newestVisible .bytewise (dropLoop .bytewise 6 (isBaseSpec .bytewise stE.levels 0) r) k3 8 = none ∧
    newestVisible .bytewise r k1 6 = some ⟨k1, 5, 0, ""⟩ ∧
    newestVisible .bytewise (dropLoop .bytewise 6 (isBaseSpec .bytewise stE.levels 0) r) k1 6 =
      some ⟨k1, 5, 0, ""⟩ := by decide

/-- 5./6. the compaction of all of level 0 and level 1 that writes `e8` -/
theorem houtE : [e8].flatMap (·.run) =
    expectedOutput .bytewise stE 0 (pickNums (stE.level 0) [4, 5]) (pickNums (stE.level 1) [3]) 6 := by
  have p0 : pickNums (stE.level 0) [4, 5] = [e5, e4] := by decide
  have p1 : pickNums (stE.level 1) [3] = [e3] := by decide
  rw [p0, p1, outE]
  decide

theorem frameE : compactFrame .bytewise stE 0 [4, 5] [3] [e8] := by decide

example : smallestProtected stE = 6 := by decide

example : stepOk .bytewise stE (.compact 0 [4, 5] [3] [e8]) :=
  mechanism_stepOk _ _ _ _ _ _ 6 invE ntE frameE (by decide) houtE

example (k : Bytes) (q : Nat) (hq : 6 ≤ q) :
    view .bytewise (allEntries (applyStep .bytewise stE (.compact 0 [4, 5] [3] [e8]))) k q =
      view .bytewise (allEntries stE) k q :=
  (mechanism_preserves_view _ _ _ _ _ _ 6 invE ntE frameE (by decide) houtE k q hq).1

/-- 7. on the state: below the snapshot the view does change (`(k1, 3)` gone, level 2 shows through) -/
example : view .bytewise (allEntries stE) k1 4 = some "z" ∧
    view .bytewise (allEntries (applyStep .bytewise stE (.compact 0 [4, 5] [3] [e8]))) k1 4 = some "old" := by
  decide

/-- and a smallest snapshot ABOVE the smallest protected sequence breaks the contract: with `sm = 10`
    (as if snapshot 6 were ignored) `(k1, 5)` is hidden by `(k1, 7)` and the snapshot's answer changes -/
example : ¬ stepOk .bytewise stE (.compact 0 [4, 5] [3] [mkFile 8 [⟨k1, 7, 1, "x"⟩]]) ∧
    expectedOutput .bytewise stE 0 [e5, e4] [e3] 10 = [⟨k1, 7, 1, "x"⟩] := by
  refine ⟨by decide, ?_⟩
  unfold expectedOutput
  rw [mergedE]
  decide

end Ex

end Lcdb.Compaction
