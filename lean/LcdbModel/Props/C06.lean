import LcdbModel.Model.Lsm
import LcdbModel.Model.DbIter
namespace Lcdb.C06
open Lcdb

end Lcdb.C06
