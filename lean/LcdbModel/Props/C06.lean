/-
  C06 / C01 at the model level: views are preserved.

  * background work (memtable switch, flush, compaction, snapshot bookkeeping) does not change what
    any protected sequence (the present, every live snapshot) sees;
  * a write changes nothing at or below the old last sequence, and at the new last sequence the
    view is the old one updated by the batch;
  * hence a snapshot's view is immutable until it is released, and the state reached by any run
    from the empty database answers like the plain log of its writes.
-/
import LcdbModel.Props.C14
import LcdbModel.Lemmas.LsmStepsView
namespace Lcdb.C06
open Lcdb Lcdb.C14

/-! ### which entries a step keeps -/

theorem mem_allEntries_flush (c : Cmp) (st : DbState) (level : Nat) (f : FileMeta) (h : Inv c st)
    (hs : stepOk c st (.flush level f)) (e : Entry) :
    e ∈ allEntries (applyStep c st (.flush level f)) ↔ e ∈ allEntries st := by
  obtain ⟨himm, _, hl, _, _⟩ := hs
  have hl' : level < st.levels.length := by rw [h.nlevels]; exact hl
  have hmf := mem_allFiles_addFileState c st level f none (max st.nextFile (f.num + 1)) hl'
  constructor
  · intro he
    rcases mem_allEntries.mp he with he1 | ⟨r, hr, _⟩ | ⟨g, hg, he3⟩
    · exact mem_allEntries.mpr (.inl he1)
    · cases hr
    · rcases (hmf g).mp hg with rfl | hg'
      · exact mem_allEntries.mpr (.inr (.inl ⟨g.run, Option.mem_def.mpr himm, he3⟩))
      · exact mem_allEntries.mpr (.inr (.inr ⟨g, hg', he3⟩))
  · intro he
    rcases mem_allEntries.mp he with he1 | ⟨r, hr, he2⟩ | ⟨g, hg, he3⟩
    · exact mem_allEntries.mpr (.inl he1)
    · have : r = f.run := by
        have := Option.mem_def.mp hr
        rw [himm] at this
        exact (Option.some.inj this).symm
      subst this
      exact mem_allEntries.mpr (.inr (.inr ⟨f, (hmf f).mpr (.inl rfl), he2⟩))
    · exact mem_allEntries.mpr (.inr (.inr ⟨g, (hmf g).mpr (.inr hg), he3⟩))

theorem allEntries_switchMem (c : Cmp) (st : DbState) (hs : stepOk c st .switchMem) :
    allEntries (applyStep c st .switchMem) = allEntries st := by
  have himm : st.imm = none := hs
  simp [allEntries, applyStep, allFiles, himm]

theorem allEntries_dropImm (c : Cmp) (st : DbState) (hs : stepOk c st .dropImm) :
    allEntries (applyStep c st .dropImm) = allEntries st := by
  have himm : st.imm = some [] := hs
  simp [allEntries, applyStep, allFiles, himm]

theorem mem_level_compact_of_unpicked (c : Cmp) (st : DbState) (level : Nat) (in0 in1 : List Nat)
    (outs : List FileMeta) (hl : level + 1 < st.levels.length) {i : Nat} {g : FileMeta}
    (hg : g ∈ st.level i) (h0 : i = level → g.num ∉ in0) (h1 : i = level + 1 → g.num ∉ in1) :
    g ∈ (applyStep c st (.compact level in0 in1 outs)).level i := by
  rw [level_compact c st level in0 in1 outs hl]
  split
  · rename_i e; subst e
    exact mem_addFiles.mpr (.inl (mem_removeNums.mpr ⟨hg, h1 rfl⟩))
  · split
    · rename_i e; subst e
      exact mem_removeNums.mpr ⟨hg, h0 rfl⟩
    · exact hg

theorem mem_level_compact_of_outs (c : Cmp) (st : DbState) (level : Nat) (in0 in1 : List Nat)
    (outs : List FileMeta) (hl : level + 1 < st.levels.length) {g : FileMeta} (hg : g ∈ outs) :
    g ∈ (applyStep c st (.compact level in0 in1 outs)).level (level + 1) := by
  rw [level_compact c st level in0 in1 outs hl]
  simp only [if_true]
  exact mem_addFiles.mpr (.inr hg)

/-- an entry of the state after a compaction is in memory, in an output, or in an unpicked file -/
theorem compact_entries_cases (c : Cmp) (st : DbState) (level : Nat) (in0 in1 : List Nat)
    (outs : List FileMeta) (hl : level + 1 < st.levels.length) {e : Entry}
    (he : e ∈ allEntries (applyStep c st (.compact level in0 in1 outs))) :
    e ∈ st.mem ∨ (∃ r ∈ st.imm, e ∈ r) ∨ e ∈ outs.flatMap (·.run) ∨
      ∃ i g, g ∈ st.level i ∧ (i = level → g.num ∉ in0) ∧ (i = level + 1 → g.num ∉ in1) ∧ e ∈ g.run := by
  rcases mem_allEntries.mp he with he1 | he2 | ⟨g, hg, he3⟩
  · exact .inl he1
  · exact .inr (.inl he2)
  · obtain ⟨i, hi⟩ := mem_allFiles.mp hg
    rcases mem_level_compact c st level in0 in1 outs hl i g hi with hi' | hi'
    · exact .inr (.inr (.inr ⟨i, g, hi'.1, hi'.2.1, hi'.2.2, he3⟩))
    · exact .inr (.inr (.inl (List.mem_flatMap.mpr ⟨g, hi'.1, he3⟩)))

theorem compact_entries_sub (c : Cmp) (st : DbState) (level : Nat) (in0 in1 : List Nat)
    (outs : List FileMeta) (hl : level + 1 < st.levels.length)
    (hsub : ∀ e ∈ outs.flatMap (·.run), e ∈ compactIns st level in0 in1) {e : Entry}
    (he : e ∈ allEntries (applyStep c st (.compact level in0 in1 outs))) : e ∈ allEntries st := by
  rcases compact_entries_cases c st level in0 in1 outs hl he with h | h | h | ⟨i, g, hg, _, _, heg⟩
  · exact mem_allEntries.mpr (.inl h)
  · exact mem_allEntries.mpr (.inr (.inl h))
  · exact compactIns_sub (hsub e h)
  · exact mem_allEntries.mpr (.inr (.inr ⟨g, mem_allFiles.mpr ⟨i, hg⟩, heg⟩))

/-- an entry of the old state survives the compaction or was one of its inputs -/
theorem compact_entries_kept (c : Cmp) (st : DbState) (level : Nat) (in0 in1 : List Nat)
    (outs : List FileMeta) (hl : level + 1 < st.levels.length) {e : Entry}
    (he : e ∈ allEntries st) :
    e ∈ allEntries (applyStep c st (.compact level in0 in1 outs)) ∨ e ∈ compactIns st level in0 in1 := by
  rcases mem_allEntries.mp he with he1 | he2 | ⟨g, hg, he3⟩
  · exact .inl (mem_allEntries.mpr (.inl he1))
  · exact .inl (mem_allEntries.mpr (.inr (.inl he2)))
  · obtain ⟨i, hi⟩ := mem_allFiles.mp hg
    by_cases h0 : i = level ∧ g.num ∈ in0
    · obtain ⟨rfl, h0⟩ := h0
      exact .inr (mem_compactIns.mpr ⟨g, .inl ⟨hi, h0⟩, he3⟩)
    · by_cases h1 : i = level + 1 ∧ g.num ∈ in1
      · obtain ⟨rfl, h1⟩ := h1
        exact .inr (mem_compactIns.mpr ⟨g, .inr ⟨hi, h1⟩, he3⟩)
      · refine .inl (mem_allEntries.mpr (.inr (.inr ⟨g, mem_allFiles.mpr ⟨i, ?_⟩, he3⟩)))
        apply mem_level_compact_of_unpicked c st level in0 in1 outs hl hi
        · intro e1 e2; exact h0 ⟨e1, e2⟩
        · intro e1 e2; exact h1 ⟨e1, e2⟩

theorem compact_outs_mem (c : Cmp) (st : DbState) (level : Nat) (in0 in1 : List Nat)
    (outs : List FileMeta) (hl : level + 1 < st.levels.length) {e : Entry}
    (he : e ∈ outs.flatMap (·.run)) : e ∈ allEntries (applyStep c st (.compact level in0 in1 outs)) := by
  obtain ⟨g, hg, heg⟩ := List.mem_flatMap.mp he
  exact mem_allEntries.mpr (.inr (.inr
    ⟨g, mem_allFiles.mpr ⟨_, mem_level_compact_of_outs c st level in0 in1 outs hl hg⟩, heg⟩))

/-! ### background steps preserve views -/

theorem flush_preserves_view (c : Cmp) (st : DbState) (level : Nat) (f : FileMeta) (h : Inv c st)
    (hnt : NoSeqTies c st) (hs : stepOk c st (.flush level f)) (k : Bytes) (q : Nat) :
    view c (allEntries (applyStep c st (.flush level f))) k q = view c (allEntries st) k q :=
  view_congr hnt.keyNoTies (fun e _ _ => mem_allEntries_flush c st level f h hs e)

theorem switchMem_preserves_view (c : Cmp) (st : DbState) (hs : stepOk c st .switchMem)
    (k : Bytes) (q : Nat) :
    view c (allEntries (applyStep c st .switchMem)) k q = view c (allEntries st) k q := by
  rw [allEntries_switchMem c st hs]

theorem dropImm_preserves_view (c : Cmp) (st : DbState) (hs : stepOk c st .dropImm)
    (k : Bytes) (q : Nat) :
    view c (allEntries (applyStep c st .dropImm)) k q = view c (allEntries st) k q := by
  rw [allEntries_dropImm c st hs]

/-- 7. snapshot bookkeeping changes no view at all -/
theorem other_snapshots_irrelevant (c : Cmp) (st : DbState) (s' : Nat) (k : Bytes) (q : Nat) :
    view c (allEntries (applyStep c st .snapshot)) k q = view c (allEntries st) k q ∧
    view c (allEntries (applyStep c st (.release s'))) k q = view c (allEntries st) k q ∧
    allEntries (applyStep c st .snapshot) = allEntries st ∧
    allEntries (applyStep c st (.release s')) = allEntries st :=
  ⟨rfl, rfl, rfl, rfl⟩

/-- the heart of compaction correctness: if the outputs answer like the inputs for key `k` at
    sequence `q` (contract (c)), the whole state does -/
theorem compact_view_of_sameAnswer (c : Cmp) (st : DbState) (level : Nat) (in0 in1 : List Nat)
    (outs : List FileMeta) (h : Inv c st) (hnt : NoSeqTies c st)
    (hs : stepOk c st (.compact level in0 in1 outs)) (k : Bytes) (q : Nat)
    (hsame : ∀ e ∈ compactIns st level in0 in1, e.ukey = k →
      sameAnswer c st level (compactIns st level in0 in1) (outs.flatMap (·.run)) k q = true) :
    view c (allEntries (applyStep c st (.compact level in0 in1 outs))) k q =
      view c (allEntries st) k q := by
  obtain ⟨hl, _, _, _, hstay, hstay1, _, _, _, _, hsub, _, _⟩ := hs
  have hl' : level + 1 < st.levels.length := by rw [h.nlevels]; exact hl
  have hK := hnt.keyNoTies
  have hR := h.toRec
  have hF1 : ∀ e, e ∈ allEntries (applyStep c st (.compact level in0 in1 outs)) → e ∈ allEntries st :=
    fun e he => compact_entries_sub c st level in0 in1 outs hl' hsub he
  have hK' : KeyNoTies (allEntries (applyStep c st (.compact level in0 in1 outs))) :=
    fun x hx y hy => hK x (hF1 x hx) y (hF1 y hy)
  cases hn : newestVisible c (allEntries st) k q with
  | none =>
    have : newestVisible c (allEntries (applyStep c st (.compact level in0 in1 outs))) k q = none := by
      rw [newestVisible_eq_none_iff] at hn ⊢
      exact fun e he => hn e (hF1 e he)
    simp [view, hn, this]
  | some m =>
    obtain ⟨hm1, hm2, hm3, hm4⟩ := newestVisible_spec hn
    by_cases hmE' : m ∈ allEntries (applyStep c st (.compact level in0 in1 outs))
    · have : newestVisible c (allEntries (applyStep c st (.compact level in0 in1 outs))) k q = some m :=
        newestVisible_eq_some_of hK' hmE' hm2 hm3 (fun e he => hm4 e (hF1 e he))
      simp [view, hn, this]
    · have hmins : m ∈ compactIns st level in0 in1 :=
        (compact_entries_kept c st level in0 in1 outs hl' hm1).resolve_left hmE'
      have hKins : KeyNoTies (compactIns st level in0 in1) :=
        fun x hx y hy => hK x (compactIns_sub hx) y (compactIns_sub hy)
      have ha : newestVisible c (compactIns st level in0 in1) k q = some m :=
        newestVisible_eq_some_of hKins hmins hm2 hm3 (fun e he => hm4 e (compactIns_sub he))
      have hsa := hsame m hmins hm2
      unfold sameAnswer at hsa
      rw [ha] at hsa
      cases hb : newestVisible c (outs.flatMap (·.run)) k q with
      | some b =>
        rw [hb] at hsa
        simp at hsa
        subst hsa
        exact absurd (compact_outs_mem c st level in0 in1 outs hl' (newestVisible_spec hb).1) hmE'
      | none =>
        rw [hb] at hsa
        simp at hsa
        obtain ⟨hkind, hdeep⟩ := hsa
        have hnone : newestVisible c (allEntries (applyStep c st (.compact level in0 in1 outs))) k q
            = none := by
          rw [newestVisible_eq_none_iff]
          intro e he hek hes
          have hle := hm4 e (hF1 e he) hek hes
          have hne : e ≠ m := fun h => hmE' (h ▸ he)
          have hlt : e.seq < m.seq := by
            by_cases heq : e.seq = m.seq
            · exact absurd (hK e (hF1 e he) m hm1 (hek.trans hm2.symm) heq) hne
            · omega
          obtain ⟨gm, hgm, hmgm⟩ := mem_compactIns.mp hmins
          have hgmFile : gm ∈ allFiles st := by
            rcases hgm with hgm | hgm
            · exact mem_allFiles.mpr ⟨_, hgm.1⟩
            · exact mem_allFiles.mpr ⟨_, hgm.1⟩
          have hcmp : c.compare e.ukey m.ukey = .eq := (cmp_eq_iff c _ _).mpr (hek.trans hm2.symm)
          rcases compact_entries_cases c st level in0 in1 outs hl' he with
            he1 | ⟨r, hr, he2⟩ | he3 | ⟨i, g, hg, hu0, hu1, heg⟩
          · have := hR.memFiles gm hgmFile e he1 m hmgm hcmp
            omega
          · have := hR.immFiles r hr gm hgmFile e he2 m hmgm hcmp
            omega
          · exact (newestVisible_eq_none_iff.mp hb) e he3 hek hes
          · by_cases hi1 : i < level
            · rcases hgm with hgm | hgm
              · have := hR.levels i level hi1 g hg gm hgm.1 e heg m hmgm hcmp
                omega
              · have := hR.levels i (level + 1) (by omega) g hg gm hgm.1 e heg m hmgm hcmp
                omega
            · by_cases hi2 : i = level
              · subst hi2
                rcases hgm with hgm | hgm
                · have := hstay g (mem_removeNums.mpr ⟨hg, hu0 rfl⟩) gm (mem_pickNums.mpr hgm)
                    e heg m hmgm hcmp
                  omega
                · have := hR.levels i (i + 1) (by omega) g hg gm hgm.1 e heg m hmgm hcmp
                  omega
              · by_cases hi3 : i = level + 1
                · subst hi3
                  have := hstay1 g (mem_removeNums.mpr ⟨hg, hu1 rfl⟩) e heg m hmins hcmp
                  omega
                · have := keyInDeeperLevels_of_mem (c := c) (level := level + 1) (by omega) hg heg hek
                  rw [this] at hdeep
                  cases hdeep
        have hk1 : (m.kind == 1) = false := by simp [hkind]
        simp [view, hn, hnone, hk1]

theorem compact_preserves_view (c : Cmp) (st : DbState) (level : Nat) (in0 in1 : List Nat)
    (outs : List FileMeta) (h : Inv c st) (hnt : NoSeqTies c st)
    (hs : stepOk c st (.compact level in0 in1 outs)) (k : Bytes) (q : Nat)
    (hq : q ∈ protectedSeqs st) :
    view c (allEntries (applyStep c st (.compact level in0 in1 outs))) k q =
      view c (allEntries st) k q := by
  apply compact_view_of_sameAnswer c st level in0 in1 outs h hnt hs k q
  intro e he hk
  have := hs.2.2.2.2.2.2.2.2.2.2.2.1 e he q hq
  rw [hk] at this
  exact this

/-- 4. background work preserves the view at every protected sequence -/
theorem background_preserves_view (c : Cmp) (st : DbState) (s : Step) (h : Inv c st)
    (hnt : NoSeqTies c st) (hs : stepOk c st s) (hbg : s.isBackground = true) (k : Bytes) (q : Nat)
    (hq : q ∈ protectedSeqs st) :
    view c (allEntries (applyStep c st s)) k q = view c (allEntries st) k q := by
  cases s with
  | write ops => cases hbg
  | addL0 f => cases hbg
  | switchMem => exact switchMem_preserves_view c st hs k q
  | flush level f => exact flush_preserves_view c st level f h hnt hs k q
  | dropImm => exact dropImm_preserves_view c st hs k q
  | compact level in0 in1 outs => exact compact_preserves_view c st level in0 in1 outs h hnt hs k q hq
  | snapshot => rfl
  | release s => rfl
  | bumpNextFile n => rfl

/-! ### writes -/

theorem allEntries_write (c : Cmp) (st : DbState) (ops : List WOp) :
    allEntries (applyStep c st (.write ops)) =
      applyOps c st.mem (st.lastSeq + 1) ops ++ (st.imm.getD [] ++ (allFiles st).flatMap (·.run)) := by
  simp [allEntries, applyStep, allFiles]

theorem allEntries_eq (st : DbState) :
    allEntries st = st.mem ++ (st.imm.getD [] ++ (allFiles st).flatMap (·.run)) := by
  simp [allEntries]

/-- 5. a write is invisible at every sequence up to the old last sequence, and at the new last
    sequence the view is the old one updated by the batch -/
theorem write_view (c : Cmp) (st : DbState) (ops : List WOp) (h : Inv c st)
    (_hs : stepOk c st (.write ops)) (k : Bytes) :
    (∀ q, q ≤ st.lastSeq →
      view c (allEntries (applyStep c st (.write ops))) k q = view c (allEntries st) k q) ∧
    view c (allEntries (applyStep c st (.write ops))) k (st.lastSeq + ops.length) =
      applyOpsView c k ops (view c (allEntries st) k st.lastSeq) := by
  constructor
  · intro q hq
    rw [allEntries_write, allEntries_eq st]
    have hv : ∀ rest : List Entry,
        visibleEntries c (applyOps c st.mem (st.lastSeq + 1) ops ++ rest) k q =
          visibleEntries c (st.mem ++ rest) k q := by
      intro rest
      unfold visibleEntries
      rw [List.filter_append, List.filter_append, filter_applyOps_of_false]
      intro e he
      have := (mem_opsEntries he).1
      have : ¬ e.seq ≤ q := by omega
      simp [this]
    unfold view newestVisible
    rw [hv]
  · rw [allEntries_write, allEntries_eq st]
    apply view_applyOps
    intro x hx
    exact h.seqBound x (by rw [allEntries_eq st]; exact hx)

/-! ### `NoSeqTies` is an invariant of reachable states -/

theorem initial_entries : allEntries emptyState = [] := rfl

theorem initial_noSeqTies (c : Cmp) : NoSeqTies c emptyState := by
  intro x hx
  rw [initial_entries] at hx
  cases hx

theorem write_preserves_noSeqTies (c : Cmp) (st : DbState) (ops : List WOp) (h : Inv c st)
    (hnt : NoSeqTies c st) : NoSeqTies c (applyStep c st (.write ops)) := by
  have hmem : ∀ e, e ∈ allEntries (applyStep c st (.write ops)) →
      e ∈ allEntries st ∨ e ∈ opsEntries (st.lastSeq + 1) ops := by
    intro e he
    rw [allEntries_write] at he
    rw [allEntries_eq st]
    rcases List.mem_append.mp he with he | he
    · rcases mem_applyOps.mp he with he | he
      · exact .inl (List.mem_append.mpr (.inl he))
      · exact .inr he
    · exact .inl (List.mem_append.mpr (.inr he))
  intro x hx y hy hk hs
  rcases hmem x hx with hx' | hx' <;> rcases hmem y hy with hy' | hy'
  · exact hnt x hx' y hy' hk hs
  · have := h.seqBound x hx'
    have := (mem_opsEntries hy').1
    omega
  · have := h.seqBound y hy'
    have := (mem_opsEntries hx').1
    omega
  · exact opsEntries_seq_inj hx' hy' hs

theorem addL0_preserves_noSeqTies (c : Cmp) (st : DbState) (f : FileMeta) (h : Inv c st)
    (hnt : NoSeqTies c st) (hs : stepOk c st (.addL0 f)) :
    NoSeqTies c (applyStep c st (.addL0 f)) := by
  obtain ⟨_, hmem, himm, _, hsrc, _, hties, _⟩ := hs
  have hl' : 0 < st.levels.length := by rw [h.nlevels]; omega
  have hmf := mem_allFiles_addFileState c st 0 f st.imm (max st.nextFile (f.num + 1)) hl'
  have hcases : ∀ e, e ∈ allEntries (applyStep c st (.addL0 f)) →
      e ∈ f.run ∨ ∃ g ∈ allFiles st, e ∈ g.run := by
    intro e he
    rcases mem_allEntries.mp he with he1 | ⟨r, hr, _⟩ | ⟨g, hg, he3⟩
    · have : e ∈ st.mem := he1
      rw [hmem] at this; cases this
    · have : r ∈ st.imm := hr
      rw [himm] at this; cases this
    · rcases (hmf g).mp hg with rfl | hg'
      · exact .inl he3
      · exact .inr ⟨g, hg', he3⟩
  have hnew : ∀ x ∈ f.run, ∀ g ∈ allFiles st, ∀ y ∈ g.run, c.compare x.ukey y.ukey = .eq →
      x.seq > y.seq := by
    intro x hx g hg y hy hk
    obtain ⟨r, hr, hsub⟩ := sourceRuns_cover st hg
    exact hsrc r hr x hx y (hsub y hy) hk
  intro x hx y hy hk hs
  rcases hcases x hx with hx' | ⟨g, hg, hx'⟩ <;> rcases hcases y hy with hy' | ⟨g', hg', hy'⟩
  · exact hties x hx' y hy' hk hs
  · have := hnew x hx' g' hg' y hy' hk
    omega
  · have := hnew y hy' g hg x hx' (by rw [cmp_swap c x.ukey y.ukey, hk]; rfl)
    omega
  · exact hnt x (mem_allEntries.mpr (.inr (.inr ⟨g, hg, hx'⟩))) y
      (mem_allEntries.mpr (.inr (.inr ⟨g', hg', hy'⟩))) hk hs

theorem step_preserves_noSeqTies (c : Cmp) (st : DbState) (s : Step) (h : Inv c st)
    (hnt : NoSeqTies c st) (hs : stepOk c st s) : NoSeqTies c (applyStep c st s) := by
  cases s with
  | write ops => exact write_preserves_noSeqTies c st ops h hnt
  | addL0 f => exact addL0_preserves_noSeqTies c st f h hnt hs
  | switchMem => exact hnt.of_subset (fun e he => by rwa [allEntries_switchMem c st hs] at he)
  | flush level f => exact hnt.of_subset (fun e he => (mem_allEntries_flush c st level f h hs e).mp he)
  | dropImm => exact hnt.of_subset (fun e he => by rwa [allEntries_dropImm c st hs] at he)
  | compact level in0 in1 outs =>
    have hl' : level + 1 < st.levels.length := by rw [h.nlevels]; exact hs.1
    exact hnt.of_subset (fun e he =>
      compact_entries_sub c st level in0 in1 outs hl' hs.2.2.2.2.2.2.2.2.2.2.1 he)
  | snapshot => exact hnt
  | release s => exact hnt
  | bumpNextFile n => exact hnt

theorem steps_preserve_noSeqTies (c : Cmp) (st : DbState) (steps : List Step) (h : Inv c st)
    (hnt : NoSeqTies c st) (hs : StepsOk c st steps) : NoSeqTies c (runSteps c st steps) := by
  induction steps generalizing st with
  | nil => exact hnt
  | cons s ss ih =>
    exact ih _ (step_preserves_inv c st s h hs.1) (step_preserves_noSeqTies c st s h hnt hs.1) hs.2

/-! ### snapshots are immutable views -/

/-- one step that is neither recovery nor the release of `q` keeps `q` live and its view intact -/
theorem step_snapshot_view (c : Cmp) (st : DbState) (s : Step) (h : Inv c st) (hnt : NoSeqTies c st)
    (hs : stepOk c st s) (q : Nat) (hq : q ∈ st.snaps) (hrel : s ≠ .release q)
    (hno : s.isAddL0 = false) (k : Bytes) :
    q ∈ (applyStep c st s).snaps ∧
      view c (allEntries (applyStep c st s)) k q = view c (allEntries st) k q := by
  have hprot : q ∈ protectedSeqs st := List.mem_cons_of_mem _ hq
  cases s with
  | write ops => exact ⟨hq, (write_view c st ops h hs k).1 q (h.snapsBound q hq)⟩
  | addL0 f => cases hno
  | switchMem => exact ⟨hq, switchMem_preserves_view c st hs k q⟩
  | flush level f => exact ⟨hq, flush_preserves_view c st level f h hnt hs k q⟩
  | dropImm => exact ⟨hq, dropImm_preserves_view c st hs k q⟩
  | compact level in0 in1 outs =>
    exact ⟨hq, compact_preserves_view c st level in0 in1 outs h hnt hs k q hprot⟩
  | snapshot => exact ⟨List.mem_append.mpr (.inl hq), rfl⟩
  | release s' =>
    refine ⟨?_, rfl⟩
    have : q ≠ s' := fun e => hrel (by rw [e])
    exact (List.mem_erase_of_ne this).mpr hq
  | bumpNextFile n => exact ⟨hq, rfl⟩

/-- 6. along any run of contract-respecting steps (no recovery step), a snapshot that is not
    released sees, for every key, exactly what it saw when the run started -/
theorem snapshot_view_stable (c : Cmp) (st : DbState) (steps : List Step) (h : Inv c st)
    (hnt : NoSeqTies c st) (hs : StepsOk c st steps) (q : Nat) (hq : q ∈ st.snaps)
    (hrel : ∀ s ∈ steps, s ≠ .release q) (hno : ∀ s ∈ steps, s.isAddL0 = false) (k : Bytes) :
    view c (allEntries (runSteps c st steps)) k q = view c (allEntries st) k q := by
  induction steps generalizing st with
  | nil => rfl
  | cons s ss ih =>
    have h1 := step_snapshot_view c st s h hnt hs.1 q hq (hrel s (by simp)) (hno s (by simp)) k
    have := ih (applyStep c st s) (step_preserves_inv c st s h hs.1)
      (step_preserves_noSeqTies c st s h hnt hs.1) hs.2 h1.1
      (fun s' hs' => hrel s' (List.mem_cons_of_mem _ hs'))
      (fun s' hs' => hno s' (List.mem_cons_of_mem _ hs'))
    exact this.trans h1.2

/-! ### the state answers like the log of its writes -/

theorem history_refines_gen (c : Cmp) (st : DbState) (steps : List Step) (H : List Entry)
    (h : Inv c st) (hnt : NoSeqTies c st) (hs : StepsOk c st steps)
    (hno : ∀ s ∈ steps, s.isAddL0 = false)
    (hH : ∀ x ∈ H, x.seq ≤ st.lastSeq)
    (hview : ∀ k, view c (allEntries st) k st.lastSeq = view c H k st.lastSeq) (k : Bytes) :
    view c (allEntries (runSteps c st steps)) k (runSteps c st steps).lastSeq =
      view c (H ++ historyOf st.lastSeq steps) k (runSteps c st steps).lastSeq := by
  induction steps generalizing st H with
  | nil => simpa [runSteps, historyOf] using hview k
  | cons s ss ih =>
    have hinv' := step_preserves_inv c st s h hs.1
    have hnt' := step_preserves_noSeqTies c st s h hnt hs.1
    have hno' : ∀ s' ∈ ss, s'.isAddL0 = false := fun s' hs' => hno s' (List.mem_cons_of_mem _ hs')
    -- background steps: nothing changes at the present sequence
    have hbg : s.isBackground = true → (applyStep c st s).lastSeq = st.lastSeq →
        historyOf st.lastSeq (s :: ss) = historyOf st.lastSeq ss →
        view c (allEntries (runSteps c st (s :: ss))) k (runSteps c st (s :: ss)).lastSeq =
          view c (H ++ historyOf st.lastSeq (s :: ss)) k (runSteps c st (s :: ss)).lastSeq := by
      intro hb hls hhist
      have := ih (applyStep c st s) H hinv' hnt' hs.2 hno' (by rw [hls]; exact hH)
        (by
          intro k'
          rw [hls, background_preserves_view c st s h hnt hs.1 hb k' st.lastSeq (by simp [protectedSeqs])]
          exact hview k')
      rw [hls] at this
      rw [hhist]
      exact this
    cases s with
    | write ops =>
      have hw := fun k' => (write_view c st ops h hs.1 k').2
      have hH' : ∀ x ∈ H ++ opsEntries (st.lastSeq + 1) ops, x.seq ≤ st.lastSeq + ops.length := by
        intro x hx
        rcases List.mem_append.mp hx with hx | hx
        · have := hH x hx; omega
        · have := (mem_opsEntries hx).2.1; omega
      have := ih (applyStep c st (.write ops)) (H ++ opsEntries (st.lastSeq + 1) ops) hinv' hnt' hs.2 hno'
        hH'
        (by
          intro k'
          show view c (allEntries (applyStep c st (.write ops))) k' (st.lastSeq + ops.length) = _
          rw [hw k', hview k']
          exact (view_append_opsEntries c H st.lastSeq ops k' hH).symm)
      simpa [runSteps, historyOf, List.append_assoc, applyStep] using this
    | addL0 f => have := hno (.addL0 f) (by simp); cases this
    | switchMem => exact hbg rfl rfl rfl
    | flush level f => exact hbg rfl rfl rfl
    | dropImm => exact hbg rfl rfl rfl
    | compact level in0 in1 outs => exact hbg rfl rfl rfl
    | snapshot => exact hbg rfl rfl rfl
    | release s' => exact hbg rfl rfl rfl
    | bumpNextFile n => exact hbg rfl rfl rfl

/-- 8. whatever flushes and compactions happened in between, the state reached from the empty
    database answers, at its last sequence, like the plain log of all writes -/
theorem history_refines (c : Cmp) (steps : List Step) (hs : StepsOk c emptyState steps)
    (hno : ∀ s ∈ steps, s.isAddL0 = false) (k : Bytes) :
    view c (allEntries (runSteps c emptyState steps)) k (runSteps c emptyState steps).lastSeq =
      view c (historyOf 0 steps) k (runSteps c emptyState steps).lastSeq := by
  have := history_refines_gen c emptyState steps [] (initial_inv c) (initial_noSeqTies c) hs hno
    (by intro x hx; cases hx) (by intro k'; rw [initial_entries]) k
  simpa [emptyState] using this

/-! ### 9. compaction preserves the view at every sequence from the oldest protected one on -/

theorem foldl_min_mem (l : List Nat) (a : Nat) : l.foldl min a = a ∨ l.foldl min a ∈ l := by
  induction l generalizing a with
  | nil => exact .inl rfl
  | cons x xs ih =>
    simp only [List.foldl_cons]
    rcases ih (min a x) with h | h
    · rw [h]
      by_cases hax : a ≤ x
      · exact .inl (Nat.min_eq_left hax)
      · exact .inr (by rw [Nat.min_eq_right (by omega)]; simp)
    · exact .inr (List.mem_cons_of_mem _ h)

theorem smallestProtected_mem (st : DbState) : smallestProtected st ∈ protectedSeqs st := by
  unfold smallestProtected
  rcases foldl_min_mem (protectedSeqs st) st.lastSeq with h | h
  · rw [h]; simp [protectedSeqs]
  · exact h

/-- between two read sequences with no entry of key `k` in between, the visible entries agree -/
theorem visibleEntries_eq_of_bound {c : Cmp} {es : List Entry} {k : Bytes} {q q' : Nat}
    (hq : q' ≤ q) (hb : ∀ x ∈ es, x.ukey = k → x.seq ≤ q → x.seq ≤ q') :
    visibleEntries c es k q = visibleEntries c es k q' := by
  unfold visibleEntries
  apply List.filter_congr
  intro x hx
  by_cases hk : c.compare x.ukey k = .eq
  · have hk' := (cmp_eq_iff c _ _).mp hk
    have := hb x hx hk'
    by_cases h1 : x.seq ≤ q
    · have h2 := this h1
      simp [h1, h2]
    · have h2 : ¬ x.seq ≤ q' := by omega
      simp [h1, h2]
  · have hf : (c.compare x.ukey k == Ordering.eq) = false := by
      cases hc : c.compare x.ukey k <;> simp_all
    rw [hf]; rfl

theorem sameAnswer_congr_seq {c : Cmp} {st : DbState} {level : Nat} {ins outE : List Entry}
    {k : Bytes} {q q' : Nat} (h1 : visibleEntries c ins k q = visibleEntries c ins k q')
    (h2 : visibleEntries c outE k q = visibleEntries c outE k q') :
    sameAnswer c st level ins outE k q = sameAnswer c st level ins outE k q' := by
  unfold sameAnswer newestVisible
  rw [h1, h2]

/-- under clauses two and three of contract (c), the outputs answer like the inputs at EVERY
    sequence `q ≥ smallestProtected st` (breakpoint argument) -/
theorem sameAnswer_above (c : Cmp) (st : DbState) (level : Nat) (in0 in1 : List Nat)
    (outs : List FileMeta) (hs : stepOk c st (.compact level in0 in1 outs)) (q : Nat)
    (hq : smallestProtected st ≤ q) (e : Entry) (he : e ∈ compactIns st level in0 in1) :
    sameAnswer c st level (compactIns st level in0 in1) (outs.flatMap (·.run)) e.ukey q = true := by
  obtain ⟨_, _, _, _, _, _, _, _, _, _, hsub, hprot, habove⟩ := hs
  cases hn : newestVisible c (compactIns st level in0 in1) e.ukey q with
  | none =>
    have hn' : newestVisible c (outs.flatMap (·.run)) e.ukey q = none := by
      rw [newestVisible_eq_none_iff] at hn ⊢
      exact fun x hx => hn x (hsub x hx)
    unfold sameAnswer
    rw [hn, hn']
  | some m =>
    obtain ⟨hm1, hm2, hm3, hm4⟩ := newestVisible_spec hn
    by_cases hm : smallestProtected st ≤ m.seq
    · have h1 := visibleEntries_eq_of_bound (c := c) (k := e.ukey) hm3 hm4
      have h2 := visibleEntries_eq_of_bound (c := c) (es := outs.flatMap (·.run)) (k := e.ukey) hm3
        (fun x hx => hm4 x (hsub x hx))
      rw [sameAnswer_congr_seq h1 h2]
      exact habove e he m hm1 hm
    · have hb : ∀ x ∈ compactIns st level in0 in1, x.ukey = e.ukey → x.seq ≤ q →
          x.seq ≤ smallestProtected st := by
        intro x hx hk hxq
        have := hm4 x hx hk hxq
        omega
      have h1 := visibleEntries_eq_of_bound (c := c) (k := e.ukey) hq hb
      have h2 := visibleEntries_eq_of_bound (c := c) (es := outs.flatMap (·.run)) (k := e.ukey) hq
        (fun x hx => hb x (hsub x hx))
      rw [sameAnswer_congr_seq h1 h2]
      exact hprot e he _ (smallestProtected_mem st)

theorem compact_preserves_view_above (c : Cmp) (st : DbState) (level : Nat) (in0 in1 : List Nat)
    (outs : List FileMeta) (h : Inv c st) (hnt : NoSeqTies c st)
    (hs : stepOk c st (.compact level in0 in1 outs)) (k : Bytes) (q : Nat)
    (hq : smallestProtected st ≤ q) :
    view c (allEntries (applyStep c st (.compact level in0 in1 outs))) k q =
      view c (allEntries st) k q := by
  apply compact_view_of_sameAnswer c st level in0 in1 outs h hnt hs k q
  intro e he hk
  have := sameAnswer_above c st level in0 in1 outs hs q hq e he
  rw [hk] at this
  exact this

/-! ### non-vacuity: the hypotheses hold on concrete states, and the conclusions are as expected -/

namespace Ex
open Lcdb.C14.Ex

theorem ntA : NoSeqTies .bytewise stA := by decide
theorem ntB : NoSeqTies .bytewise stB := by decide
theorem ntC : NoSeqTies .bytewise stC := by decide
theorem ntD : NoSeqTies .bytewise stD := by decide

example : 6 ∈ protectedSeqs stA ∧ 10 ∈ protectedSeqs stA := by decide

-- 4. background steps
example (k : Bytes) : view .bytewise (allEntries (applyStep .bytewise stA compact01)) k 6 =
    view .bytewise (allEntries stA) k 6 :=
  background_preserves_view _ _ _ invA ntA okCompact01 rfl k 6 (by decide)
example (k : Bytes) : view .bytewise (allEntries (applyStep .bytewise stA compact12)) k 10 =
    view .bytewise (allEntries stA) k 10 :=
  background_preserves_view _ _ _ invA ntA okCompact12 rfl k 10 (by decide)
example (k : Bytes) : view .bytewise (allEntries (applyStep .bytewise stA (.flush 0 g7))) k 6 =
    view .bytewise (allEntries stA) k 6 :=
  background_preserves_view _ _ _ invA ntA okFlush0 rfl k 6 (by decide)
example (k : Bytes) : view .bytewise (allEntries (applyStep .bytewise stB (.flush 1 g7b))) k 10 =
    view .bytewise (allEntries stB) k 10 :=
  background_preserves_view _ _ _ invB ntB okFlush1 rfl k 10 (by decide)
example (k : Bytes) : view .bytewise (allEntries (applyStep .bytewise stC .switchMem)) k 10 =
    view .bytewise (allEntries stC) k 10 :=
  background_preserves_view _ _ _ invC ntC okSwitch rfl k 10 (by decide)
example (k : Bytes) : view .bytewise (allEntries (applyStep .bytewise stD .dropImm)) k 6 =
    view .bytewise (allEntries stD) k 6 :=
  background_preserves_view _ _ _ invD ntD okDrop rfl k 6 (by decide)
/-- the protected-sequence hypothesis matters: below the oldest snapshot a compaction does change
    the view (`(k1, 3)` was dropped because `(k1, 5)` shadows it from sequence 5 on) -/
example : view .bytewise (allEntries stA) k1 4 = some "z" ∧
    view .bytewise (allEntries (applyStep .bytewise stA compact01)) k1 4 = some "old" := by decide

-- 9. every sequence from the oldest snapshot on
example : smallestProtected stA = 6 := by decide
example (k : Bytes) : view .bytewise (allEntries (applyStep .bytewise stA compact01)) k 8 =
    view .bytewise (allEntries stA) k 8 :=
  compact_preserves_view_above _ _ _ _ _ _ invA ntA okCompact01 k 8 (by decide)

-- 5. writes
example : (∀ q, q ≤ 10 → view .bytewise (allEntries (applyStep .bytewise stA writeA)) k1 q =
      view .bytewise (allEntries stA) k1 q) ∧
    view .bytewise (allEntries (applyStep .bytewise stA writeA)) k1 12 = none :=
  write_view _ _ _ invA okWrite k1
example : view .bytewise (allEntries stA) k1 10 = some "m" ∧
    applyOpsView .bytewise k1 [⟨k2, 1, "n"⟩, ⟨k1, 0, ""⟩] (some "m") = none ∧
    applyOpsView .bytewise k2 [⟨k2, 1, "n"⟩, ⟨k1, 0, ""⟩] none = some "n" := by decide

-- 6. the snapshot taken after the first batch keeps seeing `k1 ↦ a`, `k2 ↦ b` through the
--    deletion, the overwrite, both flushes and the compaction
def stSnap : DbState := runSteps .bytewise emptyState prefix1

theorem okPrefix : StepsOk .bytewise emptyState prefix1 := by decide
theorem okMiddle : StepsOk .bytewise stSnap middle1 := by decide

example (k : Bytes) : view .bytewise (allEntries (runSteps .bytewise stSnap middle1)) k 2 =
    view .bytewise (allEntries stSnap) k 2 :=
  snapshot_view_stable _ _ _ (steps_preserve_inv _ _ _ (initial_inv _) okPrefix)
    (steps_preserve_noSeqTies _ _ _ (initial_inv _) (initial_noSeqTies _) okPrefix) okMiddle 2
    (by decide) (by intro s hs; simp [middle1] at hs; rcases hs with h | h | h | h | h | h | h <;> simp [h])
    (by decide) k
example : view .bytewise (allEntries stSnap) k1 2 = some "a" ∧
    view .bytewise (allEntries (runSteps .bytewise stSnap middle1)) k1 2 = some "a" ∧
    view .bytewise (allEntries (runSteps .bytewise stSnap middle1)) k1 4 = none := by decide

-- 8. the final state (one level-2 file holding `k2 ↦ c`) answers like the log of the three batches
example (k : Bytes) :
    view .bytewise (allEntries (runSteps .bytewise emptyState run1)) k (runSteps .bytewise emptyState run1).lastSeq =
      view .bytewise (historyOf 0 run1) k (runSteps .bytewise emptyState run1).lastSeq :=
  history_refines _ _ okRun1 (by decide) k
example : allEntries (runSteps .bytewise emptyState run1) = [⟨k2, 4, 1, "c"⟩] ∧
    historyOf 0 run1 = [⟨k1, 1, 1, "a"⟩, ⟨k2, 2, 1, "b"⟩, ⟨k1, 3, 0, ""⟩, ⟨k2, 4, 1, "c"⟩] := by decide

-- recovery: the strengthened `addL0` contract keeps `NoSeqTies`
example : NoSeqTies .bytewise (applyStep .bytewise stG (.addL0 g10)) :=
  addL0_preserves_noSeqTies _ _ _ invG (by decide) okAddL0

end Ex

end Lcdb.C06
