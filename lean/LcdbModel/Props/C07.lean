/-
  C07 -- iterators give a consistent, ordered, complete view in both directions.
  The theorems live in Props/IterProps.lean (merging iterator, db_iter.c, composition over a database state)
  and Props/BlockProps.lean (block iterator, seek helpers); this module gathers them for the check.
-/
import LcdbModel.Props.IterProps
import LcdbModel.Props.BlockProps
namespace Lcdb.C07
end Lcdb.C07
