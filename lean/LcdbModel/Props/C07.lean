import LcdbModel.Model.Lsm
import LcdbModel.Model.DbIter
namespace Lcdb.C07
open Lcdb

end Lcdb.C07
