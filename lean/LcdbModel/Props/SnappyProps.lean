/-
  Final theorems about the Snappy model (LcdbModel.Model.Snappy = src/util/snappy.c).

  * `decode_of_valid_toks`   : any valid token stream that expands to `x`, rendered after the length
                               header, decodes to `x` (token-level decoder theorem).
  * `encodeBlockToks_correct`: the concrete hash-table encoder `encode_block` emits valid tokens whose
                               expansion is the block (loop invariant `encGo_gen` in Lemmas/Snappy.lean).
  * `snappy_roundtrip`       : `decode (encode x) = some x` for every `x` with `|x| <= 0x7fffffff`
                               (the concrete encoder, not an abstraction of it).
  * `snappy_decode_safe`     : a successful decode yields exactly the declared number of bytes; each
                               loop iteration keeps `produced + remaining = declared`; every copy has
                               `0 < off <= produced`, and the bounds-checked copy never trips.
  * `encode_length_le_encodeSize` : `snappy_encode` writes at most `snappy_encode_size` bytes.
  * `encodeBlockToks_fuel`   : the fuel cut-off of the model's encoder loop is never reached.
  * `decode_length_header`   : `snappy_decode_size` is `varint32Read` of the Coding model plus the
                               0x7fffffff limit, and agrees with what `decode` produces.
-/
import LcdbModel.Lemmas.Snappy
import LcdbModel.Props.CodingProps
namespace Lcdb.Snappy

/-! ### token-level decoder theorem -/

/-- Running the decoder loop over the rendering of a valid token list performs exactly the expansion of the
    tokens (restated from `decodeBlocks_renderToks` on lists). -/
theorem decodeBlocks_valid_toks (ts : List Tok) (out : Array UInt8) (zn : Nat)
    (hok : ToksOk out.size ts) (hz : toksLen ts = zn) :
    decodeBlocks out zn (renderToks ts) = some (expand out.toList ts) := by
  have := decodeBlocks_renderToks ts out zn [] hok (by omega)
  rw [List.append_nil] at this
  rw [this, decodeBlocks_nil, expandA_toList]
  have : zn - toksLen ts = 0 := by omega
  simp [this]

/-- **Any valid token stream that expands to `x` decodes to `x`.**  `ToksOk 0 ts`: every literal has
    1..65536 bytes, every copy has `0 < off <= bytes produced so far`, `off < 65536`, `len >= 4`
    (what `emit_literal` / `emit_copy` can render). -/
theorem decode_of_valid_toks (ts : List Tok) (x : Bytes) (hok : ToksOk 0 ts) (hx : expand [] ts = x)
    (hlen : x.length ≤ maxLength) :
    decode (varintEnc x.length ++ renderToks ts) = some x := by
  unfold decode
  have hmax : maxLength = 0x7fffffff := rfl
  rw [varint32_roundtrip x.length _ (by omega)]
  have hgt : ¬ x.length > maxLength := by omega
  simp only [hgt, if_false]
  have hl : toksLen ts = x.length := by
    have := expand_length [] ts
    rw [hx] at this; simpa using this.symm
  have := decodeBlocks_valid_toks ts #[] x.length (by simpa using hok) hl
  rw [this]; simp [hx]

/-! ### encoder correctness (concrete hash-table encoder) -/

/-- `encode_block` on a block of at most 65536 bytes emits valid tokens (relative to any amount `p` of
    earlier output) whose expansion appends exactly the block. -/
theorem encodeBlockToks_correct (pre blk : Bytes) (hx : blk.length ≤ 65536) :
    ToksOk pre.length (encodeBlockToks blk) ∧ expand pre (encodeBlockToks blk) = pre ++ blk := by
  have := encodeBlockToks_gen pre blk hx
  unfold Gen at this
  simpa using this

theorem encodeBlockToks_len (blk : Bytes) (hx : blk.length ≤ 65536) :
    toksLen (encodeBlockToks blk) = blk.length := by
  have h := (encodeBlockToks_correct [] blk hx).2
  have := expand_length [] (encodeBlockToks blk)
  rw [h] at this; simpa using this.symm

/-- the decoder loop over one encoded block appends the block -/
theorem decodeBlocks_encodeBlock (out : Array UInt8) (zn : Nat) (blk rest : Bytes)
    (hx : blk.length ≤ 65536) (hz : blk.length ≤ zn) :
    decodeBlocks out zn (encodeBlock blk ++ rest) = decodeBlocks (out ++ blk) (zn - blk.length) rest := by
  obtain ⟨h1, h2⟩ := encodeBlockToks_correct out.toList blk hx
  have hl := encodeBlockToks_len blk hx
  unfold encodeBlock
  rw [decodeBlocks_renderToks _ out zn rest (by simpa using h1) (by omega), hl]
  congr 1
  apply Array.toList_inj.mp
  rw [expandA_toList, h2, Array.toList_appendList]

/-- the decoder loop over the body written by `snappy_encode` appends the whole input -/
theorem decodeBlocks_encodeBody :
    ∀ (k : Nat) (x : Bytes) (out : Array UInt8) (zn : Nat) (rest : Bytes),
      x.length / maxBlockSize = k → x.length ≤ zn →
      decodeBlocks out zn (encodeBody k x ++ rest) = decodeBlocks (out ++ x) (zn - x.length) rest := by
  intro k
  have hmb : maxBlockSize = 65536 := rfl
  have hmin : minBlockSize = 17 := rfl
  induction k with
  | zero =>
    intro x out zn rest hk hz
    have hlt : x.length < 65536 := by
      rw [hmb] at hk
      exact Nat.lt_of_div_eq_zero (by omega) hk
    simp only [encodeBody]
    by_cases h0 : x.length > 0
    · simp only [h0, if_true]
      by_cases h1 : x.length ≥ minBlockSize
      · simp only [h1, if_true]
        exact decodeBlocks_encodeBlock out zn x rest (by omega) hz
      · simp only [h1, if_false]
        exact decodeBlocks_emitLiteral out zn x rest (by omega) (by omega) hz
    · simp only [h0, if_false, List.nil_append]
      have : x = [] := List.eq_nil_of_length_eq_zero (by omega)
      subst this
      simp
  | succ k ih =>
    intro x out zn rest hk hz
    rw [hmb] at hk
    have hge : 65536 ≤ x.length := by
      have := Nat.div_add_mod x.length 65536
      have : 65536 * (x.length / 65536) = 65536 * k + 65536 := by rw [hk]; omega
      omega
    simp only [encodeBody, hmb]
    have htl : (x.take 65536).length = 65536 := by rw [List.length_take]; omega
    have hdl : (x.drop 65536).length = x.length - 65536 := List.length_drop
    rw [List.append_assoc, decodeBlocks_encodeBlock out zn _ _ (by omega) (by omega)]
    rw [ih (x.drop 65536) _ _ rest (by
      rw [hdl, hmb]
      have := Nat.div_add_mod x.length 65536
      have := Nat.div_add_mod (x.length - 65536) 65536
      have h1 := Nat.mod_lt x.length (show 65536 > 0 by omega)
      have h2 := Nat.mod_lt (x.length - 65536) (show 65536 > 0 by omega)
      omega) (by omega)]
    rw [htl, hdl]
    have e1 : out ++ List.take 65536 x ++ List.drop 65536 x = out ++ x := by
      apply Array.toList_inj.mp
      simp only [Array.toList_appendList, List.append_assoc, List.take_append_drop]
    have e2 : zn - 65536 - (x.length - 65536) = zn - x.length := by omega
    rw [e1, e2]

/-- **Round trip, for all inputs the decoder can accept**: `snappy_decode(snappy_encode(x)) = x`.
    The bound is `0x7fffffff`, not `2^32`: `snappy_decode` rejects a larger declared length, and
    `snappy_encode_size` refuses such inputs (`encodeSize_none_of_large`). -/
theorem snappy_roundtrip (x : Bytes) (h : x.length ≤ maxLength) : decode (encode x) = some x := by
  have hmax : maxLength = 0x7fffffff := rfl
  unfold decode encode
  rw [Nat.mod_eq_of_lt (by omega), varint32_roundtrip x.length _ (by omega)]
  have hgt : ¬ x.length > maxLength := by omega
  simp only [hgt, if_false]
  have := decodeBlocks_encodeBody (x.length / maxBlockSize) x #[] x.length [] rfl (Nat.le_refl _)
  rw [List.append_nil] at this
  rw [this, Nat.sub_self, decodeBlocks_nil]
  simp

/-- inputs longer than 0x7fffffff are refused by `snappy_encode_size` -/
theorem encodeSize_none_of_large (n : Nat) (h : n > maxLength) : encodeSize n = none := by
  simp [encodeSize, h]

/-- and with that header length the decoder refuses too -/
theorem decode_rejects_large (n : Nat) (rest : Bytes) (h1 : maxLength < n) (h2 : n < 2 ^ 32) :
    decode (varintEnc n ++ rest) = none := by
  unfold decode
  rw [varint32_roundtrip n rest h2]
  simp [h1]

/-! ### encoder: output size (the caller's buffer of `snappy_encode_size` bytes is never overrun) -/

/-- one encoded block is at most 31/30 of the block plus one byte -/
theorem encodeBlock_length (blk : Bytes) (hx : blk.length ≤ 65536) :
    30 * (encodeBlock blk).length ≤ 31 * blk.length + 30 := by
  have h1 := (encodeBlockToks_correct [] blk hx).1
  have h2 := encodeBlockToks_shape blk
  have := (renderToks_length _ _ h1 h2).1
  rw [encodeBlockToks_len blk hx] at this
  exact this

theorem encodeBody_length :
    ∀ (k : Nat) (x : Bytes), x.length / maxBlockSize = k →
      30 * (encodeBody k x).length ≤ 31 * x.length + 30 * (k + 1) := by
  intro k
  have hmb : maxBlockSize = 65536 := rfl
  induction k with
  | zero =>
    intro x hk
    have hlt : x.length < 65536 := by
      rw [hmb] at hk
      exact Nat.lt_of_div_eq_zero (by omega) hk
    simp only [encodeBody]
    by_cases h0 : x.length > 0
    · simp only [h0, if_true]
      by_cases h1 : x.length ≥ minBlockSize
      · simp only [h1, if_true]
        have := encodeBlock_length x (by omega); omega
      · simp only [h1, if_false]
        have := emitLiteral_length x (by omega) (by omega); omega
    · simp only [h0, if_false, List.length_nil]; omega
  | succ k ih =>
    intro x hk
    rw [hmb] at hk
    have hge : 65536 ≤ x.length := by
      have := Nat.div_add_mod x.length 65536
      have : 65536 * (x.length / 65536) = 65536 * k + 65536 := by rw [hk]; omega
      omega
    simp only [encodeBody, hmb, List.length_append]
    have htl : (x.take 65536).length = 65536 := by rw [List.length_take]; omega
    have hdl : (x.drop 65536).length = x.length - 65536 := List.length_drop
    have b1 := encodeBlock_length (x.take 65536) (by omega)
    have b2 := ih (x.drop 65536) (by
      rw [hdl, hmb]
      have := Nat.div_add_mod x.length 65536
      have := Nat.div_add_mod (x.length - 65536) 65536
      have h1 := Nat.mod_lt x.length (show 65536 > 0 by omega)
      have h2 := Nat.mod_lt (x.length - 65536) (show 65536 > 0 by omega)
      omega)
    rw [htl] at b1
    rw [hdl] at b2
    omega

/-- **Encoder buffer safety**: whenever `snappy_encode_size` accepts the input length and returns `m`,
    `snappy_encode` writes at most `m` bytes. -/
theorem encode_length_le_encodeSize (x : Bytes) (m : Nat) (h : encodeSize x.length = some m) :
    (encode x).length ≤ m := by
  have hmax : maxLength = 0x7fffffff := rfl
  have hmb : maxBlockSize = 65536 := rfl
  unfold encodeSize at h
  by_cases h1 : x.length > maxLength
  · simp [h1] at h
  · simp only [h1, if_false] at h
    by_cases h2 : 32 + x.length + x.length / 6 > maxLength
    · simp [h2] at h
    · simp only [h2, if_false, Option.some.injEq] at h
      unfold encode
      rw [List.length_append, Nat.mod_eq_of_lt (by omega)]
      have hv := varintEnc_length_le32 x.length (by omega)
      have hb := encodeBody_length (x.length / maxBlockSize) x rfl
      simp only [hmb] at hb ⊢
      have := Nat.div_add_mod x.length 6
      have := Nat.mod_lt x.length (show 6 > 0 by omega)
      have := Nat.div_mul_le_self x.length 65536
      omega

/-! ### encoder: the fuel of the model's loop is never exhausted -/

/-- more fuel than `encodeBlockToks` supplies changes nothing, i.e. the model's fuel cut-off in `encGo`
    is never reached (the `for (;;)` loops of `encode_block` terminate within `xn` head visits) -/
theorem encodeBlockToks_fuel (blk : Bytes) (k : Nat) :
    encGo blk.toArray blk.length (blk.length - inputMargin) (tableParams blk.length).2 (blk.length + k)
      (.scan (Array.replicate (tableParams blk.length).1 0)
        (hash32 (load32 blk.toArray 1) (tableParams blk.length).2) initSkip 1 0)
      = encodeBlockToks blk := by
  rw [encGo_fuel_add _ _ _ _ blk.length
    (.scan (Array.replicate (tableParams blk.length).1 0)
      (hash32 (load32 blk.toArray 1) (tableParams blk.length).2) initSkip 1 0)
    ⟨by simp only [inputMargin]; omega, Nat.le_refl _⟩ k]
  rfl

/-! ### decoder safety -/

/-- bounds-checked forward copy: the read address is `zp - off`; it fails when that is the write position
    itself (`off = 0`, not yet written) or before the start of the buffer (`off > produced`) -/
def copyFwdChk (out : Array UInt8) (off : Nat) : Nat → Option (Array UInt8)
  | 0 => some out
  | n + 1 =>
    if off = 0 ∨ out.size < off then none
    else match out[out.size - off]? with
      | none => none
      | some b => copyFwdChk (out.push b) off n

/-- with `0 < off <= produced` (the two checks of `decode_blocks`) no read of the copy is out of bounds -/
theorem copyFwdChk_eq (off : Nat) (h0 : 0 < off) :
    ∀ (n : Nat) (out : Array UInt8), off ≤ out.size → copyFwdChk out off n = some (copyFwd out off n) := by
  intro n
  induction n with
  | zero => intro out _; rfl
  | succ n ih =>
    intro out h1
    have hlt : out.size - off < out.size := by omega
    have hne : ¬ (off = 0 ∨ out.size < off) := by omega
    simp only [copyFwdChk, copyFwd, hne, if_false]
    rw [Array.getElem?_eq_getElem hlt]
    simp only
    rw [ih _ (by rw [Array.size_push]; omega)]
    congr 2
    simp [Array.getD_eq_getD_getElem?, Array.getElem?_eq_getElem hlt]

/-- what a successful iteration of the `decode_blocks` loop did -/
inductive StepKind (out : Array UInt8) (zn : Nat) (out' : Array UInt8) (zn' : Nat) : Prop where
  /-- a literal of `lit.length <= zn` bytes was appended -/
  | literal (lit : Bytes) (h1 : 1 ≤ lit.length) (h2 : lit.length ≤ zn)
      (ho : out' = out ++ lit) (hz : zn' = zn - lit.length)
  /-- a copy with `0 < off <= produced`, `len <= remaining`; all its reads were in bounds -/
  | copy (off len : Nat) (h0 : 0 < off) (h1 : off ≤ out.size) (h2 : len ≤ zn)
      (ho : out' = copyFwd out off len) (hc : copyFwdChk out off len = some out') (hz : zn' = zn - len)

theorem copyStep_kind {out : Array UInt8} {zn off len : Nat} {rest : Bytes}
    {out' : Array UInt8} {zn' : Nat} {rest' : Bytes}
    (h : copyStep out zn off len rest = some (out', zn', rest')) : StepKind out zn out' zn' := by
  unfold copyStep at h
  split at h
  · cases h
  · split at h
    · cases h
    · rename_i ha hb
      simp only [Option.some.injEq, Prod.mk.injEq] at h
      obtain ⟨h1, h2, _⟩ := h
      have h0 : 0 < off := by omega
      exact StepKind.copy off len h0 (by omega) (by omega) h1.symm
        (by rw [copyFwdChk_eq off h0 len out (by omega), h1]) h2.symm

/-- every successful iteration is a bounded literal append or an in-bounds copy -/
theorem decodeElem_safe {out : Array UInt8} {zn : Nat} {t : UInt8} {xs : Bytes}
    {out' : Array UInt8} {zn' : Nat} {rest : Bytes}
    (h : decodeElem out zn t xs = some (out', zn', rest)) : StepKind out zn out' zn' := by
  unfold decodeElem at h
  split at h
  · split at h
    · cases h
    · rename_i x xs1 _
      unfold literalStep at h
      split at h
      · cases h
      · split at h
        · cases h
        · rename_i ha hb
          simp only [Option.some.injEq, Prod.mk.injEq] at h
          obtain ⟨h1, h2, _⟩ := h
          have hl : (xs1.take (x + 1)).length = x + 1 := by rw [List.length_take]; omega
          exact StepKind.literal (xs1.take (x + 1)) (by omega) (by omega) h1.symm (by rw [hl]; exact h2.symm)
  · split at h
    · exact copyStep_kind h
    · cases h
  · split at h
    · exact copyStep_kind h
    · cases h
  · split at h
    · exact copyStep_kind h
    · cases h

/-- `produced + remaining` is invariant: writes never go past the declared length -/
theorem StepKind.size_inv {out : Array UInt8} {zn : Nat} {out' : Array UInt8} {zn' : Nat}
    (h : StepKind out zn out' zn') : out'.size + zn' = out.size + zn := by
  cases h with
  | literal lit h1 h2 ho hz =>
    subst ho hz
    rw [← Array.length_toList, Array.toList_appendList, List.length_append, Array.length_toList]; omega
  | copy off len h0 h1 h2 ho hc hz =>
    subst ho hz
    rw [copyFwd_size]; omega

/-- a successful `decode_blocks` returns exactly `produced + remaining` bytes -/
theorem decodeBlocks_length :
    ∀ (n : Nat) (xs : Bytes) (out : Array UInt8) (zn : Nat) (r : Bytes), xs.length ≤ n →
      decodeBlocks out zn xs = some r → r.length = out.size + zn := by
  intro n
  induction n with
  | zero =>
    intro xs out zn r hn h
    have : xs = [] := List.eq_nil_of_length_eq_zero (by omega)
    subst this
    rw [decodeBlocks_nil] at h
    by_cases hz : zn ≠ 0
    · simp [hz] at h
    · simp only [hz, if_false, Option.some.injEq] at h
      rw [← h, Array.length_toList]; omega
  | succ n ih =>
    intro xs out zn r hn h
    cases xs with
    | nil =>
      rw [decodeBlocks_nil] at h
      by_cases hz : zn ≠ 0
      · simp [hz] at h
      · simp only [hz, if_false, Option.some.injEq] at h
        rw [← h, Array.length_toList]; omega
    | cons t xs =>
      rw [decodeBlocks_cons] at h
      cases he : decodeElem out zn t xs with
      | none => rw [he] at h; cases h
      | some q =>
        obtain ⟨o', z', rest⟩ := q
        rw [he] at h
        simp only at h
        have hle := decodeElem_rest_le he
        simp only [List.length_cons] at hn
        have := ih rest o' z' r (by simp only at hle; omega) h
        rw [this, (decodeElem_safe he).size_inv]

/-- the length announced by the stream header (what `snappy_decode_size` reports) -/
abbrev declaredLength (bs : Bytes) : Option Nat := decodeSize bs

/-- **Decoder safety, run level**: a successful decode returns exactly the declared number of bytes
    (the caller allocated `declaredLength` bytes, and `produced + remaining` is invariant by
    `StepKind.size_inv`, so no write is past the buffer; by `decodeElem_safe` every copy of the run had
    `0 < off <= produced` and read only bytes already written). -/
theorem snappy_decode_safe (bs out : Bytes) (h : decode bs = some out) :
    declaredLength bs = some out.length ∧ out.length ≤ maxLength := by
  unfold decode at h
  unfold declaredLength decodeSize
  cases hv : varint32Read bs with
  | none => rw [hv] at h; cases h
  | some p =>
    obtain ⟨zn, rest⟩ := p
    rw [hv] at h
    simp only at h ⊢
    by_cases hz : zn > maxLength
    · simp [hz] at h
    · simp only [hz, if_false] at h ⊢
      have := decodeBlocks_length rest.length rest #[] zn out (Nat.le_refl _) h
      simp only [List.size_toArray, List.length_nil, Nat.zero_add] at this
      rw [this]; exact ⟨rfl, by omega⟩

/-! ### length header -/

/-- `snappy_decode_size` is the Coding model's `varint32Read` followed by the 0x7fffffff limit -/
theorem decode_length_header (bs : Bytes) :
    decodeSize bs = (varint32Read bs).bind (fun p => if p.1 > maxLength then none else some p.1) := by
  unfold decodeSize
  cases varint32Read bs with
  | none => rfl
  | some p => rfl

/-- on the header `snappy_encode` writes, `snappy_decode_size` returns the input length -/
theorem decodeSize_encode (x : Bytes) (h : x.length ≤ maxLength) : decodeSize (encode x) = some x.length := by
  have hmax : maxLength = 0x7fffffff := rfl
  unfold decodeSize encode
  rw [Nat.mod_eq_of_lt (by omega), varint32_roundtrip x.length _ (by omega)]
  have hgt : ¬ x.length > maxLength := by omega
  simp [hgt]

/-- `snappy_decode` fails whenever `snappy_decode_size` does -/
theorem decode_none_of_decodeSize_none (bs : Bytes) (h : decodeSize bs = none) : decode bs = none := by
  unfold decodeSize at h
  unfold decode
  cases hv : varint32Read bs with
  | none => rfl
  | some p =>
    obtain ⟨zn, rest⟩ := p
    rw [hv] at h
    simp only at h ⊢
    by_cases hz : zn > maxLength
    · simp [hz]
    · simp [hz] at h

/-! ### non-vacuity / concrete instances -/

example : decode (encode [1, 2, 3]) = some [1, 2, 3] := snappy_roundtrip _ (by decide)
example : decode (encode []) = some [] := snappy_roundtrip _ (by decide)
example : decode (encode (List.replicate 100 7)) = some (List.replicate 100 7) :=
  snappy_roundtrip _ (by simp [maxLength])

example : (encode [1, 2, 3]).length ≤ 35 := encode_length_le_encodeSize _ 35 (by decide)
example : encodeSize 0x7fffffff = none := by decide
example : encodeSize 0x6db6db52 = some 0x7fffffff := by decide

/-- a valid token list with an overlapping copy -/
example : ToksOk 0 [Tok.lit [1, 2], Tok.copy 2 6] := by simp [ToksOk, TokOk, Tok.len]
example : expand [] [Tok.lit [1, 2], Tok.copy 2 6] = [1, 2, 1, 2, 1, 2, 1, 2] := by decide
example : decode (varintEnc 8 ++ renderToks [Tok.lit [1, 2], Tok.copy 2 6]) = some [1, 2, 1, 2, 1, 2, 1, 2] :=
  decode_of_valid_toks [Tok.lit [1, 2], Tok.copy 2 6] [1, 2, 1, 2, 1, 2, 1, 2]
    (by simp [ToksOk, TokOk, Tok.len]) (by decide) (by decide)

/-- offset 0 and offset beyond the output are rejected (the two conditions of `StepKind.copy`) -/
example : copyStep #[1, 2] 10 0 4 [] = none := by decide
example : copyStep #[1, 2] 10 3 4 [] = none := by decide
example : copyStep #[1, 2] 10 2 4 [] = some (#[1, 2, 1, 2, 1, 2], 6, []) := by decide
/-- the bounds-checked copy does trip without those conditions -/
example : copyFwdChk #[1, 2] 0 4 = none := by decide
example : copyFwdChk #[1, 2] 3 4 = none := by decide

example : decodeSize [0xff, 0xff, 0xff, 0xff, 0x07] = some 0x7fffffff := by decide
example : decodeSize [0xff, 0xff, 0xff, 0xff, 0x0f] = none := by decide

end Lcdb.Snappy
