/-
  Final theorems about table blocks (src/table/block_builder.c, src/table/block.c and the seek
  helpers of src/table/iterator.c), over the model in LcdbModel/Model/Block.lean.

  * `block_roundtrip`            what the builder wrote is what the iterator's entry decoder reads
  * `blockIter_no_fault`,
    `blockIter_total`,
    `block_no_fault`             on ARBITRARY bytes no operation sequence reaches a fault: every read
                                 is inside the buffer, every loop terminates within its fuel (C18 for blocks)
  * `blockIter_status_sticky`    the status never goes back from corrupt to ok
  * `blockIter_is_cursor`        on a built block with strictly sorted keys, after ANY sequence of
                                 operations the iterator agrees with the reference cursor over the list
  * `blockIter_first_next`, `blockIter_seek_first_ge`, `blockIter_prev`, `blockIter_prev_first`,
    `blockIter_seek_helpers`     the named special cases
  * `seek_helpers_spec` (Lemmas/Cursor.lean) seek_ge/gt/le/lt on a cursor over a strictly sorted list
-/
import LcdbModel.Lemmas.BlockIter
import LcdbModel.Lemmas.BlockBuild
import LcdbModel.Lemmas.BlockSafety
import LcdbModel.Lemmas.OrdInstances
import LcdbModel.Lemmas.BlockExtras
namespace Lcdb

/-! ### round trip -/

/-- Decoding a built block entry by entry (with the very decoder the iterator uses: `first`, then
    `next` until invalid) gives back the entries.  Sizes below 2^32: every key and value, and the
    block as a whole (the C code stores lengths and offsets in `uint32_t`). -/
theorem block_roundtrip (interval : Nat) (es : List (Bytes × Bytes)) (h : 1 ≤ interval)
    (hk : ∀ e ∈ es, e.1.length < 2 ^ 32 ∧ e.2.length < 2 ^ 32)
    (hsz : (blockBuild interval es).length < 2 ^ 32) :
    blockParse (blockBuild interval es) = some es := by
  obtain ⟨L, restarts, num, hw, hes⟩ := blockBuild_wf interval es h hk hsz
  rw [hw.parse, hes]

/-! ### no faults on arbitrary bytes -/

/-- On arbitrary bytes, with any comparator, any sequence of operations on the iterator returned
    by ldb_blockiter_create runs to completion in the model: no read outside the buffer, no
    comparator call on an internal key shorter than 8 bytes, no NULL-slice arithmetic, and every
    loop (restart-index bump, backward scan, forward skip, binary search over a hostile restart
    array, linear search) finishes within its fuel.  (`next`/`prev` are only issued on a valid
    iterator, as the C code requires.) -/
theorem blockIter_no_fault (c : BlockCmp) (data : Bytes) (ops : List BlockOp) :
    (blockIterOps c).run ops (blockIterCreate data) ≠ none := by
  obtain ⟨it, h, _⟩ := block_no_fault c data ops
  rw [h]; exact Option.some_ne_none it

/-- once the iterator has flagged corruption the status stays corrupt (the C code never resets it,
    even when a later `first`/`seek` positions the iterator on a good entry) -/
theorem blockIter_status_sticky (c : BlockCmp) (data : Bytes) (ops₁ ops₂ : List BlockOp)
    (it₁ it₂ : TIter) (h₁ : (blockIterOps c).run ops₁ (blockIterCreate data) = some it₁)
    (hs : it₁.status = .corrupt) (h₂ : (blockIterOps c).run ops₂ it₁ = some it₂) :
    it₂.status = .corrupt := by
  obtain ⟨it, h, hinv⟩ := block_no_fault c data ops₁
  rw [h₁] at h
  cases h
  exact status_sticky_run c ops₂ it₁ it₂ hinv hs h₂

/-! ### the iterator over a built block is a cursor -/

/-- hypotheses of the iterator theorems: a legal restart interval, sizes below 2^32, a lawful
    comparator, strictly sorted keys, and (for the internal-key comparator) keys of at least 8 bytes -/
structure BuiltOk (c : BlockCmp) (interval : Nat) (es : List (Bytes × Bytes)) : Prop where
  interval_pos : 1 ≤ interval
  sizes : ∀ e ∈ es, e.1.length < 2 ^ 32 ∧ e.2.length < 2 ^ 32
  total : (blockBuild interval es).length < 2 ^ 32
  laws : OrdLaws c.cmp
  sorted : SortedKeys c.cmp (es.map (·.1))
  ikeys : c.internal = true → ∀ e ∈ es, 8 ≤ e.1.length

/-- seek targets the comparator can handle (an internal-key comparator needs 8 bytes; shorter
    targets make ldb_blockiter_seek flag corruption, see `blockIter_no_fault` for those) -/
def OpsOk (c : BlockCmp) (ops : List BlockOp) : Prop :=
  ∀ op ∈ ops, ∀ x, op.target? = some x → c.internal = true → 8 ≤ x.length

/-- the iterator `it` is where the cursor position `p` over `es` says -/
def OnPos (es : List (Bytes × Bytes)) (it : TIter) : Option Nat → Prop
  | none => it.valid = false
  | some i => ∃ h : i < es.length, it.valid = true ∧ it.key = es[i].1 ∧ it.value = es[i].2

theorem entriesOf_keys (data : Bytes) (L : List Ent) :
    (entriesOf data L).map (·.1) = L.map (·.key) := by
  simp [entriesOf, List.map_map, Function.comp_def]

/-- After ANY sequence of operations (with targets the comparator can handle) the block iterator
    over `blockBuild interval es` has not faulted, has not flagged corruption, and stands exactly
    where the reference cursor over the sorted list `es` stands after the same operations. -/
theorem blockIter_is_cursor (c : BlockCmp) (interval : Nat) (es : List (Bytes × Bytes))
    (h : BuiltOk c interval es) (ops : List BlockOp) (hops : OpsOk c ops) :
    ∃ it p, (blockIterOps c).run ops (blockIterCreate (blockBuild interval es)) = some it ∧
      (cursorOps c.cmp (es.map (·.1))).run ops none = some p ∧
      it.status = .ok ∧ OnPos es it p := by
  obtain ⟨L, restarts, num, hw, hes⟩ := blockBuild_wf interval es h.interval_pos h.sizes h.total
  have hlaws := h.laws
  have hsortedk := h.sorted
  have hik := h.ikeys
  clear h
  generalize blockBuild interval es = data at hw hes ⊢
  subst hes
  have hkeys : (entriesOf data L).map (·.1) = L.map (·.key) := entriesOf_keys _ L
  have hsorted : SortedEnts c.cmp L := by
    rw [hkeys] at hsortedk
    exact List.pairwise_map.mp hsortedk
  have hint : c.internal = true → ∀ e ∈ L, 8 ≤ e.key.length := by
    intro hc e he
    have hmem : (e.key, e.value data) ∈ entriesOf data L := List.mem_map.mpr ⟨e, he, rfl⟩
    exact hik hc _ hmem
  have hsim := hw.sim c hlaws hsorted hint
  obtain ⟨it, p, h1, h2, hr⟩ := hsim.run ops hops _ _ hw.create
  refine ⟨it, p, h1, by rw [hkeys]; exact h2, ?_, ?_⟩
  · obtain ⟨bi, hit, _, hst⟩ := hr
    rw [hit]; exact hst
  · have hv := hsim.valid it p hr
    obtain ⟨bi, hit, hpos, _⟩ := hr
    cases p with
    | none =>
      show it.valid = false
      simpa [blockIterOps, cursorOps] using hv
    | some i =>
      obtain ⟨hb, e, hi, he⟩ := hpos
      have hil : i < L.length := (List.getElem?_eq_some_iff.mp hi).1
      have hlen : (entriesOf data L).length = L.length := by simp [entriesOf]
      have hesi : (entriesOf data L)[i]'(by omega) = (e.key, e.value data) := by
        have : (entriesOf data L)[i]? = some (e.key, e.value data) := by
          simp [entriesOf, hi]
        exact (List.getElem?_eq_some_iff.mp this).2
      refine ⟨by omega, ?_, ?_, ?_⟩
      · simpa [blockIterOps, cursorOps] using hv
      · rw [hesi, hit]; exact he.2.1
      · rw [hesi, hit]; exact OnEntry.valueBytes hb he

/-! ### cursor computations used by the corollaries -/

theorem IterOps.run_append {σ : Type} (o : IterOps σ) (a b : List BlockOp) (s : σ) :
    o.run (a ++ b) s = (o.run a s).bind (o.run b) := by
  induction a generalizing s with
  | nil => rfl
  | cons op a ih =>
    simp only [List.cons_append, IterOps.run]
    cases o.apply op s with
    | none => rfl
    | some s' => exact ih s'

theorem cursor_first_next (cmp : Bytes → Bytes → Ordering) (keys : List Bytes) (k : Nat) :
    (cursorOps cmp keys).run (.first :: List.replicate k .next) none
      = some (if k < keys.length then some k else none) := by
  induction k with
  | zero =>
    cases keys with
    | nil => rfl
    | cons a l => simp [IterOps.run, IterOps.apply, cursorOps]
  | succ k ih =>
    have : BlockOp.first :: List.replicate (k + 1) BlockOp.next
        = (BlockOp.first :: List.replicate k BlockOp.next) ++ [BlockOp.next] := by
      rw [List.replicate_succ']; rfl
    rw [this, IterOps.run_append, ih]
    by_cases h : k < keys.length
    · by_cases h' : k + 1 < keys.length
      · simp [IterOps.run, IterOps.apply, cursorOps, h, h']
      · simp [IterOps.run, IterOps.apply, cursorOps, h, h']
    · have h' : ¬ k + 1 < keys.length := by omega
      simp [IterOps.run, IterOps.apply, cursorOps, h, h']

/-! ### named special cases -/

/-- `first` then `k` times `next` is positioned on `es[k]`; valid iff `k < es.length` -/
theorem blockIter_first_next (c : BlockCmp) (interval : Nat) (es : List (Bytes × Bytes))
    (h : BuiltOk c interval es) (k : Nat) :
    ∃ it, (blockIterOps c).run (.first :: List.replicate k .next)
            (blockIterCreate (blockBuild interval es)) = some it ∧
      it.status = .ok ∧ OnPos es it (if k < es.length then some k else none) := by
  have hops : OpsOk c (.first :: List.replicate k .next) := by
    intro op hop x hx
    simp only [List.mem_cons, List.mem_replicate] at hop
    rcases hop with rfl | ⟨_, rfl⟩ <;> simp [BlockOp.target?] at hx
  obtain ⟨it, p, h1, h2, hst, hp⟩ := blockIter_is_cursor c interval es h _ hops
  rw [cursor_first_next] at h2
  simp only [List.length_map, Option.some.injEq] at h2
  subst h2
  exact ⟨it, h1, hst, hp⟩

/-- after any operations, `seek t` lands on the first entry whose key is not below `t`
    (invalid if there is none) -/
theorem blockIter_seek_first_ge (c : BlockCmp) (interval : Nat) (es : List (Bytes × Bytes))
    (h : BuiltOk c interval es) (ops : List BlockOp) (hops : OpsOk c ops) (t : Bytes)
    (ht : c.internal = true → 8 ≤ t.length) :
    ∃ it, (blockIterOps c).run (ops ++ [.seek t]) (blockIterCreate (blockBuild interval es)) = some it ∧
      it.status = .ok ∧
      OnPos es it ((es.map (·.1)).findIdx? (fun k => c.cmp k t != .lt)) := by
  have hops' : OpsOk c (ops ++ [.seek t]) := by
    intro op hop x hx
    simp only [List.mem_append, List.mem_singleton] at hop
    rcases hop with hop | rfl
    · exact hops op hop x hx
    · simp only [BlockOp.target?, Option.some.injEq] at hx; subst hx; exact ht
  obtain ⟨it, p, h1, h2, hst, hp⟩ := blockIter_is_cursor c interval es h _ hops'
  rw [IterOps.run_append] at h2
  cases hr : (cursorOps c.cmp (es.map (·.1))).run ops none with
  | none => rw [hr] at h2; simp at h2
  | some q =>
    rw [hr] at h2
    simp only [Option.bind, IterOps.run, IterOps.apply, cursorOps, Option.some.injEq] at h2
    subst h2
    exact ⟨it, h1, hst, hp⟩

/-- the four seek helpers of iterator.c on the block iterator land where the sorted list dictates -/
theorem blockIter_seek_helpers (c : BlockCmp) (interval : Nat) (es : List (Bytes × Bytes))
    (h : BuiltOk c interval es) (ops : List BlockOp) (hops : OpsOk c ops) (t : Bytes)
    (ht : c.internal = true → 8 ≤ t.length) (op : BlockOp) (target : Option Nat)
    (hop : (op = .seekGE t ∧ target = (es.map (·.1)).findIdx? (fun k => c.cmp k t != .lt)) ∨
           (op = .seekGT t ∧ target = (es.map (·.1)).findIdx? (fun k => c.cmp k t == .gt)) ∨
           (op = .seekLE t ∧ target = lastIdx (fun k => c.cmp k t != .gt) (es.map (·.1))) ∨
           (op = .seekLT t ∧ target = lastIdx (fun k => c.cmp k t == .lt) (es.map (·.1)))) :
    ∃ it, (blockIterOps c).run (ops ++ [op]) (blockIterCreate (blockBuild interval es)) = some it ∧
      it.status = .ok ∧ OnPos es it target := by
  have htgt : op.target? = some t := by
    rcases hop with ⟨rfl, _⟩ | ⟨rfl, _⟩ | ⟨rfl, _⟩ | ⟨rfl, _⟩ <;> rfl
  have hops' : OpsOk c (ops ++ [op]) := by
    intro op' hop' x hx
    simp only [List.mem_append, List.mem_singleton] at hop'
    rcases hop' with hop' | rfl
    · exact hops op' hop' x hx
    · rw [htgt] at hx; simp only [Option.some.injEq] at hx; subst hx; exact ht
  obtain ⟨it, p, h1, h2, hst, hp⟩ := blockIter_is_cursor c interval es h _ hops'
  rw [IterOps.run_append] at h2
  cases hr : (cursorOps c.cmp (es.map (·.1))).run ops none with
  | none => rw [hr] at h2; simp at h2
  | some q =>
    rw [hr] at h2
    obtain ⟨hge, hgt, hle, hlt⟩ := seek_helpers_spec c.cmp h.laws (es.map (·.1)) h.sorted t q
    refine ⟨it, h1, hst, ?_⟩
    rcases hop with ⟨rfl, rfl⟩ | ⟨rfl, rfl⟩ | ⟨rfl, rfl⟩ | ⟨rfl, rfl⟩
    · simp only [Option.bind, IterOps.run, IterOps.apply, hge, Option.some.injEq] at h2
      subst h2; exact hp
    · simp only [Option.bind, IterOps.run, IterOps.apply, hgt, Option.some.injEq] at h2
      subst h2; exact hp
    · simp only [Option.bind, IterOps.run, IterOps.apply, hle, Option.some.injEq] at h2
      subst h2; exact hp
    · simp only [Option.bind, IterOps.run, IterOps.apply, hlt, Option.some.injEq] at h2
      subst h2; exact hp

/-- `prev` from position `k+1` (however it was reached) lands on position `k` -/
theorem blockIter_prev (c : BlockCmp) (interval : Nat) (es : List (Bytes × Bytes))
    (h : BuiltOk c interval es) (ops : List BlockOp) (hops : OpsOk c ops) (k : Nat)
    (hreach : (cursorOps c.cmp (es.map (·.1))).run ops none = some (some (k + 1))) :
    ∃ it, (blockIterOps c).run (ops ++ [.prev]) (blockIterCreate (blockBuild interval es)) = some it ∧
      it.status = .ok ∧ OnPos es it (some k) := by
  have hops' : OpsOk c (ops ++ [.prev]) := by
    intro op hop x hx
    simp only [List.mem_append, List.mem_singleton] at hop
    rcases hop with hop | rfl
    · exact hops op hop x hx
    · simp [BlockOp.target?] at hx
  obtain ⟨it, p, h1, h2, hst, hp⟩ := blockIter_is_cursor c interval es h _ hops'
  rw [IterOps.run_append, hreach] at h2
  simp only [Option.bind, IterOps.run, IterOps.apply, cursorOps, Option.isSome_some, if_true,
    Option.some.injEq] at h2
  subst h2
  exact ⟨it, h1, hst, hp⟩

/-- `prev` from the first entry makes the iterator invalid -/
theorem blockIter_prev_first (c : BlockCmp) (interval : Nat) (es : List (Bytes × Bytes))
    (h : BuiltOk c interval es) (ops : List BlockOp) (hops : OpsOk c ops)
    (hreach : (cursorOps c.cmp (es.map (·.1))).run ops none = some (some 0)) :
    ∃ it, (blockIterOps c).run (ops ++ [.prev]) (blockIterCreate (blockBuild interval es)) = some it ∧
      it.status = .ok ∧ it.valid = false := by
  have hops' : OpsOk c (ops ++ [.prev]) := by
    intro op hop x hx
    simp only [List.mem_append, List.mem_singleton] at hop
    rcases hop with hop | rfl
    · exact hops op hop x hx
    · simp [BlockOp.target?] at hx
  obtain ⟨it, p, h1, h2, hst, hp⟩ := blockIter_is_cursor c interval es h _ hops'
  rw [IterOps.run_append, hreach] at h2
  simp only [Option.bind, IterOps.run, IterOps.apply, cursorOps, Option.isSome_some, if_true,
    Option.some.injEq] at h2
  subst h2
  exact ⟨it, h1, hst, hp⟩

end Lcdb

namespace Lcdb

/-! ### non-vacuity: the hypotheses are satisfiable and the theorems say something concrete -/

/-- three entries with shared prefixes, restart interval 2, bytewise comparator -/
def exampleEntries : List (Bytes × Bytes) := [([1], [2]), ([1, 2], [3, 4]), ([2], [])]

theorem example_builtOk : BuiltOk bytewiseBlockCmp 2 exampleEntries :=
  { interval_pos := by decide
    sizes := by decide
    total := blockBuild_small 2 _ (by decide) (by decide)
    laws := ordLaws_bytesCmp
    sorted := by simp [SortedKeys, exampleEntries, bytewiseBlockCmp]; decide
    ikeys := by intro h; simp [bytewiseBlockCmp] at h }

example : blockParse (blockBuild 2 exampleEntries) = some exampleEntries :=
  block_roundtrip 2 _ (by decide) (by decide) (blockBuild_small 2 _ (by decide) (by decide))

/-- `first, next` stands on the second entry -/
example : ∃ it, (blockIterOps bytewiseBlockCmp).run [.first, .next]
      (blockIterCreate (blockBuild 2 exampleEntries)) = some it ∧
    it.valid = true ∧ it.key = [1, 2] ∧ it.value = [3, 4] := by
  obtain ⟨it, h1, _, hp⟩ := blockIter_first_next bytewiseBlockCmp 2 exampleEntries example_builtOk 1
  have : (1 : Nat) < exampleEntries.length := by decide
  simp only [this, if_true] at hp
  obtain ⟨_, hv, hk, hval⟩ := hp
  exact ⟨it, h1, hv, hk, hval⟩

/-- `seek [1, 1]` from a fresh iterator lands on `[1, 2]` (the first key ≥ the target) -/
example : ∃ it, (blockIterOps bytewiseBlockCmp).run [.seek [1, 1]]
      (blockIterCreate (blockBuild 2 exampleEntries)) = some it ∧
    it.valid = true ∧ it.key = [1, 2] := by
  obtain ⟨it, h1, _, hp⟩ := blockIter_seek_first_ge bytewiseBlockCmp 2 exampleEntries example_builtOk []
    (by intro op hop; simp at hop) [1, 1] (by intro h; simp [bytewiseBlockCmp] at h)
  have : (exampleEntries.map (·.1)).findIdx? (fun k => bytewiseBlockCmp.cmp k [1, 1] != .lt) = some 1 := by
    decide
  rw [this] at hp
  obtain ⟨_, hv, hk, _⟩ := hp
  exact ⟨it, h1, hv, hk⟩

/-- internal keys (user key ‖ 8-byte trailer), ldb_ikc_init over the bytewise comparator:
    the hypotheses are satisfiable there as well -/
def exampleIKeys : List (Bytes × Bytes) :=
  [([0x61, 2, 0, 0, 0, 0, 0, 0, 0], [1]), ([0x61, 1, 0, 0, 0, 0, 0, 0, 0], [2]),
   ([0x62, 1, 0, 0, 0, 0, 0, 0, 0], [])]

theorem example_builtOk_internal : BuiltOk (mkBlockCmp .bytewise true) 1 exampleIKeys :=
  { interval_pos := by decide
    sizes := by decide
    total := blockBuild_small 1 _ (by decide) (by decide)
    laws := ordLaws_mkBlockCmp .bytewise true
    sorted := by simp [SortedKeys, exampleIKeys, mkBlockCmp]; decide
    ikeys := by intro _; decide }

/-- a hostile block: restart count 2 but restart entries pointing past the data; the iterator
    reports corruption and, by `blockIter_no_fault`, never faults whatever is asked of it -/
example (ops : List BlockOp) :
    (blockIterOps bytewiseBlockCmp).run ops
      (blockIterCreate [0, 1, 1, 0x61, 0x62, 0, 0, 0, 0, 0xff, 0xff, 0xff, 0xff, 2, 0, 0, 0]) ≠ none :=
  blockIter_no_fault _ _ ops

end Lcdb
