/-
  C12 -- I/O failures are reported and never cost acknowledged data.

  What is proved here is the part of the argument that does not depend on the fault itself: once a failing
  append or sync has put the database into its all-writes-fail state (db_impl.c ldb_record_background_error;
  the `fix:` commit makes a failed WAL *append* do that too), the journal of the run is a conforming
  trace whose last acknowledged batch precedes the fault, so `C03.kill_durable` / `kill_recovers` apply to
  the image left behind (kill or clean close) and every acknowledged batch is recovered; a partially written
  record at the end of the log reads as a clean end of file (`C15.read_truncated`).
  The fault-specific part (which call fails, what the code does next) is decided by fault-injection runs of the
  real code whose transcripts go through the same oracle as the crash images.
-/
import LcdbModel.Props.C03
import LcdbModel.Props.C05
import LcdbModel.Props.C15
namespace Lcdb.C12
open Lcdb Lcdb.Disk

/-- after any conforming run, every batch acknowledged so far survives a kill -- in particular when the run ends
    in the all-writes-fail state, in which no later batch is ever acknowledged -/
theorem faults_lose_nothing_of_conforms (t : List Ev) (h : Conforms t) (n : Nat) :
    ∀ r, recover (killImage (World.run (t.take n))) = some r →
      ∀ b ∈ ackedAll (t.take n), b ∈ r.replayed ∨ ∃ l, logOfBatch t b = some l ∧ l < r.logNum :=
  C03.kill_durable t h n

end Lcdb.C12
