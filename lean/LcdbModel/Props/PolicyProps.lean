/-
  Properties of the file-selection mechanisms of src/version_set.c (model: LcdbModel/Model/Policy.lean).
  The mechanisms establish the contracts that `Lsm.stepOk` states relationally:
    1. find_file = first file whose largest key is ≥ the target (the `find?` of `Lsm.levelFile`)
    2. some_file_overlaps_range decides "some file's user-key range meets [lo, hi]" (both branches)
    3. get_overlapping_inputs: exact selection; level 0: terminates, closed under user-key overlap
    4. pick_level_for_memtable_output establishes the flush clause of `Lsm.stepOk`
    5. add_boundary_inputs: terminates, only adds files of the level, closed under boundary files
    6. setup_other_inputs establishes the selection clauses (the first six conjuncts, among them (a) and (a'))
       of `Lsm.stepOk (.compact level in0 in1 outs)`
  Every function is total with the fuel the model gives it (no `none` under the stated hypotheses).
-/
import LcdbModel.Lemmas.PolicySetup
import LcdbModel.Lemmas.PolicyTotal
import LcdbModel.Lemmas.PolicyPick
import LcdbModel.Props.C01
namespace Lcdb.Policy
open Lcdb.CmpBasic Lcdb.Lsm

/-! ### 1. find_file -/

/-- unconditional: the result is an index into the vector or its length (no out-of-bounds) -/
theorem findFile_in_bounds (c : Cmp) (files : List FileMeta) (k : Bytes) (p : Nat) :
    findFile c files k p ≤ files.length := findFile_le_length c files k p

/-- on a sorted, disjoint level of files with smallest ≤ largest, the binary search returns the index of the
    first file whose largest key is ≥ the target: it agrees with the `find?` of `Lsm.levelFile` -/
theorem findFile_eq_find (c : Cmp) (files : List FileMeta) (k : Bytes) (p : Nat)
    (hs : LevelSorted c files) (hb : BoundsOk c files) :
    findFile c files k p = files.findIdx (fun f => !ikLt c f.lk f.lp k p) ∧
    files[findFile c files k p]? = files.find? (fun f => !ikLt c f.lk f.lp k p) :=
  ⟨findFile_eq_findIdx c files k p (largestSorted_of_levelSorted hs hb),
   findFile_getElem?_eq_find c files k p (largestSorted_of_levelSorted hs hb)⟩

/-- `Lsm.levelFile` (the relational model's choice of the file of a deeper level) is find_file + the guard -/
theorem levelFile_eq_findFile (c : Cmp) (files : List FileMeta) (k : Bytes) (p : Nat)
    (hs : LevelSorted c files) (hb : BoundsOk c files) :
    levelFile c files k p =
      match files[findFile c files k p]? with
      | some f => if c.compare k f.sk == .lt then none else some f
      | none => none := by
  rw [(findFile_eq_find c files k p hs hb).2]; rfl

/-! ### 2. some_file_overlaps_range -/

theorem someFileOverlapsRange_iff (c : Cmp) (disjoint : Bool) (files : List FileMeta) (lo hi : Option Bytes)
    (h : disjoint = true → LevelSorted c files ∧ BoundsOk c files ∧ PackedOk files) :
    someFileOverlapsRange c disjoint files lo hi = true ↔ ∃ f ∈ files, rangeHits c lo hi f = true := by
  cases disjoint with
  | false => exact someFileOverlapsRange_linear_iff c files lo hi
  | true => obtain ⟨hs, hb, hp⟩ := h rfl; exact someFileOverlapsRange_binary_iff c files lo hi hs hb hp

/-! ### 3. get_overlapping_inputs -/

/-- level > 0: exactly the files whose user-key range meets `[begin.user, end.user]`, in level order
    (no sortedness needed); level 0: terminates within `goiFuel`, the result is exactly the set of level-0 files
    meeting the final widened range `[b', e']`, every selected file lies inside `[b', e']`, each widened bound is a
    bound of a selected file (so `[b', e']` is the hull of the result and the original range), the result
    contains everything the original range hits, is a sublist of the level, and is *closed*: no level-0 file
    outside it overlaps (in user keys) a file inside it -/
theorem getOverlappingInputs_spec (c : Cmp) (files : List FileMeta) (b e : Option Bytes) :
    getOverlappingInputs c false files b e = some (files.filter (rangeHits c b e), b, e) ∧
    ∃ r b' e', getOverlappingInputs c true files b e = some (r, b', e') ∧
      r = files.filter (rangeHits c b' e') ∧
      (∀ f ∈ r, (∀ ub, b' = some ub → c.compare f.sk ub ≠ .lt) ∧ (∀ ue, e' = some ue → c.compare f.lk ue ≠ .gt)) ∧
      (b' = none ↔ b = none) ∧ (e' = none ↔ e = none) ∧
      (∀ ub ub', b = some ub → b' = some ub' → ub' = ub ∨ (c.compare ub' ub = .lt ∧ ∃ f ∈ r, f.sk = ub')) ∧
      (∀ ue ue', e = some ue → e' = some ue' → ue' = ue ∨ (c.compare ue' ue = .gt ∧ ∃ f ∈ r, f.lk = ue')) ∧
      (∀ f ∈ files, rangeHits c b e f = true → f ∈ r) ∧
      r.Sublist files ∧
      (∀ g ∈ files, g ∉ r → ∀ f ∈ r, userRangesOverlap c f g = false) := by
  refine ⟨getOverlappingInputs_deep c files b e, ?_⟩
  obtain ⟨r, b', e', h⟩ := getOverlappingInputs_total c true files b e
  obtain ⟨h1, h2, h3, h4, _, _, h7⟩ := getOverlappingInputs_level0 c files b e r b' e' h
  obtain ⟨h5, h6⟩ := getOverlappingInputs_level0_hull c files b e r b' e' h
  exact ⟨r, b', e', h, h1, h2, h3, h4, h5, h6, h7, getOverlappingInputs_sublist c true files b e r b' e' h,
    getOverlappingInputs_level0_closed c files b e r b' e' h⟩

/-- the version-level entry point never runs out of fuel; `none` only for `level ≥ LDB_NUM_LEVELS` (the assert) -/
theorem versionGoi_total (c : Cmp) (v : Version) (level : Nat) (b e : Option IKey) (h : level < numLevels) :
    ∃ r, versionGoi c v level b e = some r ∧ r.Sublist (v.files level) := by
  unfold versionGoi
  rw [if_pos h]
  obtain ⟨r, hr⟩ := goi_total c (level == 0) (v.files level) b e
  exact ⟨r, hr, goi_sublist c _ _ b e r hr⟩

/-! ### 4. pick_level_for_memtable_output -/

/-- the level chosen for a flushed memtable satisfies exactly the flush clause of `Lsm.stepOk` -/
theorem pickLevel_establishes_flush_clause (c : Cmp) (st : DbState) (hinv : Inv c st)
    (hp : ∀ l, PackedOk (st.level l)) (mfs : Nat) (f : FileMeta) :
    ∃ L, pickLevel c st.levels mfs f.sk f.lk = some L ∧ L ≤ 2 ∧ L < 7 ∧
      (∀ l, l ≤ L → L ≠ 0 → ∀ g ∈ st.level l, userRangesOverlap c f g = false) := by
  have hb : ∀ l, BoundsOk c (st.level l) := fun l g hg =>
    fileOk_boundsOk (hinv.filesOk g (mem_allFiles_of_mem_level hg))
  obtain ⟨L, h1, h2, h3⟩ := pickLevel_contract c st.levels mfs f.sk f.lk hinv.levelsSorted hb hp
  exact ⟨L, h1, h2, by omega, h3 f rfl rfl⟩

/-! ### 5. add_boundary_inputs -/

/-- if every file of the level has smallest ≤ largest, the loop terminates within `level_files.length + 1`
    rounds; the result is the inputs followed by files of the level; and afterwards no file of the level has a
    smallest key with the user key of the result's largest key `l` that is after `l` in internal-key order -/
theorem addBoundaryInputs_spec (c : Cmp) (levelFiles inputs : List FileMeta) (hb : BoundsOk c levelFiles) :
    ∃ r added, addBoundaryInputs c levelFiles inputs = some r ∧ r = inputs ++ added ∧
      (∀ f ∈ added, f ∈ levelFiles) ∧ (inputs = [] → added = []) ∧
      ∀ l, findLargestKey c r = some l →
        ∀ g ∈ levelFiles, ¬ (ikl c l (smallest g) = true ∧ c.compare g.sk l.1 = .eq) := by
  obtain ⟨r, hr⟩ := addBoundaryInputs_total c levelFiles inputs hb
  obtain ⟨added, h1, h2, h3, h4⟩ := addBoundaryInputs_closed c levelFiles inputs r hb hr
  refine ⟨r, added, hr, h1, h2, h3, ?_⟩
  intro l hl g hg ⟨hc1, hc2⟩
  have := h4 l hl g hg
  simp [isCand, hc1, hc2] at this

/-! ### 6. setup_other_inputs -/

theorem kinds_of_inv {c : Cmp} {st : DbState} (hinv : Inv c st) (l : Nat) :
    ∀ f ∈ st.level l, ∀ e ∈ f.run, e.kind ≤ 1 := by
  intro f hf e he
  apply hinv.kinds
  unfold allEntries
  exact List.mem_append_right _ (List.mem_flatMap.mpr ⟨f, mem_allFiles_of_mem_level hf, he⟩)

theorem eq_of_num_eq {c : Cmp} {st : DbState} (hinv : Inv c st) {l : Nat} {f g : FileMeta}
    (hf : f ∈ st.level l) (hg : g ∈ st.level l) (h : f.num = g.num) : f = g := by
  apply Classical.byContradiction
  intro hne
  exact pairwise_symm_mem hinv.numsDistinct (fun h => Ne.symm h) (mem_allFiles_of_mem_level hf)
    (mem_allFiles_of_mem_level hg) hne h

theorem mem_pickNums_iff {c : Cmp} {st : DbState} (hinv : Inv c st) {l : Nat} {S : List FileMeta}
    (hsub : ∀ f ∈ S, f ∈ st.level l) (f : FileMeta) :
    f ∈ pickNums (st.level l) (S.map (·.num)) ↔ f ∈ S := by
  simp only [pickNums, List.mem_filter, List.contains_eq_mem, List.mem_map, decide_eq_true_eq]
  constructor
  · rintro ⟨hf, f', hf', hn⟩
    rw [← eq_of_num_eq hinv (hsub f' hf') hf hn]; exact hf'
  · intro hf; exact ⟨hsub f hf, f, hf, rfl⟩

theorem mem_removeNums_iff {c : Cmp} {st : DbState} (hinv : Inv c st) {l : Nat} {S : List FileMeta}
    (hsub : ∀ f ∈ S, f ∈ st.level l) (g : FileMeta) :
    g ∈ removeNums (st.level l) (S.map (·.num)) ↔ g ∈ st.level l ∧ g ∉ S := by
  simp only [removeNums, List.mem_filter, List.contains_eq_mem, List.mem_map,
    Bool.not_eq_true', decide_eq_false_iff_not]
  constructor
  · rintro ⟨hg, hn⟩
    exact ⟨hg, fun hgS => hn ⟨g, hgS, rfl⟩⟩
  · rintro ⟨hg, hgS⟩
    refine ⟨hg, ?_⟩
    rintro ⟨f', hf', hn⟩
    rw [eq_of_num_eq hinv (hsub f' hf') hg hn] at hf'; exact hgS hf'

/-- **setup_other_inputs establishes the selection contract of a compaction step.**  Under the LSM invariant,
    from a seed as `pick_compaction` / `compact_range` make it (`SeedOk`: level 0 — closed under user-key overlap;
    level ≥ 1 — an interval of the level), and no (user key, sequence) occurring twice inside `level` (≥ 1) or
    `level+1`, the pair `(in0, in1)` returned by setup_other_inputs — whichever branch it took — satisfies the
    first six conjuncts of `Lsm.stepOk (.compact level in0 in1 outs)`: level bound, non-empty, the numbers name
    files of the two levels, (a) what stays in `level` is newer key by key than what leaves it, and (a') what stays in
    `level+1` is newer than every input.  Also: the function does not fault (the hypothesis `h` is satisfiable:
    see `versionSetup_total`). -/
theorem setupOtherInputs_establishes_contract (c : Cmp) (st : DbState) (hinv : Inv c st) (mfs level : Nat)
    (seed : List FileMeta) (s : Setup)
    (hseed : SeedOk c (st.level level) (level == 0) seed)
    (hd : level ≠ 0 → LevelSeqDistinct c (st.level level)) (hd1 : LevelSeqDistinct c (st.level (level + 1)))
    (h : versionSetup c mfs st.levels level seed = some s) :
    let in0 := s.in0.map (·.num)
    let in1 := s.in1.map (·.num)
    let ins := (pickNums (st.level level) in0 ++ pickNums (st.level (level + 1)) in1).flatMap (·.run)
    level + 1 < 7 ∧ in0 ≠ [] ∧
    (∀ n ∈ in0, ∃ f ∈ st.level level, f.num = n) ∧ (∀ n ∈ in1, ∃ f ∈ st.level (level + 1), f.num = n) ∧
    (∀ g ∈ removeNums (st.level level) in0, ∀ f ∈ pickNums (st.level level) in0, NewerThan c g.run f.run) ∧
    (∀ g ∈ removeNums (st.level (level + 1)) in1, NewerThan c g.run ins) := by
  intro in0 in1 ins
  unfold versionSetup at h
  split at h
  · rename_i hlev
    obtain ⟨sg, hsg, e0, e1, _, _⟩ := setupOtherInputs_shape h
    have hok : ∀ l, ∀ f ∈ st.level l, FileOk c f := fun l f hf => hinv.filesOk f (mem_allFiles_of_mem_level hf)
    have hl0 : (level == 0) = false → level ≠ 0 := by intro h1 h2; simp [h2] at h1
    obtain ⟨hsub0, hsub1, hne, hA, hA'⟩ := contract_of_stageOk (c := c) (level0 := level == 0)
      (lv := st.level level) (lv1 := st.level (level + 1))
      (fun h0 => hinv.levelsSorted level (Nat.pos_of_ne_zero (hl0 h0)))
      (hinv.levelsSorted (level + 1) (by omega)) (hok level) (hok (level + 1))
      (kinds_of_inv hinv level) (kinds_of_inv hinv (level + 1)) (fun h0 => hd (hl0 h0)) hd1 hseed hsg
    rw [← e0] at hsub0 hne hA hA'
    rw [← e1] at hsub1 hA'
    refine ⟨hlev, ?_, ?_, ?_, ?_, ?_⟩
    · intro he; exact hne (List.map_eq_nil_iff.mp he)
    · intro n hn
      obtain ⟨f, hf, rfl⟩ := List.mem_map.mp hn
      exact ⟨f, hsub0 f hf, rfl⟩
    · intro n hn
      obtain ⟨f, hf, rfl⟩ := List.mem_map.mp hn
      exact ⟨f, hsub1 f hf, rfl⟩
    · intro g hg f hf
      rw [mem_removeNums_iff hinv hsub0] at hg
      rw [mem_pickNums_iff hinv hsub0] at hf
      exact hA g hg.1 hg.2 f hf
    · intro g hg x hx y hy
      rw [mem_removeNums_iff hinv hsub1] at hg
      obtain ⟨f, hf, hyf⟩ := List.mem_flatMap.mp hy
      rcases List.mem_append.mp hf with hf | hf
      · rw [mem_pickNums_iff hinv hsub0] at hf
        exact (hA' g hg.1 hg.2).1 f hf x hx y hyf
      · rw [mem_pickNums_iff hinv hsub1] at hf
        exact (hA' g hg.1 hg.2).2 f hf x hx y hyf
  · cases h

/-- end to end for manual compactions: whatever `ldb_versions_compact_range` returns satisfies the selection
    clauses of `Lsm.stepOk (.compact ..)` (the seed is get_overlapping_inputs of the level, cut by size on levels ≥ 1) -/
theorem compactRange_establishes_contract (c : Cmp) (st : DbState) (hinv : Inv c st) (mfs level : Nat)
    (b e : Option IKey) (s : Setup)
    (hd : level ≠ 0 → LevelSeqDistinct c (st.level level)) (hd1 : LevelSeqDistinct c (st.level (level + 1)))
    (h : compactRange c mfs st.levels level b e = some (some s)) :
    let in0 := s.in0.map (·.num)
    let in1 := s.in1.map (·.num)
    let ins := (pickNums (st.level level) in0 ++ pickNums (st.level (level + 1)) in1).flatMap (·.run)
    level + 1 < 7 ∧ in0 ≠ [] ∧
    (∀ n ∈ in0, ∃ f ∈ st.level level, f.num = n) ∧ (∀ n ∈ in1, ∃ f ∈ st.level (level + 1), f.num = n) ∧
    (∀ g ∈ removeNums (st.level level) in0, ∀ f ∈ pickNums (st.level level) in0, NewerThan c g.run f.run) ∧
    (∀ g ∈ removeNums (st.level (level + 1)) in1, NewerThan c g.run ins) := by
  have hb : BoundsOk c (st.level level) := fun g hg => fileOk_boundsOk (hinv.filesOk g (mem_allFiles_of_mem_level hg))
  unfold compactRange at h
  cases hg : versionGoi c st.levels level b e with
  | none => rw [hg] at h; cases h
  | some r =>
    rw [hg] at h
    cases r with
    | nil => cases h
    | cons f fs =>
      simp only [Option.map_eq_some_iff, Option.some.injEq, exists_eq_right] at h
      unfold versionGoi at hg
      split at hg
      · by_cases hl : level = 0
        · subst hl
          simp only [Nat.lt_irrefl, if_false, gt_iff_lt] at h
          exact setupOtherInputs_establishes_contract c st hinv mfs 0 _ s
            (seedOk_goi0 hg (by simp)) hd hd1 h
        · have hpos : level > 0 := Nat.pos_of_ne_zero hl
          have hl0 : (level == 0) = false := by simp [hl]
          rw [if_pos hpos] at h
          rw [hl0] at hg
          exact setupOtherInputs_establishes_contract c st hinv mfs level _ s
            (hl0 ▸ seedOk_compactRange_deep (hinv.levelsSorted level hpos) hb hg (by simp) _) hd hd1 h
      · cases hg

/-! ### non-vacuity: the example state of `Props/C01` (level 0 = two overlapping files `f9` [a..e], `f12` [b..d];
     level 1 = `f7` [c@11 .. e@10], `f8` [e@9 .. f@8]: user key `e` straddles the two files; level 3 = `f3`) -/
section Examples
open Lcdb.C01

def showSetup (s : Option Setup) :=
  s.map (fun s => (s.in0.map (·.num), s.in1.map (·.num), s.grandparents.map (·.num), s.compactPointer))

theorem exLevelOk : LevelSorted .bytewise (exSt.level 1) ∧ BoundsOk .bytewise (exSt.level 1) ∧ PackedOk (exSt.level 1) := by
  decide

theorem exPacked : ∀ l, PackedOk (exSt.level l) := by
  have h7 : ∀ l ∈ List.range 7, PackedOk (exSt.level l) := by decide
  intro l
  rcases Nat.lt_or_ge l 7 with h | h
  · exact h7 l (List.mem_range.mpr h)
  · rw [level_eq_nil_of_ge (show exSt.levels.length ≤ l from h)]; intro f hf; cases hf

-- 1. find_file on level 1: the key (e, seq 9) is after `f7`'s largest (e, seq 10): index 1
example : findFile .bytewise (exSt.level 1) [101] (9 * 256 + 1) = 1 := by
  rw [(findFile_eq_find _ _ _ _ exLevelOk.1 exLevelOk.2.1).1]; decide
-- 2. both branches see the overlap of [f, g] with `f8`
example : someFileOverlapsRange .bytewise true (exSt.level 1) (some [102]) (some [103]) = true := by
  rw [someFileOverlapsRange_iff _ _ _ _ _ (fun _ => exLevelOk)]; exact ⟨f8, by decide, by decide⟩
-- 3. level 0 from the range [b, b]: `f9` is hit first and widens the range, the restart picks `f12` too
example : (goi .bytewise true (exSt.level 0) (some ([98], 0)) (some ([98], 0))).map (·.map (·.num)) = some [9, 12] := by
  decide
-- 4. a memtable with keys [i, j] overlaps nothing
example : ∃ L, pickLevel .bytewise exSt.levels 100 [105] [106] = some L ∧ L ≤ 2 ∧ L < 7 ∧
    ∀ l, l ≤ L → L ≠ 0 → ∀ g ∈ exSt.level l, userRangesOverlap .bytewise (mkFile 20 [ent 105 21 1 "i", ent 106 22 1 "j"]) g = false :=
  pickLevel_establishes_flush_clause .bytewise exSt exInv exPacked 100 (mkFile 20 [ent 105 21 1 "i", ent 106 22 1 "j"])
-- 5. `f8` is the boundary file of `f7`
example : (addBoundaryInputs .bytewise (exSt.level 1) [f7]).map (·.map (·.num)) = some [7, 8] := by decide
-- 6. compaction of level 1 seeded with `f7`: in0 = {f7, f8}, in1 = {}, grandparents = {f3}, compact pointer = f8.largest
example : showSetup (versionSetup .bytewise 100 exSt.levels 1 [f7]) = some ([7, 8], [], [3], ([102], 8 * 256 + 1)) := by
  decide
example (s : Setup) (h : versionSetup .bytewise 100 exSt.levels 1 [f7] = some s) :=
  setupOtherInputs_establishes_contract .bytewise exSt exInv 100 1 [f7] s
    (seedOk_singleton exLevelOk.2.1 (by decide))
    (fun _ => by unfold LevelSeqDistinct; decide) (by unfold LevelSeqDistinct; decide) h
-- level 0 seeded the way pick_compaction does (closure of `f12`): in0 = {f9, f12}, in1 = {f7, f8} (boundary file!)
example : showSetup (versionSetup .bytewise 100 exSt.levels 0 [f9, f12]) = some ([9, 12], [7, 8], [], ([101], 12 * 256 + 1)) := by
  decide
example (s : Setup) (h : versionSetup .bytewise 100 exSt.levels 0 [f9, f12] = some s) :=
  setupOtherInputs_establishes_contract .bytewise exSt exInv 100 0 [f9, f12] s
    (seedOk_goi0 (c := .bytewise) (lv := exSt.level 0) (b := some ([98], 0)) (e := some ([98], 0)) (by decide) (by decide))
    (fun h => absurd rfl h) (by unfold LevelSeqDistinct; decide) h

end Examples

/-! ### pick_compaction, end to end -/

/-- **`ldb_versions_pick_compaction` establishes the selection contract of a compaction step.**  Inputs as the C code reads
    them: `sizeLevel = some l` iff `compaction_score ≥ 1` (with `compaction_level = l`), `seek = file_to_compact(_level)`,
    `cp = compact_pointer[l]` (`none` = empty).  Under the LSM invariant, if the seek victim (only consulted when there is
    no size compaction) is a file of its level, and no (user key, sequence) occurs twice inside `level` (≥ 1) / `level+1`,
    then whatever compaction `(level, s)` is returned — size compaction by compact pointer incl. the wrap-around, seek
    compaction, with the level-0 re-expansion — satisfies the first six conjuncts of
    `Lsm.stepOk c st (.compact level (s.in0.map (·.num)) (s.in1.map (·.num)) outs)`.  (`level + 1 < 7` is a conclusion:
    for other levels the model faults, as the C code reads out of bounds.) -/
theorem pickCompaction_establishes_contract (c : Cmp) (st : DbState) (hinv : Inv c st) (mfs : Nat)
    (sizeLevel : Option Nat) (seek : Option (Nat × FileMeta)) (cp : Option IKey) (level : Nat) (s : Setup)
    (hseek : sizeLevel = none → ∀ l f, seek = some (l, f) → f ∈ st.level l)
    (hd : level ≠ 0 → LevelSeqDistinct c (st.level level)) (hd1 : LevelSeqDistinct c (st.level (level + 1)))
    (h : pickCompaction c mfs st.levels sizeLevel seek cp = some (some (level, s))) :
    let in0 := s.in0.map (·.num)
    let in1 := s.in1.map (·.num)
    let ins := (pickNums (st.level level) in0 ++ pickNums (st.level (level + 1)) in1).flatMap (·.run)
    level + 1 < 7 ∧ in0 ≠ [] ∧
    (∀ n ∈ in0, ∃ f ∈ st.level level, f.num = n) ∧ (∀ n ∈ in1, ∃ f ∈ st.level (level + 1), f.num = n) ∧
    (∀ g ∈ removeNums (st.level level) in0, ∀ f ∈ pickNums (st.level level) in0, NewerThan c g.run f.run) ∧
    (∀ g ∈ removeNums (st.level (level + 1)) in1, NewerThan c g.run ins) := by
  have hb : ∀ l, BoundsOk c (Version.files st.levels l) := fun l g hg =>
    fileOk_boundsOk (hinv.filesOk g (mem_allFiles_of_mem_level hg))
  obtain ⟨seed, hseed, hs⟩ := pickCompaction_seed hb hseek h
  exact setupOtherInputs_establishes_contract c st hinv mfs level seed s hseed hd hd1 hs

/-- size compactions (first file after the compact pointer, wrap-around included): no hypothesis on the inputs at all -/
theorem pickCompaction_size_establishes_contract (c : Cmp) (st : DbState) (hinv : Inv c st) (mfs l : Nat)
    (seek : Option (Nat × FileMeta)) (cp : Option IKey) (level : Nat) (s : Setup)
    (hd : level ≠ 0 → LevelSeqDistinct c (st.level level)) (hd1 : LevelSeqDistinct c (st.level (level + 1)))
    (h : pickCompaction c mfs st.levels (some l) seek cp = some (some (level, s))) :
    let in0 := s.in0.map (·.num)
    let in1 := s.in1.map (·.num)
    let ins := (pickNums (st.level level) in0 ++ pickNums (st.level (level + 1)) in1).flatMap (·.run)
    level + 1 < 7 ∧ in0 ≠ [] ∧
    (∀ n ∈ in0, ∃ f ∈ st.level level, f.num = n) ∧ (∀ n ∈ in1, ∃ f ∈ st.level (level + 1), f.num = n) ∧
    (∀ g ∈ removeNums (st.level level) in0, ∀ f ∈ pickNums (st.level level) in0, NewerThan c g.run f.run) ∧
    (∀ g ∈ removeNums (st.level (level + 1)) in1, NewerThan c g.run ins) :=
  pickCompaction_establishes_contract c st hinv mfs (some l) seek cp level s (fun h => by cases h) hd hd1 h

/-- seek compactions: the victim must be a file of its level -/
theorem pickCompaction_seek_establishes_contract (c : Cmp) (st : DbState) (hinv : Inv c st) (mfs l : Nat)
    (f : FileMeta) (cp : Option IKey) (level : Nat) (s : Setup) (hf : f ∈ st.level l)
    (hd : level ≠ 0 → LevelSeqDistinct c (st.level level)) (hd1 : LevelSeqDistinct c (st.level (level + 1)))
    (h : pickCompaction c mfs st.levels none (some (l, f)) cp = some (some (level, s))) :
    let in0 := s.in0.map (·.num)
    let in1 := s.in1.map (·.num)
    let ins := (pickNums (st.level level) in0 ++ pickNums (st.level (level + 1)) in1).flatMap (·.run)
    level + 1 < 7 ∧ in0 ≠ [] ∧
    (∀ n ∈ in0, ∃ f ∈ st.level level, f.num = n) ∧ (∀ n ∈ in1, ∃ f ∈ st.level (level + 1), f.num = n) ∧
    (∀ g ∈ removeNums (st.level level) in0, ∀ f ∈ pickNums (st.level level) in0, NewerThan c g.run f.run) ∧
    (∀ g ∈ removeNums (st.level (level + 1)) in1, NewerThan c g.run ins) :=
  pickCompaction_establishes_contract c st hinv mfs none (some (l, f)) cp level s
    (fun _ l' f' h' => by cases h'; exact hf) hd hd1 h

section ExamplesPick
open Lcdb.C01

def showPick (r : Option (Option (Nat × Setup))) : Option (Option (Nat × List Nat × List Nat)) :=
  r.map (fun o => o.map (fun p => (p.1, p.2.in0.map (·.num), p.2.in1.map (·.num))))

-- seek compaction of the newer level-0 file `f12` [b..d]: the re-expansion hits the older `f9` [a..e], which widens the
-- range; inputs[0] = {f9, f12}; inputs[1] = `f7` [c..e@10] plus its boundary file `f8` [e@9..f]
example : showPick (pickCompaction .bytewise 100 exSt.levels none (some (0, f12)) none)
    = some (some (0, [9, 12], [7, 8])) := by decide
example (s : Setup) (h : pickCompaction .bytewise 100 exSt.levels none (some (0, f12)) none = some (some (0, s))) :=
  pickCompaction_seek_establishes_contract .bytewise exSt exInv 100 0 f12 none 0 s (by decide)
    (fun h => absurd rfl h) (by unfold LevelSeqDistinct; decide) h
-- size compaction of level 1 with the compact pointer at `f8`'s largest key: nothing after it, wrap-around to `f7`,
-- whose boundary file `f8` comes along
example : showPick (pickCompaction .bytewise 100 exSt.levels (some 1) none (some ([102], 8 * 256 + 1)))
    = some (some (1, [7, 8], [])) := by decide
example (s : Setup) (h : pickCompaction .bytewise 100 exSt.levels (some 1) none (some ([102], 8 * 256 + 1)) = some (some (1, s))) :=
  pickCompaction_size_establishes_contract .bytewise exSt exInv 100 1 none _ 1 s
    (fun _ => by unfold LevelSeqDistinct; decide) (by unfold LevelSeqDistinct; decide) h

end ExamplesPick

end Lcdb.Policy
