/-
  C14: the level structure stays well-formed.  Every step kind whose contract (`stepOk`) holds
  preserves the invariant `Inv` (sorted runs and levels, well-formed files, recency along the
  search order, sequence / file-number bounds); hence so does every run of such steps, starting
  from the empty database.
-/
import LcdbModel.Lemmas.LsmStepsRel
namespace Lcdb.C14
open Lcdb

theorem write_preserves_inv (c : Cmp) (st : DbState) (ops : List WOp) (h : Inv c st)
    (hs : stepOk c st (.write ops)) : Inv c (applyStep c st (.write ops)) := by
  obtain ⟨_, hk⟩ := hs
  have hR := h.toRec
  have hmemb : ∀ x ∈ st.mem, x.seq ≤ st.lastSeq ∧ x.kind ≤ 1 := fun x hx =>
    ⟨h.seqBound x (mem_allEntries.mpr (.inl hx)), h.kinds x (mem_allEntries.mpr (.inl hx))⟩
  have hnew : ∀ r : Run, (∀ y ∈ r, y.seq ≤ st.lastSeq) → NewerThan c st.mem r →
      NewerThan c (applyOps c st.mem (st.lastSeq + 1) ops) r := by
    intro r hb hn x hx y hy he
    rcases mem_applyOps.mp hx with hx' | hx'
    · exact hn x hx' y hy he
    · have := (mem_opsEntries hx').1
      have := hb y hy
      omega
  apply Inv.ofRel
  · exact h.nlevels
  · exact applyOps_sorted h.memSorted
      (fun x hx => ⟨by have := (hmemb x hx).1; omega, (hmemb x hx).2⟩) hk
  · exact h.immSorted
  · exact h.filesOk
  · exact h.levelsSorted
  · constructor
    · intro r hr
      exact hnew r (fun y hy => h.seqBound y (mem_allEntries.mpr (.inr (.inl ⟨r, hr, hy⟩))))
        (hR.memImm r hr)
    · intro f hf
      exact hnew f.run (fun y hy => h.seq_le_of_file hf hy) (hR.memFiles f hf)
    · exact hR.immFiles
    · exact hR.l0
    · exact hR.levels
  · intro e he
    show e.seq ≤ st.lastSeq + ops.length
    rcases mem_allEntries.mp he with he | he | he
    · rcases mem_applyOps.mp he with he' | he'
      · have := (hmemb e he').1; omega
      · have := (mem_opsEntries he').2.1; omega
    · have := h.seqBound e (mem_allEntries.mpr (.inr (.inl he))); omega
    · have := h.seqBound e (mem_allEntries.mpr (.inr (.inr he))); omega
  · intro e he
    rcases mem_allEntries.mp he with he | he | he
    · rcases mem_applyOps.mp he with he' | he'
      · exact (hmemb e he').2
      · obtain ⟨o, ho, hko⟩ := (mem_opsEntries he').2.2
        rw [hko]; exact hk o ho
    · exact h.kinds e (mem_allEntries.mpr (.inr (.inl he)))
    · exact h.kinds e (mem_allEntries.mpr (.inr (.inr he)))
  · exact ⟨h.numsRel.within, h.numsRel.across⟩
  · exact h.numsBound
  · intro s hs
    have := h.snapsBound s hs
    show s ≤ st.lastSeq + ops.length
    omega

theorem switchMem_preserves_inv (c : Cmp) (st : DbState) (h : Inv c st)
    (hs : stepOk c st .switchMem) : Inv c (applyStep c st .switchMem) := by
  have himm : st.imm = none := hs
  have hR := h.toRec
  apply Inv.ofRel
  · exact h.nlevels
  · exact List.Pairwise.nil
  · intro r hr
    have : st.mem = r := by simpa [applyStep] using hr
    rw [← this]; exact h.memSorted
  · exact h.filesOk
  · exact h.levelsSorted
  · constructor
    · intro r _; exact newerThan_nil_left c r
    · intro f _; exact newerThan_nil_left c _
    · intro r hr f hf
      have : st.mem = r := by simpa [applyStep] using hr
      rw [← this]; exact hR.memFiles f hf
    · exact hR.l0
    · exact hR.levels
  · intro e he
    apply h.seqBound
    rcases mem_allEntries.mp he with he | ⟨r, hr, he⟩ | he
    · cases he
    · have : st.mem = r := by simpa [applyStep] using hr
      exact mem_allEntries.mpr (.inl (this ▸ he))
    · exact mem_allEntries.mpr (.inr (.inr he))
  · intro e he
    apply h.kinds
    rcases mem_allEntries.mp he with he | ⟨r, hr, he⟩ | he
    · cases he
    · have : st.mem = r := by simpa [applyStep] using hr
      exact mem_allEntries.mpr (.inl (this ▸ he))
    · exact mem_allEntries.mpr (.inr (.inr he))
  · exact ⟨h.numsRel.within, h.numsRel.across⟩
  · exact h.numsBound
  · exact h.snapsBound

theorem dropImm_preserves_inv (c : Cmp) (st : DbState) (h : Inv c st)
    (_hs : stepOk c st .dropImm) : Inv c (applyStep c st .dropImm) := by
  have hR := h.toRec
  have hsub : ∀ e, e ∈ allEntries (applyStep c st .dropImm) → e ∈ allEntries st := by
    intro e he
    rcases mem_allEntries.mp he with he | ⟨r, hr, _⟩ | he
    · exact mem_allEntries.mpr (.inl he)
    · cases hr
    · exact mem_allEntries.mpr (.inr (.inr he))
  apply Inv.ofRel
  · exact h.nlevels
  · exact h.memSorted
  · intro r hr; cases hr
  · exact h.filesOk
  · exact h.levelsSorted
  · constructor
    · intro r hr; cases hr
    · exact hR.memFiles
    · intro r hr; cases hr
    · exact hR.l0
    · exact hR.levels
  · exact fun e he => h.seqBound e (hsub e he)
  · exact fun e he => h.kinds e (hsub e he)
  · exact ⟨h.numsRel.within, h.numsRel.across⟩
  · exact h.numsBound
  · exact h.snapsBound

theorem snapshot_preserves_inv (c : Cmp) (st : DbState) (h : Inv c st)
    (_hs : stepOk c st .snapshot) : Inv c (applyStep c st .snapshot) :=
  { h with
    snapsBound := by
      intro s hs
      have : s ∈ st.snaps ++ [st.lastSeq] := hs
      rcases List.mem_append.mp this with hs' | hs'
      · exact h.snapsBound s hs'
      · simp at hs'; subst hs'; exact Nat.le_refl _ }

theorem release_preserves_inv (c : Cmp) (st : DbState) (s : Nat) (h : Inv c st)
    (_hs : stepOk c st (.release s)) : Inv c (applyStep c st (.release s)) :=
  { h with
    snapsBound := fun s' hs' => h.snapsBound s' (List.mem_of_mem_erase hs') }

theorem bumpNextFile_preserves_inv (c : Cmp) (st : DbState) (n : Nat) (h : Inv c st)
    (_hs : stepOk c st (.bumpNextFile n)) : Inv c (applyStep c st (.bumpNextFile n)) :=
  { h with
    numsBound := by
      intro f hf
      have := h.numsBound f hf
      show f.num < max st.nextFile n
      omega }

/-- installing one new table `f` at level `l` (flush and recovery share this shape) -/
def addFileState (c : Cmp) (st : DbState) (l : Nat) (f : FileMeta) (imm' : Option Run) (nf' : Nat) :
    DbState :=
  { setLevel st l (addFiles c l (st.level l) [f]) with imm := imm', nextFile := nf' }

theorem level_addFileState (c : Cmp) (st : DbState) (l : Nat) (f : FileMeta) (imm' : Option Run)
    (nf' : Nat) (hl : l < st.levels.length) (i : Nat) :
    (addFileState c st l f imm' nf').level i =
      if i = l then insertSorted c f (st.level l) else st.level i := by
  refine (level_setLevel st l _ i).trans ?_
  simp [hl, addFiles_singleton]

theorem mem_level_addFileState (c : Cmp) (st : DbState) (l : Nat) (f : FileMeta) (imm' : Option Run)
    (nf' : Nat) (hl : l < st.levels.length) (i : Nat) (g : FileMeta) :
    g ∈ (addFileState c st l f imm' nf').level i ↔ (g = f ∧ i = l) ∨ g ∈ st.level i := by
  rw [level_addFileState c st l f imm' nf' hl]
  split
  · rename_i h; subst h; simp [mem_insertSorted]
  · rename_i h; simp [h]

theorem mem_allFiles_addFileState (c : Cmp) (st : DbState) (l : Nat) (f : FileMeta) (imm' : Option Run)
    (nf' : Nat) (hl : l < st.levels.length) (g : FileMeta) :
    g ∈ allFiles (addFileState c st l f imm' nf') ↔ g = f ∨ g ∈ allFiles st := by
  rw [mem_allFiles, mem_allFiles]
  constructor
  · rintro ⟨i, hi⟩
    rcases (mem_level_addFileState c st l f imm' nf' hl i g).mp hi with ⟨h, _⟩ | h
    · exact .inl h
    · exact .inr ⟨i, h⟩
  · rintro (h | ⟨i, hi⟩)
    · exact ⟨l, (mem_level_addFileState c st l f imm' nf' hl l g).mpr (.inl ⟨h, rfl⟩)⟩
    · exact ⟨i, (mem_level_addFileState c st l f imm' nf' hl i g).mpr (.inr hi)⟩

theorem addFile_preserves_inv (c : Cmp) (st : DbState) (l : Nat) (f : FileMeta) (imm' : Option Run)
    (nf' : Nat) (h : Inv c st) (hl : l < 7) (hf : FileOk c f)
    (himm : ∀ r ∈ imm', r ∈ st.imm)
    (hnf : st.nextFile ≤ nf') (hnf' : f.num < nf')
    (hnum : ∀ g ∈ allFiles st, g.num ≠ f.num)
    (hmem : NewerThan c st.mem f.run)
    (himmf : ∀ r ∈ imm', NewerThan c r f.run)
    (hup : ∀ i, i < l → ∀ a ∈ st.level i, NewerThan c a.run f.run)
    (hdown : ∀ j, l < j → ∀ b ∈ st.level j, NewerThan c f.run b.run)
    (h0 : l = 0 → ∀ b ∈ st.level 0,
      (b.num > f.num → NewerThan c b.run f.run) ∧ (f.num > b.num → NewerThan c f.run b.run))
    (hsorted : 1 ≤ l → LevelSorted c (insertSorted c f (st.level l)))
    (hent : ∀ e ∈ f.run, e.seq ≤ st.lastSeq ∧ e.kind ≤ 1) :
    Inv c (addFileState c st l f imm' nf') := by
  have hR := h.toRec
  have hN := h.numsRel
  have hl' : l < st.levels.length := by rw [h.nlevels]; exact hl
  have hml := mem_level_addFileState c st l f imm' nf' hl'
  have hmf := mem_allFiles_addFileState c st l f imm' nf' hl'
  have hentries : ∀ e, e ∈ allEntries (addFileState c st l f imm' nf') →
      e ∈ f.run ∨ e ∈ allEntries st := by
    intro e he
    rcases mem_allEntries.mp he with he1 | ⟨r, hr, he2⟩ | ⟨g, hg, he3⟩
    · exact .inr (mem_allEntries.mpr (.inl he1))
    · exact .inr (mem_allEntries.mpr (.inr (.inl ⟨r, himm r hr, he2⟩)))
    · rcases (hmf g).mp hg with rfl | hg'
      · exact .inl he3
      · exact .inr (mem_allEntries.mpr (.inr (.inr ⟨g, hg', he3⟩)))
  apply Inv.ofRel
  · exact (levels_length_setLevel st l _).trans h.nlevels
  · exact h.memSorted
  · exact fun r hr => h.immSorted r (himm r hr)
  · intro g hg
    rcases (hmf g).mp hg with rfl | hg'
    · exact hf
    · exact h.filesOk g hg'
  · intro i hi
    rw [level_addFileState c st l f imm' nf' hl']
    split
    · rename_i e; subst e; exact hsorted hi
    · exact h.levelsSorted i hi
  · constructor
    · exact fun r hr => hR.memImm r (himm r hr)
    · intro g hg
      rcases (hmf g).mp hg with rfl | hg'
      · exact hmem
      · exact hR.memFiles g hg'
    · intro r hr g hg
      rcases (hmf g).mp hg with rfl | hg'
      · exact himmf r hr
      · exact hR.immFiles r (himm r hr) g hg'
    · intro a ha b hb hab
      rcases (hml 0 a).mp ha with ⟨rfl, hl0⟩ | ha' <;> rcases (hml 0 b).mp hb with ⟨rfl, hl0'⟩ | hb'
      · omega
      · exact (h0 hl0.symm b hb').2 hab
      · exact (h0 hl0'.symm a ha').1 hab
      · exact hR.l0 a ha' b hb' hab
    · intro i j hij a ha b hb
      rcases (hml i a).mp ha with ⟨rfl, hi⟩ | ha' <;> rcases (hml j b).mp hb with ⟨rfl, hj⟩ | hb'
      · omega
      · subst hi; exact hdown j hij b hb'
      · subst hj; exact hup i hij a ha'
      · exact hR.levels i j hij a ha' b hb'
  · intro e he
    rcases hentries e he with he' | he'
    · exact (hent e he').1
    · exact h.seqBound e he'
  · intro e he
    rcases hentries e he with he' | he'
    · exact (hent e he').2
    · exact h.kinds e he'
  · constructor
    · intro i
      rw [level_addFileState c st l f imm' nf' hl']
      split
      · rename_i e; subst e
        rw [List.Perm.pairwise_iff (fun h => Ne.symm h) (insertSorted_perm c f (st.level i)),
          List.pairwise_cons]
        exact ⟨fun g hg => Ne.symm (hnum g (mem_allFiles.mpr ⟨i, hg⟩)), hN.within i⟩
      · exact hN.within i
    · intro i j hij a ha b hb
      rcases (hml i a).mp ha with ⟨rfl, hi⟩ | ha' <;> rcases (hml j b).mp hb with ⟨rfl, hj⟩ | hb'
      · omega
      · exact Ne.symm (hnum b (mem_allFiles.mpr ⟨j, hb'⟩))
      · exact hnum a (mem_allFiles.mpr ⟨i, ha'⟩)
      · exact hN.across i j hij a ha' b hb'
  · intro g hg
    show g.num < nf'
    rcases (hmf g).mp hg with rfl | hg'
    · exact hnf'
    · exact Nat.lt_of_lt_of_le (h.numsBound g hg') hnf
  · exact h.snapsBound

theorem flush_preserves_inv (c : Cmp) (st : DbState) (level : Nat) (f : FileMeta) (h : Inv c st)
    (hs : stepOk c st (.flush level f)) : Inv c (applyStep c st (.flush level f)) := by
  obtain ⟨himm, hf, hl, hnf, hno⟩ := hs
  have hR := h.toRec
  have hmemimm : f.run ∈ st.imm := Option.mem_def.mpr himm
  show Inv c (addFileState c st level f none (max st.nextFile (f.num + 1)))
  apply addFile_preserves_inv c st level f none _ h hl hf
  · intro r hr; cases hr
  · exact Nat.le_max_left _ _
  · have := Nat.le_max_right st.nextFile (f.num + 1); omega
  · intro g hg
    have := h.numsBound g hg
    omega
  · exact hR.memImm f.run hmemimm
  · intro r hr; cases hr
  · intro i hi a ha x hx y hy he
    have hne : level ≠ 0 := by omega
    have hov := hno i (by omega) hne a ha
    have := no_shared_key_of_not_overlap hf (h.filesOk a (mem_allFiles.mpr ⟨i, ha⟩)) hov y hy x hx
    rw [cmp_swap c x.ukey y.ukey, he] at this
    exact absurd rfl this
  · intro j _ b hb
    exact hR.immFiles f.run hmemimm b (mem_allFiles.mpr ⟨j, hb⟩)
  · intro _ b hb
    constructor
    · intro hgt
      have := h.numsBound b (mem_allFiles.mpr ⟨0, hb⟩)
      omega
    · intro _
      exact hR.immFiles f.run hmemimm b (mem_allFiles.mpr ⟨0, hb⟩)
  · intro h1
    apply insertSorted_levelSorted (h.levelsSorted level h1) hf
    · exact fun g hg => h.filesOk g (mem_allFiles.mpr ⟨level, hg⟩)
    · exact fun g hg => hno level (Nat.le_refl _) (by omega) g hg
  · intro e he
    have hmem : e ∈ allEntries st := mem_allEntries.mpr (.inr (.inl ⟨f.run, hmemimm, he⟩))
    exact ⟨h.seqBound e hmem, h.kinds e hmem⟩

theorem addL0_preserves_inv (c : Cmp) (st : DbState) (f : FileMeta) (h : Inv c st)
    (hs : stepOk c st (.addL0 f)) : Inv c (applyStep c st (.addL0 f)) := by
  obtain ⟨hf, hmem, himm, hnums, hsrc, hent, _, hdist⟩ := hs
  have hall : ∀ g ∈ allFiles st, NewerThan c f.run g.run := by
    intro g hg
    obtain ⟨r, hr, hsub⟩ := sourceRuns_cover st hg
    exact (hsrc r hr).mono (fun x hx => hx) hsub
  show Inv c (addFileState c st 0 f st.imm (max st.nextFile (f.num + 1)))
  apply addFile_preserves_inv c st 0 f st.imm _ h (by omega) hf
  · exact fun r hr => hr
  · exact Nat.le_max_left _ _
  · have := Nat.le_max_right st.nextFile (f.num + 1); omega
  · exact hdist
  · rw [hmem]; exact newerThan_nil_left c _
  · intro r hr; rw [himm] at hr; cases hr
  · intro i hi; omega
  · intro j _ b hb
    exact hall b (mem_allFiles.mpr ⟨j, hb⟩)
  · intro _ b hb
    constructor
    · intro hgt
      have := hnums b hb
      omega
    · intro _
      exact hall b (mem_allFiles.mpr ⟨0, hb⟩)
  · intro h1; omega
  · exact hent

/-! ### compaction -/

theorem level_compact (c : Cmp) (st : DbState) (level : Nat) (in0 in1 : List Nat)
    (outs : List FileMeta) (hl : level + 1 < st.levels.length) (i : Nat) :
    (applyStep c st (.compact level in0 in1 outs)).level i =
      if i = level + 1 then addFiles c (level + 1) (removeNums (st.level (level + 1)) in1) outs
      else if i = level then removeNums (st.level level) in0 else st.level i := by
  refine (level_setLevel (setLevel st level (removeNums (st.level level) in0)) (level + 1) _ i).trans ?_
  rw [levels_length_setLevel, level_setLevel]
  have hl2 : level < st.levels.length := by omega
  by_cases h1 : i = level + 1
  · simp [h1, hl]
  · by_cases h2 : i = level
    · simp [h2, hl2]
    · simp [h1, h2]

/-- where the files of the state after a compaction come from -/
theorem mem_level_compact (c : Cmp) (st : DbState) (level : Nat) (in0 in1 : List Nat)
    (outs : List FileMeta) (hl : level + 1 < st.levels.length) (i : Nat) (g : FileMeta)
    (hg : g ∈ (applyStep c st (.compact level in0 in1 outs)).level i) :
    (g ∈ st.level i ∧ (i = level → g.num ∉ in0) ∧ (i = level + 1 → g.num ∉ in1)) ∨
      (g ∈ outs ∧ i = level + 1) := by
  rw [level_compact c st level in0 in1 outs hl] at hg
  split at hg
  · rename_i h1
    subst h1
    rcases mem_addFiles.mp hg with hg' | hg'
    · have := mem_removeNums.mp hg'
      exact .inl ⟨this.1, by omega, fun _ => this.2⟩
    · exact .inr ⟨hg', rfl⟩
  · rename_i h1
    split at hg
    · rename_i h2
      subst h2
      have := mem_removeNums.mp hg
      exact .inl ⟨this.1, fun _ => this.2, fun h => absurd h h1⟩
    · rename_i h2
      exact .inl ⟨hg, fun h => absurd h h2, fun h => absurd h h1⟩

theorem compact_preserves_inv (c : Cmp) (st : DbState) (level : Nat) (in0 in1 : List Nat)
    (outs : List FileMeta) (h : Inv c st) (hs : stepOk c st (.compact level in0 in1 outs)) :
    Inv c (applyStep c st (.compact level in0 in1 outs)) := by
  obtain ⟨hl, _, _, _, hstay, _, houtsOk, hsorted, hnums, houtsDistinct, hsub, _, _⟩ := hs
  have hR := h.toRec
  have hN := h.numsRel
  have hl' : level + 1 < st.levels.length := by rw [h.nlevels]; exact hl
  have hml := mem_level_compact c st level in0 in1 outs hl'
  -- every entry of an output file lives in an input file
  have hins : ∀ f ∈ outs, ∀ y ∈ f.run, ∃ g,
      ((g ∈ st.level level ∧ g.num ∈ in0) ∨ (g ∈ st.level (level + 1) ∧ g.num ∈ in1)) ∧ y ∈ g.run := by
    intro f hf y hy
    have := hsub y (List.mem_flatMap.mpr ⟨f, hf, hy⟩)
    obtain ⟨g, hg, hyg⟩ := List.mem_flatMap.mp this
    rcases List.mem_append.mp hg with hg' | hg'
    · exact ⟨g, .inl (mem_pickNums.mp hg'), hyg⟩
    · exact ⟨g, .inr (mem_pickNums.mp hg'), hyg⟩
  have hinsFile : ∀ f ∈ outs, ∀ y ∈ f.run, ∃ g ∈ allFiles st, y ∈ g.run := by
    intro f hf y hy
    obtain ⟨g, hg, hyg⟩ := hins f hf y hy
    rcases hg with hg | hg
    · exact ⟨g, mem_allFiles.mpr ⟨_, hg.1⟩, hyg⟩
    · exact ⟨g, mem_allFiles.mpr ⟨_, hg.1⟩, hyg⟩
  have hfiles : ∀ g, g ∈ allFiles (applyStep c st (.compact level in0 in1 outs)) →
      g ∈ allFiles st ∨ g ∈ outs := by
    intro g hg
    obtain ⟨i, hi⟩ := mem_allFiles.mp hg
    rcases hml i g hi with hi' | hi'
    · exact .inl (mem_allFiles.mpr ⟨i, hi'.1⟩)
    · exact .inr hi'.1
  have hentries : ∀ e, e ∈ allEntries (applyStep c st (.compact level in0 in1 outs)) →
      e ∈ allEntries st := by
    intro e he
    rcases mem_allEntries.mp he with he1 | he2 | ⟨g, hg, he3⟩
    · exact mem_allEntries.mpr (.inl he1)
    · exact mem_allEntries.mpr (.inr (.inl he2))
    · rcases hfiles g hg with hg' | hg'
      · exact mem_allEntries.mpr (.inr (.inr ⟨g, hg', he3⟩))
      · exact mem_allEntries.mpr (.inr (.inr (hinsFile g hg' e he3)))
  -- a source that was newer than all files is newer than the outputs
  have hnewer : ∀ r : Run, (∀ g ∈ allFiles st, NewerThan c r g.run) →
      ∀ g ∈ allFiles (applyStep c st (.compact level in0 in1 outs)), NewerThan c r g.run := by
    intro r hr g hg
    rcases hfiles g hg with hg' | hg'
    · exact hr g hg'
    · intro x hx y hy he
      obtain ⟨g', hg'', hy'⟩ := hinsFile g hg' y hy
      exact hr g' hg'' x hx y hy' he
  apply Inv.ofRel
  · exact (levels_length_setLevel _ _ _).trans ((levels_length_setLevel _ _ _).trans h.nlevels)
  · exact h.memSorted
  · exact h.immSorted
  · intro g hg
    rcases hfiles g hg with hg' | hg'
    · exact h.filesOk g hg'
    · exact houtsOk g hg'
  · intro i hi
    rw [level_compact c st level in0 in1 outs hl']
    split
    · exact hsorted
    · split
      · rename_i h2; subst h2
        exact List.Pairwise.filter _ (h.levelsSorted i hi)
      · exact h.levelsSorted i hi
  · constructor
    · exact hR.memImm
    · exact hnewer st.mem hR.memFiles
    · exact fun r hr => hnewer r (hR.immFiles r hr)
    · intro a ha b hb hab
      rcases hml 0 a ha with ha' | ha'
      · rcases hml 0 b hb with hb' | hb'
        · exact hR.l0 a ha'.1 b hb'.1 hab
        · omega
      · omega
    · intro i j hij a ha b hb
      rcases hml i a ha with ha' | ha' <;> rcases hml j b hb with hb' | hb'
      · exact hR.levels i j hij a ha'.1 b hb'.1
      · -- `b` is an output: its entries come from inputs at `level` or `level + 1`
        obtain ⟨hbo, rfl⟩ := hb'
        intro x hx y hy he
        obtain ⟨g, hg, hyg⟩ := hins b hbo y hy
        rcases hg with hg | hg
        · by_cases hil : i = level
          · subst hil
            exact hstay a (mem_removeNums.mpr ⟨ha'.1, ha'.2.1 rfl⟩) g (mem_pickNums.mpr hg) x hx y hyg he
          · exact hR.levels i level (by omega) a ha'.1 g hg.1 x hx y hyg he
        · exact hR.levels i (level + 1) hij a ha'.1 g hg.1 x hx y hyg he
      · -- `a` is an output, `b` lies strictly deeper than both input levels
        obtain ⟨hao, rfl⟩ := ha'
        intro x hx y hy he
        obtain ⟨g, hg, hxg⟩ := hins a hao x hx
        rcases hg with hg | hg
        · exact hR.levels level j (by omega) g hg.1 b hb'.1 x hxg y hy he
        · exact hR.levels (level + 1) j hij g hg.1 b hb'.1 x hxg y hy he
      · omega
  · exact fun e he => h.seqBound e (hentries e he)
  · exact fun e he => h.kinds e (hentries e he)
  · constructor
    · intro i
      rw [level_compact c st level in0 in1 outs hl']
      split
      · rw [List.Perm.pairwise_iff (fun h => Ne.symm h) (addFiles_perm c _ _ outs),
          List.pairwise_append]
        refine ⟨List.Pairwise.filter _ (hN.within _), houtsDistinct, ?_⟩
        intro g hg f hf heq
        have hg1 := (mem_removeNums.mp hg).1
        have := (hnums f hf g (mem_allFiles.mpr ⟨_, hg1⟩) heq).1
        have := hN.level_unique (mem_pickNums.mp this).1 hg1
        omega
      · split
        · rename_i h2; subst h2
          exact List.Pairwise.filter _ (hN.within _)
        · exact hN.within i
    · intro i j hij a ha b hb
      rcases hml i a ha with ha' | ha' <;> rcases hml j b hb with hb' | hb'
      · exact hN.across i j hij a ha'.1 b hb'.1
      · obtain ⟨hbo, rfl⟩ := hb'
        intro heq
        have hp := mem_pickNums.mp (hnums b hbo a (mem_allFiles.mpr ⟨i, ha'.1⟩) heq).1
        have := hN.level_unique hp.1 ha'.1
        subst this
        exact ha'.2.1 rfl hp.2
      · obtain ⟨hao, rfl⟩ := ha'
        intro heq
        have hp := mem_pickNums.mp (hnums a hao b (mem_allFiles.mpr ⟨j, hb'.1⟩) heq.symm).1
        have := hN.level_unique hp.1 hb'.1
        omega
      · omega
  · intro g hg
    show g.num < outs.foldl (fun m f => max m (f.num + 1)) st.nextFile
    rcases hfiles g hg with hg' | hg'
    · exact Nat.lt_of_lt_of_le (h.numsBound g hg') (foldl_max_ge outs _)
    · exact foldl_max_gt outs _ g hg'
  · exact h.snapsBound

/-! ### all steps, runs, the empty database -/

theorem step_preserves_inv (c : Cmp) (st : DbState) (s : Step) (h : Inv c st) (hs : stepOk c st s) :
    Inv c (applyStep c st s) := by
  cases s with
  | write ops => exact write_preserves_inv c st ops h hs
  | switchMem => exact switchMem_preserves_inv c st h hs
  | flush level f => exact flush_preserves_inv c st level f h hs
  | dropImm => exact dropImm_preserves_inv c st h hs
  | addL0 f => exact addL0_preserves_inv c st f h hs
  | compact level in0 in1 outs => exact compact_preserves_inv c st level in0 in1 outs h hs
  | snapshot => exact snapshot_preserves_inv c st h hs
  | release s => exact release_preserves_inv c st s h hs
  | bumpNextFile n => exact bumpNextFile_preserves_inv c st n h hs

theorem steps_preserve_inv (c : Cmp) (st : DbState) (steps : List Step) (h : Inv c st)
    (hs : StepsOk c st steps) : Inv c (runSteps c st steps) := by
  induction steps generalizing st with
  | nil => exact h
  | cons s ss ih => exact ih _ (step_preserves_inv c st s h hs.1) hs.2

theorem initial_inv (c : Cmp) : Inv c emptyState := by
  have hlev : ∀ l, emptyState.level l = [] := by
    intro l
    simp only [DbState.level, emptyState, List.getD_eq_getElem?_getD, List.getElem?_replicate]
    split <;> rfl
  have hfiles : ∀ f, f ∉ allFiles emptyState := by
    intro f hf
    obtain ⟨l, hl⟩ := mem_allFiles.mp hf
    rw [hlev] at hl
    cases hl
  have hentries : ∀ e, e ∉ allEntries emptyState := by
    intro e he
    rcases mem_allEntries.mp he with he | ⟨r, hr, _⟩ | ⟨f, hf, _⟩
    · cases he
    · cases hr
    · exact hfiles f hf
  apply Inv.ofRel
  · rfl
  · exact List.Pairwise.nil
  · intro r hr; cases hr
  · exact fun f hf => absurd hf (hfiles f)
  · intro l _; rw [hlev]; exact List.Pairwise.nil
  · constructor
    · intro r hr; cases hr
    · exact fun f hf => absurd hf (hfiles f)
    · intro r hr; cases hr
    · intro a ha; rw [hlev] at ha; cases ha
    · intro i j _ a ha; rw [hlev] at ha; cases ha
  · exact fun e he => absurd he (hentries e)
  · exact fun e he => absurd he (hentries e)
  · constructor
    · intro l; rw [hlev]; exact List.Pairwise.nil
    · intro i j _ a ha; rw [hlev] at ha; cases ha
  · exact fun f hf => absurd hf (hfiles f)
  · intro s hs; cases hs

/-! ### non-vacuity: concrete states and steps satisfying the hypotheses -/

namespace Ex

def k1 : Bytes := [1]
def k2 : Bytes := [2]
def k3 : Bytes := [3]
def k5 : Bytes := [5]

/-- a table file with consistent metadata for a non-empty run -/
def mkFile (num : Nat) (run : Run) : FileMeta :=
  match run.head?, run.getLast? with
  | some a, some b => ⟨num, run.length, a.ukey, a.packed, b.ukey, b.packed, run⟩
  | _, _ => ⟨num, 0, [], 0, [], 0, run⟩

def g2 : FileMeta := mkFile 2 [⟨k1, 1, 1, "old"⟩, ⟨k2, 2, 1, "old2"⟩]
def g3 : FileMeta := mkFile 3 [⟨k1, 3, 1, "z"⟩]
def g4 : FileMeta := mkFile 4 [⟨k1, 5, 0, ""⟩, ⟨k2, 6, 1, "y"⟩]
def g5 : FileMeta := mkFile 5 [⟨k1, 7, 1, "x"⟩]
def g6 : FileMeta := mkFile 6 [⟨k3, 4, 1, "w"⟩]

/-- memtable, immutable memtable, two overlapping level-0 files, two level-1 files, one level-2
    file, one live snapshot -/
def stA : DbState :=
  { mem := [⟨k1, 10, 1, "m"⟩], imm := some [⟨k2, 9, 0, ""⟩, ⟨k3, 8, 1, "i"⟩],
    levels := [[g5, g4], [g3, g6], [g2], [], [], [], []], lastSeq := 10, snaps := [6], nextFile := 7 }

/-- the same with an immutable memtable that overlaps nothing (flush to a deeper level) -/
def stB : DbState := { stA with imm := some [⟨k5, 9, 1, "q"⟩] }
/-- no immutable memtable -/
def stC : DbState := { stA with imm := none }
/-- an empty immutable memtable -/
def stD : DbState := { stA with imm := some [] }
/-- during recovery: nothing in memory -/
def stG : DbState := { stA with mem := [], imm := none, snaps := [] }

def g7 : FileMeta := mkFile 7 [⟨k2, 9, 0, ""⟩, ⟨k3, 8, 1, "i"⟩]
def g7b : FileMeta := mkFile 7 [⟨k5, 9, 1, "q"⟩]
/-- level 0 -> 1 output: the shadowed `(k1, 3)` is dropped, the tombstone `(k1, 5)` must stay
    (level 2 still holds `k1`, and snapshot 6 sees the tombstone) -/
def g8 : FileMeta := mkFile 8 [⟨k1, 7, 1, "x"⟩, ⟨k1, 5, 0, ""⟩, ⟨k2, 6, 1, "y"⟩]
/-- level 1 -> 2 output: `(k1, 1)` is shadowed at every protected sequence -/
def g9 : FileMeta := mkFile 9 [⟨k1, 3, 1, "z"⟩, ⟨k2, 2, 1, "old2"⟩]
/-- a replayed log: newer than everything on disk -/
def g10 : FileMeta := mkFile 10 [⟨k1, 9, 1, "r"⟩, ⟨k3, 10, 0, ""⟩]

theorem invA : Inv .bytewise stA := inv_of_invRel (by decide)
theorem invB : Inv .bytewise stB := inv_of_invRel (by decide)
theorem invC : Inv .bytewise stC := inv_of_invRel (by decide)
theorem invD : Inv .bytewise stD := inv_of_invRel (by decide)
theorem invG : Inv .bytewise stG := inv_of_invRel (by decide)

def writeA : Step := .write [⟨k2, 1, "n"⟩, ⟨k1, 0, ""⟩]
def compact01 : Step := .compact 0 [4, 5] [3] [g8]
def compact12 : Step := .compact 1 [3] [2] [g9]
/-- trivial move of `g6` from level 1 to level 2 -/
def moveA : Step := .compact 1 [6] [] [g6]

theorem okWrite : stepOk .bytewise stA writeA := by decide
theorem okSwitch : stepOk .bytewise stC .switchMem := by decide
theorem okFlush0 : stepOk .bytewise stA (.flush 0 g7) := by decide
theorem okFlush1 : stepOk .bytewise stB (.flush 1 g7b) := by decide
theorem okDrop : stepOk .bytewise stD .dropImm := by decide
theorem okCompact01 : stepOk .bytewise stA compact01 := by decide
theorem okCompact12 : stepOk .bytewise stA compact12 := by decide
theorem okMove : stepOk .bytewise stA moveA := by decide
theorem okRelease : stepOk .bytewise stA (.release 6) := by decide
theorem okAddL0 : stepOk .bytewise stG (.addL0 g10) :=
  ⟨by decide, by decide, by decide, by decide,
    newerThan_sourceRuns_of_files (by decide) (by decide) (by decide),
    by decide, by decide, by decide⟩

example : Inv .bytewise (applyStep .bytewise stA writeA) := write_preserves_inv _ _ _ invA okWrite
example : Inv .bytewise (applyStep .bytewise stC .switchMem) := switchMem_preserves_inv _ _ invC okSwitch
example : Inv .bytewise (applyStep .bytewise stA (.flush 0 g7)) := flush_preserves_inv _ _ _ _ invA okFlush0
example : Inv .bytewise (applyStep .bytewise stB (.flush 1 g7b)) := flush_preserves_inv _ _ _ _ invB okFlush1
example : Inv .bytewise (applyStep .bytewise stD .dropImm) := dropImm_preserves_inv _ _ invD okDrop
example : Inv .bytewise (applyStep .bytewise stG (.addL0 g10)) := addL0_preserves_inv _ _ _ invG okAddL0
example : Inv .bytewise (applyStep .bytewise stA compact01) :=
  compact_preserves_inv _ _ _ _ _ _ invA okCompact01
example : Inv .bytewise (applyStep .bytewise stA compact12) :=
  compact_preserves_inv _ _ _ _ _ _ invA okCompact12
example : Inv .bytewise (applyStep .bytewise stA moveA) := compact_preserves_inv _ _ _ _ _ _ invA okMove
example : Inv .bytewise (applyStep .bytewise stA .snapshot) := snapshot_preserves_inv _ _ invA trivial
example : Inv .bytewise (applyStep .bytewise stA (.release 6)) := release_preserves_inv _ _ _ invA okRelease
example : Inv .bytewise (applyStep .bytewise stA (.bumpNextFile 20)) :=
  bumpNextFile_preserves_inv _ _ _ invA trivial

/-- the contracts are not vacuous either: they reject wrong steps -/
example : ¬ stepOk .bytewise stA (.flush 1 g7) := by decide         -- overlaps level 0 / level 1
example : ¬ stepOk .bytewise stA (.compact 0 [4] [3] [g8]) := by decide  -- g8 holds an entry that is no input
example : ¬ stepOk .bytewise stA (.compact 0 [4, 5] [3] [mkFile 8 [⟨k1, 7, 1, "x"⟩, ⟨k2, 6, 1, "y"⟩]]) := by
  decide                                                            -- drops a tombstone level 2 needs

/-- a whole life from the empty database: writes, a snapshot, two flushes, a compaction that has to
    keep everything the snapshot sees, the release, and a compaction that drops the tombstone -/
def h1 : FileMeta := mkFile 1 [⟨k1, 3, 0, ""⟩, ⟨k1, 1, 1, "a"⟩, ⟨k2, 2, 1, "b"⟩]
def h2 : FileMeta := mkFile 2 [⟨k2, 4, 1, "c"⟩]
def h3 : FileMeta := mkFile 3 [⟨k1, 3, 0, ""⟩, ⟨k1, 1, 1, "a"⟩, ⟨k2, 4, 1, "c"⟩, ⟨k2, 2, 1, "b"⟩]
def h4 : FileMeta := mkFile 4 [⟨k2, 4, 1, "c"⟩]

def prefix1 : List Step := [.write [⟨k1, 1, "a"⟩, ⟨k2, 1, "b"⟩], .snapshot]
def middle1 : List Step :=
  [.write [⟨k1, 0, ""⟩], .switchMem, .flush 0 h1, .write [⟨k2, 1, "c"⟩], .switchMem, .flush 0 h2,
    .compact 0 [1, 2] [] [h3]]
def suffix1 : List Step := [.release 2, .compact 1 [3] [] [h4]]
def run1 : List Step := prefix1 ++ middle1 ++ suffix1

theorem okRun1 : StepsOk .bytewise emptyState run1 := by decide

example : Inv .bytewise (runSteps .bytewise emptyState run1) :=
  steps_preserve_inv _ _ _ (initial_inv _) okRun1

/-- before the release the compaction may not drop the tombstone's shadow `(k1, 1)` -/
example : ¬ StepsOk .bytewise emptyState (prefix1 ++ [.write [⟨k1, 0, ""⟩], .switchMem, .flush 0 h1,
    .write [⟨k2, 1, "c"⟩], .switchMem, .flush 0 h2, .compact 0 [1, 2] [] [h4]]) := by decide

end Ex

end Lcdb.C14
