import LcdbModel.Model.Lsm
import LcdbModel.Model.DbIter
namespace Lcdb.C14
open Lcdb

end Lcdb.C14
