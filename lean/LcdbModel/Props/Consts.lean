/-
  T1/T2 obligations: the constants and tables extracted from /repo's *current* source
  (LcdbModel/Generated, rewritten by tools/gen_lean.py on every check) equal the
  constants the models and theorems are stated over.  A changed format constant breaks
  exactly one line here, and the line names it.
-/
import LcdbModel.Generated.Consts
import LcdbModel.Model.LogFormat
import LcdbModel.Model.WriteBatch
import LcdbModel.Model.InternalKey
import LcdbModel.Model.VersionEdit
namespace Lcdb.ConstsOk
open Lcdb

theorem logBlockSize_ok : Generated.logBlockSize = logBlockSize := by decide
theorem logHeaderSize_ok : Generated.logHeaderSize = logHeaderSize := by decide
theorem recTypes_ok : Generated.recZero = 0 ∧ Generated.recFull = tyFull ∧ Generated.recFirst = tyFirst ∧
    Generated.recMiddle = tyMiddle ∧ Generated.recLast = tyLast := by decide
theorem crcMask_ok : Generated.crcMaskDelta = maskDelta.toNat ∧ Generated.crcMaskRotR = 15 ∧ Generated.crcMaskRotL = 17 := by decide

theorem editTags_ok : Generated.tagComparator = tagComparator ∧ Generated.tagLogNumber = tagLogNumber ∧
    Generated.tagNextFileNumber = tagNextFileNumber ∧ Generated.tagLastSequence = tagLastSequence ∧
    Generated.tagCompactPointer = tagCompactPointer ∧ Generated.tagDeletedFile = tagDeletedFile ∧
    Generated.tagNewFile = tagNewFile ∧ Generated.tagPrevLogNumber = tagPrevLogNumber ∧ Generated.numLevels = numLevels := by decide
theorem batch_ok : Generated.batchHeader = batchHeaderSize ∧ Generated.typeDeletion = typeDeletion ∧ Generated.typeValue = typeValue := by decide
theorem ikey_ok : Generated.maxSequenceBits = 56 ∧ Generated.valtypeForSeek = valtypeSeek ∧ maxSequence = 2 ^ Generated.maxSequenceBits - 1 := by decide

end Lcdb.ConstsOk
