import LcdbModel.Model.Conc
namespace Lcdb.C08
end Lcdb.C08
