/-
  C08 -- linearizability of writes and reads.

  `st.committed` is the sequential history (batch ids in commit order), `st.lastSeq` the published sequence (= number
  of committed batches), `st.log` the real-time log of invocations `(tid, false, lastSeq)` and responses
  `(tid, true, lastSeq)`. `[x, y] <+ l` (`List.Sublist`) says that `x` occurs before `y` in `l`.
-/
import LcdbModel.Lemmas.ConcHist
import LcdbModel.Lemmas.ConcDemo

namespace Lcdb.C08
open Lcdb.Conc

/-- 6. The published sequence is the length of the history ... -/
theorem lastSeq_committed {ws : List Writer} {rs : List Reader} (hwf : WF ws rs) {st : St} (h : Reachable ws rs st) :
    st.lastSeq = st.committed.length :=
  (reachable_Inv hwf h).l.lastSeq_eq

/-- ... and both only grow, the history by appending. -/
theorem committed_grows {ws : List Writer} {rs : List Reader} (hwf : WF ws rs) {st st' : St} {l : Label}
    (h : Reachable ws rs st) (hs : step st l = some st') :
    ∃ ext, st'.committed = st.committed ++ ext ∧ st'.lastSeq = st.lastSeq + ext.length := by
  have H := reachable_Inv hwf h
  rcases step_history H.q hs with ⟨h1, h2, _, _⟩ | ⟨t, _, h1, h2, _⟩
  · exact ⟨[], by simp [h1], by simp [h2]⟩
  · refine ⟨_, h1, ?_⟩
    rw [h2, batchesOf, length_batches _ (fun m hm => H.q.qmem m (H.q.pfx.subset hm))]

/-- 7. Every batch is committed at most once, and exactly once iff its writer was (or is being) told so. -/
theorem commit_once {ws : List Writer} {rs : List Reader} (hwf : WF ws rs) {st : St} (h : Reachable ws rs st) :
    st.committed.Nodup ∧
    (∀ b ∈ st.committed, ∃ w ∈ st.writers, w.batch = b) ∧
    ∀ w ∈ st.writers,
      (w.pc = .returned true → st.committed.count w.batch = 1) ∧
      (w.pc = .returned false → st.committed.count w.batch = 0) ∧
      ((∀ ok, w.pc ≠ .returned ok) → w.done = true → w.status = true → st.committed.count w.batch = 1) ∧
      ((∀ ok, w.pc ≠ .returned ok) → (w.done = false ∨ w.status = false) → st.committed.count w.batch = 0) := by
  have H := (reachable_Inv hwf h).l
  refine ⟨?_, H.from_writer, ?_⟩
  · rw [List.nodup_iff_count]
    intro b
    by_cases hb : b ∈ st.committed
    · obtain ⟨w, hw, rfl⟩ := H.from_writer b hb
      have := H.wc w hw
      unfold WC at this; rw [this]; split <;> omega
    · rw [List.count_eq_zero_of_not_mem hb]; omega
  · intro w hw
    have hc := H.wc w hw
    unfold WC at hc
    refine ⟨?_, ?_, ?_, ?_⟩
    · intro hpc; rw [hc]; simp [wCommitted, hpc]
    · intro hpc; rw [hc]; simp [wCommitted, hpc]
    · intro hpc hd hs; rw [hc, wCommitted_eq, retOk_none_of hpc]; simp [hd, hs]
    · intro hpc hds; rw [hc, wCommitted_eq, retOk_none_of hpc]
      rcases hds with hd | hs
      · simp [hd]
      · simp [hs]

/-- a writer's tid in the list of writer invocations -/
theorem sublist_writerInvs {st : St} {a b : Writer} (ha : a ∈ st.writers) (hb : b ∈ st.writers)
    (hord : [a.tid, b.tid].Sublist (invocations st.log)) : [a.tid, b.tid].Sublist (writerInvs st) := by
  have := hord.filter (fun t => decide (t ∈ st.writers.map (·.tid)))
  have ha' : ∃ x, x ∈ st.writers ∧ x.tid = a.tid := ⟨a, ha, rfl⟩
  have hb' : ∃ x, x ∈ st.writers ∧ x.tid = b.tid := ⟨b, hb, rfl⟩
  simpa [writerInvs, List.filter_cons, ha', hb'] using this

/-- 8. FIFO: successfully committed batches appear in the history in the order in which their writers entered the
    queue. -/
theorem fifo_order {ws : List Writer} {rs : List Reader} (hwf : WF ws rs) {st : St} (h : Reachable ws rs st)
    {a b : Writer} (ha : a ∈ st.writers) (hb : b ∈ st.writers)
    (hca : wCommitted a = true) (hcb : wCommitted b = true)
    (hord : [a.tid, b.tid].Sublist (invocations st.log)) :
    [a.batch, b.batch].Sublist st.committed := by
  have H := reachable_Inv hwf h
  obtain ⟨removed, e1, e2, _⟩ := H.l.fifo
  have h1 := sublist_writerInvs ha hb hord
  rw [e1, List.sublist_append_iff] at h1
  obtain ⟨l1, l2, e, s1, s2⟩ := h1
  -- `b` is not on the queue any more
  have hbq : b.tid ∉ st.queue := by
    intro hm
    have := H.q.queued hb (by simp) hm
    rw [wCommitted_of_not_done this.1 (retOk_none_of this.2.2)] at hcb
    cases hcb
  have hl2 : l2 = [] := by
    cases l2 with
    | nil => rfl
    | cons x l2 =>
      exfalso
      have hlast : b.tid ∈ x :: l2 := by
        have : ([a.tid, b.tid] : List Tid).getLast? = (l1 ++ x :: l2).getLast? := by rw [e]
        simp [List.getLast?_append] at this
        have hx : (x :: l2).getLast? = some b.tid := by
          cases hl : (x :: l2).getLast? with
          | none => simp at hl
          | some y => rw [hl] at this; simp at this; rw [this]
        exact List.mem_of_getLast? hx
      exact hbq (s2.subset hlast)
  rw [hl2, List.append_nil] at e
  subst e
  have := s1.filterMap (commitBatch st)
  rw [← e2] at this
  have hga := getW_of_mem H.q.wnodup ha
  have hgb := getW_of_mem H.q.wnodup hb
  simpa [commitBatch, hga, hgb, hca, hcb] using this

/-- an invocation precedes its response: from "`a`'s response precedes `e`" to "`a`'s invocation precedes `e`" -/
theorem inv_before_of_resp_before {log : List Entry} {t : Tid} {s0 s1 x : Nat} {e : Entry}
    (hent : entriesOf log t = [(t, false, s0), (t, true, s1)])
    (hord : [(t, true, x), e].Sublist log) : [(t, false, s0), e].Sublist log := by
  rw [List.cons_sublist_iff] at hord
  obtain ⟨r1, r2, hlog, hm, hs⟩ := hord
  rw [hlog, entriesOf_append] at hent
  have hm' : ((t, true, x) : Entry) ∈ entriesOf r1 t := mem_entriesOf.2 ⟨hm, rfl⟩
  have hinv : ((t, false, s0) : Entry) ∈ entriesOf r1 t := by
    rcases List.append_eq_cons_iff.1 hent with ⟨h1, _⟩ | ⟨l', h1, h2⟩
    · rw [h1] at hm'; cases hm'
    · rw [h1]; simp
  have hinv' : ((t, false, s0) : Entry) ∈ r1 := (mem_entriesOf.1 hinv).1
  rw [hlog]
  exact (List.singleton_sublist.2 hinv').append hs

theorem invocations_pair {t1 t2 : Tid} {s1 s2 : Nat} {log : List Entry}
    (h : [((t1, false, s1) : Entry), (t2, false, s2)].Sublist log) : [t1, t2].Sublist (invocations log) := by
  have := (h.filter (fun e => !e.2.1)).map (·.1)
  simpa [invocations] using this

/-- 8'. Real-time order: if `a` returned (successfully) before `b` was invoked, `a`'s batch precedes `b`'s. -/
theorem realtime_order {ws : List Writer} {rs : List Reader} (hwf : WF ws rs) {st : St} (h : Reachable ws rs st)
    {a b : Writer} (ha : a ∈ st.writers) (hb : b ∈ st.writers)
    (hra : a.pc = .returned true) (hcb : wCommitted b = true) {x y : Nat}
    (hord : [((a.tid, true, x) : Entry), (b.tid, false, y)].Sublist st.log) :
    [a.batch, b.batch].Sublist st.committed := by
  have H := reachable_Inv hwf h
  have hl := H.l.wlog' ha
  simp only [WLog, hra, retOk] at hl
  obtain ⟨s0, s1, hent, _⟩ := hl
  have := inv_before_of_resp_before hent hord
  exact fifo_order hwf h ha hb (by simp [wCommitted, hra]) hcb (invocations_pair this)

/-- the sequence a reader captured -/
def captured : RPc → Option Nat
  | .idle => none
  | .reading s => some s
  | .releasing s => some s
  | .returned s => some s

/-- what a reader with captured sequence `s` reads: the first `s` batches of the history -/
def view (st : St) (s : Nat) : List Nat := st.committed.take s

/-- the log entries of a reader that has captured `s`: exactly one invocation, stamped `s` -/
theorem reader_inv_entry {ws : List Writer} {rs : List Reader} (hwf : WF ws rs) {st : St} (h : Reachable ws rs st)
    {r : Reader} (hr : r ∈ st.readers) {s : Nat} (hc : captured r.pc = some s) {y : Nat}
    (hm : ((r.tid, false, y) : Entry) ∈ st.log) : y = s := by
  have hrl := (reachable_Inv hwf h).l.rl r hr
  have hm' : ((r.tid, false, y) : Entry) ∈ entriesOf st.log r.tid := mem_entriesOf.2 ⟨hm, rfl⟩
  unfold RL at hrl
  cases hpc : r.pc <;> simp only [hpc, captured] at hrl hc
  · cases hc
  · rw [hrl] at hm'; simp at hm'; rw [hm']; exact Option.some.inj hc
  · rw [hrl] at hm'; simp at hm'; rw [hm']; exact Option.some.inj hc
  · obtain ⟨s1, hrl⟩ := hrl
    rw [hrl] at hm'; simp at hm'; rw [hm']; exact Option.some.inj hc

theorem log_le_of_sublist {ws : List Writer} {rs : List Reader} (hwf : WF ws rs) {st : St} (h : Reachable ws rs st)
    {e1 e2 : Entry} (hs : [e1, e2].Sublist st.log) : e1.2.2 ≤ e2.2.2 := by
  have := (reachable_Inv hwf h).l.log_mono
  have := List.Pairwise.sublist (hs.map (·.2.2)) this
  simpa using this

/-- 9. A reader's captured sequence is the published sequence at its invocation, which is at most the published
    sequence at its response: what it reads, `view st s`, is the sequential state at a point inside its interval. -/
theorem reader_linearizable {ws : List Writer} {rs : List Reader} (hwf : WF ws rs) {st : St} (h : Reachable ws rs st)
    {r : Reader} (hr : r ∈ st.readers) {s : Nat} (hpc : r.pc = .returned s) :
    ∃ s1, entriesOf st.log r.tid = [(r.tid, false, s), (r.tid, true, s1)] ∧ s ≤ s1 ∧ s1 ≤ st.lastSeq ∧
      s1 ≤ st.committed.length ∧ view st s <+: view st s1 := by
  have H := (reachable_Inv hwf h).l
  have hrl := H.rl r hr
  simp only [RL, hpc] at hrl
  obtain ⟨s1, hent⟩ := hrl
  have hsub : [((r.tid, false, s) : Entry), (r.tid, true, s1)].Sublist st.log := by
    rw [← hent]; exact List.filter_sublist
  have h1 : s ≤ s1 := log_le_of_sublist hwf h hsub
  have h2 : s1 ≤ st.lastSeq := H.log_le (r.tid, true, s1) (hsub.subset (by simp))
  exact ⟨s1, hent, h1, h2, by rw [← H.lastSeq_eq]; exact h2, List.take_prefix_take_left h1⟩

/-- while the reader is still running its captured sequence is the one logged at its invocation, and not ahead of
    the published one -/
theorem reader_captured {ws : List Writer} {rs : List Reader} (hwf : WF ws rs) {st : St} (h : Reachable ws rs st)
    {r : Reader} (hr : r ∈ st.readers) {s : Nat} (hc : captured r.pc = some s) :
    ((r.tid, false, s) : Entry) ∈ st.log ∧ s ≤ st.lastSeq := by
  have H := (reachable_Inv hwf h).l
  have hrl := H.rl r hr
  have : ((r.tid, false, s) : Entry) ∈ entriesOf st.log r.tid := by
    unfold RL at hrl
    cases hpc : r.pc <;> simp only [hpc, captured] at hrl hc
    · cases hc
    · rw [hrl, ← Option.some.inj hc]; simp
    · rw [hrl, ← Option.some.inj hc]; simp
    · obtain ⟨s1, hrl⟩ := hrl
      rw [hrl, ← Option.some.inj hc]; simp
  have hm := (mem_entriesOf.1 this).1
  exact ⟨hm, H.log_le _ hm⟩

/-- the step that captures: the invocation is logged with the published sequence, which is what the reader will use -/
theorem rCapture_spec {st st' : St} {t : Tid} (hs : step st (.rCapture t) = some st') :
    st'.log = st.log ++ [(t, false, st.lastSeq)] ∧ ∃ r ∈ st'.readers, r.tid = t ∧ r.pc = .reading st.lastSeq := by
  obtain ⟨r, hg, _, _, rfl⟩ := step_rCapture hs
  obtain ⟨hr, rfl⟩ := getR_some hg
  refine ⟨rfl, { r with pc := .reading st.lastSeq }, ?_, rfl, rfl⟩
  simp only [setR, List.mem_map]
  exact ⟨r, hr, by simp⟩

/-- 9'. Monotone reads: if `r1` returned before `r2` was invoked then `r2` reads a state at least as new. -/
theorem reads_monotone {ws : List Writer} {rs : List Reader} (hwf : WF ws rs) {st : St} (h : Reachable ws rs st)
    {r1 r2 : Reader} (h1 : r1 ∈ st.readers) (h2 : r2 ∈ st.readers) {s1 s2 : Nat}
    (hp1 : r1.pc = .returned s1) (hp2 : captured r2.pc = some s2) {x y : Nat}
    (hord : [((r1.tid, true, x) : Entry), (r2.tid, false, y)].Sublist st.log) :
    s1 ≤ s2 ∧ view st s1 <+: view st s2 := by
  obtain ⟨x1, hent, hle, _⟩ := reader_linearizable hwf h h1 hp1
  have hx : x = x1 := by
    have : ((r1.tid, true, x) : Entry) ∈ entriesOf st.log r1.tid := mem_entriesOf.2 ⟨hord.subset (by simp), rfl⟩
    rw [hent] at this; simpa using this
  have hy : y = s2 := reader_inv_entry hwf h h2 hp2 (hord.subset (by simp))
  have hxy : x ≤ y := log_le_of_sublist hwf h hord
  have : s1 ≤ s2 := by omega
  exact ⟨this, List.take_prefix_take_left this⟩

/-- 9''. Read your (and everybody's) acknowledged writes: a reader invoked after writer `a` returned successfully
    sees `a`'s batch. -/
theorem reader_sees_write {ws : List Writer} {rs : List Reader} (hwf : WF ws rs) {st : St} (h : Reachable ws rs st)
    {a : Writer} {r : Reader} (ha : a ∈ st.writers) (hr : r ∈ st.readers)
    (hra : a.pc = .returned true) {s : Nat} (hc : captured r.pc = some s) {x y : Nat}
    (hord : [((a.tid, true, x) : Entry), (r.tid, false, y)].Sublist st.log) :
    a.batch ∈ view st s := by
  have H := (reachable_Inv hwf h).l
  have hl := H.wlog' ha
  simp only [WLog, hra, retOk] at hl
  obtain ⟨s0, s1, hent, hb⟩ := hl
  have hx : x = s1 := by
    have : ((a.tid, true, x) : Entry) ∈ entriesOf st.log a.tid := mem_entriesOf.2 ⟨hord.subset (by simp), rfl⟩
    rw [hent] at this; simpa using this
  have hy : y = s := reader_inv_entry hwf h hr hc (hord.subset (by simp))
  have hxy : x ≤ y := log_le_of_sublist hwf h hord
  exact (List.take_prefix_take_left (l := st.committed) (by omega : s1 ≤ s)).subset (hb trivial)

/-- 11. When every writer has returned (or never started) the history is exactly the batches of the writers that
    returned success, in the order in which they entered the queue; in particular a permutation of those batches. -/
theorem final_state {ws : List Writer} {rs : List Reader} (hwf : WF ws rs) {st : St} (h : Reachable ws rs st)
    (hdone : ∀ w ∈ st.writers, w.pc = .idle ∨ ∃ ok, w.pc = .returned ok) :
    st.queue = [] ∧
    st.committed = (writerInvs st).filterMap (commitBatch st) ∧
    st.committed.Perm ((st.writers.filter fun w => w.pc == .returned true).map (·.batch)) := by
  have H := reachable_Inv hwf h
  have hq : st.queue = [] := by
    cases hq : st.queue with
    | nil => rfl
    | cons t q =>
      obtain ⟨w, hw, hwt⟩ := H.q.qmem t (by rw [hq]; simp)
      have := H.q.queued hw (by simp) (by rw [hwt, hq]; simp)
      rcases hdone w hw with h1 | ⟨ok, h1⟩
      · exact absurd h1 this.2.1
      · exact absurd h1 (this.2.2 ok)
  refine ⟨hq, ?_, ?_⟩
  · obtain ⟨removed, e1, e2, _⟩ := H.l.fifo
    rw [e1, hq, List.append_nil]; exact e2
  · have hnd := (commit_once hwf h).1
    have hnd2 : ((st.writers.filter fun w => w.pc == .returned true).map (·.batch)).Nodup :=
      List.Nodup.sublist (List.filter_sublist.map _) H.l.batches
    rw [List.perm_ext_iff_of_nodup hnd hnd2]
    intro b
    simp only [List.mem_map, List.mem_filter, beq_iff_eq]
    constructor
    · intro hb
      obtain ⟨w, hw, rfl⟩ := H.l.from_writer b hb
      refine ⟨w, ⟨hw, ?_⟩, rfl⟩
      have hc := H.l.wc w hw
      unfold WC at hc
      have hpos : 0 < st.committed.count w.batch := List.count_pos_iff.2 hb
      rcases hdone w hw with h1 | ⟨ok, h1⟩
      · have hdn := (H.q.idle_facts hw h1).1
        rw [hc, wCommitted_of_not_done hdn (by simp [h1, retOk])] at hpos; simp at hpos
      · cases ok
        · rw [hc] at hpos; simp [wCommitted, h1] at hpos
        · exact h1
    · rintro ⟨w, ⟨hw, hpc⟩, rfl⟩
      have hc := H.l.wc w hw
      unfold WC at hc
      apply List.count_pos_iff.1
      rw [hc]; simp [wCommitted, hpc]

/-- 12. A sync writer is never acknowledged by a leader that did not sync: in every `wCommit` of a non-sync leader no
    member of the group is a sync writer. -/
theorem sync_not_in_nonsync_group {ws : List Writer} {rs : List Reader} (hwf : WF ws rs) {st st' : St}
    (h : Reachable ws rs st) {t : Tid} {sf : Bool} (hs : step st (.wCommit t sf) = some st') :
    ∃ w, getW st t = some w ∧ st.inflight.head? = some t ∧
      (w.sync = false → ∀ m ∈ st.inflight, ∀ x, getW st m = some x → x.sync = false) := by
  have H := reachable_Inv hwf h
  obtain ⟨w, hg, _, hi, _⟩ := step_wCommit hs
  refine ⟨w, hg, hi, ?_⟩
  intro hws m hm x hx
  obtain ⟨hw, hwt⟩ := getW_some hg
  obtain ⟨hx', hxt⟩ := getW_some hx
  have := H.s t hi (by simp only [syncTable, List.mem_map]; exact ⟨w, hw, by simp [hwt, hws]⟩) m hm
  cases hxs : x.sync with
  | false => rfl
  | true => exact absurd (by simp only [syncTable, List.mem_map]; exact ⟨x, hx', by simp [hxt, hxs]⟩) this

/-! ### non-vacuity (the run of `Lcdb.Conc.Demo`) -/

section Examples
open Lcdb.Conc.Demo

example : st3.lastSeq = st3.committed.length := lastSeq_committed wf reach3
example : st3.committed.Nodup := (commit_once wf reach3).1
-- writers 1, 2, 3 entered in this order and all committed, 3 as a follower of 2
example : [10, 30].Sublist st3.committed :=
  fifo_order wf reach3 (a := st3.writers[0]'(by decide)) (b := st3.writers[2]'(by decide)) (by decide) (by decide)
    (by decide) (by decide) (by decide)
-- writer 1 returned (log entry 4) before ... readers: reader 11 captured 0 and returned before reader 12 was not
-- invoked; reader 12 was invoked after writer 1 returned and sees batch 10
example : (10 : Nat) ∈ view st3 1 :=
  reader_sees_write wf reach3 (a := st3.writers[0]'(by decide)) (r := st3.readers[1]'(by decide)) (by decide) (by decide)
    (by decide) (s := 1) (by decide) (x := 1) (y := 1) (by decide)
example : ∃ s1, entriesOf st3.log 12 = [(12, false, 1), (12, true, s1)] ∧ 1 ≤ s1 ∧ s1 ≤ st3.lastSeq ∧
    s1 ≤ st3.committed.length ∧ view st3 1 <+: view st3 s1 :=
  reader_linearizable wf reach3 (r := st3.readers[1]'(by decide)) (by decide) (s := 1) (by decide)
example : st3.committed.Perm [10, 20, 30] :=
  (final_state wf reach3 (by decide)).2.2
-- in the sequential run writer 1 returned before writer 2 was invoked, reader 11 before reader 12
example : [10, 20].Sublist st'.committed :=
  realtime_order wf' reach' (a := st'.writers[0]'(by decide)) (b := st'.writers[1]'(by decide)) (by decide) (by decide)
    (by decide) (by decide) (x := 1) (y := 1) (by decide)
example : 1 ≤ 2 ∧ view st' 1 <+: view st' 2 :=
  reads_monotone wf' reach' (r1 := st'.readers[0]'(by decide)) (r2 := st'.readers[1]'(by decide)) (by decide) (by decide)
    (s1 := 1) (s2 := 2) (by decide) (by decide) (x := 1) (y := 2) (by decide)
-- the group commit of the sync leader 2 with the non-sync follower 3 (the next label after `st2`)
example : ∃ st', step st2 (.wCommit 2 false) = some st' := ⟨_, rfl⟩

end Examples

end Lcdb.C08
