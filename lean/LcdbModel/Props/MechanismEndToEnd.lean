/-
  End to end from the public entry points of version_set.c / db_impl.c:
  `pick_compaction` and `compact_range` (selection) + the work loop + any cut of its output into fresh files
  keep `Inv`, `NoSeqTies` and every view from the smallest protected sequence on; the flush of the immutable
  memtable to the level chosen by `pick_level_for_memtable_output` (or to level 0) keeps `Inv` and every view.
-/
import LcdbModel.Props.CompactionCapstone
namespace Lcdb.Compaction
open Lcdb Lcdb.Policy

/-- whatever compact_range returns comes out of setup_other_inputs applied to a `SeedOk` seed -/
theorem compactRange_seed {c : Cmp} {st : DbState} (hinv : Inv c st) {mfs level : Nat} {b e : Option IKey}
    {s : Setup} (h : compactRange c mfs st.levels level b e = some (some s)) :
    ∃ seed, SeedOk c (st.level level) (level == 0) seed ∧ versionSetup c mfs st.levels level seed = some s := by
  have hb : BoundsOk c (st.level level) :=
    fun g hg => fileOk_boundsOk (hinv.filesOk g (Lsm.mem_allFiles_of_mem_level hg))
  unfold compactRange at h
  cases hg : versionGoi c st.levels level b e with
  | none => rw [hg] at h; cases h
  | some r =>
    rw [hg] at h
    cases r with
    | nil => cases h
    | cons f fs =>
      simp only [Option.map_eq_some_iff, Option.some.injEq, exists_eq_right] at h
      unfold versionGoi at hg
      split at hg
      · by_cases hl : level = 0
        · subst hl
          simp only [Nat.lt_irrefl, if_false, gt_iff_lt] at h
          exact ⟨_, seedOk_goi0 hg (by simp), h⟩
        · have hpos : level > 0 := Nat.pos_of_ne_zero hl
          have hl0 : (level == 0) = false := by simp [hl]
          rw [if_pos hpos] at h
          rw [hl0] at hg
          exact ⟨_, hl0 ▸ seedOk_compactRange_deep (hinv.levelsSorted level hpos) hb hg (by simp) _, h⟩
      · cases hg

/-- (1) automatic compactions: whatever `pick_compaction` selects, compacted by the work loop with a smallest
    snapshot `sm ≤ smallestProtected st`, its output cut anyhow into files with fresh numbers -/
theorem pickCompaction_full_preserves (c : Cmp) (st : DbState) (hinv : Inv c st) (hnt : NoSeqTies c st)
    (mfs : Nat) (sizeLevel : Option Nat) (seek : Option (Nat × FileMeta)) (cp : Option IKey)
    (level : Nat) (s : Setup)
    (hseek : sizeLevel = none → ∀ l f, seek = some (l, f) → f ∈ st.level l)
    (h : pickCompaction c mfs st.levels sizeLevel seek cp = some (some (level, s)))
    (sm : Nat) (hsm : sm ≤ smallestProtected st) (outs : List FileMeta)
    (hcut : IsCut (expectedOutput c st level (pickNums (st.level level) (s.in0.map (·.num)))
      (pickNums (st.level (level + 1)) (s.in1.map (·.num))) sm) outs)
    (hfresh : ∀ f ∈ outs, st.nextFile ≤ f.num) (hnums : outs.Pairwise (fun f g => f.num ≠ g.num)) :
    Inv c (applyStep c st (.compact level (s.in0.map (·.num)) (s.in1.map (·.num)) outs)) ∧
    NoSeqTies c (applyStep c st (.compact level (s.in0.map (·.num)) (s.in1.map (·.num)) outs)) ∧
    ∀ k q, smallestProtected st ≤ q →
      view c (allEntries (applyStep c st (.compact level (s.in0.map (·.num)) (s.in1.map (·.num)) outs))) k q =
        view c (allEntries st) k q := by
  have hb : ∀ l, BoundsOk c (Version.files st.levels l) := fun l g hg =>
    fileOk_boundsOk (hinv.filesOk g (Lsm.mem_allFiles_of_mem_level hg))
  obtain ⟨seed, hseed, hs⟩ := pickCompaction_seed hb hseek h
  exact mechanism_full_preserves c st hinv hnt mfs level seed s hseed hs sm hsm outs hcut hfresh hnums

/-- (2) manual compactions: the same for whatever `compact_range` selects -/
theorem compactRange_full_preserves (c : Cmp) (st : DbState) (hinv : Inv c st) (hnt : NoSeqTies c st)
    (mfs level : Nat) (b e : Option IKey) (s : Setup)
    (h : compactRange c mfs st.levels level b e = some (some s))
    (sm : Nat) (hsm : sm ≤ smallestProtected st) (outs : List FileMeta)
    (hcut : IsCut (expectedOutput c st level (pickNums (st.level level) (s.in0.map (·.num)))
      (pickNums (st.level (level + 1)) (s.in1.map (·.num))) sm) outs)
    (hfresh : ∀ f ∈ outs, st.nextFile ≤ f.num) (hnums : outs.Pairwise (fun f g => f.num ≠ g.num)) :
    Inv c (applyStep c st (.compact level (s.in0.map (·.num)) (s.in1.map (·.num)) outs)) ∧
    NoSeqTies c (applyStep c st (.compact level (s.in0.map (·.num)) (s.in1.map (·.num)) outs)) ∧
    ∀ k q, smallestProtected st ≤ q →
      view c (allEntries (applyStep c st (.compact level (s.in0.map (·.num)) (s.in1.map (·.num)) outs))) k q =
        view c (allEntries st) k q := by
  obtain ⟨seed, hseed, hs⟩ := compactRange_seed hinv h
  exact mechanism_full_preserves c st hinv hnt mfs level seed s hseed hs sm hsm outs hcut hfresh hnums

/-- `f` is the table written from the run `r`: same entries, bounds = first / last entry -/
def IsTableOf (r : Run) (f : FileMeta) : Prop :=
  f.run = r ∧ (∀ e ∈ r.head?, e.ukey = f.sk ∧ e.packed = f.sp) ∧ (∀ e ∈ r.getLast?, e.ukey = f.lk ∧ e.packed = f.lp)

instance (r : Run) (f : FileMeta) : Decidable (IsTableOf r f) := by unfold IsTableOf; infer_instance

theorem flush_fileOk {c : Cmp} {st : DbState} (hinv : Inv c st) {r : Run} {f : FileMeta}
    (himm : st.imm = some r) (hne : r ≠ []) (ht : IsTableOf r f) : st.imm = some f.run ∧ FileOk c f := by
  obtain ⟨h1, h2, h3⟩ := ht
  refine ⟨by rw [h1]; exact himm, ?_, ?_, ?_, ?_⟩
  · rw [h1]; exact hinv.immSorted r (by simp [himm])
  · rw [h1]; exact hne
  · rw [h1]; exact h2
  · rw [h1]; exact h3

/-- a flush step with the given outcome keeps `Inv`, `NoSeqTies` and every view (at every sequence) -/
theorem flush_preserves_of_stepOk (c : Cmp) (st : DbState) (hinv : Inv c st) (hnt : NoSeqTies c st)
    (L : Nat) (f : FileMeta) (hok : stepOk c st (.flush L f)) :
    Inv c (applyStep c st (.flush L f)) ∧ NoSeqTies c (applyStep c st (.flush L f)) ∧
    ∀ k q, view c (allEntries (applyStep c st (.flush L f))) k q = view c (allEntries st) k q :=
  ⟨C14.step_preserves_inv c st _ hinv hok, C06.step_preserves_noSeqTies c st _ hinv hnt hok,
    fun k q => C06.flush_preserves_view c st L f hinv hnt hok k q⟩

/-- (3) the flush of the immutable memtable to the level `pick_level_for_memtable_output` chooses -/
theorem flush_full_preserves (c : Cmp) (st : DbState) (hinv : Inv c st) (hnt : NoSeqTies c st)
    (hp : ∀ l, PackedOk (st.level l)) (mfs : Nat) (r : Run) (f : FileMeta) (L : Nat)
    (himm : st.imm = some r) (hne : r ≠ []) (ht : IsTableOf r f) (hnum : st.nextFile ≤ f.num)
    (hL : pickLevel c st.levels mfs f.sk f.lk = some L) :
    stepOk c st (.flush L f) ∧
    Inv c (applyStep c st (.flush L f)) ∧ NoSeqTies c (applyStep c st (.flush L f)) ∧
    ∀ k q, view c (allEntries (applyStep c st (.flush L f))) k q = view c (allEntries st) k q := by
  obtain ⟨L', h1, _, h3, h4⟩ := pickLevel_establishes_flush_clause c st hinv hp mfs f
  rw [hL] at h1
  have hLL : L = L' := Option.some.inj h1
  subst hLL
  obtain ⟨g1, g2⟩ := flush_fileOk (c := c) hinv himm hne ht
  have hok : stepOk c st (.flush L f) := ⟨g1, g2, h3, hnum, h4⟩
  exact ⟨hok, flush_preserves_of_stepOk c st hinv hnt L f hok⟩

/-- (3') the variant to level 0 (inline flush without level choice / recovery): no overlap condition at all -/
theorem flush0_full_preserves (c : Cmp) (st : DbState) (hinv : Inv c st) (hnt : NoSeqTies c st)
    (r : Run) (f : FileMeta) (himm : st.imm = some r) (hne : r ≠ []) (ht : IsTableOf r f)
    (hnum : st.nextFile ≤ f.num) :
    stepOk c st (.flush 0 f) ∧
    Inv c (applyStep c st (.flush 0 f)) ∧ NoSeqTies c (applyStep c st (.flush 0 f)) ∧
    ∀ k q, view c (allEntries (applyStep c st (.flush 0 f))) k q = view c (allEntries st) k q := by
  obtain ⟨g1, g2⟩ := flush_fileOk (c := c) hinv himm hne ht
  have hok : stepOk c st (.flush 0 f) := ⟨g1, g2, by decide, hnum, fun _ _ h => absurd rfl h⟩
  exact ⟨hok, flush_preserves_of_stepOk c st hinv hnt 0 f hok⟩

/-! ### non-vacuity: the states of `Props/C14.lean` — `stB`'s immutable memtable `[(k5, 9)]` overlaps nothing and is
    pushed to level 2; `stA`'s `[(k2, 9, del), (k3, 8)]` overlaps level 0 and stays there -/
namespace ExFlush
open Lcdb.C14.Ex Lcdb.C06.Ex

theorem packedOk_of_range {st : DbState} (hn : st.levels.length = 7)
    (h7 : ∀ l ∈ List.range 7, PackedOk (st.level l)) : ∀ l, PackedOk (st.level l) := by
  intro l
  rcases Nat.lt_or_ge l 7 with h | h
  · exact h7 l (List.mem_range.mpr h)
  · rw [Lsm.level_eq_nil_of_ge (show st.levels.length ≤ l by omega)]; intro f hf; cases hf

example : pickLevel .bytewise stB.levels 2097152 g7b.sk g7b.lk = some 2 ∧
    pickLevel .bytewise stA.levels 2097152 g7.sk g7.lk = some 0 := by decide +kernel

example : stepOk .bytewise stB (.flush 2 g7b) ∧ Inv .bytewise (applyStep .bytewise stB (.flush 2 g7b)) ∧
    NoSeqTies .bytewise (applyStep .bytewise stB (.flush 2 g7b)) ∧
    ∀ k q, view .bytewise (allEntries (applyStep .bytewise stB (.flush 2 g7b))) k q =
      view .bytewise (allEntries stB) k q :=
  flush_full_preserves .bytewise stB invB ntB (packedOk_of_range (by decide) (by decide)) 2097152
    [⟨k5, 9, 1, "q"⟩] g7b 2 (by decide) (by decide) (by decide) (by decide) (by decide +kernel)

example : stepOk .bytewise stA (.flush 0 g7) ∧ Inv .bytewise (applyStep .bytewise stA (.flush 0 g7)) ∧
    NoSeqTies .bytewise (applyStep .bytewise stA (.flush 0 g7)) ∧
    ∀ k q, view .bytewise (allEntries (applyStep .bytewise stA (.flush 0 g7))) k q =
      view .bytewise (allEntries stA) k q :=
  flush_full_preserves .bytewise stA invA ntA (packedOk_of_range (by decide) (by decide)) 2097152
    [⟨k2, 9, 0, ""⟩, ⟨k3, 8, 1, "i"⟩] g7 0 (by decide) (by decide) (by decide) (by decide) (by decide +kernel)

example : stepOk .bytewise stB (.flush 0 g7b) ∧ Inv .bytewise (applyStep .bytewise stB (.flush 0 g7b)) ∧
    NoSeqTies .bytewise (applyStep .bytewise stB (.flush 0 g7b)) ∧
    ∀ k q, view .bytewise (allEntries (applyStep .bytewise stB (.flush 0 g7b))) k q =
      view .bytewise (allEntries stB) k q :=
  flush0_full_preserves .bytewise stB invB ntB [⟨k5, 9, 1, "q"⟩] g7b (by decide) (by decide) (by decide) (by decide)

/-- (1)/(2) are not vacuous either: on `stE` (`Props/CompactionProps.lean`) the manual compaction of the whole
    key range of level 0 selects both level-0 files and the level-1 file -/
example : (compactRange .bytewise 2097152 Ex.stE.levels 0 none none).map (·.map fun s => (s.in0.map (·.num), s.in1.map (·.num)))
    = some (some ([5, 4], [3])) := by decide

end ExFlush

end Lcdb.Compaction
