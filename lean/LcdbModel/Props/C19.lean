/-
  C19 — repair (`ldb_repair`, repair.c).

  `repairState c files` is the database right after repair + open: every surviving table sits in
  level 0 under its ORIGINAL file number, `lastSeq` is the largest sequence found in any table,
  `nextFile` is above every number on disk.

  Proved here
  * repair neither loses nor invents entries (`repair_entries`, `mem_allEntries_repairState`), so the
    merged view -- and with it the user iterator's specification `visibleMap` -- is that of the surviving
    tables, whatever their numbers (`repair_view_eq`, `repair_iter_newest`, `repair_iter_eq`);
  * the counters are safe (`repair_counters`); later writes get sequence numbers above everything on
    disk and take precedence (`write_after_repair_newer`, `write_after_repair_view`);
  * if file-number order agrees with data age, the repaired state satisfies the full invariant and point
    lookups are right (`repair_inv_of_agreement`, `repair_get_newest_partial`);
  * that hypothesis is necessary (`repair_get_stale_witness`): table 8 holding `k ↦ v1 @1` and table 7
    holding `k ↦ v2 @3` -- what a flush, a second flush above it and a manual compaction of the deeper
    level that rewrites the old table under a higher number leave behind -- make `get` answer the stale
    `v1` although the merged view (and the iterator) shows `v2`.   [finding F3]

  Sequence-number ties: `view` prefers the earlier entry on a (user key, sequence) tie, so invariance of
  `view` under the reordering repair performs needs the surviving tables to be pairwise tie-free
  (`SeqDisj`; ties *inside* one table -- a value and a deletion at one sequence -- are allowed), or no ties
  at all (`KeyNoTies`).  Under the hypotheses of `repair_inv_of_agreement` the former follows.
-/
import LcdbModel.Lemmas.Repair
import LcdbModel.Props.C14
namespace Lcdb.C19
open Lcdb

/-! ### 1. repair neither loses nor invents entries -/

theorem repair_entries (c : Cmp) (files : List FileMeta) :
    (allEntries (repairState c files)).Perm (files.flatMap (·.run)) := by
  rw [allEntries_repairState]
  exact (repairLevel0_perm c files).flatMap_right _

theorem mem_allEntries_repairState {c : Cmp} {files : List FileMeta} {e : Entry} :
    e ∈ allEntries (repairState c files) ↔ ∃ f ∈ files, e ∈ f.run := by
  rw [(repair_entries c files).mem_iff, List.mem_flatMap]

theorem mem_allFiles_repairState {c : Cmp} {files : List FileMeta} {f : FileMeta} :
    f ∈ allFiles (repairState c files) ↔ f ∈ files := Lcdb.mem_allFiles_repairState

/-- pairwise tie-freeness of the surviving tables: no two different tables share a (user key, sequence) -/
abbrev TablesSeqDisj (c : Cmp) (files : List FileMeta) : Prop :=
  files.Pairwise (fun f g => Lsm.SeqDisj c f.run g.run)

theorem repair_newestVisible_eq (c : Cmp) (files : List FileMeta) (k : Bytes) (s : Nat)
    (hd : TablesSeqDisj c files) :
    newestVisible c (allEntries (repairState c files)) k s
      = newestVisible c (files.flatMap (·.run)) k s := by
  rw [allEntries_repairState]
  exact (Lsm.newestVisible_flatMap_perm c k s (repairLevel0_perm c files).symm hd).symm

/-- the merged view of the repaired database is the merged view of the surviving tables -/
theorem repair_view_eq (c : Cmp) (files : List FileMeta) (k : Bytes) (s : Nat)
    (hd : TablesSeqDisj c files) :
    view c (allEntries (repairState c files)) k s = view c (files.flatMap (·.run)) k s := by
  unfold view
  rw [repair_newestVisible_eq c files k s hd]

/-- the same under the other tie-freeness condition (`KeyNoTies`, as in Lemmas/LsmStepsView.lean) -/
theorem repair_view_eq_of_noTies (c : Cmp) (files : List FileMeta) (k : Bytes) (s : Nat)
    (hd : KeyNoTies (files.flatMap (·.run))) :
    view c (allEntries (repairState c files)) k s = view c (files.flatMap (·.run)) k s :=
  view_congr hd (fun _ _ _ => (repair_entries c files).mem_iff)

/-! ### 2. the user iterator over the repaired state shows the newest surviving value of every key -/

/-- `(k, v)` is in the iterator's map iff `v` is the newest surviving value of `k`; the map is in
    strictly increasing comparator order (every key at most once) -/
theorem repair_iter_newest (c : Cmp) (files : List FileMeta) (s : Nat) (hd : TablesSeqDisj c files) :
    (∀ k v, (k, v) ∈ visibleMap c (allEntries (repairState c files)) s ↔
        view c (files.flatMap (·.run)) k s = some v) ∧
    (visibleMap c (allEntries (repairState c files)) s).Pairwise
        (fun p q => c.compare p.1 q.1 = .lt) := by
  refine ⟨fun k v => ?_, visibleMap_sorted c _ s⟩
  rw [mem_visibleMap, repair_view_eq c files k s hd]

/-- ... hence it *is* the map of the surviving tables; file numbers play no role -/
theorem repair_iter_eq (c : Cmp) (files : List FileMeta) (s : Nat) (hd : TablesSeqDisj c files) :
    visibleMap c (allEntries (repairState c files)) s = visibleMap c (files.flatMap (·.run)) s :=
  visibleMap_congr (fun k => repair_view_eq c files k s hd)

/-- every cursor operation of the public iterator API therefore behaves as over the surviving tables -/
theorem repair_iter_cursor (c : Cmp) (files : List FileMeta) (s : Nat) (hd : TablesSeqDisj c files)
    (st : DbIterState) (op : IterOp) :
    mapCursorStep c (visibleMap c (allEntries (repairState c files)) s) st op
      = mapCursorStep c (visibleMap c (files.flatMap (·.run)) s) st op := by
  rw [repair_iter_eq c files s hd]

theorem repair_iter_newest_of_noTies (c : Cmp) (files : List FileMeta) (s : Nat)
    (hd : KeyNoTies (files.flatMap (·.run))) (k : Bytes) (v : String) :
    (k, v) ∈ visibleMap c (allEntries (repairState c files)) s ↔
      view c (files.flatMap (·.run)) k s = some v := by
  rw [mem_visibleMap, repair_view_eq_of_noTies c files k s hd]

/-! ### 3. counters -/

/-- `lastSeq` bounds every sequence on disk, `nextFile` is above every file number (no hypothesis on the
    tables is needed) -/
theorem repair_counters (c : Cmp) (files : List FileMeta) :
    (∀ e ∈ allEntries (repairState c files), e.seq ≤ (repairState c files).lastSeq) ∧
    (∀ f ∈ allFiles (repairState c files), f.num < (repairState c files).nextFile) := by
  constructor
  · intro e he
    exact seq_le_maxSeqOf ((repair_entries c files).mem_iff.mp he)
  · intro f hf
    have := num_le_maxNumOf (Lcdb.mem_allFiles_repairState.mp hf)
    show f.num < maxNumOf files + 1
    omega

/-- a write after repair gets sequence numbers above everything on disk -/
theorem write_after_repair_newer (c : Cmp) (files : List FileMeta) (ops : List WOp) :
    ∀ x ∈ (applyStep c (repairState c files) (.write ops)).mem,
      ∀ y ∈ allEntries (repairState c files), y.seq < x.seq := by
  intro x hx y hy
  have hy' := (repair_counters c files).1 y hy
  have hx' : x ∈ applyOps c [] ((repairState c files).lastSeq + 1) ops := hx
  rcases mem_applyOps.mp hx' with h | h
  · cases h
  · have := (mem_opsEntries h).1
    omega

theorem allEntries_write_repairState (c : Cmp) (files : List FileMeta) (ops : List WOp) :
    allEntries (applyStep c (repairState c files) (.write ops))
      = applyOps c [] ((repairState c files).lastSeq + 1) ops ++ allEntries (repairState c files) := by
  simp [allEntries, applyStep, repairState, allFiles]

/-- ... so new writes take precedence in `view`: the answer for `k` after the batch is the batch's last
    operation on `k`, or, if there is none, what the repaired database answered -/
theorem write_after_repair_view (c : Cmp) (files : List FileMeta) (ops : List WOp) (k : Bytes) :
    view c (allEntries (applyStep c (repairState c files) (.write ops))) k
        (applyStep c (repairState c files) (.write ops)).lastSeq
      = applyOpsView c k ops
          (view c (allEntries (repairState c files)) k (repairState c files).lastSeq) := by
  rw [allEntries_write_repairState]
  exact view_applyOps c [] (allEntries (repairState c files)) (repairState c files).lastSeq ops k
    (fun x hx => (repair_counters c files).1 x (by simpa using hx))

/-! ### 4. if numbering follows age, the repaired state satisfies the invariant -/

theorem tablesSeqDisj_of_agreement {c : Cmp} {files : List FileMeta}
    (hnums : files.Pairwise (fun f g => f.num ≠ g.num)) (hage : NumberOrderAgreesWithAge c files) :
    TablesSeqDisj c files := by
  refine hnums.imp_of_mem ?_
  intro f g hf hg hne
  rcases Nat.lt_or_gt_of_ne hne with h | h
  · exact (Lsm.NewerThan.seqDisj (hage g hg f hf h)).symm
  · exact Lsm.NewerThan.seqDisj (hage f hf g hg h)

theorem repair_inv_of_agreement (c : Cmp) (files : List FileMeta)
    (hok : ∀ f ∈ files, FileOk c f)
    (hkinds : ∀ f ∈ files, ∀ e ∈ f.run, e.kind ≤ 1)
    (hnums : files.Pairwise (fun f g => f.num ≠ g.num))
    (hage : NumberOrderAgreesWithAge c files) : Inv c (repairState c files) := by
  have hnil : ∀ l, 1 ≤ l → (repairState c files).level l = [] :=
    fun l hl => level_pos_repairState c files hl
  apply Inv.ofRel
  · exact levels_length_repairState c files
  · exact List.Pairwise.nil
  · intro r hr; cases hr
  · intro f hf; exact hok f (Lcdb.mem_allFiles_repairState.mp hf)
  · intro l hl; rw [hnil l hl]; exact List.Pairwise.nil
  · refine ⟨?_, ?_, ?_, ?_, ?_⟩
    · intro r hr; cases hr
    · intro f _; exact newerThan_nil_left c _
    · intro r hr; cases hr
    · intro a ha b hb hab
      rw [level_zero_repairState] at ha hb
      exact hage a (mem_repairLevel0.mp ha) b (mem_repairLevel0.mp hb) hab
    · intro i j hij a _ b hb
      rw [hnil j (by omega)] at hb; cases hb
  · exact (repair_counters c files).1
  · intro e he
    obtain ⟨f, hf, hef⟩ := mem_allEntries_repairState.mp he
    exact hkinds f hf e hef
  · apply (numsRel_iff _).mp
    rw [allFiles_repairState]
    exact (List.Perm.pairwise_iff (R := fun (f g : FileMeta) => f.num ≠ g.num)
      (fun h => Ne.symm h) (repairLevel0_perm c files)).mpr hnums
  · exact (repair_counters c files).2
  · intro s hs; cases hs

/-- point lookups on the repaired database return the newest surviving value -- under the hypothesis
    that numbering follows age -/
theorem repair_get_newest_partial (c : Cmp) (files : List FileMeta)
    (hok : ∀ f ∈ files, FileOk c f)
    (hkinds : ∀ f ∈ files, ∀ e ∈ f.run, e.kind ≤ 1)
    (hnums : files.Pairwise (fun f g => f.num ≠ g.num))
    (hage : NumberOrderAgreesWithAge c files) (k : Bytes) (s : Nat) :
    get c (repairState c files) k s = view c (files.flatMap (·.run)) k s := by
  rw [C01.get_eq_view c _ (repair_inv_of_agreement c files hok hkinds hnums hage) k s]
  exact repair_view_eq c files k s (tablesSeqDisj_of_agreement hnums hage)

/-- and after a later write: `get` answers the batch's last operation on `k`, else the newest surviving
    value -/
theorem write_after_repair_get (c : Cmp) (files : List FileMeta) (ops : List WOp)
    (hok : ∀ f ∈ files, FileOk c f)
    (hkinds : ∀ f ∈ files, ∀ e ∈ f.run, e.kind ≤ 1)
    (hnums : files.Pairwise (fun f g => f.num ≠ g.num))
    (hage : NumberOrderAgreesWithAge c files)
    (hops : stepOk c (repairState c files) (.write ops)) (k : Bytes) :
    get c (applyStep c (repairState c files) (.write ops)) k
        (applyStep c (repairState c files) (.write ops)).lastSeq
      = applyOpsView c k ops (view c (files.flatMap (·.run)) k (maxSeqOf files)) := by
  have hinv := repair_inv_of_agreement c files hok hkinds hnums hage
  rw [C01.get_eq_view c _ (C14.write_preserves_inv c _ ops hinv hops), write_after_repair_view,
    repair_view_eq c files k _ (tablesSeqDisj_of_agreement hnums hage)]
  rfl

/-! ### 5. the hypothesis is necessary: a stale read after repair  [finding F3] -/

section Witness

def wk : Bytes := [107]

/-- file metadata computed from a non-empty run -/
def mkFile (num : Nat) (run : Run) : FileMeta :=
  match run.head?, run.getLast? with
  | some a, some b => ⟨num, run.length, a.ukey, a.packed, b.ukey, b.packed, run⟩
  | _, _ => ⟨num, 0, [], 0, [], 0, run⟩

/-- the old table, rewritten by a manual compaction of the deeper level under a HIGHER number -/
def t8 : FileMeta := mkFile 8 [⟨wk, 1, 1, "v1"⟩]
/-- the newer flush, still under its lower number -/
def t7 : FileMeta := mkFile 7 [⟨wk, 3, 1, "v2"⟩]

def witFiles : List FileMeta := [t8, t7]

theorem wit_level0 : (repairState .bytewise witFiles).level 0 = [t7, t8] := by decide

theorem wit_cands : l0Candidates .bytewise [t7, t8] wk = [t8, t7] := by
  have h : [t7, t8].filter (fun f => fileContainsUser .bytewise f wk) = [t7, t8] := by decide
  unfold l0Candidates
  rw [h]
  simp [List.mergeSort, t7, t8, mkFile]

theorem wit_get : get .bytewise (repairState .bytewise witFiles) wk 3 = some "v1" := by
  unfold get getEntry searchOrder
  rw [wit_level0, wit_cands]
  decide

theorem wit_userKeys :
    userKeys .bytewise (allEntries (repairState .bytewise witFiles)) = [wk] := by
  have h : (allEntries (repairState .bytewise witFiles)).map (·.ukey) = [wk, wk] := by decide
  rw [userKeys_eq, h]
  have h2 : [wk, wk].mergeSort (fun a b => Cmp.bytewise.compare a b != .gt) = [wk, wk] := by
    have hc : (Cmp.bytewise.compare wk wk != .gt) = true := by decide
    simp [List.mergeSort, hc]
  rw [h2]
  decide

theorem wit_visibleMap :
    visibleMap .bytewise (allEntries (repairState .bytewise witFiles)) 3 = [(wk, "v2")] := by
  unfold visibleMap
  rw [wit_userKeys]
  decide

/-- **F3**: every condition of `repair_inv_of_agreement` except `NumberOrderAgreesWithAge` holds, the
    tables are tie-free, the merged view and the iterator show the newest value `v2` -- and `get` answers the
    stale `v1`; in particular the repaired state violates the invariant -/
theorem repair_get_stale_witness :
    (∀ f ∈ witFiles, FileOk .bytewise f) ∧
    (∀ f ∈ witFiles, ∀ e ∈ f.run, e.kind ≤ 1) ∧
    witFiles.Pairwise (fun f g => f.num ≠ g.num) ∧
    TablesSeqDisj .bytewise witFiles ∧ KeyNoTies (witFiles.flatMap (·.run)) ∧
    ¬ NumberOrderAgreesWithAge .bytewise witFiles ∧
    get .bytewise (repairState .bytewise witFiles) wk 3 = some "v1" ∧
    view .bytewise (witFiles.flatMap (·.run)) wk 3 = some "v2" ∧
    view .bytewise (allEntries (repairState .bytewise witFiles)) wk 3 = some "v2" ∧
    visibleMap .bytewise (allEntries (repairState .bytewise witFiles)) 3 = [(wk, "v2")] ∧
    ¬ Inv .bytewise (repairState .bytewise witFiles) := by
  have hv : view .bytewise (allEntries (repairState .bytewise witFiles)) wk 3 = some "v2" := by decide
  refine ⟨by decide, by decide, by decide, ?_, by decide, ?_, wit_get, by decide, hv,
    wit_visibleMap, ?_⟩
  · unfold TablesSeqDisj Lsm.SeqDisj; decide
  · unfold NumberOrderAgreesWithAge; decide
  · intro hinv
    have := C01.get_eq_view _ _ hinv wk 3
    rw [wit_get, hv] at this
    exact absurd this (by decide)

-- the interpreter agrees (build-time sanity check, not a proof)
#guard get .bytewise (repairState .bytewise witFiles) wk 3 == some "v1"
#guard visibleMap .bytewise (allEntries (repairState .bytewise witFiles)) 3 == [(wk, "v2")]

end Witness

/-! ### 6. non-vacuity of `repair_inv_of_agreement`: two tables whose numbering follows age -/

section NonVacuity

def wk2 : Bytes := [108]

/-- older table: `k ↦ v1 @1`, `l ↦ w1 @2` -/
def u7 : FileMeta := mkFile 7 [⟨wk, 1, 1, "v1"⟩, ⟨wk2, 2, 1, "w1"⟩]
/-- newer table, higher number: `k ↦ v2 @3`, a value and a deletion of `l` at sequence 4 -/
def u8 : FileMeta := mkFile 8 [⟨wk, 3, 1, "v2"⟩, ⟨wk2, 4, 1, "w2"⟩, ⟨wk2, 4, 0, ""⟩]

def okFiles : List FileMeta := [u7, u8]

theorem okFiles_hyps :
    (∀ f ∈ okFiles, FileOk .bytewise f) ∧
    (∀ f ∈ okFiles, ∀ e ∈ f.run, e.kind ≤ 1) ∧
    okFiles.Pairwise (fun f g => f.num ≠ g.num) ∧
    NumberOrderAgreesWithAge .bytewise okFiles := by
  refine ⟨by decide, by decide, by decide, ?_⟩
  unfold NumberOrderAgreesWithAge; decide

theorem okFiles_inv : Inv .bytewise (repairState .bytewise okFiles) :=
  repair_inv_of_agreement _ _ okFiles_hyps.1 okFiles_hyps.2.1 okFiles_hyps.2.2.1 okFiles_hyps.2.2.2

theorem okFiles_get :
    get .bytewise (repairState .bytewise okFiles) wk 4 = some "v2" ∧
    get .bytewise (repairState .bytewise okFiles) wk 2 = some "v1" ∧
    get .bytewise (repairState .bytewise okFiles) wk2 4 = some "w2" ∧
    get .bytewise (repairState .bytewise okFiles) wk2 3 = some "w1" := by
  refine ⟨?_, ?_, ?_, ?_⟩ <;>
    (rw [repair_get_newest_partial _ _ okFiles_hyps.1 okFiles_hyps.2.1 okFiles_hyps.2.2.1
      okFiles_hyps.2.2.2]; decide)

#guard get .bytewise (repairState .bytewise okFiles) wk 4 == some "v2"
#guard invCheck .bytewise (repairState .bytewise okFiles) == none
#guard invCheck .bytewise (repairState .bytewise witFiles) == some "recency"

end NonVacuity

end Lcdb.C19
