import LcdbModel.Model.Lsm
import LcdbModel.Model.DbIter
namespace Lcdb.C19
end Lcdb.C19
