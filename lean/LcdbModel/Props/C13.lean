import LcdbModel.Model.Lsm
import LcdbModel.Model.DbIter
import LcdbModel.Model.Files
import LcdbModel.Lemmas.Files
import LcdbModel.Props.C20
/-
  C13: garbage collection of database files (`ldb_remove_obsolete_files`, db_impl.c:644-735) never
  removes a file that is still needed, removes everything else, and file numbers handed out by the
  version set are fresh.

  Model: LcdbModel/Model/Files.lean.  `toDelete s dir` are the names unlinked for the directory listing
  `dir`; `removeObsolete s dir` is the listing afterwards.
-/
namespace Lcdb.C13
open Lcdb Lcdb.Files

/-! ### 1. nothing that is needed is deleted -/

/-- No table of any live version or pending output is ever removed. -/
theorem never_delete_live (s : GcState) (dir : List String) (name : String) :
    name ∈ toDelete s dir → ∀ n, parseFileName name = some (.table, n) → n ∉ liveSet s := by
  intro h n hp hn
  have hk := keep_false_of_mem_toDelete h
  rw [keep_table hp] at hk
  simp [hn] at hk

/-- The same, spelled out: neither a pending output nor a table of a live version is removed. -/
theorem never_delete_live' (s : GcState) (dir : List String) (name : String) (n : Nat)
    (h : name ∈ toDelete s dir) (hp : parseFileName name = some (.table, n)) :
    n ∉ s.pending ∧ ∀ v ∈ s.liveVersions, n ∉ v := by
  have := never_delete_live s dir name h n hp
  rw [mem_liveSet_iff] at this
  exact ⟨fun hn => this (.inl hn), fun v hv hn => this (.inr ⟨v, hv, hn⟩)⟩

/-- Temp files are protected by the live set in the same way. -/
theorem never_delete_live_temp (s : GcState) (dir : List String) (name : String) :
    name ∈ toDelete s dir → ∀ n, parseFileName name = some (.temp, n) → n ∉ liveSet s := by
  intro h n hp hn
  have hk := keep_false_of_mem_toDelete h
  rw [keep_temp hp] at hk
  simp [hn] at hk

/-- A deleted log is older than the current log and is not the previous log. -/
theorem never_delete_needed_log (s : GcState) (dir : List String) (name : String) :
    name ∈ toDelete s dir → ∀ n, parseFileName name = some (.log, n) →
      n < s.logNumber ∧ n ≠ s.prevLogNumber := by
  intro h n hp
  have hk := keep_false_of_mem_toDelete h
  rw [keep_log hp] at hk
  simp only [ge_iff_le, Bool.or_eq_false_iff, decide_eq_false_iff_not, Nat.not_le,
    beq_eq_false_iff_ne, ne_eq] at hk
  exact hk

/-- A deleted MANIFEST is older than the current one. -/
theorem never_delete_current_manifest (s : GcState) (dir : List String) (name : String) :
    name ∈ toDelete s dir → ∀ n, parseFileName name = some (.desc, n) → n < s.manifestNumber := by
  intro h n hp
  have hk := keep_false_of_mem_toDelete h
  rw [keep_desc hp] at hk
  simpa using hk

/-- CURRENT, LOCK, LOG and LOG.old are never deleted. -/
theorem never_delete_fixed (s : GcState) (dir : List String) :
    "CURRENT" ∉ toDelete s dir ∧ "LOCK" ∉ toDelete s dir ∧
    "LOG" ∉ toDelete s dir ∧ "LOG.old" ∉ toDelete s dir := by
  have hc : parseFileName "CURRENT" = some (.current, 0) := by decide
  have hl : parseFileName "LOCK" = some (.lock, 0) := by decide
  have hi : parseFileName "LOG" = some (.info, 0) := by decide
  have ho : parseFileName "LOG.old" = some (.info, 0) := by decide
  refine ⟨fun h => ?_, fun h => ?_, fun h => ?_, fun h => ?_⟩ <;>
    have hk := keep_false_of_mem_toDelete h
  · rw [keep_current hc] at hk; cases hk
  · rw [keep_lock hl] at hk; cases hk
  · rw [keep_info hi] at hk; cases hk
  · rw [keep_info ho] at hk; cases hk

/-- More generally, nothing of type current / lock / info is deleted, whatever its spelling. -/
theorem never_delete_fixed_type (s : GcState) (dir : List String) (name : String) (ty : FileType)
    (n : Nat) (h : name ∈ toDelete s dir) (hp : parseFileName name = some (ty, n)) :
    ty ≠ .current ∧ ty ≠ .lock ∧ ty ≠ .info := by
  have hk := keep_false_of_mem_toDelete h
  refine ⟨?_, ?_, ?_⟩ <;> rintro rfl
  · rw [keep_current hp] at hk; cases hk
  · rw [keep_lock hp] at hk; cases hk
  · rw [keep_info hp] at hk; cases hk

/-- A name that `parseFileName` rejects is never deleted: gc touches only owned names. -/
theorem never_delete_foreign (s : GcState) (dir : List String) (name : String)
    (hp : parseFileName name = none) : name ∉ toDelete s dir := by
  intro h
  have hk := keep_false_of_mem_toDelete h
  rw [keep_of_parse_none hp] at hk
  cases hk

/-- In particular anything in a sub-directory (a name with a path separator) is untouched. -/
theorem never_delete_subpath (s : GcState) (dir : List String) (name : String)
    (h : '/' ∈ name.toList) : name ∉ toDelete s dir :=
  never_delete_foreign s dir name (C20.parse_foreign_untouched h)

/-- Only names of the listing are deleted. -/
theorem toDelete_subset (s : GcState) (dir : List String) : ∀ name ∈ toDelete s dir, name ∈ dir :=
  fun _ h => (mem_toDelete.1 h).2.1

/-! ### 2. pending outputs protect files that are being written -/

/-- A table registered in `pending_outputs` cannot be collected (before or after its file exists). -/
theorem pending_protects (s : GcState) (dir : List String) (n : Nat) (hn : n < 2 ^ 64)
    (h : n ∈ s.pending) : (fileNumStr n ++ ".ldb") ∉ toDelete s dir := fun hd =>
  never_delete_live s dir _ hd n (C20.makeName_parse_ldb hn) (mem_pending_liveSet h)

theorem pending_protects_sst (s : GcState) (dir : List String) (n : Nat) (hn : n < 2 ^ 64)
    (h : n ∈ s.pending) : (fileNumStr n ++ ".sst") ∉ toDelete s dir := fun hd =>
  never_delete_live s dir _ hd n (C20.makeName_parse_sst hn) (mem_pending_liveSet h)

theorem pending_protects_dbtmp (s : GcState) (dir : List String) (n : Nat) (hn : n < 2 ^ 64)
    (h : n ∈ s.pending) : (fileNumStr n ++ ".dbtmp") ∉ toDelete s dir := fun hd =>
  never_delete_live_temp s dir _ hd n (C20.makeName_parse_dbtmp hn) (mem_pending_liveSet h)

/-- The table files of a live version are protected as well. -/
theorem live_version_protects (s : GcState) (dir : List String) (v : List Nat) (n : Nat)
    (hn : n < 2 ^ 64) (hv : v ∈ s.liveVersions) (h : n ∈ v) :
    (fileNumStr n ++ ".ldb") ∉ toDelete s dir ∧ (fileNumStr n ++ ".sst") ∉ toDelete s dir :=
  ⟨fun hd => never_delete_live s dir _ hd n (C20.makeName_parse_ldb hn) (mem_version_liveSet hv h),
   fun hd => never_delete_live s dir _ hd n (C20.makeName_parse_sst hn) (mem_version_liveSet hv h)⟩

/-! ### 3. a background error suspends gc -/

theorem bg_error_suspends (s : GcState) (dir : List String) (h : s.bgError = true) :
    toDelete s dir = [] := by
  simp [toDelete, h]

theorem bg_error_keeps_dir (s : GcState) (dir : List String) (h : s.bgError = true) :
    removeObsolete s dir = dir := removeObsolete_bgError h

/-! ### 4. no garbage is left -/

/-- Without background error, gc leaves exactly the names it decides to keep. -/
theorem removeObsolete_eq (s : GcState) (dir : List String) (h : s.bgError = false) :
    removeObsolete s dir = dir.filter (keep s) := removeObsolete_eq_filter h

theorem no_garbage (s : GcState) (dir : List String) (h : s.bgError = false) :
    ∀ name ∈ removeObsolete s dir, keep s name = true := by
  intro name hm
  rw [removeObsolete_eq s dir h] at hm
  exact (List.mem_filter.1 hm).2

/-- Every name left in the directory is foreign or owned and live. -/
theorem no_garbage_owned (s : GcState) (dir : List String) (h : s.bgError = false) :
    ∀ name ∈ removeObsolete s dir, parseFileName name = none ∨ ownedAndLive s name = true :=
  fun name hm => keep_eq_true_iff.1 (no_garbage s dir h name hm)

/-- Conversely nothing that is foreign or owned-and-live disappears. -/
theorem removeObsolete_complete (s : GcState) (dir : List String) (name : String)
    (hm : name ∈ dir) (hk : parseFileName name = none ∨ ownedAndLive s name = true) :
    name ∈ removeObsolete s dir := by
  cases h : s.bgError with
  | true => rw [removeObsolete_bgError h]; exact hm
  | false =>
    rw [removeObsolete_eq s dir h]
    exact List.mem_filter.2 ⟨hm, keep_eq_true_iff.2 hk⟩

/-- The directory after gc is the listing minus the deleted names, and both parts partition it. -/
theorem mem_dir_iff (s : GcState) (dir : List String) (name : String) :
    name ∈ dir ↔ name ∈ removeObsolete s dir ∨ name ∈ toDelete s dir := by
  constructor
  · intro hm
    by_cases hd : name ∈ toDelete s dir
    · exact .inr hd
    · exact .inl (by simp [removeObsolete, hm, hd])
  · rintro (h | h)
    · exact (List.mem_filter.1 h).1
    · exact toDelete_subset s dir name h

theorem removeObsolete_idempotent (s : GcState) (dir : List String) :
    removeObsolete s (removeObsolete s dir) = removeObsolete s dir := by
  cases h : s.bgError with
  | true => simp [removeObsolete_bgError h]
  | false => simp [removeObsolete_eq s _ h]

/-- A second gc pass with the same state finds nothing to delete. -/
theorem toDelete_after_removeObsolete (s : GcState) (dir : List String) :
    toDelete s (removeObsolete s dir) = [] := by
  cases h : s.bgError with
  | true => exact bg_error_suspends s _ h
  | false =>
    rw [removeObsolete_eq s dir h]
    simp [toDelete, h, List.filter_filter]

/-! ### 5. file numbers are fresh -/

/-- `new` never decreases `nextFile` (it increases it by one) and returns the old value. -/
theorem new_nextFile (s : GcState) :
    (newFileNumber s).1 = s.nextFile ∧ (newFileNumber s).2.nextFile = s.nextFile + 1 := ⟨rfl, rfl⟩

/-- `mark` never decreases `nextFile`. -/
theorem mark_nextFile_le (s : GcState) (n : Nat) : s.nextFile ≤ (markFileNumber s n).nextFile := by
  rw [markFileNumber_nextFile]; omega

/-- After recovery marked a number found on disk, later allocations exceed it. -/
theorem mark_above (s : GcState) (n : Nat) : n < (markFileNumber s n).nextFile := by
  rw [markFileNumber_nextFile]; omega

/-- `new` and `mark` never decrease `nextFile`, neither stepwise nor over a whole run. -/
theorem nextFile_monotone_without_reuse (s : GcState) (ops : List AllocOp)
    (h : ∀ op ∈ ops, op.isReuse = false) : s.nextFile ≤ (runAlloc s ops).1.nextFile :=
  (runAlloc_noReuse s ops h).1

theorem nextFile_monotone_step (s : GcState) (n : Nat) :
    s.nextFile ≤ (newFileNumber s).2.nextFile ∧ s.nextFile ≤ (markFileNumber s n).nextFile :=
  ⟨Nat.le_succ _, mark_nextFile_le s n⟩

/-- Marked numbers stay below `nextFile` for the rest of a reuse-free run, so they are never
    handed out. -/
theorem mark_above_run (s : GcState) (n : Nat) (ops : List AllocOp)
    (h : ∀ op ∈ ops, op.isReuse = false) :
    n < (runAlloc (markFileNumber s n) ops).1.nextFile ∧
    ∀ x ∈ (runAlloc (markFileNumber s n) ops).2, n < x := by
  obtain ⟨h1, _, h3⟩ := runAlloc_noReuse (markFileNumber s n) ops h
  have := mark_above s n
  exact ⟨by omega, fun x hx => by have := (h3 x hx).1; omega⟩

/-- In a run without `reuse` the numbers handed out are strictly increasing, at least the initial
    `nextFile` and below the final `nextFile`. -/
theorem new_numbers_strictly_increasing (s : GcState) (ops : List AllocOp)
    (h : ∀ op ∈ ops, op.isReuse = false) :
    (runAlloc s ops).2.Pairwise (· < ·) ∧
    ∀ x ∈ (runAlloc s ops).2, s.nextFile ≤ x ∧ x < (runAlloc s ops).1.nextFile :=
  (runAlloc_noReuse s ops h).2

/-- Hence they are pairwise distinct and distinct from every number below the initial `nextFile`
    (all numbers in use before, by `Inv.numsBound`). -/
theorem numbers_fresh (s : GcState) (ops : List AllocOp)
    (h : ∀ op ∈ ops, op.isReuse = false) :
    (runAlloc s ops).2.Nodup ∧
    ∀ x ∈ (runAlloc s ops).2, ∀ old, old < s.nextFile → x ≠ old := by
  obtain ⟨hp, hb⟩ := new_numbers_strictly_increasing s ops h
  refine ⟨?_, fun x hx old hold => by have := (hb x hx).1; omega⟩
  exact hp.imp (fun hlt => Nat.ne_of_lt hlt)

/-- `reuse n` changes the state only when `n` is the number handed out last; it then lowers
    `nextFile` to `n` and touches nothing else, so the next `new` returns `n` again. -/
theorem reuse_only_last (s : GcState) (n : Nat) :
    (s.nextFile ≠ n + 1 → reuseFileNumber s n = s) ∧
    (s.nextFile = n + 1 →
      reuseFileNumber s n = { s with nextFile := n } ∧
      (newFileNumber (reuseFileNumber s n)).1 = n ∧
      (newFileNumber (reuseFileNumber s n)).2 = s) := by
  refine ⟨reuseFileNumber_of_ne, fun h => ?_⟩
  rw [reuseFileNumber_of_eq h]
  refine ⟨rfl, rfl, ?_⟩
  simp [newFileNumber, ← h]

theorem reuse_changes_iff (s : GcState) (n : Nat) :
    reuseFileNumber s n ≠ s ↔ s.nextFile = n + 1 := by
  constructor
  · intro h
    apply Classical.byContradiction
    intro hne
    exact h (reuseFileNumber_of_ne hne)
  · intro h heq
    have := congrArg GcState.nextFile heq
    rw [reuseFileNumber_nextFile] at this
    simp [h] at this

/-- `new` directly followed by `reuse` of the returned number is a no-op on the state. -/
theorem new_then_reuse (s : GcState) :
    reuseFileNumber (newFileNumber s).2 (newFileNumber s).1 = s := reuse_new_cancel s

/-- Arbitrary runs (any interleaving of `new`, `reuse`, `mark`): if `new` returns `x`, then some
    operations `mid` run, and the next `new` returns `x` again, then `mid` contains a `reuse x`
    executed in a state with `nextFile = x + 1`, i.e. while `x` was the number handed out last and
    not followed by any outstanding allocation. -/
theorem handed_out_twice_needs_reuse (s : GcState) (pre mid : List AllocOp) (x : Nat)
    (h1 : (runAlloc s pre).1.nextFile = x)
    (h2 : (runAlloc (newFileNumber (runAlloc s pre).1).2 mid).1.nextFile = x) :
    (runAlloc s (pre ++ .new :: (mid ++ [.new]))).2 = (runAlloc s pre).2 ++ x ::
        ((runAlloc (newFileNumber (runAlloc s pre).1).2 mid).2 ++ [x]) ∧
    ∃ a b, mid = a ++ AllocOp.reuse x :: b ∧
      (runAlloc (newFileNumber (runAlloc s pre).1).2 a).1.nextFile = x + 1 := by
  constructor
  · simp [runAlloc_append, runAlloc_cons, stepAlloc, h1, h2]
  · exact runAlloc_drop_needs_reuse _ mid x (by simp [h1]) (by omega)

/-- Under the call discipline of db_impl.c:1843 (`reuse n` only directly after the `new` that
    returned `n`, when creating file `n` failed) every `new; reuse` pair is a no-op, and the numbers
    that were handed out and not given back (`dropCancelled`) are strictly increasing, fresh, and
    below the final `nextFile`.  So a number is handed out twice only if it was given back immediately,
    with no allocation in between, and its file was never installed. -/
theorem disciplined_numbers_fresh (s : GcState) (ops : List AllocOp) (h : Disciplined s ops) :
    (runAlloc s (dropCancelled ops)).1 = (runAlloc s ops).1 ∧
    s.nextFile ≤ (runAlloc s ops).1.nextFile ∧
    (runAlloc s (dropCancelled ops)).2.Pairwise (· < ·) ∧
    ∀ x ∈ (runAlloc s (dropCancelled ops)).2, s.nextFile ≤ x ∧ x < (runAlloc s ops).1.nextFile := by
  have hs := runAlloc_dropCancelled_state s ops h
  have := runAlloc_noReuse s (dropCancelled ops) (dropCancelled_noReuse_of_disciplined s ops h)
  rw [hs] at this
  exact ⟨hs, this⟩

/-! ### non-vacuity -/

/-- a state with one live version {5, 7}, pending output 9, log 10, prev log 0, MANIFEST 4 -/
def exState : GcState :=
  { liveVersions := [[5, 7]], pending := [9], logNumber := 10, prevLogNumber := 0,
    manifestNumber := 4, nextFile := 11, bgError := false }

def exDir : List String :=
  ["CURRENT", "LOCK", "LOG", "LOG.old", "MANIFEST-000004", "MANIFEST-000002", "000005.ldb",
   "000006.ldb", "000007.sst", "000009.ldb", "000009.dbtmp", "000008.dbtmp", "000010.log",
   "000003.log", "notes.txt", "lost/000006.ldb"]

example : toDelete exState exDir =
    ["MANIFEST-000002", "000006.ldb", "000008.dbtmp", "000003.log"] := by decide
example : removeObsolete exState exDir =
    ["CURRENT", "LOCK", "LOG", "LOG.old", "MANIFEST-000004", "000005.ldb", "000007.sst",
     "000009.ldb", "000009.dbtmp", "000010.log", "notes.txt", "lost/000006.ldb"] := by decide
example : "000006.ldb" ∈ toDelete exState exDir ∧
    parseFileName "000006.ldb" = some (.table, 6) ∧ 6 ∉ liveSet exState := by decide
example : "000003.log" ∈ toDelete exState exDir ∧
    parseFileName "000003.log" = some (.log, 3) := by decide
example : "MANIFEST-000002" ∈ toDelete exState exDir := by decide
example : 9 ∈ exState.pending ∧ fileNumStr 9 ++ ".ldb" = "000009.ldb" ∧ "000009.ldb" ∈ exDir := by
  decide
example : (fileNumStr 9 ++ ".ldb") ∉ toDelete exState exDir :=
  pending_protects exState exDir 9 (by decide) (by decide)
example : toDelete { exState with bgError := true } exDir = [] := bg_error_suspends _ _ rfl
example : ∀ name ∈ removeObsolete exState exDir,
    parseFileName name = none ∨ ownedAndLive exState name = true := no_garbage_owned _ _ rfl
example : parseFileName "notes.txt" = none ∧ "notes.txt" ∈ removeObsolete exState exDir := by decide
-- the previous log is kept even though it is older than the current log
example : toDelete { exState with prevLogNumber := 3 } ["000003.log", "000002.log"] =
    ["000002.log"] := by decide

-- allocation machine
example : runAlloc exState [.new, .mark 20, .new, .new] =
    ({ exState with nextFile := 23 }, [11, 21, 22]) := rfl
example : ∀ op ∈ [AllocOp.new, .mark 20, .new, .new], op.isReuse = false := by decide
-- new 11; reuse 11 (file creation failed); new 11 again; new 12; reuse 11 is then a no-op
example : runAlloc exState [.new, .reuse 11, .new, .new, .reuse 11, .new] =
    ({ exState with nextFile := 14 }, [11, 11, 12, 13]) := rfl
example : Disciplined exState [.new, .reuse 11, .new, .mark 3, .new] := by
  simp [Disciplined, exState]
example : dropCancelled [.new, .reuse 11, .new, .mark 3, .new] = [.new, .mark 3, .new] := by decide
example : (runAlloc exState [.new, .reuse 11, .new, .mark 3, .new]).2 = [11, 11, 12] ∧
    (runAlloc exState (dropCancelled [.new, .reuse 11, .new, .mark 3, .new])).2 = [11, 12] := by
  decide
-- without the discipline a number can come back later: this is what `handed_out_twice_needs_reuse`
-- describes (the `reuse 11` happens while nextFile = 12)
example : (runAlloc exState [.new, .new, .reuse 12, .reuse 11, .new]).2 = [11, 12, 11] := by decide
example : ¬ Disciplined exState [.new, .new, .reuse 12, .reuse 11, .new] := by
  simp [Disciplined, exState, newFileNumber]
example : 17 < (markFileNumber exState 17).nextFile := mark_above _ _

end Lcdb.C13
