import LcdbModel.Model.Lsm
import LcdbModel.Model.DbIter
namespace Lcdb.C13
open Lcdb

end Lcdb.C13
