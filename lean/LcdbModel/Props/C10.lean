/-
  C10 — concurrent calls on one database handle, its caches and snapshots never constitute a data race.

  What is proved here:
  (1) a *discipline theorem* over the happens-before model of Model/HB.lean: a trace in which every plain
      location is accessed according to its class (`guarded` by mutexes, `published` through a
      release/acquire pair, `threadLocal`, `immutableAfterInit`) has no data race
      (`discipline_implies_drf`);
  (2) the *obligations that tie the discipline to /repo's current source*, re-proved by kernel evaluation
      against the tables the translators T3/T4 (tools/gen_conc.py) regenerate on every check:
      `lock_table_ok`, `call_table_ok`, `lock_entry_ok` (every access to mutex-protected state is made with
      the mutex held, modulo the single-threaded phases and the allow-list of Spec/ConcPolicy.lean),
      `atomics_ok` (the publication-relevant atomics use strong enough orders), `translators_clean`;
  (3) the skiplist publication protocol (Props/C10Skiplist.lean, `publish_safe`,
      `reader_sees_sorted_superset`) instantiated with the orders found in the source (`skiplist_orders_ok`).

  What is NOT proved: that the C program's executions are the traces of the model (that needs a C
  semantics); the link is the syntactic tables of (2) plus the ThreadSanitizer workload of checks/C10.py.
-/
import LcdbModel.Model.HB
import LcdbModel.Spec.ConcPolicy
namespace Lcdb.C10
open Lcdb.Conc Lcdb.HB Lcdb.ConcPolicy

/-! ## (2) obligations against the current source -/

/-- T4: every access to mutex-protected state of src/db_impl.c (struct ldb_s, iterator state), src/util/cache.c
    (LRU shards, id counter), src/util/thread_pool.c and every write of a table-cache field is made with the
    protecting mutex held — or is definitely made without it inside a listed single-threaded phase or is one of
    the individually justified rows of `knownUnlocked`.  Rows the translator could not judge (`unknown`) fail. -/
theorem lock_table_ok : ∀ row ∈ Generated.lockTable,
    row.held = .yes ∨ (row.held = .no ∧ (row.function ∈ singleThreadedNames ∨ isKnownUnlocked row = true)) := by
  decide +kernel

/-- the same statement as an empty list of offending rows (this is what checks/C10.py prints on failure) -/
theorem lockViolations_nil : lockViolations = [] := by decide +kernel

/-- T4, call sites: a function that asserts (or is inferred) to be entered with the mutex held is only called with
    it held; a function that takes the mutex itself is never called with it held (self-deadlock); the mutex is
    passed on only to `ldb_versions_apply`, with the mutex held. -/
theorem call_table_ok : ∀ c ∈ Generated.callTable, callRowOk c = true := by decide +kernel

/-- T4, balance: every function leaves the mutex in the state in which it is entered, and no function has
    irreconcilable call sites. -/
theorem lock_entry_ok : ∀ e ∈ Generated.lockEntry, entryRowOk e = true := by decide +kernel

/-- the fields the property lists are still declared under the "protected by mutex" comments, and the allow-lists
    contain no stale entry -/
theorem protected_fields_ok : protectedMissing = [] ∧ unusedAllowances = [] := by decide +kernel

/-- T3: no atomic object is accessed without the macros, every call site was parsed, and every atomic operation
    of the in-scope files has a policy row whose minimal order it satisfies: skiplist links are published with
    release and followed with acquire, the no-barrier helpers are called only from `ldb_skiplist_insert`,
    `shutting_down` / `has_imm` stores are release and loads acquire (the one relaxed `has_imm` hint is re-checked
    under the mutex), counters and statistics may be relaxed. -/
theorem atomics_ok :
    (∀ r ∈ Generated.atomics, atomicRowOk r = true) ∧ wrapperViolations = [] ∧
    insertPublishesLast = true ∧ readersUseAcquire = true ∧ hasImmRecheck = true := by
  decide +kernel

theorem atomicsViolations_nil : atomicsViolations = [] := by decide +kernel

/-- translator self-checks: tokenizer and gcc's preprocessor agree on the number of atomic call sites per file;
    no unparsed construct, no undecided conditional group in the analysed files -/
theorem translators_clean : crossCheckMismatch = [] ∧ translatorNotes = [] := by decide +kernel

/-- the orders of the two skiplist link helpers in the current source -/
theorem skiplist_orders_found : skiplistStoreOrder = some .release ∧ skiplistLoadOrder = some .acquire := by
  decide +kernel

/-! ## (1) the discipline theorem -/

/-- how a plain memory location may be accessed -/
inductive Class where
  /-- every write is made holding ALL mutexes of `ms`, every read holding AT LEAST ONE (`ms ≠ []`).
      `guarded [m]` is the usual "protected by mutex m"; `guarded [m, token]` is the writer-queue pattern of
      ldb_write (db->log, db->logfile, db->mem: written under db->mutex by the head writer, read either under
      the mutex or by the head writer). -/
  | guarded (ms : List Mutex)
  /-- written only by thread `c`, before a release store to atomic `a`; read by another thread only after an
      acquire load of `a` that read that store (or a later release store of `c`: see `PublishedTo`) -/
  | published (a : AVar) (c : Tid)
  | threadLocal (t : Tid)
  /-- written only by the constructing thread `c`; any other thread reads it only after an event that
      happens-after a point of `c` that follows all the writes (the handle is handed over through some
      synchronisation: thread creation, a mutex, ...) -/
  | immutableAfterInit (c : Tid)

abbrev byMutex (m : Mutex) : Class := .guarded [m]

/-- thread `t`'s read at `i` of a location whose write `w` (by `c`) it may only see through atomic `a`:
    `c` made a release store `s` after `w`, and `t` acquire-loaded THAT store before `i`.
    (Release sequence used: the stores of the creating thread itself — reading a later release store `s'` of `c`
    is the same statement with `s := s'`, since `w < s'` too.) -/
def PublishedTo (tr : Trace) (a : AVar) (c t : Tid) (w i : Nat) : Prop :=
  ∃ s l o o' tag, w < s ∧ tr[s]? = some (c, Ev.astore a o tag) ∧ o.isRelease = true ∧
    s < l ∧ tr[l]? = some (t, Ev.aload a o' (some tag)) ∧ o'.isAcquire = true ∧ l < i

/-- the access at index `i` (thread `t`, location `x`) respects the class of `x` -/
def AccessOk (tr : Trace) (cls : Loc → Class) (i : Nat) (t : Tid) (x : Loc) (isWrite : Bool) : Prop :=
  match cls x with
  | .guarded ms => ms ≠ [] ∧ (if isWrite then ∀ m ∈ ms, Holds tr t m i else ∃ m ∈ ms, Holds tr t m i)
  | .threadLocal t0 => t = t0
  | .published a c =>
      (isWrite = true → t = c) ∧
      (isWrite = false → t ≠ c → ∀ w, tr[w]? = some (c, Ev.write x) → PublishedTo tr a c t w i)
  | .immutableAfterInit c =>
      (isWrite = true → t = c) ∧
      (isWrite = false → t ≠ c → ∃ h e, tr[h]? = some (c, e) ∧ (∀ w, tr[w]? = some (c, Ev.write x) → w < h) ∧ HB tr h i)

/-- the trace respects the classification of its locations -/
def Respects (tr : Trace) (cls : Loc → Class) : Prop :=
  ∀ i t e x w, tr[i]? = some (t, e) → e.access = some (x, w) → AccessOk tr cls i t x w

private theorem access_write {e : Ev} {x : Loc} (h : e.access = some (x, true)) : e = Ev.write x := by
  cases e <;> simp [Ev.access] at h
  · subst h; rfl

/-- **Discipline theorem.**  A well-formed trace (mutual exclusion of mutexes) that respects a classification of
    its plain locations into mutex-guarded, published, thread-local and immutable-after-init has no data race. -/
theorem discipline_implies_drf (tr : Trace) (cls : Loc → Class) (wf : WellFormed tr) (hr : Respects tr cls) : DRF tr := by
  intro i j hrace
  obtain ⟨t1, t2, e1, e2, x, w1, w2, hij, h1, h2, hne, ha1, ha2, hw, hnhb⟩ := hrace
  have ok1 := hr i t1 e1 x w1 h1 ha1
  have ok2 := hr j t2 e2 x w2 h2 ha2
  unfold AccessOk at ok1 ok2
  cases hc : cls x with
  | guarded ms =>
    rw [hc] at ok1 ok2
    simp only at ok1 ok2
    obtain ⟨hms, k1⟩ := ok1
    obtain ⟨_, k2⟩ := ok2
    -- a mutex held at both accesses
    have common : ∃ m, Holds tr t1 m i ∧ Holds tr t2 m j := by
      cases w1 with
      | true =>
        cases w2 with
        | true =>
          simp only [if_true] at k1 k2
          cases ms with
          | nil => exact absurd rfl hms
          | cons m rest => exact ⟨m, k1 m (List.mem_cons_self ..), k2 m (List.mem_cons_self ..)⟩
        | false =>
          simp only [if_true] at k1
          simp only [Bool.false_eq_true, if_false] at k2
          obtain ⟨m, hm, hh⟩ := k2
          exact ⟨m, k1 m hm, hh⟩
      | false =>
        cases w2 with
        | true =>
          simp only [Bool.false_eq_true, if_false] at k1
          simp only [if_true] at k2
          obtain ⟨m, hm, hh⟩ := k1
          exact ⟨m, hh, k2 m hm⟩
        | false => simp at hw
    obtain ⟨m, hh1, hh2⟩ := common
    exact hnhb (ordered_of_common_mutex wf hij h1 h2 hne hh1 hh2)
  | threadLocal t0 =>
    rw [hc] at ok1 ok2
    simp only at ok1 ok2
    exact hne (ok1.trans ok2.symm)
  | published a c =>
    rw [hc] at ok1 ok2
    simp only at ok1 ok2
    cases w1 with
    | true =>
      have ht1 : t1 = c := ok1.1 rfl
      cases w2 with
      | true => exact hne (ht1.trans (ok2.1 rfl).symm)
      | false =>
        -- write (by c) at i, foreign read at j: the reader acquired a release store made after the write
        have hw1 := access_write ha1
        subst hw1
        subst ht1
        obtain ⟨s, l, o, o', tag, hws, hs, ho, hsl, hl, ho', hlj⟩ := ok2.2 rfl (Ne.symm hne) i h1
        exact hnhb (HB.trans (HB.po hws h1 hs) (HB.trans (HB.sw hsl hs ho hl ho') (HB.po hlj hl h2)))
    | false =>
      cases w2 with
      | true =>
        -- foreign read at i, write at j > i: impossible, the read must come after a store that follows the write
        have ht2 : t2 = c := ok2.1 rfl
        have hw2 := access_write ha2
        subst hw2
        subst ht2
        obtain ⟨s, l, _, _, _, hws, _, _, hsl, _, _, hli⟩ := ok1.2 rfl hne j h2
        omega
      | false => simp at hw
  | immutableAfterInit c =>
    rw [hc] at ok1 ok2
    simp only at ok1 ok2
    cases w1 with
    | true =>
      have ht1 : t1 = c := ok1.1 rfl
      cases w2 with
      | true => exact hne (ht1.trans (ok2.1 rfl).symm)
      | false =>
        have hw1 := access_write ha1
        subst hw1
        subst ht1
        obtain ⟨h, e, hh, hall, hhb⟩ := ok2.2 rfl (Ne.symm hne)
        exact hnhb (HB.trans (HB.po (hall i h1) h1 hh) hhb)
    | false =>
      cases w2 with
      | true =>
        have ht2 : t2 = c := ok2.1 rfl
        have hw2 := access_write ha2
        subst hw2
        subst ht2
        obtain ⟨h, e, hh, hall, hhb⟩ := ok1.2 rfl hne
        have := hall j h2
        have := hhb.lt
        omega
      | false => simp at hw

/-! ### non-vacuity -/

/-- thread 1 writes x under mutex 0, thread 2 reads it under mutex 0 -/
def exGuarded : Trace :=
  [(1, .acq 0), (1, .write 7), (1, .rel 0), (2, .acq 0), (2, .read 7), (2, .rel 0)]

/-- thread 1 initialises node 7 and publishes it through atomic 3 (release); thread 2 acquires and reads -/
def exPublished : Trace :=
  [(1, .write 7), (1, .astore 3 .release 100), (2, .aload 3 .acquire (some 100)), (2, .read 7)]

private theorem getElem?_some_lt {α} {l : List α} {i : Nat} {v : α} (h : l[i]? = some v) : i < l.length := by
  rcases Nat.lt_or_ge i l.length with hlt | hge
  · exact hlt
  · rw [List.getElem?_eq_none hge] at h; cases h

example : WellFormed exGuarded := by
  constructor
  · intro a1 a2 t1 t2 m hlt h1 h2
    have b1 := getElem?_some_lt h1
    have b2 := getElem?_some_lt h2
    simp only [exGuarded, List.length] at b1 b2
    have : (a1 = 0 ∧ a2 = 3) := by
      rcases a1 with _ | _ | _ | _ | _ | _ | a1 <;> rcases a2 with _ | _ | _ | _ | _ | _ | a2 <;>
        simp [exGuarded] at h1 h2 <;> omega
    obtain ⟨rfl, rfl⟩ := this
    simp [exGuarded] at h1 h2
    obtain ⟨rfl, rfl⟩ := h1
    exact ⟨2, by omega, by omega, by simp [exGuarded]⟩
  · intro i j t1 t2 a o1 o2 tag h1 h2
    have b1 := getElem?_some_lt h1
    simp only [exGuarded, List.length] at b1
    rcases i with _ | _ | _ | _ | _ | _ | i <;> simp [exGuarded] at h1 <;> omega

example : Respects exGuarded (fun _ => byMutex 0) := by
  intro i t e x w h ha
  have b := getElem?_some_lt h
  simp only [exGuarded, List.length] at b
  rcases i with _ | _ | _ | _ | _ | _ | i
  · simp [exGuarded] at h; obtain ⟨_, rfl⟩ := h; simp [Ev.access] at ha
  · simp [exGuarded] at h; obtain ⟨rfl, rfl⟩ := h; simp [Ev.access] at ha; obtain ⟨rfl, rfl⟩ := ha
    refine ⟨by simp, ?_⟩
    simp only [if_true]
    intro m hm
    simp at hm; subst hm
    refine ⟨0, by omega, by simp [exGuarded], ?_⟩
    intro k h1 h2; omega
  · simp [exGuarded] at h; obtain ⟨_, rfl⟩ := h; simp [Ev.access] at ha
  · simp [exGuarded] at h; obtain ⟨_, rfl⟩ := h; simp [Ev.access] at ha
  · simp [exGuarded] at h; obtain ⟨rfl, rfl⟩ := h; simp [Ev.access] at ha; obtain ⟨rfl, rfl⟩ := ha
    refine ⟨by simp, ?_⟩
    simp only [Bool.false_eq_true, if_false]
    refine ⟨0, by simp, 3, by omega, by simp [exGuarded], ?_⟩
    intro k h1 h2; omega
  · simp [exGuarded] at h; obtain ⟨_, rfl⟩ := h; simp [Ev.access] at ha
  · omega

/-- the published example: the reader's plain read is ordered after the initialising write -/
example : HB exPublished 0 3 := by
  have e0 : exPublished[0]? = some (1, Ev.write 7) := rfl
  have e1 : exPublished[1]? = some (1, Ev.astore 3 .release 100) := rfl
  have e2 : exPublished[2]? = some (2, Ev.aload 3 .acquire (some 100)) := rfl
  have e3 : exPublished[3]? = some (2, Ev.read 7) := rfl
  exact HB.trans (HB.po (by omega) e0 e1) (HB.trans (HB.sw (by omega) e1 rfl e2 rfl) (HB.po (by omega) e2 e3))

/-- a racy trace IS a race in the model (the definitions are not vacuous): two unsynchronised writes -/
def exRacy : Trace := [(1, .write 7), (2, .write 7)]

private theorem exRacy_at {i : Nat} {t : Tid} {e : Ev} (h : exRacy[i]? = some (t, e)) :
    (i = 0 ∧ t = 1 ∧ e = Ev.write 7) ∨ (i = 1 ∧ t = 2 ∧ e = Ev.write 7) := by
  rcases i with _ | _ | i
  · simp [exRacy] at h; obtain ⟨rfl, rfl⟩ := h; exact Or.inl ⟨rfl, rfl, rfl⟩
  · simp [exRacy] at h; obtain ⟨rfl, rfl⟩ := h; exact Or.inr ⟨rfl, rfl, rfl⟩
  · simp [exRacy] at h

theorem exRacy_no_hb : ∀ i j, HB exRacy i j → False := by
  intro i j h
  induction h with
  | po hlt h1 h2 =>
    rcases exRacy_at h1 with ⟨a, b, _⟩ | ⟨a, b, _⟩ <;> rcases exRacy_at h2 with ⟨c, d, _⟩ | ⟨c, d, _⟩
    · omega
    · rw [b] at d; cases d
    · omega
    · omega
  | lock hlt h1 h2 => rcases exRacy_at h1 with ⟨_, _, h⟩ | ⟨_, _, h⟩ <;> cases h
  | fork hlt h1 h2 => rcases exRacy_at h1 with ⟨_, _, h⟩ | ⟨_, _, h⟩ <;> cases h
  | join hlt h1 h2 => rcases exRacy_at h2 with ⟨_, _, h⟩ | ⟨_, _, h⟩ <;> cases h
  | sw hlt h1 _ h2 _ => rcases exRacy_at h1 with ⟨_, _, h⟩ | ⟨_, _, h⟩ <;> cases h
  | trans h1 h2 _ _ =>
    have := h1.lt
    have := h2.lt
    have := h2.lt_length
    simp only [exRacy, List.length] at this
    omega

example : Race exRacy 0 1 :=
  ⟨1, 2, .write 7, .write 7, 7, true, true, by omega, rfl, rfl, by decide, rfl, rfl, rfl,
    fun h => exRacy_no_hb 0 1 h⟩

end Lcdb.C10
