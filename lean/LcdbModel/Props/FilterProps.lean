/-
  Final theorems for the bloom filter, the filter block, the internal filter policy wrapper,
  the block handle and the footer
  (models: Model/Bloom.lean, Model/FilterBlock.lean, Model/TableFormat0.lean).
-/
import LcdbModel.Generated.Consts
import LcdbModel.Lemmas.Bloom
import LcdbModel.Lemmas.FilterBlock
import LcdbModel.Lemmas.TableFormat0
namespace Lcdb

/-! ### constants extracted from the current source equal the model's constants -/

theorem filterConsts_ok : Generated.filterBaseLg = filterBaseLg ∧ Generated.tableMagic = tableMagic ∧
    Generated.handleMaxLen = handleMaxLen ∧ Generated.footerSize = footerSize := by decide

/-! ### bloom filter -/

/-- `bloom_build` appends `bloom_size(n)` bytes plus the probe count byte -/
theorem bloomBuild_length (bits : Nat) (keys : List Bytes) :
    (bloomBuild bits keys).length = bloomBytes bits keys.length + 1 := by
  unfold bloomBuild
  rw [List.length_append, Array.length_toList, bloomBitsArray_size]; rfl

/-- a filter is never shorter than 64 bits + 1 byte -/
theorem bloomBuild_length_ge (bits : Nat) (keys : List Bytes) : 9 ≤ (bloomBuild bits keys).length := by
  rw [bloomBuild_length]; have := bloomBytes_ge bits keys.length; omega

/-- the last byte is the number of probes, between 1 and 30 -/
theorem bloomBuild_last (bits : Nat) (keys : List Bytes) :
    (bloomBuild bits keys).getLast? = some (UInt8.ofNat (bloomK bits)) ∧
      1 ≤ bloomK bits ∧ bloomK bits ≤ 30 := by
  refine ⟨?_, bloomK_le bits⟩
  unfold bloomBuild; simp

theorem bloomBuild_getD_last (bits : Nat) (keys : List Bytes) :
    (bloomBuild bits keys).getD (bloomBytes bits keys.length) 0 = UInt8.ofNat (bloomK bits) := by
  have hl : (bloomBitsArray bits keys).toList.length = bloomBytes bits keys.length := by
    rw [Array.length_toList, bloomBitsArray_size]
  unfold bloomBuild
  rw [List.getD_eq_getElem?_getD, List.getElem?_append_right (by omega), hl, Nat.sub_self]
  rfl

/-- **No false negatives**, for every key set (duplicates, empty keys, any size) and every
    `bits_per_key`: a key that was given to `bloom_build` is matched by `bloom_match`. -/
theorem bloom_no_false_negative (bits : Nat) (keys : List Bytes) (k : Bytes) (h : k ∈ keys) :
    bloomMatch (bloomBuild bits keys) k = true := by
  have hk := bloomK_le bits
  have hsz := bloomBitsArray_size bits keys
  have hge := bloomBytes_ge bits keys.length
  have hlen : (bloomBuild bits keys).length = bloomBytes bits keys.length + 1 := bloomBuild_length bits keys
  unfold bloomMatch
  have h2 : ¬ (bloomBuild bits keys).length < 2 := by omega
  simp only [h2, if_false]
  have hkb : ((bloomBuild bits keys).getD ((bloomBuild bits keys).length - 1) 0).toNat = bloomK bits := by
    rw [hlen, Nat.add_sub_cancel, bloomBuild_getD_last, UInt8.toNat_ofNat']; omega
  rw [hkb]
  have h30 : ¬ bloomK bits > 30 := by omega
  simp only [h30, if_false]
  rw [hlen]
  simp only [Nat.add_sub_cancel]
  unfold bloomBuild
  apply bloomProbeGo_of_probeAll _ _ _ _ (by omega) (by rw [hsz])
  unfold bloomBitsArray
  apply foldl_bloomAdd_probeAll _ _ _ _ h _ (by omega)
  simp

example : bloomMatch (bloomBuild 10 [[1, 2, 3], [], [255, 255]]) [] = true :=
  bloom_no_false_negative 10 _ _ (by simp)

/-- reserved encodings (`k > 30` in the last byte) are treated as a match -/
theorem bloomMatch_reserved (filter key : Bytes) (hl : 2 ≤ filter.length)
    (hk : (filter.getD (filter.length - 1) 0).toNat > 30) : bloomMatch filter key = true := by
  unfold bloomMatch
  have : ¬ filter.length < 2 := by omega
  simp only [this, if_false]
  rw [if_pos hk]

/-- filters shorter than two bytes match nothing -/
theorem bloomMatch_short (filter key : Bytes) (hl : filter.length < 2) : bloomMatch filter key = false := by
  unfold bloomMatch; simp [hl]

/-- `bloom_match` reads only inside the filter it is given (arbitrary bytes) -/
theorem bloomMatch_total (filter key : Bytes) : bloomMatchC filter key = some (bloomMatch filter key) :=
  bloomMatchC_eq filter key

/-! ### policies -/

theorem bloomPolicy_sound (bits : Nat) : (bloomPolicy bits).Sound :=
  fun keys k hk => bloom_no_false_negative bits keys k hk

/-- the internal-key wrapper keeps the guarantee (on user keys: the 8-byte trailer is stripped on
    both sides) -/
theorem ifpPolicy_sound (p : Policy) (h : p.Sound) : (ifpPolicy p).Sound := by
  intro keys k hk
  exact h (keys.map stripTrailer) (stripTrailer k) (List.mem_map_of_mem hk)

/-- the wrapper only looks at the user key: two internal keys with the same user key get the same answer -/
theorem ifpPolicy_trailer_irrelevant (p : Policy) (filter k k' : Bytes)
    (h : stripTrailer k' = stripTrailer k) :
    (ifpPolicy p).mayMatch filter k' = (ifpPolicy p).mayMatch filter k := by
  simp only [ifpPolicy, h]

theorem stripTrailer_append (u t : Bytes) (ht : t.length = 8) : stripTrailer (u ++ t) = u := by
  unfold stripTrailer
  rw [List.length_append, ht, Nat.add_sub_cancel, List.take_left]

/-! ### filter block -/

/-- the reader consults the key only through the policy -/
theorem filterMatch_congr (p : Policy) (contents : Bytes) (off : Nat) (k k' : Bytes)
    (h : ∀ f, p.mayMatch f k' = p.mayMatch f k) :
    filterMatch p contents off k' = filterMatch p contents off k := by
  unfold filterMatch FilterReader.mayMatch
  simp only [h]

/-- **Every key is covered by the filter of its data block.**  For a filter block built by the call
    sequence `(start_block(off) add_key*)* finish` with non-decreasing block offsets, using any
    policy without false negatives, `matches(off', key)` is true for every key added under block
    offset `off` and every `off'` in the same 2 KiB range (in particular `off' = off`).

    The size hypothesis is a genuine limit of the format: the array offset is stored in 32 bits. -/
theorem filter_covers_block (p : Policy) (hs : p.Sound) (blocks : List (Nat × List Bytes))
    (hsorted : List.Pairwise (fun a b => a.1 ≤ b.1) blocks)
    (hsize : (filterBuild p blocks).length < 2 ^ 32)
    (off : Nat) (keys : List Bytes) (hb : (off, keys) ∈ blocks) (key : Bytes) (hk : key ∈ keys)
    (off' : Nat) (hoff : off' / filterBase = off / filterBase) :
    filterMatch p (filterBuild p blocks) off' key = true := by
  obtain ⟨fs, hfs, hcov⟩ := filterBuild_spec p hs blocks hsorted
  obtain ⟨f, hf, hm⟩ := hcov (off, keys) hb key hk
  obtain ⟨hidx, hfe⟩ := List.getElem?_eq_some_iff.mp hf
  have hlen : fs.flatten.length < 2 ^ 32 := by
    rw [hfs, layout_length] at hsize; omega
  rw [hfs]
  have hidx' : off' / filterBase < fs.length := by rw [hoff]; exact hidx
  rw [filterMatch_layout p fs off' key hlen hidx']
  simp only [hoff, hfe]; exact hm

/-- instance: the bloom policy, queried at the block's own offset -/
theorem filter_covers_block_bloom (bits : Nat) (blocks : List (Nat × List Bytes))
    (hsorted : List.Pairwise (fun a b => a.1 ≤ b.1) blocks)
    (hsize : (filterBuild (bloomPolicy bits) blocks).length < 2 ^ 32)
    (off : Nat) (keys : List Bytes) (hb : (off, keys) ∈ blocks) (key : Bytes) (hk : key ∈ keys) :
    filterMatch (bloomPolicy bits) (filterBuild (bloomPolicy bits) blocks) off key = true :=
  filter_covers_block _ (bloomPolicy_sound bits) blocks hsorted hsize off keys hb key hk off rfl

/-- instance: the table's actual configuration, InternalFilterPolicy(bloom).  Keys are internal keys
    (user key ‖ 8-byte trailer); the probe may carry ANY trailer (a different sequence number / type). -/
theorem filter_covers_block_ifp (bits : Nat) (blocks : List (Nat × List Bytes))
    (hsorted : List.Pairwise (fun a b => a.1 ≤ b.1) blocks)
    (hsize : (filterBuild (ifpPolicy (bloomPolicy bits)) blocks).length < 2 ^ 32)
    (off : Nat) (keys : List Bytes) (hb : (off, keys) ∈ blocks) (ukey t t' : Bytes)
    (ht : t.length = 8) (ht' : t'.length = 8) (hk : ukey ++ t ∈ keys) :
    filterMatch (ifpPolicy (bloomPolicy bits)) (filterBuild (ifpPolicy (bloomPolicy bits)) blocks) off (ukey ++ t')
      = true := by
  have h := filter_covers_block _ (ifpPolicy_sound _ (bloomPolicy_sound bits)) blocks hsorted hsize
    off keys hb (ukey ++ t) hk off rfl
  rw [← h]
  apply filterMatch_congr
  intro f
  exact ifpPolicy_trailer_irrelevant _ f (ukey ++ t) (ukey ++ t')
    (by rw [stripTrailer_append _ _ ht, stripTrailer_append _ _ ht'])

example : filterMatch (bloomPolicy 10)
    (filterBuild (bloomPolicy 10) [(0, [[1], [2]]), (5000, [[3]]), (5100, [[4]])]) 5100 [4] = true :=
  filter_covers_block_bloom 10 _ (by simp) (by decide) 5100 [[4]] (by simp) [4] (by simp)

/-- **Totality / no out-of-bounds read on arbitrary bytes**: the bounds-checked reader (every
    `fixed32` read, the filter slice and every probe of the policy are checked against the length of
    `contents`) never fails and agrees with the plain reader — for ANY byte string, offset and key. -/
theorem filterMatch_total (p : Policy) (hp : p.Safe) (contents : Bytes) (off : Nat) (key : Bytes) :
    filterMatchC p contents off key = some (filterMatch p contents off key) :=
  filterMatchC_eq p hp contents off key

theorem filter_no_fault (bits : Nat) (contents : Bytes) (off : Nat) (key : Bytes) :
    filterMatchC (bloomPolicy bits) contents off key = some (filterMatch (bloomPolicy bits) contents off key) ∧
    filterMatchC (ifpPolicy (bloomPolicy bits)) contents off key
      = some (filterMatch (ifpPolicy (bloomPolicy bits)) contents off key) :=
  ⟨filterMatch_total _ (bloomPolicy_safe bits) _ _ _,
   filterMatch_total _ (ifpPolicy_safe _ (bloomPolicy_safe bits)) _ _ _⟩

/-- **Errors are treated as potential matches**: a `false` answer is only ever produced for an
    in-range filter index whose `[start, limit)` is a valid range rejected by the policy, or by
    the `start == limit` "empty filter" test.  Every malformed situation (block shorter than 5
    bytes, array offset beyond the block, index beyond the offset array, `start > limit`,
    `limit` beyond the array with `start ≠ limit`) answers `true`. -/
theorem filterMatch_false_only_if (p : Policy) (contents : Bytes) (off : Nat) (key : Bytes)
    (h : filterMatch p contents off key = false) :
    let fr := filterReaderInit contents
    let idx := off / 2 ^ fr.baseLg
    let start := fixed32At contents (fr.arrayOff + idx * 4)
    let limit := fixed32At contents (fr.arrayOff + idx * 4 + 4)
    5 ≤ contents.length ∧ idx < fr.num ∧
      ((start ≤ limit ∧ limit ≤ fr.arrayOff ∧ p.mayMatch ((contents.drop start).take (limit - start)) key = false)
        ∨ (start = limit ∧ fr.arrayOff < limit)) := by
  intro fr idx start limit
  have hdata : fr.data = contents := by
    show (filterReaderInit contents).data = contents
    unfold filterReaderInit
    by_cases h5 : contents.length < 5
    · simp [h5]
    · by_cases hl : fixed32At contents (contents.length - 5) > contents.length - 5
      · simp [h5, hl]
      · simp [h5, hl]
  have hnum : contents.length < 5 → fr.num = 0 := by
    intro h5
    show (filterReaderInit contents).num = 0
    unfold filterReaderInit; simp [h5]
  unfold filterMatch FilterReader.mayMatch at h
  by_cases hidx : idx < fr.num
  · have h5 : 5 ≤ contents.length := by
      apply Decidable.byContradiction
      intro hn
      rw [hnum (by omega)] at hidx
      exact Nat.not_lt_zero _ hidx
    refine ⟨h5, hidx, ?_⟩
    have hidx' : off / 2 ^ (filterReaderInit contents).baseLg < (filterReaderInit contents).num := hidx
    simp only [hidx', if_true] at h
    rw [hdata] at h
    by_cases hc : start ≤ limit ∧ limit ≤ fr.arrayOff
    · left
      have hc' := hc
      simp only [start, limit, fr, idx] at hc'
      rw [if_pos hc'] at h
      exact ⟨hc.1, hc.2, h⟩
    · right
      have hc' := hc
      simp only [start, limit, fr, idx] at hc'
      rw [if_neg hc'] at h
      by_cases he : start = limit
      · refine ⟨he, ?_⟩
        apply Decidable.byContradiction
        intro hn
        apply hc
        exact ⟨by omega, by omega⟩
      · have he' := he
        simp only [start, limit, fr, idx] at he'
        rw [if_neg he'] at h
        exact absurd h (by simp)
  · have hidx' : ¬ off / 2 ^ (filterReaderInit contents).baseLg < (filterReaderInit contents).num := hidx
    simp only [hidx', if_false] at h
    exact absurd h (by simp)

/-- special case: fewer than 5 bytes -/
theorem filterMatch_short (p : Policy) (contents : Bytes) (off : Nat) (key : Bytes)
    (h : contents.length < 5) : filterMatch p contents off key = true := by
  cases hm : filterMatch p contents off key with
  | true => rfl
  | false => have := (filterMatch_false_only_if p contents off key hm).1; omega

/-! ### block handle and footer -/

theorem handle_roundtrip (h : BlockHandle) (rest : Bytes) (ho : h.offset < 2 ^ 64) (hs : h.size < 2 ^ 64) :
    handleRead (handleEncode h ++ rest) = some (h, rest) :=
  handleRead_handleEncode h rest ho hs

theorem handle_length (h : BlockHandle) (ho : h.offset < 2 ^ 64) (hs : h.size < 2 ^ 64) :
    2 ≤ (handleEncode h).length ∧ (handleEncode h).length ≤ handleMaxLen :=
  ⟨handleEncode_length_pos h, handleEncode_length_le h ho hs⟩

/-- fields of a footer fit `uint64_t` -/
def Footer.InRange (f : Footer) : Prop :=
  f.metaindex.offset < 2 ^ 64 ∧ f.metaindex.size < 2 ^ 64 ∧ f.index.offset < 2 ^ 64 ∧ f.index.size < 2 ^ 64

instance (f : Footer) : Decidable f.InRange := by unfold Footer.InRange; infer_instance

theorem footer_handles_le (f : Footer) (h : f.InRange) :
    (handleEncode f.metaindex ++ handleEncode f.index).length ≤ 2 * handleMaxLen := by
  have := handleEncode_length_le f.metaindex h.1 h.2.1
  have := handleEncode_length_le f.index h.2.2.1 h.2.2.2
  rw [List.length_append]; omega

/-- the serialisation of a footer always occupies exactly 48 bytes -/
theorem footer_length (f : Footer) (h : f.InRange) : (footerEncode f).length = 48 := by
  have hle := footer_handles_le f h
  unfold footerEncode
  simp only [List.length_append, List.length_replicate, fixedEnc_length']
  simp only [List.length_append, handleMaxLen] at hle ⊢
  omega

/-- **Footer round trip** (with arbitrary bytes following the footer) -/
theorem footer_roundtrip (f : Footer) (h : f.InRange) (rest : Bytes) :
    footerRead (footerEncode f ++ rest) = some (f, rest) := by
  have hle := footer_handles_le f h
  unfold footerEncode
  exact footerRead_layout f _ rest h.1 h.2.1 h.2.2.1 h.2.2.2 (by rw [List.length_replicate]; omega)

theorem footerDecode_roundtrip (f : Footer) (h : f.InRange) : footerDecode (footerEncode f) = some f := by
  have := footer_roundtrip f h []
  rw [List.append_nil] at this
  unfold footerDecode; rw [this]; rfl

/-- **The padding carries no information**: replacing the bytes between the end of the second
    handle and offset 40 by ANY bytes of the same length does not change what the decoder returns. -/
theorem footer_padding_irrelevant (f : Footer) (h : f.InRange) (pad : Bytes)
    (hp : pad.length = 2 * handleMaxLen - (handleEncode f.metaindex ++ handleEncode f.index).length) :
    footerDecode (handleEncode f.metaindex ++ handleEncode f.index ++ pad ++ fixedEnc 8 tableMagic)
      = footerDecode (footerEncode f) := by
  have hle := footer_handles_le f h
  rw [footerDecode_roundtrip f h]
  have := footerRead_layout f pad [] h.1 h.2.1 h.2.2.1 h.2.2.2 (by omega)
  rw [List.append_nil] at this
  unfold footerDecode; rw [this]; rfl

/-- the same, phrased as overwriting one padding byte of an encoded footer -/
theorem footer_padding_byte_irrelevant (f : Footer) (h : f.InRange) (i : Nat) (v : UInt8)
    (hlo : (handleEncode f.metaindex ++ handleEncode f.index).length ≤ i) (hhi : i < 2 * handleMaxLen) :
    footerDecode ((footerEncode f).set i v) = footerDecode (footerEncode f) := by
  have hle := footer_handles_le f h
  have hset : (footerEncode f).set i v =
      handleEncode f.metaindex ++ handleEncode f.index
        ++ (List.replicate (2 * handleMaxLen - (handleEncode f.metaindex ++ handleEncode f.index).length) 0).set
            (i - (handleEncode f.metaindex ++ handleEncode f.index).length) v
        ++ fixedEnc 8 tableMagic := by
    unfold footerEncode
    simp only
    rw [List.set_append_left _ _ (by rw [List.length_append, List.length_replicate]; omega),
      List.set_append_right _ _ hlo]
  rw [hset]
  exact footer_padding_irrelevant f h _ (by rw [List.length_set, List.length_replicate])

/-- what the decoder validates: length and magic only (plus parseability of four varint64) -/
theorem footerRead_some_iff_magic (bs : Bytes) (f : Footer) (rest : Bytes)
    (h : footerRead bs = some (f, rest)) :
    48 ≤ bs.length ∧ fixedDec ((bs.drop 40).take 8) = tableMagic ∧ rest = bs.drop 48 ∧ f.InRange := by
  unfold footerRead at h
  by_cases hl : bs.length < footerSize
  · simp [hl] at h
  · simp only [hl, if_false] at h
    by_cases hm : fixedDec ((bs.drop (footerSize - 8)).take 8) ≠ tableMagic
    · simp [hm] at h
    · simp only [hm, if_false] at h
      cases h1 : handleRead bs with
      | none => simp [h1] at h
      | some p1 =>
        obtain ⟨mh, r1⟩ := p1
        simp only [h1] at h
        cases h2 : handleRead r1 with
        | none => simp [h2] at h
        | some p2 =>
          obtain ⟨ih, r2⟩ := p2
          simp only [h2, Option.some.injEq, Prod.mk.injEq] at h
          obtain ⟨hf, hr⟩ := h
          obtain ⟨a1, a2, _⟩ := handleRead_consumes bs mh r1 h1
          obtain ⟨a3, a4, _⟩ := handleRead_consumes r1 ih r2 h2
          refine ⟨by simp [footerSize, handleMaxLen] at hl; omega, ?_, hr.symm, ?_⟩
          · simpa [footerSize, handleMaxLen] using hm
          · rw [← hf]; exact ⟨a1, a2, a3, a4⟩

/-! ### non-vacuity -/

example : footerRead (footerEncode ⟨⟨1, 2⟩, ⟨3, 4⟩⟩ ++ [9]) = some (⟨⟨1, 2⟩, ⟨3, 4⟩⟩, [9]) :=
  footer_roundtrip _ (by decide) [9]

example : (footerEncode ⟨⟨2 ^ 64 - 1, 2 ^ 64 - 1⟩, ⟨2 ^ 64 - 1, 2 ^ 64 - 1⟩⟩).length = 48 :=
  footer_length _ (by decide)

example : handleRead (handleEncode ⟨300, 2 ^ 64 - 1⟩ ++ [7]) = some (⟨300, 2 ^ 64 - 1⟩, [7]) :=
  handle_roundtrip _ _ (by decide) (by decide)

/-- junk in the padding of the footer ⟨(1,2),(3,4)⟩ (4 bytes of handles, 36 bytes of padding) -/
example : footerDecode ([1, 2, 3, 4] ++ List.replicate 36 0xAB ++ fixedEnc 8 tableMagic)
    = some ⟨⟨1, 2⟩, ⟨3, 4⟩⟩ := by
  have h := footer_padding_irrelevant ⟨⟨1, 2⟩, ⟨3, 4⟩⟩ (by decide) (List.replicate 36 0xAB)
    (by simp [handleEncode, varintEnc_lt, handleMaxLen])
  rw [footerDecode_roundtrip _ (by decide)] at h
  simpa [handleEncode, varintEnc_lt] using h

end Lcdb
