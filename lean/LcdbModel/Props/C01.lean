/-
  C01 — reads return the latest write.

  Central refinement theorem: under the invariant `Inv`, the implementation-shaped point lookup
  `get` (memtable, immutable memtable, the level-0 files whose user-key range contains the key
  newest first, then one `find_file` probe per deeper level) answers exactly what a plain sorted
  map holding every entry of the state answers (`view`).

  All proofs are in core Lean (no Mathlib, kernel-checked `decide` only); the supporting lemmas live in
  `LcdbModel.Lemmas.CmpBasic` (the comparators are lawful total orders) and
  `LcdbModel.Lemmas.Lsm`.

  Remarks on the statements
  * Sequence-number ties.  A strictly sorted run may hold a value and a deletion of one user key
    with the *same* sequence number (packed trailers `s*256+1 > s*256+0`).  `newestOf` prefers the
    earlier element on ties and so does the seek, and entries of one run stay in run order inside
    `allEntries`, so `get_eq_view` holds without any "distinct sequence numbers" hypothesis; it
    even holds at the level of entries (`getEntry_eq_newestVisible`).
  * `levelGet_eq_lookup_concat` needs only `FileOk`; `LevelSorted` is what makes the concatenation
    itself a sorted run (`Lsm.levelRun_sorted`), which `get_eq_view` uses.
-/
import LcdbModel.Lemmas.CmpBasic
import LcdbModel.Lemmas.Lsm
namespace Lcdb.C01
open Lcdb.CmpBasic

/-! ### 1. the internal-key order is a strict total order, for every comparator -/

theorem ikLt_irrefl (c : Cmp) (k : Bytes) (p : Nat) : ikLt c k p k p = false :=
  Lsm.ikLt_irrefl c k p

theorem ikLt_trans (c : Cmp) {ak : Bytes} {ap : Nat} {bk : Bytes} {bp : Nat} {dk : Bytes} {dp : Nat}
    (h1 : ikLt c ak ap bk bp = true) (h2 : ikLt c bk bp dk dp = true) : ikLt c ak ap dk dp = true :=
  Lsm.ikLt_trans c h1 h2

theorem ikLt_asymm (c : Cmp) {ak : Bytes} {ap : Nat} {bk : Bytes} {bp : Nat}
    (h : ikLt c ak ap bk bp = true) : ikLt c bk bp ak ap = false :=
  Lsm.ikLt_asymm c h

theorem ikLt_trichotomy (c : Cmp) (ak : Bytes) (ap : Nat) (bk : Bytes) (bp : Nat) :
    ikLt c ak ap bk bp = true ∨ (ak = bk ∧ ap = bp) ∨ ikLt c bk bp ak ap = true :=
  Lsm.ikLt_trichotomy c ak ap bk bp

theorem entryLt_irrefl (c : Cmp) (a : Entry) : entryLt c a a = false := Lsm.entryLt_irrefl c a

theorem entryLt_trans (c : Cmp) {a b d : Entry} (h1 : entryLt c a b = true)
    (h2 : entryLt c b d = true) : entryLt c a d = true := Lsm.entryLt_trans c h1 h2

theorem entryLt_asymm (c : Cmp) {a b : Entry} (h : entryLt c a b = true) : entryLt c b a = false :=
  Lsm.entryLt_asymm c h

/-- trichotomy up to the key the order looks at: (user key, packed trailer) -/
theorem entryLt_trichotomy (c : Cmp) (a b : Entry) :
    entryLt c a b = true ∨ (a.ukey = b.ukey ∧ a.packed = b.packed) ∨ entryLt c b a = true :=
  Lsm.entryLt_trichotomy c a b

/-- with legal kinds, the middle case of the trichotomy pins down user key, sequence and kind -/
theorem entryLt_trichotomy' (c : Cmp) (a b : Entry) (ha : a.kind ≤ 1) (hb : b.kind ≤ 1) :
    entryLt c a b = true ∨ (a.ukey = b.ukey ∧ a.seq = b.seq ∧ a.kind = b.kind) ∨
      entryLt c b a = true := by
  rcases Lsm.entryLt_trichotomy c a b with h | ⟨h1, h2⟩ | h
  · exact .inl h
  · exact .inr (.inl ⟨h1, Lsm.packed_inj (by omega) (by omega) h2⟩)
  · exact .inr (.inr h)

/-! ### 2. one sorted run -/

/-- in a strictly sorted run, seeking to `(k, s)` and accepting only the same user key finds
    exactly the newest entry of `k` with sequence `≤ s` (on a value/deletion tie in the sequence
    number both sides return the first of the two) -/
theorem runGet_eq_newest (c : Cmp) (r : Run) (k : Bytes) (s : Nat) (hs : RunSorted c r)
    (hk : ∀ e ∈ r, e.kind ≤ 1) : runGet c r k s = newestVisible c r k s :=
  Lsm.runGet_eq_newest c r k s hs hk

/-! ### 3. one deeper level -/

/-- one `find_file` probe plus the smallest-user-key guard equals a lookup in the concatenation of
    the level, including a user key whose versions straddle two files -/
theorem levelGet_eq_lookup_concat (c : Cmp) (files : List FileMeta) (k : Bytes) (s : Nat)
    (hsorted : LevelSorted c files) (hok : ∀ f ∈ files, FileOk c f) :
    ((levelFile c files k (seekPacked s)).bind fun f => runGet c f.run k s)
      = runGet c (files.flatMap (·.run)) k s :=
  Lsm.levelGet_eq_lookup_concat c files k s hsorted hok

/-- ... and that concatenation is a sorted run -/
theorem levelRun_sorted (c : Cmp) (files : List FileMeta) (hsorted : LevelSorted c files)
    (hok : ∀ f ∈ files, FileOk c f) : RunSorted c (files.flatMap (·.run)) :=
  Lsm.levelRun_sorted c files hsorted hok

/-! ### 4. level 0 -/

/-- searching the candidate files (range filter, newest first) with "first hit wins" equals
    searching ALL level-0 files newest first: a file whose user-key range does not contain `k` has
    no entry for `k`, and `mergeSort` is stable so filtering commutes with sorting -/
theorem l0_search_eq (c : Cmp) (files : List FileMeta) (k : Bytes) (s : Nat)
    (hok : ∀ f ∈ files, FileOk c f) :
    (l0Candidates c files k).findSome? (fun f => runGet c f.run k s)
      = (files.mergeSort (fun a b => decide (a.num ≥ b.num))).findSome?
          (fun f => runGet c f.run k s) :=
  Lsm.l0_search_eq c files k s hok

/-! ### 5. first hit along a recency-ordered list of runs -/

theorem firstHit_eq_newest (c : Cmp) (rs : List Run) (k : Bytes) (s : Nat)
    (hrec : rs.Pairwise (NewerThan c)) (hs : ∀ r ∈ rs, RunSorted c r)
    (hk : ∀ r ∈ rs, ∀ e ∈ r, e.kind ≤ 1) :
    rs.findSome? (fun r => runGet c r k s) = newestVisible c rs.flatten k s :=
  Lsm.firstHit_eq_newest c rs k s hrec hs hk

/-! ### 6. the refinement theorem -/

/-- entry-level form: the implementation's search returns exactly the newest visible entry -/
theorem getEntry_eq_newestVisible (c : Cmp) (st : DbState) (h : Inv c st) (k : Bytes) (s : Nat) :
    getEntry c st k s = newestVisible c (allEntries st) k s :=
  Lsm.getEntry_eq_newestVisible c st h k s

/-- **C01**: under the invariant, the implementation's lookup equals what a plain sorted map of
    all entries dictates -/
theorem get_eq_view (c : Cmp) (st : DbState) (h : Inv c st) (k : Bytes) (s : Nat) :
    get c st k s = view c (allEntries st) k s := by
  unfold get view
  rw [getEntry_eq_newestVisible c st h k s]

/-! what `view` means: the visible entry of greatest sequence number -/

theorem newestOf_max {l : List Entry} {m : Entry} (h : newestOf l = some m) :
    ∀ x ∈ l, x.seq ≤ m.seq := by
  induction l generalizing m with
  | nil => intro x hx; cases hx
  | cons e es ih =>
    simp only [newestOf] at h
    cases h' : newestOf es with
    | none =>
      have := Lsm.newestOf_eq_none.mp h'
      subst this
      rw [h'] at h; simp only [Option.some.injEq] at h; subst h
      intro x hx; simp at hx; subst hx; exact Nat.le_refl _
    | some m' =>
      rw [h'] at h; simp only at h
      have ih := ih h'
      intro x hx
      split at h <;> simp only [Option.some.injEq] at h <;> subst h <;>
        rcases List.mem_cons.mp hx with rfl | hx
      · exact Nat.le_refl _
      · have := ih x hx; omega
      · omega
      · exact ih x hx

theorem newestVisible_spec {c : Cmp} {es : List Entry} {k : Bytes} {s : Nat} {m : Entry}
    (h : newestVisible c es k s = some m) :
    m ∈ es ∧ m.ukey = k ∧ m.seq ≤ s ∧ ∀ x ∈ es, x.ukey = k → x.seq ≤ s → x.seq ≤ m.seq := by
  obtain ⟨h1, h2, h3⟩ := Lsm.newestVisible_mem h
  exact ⟨h1, h2, h3, fun x hx hxk hxs => newestOf_max h x (Lsm.mem_visibleEntries.mpr ⟨hx, hxk, hxs⟩)⟩

theorem newestVisible_eq_none_iff {c : Cmp} {es : List Entry} {k : Bytes} {s : Nat} :
    newestVisible c es k s = none ↔ ∀ x ∈ es, x.ukey = k → ¬ x.seq ≤ s := by
  unfold newestVisible
  rw [Lsm.newestOf_eq_none, List.eq_nil_iff_forall_not_mem]
  simp only [Lsm.mem_visibleEntries, not_and]

/-- reads return the latest write: if `e` is the write to `k` with the greatest sequence number
    `≤ s` in the whole state, `get` answers `e` (its value, or NOTFOUND for a deletion) -/
theorem get_latest_write (c : Cmp) (st : DbState) (h : Inv c st) (k : Bytes) (s : Nat) (e : Entry)
    (he : e ∈ allEntries st) (hek : e.ukey = k) (hes : e.seq ≤ s)
    (hmax : ∀ x ∈ allEntries st, x.ukey = k → x.seq ≤ s → x.seq < e.seq ∨ x = e) :
    get c st k s = if e.kind == 1 then some e.val else none := by
  rw [get_eq_view c st h k s]
  unfold view
  cases hm : newestVisible c (allEntries st) k s with
  | none => exact absurd hes (newestVisible_eq_none_iff.mp hm e he hek)
  | some m =>
    obtain ⟨h1, h2, h3, h4⟩ := newestVisible_spec hm
    have := h4 e he hek hes
    rcases hmax m h1 h2 h3 with hlt | rfl
    · omega
    · rfl

/-- a key never written (no entry at or below `s`) is NOTFOUND -/
theorem get_absent (c : Cmp) (st : DbState) (h : Inv c st) (k : Bytes) (s : Nat)
    (hno : ∀ x ∈ allEntries st, x.ukey = k → ¬ x.seq ≤ s) : get c st k s = none := by
  rw [get_eq_view c st h k s]
  unfold view
  rw [newestVisible_eq_none_iff.mpr hno]

/-! ### 8. the executable check implies the invariant -/

theorem invCheck_sound (c : Cmp) (st : DbState) (h : invCheck c st = none) : Inv c st :=
  Lsm.invCheck_sound c st h

/-! ### 7. non-vacuity: a concrete state satisfying `Inv` -/

section Example

def ent (k : UInt8) (seq kind : Nat) (v : String) : Entry :=
  { ukey := [k], seq := seq, kind := kind, val := v }

/-- file metadata computed from a non-empty run -/
def mkFile (num : Nat) (r : Run) : FileMeta :=
  let h := r.head?.getD (ent 0 0 0 "")
  let l := r.getLast?.getD (ent 0 0 0 "")
  { num := num, size := r.length, sk := h.ukey, sp := h.packed, lk := l.ukey, lp := l.packed, run := r }

/-- level 0, older, user keys a..e (overlaps `f12`) -/
def f9 := mkFile 9 [ent 97 14 0 "", ent 99 13 1 "c13", ent 101 12 1 "e12"]
/-- level 0, newer, user keys b..d -/
def f12 := mkFile 12 [ent 98 16 1 "b16", ent 100 15 1 "d15"]
/-- level 1: user key `e` straddles `f7` and `f8` -/
def f7 := mkFile 7 [ent 99 11 1 "c11", ent 101 10 1 "e10"]
def f8 := mkFile 8 [ent 101 9 1 "e9", ent 102 8 1 "f8"]
/-- level 3: a value and a deletion of `d` with the same sequence number, and a tombstone for `g` -/
def f3 := mkFile 3 [ent 100 5 1 "d5", ent 100 5 0 "", ent 103 4 0 ""]
/-- level 4: the value of `g` shadowed by the tombstone above -/
def f2 := mkFile 2 [ent 103 2 1 "g2", ent 104 1 1 "h1"]

def exSt : DbState where
  mem := [ent 97 20 1 "a20", ent 98 19 0 ""]
  imm := some [ent 97 18 1 "a18", ent 99 17 1 "c17"]
  levels := [[f9, f12], [f7, f8], [], [f3], [f2], [], []]
  lastSeq := 20
  snaps := [13, 18]
  nextFile := 13

theorem exL0 : [f9, f12].mergeSort (fun a b => decide (a.num ≥ b.num)) = [f12, f9] := by
  simp [List.mergeSort, f9, f12, mkFile]

theorem exSources : sourceRuns exSt =
    [exSt.mem, [ent 97 18 1 "a18", ent 99 17 1 "c17"], f12.run, f9.run, f7.run ++ f8.run, [],
      f3.run, f2.run, [], []] := by
  show [exSt.mem] ++ _ ++ List.map _ ([f9, f12].mergeSort _) ++ _ = _
  rw [exL0]; rfl

theorem exInv : Inv .bytewise exSt where
  nlevels := by decide
  memSorted := by decide
  immSorted := by decide
  filesOk := by decide
  levelsSorted := Lsm.levelsSorted_of_range (by decide) (by decide)
  recency := by rw [exSources]; decide
  seqBound := by decide
  kinds := by decide
  numsDistinct := by decide
  numsBound := by decide
  snapsBound := by decide

-- the executable check agrees with `exInv` (evaluated by the interpreter: a build-time sanity
-- check, not a proof; kernel `decide` cannot unfold the well-founded `mergeSort`)
#guard invCheck .bytewise exSt == none

/-- `get` on the example, computed through `get_eq_view` (`view` has no `mergeSort` in it) -/
theorem get_eq_view_examples :
    Inv .bytewise exSt ∧
    get .bytewise exSt [97] 20 = some "a20" ∧      -- a: memtable wins
    get .bytewise exSt [97] 19 = some "a18" ∧      -- a at an older snapshot: immutable memtable
    get .bytewise exSt [97] 15 = none ∧            -- a: deleted in the older level-0 file
    get .bytewise exSt [98] 20 = none ∧            -- b: deleted in the memtable ...
    get .bytewise exSt [98] 18 = some "b16" ∧      -- ... but visible at snapshot 18 (level 0)
    get .bytewise exSt [99] 13 = some "c13" ∧      -- c: level 0 beats level 1
    get .bytewise exSt [101] 20 = some "e12" ∧     -- e: level 0
    get .bytewise exSt [101] 11 = some "e10" ∧     -- e straddles two level-1 files: first file
    get .bytewise exSt [101] 9 = some "e9" ∧       -- ... second file
    get .bytewise exSt [100] 14 = some "d5" ∧      -- d: value/deletion tie at sequence 5, value first
    get .bytewise exSt [103] 20 = none ∧           -- g: deeper tombstone shadows a deeper value
    get .bytewise exSt [103] 3 = some "g2" ∧       -- ... which is visible below the tombstone
    get .bytewise exSt [104] 20 = some "h1" ∧      -- h: deepest non-empty level
    get .bytewise exSt [122] 20 = none := by       -- z: never written
  refine ⟨exInv, ?_, ?_, ?_, ?_, ?_, ?_, ?_, ?_, ?_, ?_, ?_, ?_, ?_, ?_⟩ <;>
    (rw [get_eq_view _ _ exInv]; decide)

-- the same evaluations run directly on `get` by the interpreter (build-time sanity check)
#guard get .bytewise exSt [97] 20 == some "a20" && get .bytewise exSt [97] 19 == some "a18" &&
  get .bytewise exSt [97] 15 == none && get .bytewise exSt [98] 20 == none &&
  get .bytewise exSt [98] 18 == some "b16" && get .bytewise exSt [99] 13 == some "c13" &&
  get .bytewise exSt [101] 20 == some "e12" && get .bytewise exSt [101] 11 == some "e10" &&
  get .bytewise exSt [101] 9 == some "e9" && get .bytewise exSt [100] 14 == some "d5" &&
  get .bytewise exSt [103] 20 == none && get .bytewise exSt [103] 3 == some "g2" &&
  get .bytewise exSt [104] 20 == some "h1" && get .bytewise exSt [122] 20 == none

/-- non-vacuity of `get_latest_write` on the example -/
example : get .bytewise exSt [101] 11 = some "e10" := by
  have := get_latest_write .bytewise exSt exInv [101] 11 (ent 101 10 1 "e10")
    (by decide) rfl (by decide) (by decide)
  exact this

end Example

end Lcdb.C01
