import LcdbModel.Model.Lsm
import LcdbModel.Model.DbIter
namespace Lcdb.C01
open Lcdb

end Lcdb.C01
