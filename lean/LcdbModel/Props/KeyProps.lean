/-
  Final theorems about the comparator / internal-key model (LcdbModel.Model.InternalKey):
  the bytewise comparator and the three registered user comparators are lawful total orders,
  shortest-separator / short-successor satisfy the comparator contract for all byte strings,
  internal keys round-trip, and the internal-key comparator with its separator / successor
  wrappers is a lawful total preorder (a total order on keys of at least 8 bytes).
-/
import LcdbModel.Lemmas.InternalKey
namespace Lcdb.KeyProps
open Lcdb

/-! ### 1 `bytesCmp` and `Cmp.compare c` are lawful total orders -/

theorem bytesCmp_refl (a : Bytes) : bytesCmp a a = .eq := bytesCmp_refl' a

theorem bytesCmp_antisymm (a b : Bytes) : bytesCmp a b = .eq ↔ a = b := bytesCmp_eq_iff' a b

theorem bytesCmp_swap (a b : Bytes) : bytesCmp b a = (bytesCmp a b).swap := bytesCmp_swap' a b

theorem bytesCmp_trans (a b c : Bytes) :
    bytesCmp a b = .lt → bytesCmp b c = .lt → bytesCmp a c = .lt := bytesCmp_lt_trans' a b c

theorem bytesCmp_le_lt_trans (a b c : Bytes) :
    bytesCmp a b ≠ .gt → bytesCmp b c = .lt → bytesCmp a c = .lt :=
  bytesCmp_lawful.le_lt_trans a b c

theorem bytesCmp_lt_le_trans (a b c : Bytes) :
    bytesCmp a b = .lt → bytesCmp b c ≠ .gt → bytesCmp a c = .lt :=
  bytesCmp_lawful.lt_le_trans a b c

theorem bytesCmp_le_trans (a b c : Bytes) :
    bytesCmp a b ≠ .gt → bytesCmp b c ≠ .gt → bytesCmp a c ≠ .gt :=
  bytesCmp_lawful.le_trans a b c

/-- every registered user comparator is a lawful total order on byte strings
    (`CmpLawful`: refl, `= .eq ↔` equal bytes, swap, lt-trans, le/lt mixes, le-trans) -/
theorem cmp_lawful (c : Cmp) : CmpLawful c.compare := cmp_lawful' c

/-- the same, as an explicit conjunction -/
theorem cmp_lawful_conj (c : Cmp) :
    (∀ a, c.compare a a = .eq) ∧
    (∀ a b, c.compare a b = .eq ↔ a = b) ∧
    (∀ a b, c.compare b a = (c.compare a b).swap) ∧
    (∀ a b d, c.compare a b = .lt → c.compare b d = .lt → c.compare a d = .lt) ∧
    (∀ a b d, c.compare a b ≠ .gt → c.compare b d = .lt → c.compare a d = .lt) ∧
    (∀ a b d, c.compare a b = .lt → c.compare b d ≠ .gt → c.compare a d = .lt) ∧
    (∀ a b d, c.compare a b ≠ .gt → c.compare b d ≠ .gt → c.compare a d ≠ .gt) :=
  have L := cmp_lawful' c
  ⟨L.refl, L.eq_iff, L.swap, L.lt_trans, L.le_lt_trans, L.lt_le_trans, L.le_trans⟩

/-! ### 2–3 bytewise shortest separator / short successor -/

theorem separator_contract (a b : Bytes) (h : bytesCmp a b = .lt) :
    bytesCmp a (shortestSeparator a b) ≠ .gt ∧ bytesCmp (shortestSeparator a b) b = .lt :=
  separator_contract' a b h

theorem successor_contract (a : Bytes) : bytesCmp a (shortSuccessor a) ≠ .gt :=
  successor_contract' a

theorem shortestSeparator_self (a : Bytes) : shortestSeparator a a = a :=
  shortestSeparator_self' a

/-! ### 4 internal-key encode / decode -/

theorem ikeyUser_ikeyEnc (u : Bytes) (seq ty : Nat) : ikeyUser (ikeyEnc u seq ty) = u :=
  ikeyUser_ikeyEnc' u seq ty

theorem ikeyNum_ikeyEnc (u : Bytes) (seq ty : Nat) (h : packSeqType seq ty < 2 ^ 64) :
    ikeyNum (ikeyEnc u seq ty) = packSeqType seq ty :=
  ikeyNum_ikeyEnc' u seq ty h

theorem pkeyImport_ikeyEnc (u : Bytes) (seq ty : Nat) (hs : seq < 2 ^ 56) (ht : ty ≤ 1) :
    pkeyImport (ikeyEnc u seq ty) = some (u, seq, ty) :=
  pkeyImport_ikeyEnc' u seq ty hs ht

/-! ### 5 internal-key separator / successor -/

theorem ikey_separator_contract (c : Cmp) (x y : Bytes) (hx : 8 ≤ x.length) (hy : 8 ≤ y.length)
    (h : ikeyCmp c x y = .lt) :
    ikeyCmp c x (ikeySeparator c x y) ≠ .gt ∧ ikeyCmp c (ikeySeparator c x y) y = .lt ∧
      8 ≤ (ikeySeparator c x y).length :=
  have _ := hy  -- not needed: the limit's length plays no role
  ikey_separator_contract' c x y hx h

theorem ikey_successor_contract (c : Cmp) (x : Bytes) (hx : 8 ≤ x.length) :
    ikeyCmp c x (ikeySuccessor c x) ≠ .gt ∧ 8 ≤ (ikeySuccessor c x).length :=
  ikey_successor_contract' c x hx

/-! ### 6 `ikeyCmp` is a lawful total preorder (no length hypothesis needed), and a total
    order on keys of at least 8 bytes -/

theorem ikeyCmp_refl (c : Cmp) (x : Bytes) : ikeyCmp c x x = .eq := ikeyCmp_refl' c x

theorem ikeyCmp_swap (c : Cmp) (x y : Bytes) : ikeyCmp c y x = (ikeyCmp c x y).swap :=
  ikeyCmp_swap' c x y

theorem ikeyCmp_trans (c : Cmp) (x y z : Bytes) :
    ikeyCmp c x y = .lt → ikeyCmp c y z = .lt → ikeyCmp c x z = .lt :=
  ikeyCmp_lt_trans' c x y z

theorem ikeyCmp_le_lt_trans (c : Cmp) (x y z : Bytes) :
    ikeyCmp c x y ≠ .gt → ikeyCmp c y z = .lt → ikeyCmp c x z = .lt :=
  ikeyCmp_le_lt_trans' c x y z

theorem ikeyCmp_lt_le_trans (c : Cmp) (x y z : Bytes) :
    ikeyCmp c x y = .lt → ikeyCmp c y z ≠ .gt → ikeyCmp c x z = .lt :=
  ikeyCmp_lt_le_trans' c x y z

theorem ikeyCmp_le_trans (c : Cmp) (x y z : Bytes) :
    ikeyCmp c x y ≠ .gt → ikeyCmp c y z ≠ .gt → ikeyCmp c x z ≠ .gt :=
  ikeyCmp_le_trans' c x y z

theorem ikeyCmp_eq_iff (c : Cmp) (x y : Bytes) :
    ikeyCmp c x y = .eq ↔ ikeyUser x = ikeyUser y ∧ ikeyNum x = ikeyNum y :=
  ikeyCmp_eq_iff' c x y

/-- user key ascending, then packed (sequence, type) number descending -/
theorem ikeyCmp_lt_iff (c : Cmp) (x y : Bytes) :
    ikeyCmp c x y = .lt ↔
      c.compare (ikeyUser x) (ikeyUser y) = .lt ∨
        (ikeyUser x = ikeyUser y ∧ ikeyNum y < ikeyNum x) :=
  ikeyCmp_lt_iff' c x y

theorem ikeyCmp_gt_iff (c : Cmp) (x y : Bytes) :
    ikeyCmp c x y = .gt ↔
      c.compare (ikeyUser x) (ikeyUser y) = .gt ∨
        (ikeyUser x = ikeyUser y ∧ ikeyNum x < ikeyNum y) :=
  ikeyCmp_gt_iff' c x y

theorem ikeyCmp_ne_gt_iff (c : Cmp) (x y : Bytes) :
    ikeyCmp c x y ≠ .gt ↔
      c.compare (ikeyUser x) (ikeyUser y) = .lt ∨
        (ikeyUser x = ikeyUser y ∧ ikeyNum y ≤ ikeyNum x) :=
  ikeyCmp_ne_gt_iff' c x y

/-- on well-formed keys (≥ 8 bytes) comparing equal means being the same bytes -/
theorem ikeyCmp_eq_iff_eq (c : Cmp) (x y : Bytes) (hx : 8 ≤ x.length) (hy : 8 ≤ y.length) :
    ikeyCmp c x y = .eq ↔ x = y :=
  ikeyCmp_eq_iff_eq' c x y hx hy

/-- the length hypothesis is needed: short keys have user key `[]` and number `fixedDec` of
    everything, so distinct short keys can compare equal -/
example : ikeyCmp .bytewise [1] [1, 0] = .eq ∧ ([1] : Bytes) ≠ [1, 0] := by decide

/-! ### non-vacuity / concrete instances -/

example : bytesCmp [1, 2] [1, 3] = .lt ∧ bytesCmp [1, 3] [1, 3, 0] = .lt ∧
    bytesCmp [1, 2] [1, 3, 0] = .lt := by decide

example : Cmp.compare .reverse [1, 3] [1, 2] = .lt ∧ Cmp.compare .lenFirst [9] [1, 2] = .lt := by
  decide

/-- truncating branch of the separator: hypotheses hold and the result really is shorter -/
example : bytesCmp [1, 2, 3] [1, 5] = .lt ∧ shortestSeparator [1, 2, 3] [1, 5] = [1, 3] := by
  decide

example : bytesCmp [1, 2, 3] (shortestSeparator [1, 2, 3] [1, 5]) ≠ .gt ∧
    bytesCmp (shortestSeparator [1, 2, 3] [1, 5]) [1, 5] = .lt :=
  separator_contract [1, 2, 3] [1, 5] (by decide)

/-- non-truncating branches: adjacent bytes, 0xff, and prefix -/
example : shortestSeparator [1, 2, 3] [1, 3] = [1, 2, 3] ∧
    shortestSeparator [255, 0] [255, 0, 1] = [255, 0] ∧
    shortestSeparator [1] [1, 2] = [1] := by decide

example : shortSuccessor [255, 7, 9] = [255, 8] ∧ shortSuccessor [255, 255] = [255, 255] := by
  decide

example : packSeqType 5 1 < 2 ^ 64 := by decide

example : pkeyImport (ikeyEnc [10, 20] 5 1) = some ([10, 20], 5, 1) :=
  pkeyImport_ikeyEnc [10, 20] 5 1 (by decide) (by decide)

/-- `pkeyImport_ikeyEnc` needs `ty ≤ 1`: other type bytes are rejected -/
example : pkeyImport (ikeyEnc [10, 20] 5 2) = none := by decide

/-- the shortening branch of the internal-key separator is reachable: hypotheses of
    `ikey_separator_contract` hold and the result is a shorter user key with the
    (maxSequence, valtypeSeek) trailer -/
example :
    let x := ikeyEnc [1, 2, 3] 7 1
    let y := ikeyEnc [1, 5] 9 1
    8 ≤ x.length ∧ 8 ≤ y.length ∧ ikeyCmp .bytewise x y = .lt ∧
      ikeySeparator .bytewise x y = ikeyEnc [1, 3] maxSequence valtypeSeek := by
  decide

/-- same user key, descending sequence: hypotheses hold, nothing is shortened -/
example :
    let x := ikeyEnc [1, 2] 9 1
    let y := ikeyEnc [1, 2] 7 1
    ikeyCmp .bytewise x y = .lt ∧ ikeySeparator .bytewise x y = x := by
  decide

example :
    let x := ikeyEnc [1, 2, 3] 7 1
    8 ≤ x.length ∧ ikeySuccessor .bytewise x = ikeyEnc [2] maxSequence valtypeSeek := by
  decide

example : ikeyCmp .lenFirst (ikeyEnc [9] 1 1) (ikeyEnc [1, 2] 1 1) = .lt ∧
    ikeyCmp .reverse (ikeyEnc [2] 1 1) (ikeyEnc [1] 1 1) = .lt ∧
    ikeyCmp .bytewise (ikeyEnc [1] 2 1) (ikeyEnc [1] 2 0) = .lt := by decide

end Lcdb.KeyProps
