import LcdbModel.Props.Consts
import LcdbModel.Props.CodingProps
import LcdbModel.Model.VersionEdit
namespace Lcdb.C17
open Lcdb

end Lcdb.C17
