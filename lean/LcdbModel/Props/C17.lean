/-
  C17: version-edit (MANIFEST record) encoding.  Round trip, totality / fuel sufficiency of the
  reader, "last scalar wins / field order tolerance" for concatenated records, and the
  (level, number) set used for deleted files.
-/
import LcdbModel.Props.Consts
import LcdbModel.Props.CodingProps
import LcdbModel.Model.VersionEdit
import LcdbModel.Lemmas.VersionEdit
namespace Lcdb.C17
open Lcdb

/-! ### 1 round trip -/

/-- `ldb_edit_import (ldb_edit_export e) = e` for every well-formed edit -/
theorem edit_roundtrip (e : Edit) (h : EditWF e) : editDecode (editEncode e) = some e := by
  have := editDecodeFrom_encode e h [] {}
  rw [List.append_nil, editDecodeFrom_nil, editMerge_empty e h.deletedSorted] at this
  exact this

/-! ### 2 totality and fuel sufficiency -/

/-- the reader is a total function: every input yields a definite result (`none` = corruption) -/
theorem decode_total (bs : Bytes) : ∃ r : Option Edit, editDecode bs = r := ⟨_, rfl⟩

/-- any fuel above the input length gives the same answer as any other such fuel -/
theorem editDecodeGo_fuel_irrel (f1 f2 : Nat) (bs : Bytes) (e : Edit)
    (h1 : bs.length < f1) (h2 : bs.length < f2) :
    editDecodeGo f1 bs e = editDecodeGo f2 bs e :=
  editDecodeGo_fuel_eq f1 f2 bs e h1 h2

/-- the fuel `bs.length + 1` used by `editDecode` is sufficient: more fuel changes nothing -/
theorem editDecodeGo_fuel (f : Nat) (bs : Bytes) (e : Edit) (h : f ≥ bs.length + 1) :
    editDecodeGo f bs e = editDecodeGo (bs.length + 1) bs e :=
  editDecodeGo_fuel_eq f (bs.length + 1) bs e (by omega) (by omega)

/-- in particular the reader never fails merely for lack of fuel -/
theorem editDecode_eq_of_fuel (f : Nat) (bs : Bytes) (h : f ≥ bs.length + 1) :
    editDecodeGo f bs {} = editDecode bs :=
  editDecodeGo_fuel f bs {} h

/-! ### 3 what the reader really does on concatenated records -/

/-- decoding an encoded well-formed edit `b` followed by arbitrary bytes `rest`, starting from an
    arbitrary accumulated edit `acc`, merges `b` into `acc` and continues with `rest` -/
theorem decode_encode_append (b : Edit) (hb : EditWF b) (rest : Bytes) (acc : Edit) :
    editDecodeGo ((editEncode b ++ rest).length + 1) (editEncode b ++ rest) acc
      = editDecodeGo (rest.length + 1) rest (editMerge acc b) :=
  editDecodeFrom_encode b hb rest acc

/-- later scalar fields win, list fields accumulate, deleted files are set-inserted -/
theorem decode_last_scalar_wins (a b : Edit) (ha : EditWF a) (hb : EditWF b) :
    editDecode (editEncode a ++ editEncode b) = some (editMerge a b) := by
  have h1 := editDecodeFrom_encode a ha (editEncode b) {}
  have h2 := editDecodeFrom_encode b hb [] a
  rw [editMerge_empty a ha.deletedSorted] at h1
  rw [List.append_nil, editDecodeFrom_nil] at h2
  exact h1.trans h2

/-- `editMerge` field by field (the definition, restated as the specification) -/
theorem editMerge_spec (a b : Edit) :
    (editMerge a b).comparator = (match b.comparator with | some c => some c | none => a.comparator) ∧
    (editMerge a b).logNumber = (match b.logNumber with | some v => some v | none => a.logNumber) ∧
    (editMerge a b).prevLogNumber = (match b.prevLogNumber with | some v => some v | none => a.prevLogNumber) ∧
    (editMerge a b).nextFile = (match b.nextFile with | some v => some v | none => a.nextFile) ∧
    (editMerge a b).lastSeq = (match b.lastSeq with | some v => some v | none => a.lastSeq) ∧
    (editMerge a b).compactPointers = a.compactPointers ++ b.compactPointers ∧
    (editMerge a b).deletedFiles = b.deletedFiles.foldl (fun s x => setInsert x s) a.deletedFiles ∧
    (editMerge a b).newFiles = a.newFiles ++ b.newFiles := by
  refine ⟨?_, ?_, ?_, ?_, ?_, rfl, rfl, rfl⟩ <;> simp only [editMerge] <;> split <;> simp_all

/-- the merged deleted-file set is exactly the union -/
theorem mem_editMerge_deletedFiles (a b : Edit) (x : Nat × Nat) :
    x ∈ (editMerge a b).deletedFiles ↔ x ∈ a.deletedFiles ∨ x ∈ b.deletedFiles := by
  simp only [editMerge]
  generalize a.deletedFiles = s
  induction b.deletedFiles generalizing s with
  | nil => simp
  | cons y ys ih =>
    simp only [List.foldl_cons, ih, mem_setInsert', List.mem_cons]
    constructor
    · rintro ((h | h) | h) <;> simp [h]
    · rintro (h | h | h) <;> simp [h]

/-- and stays strictly sorted (so it is a faithful image of the C red-black set) -/
theorem editMerge_deletedFiles_sorted (a b : Edit) (h : PairSorted a.deletedFiles) :
    PairSorted (editMerge a b).deletedFiles := by
  simp only [editMerge]
  generalize a.deletedFiles = s at h
  induction b.deletedFiles generalizing s with
  | nil => simpa using h
  | cons y ys ih => exact ih _ (setInsert_sorted' y s h)

/-! ### 4 the (level, number) set -/

theorem setInsert_sorted (x : Nat × Nat) (l : List (Nat × Nat))
    (h : l.Pairwise (fun a b => pairLt a b = true)) :
    (setInsert x l).Pairwise (fun a b => pairLt a b = true) :=
  setInsert_sorted' x l h

/-- unconditional -/
theorem setInsert_idem (x : Nat × Nat) (l : List (Nat × Nat)) :
    setInsert x (setInsert x l) = setInsert x l :=
  setInsert_idem' x l

/-- unconditional -/
theorem mem_setInsert (x y : Nat × Nat) (l : List (Nat × Nat)) :
    y ∈ setInsert x l ↔ y = x ∨ y ∈ l :=
  mem_setInsert' x y l

/-! ### non-vacuity -/

/-- a well-formed edit with every field populated -/
def sampleEdit : Edit :=
  { comparator := some [108, 101, 118, 101, 108, 100, 98]
    logNumber := some 12
    prevLogNumber := some 0
    nextFile := some (2 ^ 64 - 1)
    lastSeq := some 300
    compactPointers := [(1, [1, 2, 3, 4, 5, 6, 7, 8]), (6, [9, 9, 9, 9, 9, 9, 9, 9, 9])]
    deletedFiles := [(0, 5), (0, 7), (3, 1)]
    newFiles := [{ level := 2, number := 17, size := 4096,
                   smallest := [97, 1, 0, 0, 0, 0, 0, 0, 0], largest := [122, 1, 0, 0, 0, 0, 0, 0, 0] }] }

/-- a second one whose scalars partly override and whose deleted files overlap the first -/
def sampleEdit2 : Edit :=
  { logNumber := some 13
    lastSeq := some 301
    compactPointers := [(0, [0, 0, 0, 0, 0, 0, 0, 0])]
    deletedFiles := [(0, 6), (0, 7), (4, 200)]
    newFiles := [{ level := 0, number := 18, size := 1,
                   smallest := [0, 0, 0, 0, 0, 0, 0, 0], largest := [0, 0, 0, 0, 0, 0, 0, 1] }] }

theorem sampleEdit_wf : EditWF sampleEdit := by
  constructor <;> decide

theorem sampleEdit2_wf : EditWF sampleEdit2 := by
  constructor <;> decide

example : editDecode (editEncode sampleEdit) = some sampleEdit :=
  edit_roundtrip sampleEdit sampleEdit_wf

example : editDecode (editEncode sampleEdit ++ editEncode sampleEdit2)
    = some (editMerge sampleEdit sampleEdit2) :=
  decode_last_scalar_wins sampleEdit sampleEdit2 sampleEdit_wf sampleEdit2_wf

/-- the merge really overrides / unions as described -/
example : (editMerge sampleEdit sampleEdit2).logNumber = some 13
    ∧ (editMerge sampleEdit sampleEdit2).nextFile = some (2 ^ 64 - 1)
    ∧ (editMerge sampleEdit sampleEdit2).deletedFiles = [(0, 5), (0, 6), (0, 7), (3, 1), (4, 200)] := by
  decide

/-- sortedness is needed for the round trip: an unsorted deleted-file list comes back sorted -/
theorem edit_roundtrip_needs_sorted : editDecode (editEncode { deletedFiles := [(1, 2), (0, 3)] })
    = some { deletedFiles := [(0, 3), (1, 2)] } := by
  have h := decode_last_scalar_wins { deletedFiles := [(1, 2)] } { deletedFiles := [(0, 3)] }
    (by constructor <;> decide) (by constructor <;> decide)
  have he : editEncode { deletedFiles := [(1, 2), (0, 3)] }
      = editEncode { deletedFiles := [(1, 2)] } ++ editEncode { deletedFiles := [(0, 3)] } := by
    simp [editEncode, optField]
  rw [he, h]
  decide

example : setInsert (0, 6) [(0, 5), (0, 7)] = [(0, 5), (0, 6), (0, 7)] := by decide
example : ∃ r, editDecode [7, 0] = r := decode_total _

end Lcdb.C17
