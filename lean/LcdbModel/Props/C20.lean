import LcdbModel.Props.Consts
import LcdbModel.Props.CodingProps
import LcdbModel.Model.FileName
namespace Lcdb.C20
open Lcdb

end Lcdb.C20
